(** C17 — rounding and truncation land on the right multiple: proofs.

    Layout
    A. pure arithmetic on stamps: the deltas the Rust code derives from [stamp % span] (truncating
       remainder, separate negative branches) reach the floor / ceiling / nearest multiple of the
       judge's specification ([Judge.C17.m_trunc], [m_up], [m_round]); distance bound, fixed points.
    B. the three generic helpers [duration_trunc / duration_round / duration_round_up] over an
       arbitrary carrier [T] whose [+ TimeDelta] / [- TimeDelta] move an abstract stamp exactly
       (Section hypotheses): result, error classification, idempotence.
    C. instances for NaiveDateTime and DateTime<FixedOffset> (modulo the exactness of
       [ndt_checked_add_signed] — C03's theorem — and of the timestamp readers — C02/C04).
    D. sub-second rounding: generic (modulo add-exactness) and outright for NaiveTime, including
       leap-second fractions. *)
From Coq Require Import ZArith List Bool Lia ZifyBool String.
From V Require Import Base.Int Base.IntLemmas Base.IO Gen.Round Model.TimeDelta Model.DateTime Model.Round.
From V Require Model.Date Model.Time.
From V Require Proofs.C06 Judge.C17.
Import ListNotations.
Open Scope Z_scope.
Ltac Zify.zify_post_hook ::= Z.to_euclidean_division_equations.

Notation m_trunc := V.Judge.C17.m_trunc.
Notation m_up := V.Judge.C17.m_up.
Notation m_round := V.Judge.C17.m_round.
Notation ns := V.Proofs.C06.ns.
Notation valid := V.Proofs.C06.valid.

(** * A. arithmetic *)
Lemma div_mod_P s k : 0 < k -> s = k * (s / k) + s mod k /\ 0 <= s mod k < k.
Proof. intros H. split; [apply Z.div_mod; lia | apply Z.mod_pos_bound; lia]. Qed.

(* Rust's [%] in terms of the floor remainder *)
Lemma rem_floor s k : 0 < k ->
  Z.rem s k = if s mod k =? 0 then 0 else if 0 <=? s then s mod k else s mod k - k.
Proof.
  intros Hk. destruct (0 <=? s) eqn:Hs.
  - rewrite Z.rem_mod_nonneg by lia. destruct (s mod k =? 0) eqn:E; lia.
  - replace s with (- - s) at 1 by lia. rewrite Z.rem_opp_l by lia. rewrite Z.rem_mod_nonneg by lia.
    destruct (s mod k =? 0) eqn:E.
    + rewrite Z.mod_opp_l_z by lia. reflexivity.
    + rewrite Z.mod_opp_l_nz by lia. lia.
Qed.

Lemma m_up_floor s k : 0 < k ->
  m_up s k = if s mod k =? 0 then k * (s / k) else k * (s / k) + k.
Proof.
  intros Hk. unfold V.Judge.C17.m_up. destruct (s mod k =? 0) eqn:E.
  - rewrite Z.div_opp_l_z by lia. lia.
  - rewrite Z.div_opp_l_nz by lia. lia.
Qed.

(* the delta subtracted by duration_trunc, as a function of r = stamp % span *)
Definition trunc_delta (k r : Z) : Z := if r =? 0 then 0 else if 0 <? r then r else k - Z.abs r.
Definition up_delta (k r : Z) : Z := if r =? 0 then 0 else if 0 <? r then k - r else Z.abs r.

Lemma trunc_delta_spec s k : 0 < k -> s - trunc_delta k (Z.rem s k) = m_trunc s k.
Proof.
  intros Hk. unfold trunc_delta, V.Judge.C17.m_trunc. rewrite rem_floor by lia.
  destruct (div_mod_P s k Hk) as [H1 H2]. set (P := k * (s / k)) in *. set (M := s mod k) in *. clearbody P M.
  destruct (M =? 0) eqn:E1; [cbn; lia|]. destruct (0 <=? s) eqn:E2.
  - destruct (M =? 0) eqn:E3; [lia|]. destruct (0 <? M) eqn:E4; lia.
  - destruct (M - k =? 0) eqn:E3; [lia|]. destruct (0 <? M - k) eqn:E4; lia.
Qed.
Lemma up_delta_spec s k : 0 < k -> s + up_delta k (Z.rem s k) = m_up s k.
Proof.
  intros Hk. unfold up_delta. rewrite m_up_floor by lia. rewrite rem_floor by lia.
  destruct (div_mod_P s k Hk) as [H1 H2]. set (P := k * (s / k)) in *. set (M := s mod k) in *. clearbody P M.
  destruct (M =? 0) eqn:E1; [cbn; lia|]. destruct (0 <=? s) eqn:E2.
  - destruct (M =? 0) eqn:E3; [lia|]. destruct (0 <? M) eqn:E4; lia.
  - destruct (M - k =? 0) eqn:E3; [lia|]. destruct (0 <? M - k) eqn:E4; lia.
Qed.
Lemma trunc_delta_range k r : 0 < k -> - k < r < k -> 0 <= trunc_delta k r < k.
Proof. intros. unfold trunc_delta. destruct (r =? 0) eqn:?; [lia|]. destruct (0 <? r) eqn:?; lia. Qed.
Lemma up_delta_range k r : 0 < k -> - k < r < k -> 0 <= up_delta k r < k.
Proof. intros. unfold up_delta. destruct (r =? 0) eqn:?; [lia|]. destruct (0 <? r) eqn:?; lia. Qed.
Lemma rem_range s k : 0 < k -> - k < Z.rem s k < k.
Proof. intros. rewrite rem_floor by lia. pose proof (Z.mod_pos_bound s k ltac:(lia)).
  destruct (s mod k =? 0) eqn:?; [lia|]. destruct (0 <=? s); lia. Qed.

(* duration_round: up when the way up is not longer than the way down *)
Lemma round_choice s k : 0 < k -> Z.rem s k <> 0 ->
  m_round s k = if up_delta k (Z.rem s k) <=? trunc_delta k (Z.rem s k)
                then s + up_delta k (Z.rem s k) else s - trunc_delta k (Z.rem s k).
Proof.
  intros Hk Hr. unfold V.Judge.C17.m_round, V.Judge.C17.m_trunc, trunc_delta, up_delta.
  rewrite rem_floor in * by lia.
  destruct (div_mod_P s k Hk) as [H1 H2]. set (P := k * (s / k)) in *. set (M := s mod k) in *. clearbody P M.
  destruct (M =? 0) eqn:E1; [lia|]. destruct (0 <=? s) eqn:E2.
  - destruct (M =? 0) eqn:E3; [lia|]. destruct (0 <? M) eqn:E4; [|lia].
    destruct (s - P =? 0) eqn:E5; [lia|]. destruct (k - (s - P) <=? s - P) eqn:E6; destruct (k - M <=? M) eqn:E7; lia.
  - destruct (M - k =? 0) eqn:E3; [lia|]. destruct (0 <? M - k) eqn:E4; [lia|].
    destruct (s - P =? 0) eqn:E5; [lia|].
    destruct (k - (s - P) <=? s - P) eqn:E6; destruct (Z.abs (M - k) <=? k - Z.abs (M - k)) eqn:E7; lia.
Qed.
Lemma m_round_fix s k : 0 < k -> Z.rem s k = 0 -> m_round s k = s /\ m_trunc s k = s /\ m_up s k = s.
Proof.
  intros Hk Hr. pose proof (trunc_delta_spec s k Hk) as H1. pose proof (up_delta_spec s k Hk) as H2.
  rewrite Hr in *. unfold trunc_delta, up_delta in *. cbn in H1, H2.
  unfold V.Judge.C17.m_round. rewrite <- H1. replace (s - (s - 0)) with 0 by lia. cbn. lia.
Qed.

(** Facts about the specification itself (what the property text promises). *)
Lemma m_trunc_spec s k : 0 < k ->
  (k | m_trunc s k) /\ m_trunc s k <= s < m_trunc s k + k.
Proof. intros Hk. unfold V.Judge.C17.m_trunc. destruct (div_mod_P s k Hk). split; [exists (s / k); lia | lia]. Qed.
Lemma m_up_spec s k : 0 < k ->
  (k | m_up s k) /\ m_up s k - k < s <= m_up s k.
Proof.
  intros Hk. rewrite m_up_floor by lia. destruct (div_mod_P s k Hk).
  destruct (s mod k =? 0) eqn:E; (split; [|lia]); [exists (s / k); lia | exists (s / k + 1); lia].
Qed.
Lemma m_round_spec s k : 0 < k ->
  (m_round s k = m_trunc s k \/ m_round s k = m_up s k) /\
  Z.abs (m_round s k - s) <= Z.abs (m_trunc s k - s) /\
  Z.abs (m_round s k - s) <= Z.abs (m_up s k - s) /\
  (Z.abs (m_trunc s k - s) = Z.abs (m_up s k - s) -> m_round s k = m_up s k).
Proof.
  intros Hk. rewrite m_up_floor by lia. unfold V.Judge.C17.m_round, V.Judge.C17.m_trunc. destruct (div_mod_P s k Hk).
  set (P := k * (s / k)) in *. set (M := s mod k) in *. clearbody P M.
  destruct (M =? 0) eqn:E; destruct (s - P =? 0) eqn:E1; try lia.
  destruct (k - (s - P) <=? s - P) eqn:E2; lia.
Qed.
Lemma distance_bound s k : 0 < k ->
  Z.abs (m_trunc s k - s) < k /\ Z.abs (m_up s k - s) < k /\ Z.abs (m_round s k - s) < k.
Proof.
  intros Hk. pose proof (m_trunc_spec s k Hk). pose proof (m_up_spec s k Hk). pose proof (m_round_spec s k Hk). lia.
Qed.
Lemma multiple_rem s k : 0 < k -> (k | s) -> Z.rem s k = 0.
Proof. intros Hk [q ->]. apply Z.rem_mul. lia. Qed.
Lemma rem_multiple s k : 0 < k -> Z.rem s k = 0 -> (k | s).
Proof. intros Hk H. apply Z.rem_divide; [lia|exact H]. Qed.

(** * B. the generic helpers *)
Definition W_LO := -18446744073709551616.   (* the stamps the helpers can produce lie in (-2^64, 2^64) *)
Definition W_HI := 18446744073709551616.

Definition span_bad (k : Z) : bool := (k <=? 0) || (i64_max <? k).

Lemma chko_i64 z : chko in_i64 z = if in_i64 z then Some z else None.
Proof. reflexivity. Qed.

Section Generic.
  Variable T : Type.
  Variable ops : tl T.
  Variable stampT : T -> Z.        (* the position of a value on the wall-clock nanosecond axis *)
  Variable goodT : T -> Prop.      (* well-formed, not inside a leap second *)
  Hypothesis add_exact : forall x d, goodT x -> valid d -> W_LO <= stampT x + ns d <= W_HI ->
    exists r, tl_add ops x d = Val r /\ goodT r /\ stampT r = stampT x + ns d.
  Hypothesis sub_exact : forall x d, goodT x -> valid d -> W_LO <= stampT x - ns d <= W_HI ->
    exists r, tl_sub ops x d = Val r /\ goodT r /\ stampT r = stampT x - ns d.

  Lemma ok_add_spec x n : goodT x -> in_i64 n = true -> W_LO <= stampT x + n <= W_HI ->
    exists r, ok_add ops x n = Val (inl r) /\ goodT r /\ stampT r = stampT x + n.
  Proof.
    intros Hx Hn Hw. unfold ok_add. destruct (V.Proofs.C06.nanoseconds_spec n Hn) as (d & Hd & Hns & Hv).
    rewrite Hd. cbn [bind]. destruct (add_exact x d Hx Hv ltac:(rewrite Hns; exact Hw)) as (r & Hr & Hg & Hs).
    rewrite Hr. cbn [bind]. exists r. rewrite Hns in Hs. auto.
  Qed.
  Lemma ok_sub_spec x n : goodT x -> in_i64 n = true -> W_LO <= stampT x - n <= W_HI ->
    exists r, ok_sub ops x n = Val (inl r) /\ goodT r /\ stampT r = stampT x - n.
  Proof.
    intros Hx Hn Hw. unfold ok_sub. destruct (V.Proofs.C06.nanoseconds_spec n Hn) as (d & Hd & Hns & Hv).
    rewrite Hd. cbn [bind]. destruct (sub_exact x d Hx Hv ltac:(rewrite Hns; exact Hw)) as (r & Hr & Hg & Hs).
    rewrite Hr. cbn [bind]. exists r. rewrite Hns in Hs. auto.
  Qed.

  (** What one helper call must return: [f] is the specification of the multiple. *)
  Definition helper_post (f : Z -> Z -> Z) (x : T) (k : Z) (out : T + rerr) : Prop :=
    if span_bad k then out = inr DurationExceedsLimit
    else if negb (in_i64 (stampT x)) then out = inr TimestampExceedsLimit
    else exists r, out = inl r /\ goodT r /\ stampT r = f (stampT x) k /\
                   (Z.rem (stampT x) k = 0 -> r = x).

  (* the shared prefix *)
  Lemma with_span_stamp_spec naive x d (kont : Z -> Z -> R (T + rerr)) :
    valid d -> dt_timestamp_nanos_opt naive = Val (chko in_i64 (stampT x)) ->
    with_span_stamp naive d kont =
      if span_bad (ns d) then Val (inr DurationExceedsLimit)
      else if negb (in_i64 (stampT x)) then Val (inr TimestampExceedsLimit)
      else kont (ns d) (Z.rem (stampT x) (ns d)).
  Proof.
    intros Hv Hts. unfold with_span_stamp. rewrite (V.Proofs.C06.num_nanoseconds_spec d Hv). cbn [bind].
    unfold span_bad, RD_SPAN_GUARD. destruct (in_i64 (ns d)) eqn:Ei.
    - destruct (ns d <=? 0) eqn:E0; [reflexivity|]. cbn [orb].
      replace (i64_max <? ns d) with false by (unfold in_i64, in_range, i64_max in *; lia).
      rewrite Hts. cbn [bind]. rewrite chko_i64. destruct (in_i64 (stampT x)) eqn:Es; cbn [negb]; [|reflexivity].
      unfold rem_i64. rewrite rem_t_nz by lia.
      replace (in_i64 (Z.quot (stampT x) (ns d))) with true; [reflexivity|].
      symmetry. unfold in_i64, in_range, i64_min, i64_max in *.
      assert (Z.abs (Z.quot (stampT x) (ns d)) <= Z.abs (stampT x)) by (apply V.Proofs.C06.quot_abs_le; lia). lia.
    - replace ((ns d <=? 0) || (i64_max <? ns d)) with true; [reflexivity|].
      unfold in_i64, in_range, i64_min, i64_max in *.
      destruct Hv as [_ Hr]. unfold V.Proofs.C06.in_rng, V.Proofs.C06.RMIN, V.Proofs.C06.RMAX in Hr. lia.
  Qed.

  Ltac window := unfold W_LO, W_HI, in_i64, in_range, i64_min, i64_max, span_bad, i64_max in *; lia.
  Ltac start Hx Hv Hts naive x d s k Es0 Ek0 Eb Es Hk :=
    intros Hx Hv Hts; unfold helper_post; rewrite (with_span_stamp_spec naive x d _ Hv Hts);
    destruct (span_bad (ns d)) eqn:Eb; [eexists; split; reflexivity|];
    destruct (in_i64 (stampT x)) eqn:Es; cbn [negb]; [|eexists; split; reflexivity];
    remember (stampT x) as s eqn:Es0; remember (ns d) as k eqn:Ek0;
    assert (Hk : 0 < k <= 9223372036854775807) by (unfold span_bad, i64_max in Eb; lia).
  Ltac use_sub x n Hx Es0 :=
    let r := fresh "r" in let Hr1 := fresh "Hr1" in let Hg := fresh "Hg" in let Hs := fresh "Hs" in
    destruct (ok_sub_spec x n Hx ltac:(window) ltac:(rewrite <- Es0; window)) as (r & Hr1 & Hg & Hs);
    rewrite Hr1; eexists; split; [reflexivity|]; exists r; rewrite <- Es0 in Hs; repeat split; auto; lia.
  Ltac use_add x n Hx Es0 :=
    let r := fresh "r" in let Hr1 := fresh "Hr1" in let Hg := fresh "Hg" in let Hs := fresh "Hs" in
    destruct (ok_add_spec x n Hx ltac:(window) ltac:(rewrite <- Es0; window)) as (r & Hr1 & Hg & Hs);
    rewrite Hr1; eexists; split; [reflexivity|]; exists r; rewrite <- Es0 in Hs; repeat split; auto; lia.

  Theorem duration_trunc_spec naive x d :
    goodT x -> valid d -> dt_timestamp_nanos_opt naive = Val (chko in_i64 (stampT x)) ->
    exists out, duration_trunc ops naive x d = Val out /\ helper_post m_trunc x (ns d) out.
  Proof.
    unfold duration_trunc. start Hx Hv Hts naive x d s k Es0 Ek0 Eb Es Hk.
    pose proof (rem_range s k ltac:(lia)) as Hr. pose proof (trunc_delta_spec s k ltac:(lia)) as HT.
    pose proof (m_trunc_spec s k ltac:(lia)) as [_ HM].
    unfold trunc_delta in HT. unfold cmpZ. set (r := Z.rem s k) in *. clearbody r.
    destruct (Z.compare_spec r 0) as [Ec|Ec|Ec].
    - subst r. cbn. exists (inl x). split; [reflexivity|]. exists x. cbn in HT.
      repeat split; auto; lia.
    - cbn.
      destruct (r =? 0) eqn:E0; [lia|]. destruct (0 <? r) eqn:E1; [lia|].
      unfold abs_i64. rewrite chk_in by window. cbn [bind]. unfold sub_i64. rewrite chk_in by window. cbn [bind].
      use_sub x (k - Z.abs r) Hx Es0.
    - cbn.
      destruct (r =? 0) eqn:E0; [lia|]. destruct (0 <? r) eqn:E1; [|lia].
      use_sub x r Hx Es0.
  Qed.

  Theorem duration_round_up_spec naive x d :
    goodT x -> valid d -> dt_timestamp_nanos_opt naive = Val (chko in_i64 (stampT x)) ->
    exists out, duration_round_up ops naive x d = Val out /\ helper_post m_up x (ns d) out.
  Proof.
    unfold duration_round_up. start Hx Hv Hts naive x d s k Es0 Ek0 Eb Es Hk.
    pose proof (rem_range s k ltac:(lia)) as Hr. pose proof (up_delta_spec s k ltac:(lia)) as HT.
    pose proof (m_up_spec s k ltac:(lia)) as [_ HM].
    unfold up_delta in HT. unfold cmpZ. set (r := Z.rem s k) in *. clearbody r.
    destruct (Z.compare_spec r 0) as [Ec|Ec|Ec].
    - subst r. cbn. exists (inl x). split; [reflexivity|]. exists x. cbn in HT.
      repeat split; auto; lia.
    - cbn.
      destruct (r =? 0) eqn:E0; [lia|]. destruct (0 <? r) eqn:E1; [lia|].
      unfold abs_i64. rewrite chk_in by window. cbn [bind].
      use_add x (Z.abs r) Hx Es0.
    - cbn.
      destruct (r =? 0) eqn:E0; [lia|]. destruct (0 <? r) eqn:E1; [|lia].
      unfold sub_i64. rewrite chk_in by window. cbn [bind].
      use_add x (k - r) Hx Es0.
  Qed.

  Theorem duration_round_spec naive x d :
    goodT x -> valid d -> dt_timestamp_nanos_opt naive = Val (chko in_i64 (stampT x)) ->
    exists out, duration_round ops naive x d = Val out /\ helper_post m_round x (ns d) out.
  Proof.
    unfold duration_round. start Hx Hv Hts naive x d s k Es0 Ek0 Eb Es Hk.
    pose proof (rem_range s k ltac:(lia)) as Hr.
    destruct (Z.rem s k =? 0) eqn:E0.
    - exists (inl x). split; [reflexivity|]. exists x. destruct (m_round_fix s k ltac:(lia) ltac:(lia)) as (H1 & _).
      repeat split; auto; lia.
    - pose proof (round_choice s k ltac:(lia) ltac:(lia)) as HC.
      pose proof (distance_bound s k ltac:(lia)) as (_ & _ & HD).
      unfold trunc_delta, up_delta in HC. rewrite E0 in HC.
      set (r := Z.rem s k) in *. clearbody r.
      destruct (r <? 0) eqn:E1.
      + destruct (0 <? r) eqn:E1'; [lia|].
        unfold abs_i64. rewrite chk_in by window. cbn [bind].
        unfold sub_i64. rewrite chk_in by window. cbn [bind].
        destruct (Z.abs r <=? k - Z.abs r) eqn:E2.
        * use_add x (Z.abs r) Hx Es0.
        * use_sub x (k - Z.abs r) Hx Es0.
      + destruct (0 <? r) eqn:E1'; [|lia].
        unfold sub_i64. rewrite chk_in by window. cbn [bind].
        destruct (k - r <=? r) eqn:E2.
        * use_add x (k - r) Hx Es0.
        * use_sub x r Hx Es0.
  Qed.

End Generic.

Section Post.
  Variable T : Type.
  Variable stampT : T -> Z.
  Variable goodT : T -> Prop.
  Notation hp := (helper_post T stampT goodT).
  (** Consequences of [helper_post]: multiples are returned unchanged; an [Ok] result is a
      multiple; the error classification is exact. *)
  Lemma helper_fixed f x k out : hp f x k out ->
    span_bad k = false -> in_i64 (stampT x) = true -> (k | stampT x) -> out = inl x.
  Proof.
    unfold helper_post. intros H Hb Hi Hd. rewrite Hb, Hi in H. cbn [negb] in H.
    destruct H as (r & -> & _ & _ & Hf). f_equal. apply Hf. apply multiple_rem; [unfold span_bad in Hb; lia|exact Hd].
  Qed.
  Lemma helper_ok f x k r : hp f x k (inl r) ->
    0 < k <= i64_max /\ in_i64 (stampT x) = true /\ goodT r /\ stampT r = f (stampT x) k.
  Proof.
    unfold helper_post. intros H. destruct (span_bad k) eqn:Hb; [discriminate|].
    destruct (in_i64 (stampT x)) eqn:Hi; cbn [negb] in H; [|discriminate].
    destruct H as (r' & Hr & Hg & Hs & _). injection Hr as <-. unfold span_bad in Hb. repeat split; auto; lia.
  Qed.
  Lemma helper_err f x k e : hp f x k (inr e) ->
    (e = DurationExceedsLimit /\ (k <= 0 \/ i64_max < k)) \/
    (e = TimestampExceedsLimit /\ 0 < k <= i64_max /\ in_i64 (stampT x) = false).
  Proof.
    unfold helper_post. intros H. destruct (span_bad k) eqn:Hb.
    - left. injection H as ->. unfold span_bad in Hb. split; [reflexivity|lia].
    - destruct (in_i64 (stampT x)) eqn:Hi; cbn [negb] in H.
      + destruct H as (r & Hr & _). discriminate.
      + right. injection H as ->. unfold span_bad in Hb. repeat split; lia.
  Qed.
  Lemma helper_err_iff f x k out : hp f x k out -> forall e, out = inr e <->
    (e = DurationExceedsLimit /\ (k <= 0 \/ i64_max < k)) \/
    (e = TimestampExceedsLimit /\ 0 < k <= i64_max /\ in_i64 (stampT x) = false).
  Proof.
    intros H e. split.
    - intros ->. apply (helper_err f x k e H).
    - unfold helper_post in H. intros [[-> Hk]|[-> [Hk Hi]]].
      + replace (span_bad k) with true in H by (unfold span_bad; lia). exact H.
      + replace (span_bad k) with false in H by (unfold span_bad; lia). rewrite Hi in H. exact H.
  Qed.
End Post.


Lemma m_round_multiple s k : 0 < k -> (k | m_round s k).
Proof. intros Hk. destruct (m_round_spec s k Hk) as ([->| ->] & _); [apply m_trunc_spec|apply m_up_spec]; exact Hk. Qed.

(** * C. instances *)
(** ** NaiveDateTime.  [stamp] is the wall-clock nanosecond count of a well-formed ([good]) value
    that is not inside a leap second.  The three hypotheses are theorems of the neighbouring
    properties: C02 (timestamp_nanos_opt reads the stamp, None exactly outside i64) and C03
    (checked_add_signed / checked_sub_signed move the stamp by exactly the duration). *)
Section Naive.
  Variable stamp : ndt -> Z.
  Variable good : ndt -> Prop.
  Hypothesis ts_exact : forall a, good a -> dt_timestamp_nanos_opt a = Val (chko in_i64 (stamp a)).
  Hypothesis add_exact : forall a d, good a -> valid d -> W_LO <= stamp a + ns d <= W_HI ->
    exists r, ndt_checked_add_signed a d = Val (Some r) /\ good r /\ stamp r = stamp a + ns d.
  Hypothesis sub_exact : forall a d, good a -> valid d -> W_LO <= stamp a - ns d <= W_HI ->
    exists r, ndt_checked_sub_signed a d = Val (Some r) /\ good r /\ stamp r = stamp a - ns d.

  Lemma ndt_ops_add a d : good a -> valid d -> W_LO <= stamp a + ns d <= W_HI ->
    exists r, tl_add ndt_ops a d = Val r /\ good r /\ stamp r = stamp a + ns d.
  Proof. intros H1 H2 H3. destruct (add_exact a d H1 H2 H3) as (r & Hr & Hg). exists r. split; [|exact Hg].
    cbn [tl_add ndt_ops]. unfold ndt_op_add, unwrap_r. rewrite Hr. reflexivity. Qed.
  Lemma ndt_ops_sub a d : good a -> valid d -> W_LO <= stamp a - ns d <= W_HI ->
    exists r, tl_sub ndt_ops a d = Val r /\ good r /\ stamp r = stamp a - ns d.
  Proof. intros H1 H2 H3. destruct (sub_exact a d H1 H2 H3) as (r & Hr & Hg). exists r. split; [|exact Hg].
    cbn [tl_sub ndt_ops]. unfold ndt_op_sub, unwrap_r. rewrite Hr. reflexivity. Qed.

  Definition ndt_post := helper_post ndt stamp good.

  Theorem ndt_trunc_spec a d : good a -> valid d ->
    exists out, ndt_duration_trunc a d = Val out /\ ndt_post m_trunc a (ns d) out.
  Proof. intros Ha Hd. exact (duration_trunc_spec ndt ndt_ops stamp good ndt_ops_add ndt_ops_sub a a d Ha Hd (ts_exact a Ha)). Qed.
  Theorem ndt_round_up_spec a d : good a -> valid d ->
    exists out, ndt_duration_round_up a d = Val out /\ ndt_post m_up a (ns d) out.
  Proof. intros Ha Hd. exact (duration_round_up_spec ndt ndt_ops stamp good ndt_ops_add ndt_ops_sub a a d Ha Hd (ts_exact a Ha)). Qed.
  Theorem ndt_round_spec a d : good a -> valid d ->
    exists out, ndt_duration_round a d = Val out /\ ndt_post m_round a (ns d) out.
  Proof. intros Ha Hd. exact (duration_round_spec ndt ndt_ops stamp good ndt_ops_add ndt_ops_sub a a d Ha Hd (ts_exact a Ha)). Qed.

  (* multiples are fixed points of all three operations *)
  Theorem ndt_multiples_fixed a d : good a -> valid d -> 0 < ns d <= i64_max -> in_i64 (stamp a) = true ->
    (ns d | stamp a) ->
    ndt_duration_trunc a d = Val (inl a) /\ ndt_duration_round_up a d = Val (inl a) /\ ndt_duration_round a d = Val (inl a).
  Proof.
    intros Ha Hd Hk Hi Hm. assert (Hb : span_bad (ns d) = false) by (unfold span_bad; lia).
    destruct (ndt_trunc_spec a d Ha Hd) as (o1 & E1 & P1). destruct (ndt_round_up_spec a d Ha Hd) as (o2 & E2 & P2).
    destruct (ndt_round_spec a d Ha Hd) as (o3 & E3 & P3).
    rewrite E1, E2, E3.
    rewrite (helper_fixed ndt stamp good _ a (ns d) o1 P1 Hb Hi Hm), (helper_fixed ndt stamp good _ a (ns d) o2 P2 Hb Hi Hm),
            (helper_fixed ndt stamp good _ a (ns d) o3 P3 Hb Hi Hm). auto.
  Qed.

  (* idempotence: a second application returns the first result unchanged whenever it is defined
     (the first result can lie just outside the i64 window, where an error is the documented answer) *)
  Lemma ndt_again (f : Z -> Z -> Z) (op : ndt -> td -> R (ndt + rerr)) :
    (forall s k, 0 < k -> (k | f s k)) ->
    (forall a d, good a -> valid d -> exists out, op a d = Val out /\ ndt_post f a (ns d) out) ->
    forall a d r, good a -> valid d -> op a d = Val (inl r) ->
    op r d = Val (if in_i64 (stamp r) then inl r else inr TimestampExceedsLimit).
  Proof.
    intros Hmul Hspec a d r Ha Hd E. destruct (Hspec a d Ha Hd) as (o & Eo & P). rewrite E in Eo. injection Eo as <-.
    destruct (helper_ok ndt stamp good f a (ns d) r P) as (Hk & Hi & Hg & Hs).
    destruct (Hspec r d Hg Hd) as (o' & Eo' & P'). rewrite Eo'. f_equal.
    destruct (in_i64 (stamp r)) eqn:Hir.
    - apply (helper_fixed ndt stamp good f r (ns d) o' P'); [unfold span_bad; lia|exact Hir|].
      rewrite Hs. apply Hmul. lia.
    - unfold ndt_post, helper_post in P'. replace (span_bad (ns d)) with false in P' by (unfold span_bad; lia).
      rewrite Hir in P'. exact P'.
  Qed.
  Theorem ndt_trunc_idempotent a d r : good a -> valid d -> ndt_duration_trunc a d = Val (inl r) ->
    ndt_duration_trunc r d = Val (if in_i64 (stamp r) then inl r else inr TimestampExceedsLimit).
  Proof. apply (ndt_again m_trunc); [intros; apply m_trunc_spec; assumption | exact ndt_trunc_spec]. Qed.
  Theorem ndt_round_up_idempotent a d r : good a -> valid d -> ndt_duration_round_up a d = Val (inl r) ->
    ndt_duration_round_up r d = Val (if in_i64 (stamp r) then inl r else inr TimestampExceedsLimit).
  Proof. apply (ndt_again m_up); [intros; apply m_up_spec; assumption | exact ndt_round_up_spec]. Qed.
  Theorem ndt_round_idempotent a d r : good a -> valid d -> ndt_duration_round a d = Val (inl r) ->
    ndt_duration_round r d = Val (if in_i64 (stamp r) then inl r else inr TimestampExceedsLimit).
  Proof. apply (ndt_again m_round); [intros; apply m_round_multiple; assumption | exact ndt_round_spec]. Qed.
End Naive.

(** ** DateTime<Tz> for a fixed offset.  [wall] is the wall-clock nanosecond count (UTC stamp +
    offset) of a well-formed value [goodz] not inside a leap second; [local_ts]: the wall-clock
    reading taken with [overflowing_naive_local] has the timestamp [wall] (None exactly outside
    i64, in particular when the reading leaves NaiveDateTime's range) — C02/C04; [zadd_exact]:
    C03/C04. *)
Section Zoned.
  Variable wall : dtz -> Z.
  Variable goodz : dtz -> Prop.
  Hypothesis local_ts : forall z, goodz z ->
    exists l, overflowing_naive_local z = Val l /\ dt_timestamp_nanos_opt l = Val (chko in_i64 (wall z)).
  Hypothesis zadd_exact : forall z d, goodz z -> valid d -> W_LO <= wall z + ns d <= W_HI ->
    exists r, dz_checked_add_signed z d = Val (Some r) /\ goodz r /\ wall r = wall z + ns d.
  Hypothesis zsub_exact : forall z d, goodz z -> valid d -> W_LO <= wall z - ns d <= W_HI ->
    exists r, dz_checked_sub_signed z d = Val (Some r) /\ goodz r /\ wall r = wall z - ns d.

  Lemma dz_ops_add z d : goodz z -> valid d -> W_LO <= wall z + ns d <= W_HI ->
    exists r, tl_add dz_ops z d = Val r /\ goodz r /\ wall r = wall z + ns d.
  Proof. intros H1 H2 H3. destruct (zadd_exact z d H1 H2 H3) as (r & Hr & Hg). exists r. split; [|exact Hg].
    cbn [tl_add dz_ops]. unfold dz_op_add, unwrap_r. rewrite Hr. reflexivity. Qed.
  Lemma dz_ops_sub z d : goodz z -> valid d -> W_LO <= wall z - ns d <= W_HI ->
    exists r, tl_sub dz_ops z d = Val r /\ goodz r /\ wall r = wall z - ns d.
  Proof. intros H1 H2 H3. destruct (zsub_exact z d H1 H2 H3) as (r & Hr & Hg). exists r. split; [|exact Hg].
    cbn [tl_sub dz_ops]. unfold dz_op_sub, unwrap_r. rewrite Hr. reflexivity. Qed.

  Definition dz_post := helper_post dtz wall goodz.

  Theorem dz_trunc_spec z d : goodz z -> valid d ->
    exists out, dz_duration_trunc z d = Val out /\ dz_post m_trunc z (ns d) out.
  Proof. intros Hz Hd. unfold dz_duration_trunc. destruct (local_ts z Hz) as (l & -> & Hts). cbn [bind].
    exact (duration_trunc_spec dtz dz_ops wall goodz dz_ops_add dz_ops_sub l z d Hz Hd Hts). Qed.
  Theorem dz_round_up_spec z d : goodz z -> valid d ->
    exists out, dz_duration_round_up z d = Val out /\ dz_post m_up z (ns d) out.
  Proof. intros Hz Hd. unfold dz_duration_round_up. destruct (local_ts z Hz) as (l & -> & Hts). cbn [bind].
    exact (duration_round_up_spec dtz dz_ops wall goodz dz_ops_add dz_ops_sub l z d Hz Hd Hts). Qed.
  Theorem dz_round_spec z d : goodz z -> valid d ->
    exists out, dz_duration_round z d = Val out /\ dz_post m_round z (ns d) out.
  Proof. intros Hz Hd. unfold dz_duration_round. destruct (local_ts z Hz) as (l & -> & Hts). cbn [bind].
    exact (duration_round_spec dtz dz_ops wall goodz dz_ops_add dz_ops_sub l z d Hz Hd Hts). Qed.

  Theorem dz_multiples_fixed z d : goodz z -> valid d -> 0 < ns d <= i64_max -> in_i64 (wall z) = true ->
    (ns d | wall z) ->
    dz_duration_trunc z d = Val (inl z) /\ dz_duration_round_up z d = Val (inl z) /\ dz_duration_round z d = Val (inl z).
  Proof.
    intros Ha Hd Hk Hi Hm. assert (Hb : span_bad (ns d) = false) by (unfold span_bad; lia).
    destruct (dz_trunc_spec z d Ha Hd) as (o1 & E1 & P1). destruct (dz_round_up_spec z d Ha Hd) as (o2 & E2 & P2).
    destruct (dz_round_spec z d Ha Hd) as (o3 & E3 & P3).
    rewrite E1, E2, E3.
    rewrite (helper_fixed dtz wall goodz _ z (ns d) o1 P1 Hb Hi Hm), (helper_fixed dtz wall goodz _ z (ns d) o2 P2 Hb Hi Hm),
            (helper_fixed dtz wall goodz _ z (ns d) o3 P3 Hb Hi Hm). auto.
  Qed.

  Lemma dz_again (f : Z -> Z -> Z) (op : dtz -> td -> R (dtz + rerr)) :
    (forall s k, 0 < k -> (k | f s k)) ->
    (forall a d, goodz a -> valid d -> exists out, op a d = Val out /\ dz_post f a (ns d) out) ->
    forall a d r, goodz a -> valid d -> op a d = Val (inl r) ->
    op r d = Val (if in_i64 (wall r) then inl r else inr TimestampExceedsLimit).
  Proof.
    intros Hmul Hspec a d r Ha Hd E. destruct (Hspec a d Ha Hd) as (o & Eo & P). rewrite E in Eo. injection Eo as <-.
    destruct (helper_ok dtz wall goodz f a (ns d) r P) as (Hk & Hi & Hg & Hs).
    destruct (Hspec r d Hg Hd) as (o' & Eo' & P'). rewrite Eo'. f_equal.
    destruct (in_i64 (wall r)) eqn:Hir.
    - apply (helper_fixed dtz wall goodz f r (ns d) o' P'); [unfold span_bad; lia|exact Hir|].
      rewrite Hs. apply Hmul. lia.
    - unfold dz_post, helper_post in P'. replace (span_bad (ns d)) with false in P' by (unfold span_bad; lia).
      rewrite Hir in P'. exact P'.
  Qed.
  Theorem dz_trunc_idempotent a d r : goodz a -> valid d -> dz_duration_trunc a d = Val (inl r) ->
    dz_duration_trunc r d = Val (if in_i64 (wall r) then inl r else inr TimestampExceedsLimit).
  Proof. apply (dz_again m_trunc); [intros; apply m_trunc_spec; assumption | exact dz_trunc_spec]. Qed.
  Theorem dz_round_up_idempotent a d r : goodz a -> valid d -> dz_duration_round_up a d = Val (inl r) ->
    dz_duration_round_up r d = Val (if in_i64 (wall r) then inl r else inr TimestampExceedsLimit).
  Proof. apply (dz_again m_up); [intros; apply m_up_spec; assumption | exact dz_round_up_spec]. Qed.
  Theorem dz_round_idempotent a d r : goodz a -> valid d -> dz_duration_round a d = Val (inl r) ->
    dz_duration_round r d = Val (if in_i64 (wall r) then inl r else inr TimestampExceedsLimit).
  Proof. apply (dz_again m_round); [intros; apply m_round_multiple; assumption | exact dz_round_spec]. Qed.
End Zoned.

(** The unrepaired [impl DurationRound for DateTime<Tz>] ([self.naive_local()]) traps where an
    error value is due: MAX_UTC read at +00:00:01, any span. *)
Definition z_witness : dtz := mk_dtz NDT_MAX 1.
Definition d_witness : td := mk_td 86400 0.
Lemma dz_orig_refuted :
  dz_duration_trunc_orig z_witness d_witness = Panic /\
  dz_duration_round_orig z_witness d_witness = Panic /\
  dz_duration_round_up_orig z_witness d_witness = Panic /\
  dz_duration_trunc z_witness d_witness = Val (inr TimestampExceedsLimit).
Proof. vm_compute. repeat split. Qed.

(** * Statements over the hypotheses bundled as one proposition (used by Props/C17.v) *)
Definition ndt_links (stamp : ndt -> Z) (good : ndt -> Prop) : Prop :=
  (forall a, good a -> dt_timestamp_nanos_opt a = Val (chko in_i64 (stamp a))) /\
  (forall a d, good a -> valid d -> W_LO <= stamp a + ns d <= W_HI ->
     exists r, ndt_checked_add_signed a d = Val (Some r) /\ good r /\ stamp r = stamp a + ns d) /\
  (forall a d, good a -> valid d -> W_LO <= stamp a - ns d <= W_HI ->
     exists r, ndt_checked_sub_signed a d = Val (Some r) /\ good r /\ stamp r = stamp a - ns d).
Definition dz_links (wall : dtz -> Z) (goodz : dtz -> Prop) : Prop :=
  (forall z, goodz z ->
     exists l, overflowing_naive_local z = Val l /\ dt_timestamp_nanos_opt l = Val (chko in_i64 (wall z))) /\
  (forall z d, goodz z -> valid d -> W_LO <= wall z + ns d <= W_HI ->
     exists r, dz_checked_add_signed z d = Val (Some r) /\ goodz r /\ wall r = wall z + ns d) /\
  (forall z d, goodz z -> valid d -> W_LO <= wall z - ns d <= W_HI ->
     exists r, dz_checked_sub_signed z d = Val (Some r) /\ goodz r /\ wall r = wall z - ns d).

(* the three span operations, indexed: 0 trunc, 1 round_up, 2 round *)
Inductive mode := MTrunc | MUp | MRound.
Definition spec_of (m : mode) : Z -> Z -> Z := match m with MTrunc => m_trunc | MUp => m_up | MRound => m_round end.
Definition ndt_op (m : mode) : ndt -> td -> R (ndt + rerr) :=
  match m with MTrunc => ndt_duration_trunc | MUp => ndt_duration_round_up | MRound => ndt_duration_round end.
Definition dz_op (m : mode) : dtz -> td -> R (dtz + rerr) :=
  match m with MTrunc => dz_duration_trunc | MUp => dz_duration_round_up | MRound => dz_duration_round end.

Lemma spec_multiple m s k : 0 < k -> (k | spec_of m s k).
Proof. destruct m; cbn; intros; [apply m_trunc_spec|apply m_up_spec|apply m_round_multiple]; assumption. Qed.
Lemma spec_distance m s k : 0 < k -> Z.abs (spec_of m s k - s) < k.
Proof. intros Hk. destruct (distance_bound s k Hk) as (H1 & H2 & H3). destruct m; assumption. Qed.

Theorem ndt_spec_all stamp good : ndt_links stamp good -> forall m a d, good a -> valid d ->
  exists out, ndt_op m a d = Val out /\ helper_post ndt stamp good (spec_of m) a (ns d) out.
Proof.
  intros (H1 & H2 & H3) m a d Ha Hd. destruct m; cbn [ndt_op spec_of].
  - eapply ndt_trunc_spec; eassumption.
  - eapply ndt_round_up_spec; eassumption.
  - eapply ndt_round_spec; eassumption.
Qed.
Theorem dz_spec_all wall goodz : dz_links wall goodz -> forall m z d, goodz z -> valid d ->
  exists out, dz_op m z d = Val out /\ helper_post dtz wall goodz (spec_of m) z (ns d) out.
Proof.
  intros (H1 & H2 & H3) m a d Ha Hd. destruct m; cbn [dz_op spec_of].
  - eapply dz_trunc_spec; eassumption.
  - eapply dz_round_up_spec; eassumption.
  - eapply dz_round_spec; eassumption.
Qed.

(** Unfolded forms of the post-condition, one theorem per clause of the property text. *)
Section Clauses.
  Variable T : Type.
  Variable stampT : T -> Z.
  Variable goodT : T -> Prop.
  Variable op : mode -> T -> td -> R (T + rerr).
  Hypothesis op_spec : forall m x d, goodT x -> valid d ->
    exists out, op m x d = Val out /\ helper_post T stampT goodT (spec_of m) x (ns d) out.

  (* a value is returned exactly on the domain, and it is the right multiple, less than a span away *)
  Theorem clause_value m x d : goodT x -> valid d -> 0 < ns d <= i64_max -> in_i64 (stampT x) = true ->
    exists r, op m x d = Val (inl r) /\ goodT r /\ stampT r = spec_of m (stampT x) (ns d) /\
              (ns d | stampT r) /\ Z.abs (stampT r - stampT x) < ns d.
  Proof.
    intros Hx Hd Hk Hi. destruct (op_spec m x d Hx Hd) as (out & E & P). unfold helper_post in P.
    replace (span_bad (ns d)) with false in P by (unfold span_bad; lia). rewrite Hi in P. cbn [negb] in P.
    destruct P as (r & -> & Hg & Hs & _). exists r. rewrite Hs. repeat split; auto.
    - apply spec_multiple; lia.
    - apply spec_distance; lia.
  Qed.
  (* errors: exactly the documented ones, never a trap *)
  Theorem clause_error m x d : goodT x -> valid d ->
    exists out, op m x d = Val out /\ forall e, out = inr e <->
      (e = DurationExceedsLimit /\ (ns d <= 0 \/ i64_max < ns d)) \/
      (e = TimestampExceedsLimit /\ 0 < ns d <= i64_max /\ in_i64 (stampT x) = false).
  Proof.
    intros Hx Hd. destruct (op_spec m x d Hx Hd) as (out & E & P). exists out. split; [exact E|].
    apply (helper_err_iff T stampT goodT _ x (ns d) out P).
  Qed.
  (* multiples are returned unchanged (the very same value) *)
  Theorem clause_fixed m x d : goodT x -> valid d -> 0 < ns d <= i64_max -> in_i64 (stampT x) = true ->
    (ns d | stampT x) -> op m x d = Val (inl x).
  Proof.
    intros Hx Hd Hk Hi Hm. destruct (op_spec m x d Hx Hd) as (out & E & P). rewrite E. f_equal.
    apply (helper_fixed T stampT goodT _ x (ns d) out P); auto. unfold span_bad; lia.
  Qed.
  (* idempotence, also across the three operations: applying any of them to a result of any of them
     returns it unchanged; the one exception is a first result just outside the i64 window, for
     which the documented error is returned *)
  Theorem clause_idempotent m m' x d r : goodT x -> valid d -> op m x d = Val (inl r) ->
    op m' r d = Val (if in_i64 (stampT r) then inl r else inr TimestampExceedsLimit).
  Proof.
    intros Hx Hd E. destruct (op_spec m x d Hx Hd) as (o & Eo & P). rewrite E in Eo. injection Eo as <-.
    destruct (helper_ok T stampT goodT _ x (ns d) r P) as (Hk & Hi & Hg & Hs).
    destruct (in_i64 (stampT r)) eqn:Hir.
    - apply clause_fixed; auto. rewrite Hs. apply spec_multiple. lia.
    - destruct (op_spec m' r d Hg Hd) as (o' & Eo' & P'). rewrite Eo'. f_equal.
      unfold helper_post in P'. replace (span_bad (ns d)) with false in P' by (unfold span_bad; lia).
      rewrite Hir in P'. exact P'.
  Qed.
End Clauses.

(** Instances of the clauses. *)
Definition ndt_value stamp good (H : ndt_links stamp good) := clause_value ndt stamp good ndt_op (ndt_spec_all stamp good H).
Definition ndt_error stamp good (H : ndt_links stamp good) := clause_error ndt stamp good ndt_op (ndt_spec_all stamp good H).
Definition ndt_fixed stamp good (H : ndt_links stamp good) := clause_fixed ndt stamp good ndt_op (ndt_spec_all stamp good H).
Definition ndt_idem stamp good (H : ndt_links stamp good) := clause_idempotent ndt stamp good ndt_op (ndt_spec_all stamp good H).
Definition dz_value wall goodz (H : dz_links wall goodz) := clause_value dtz wall goodz dz_op (dz_spec_all wall goodz H).
Definition dz_error wall goodz (H : dz_links wall goodz) := clause_error dtz wall goodz dz_op (dz_spec_all wall goodz H).
Definition dz_fixed wall goodz (H : dz_links wall goodz) := clause_fixed dtz wall goodz dz_op (dz_spec_all wall goodz H).
Definition dz_idem wall goodz (H : dz_links wall goodz) := clause_idempotent dtz wall goodz dz_op (dz_spec_all wall goodz H).

(** Concrete evaluations (the values of the crate's own tests): the operations are not vacuous. *)
Definition ex_ndt (y o s f : Z) : ndt :=
  match dec_ndt (VTup [VInt y; VInt o; VInt s; VInt f]) with Some a => a | None => NDT_MIN end.
Lemma examples :
  (* 2012-12-12T18:22:29.999 trunc / up / round 5 min *)
  rmap (enc_res enc_ndt) (ndt_duration_trunc (ex_ndt 2012 347 66149 999000000) (mk_td 300 0))
    = Val (VTup [VInt 2012; VInt 347; VInt 66000; VInt 0]) /\
  rmap (enc_res enc_ndt) (ndt_duration_round_up (ex_ndt 2012 347 66149 999000000) (mk_td 300 0))
    = Val (VTup [VInt 2012; VInt 347; VInt 66300; VInt 0]) /\
  rmap (enc_res enc_ndt) (ndt_duration_round (ex_ndt 2012 347 66150 0) (mk_td 300 0))
    = Val (VTup [VInt 2012; VInt 347; VInt 66300; VInt 0]) /\
  (* before the epoch: 1969-12-12T12:12:12 to 10 min *)
  rmap (enc_res enc_ndt) (ndt_duration_trunc (ex_ndt 1969 346 43932 0) (mk_td 600 0))
    = Val (VTup [VInt 1969; VInt 346; VInt 43800; VInt 0]) /\
  rmap (enc_res enc_ndt) (ndt_duration_round_up (ex_ndt 1969 346 43932 0) (mk_td 600 0))
    = Val (VTup [VInt 1969; VInt 346; VInt 44400; VInt 0]) /\
  (* errors *)
  ndt_duration_round (ex_ndt 2300 346 0 0) (mk_td 86400 0) = Val (inr TimestampExceedsLimit) /\
  ndt_duration_round (ex_ndt 2012 347 0 0) (mk_td 0 0) = Val (inr DurationExceedsLimit) /\
  ndt_duration_round (ex_ndt 2012 347 0 0) (mk_td 9223372036854775 807000000) = Val (inr DurationExceedsLimit) /\
  (* sub-second digits, incl. a carry out of a leap second *)
  rmap enc_ndt (round_subsecs ndt_ops (ex_ndt 2016 366 86399 1750500000) 0)
    = Val (VTup [VInt 2017; VInt 1; VInt 0; VInt 0]) /\
  rmap enc_ndt (trunc_subsecs ndt_ops (ex_ndt 2016 366 86399 1750500000) 1)
    = Val (VTup [VInt 2016; VInt 366; VInt 86399; VInt 1700000000]).
Proof. vm_compute. repeat split. Qed.

(** * D. sub-second digits *)
Notation sub_span := V.Judge.C17.sub_span.
Notation sub_frac := V.Judge.C17.sub_frac.
Definition GG := 1000000000.

Lemma span_for_digits_spec digits : 0 <= digits -> span_for_digits digits = sub_span digits.
Proof.
  intros H. unfold span_for_digits, V.Judge.C17.sub_span.
  destruct (Z_lt_dec digits 9) as [Hlt|Hge].
  - assert (Hc : digits = 0 \/ digits = 1 \/ digits = 2 \/ digits = 3 \/ digits = 4 \/ digits = 5 \/
                 digits = 6 \/ digits = 7 \/ digits = 8) by lia.
    repeat (destruct Hc as [->|Hc]; [vm_compute; reflexivity|]). subst. vm_compute. reflexivity.
  - rewrite Z.min_l by lia. cbn.
    repeat (match goal with |- context [digits =? ?k] => destruct (digits =? k) eqn:?; [lia|] end). reflexivity.
Qed.
Lemma sub_span_cases digits : 0 <= digits ->
  let sp := sub_span digits in
  sp = 1000000000 \/ sp = 100000000 \/ sp = 10000000 \/ sp = 1000000 \/ sp = 100000 \/ sp = 10000 \/
  sp = 1000 \/ sp = 100 \/ sp = 10 \/ sp = 1.
Proof.
  intros H. cbv zeta. unfold V.Judge.C17.sub_span. destruct (Z_lt_dec digits 9) as [Hlt|Hge].
  - assert (Hc : digits = 0 \/ digits = 1 \/ digits = 2 \/ digits = 3 \/ digits = 4 \/ digits = 5 \/
                 digits = 6 \/ digits = 7 \/ digits = 8) by lia.
    repeat (destruct Hc as [->|Hc]; [vm_compute; tauto|]). subst. vm_compute. tauto.
  - rewrite Z.min_l by lia. vm_compute. tauto.
Qed.
Lemma sub_span_divides digits : 0 <= digits -> 0 < sub_span digits /\ (sub_span digits | GG).
Proof.
  intros H. unfold GG. pose proof (sub_span_cases digits H) as Hc. cbv zeta in Hc.
  repeat (destruct Hc as [->|Hc]; [split; [lia|]; match goal with |- (?a | ?b) => exists (b / a); vm_compute; reflexivity end|]).
  rewrite Hc. split; [lia|]. exists 1000000000. reflexivity.
Qed.
Lemma mod_mod_divides s a b : 0 < a -> (a | b) -> 0 < b -> (s mod b) mod a = s mod a.
Proof.
  intros Ha [c ->] Hb. rewrite (Z.mul_comm c a). rewrite Z.rem_mul_r by nia.
  rewrite Z.mul_comm. rewrite Z.mod_add by lia. apply Z.mod_mod. lia.
Qed.

(** ** generic carrier, modulo add-exactness.  [LO..HI] is the range on which + / - are exact
    (chrono's whole range for the real types); [nano_exact]: on non-leap values the nanosecond
    field is the stamp's fraction.  "Sub-second rounding to N digits does the same within the
    second": it is rounding / truncation to the span 10^(9-min(9,N)) ns, carry included. *)
Section SubsecGeneric.
  Variable T : Type.
  Variable ops : tl T.
  Variable stampT : T -> Z.
  Variable goodT : T -> Prop.
  Variables LO HI : Z.
  Hypothesis nano_exact : forall x, goodT x -> tl_nanosecond ops x = Val (stampT x mod GG).
  Hypothesis add_exact : forall x d, goodT x -> valid d -> LO <= stampT x + ns d <= HI ->
    exists r, tl_add ops x d = Val r /\ goodT r /\ stampT r = stampT x + ns d.
  Hypothesis sub_exact : forall x d, goodT x -> valid d -> LO <= stampT x - ns d <= HI ->
    exists r, tl_sub ops x d = Val r /\ goodT r /\ stampT r = stampT x - ns d.

  Lemma nanos_small n : 0 <= n < GG -> exists d, nanoseconds n = Val d /\ ns d = n /\ valid d.
  Proof. intros H. apply V.Proofs.C06.nanoseconds_spec. unfold GG, in_i64, in_range, i64_min, i64_max in *. lia. Qed.

  Lemma subsec_prefix x digits : goodT x -> 0 <= digits ->
    let sp := sub_span digits in
    tl_nanosecond ops x = Val (stampT x mod GG) /\
    rem_u32 (stampT x mod GG) (span_for_digits digits) = Val (stampT x mod sp) /\
    0 < sp <= GG /\ 0 <= stampT x mod sp < sp.
  Proof.
    intros Hx Hd sp. destruct (sub_span_divides digits Hd) as [Hp Hdiv]. fold sp in Hp, Hdiv.
    assert (Hle : sp <= GG) by (apply Z.divide_pos_le; [unfold GG; lia|exact Hdiv]).
    pose proof (Z.mod_pos_bound (stampT x) GG ltac:(unfold GG; lia)) as Hf.
    split; [apply nano_exact; exact Hx|]. split; [|split; [lia|apply Z.mod_pos_bound; lia]].
    rewrite span_for_digits_spec by lia. fold sp. unfold rem_u32. rewrite rem_t_nz by lia.
    rewrite Z.rem_mod_nonneg by lia. rewrite mod_mod_divides by (unfold GG in *; lia || assumption).
    replace (in_u32 (Z.quot (stampT x mod GG) sp)) with true; [reflexivity|]. symmetry.
    rewrite Z.quot_div_nonneg by lia. unfold in_u32, in_range, u32_max.
    assert (0 <= (stampT x mod GG) / sp <= stampT x mod GG).
    { split; [apply Z.div_pos; lia|]. apply Z.div_le_upper_bound; [lia|]. nia. }
    unfold GG in *. lia.
  Qed.

  Theorem trunc_subsecs_spec x digits : goodT x -> 0 <= digits ->
    LO <= m_trunc (stampT x) (sub_span digits) <= HI ->
    exists r, trunc_subsecs ops x digits = Val r /\ goodT r /\
              stampT r = m_trunc (stampT x) (sub_span digits) /\
              (stampT x mod sub_span digits = 0 -> r = x).
  Proof.
    intros Hx Hd Hw. destruct (subsec_prefix x digits Hx Hd) as (H1 & H2 & Hsp & Hm).
    unfold trunc_subsecs. rewrite H1. cbn [bind]. rewrite H2. cbn [bind].
    set (sp := sub_span digits) in *. set (s := stampT x) in *.
    destruct (div_mod_P s sp ltac:(lia)) as [HP _]. unfold V.Judge.C17.m_trunc in *.
    destruct (s mod sp >? 0) eqn:E.
    - destruct (nanos_small (s mod sp) ltac:(lia)) as (d & Hdn & Hns & Hv). rewrite Hdn. cbn [bind].
      destruct (sub_exact x d Hx Hv ltac:(rewrite Hns; fold s; lia)) as (r & Hr & Hg & Hs).
      exists r. rewrite Hns in Hs. fold s in Hs. repeat split; auto; lia.
    - exists x. repeat split; auto. fold s. lia.
  Qed.

  Theorem round_subsecs_spec x digits : goodT x -> 0 <= digits ->
    LO <= m_round (stampT x) (sub_span digits) <= HI ->
    exists r, round_subsecs ops x digits = Val r /\ goodT r /\
              stampT r = m_round (stampT x) (sub_span digits) /\
              (stampT x mod sub_span digits = 0 -> r = x).
  Proof.
    intros Hx Hd Hw. destruct (subsec_prefix x digits Hx Hd) as (H1 & H2 & Hsp & Hm).
    unfold round_subsecs. rewrite H1. cbn [bind]. rewrite H2. cbn [bind]. rewrite (span_for_digits_spec digits Hd).
    set (sp := sub_span digits) in *. set (s := stampT x) in *.
    destruct (div_mod_P s sp ltac:(lia)) as [HP _]. unfold V.Judge.C17.m_round, V.Judge.C17.m_trunc in *.
    set (P := sp * (s / sp)) in *. set (M := s mod sp) in *. clearbody P M.
    replace (s - P) with M in * by lia.
    destruct (M >? 0) eqn:E.
    - destruct (M =? 0) eqn:E0; [lia|].
      unfold sub_u32. rewrite chk_in by (unfold in_u32, in_range, u32_max, GG in *; lia). cbn [bind].
      destruct (sp - M <=? M) eqn:E2.
      + destruct (nanos_small (sp - M) ltac:(lia)) as (d & Hdn & Hns & Hv). rewrite Hdn. cbn [bind].
        destruct (add_exact x d Hx Hv ltac:(rewrite Hns; fold s; lia)) as (r & Hr & Hg & Hs).
        exists r. rewrite Hns in Hs. fold s in Hs. repeat split; auto; lia.
      + destruct (nanos_small M ltac:(lia)) as (d & Hdn & Hns & Hv). rewrite Hdn. cbn [bind].
        destruct (sub_exact x d Hx Hv ltac:(rewrite Hns; fold s; lia)) as (r & Hr & Hg & Hs).
        exists r. rewrite Hns in Hs. fold s in Hs. repeat split; auto; lia.
    - destruct (M =? 0) eqn:E0; [|lia]. exists x. repeat split; auto.
  Qed.
End SubsecGeneric.

(** ** NaiveTime, outright (leap-second fractions included).  A time is [time_ok] when
    secs < 86400 and frac < 2*10^9 (a leap fraction is representable on any second). *)
Definition time_ok (t : Time.ntime) : Prop := 0 <= Time.tsecs t < 86400 /\ 0 <= Time.tfrac t < 2000000000.

(* what the judge expects for kind 1 (Judge/C17.v, [judge_sub]) *)
Definition time_expected (round : bool) (digits : Z) (t : Time.ntime) : Time.ntime :=
  let leap := GG <=? Time.tfrac t in
  let f := if leap then Time.tfrac t - GG else Time.tfrac t in
  let '(f', carry) := sub_frac round digits f in
  if carry then Time.mk_time ((Time.tsecs t + 1) mod 86400) 0
  else Time.mk_time (Time.tsecs t) (if leap then f' + GG else f').

Lemma nanoseconds_lt_G n : 0 <= n < GG -> nanoseconds n = Val (mk_td 0 n).
Proof.
  intros H. unfold nanoseconds, div_mod_floor_64, NPS, Gen.TimeDelta.TD_NANOS_PER_SEC, GG in *.
  rewrite as_i64_id by reflexivity.
  rewrite div_euclid_pos, rem_euclid_pos by lia.
  replace (n / 1000000000) with 0 by lia. replace (n mod 1000000000) with n by lia.
  cbn. rewrite as_i32_id by (unfold in_i32, in_range, i32_min, i32_max; lia). reflexivity.
Qed.

Ltac tsimp := cbn [Time.tsecs Time.tfrac secs nanos bind fst snd].
Ltac in_solve := unfold in_i32, in_u32, in_i64, in_u64, in_range, i32_min, i32_max, u32_max, i64_min, i64_max, u64_max in *; lia.
Ltac casts := repeat first
  [ rewrite as_i32_id by in_solve | rewrite as_u32_id by in_solve
  | rewrite as_i64_id by in_solve | rewrite as_u64_id by in_solve ].
Ltac rs := cbv beta iota zeta delta [bind fst snd Time.tsecs Time.tfrac secs nanos].
Ltac chks := rs; repeat (rewrite chk_in by in_solve; rs).

Ltac dif := match goal with |- context [if ?c then _ else _] => destruct c eqn:? end.
Ltac crunch :=
  cbv beta iota zeta delta [bind fst snd Time.tsecs Time.tfrac secs nanos rmap chk
    num_seconds subsec_nanos rem_euclid sub_i32 add_i32 add_i64 sub_i64 neg_i64 NPS Gen.TimeDelta.TD_NANOS_PER_SEC];
  repeat (dif; cbv beta iota zeta delta [bind fst snd Time.tsecs Time.tfrac secs nanos]; try in_solve).

(* t + n ns, 0 < n < 10^9 *)
Lemma time_add_small t n : time_ok t -> 0 < n < GG ->
  Time.op_add_td t (mk_td 0 n) = Val (
    if GG <=? Time.tfrac t then
      (if 2 * GG <=? Time.tfrac t + n then Time.mk_time ((Time.tsecs t + 1) mod 86400) (Time.tfrac t + n - 2 * GG)
       else Time.mk_time (Time.tsecs t) (Time.tfrac t + n))
    else
      (if GG <=? Time.tfrac t + n then Time.mk_time ((Time.tsecs t + 1) mod 86400) (Time.tfrac t + n - GG)
       else Time.mk_time (Time.tsecs t) (Time.tfrac t + n))).
Proof.
  intros [Hs Hf] Hn. unfold GG in *. destruct t as [ts tf]. cbn [Time.tsecs Time.tfrac] in *.
  unfold Time.op_add_td, Time.overflowing_add_signed. cbn [Time.tsecs Time.tfrac secs nanos]. casts.
  crunch; casts; try in_solve.
  all: try (f_equal; f_equal; lia).
  all: change (0 <? 86400) with true in *; cbv iota in *; in_solve.
Qed.

Lemma td_neg_small n : 0 < n < GG -> td_neg (mk_td 0 n) = Val (mk_td (-1) (GG - n)).
Proof.
  intros H. unfold GG in *. unfold td_neg. cbn [secs nanos]. replace (n =? 0) with false by lia.
  unfold NPS, Gen.TimeDelta.TD_NANOS_PER_SEC, sub_i32, neg_i64, sub_i64.
  rewrite !chk_in by in_solve. cbn [bind]. rewrite !chk_in by in_solve. cbn [bind]. reflexivity.
Qed.

(* t - n ns, 0 < n <= fraction within the second *)
Lemma time_sub_small t n : time_ok t -> 0 < n < GG -> n <= Time.tfrac t mod GG ->
  Time.op_sub_td t (mk_td 0 n) = Val (Time.mk_time (Time.tsecs t) (Time.tfrac t - n)).
Proof.
  intros [Hs Hf] Hn Hle. unfold Time.op_sub_td, Time.overflowing_sub_signed. rewrite td_neg_small by exact Hn.
  unfold GG in *. destruct t as [ts tf]. cbn [Time.tsecs Time.tfrac bind] in *.
  unfold Time.overflowing_add_signed. cbn [Time.tsecs Time.tfrac secs nanos]. casts.
  crunch; casts; try in_solve.
  all: try (f_equal; f_equal; lia).
  all: change (0 <? 86400) with true in *; cbv iota in *; in_solve.
Qed.

Lemma rem_u32_nonneg a b : 0 <= a <= u32_max -> 0 < b -> rem_u32 a b = Val (a mod b).
Proof.
  intros Ha Hb. unfold rem_u32. rewrite rem_t_nz by lia. rewrite Z.rem_mod_nonneg by lia.
  rewrite Z.quot_div_nonneg by lia.
  replace (in_u32 (a / b)) with true; [reflexivity|]. symmetry. unfold in_u32, in_range.
  assert (0 <= a / b <= a); [|lia]. split; [apply Z.div_pos; lia|]. apply Z.div_le_upper_bound; [lia|]. nia.
Qed.

Ltac time_tail tf :=
  unfold GG; destruct (1000000000 <=? tf) eqn:?EL; cbn [Time.tsecs Time.tfrac andb negb];
  repeat (dif; cbn [andb negb]; try lia);
  f_equal; f_equal; lia.
Ltac time_case Hc tf :=
  rewrite Hc;
  destruct (tf mod _ >? 0) eqn:?E;
  [ unfold sub_u32; rewrite chk_in by in_solve; cbn [bind];
    match goal with |- context [if ?c then bind _ _ else bind _ _] => destruct c eqn:?E2 end;
    [ rewrite nanoseconds_lt_G by (unfold GG; lia); cbn [bind];
      rewrite time_add_small by (unfold time_ok, GG; cbn [Time.tsecs Time.tfrac]; lia); time_tail tf
    | rewrite nanoseconds_lt_G by (unfold GG; lia); cbn [bind];
      rewrite time_sub_small by (unfold time_ok, GG; cbn [Time.tsecs Time.tfrac]; lia); time_tail tf ]
  | time_tail tf ].

Theorem time_round_subsecs_spec t digits : time_ok t -> 0 <= digits ->
  round_subsecs time_ops t digits = Val (time_expected true digits t).
Proof.
  intros [Hs Hf] Hd. unfold round_subsecs, time_expected, V.Judge.C17.sub_frac.
  cbn [tl_nanosecond tl_add tl_sub time_ops bind]. rewrite (span_for_digits_spec digits Hd).
  unfold Time.nanosecond. destruct t as [ts tf]. cbn [Time.tsecs Time.tfrac] in *.
  pose proof (sub_span_cases digits Hd) as Hc. cbv zeta in Hc.
  rewrite rem_u32_nonneg by (unfold u32_max; destruct (sub_span_divides digits Hd); lia). cbn [bind].
  unfold V.Judge.C17.G.
  repeat (destruct Hc as [Hc|Hc]; [time_case Hc tf|]). time_case Hc tf.
Qed.

Ltac time_case_trunc Hc tf :=
  rewrite Hc;
  destruct (tf mod _ >? 0) eqn:?E;
  [ rewrite nanoseconds_lt_G by (unfold GG; lia); cbn [bind];
    rewrite time_sub_small by (unfold time_ok, GG; cbn [Time.tsecs Time.tfrac]; lia); time_tail tf
  | time_tail tf ].

Theorem time_trunc_subsecs_spec t digits : time_ok t -> 0 <= digits ->
  trunc_subsecs time_ops t digits = Val (time_expected false digits t).
Proof.
  intros [Hs Hf] Hd. unfold trunc_subsecs, time_expected, V.Judge.C17.sub_frac.
  cbn [tl_nanosecond tl_add tl_sub time_ops bind]. rewrite (span_for_digits_spec digits Hd).
  unfold Time.nanosecond. destruct t as [ts tf]. cbn [Time.tsecs Time.tfrac] in *.
  pose proof (sub_span_cases digits Hd) as Hc. cbv zeta in Hc.
  rewrite rem_u32_nonneg by (unfold u32_max; destruct (sub_span_divides digits Hd); lia). cbn [bind].
  unfold V.Judge.C17.G.
  repeat (destruct Hc as [Hc|Hc]; [time_case_trunc Hc tf|]). time_case_trunc Hc tf.
Qed.

(* results are well-formed times again, and 9 or more digits leave the value unchanged *)
Lemma time_expected_ok round digits t : time_ok t -> 0 <= digits -> time_ok (time_expected round digits t).
Proof.
  intros [Hs Hf] Hd. unfold time_expected, V.Judge.C17.sub_frac, V.Judge.C17.G, GG.
  destruct t as [ts tf]. cbn [Time.tsecs Time.tfrac] in *.
  pose proof (sub_span_cases digits Hd) as Hc. cbv zeta in Hc.
  assert (H86 : 0 <= (ts + 1) mod 86400 < 86400) by (apply Z.mod_pos_bound; lia).
  destruct (1000000000 <=? tf) eqn:EL;
  repeat (destruct Hc as [Hc|Hc]; [rewrite Hc; repeat (dif; cbn [andb negb]); unfold time_ok; cbn [Time.tsecs Time.tfrac]; lia|]);
  rewrite Hc; repeat (dif; cbn [andb negb]); unfold time_ok; cbn [Time.tsecs Time.tfrac]; lia.
Qed.
Lemma time_digits_ge9 round digits t : time_ok t -> 9 <= digits -> time_expected round digits t = t.
Proof.
  intros [Hs Hf] Hd. unfold time_expected, V.Judge.C17.sub_frac, V.Judge.C17.sub_span, V.Judge.C17.G, GG.
  rewrite Z.min_l by lia. change (10 ^ (9 - 9)) with 1. destruct t as [ts tf]. cbn [Time.tsecs Time.tfrac] in *.
  destruct (1000000000 <=? tf) eqn:EL; rewrite !Z.mod_1_r; rewrite andb_false_r || (cbn [Z.eqb negb andb]; rewrite ?andb_false_r);
  cbn [andb negb]; f_equal; lia.
Qed.

(** ** NaiveDateTime and DateTime<FixedOffset>, modulo add-exactness over a range [LO..HI] *)
Definition ndt_sub_links (stamp : ndt -> Z) (good : ndt -> Prop) (LO HI : Z) : Prop :=
  (forall a, good a -> Time.tfrac (nd_time a) = stamp a mod GG) /\
  (forall a d, good a -> valid d -> LO <= stamp a + ns d <= HI ->
     exists r, ndt_checked_add_signed a d = Val (Some r) /\ good r /\ stamp r = stamp a + ns d) /\
  (forall a d, good a -> valid d -> LO <= stamp a - ns d <= HI ->
     exists r, ndt_checked_sub_signed a d = Val (Some r) /\ good r /\ stamp r = stamp a - ns d).
Definition dz_sub_links (wall : dtz -> Z) (goodz : dtz -> Prop) (LO HI : Z) : Prop :=
  (forall z, goodz z -> dz_nanosecond z = Val (wall z mod GG)) /\
  (forall z d, goodz z -> valid d -> LO <= wall z + ns d <= HI ->
     exists r, dz_checked_add_signed z d = Val (Some r) /\ goodz r /\ wall r = wall z + ns d) /\
  (forall z d, goodz z -> valid d -> LO <= wall z - ns d <= HI ->
     exists r, dz_checked_sub_signed z d = Val (Some r) /\ goodz r /\ wall r = wall z - ns d).

Definition subsec_post {T} (stampT : T -> Z) (goodT : T -> Prop) (f : Z -> Z -> Z) (x : T) (digits : Z) (r : T) : Prop :=
  goodT r /\ stampT r = f (stampT x) (sub_span digits) /\ (stampT x mod sub_span digits = 0 -> r = x).

Lemma ndt_subsec_ops stamp good LO HI : ndt_sub_links stamp good LO HI ->
  (forall x, good x -> tl_nanosecond ndt_ops x = Val (stamp x mod GG)) /\
  (forall x d, good x -> valid d -> LO <= stamp x + ns d <= HI ->
     exists r, tl_add ndt_ops x d = Val r /\ good r /\ stamp r = stamp x + ns d) /\
  (forall x d, good x -> valid d -> LO <= stamp x - ns d <= HI ->
     exists r, tl_sub ndt_ops x d = Val r /\ good r /\ stamp r = stamp x - ns d).
Proof.
  intros (H1 & H2 & H3). repeat split.
  - intros x Hx. cbn [tl_nanosecond ndt_ops]. unfold Time.nanosecond. rewrite (H1 x Hx). reflexivity.
  - intros x d Hx Hd Hw. destruct (H2 x d Hx Hd Hw) as (r & Hr & Hg). exists r. split; [|exact Hg].
    cbn [tl_add ndt_ops]. unfold ndt_op_add, unwrap_r. rewrite Hr. reflexivity.
  - intros x d Hx Hd Hw. destruct (H3 x d Hx Hd Hw) as (r & Hr & Hg). exists r. split; [|exact Hg].
    cbn [tl_sub ndt_ops]. unfold ndt_op_sub, unwrap_r. rewrite Hr. reflexivity.
Qed.
Lemma dz_subsec_ops wall goodz LO HI : dz_sub_links wall goodz LO HI ->
  (forall x, goodz x -> tl_nanosecond dz_ops x = Val (wall x mod GG)) /\
  (forall x d, goodz x -> valid d -> LO <= wall x + ns d <= HI ->
     exists r, tl_add dz_ops x d = Val r /\ goodz r /\ wall r = wall x + ns d) /\
  (forall x d, goodz x -> valid d -> LO <= wall x - ns d <= HI ->
     exists r, tl_sub dz_ops x d = Val r /\ goodz r /\ wall r = wall x - ns d).
Proof.
  intros (H1 & H2 & H3). repeat split.
  - exact H1.
  - intros x d Hx Hd Hw. destruct (H2 x d Hx Hd Hw) as (r & Hr & Hg). exists r. split; [|exact Hg].
    cbn [tl_add dz_ops]. unfold dz_op_add, unwrap_r. rewrite Hr. reflexivity.
  - intros x d Hx Hd Hw. destruct (H3 x d Hx Hd Hw) as (r & Hr & Hg). exists r. split; [|exact Hg].
    cbn [tl_sub dz_ops]. unfold dz_op_sub, unwrap_r. rewrite Hr. reflexivity.
Qed.

Theorem ndt_round_subsecs stamp good LO HI : ndt_sub_links stamp good LO HI ->
  forall a digits, good a -> 0 <= digits -> LO <= m_round (stamp a) (sub_span digits) <= HI ->
  exists r, round_subsecs ndt_ops a digits = Val r /\ subsec_post stamp good m_round a digits r.
Proof. intros H a digits Ha Hd Hw. destruct (ndt_subsec_ops _ _ _ _ H) as (H1 & H2 & H3).
  exact (round_subsecs_spec ndt ndt_ops stamp good LO HI H1 H2 H3 a digits Ha Hd Hw). Qed.
Theorem ndt_trunc_subsecs stamp good LO HI : ndt_sub_links stamp good LO HI ->
  forall a digits, good a -> 0 <= digits -> LO <= m_trunc (stamp a) (sub_span digits) <= HI ->
  exists r, trunc_subsecs ndt_ops a digits = Val r /\ subsec_post stamp good m_trunc a digits r.
Proof. intros H a digits Ha Hd Hw. destruct (ndt_subsec_ops _ _ _ _ H) as (H1 & H2 & H3).
  exact (trunc_subsecs_spec ndt ndt_ops stamp good LO HI H1 H2 H3 a digits Ha Hd Hw). Qed.
Theorem dz_round_subsecs wall goodz LO HI : dz_sub_links wall goodz LO HI ->
  forall z digits, goodz z -> 0 <= digits -> LO <= m_round (wall z) (sub_span digits) <= HI ->
  exists r, round_subsecs dz_ops z digits = Val r /\ subsec_post wall goodz m_round z digits r.
Proof. intros H a digits Ha Hd Hw. destruct (dz_subsec_ops _ _ _ _ H) as (H1 & H2 & H3).
  exact (round_subsecs_spec dtz dz_ops wall goodz LO HI H1 H2 H3 a digits Ha Hd Hw). Qed.
Theorem dz_trunc_subsecs wall goodz LO HI : dz_sub_links wall goodz LO HI ->
  forall z digits, goodz z -> 0 <= digits -> LO <= m_trunc (wall z) (sub_span digits) <= HI ->
  exists r, trunc_subsecs dz_ops z digits = Val r /\ subsec_post wall goodz m_trunc z digits r.
Proof. intros H a digits Ha Hd Hw. destruct (dz_subsec_ops _ _ _ _ H) as (H1 & H2 & H3).
  exact (trunc_subsecs_spec dtz dz_ops wall goodz LO HI H1 H2 H3 a digits Ha Hd Hw). Qed.

(* the sub-second span: 10^(9-N) for N < 9, 1 from 9 digits on; a divisor of one second *)
Lemma sub_span_ge9 digits : 9 <= digits -> sub_span digits = 1.
Proof. intros H. unfold V.Judge.C17.sub_span. rewrite Z.min_l by lia. reflexivity. Qed.
Lemma m_fix_span1 s : m_trunc s 1 = s /\ m_round s 1 = s /\ m_up s 1 = s.
Proof. destruct (m_round_fix s 1 ltac:(lia) (Z.rem_1_r s)) as (H1 & H2 & H3). auto. Qed.
