(** C08 — the operations the first rounds left without a theorem: NaiveWeek == / != / Hash (where
    defined, and the exact set of inputs on which the code panics), the deprecated panicking
    from_weekday_of_month, NaiveDateTime + / - Months, the Datelike accessors and provided methods
    called directly on a NaiveDateTime, Months::as_u32, and the table of which model function
    answers which op of the dispatcher. *)
From Coq Require Import ZArith List Bool Lia ZifyBool String.
From V Require Import Base.Int Base.IntLemmas Base.IO Spec.Gregorian Model.TimeDelta Model.Date Model.DateExtra
  Proofs.C08Sweeps Proofs.C08Date Proofs.C08Days Proofs.C08AddDays Proofs.C08 Proofs.C08Dt.
From V Require Model.Time Model.DateTime Model.C08.
Import ListNotations.
Open Scope Z_scope.
Ltac Zify.zify_post_hook ::= Z.to_euclidean_division_equations.
Module M := V.Model.C08.

(** * NaiveWeek == NaiveWeek, !=, Hash: comparison of the first days *)
Lemma date_of_dn_inj n m : dn_in_range n = true -> dn_in_range m = true ->
  (date_of_dn n =? date_of_dn m) = (n =? m).
Proof.
  intros Hn Hm. destruct (Z.eqb_spec n m) as [->|Hne]; [apply Z.eqb_refl|].
  apply Z.eqb_neq. intros E.
  destruct (date_of_dn_repr n Hn) as [R1 D1]. destruct (date_of_dn_repr m Hm) as [R2 D2].
  rewrite E in R1. destruct (repr_unique _ _ _ _ _ R1 R2) as [Ey Eo]. rewrite Ey, Eo in D1. congruence.
Qed.

Lemma repr_dn_in_range y o d : repr y o d -> dn_in_range (dn_of_yo y o) = true.
Proof. intros (Hy & Ho & _). rewrite dn_in_range_iff by exact Ho. exact Hy. Qed.

Theorem week_eq_spec y1 o1 d1 w1 y2 o2 d2 w2 : repr y1 o1 d1 -> repr y2 o2 d2 -> 0 <= w1 <= 6 -> 0 <= w2 <= 6 ->
  let f1 := week_start (dn_of_yo y1 o1) w1 in let f2 := week_start (dn_of_yo y2 o2) w2 in
  M.week_eq_obs (d_week d1 w1) (d_week d2 w2) =
    if dn_in_range f1 && dn_in_range f2
    then Val (VTup [val_of_bool (f1 =? f2); val_of_bool (negb (f1 =? f2)); val_of_bool (f1 =? f2)])
    else Panic.
Proof.
  intros R1 R2 H1 H2. cbv zeta. unfold M.week_eq_obs.
  destruct (week_panicking_spec y1 o1 d1 w1 R1 H1) as (E1 & _). destruct (week_panicking_spec y2 o2 d2 w2 R2 H2) as (E2 & _).
  cbv zeta in E1, E2. rewrite E1, E2.
  destruct (dn_in_range (week_start (dn_of_yo y1 o1) w1)) eqn:I1; [|reflexivity].
  destruct (dn_in_range (week_start (dn_of_yo y2 o2) w2)) eqn:I2; [|reflexivity].
  cbn [bind andb]. rewrite (date_of_dn_inj _ _ I1 I2). reflexivity.
Qed.
(* the exact set of inputs on which == / != / hash panic: a first day before the first date *)
Theorem week_eq_panics_exactly y1 o1 d1 w1 y2 o2 d2 w2 : repr y1 o1 d1 -> repr y2 o2 d2 -> 0 <= w1 <= 6 -> 0 <= w2 <= 6 ->
  (M.week_eq_obs (d_week d1 w1) (d_week d2 w2) = Panic <->
     week_start (dn_of_yo y1 o1) w1 < DN_MIN \/ week_start (dn_of_yo y2 o2) w2 < DN_MIN) /\
  (week_start (dn_of_yo y1 o1) w1 < DN_MIN <->
     dn_of_yo y1 o1 - DN_MIN < (weekday_of_dn (dn_of_yo y1 o1) - w1) mod 7).
Proof.
  intros R1 R2 H1 H2. rewrite (week_eq_spec y1 o1 d1 w1 y2 o2 d2 w2 R1 R2 H1 H2). cbv zeta.
  pose proof (week_start_facts (dn_of_yo y1 o1) w1 H1) as [_ B1].
  pose proof (week_start_facts (dn_of_yo y2 o2) w2 H2) as [_ B2].
  assert (N1 : dn_in_range (dn_of_yo y1 o1) = true) by (apply (repr_dn_in_range y1 o1 d1); exact R1).
  assert (N2 : dn_in_range (dn_of_yo y2 o2) = true) by (apply (repr_dn_in_range y2 o2 d2); exact R2).
  unfold dn_in_range in *. split.
  - destruct ((DN_MIN <=? week_start (dn_of_yo y1 o1) w1) && (week_start (dn_of_yo y1 o1) w1 <=? DN_MAX) &&
              ((DN_MIN <=? week_start (dn_of_yo y2 o2) w2) && (week_start (dn_of_yo y2 o2) w2 <=? DN_MAX))) eqn:E.
    + split; [discriminate|]. lia.
    + split; [intros _|reflexivity]. lia.
  - unfold week_start. lia.
Qed.
Lemma week_eq_examples :
  repr (-262143) 1 (mkdate (-262143) 1) /\
  M.week_eq_obs (d_week (mkdate (-262143) 1) 1) (d_week (mkdate (-262143) 1) 1) = Panic /\
  M.week_eq_obs (d_week (mkdate (-262143) 1) 3) (d_week (mkdate (-262143) 7) 3) = Val (VTup [VInt 1; VInt 0; VInt 1]) /\
  M.week_eq_obs (d_week (mkdate 2024 60) 0) (d_week (mkdate 2024 60) 6) = Val (VTup [VInt 0; VInt 1; VInt 0]).
Proof. split; [exact (proj1 (proj2 ex_repr))|]. vm_compute. repeat split. Qed.

(** * the deprecated panicking from_weekday_of_month *)
Theorem pnth_weekday_spec y m w n : in_i32 y = true -> in_u32 m = true -> 0 <= w <= 6 -> in_u8 n = true ->
  unwrap_r (from_weekday_of_month_opt y m w n) =
    match (if year_in_range y && (1 <=? m) && (m <=? 12) && (1 <=? n) then
             let day := 1 + (w - weekday_of_dn (dn_of_ymd y m 1)) mod 7 + 7 * (n - 1) in
             if day <=? days_in_month (is_leap y) m then Some (mk_ymd y m day) else None
           else None)
    with Some d => Val d | None => Panic end.
Proof. intros. rewrite nth_weekday_spec by assumption. reflexivity. Qed.

(** * NaiveDateTime + Months / - Months *)
Theorem ndt_op_months_spec a y o n : repr y o (DateTime.nd_date a) -> in_u32 n = true ->
  M.ndt_op_add_months a n =
    match shift_months y o n with Some d' => Val (DateTime.mk_ndt d' (DateTime.nd_time a)) | None => Panic end /\
  M.ndt_op_sub_months a n =
    match shift_months y o (- n) with Some d' => Val (DateTime.mk_ndt d' (DateTime.nd_time a)) | None => Panic end.
Proof.
  intros R Hn. destruct (ndt_add_months_spec a y o n R Hn) as [E1 E2].
  unfold M.ndt_op_add_months, M.ndt_op_sub_months, unwrap_r. rewrite E1, E2. cbn [bind].
  split; [destruct (shift_months y o n)|destruct (shift_months y o (- n))]; reflexivity.
Qed.

(** * Datelike called directly on a NaiveDateTime: the date part's accessors and provided methods *)
Theorem ndt_prov_spec a y o : repr y o (DateTime.nd_date a) ->
  M.ndt_prov a = Val (VTup [VInt ((month_of y o - 1) / 3 + 1); val_of_bool (1 <=? y);
    VInt (if 1 <=? y then y else 1 - y); VInt (days_in_month (is_leap y) (month_of y o)); VInt y;
    VInt (month_of y o); VInt (month_of y o - 1); VInt (day_of y o); VInt (day_of y o - 1);
    VInt o; VInt (o - 1); VInt (weekday_of_dn (dn_of_yo y o))]).
Proof.
  intros R. unfold M.ndt_prov. set (d := DateTime.nd_date a) in *.
  destruct (repr_md y o d R) as (Ey & Eo & Em & Ed & Ew & _ & Bm & Bd & _).
  rewrite (proj1 (quarter_spec y o d R)), (year_ce_spec y o d R), (num_days_in_month_spec y o d R), Em, Ed, Ew, Ey, Eo.
  cbn [bind].
  pose proof (days_in_month_bounds (is_leap y) (month_of y o)) as Bdm.
  destruct R as (_ & Vo & _). pose proof (lo_facts_of y o Vo) as [_ Fo _ _ _ _ _].
  unfold sub_u32.
  rewrite (chk_in in_u32 (month_of y o - 1)) by (unfold in_u32, in_range, u32_max; lia). cbn [bind].
  rewrite (chk_in in_u32 (day_of y o - 1)) by (unfold in_u32, in_range, u32_max; lia). cbn [bind].
  rewrite (chk_in in_u32 (o - 1)) by (unfold in_u32, in_range, u32_max; lia). cbn [bind].
  destruct (1 <=? y); reflexivity.
Qed.

(** * which model function answers which op *)
Definition sh_du (f : Z -> Z -> val) (args : list val) : val :=
  match args with
  | [a; b] => match DateTime.dec_date a, arg_u32 b with Some d, Some n => f d n | _, _ => VBad end | _ => VBad end.
Definition sh_nu (f : DateTime.ndt -> Z -> val) (args : list val) : val :=
  match args with
  | [a; b] => match DateTime.dec_ndt a, arg_u32 b with Some d, Some n => f d n | _, _ => VBad end | _ => VBad end.
Definition sh_dw (f : Z -> Z -> val) (args : list val) : val :=
  match args with
  | [a; b] => match DateTime.dec_date a, M.arg_wd b with Some d, Some w => f d w | _, _ => VBad end | _ => VBad end.
Definition sh_d1 (f : Z -> val) (args : list val) : val :=
  match args with [a] => match DateTime.dec_date a with Some d => f d | None => VBad end | _ => VBad end.
Definition sh_nth (f : Z -> Z -> Z -> Z -> val) (args : list val) : val :=
  match args with
  | [a; b; c; e] => match arg_i32 a, arg_u32 b, M.arg_wd c, M.arg_u8 e with
      | Some y, Some m, Some w, Some n => f y m w n | _, _, _, _ => VBad end
  | _ => VBad end.
Definition sh_with {A} (dec : val -> option A) (f : Z -> A -> Z -> val) (args : list val) : val :=
  match args with
  | [VStr s; a; b] =>
      match M.field_of s with
      | Some fl => match dec a, M.arg_field fl b with Some d, Some x => f fl d x | _, _ => VBad end
      | None => VBad end
  | _ => VBad end.
Definition pairv (p : Z * Z) : val := VTup [DateTime.enc_date (fst p); DateTime.enc_date (snd p)].

Theorem dispatch args :
  M.run (B"d8.addm") args = sh_du (fun d n => val_of_R M.vo_date (checked_add_months d n)) args /\
  M.run (B"d8.subm") args = sh_du (fun d n => val_of_R M.vo_date (checked_sub_months d n)) args /\
  M.run (B"d8.opaddm") args = sh_du (fun d n => val_of_R DateTime.enc_date (d_op_add_months d n)) args /\
  M.run (B"d8.opsubm") args = sh_du (fun d n => val_of_R DateTime.enc_date (d_op_sub_months d n)) args /\
  M.run (B"d8.with") args = sh_with DateTime.dec_date (fun f d x => val_of_R M.vo_date (M.d_with f d x)) args /\
  M.run (B"d8.wfirst") args = sh_dw (fun d w => val_of_R M.vo_date (week_checked_first_day (d_week d w))) args /\
  M.run (B"d8.wlast") args = sh_dw (fun d w => val_of_R M.vo_date (week_checked_last_day (d_week d w))) args /\
  M.run (B"d8.week") args = sh_dw (fun d w => val_of_R (val_of_option pairv) (week_checked_days (d_week d w))) args /\
  M.run (B"d8.wfirstp") args = sh_dw (fun d w => val_of_R DateTime.enc_date (week_first_day (d_week d w))) args /\
  M.run (B"d8.wlastp") args = sh_dw (fun d w => val_of_R DateTime.enc_date (week_last_day (d_week d w))) args /\
  M.run (B"d8.wdaysp") args = sh_dw (fun d w => val_of_R pairv (week_days (d_week d w))) args /\
  M.run (B"d8.nthwd") args = sh_nth (fun y m w n => val_of_R M.vo_date (from_weekday_of_month_opt y m w n)) args /\
  M.run (B"d8.pnthwd") args = sh_nth (fun y m w n => val_of_R DateTime.enc_date (unwrap_r (from_weekday_of_month_opt y m w n))) args /\
  M.run (B"d8.years") args =
    match args with
    | [a; b] => match DateTime.dec_date a, DateTime.dec_date b with
        | Some d, Some base => val_of_R M.vo_int (years_since d base) | _, _ => VBad end
    | _ => VBad end /\
  M.run (B"d8.dtyears") args =
    match args with
    | [a; b] => match DateTime.dec_dtz a, DateTime.dec_dtz b with
        | Some d, Some base => val_of_R M.vo_int (M.dz_years_since d base) | _, _ => VBad end
    | _ => VBad end /\
  M.run (B"d8.quarter") args = sh_d1 (fun d => val_of_R VInt (d_quarter d)) args /\
  M.run (B"d8.yce") args = sh_d1 (fun d => val_of_R (fun p => VTup [val_of_bool (fst p); VInt (snd p)]) (d_year_ce d)) args /\
  M.run (B"d8.dim") args = sh_d1 (fun d => val_of_R VInt (d_num_days_in_month d)) args /\
  M.run (B"d8.mdays") args =
    match args with
    | [a; b] => match M.arg_month a, arg_i32 b with
        | Some m, Some y => val_of_R M.vo_int (month_num_days m y) | _, _ => VBad end
    | _ => VBad end /\
  M.run (B"d8.ndt.addm") args = sh_nu (fun d n => val_of_R M.vo_ndt (DateTime.ndt_checked_add_months d n)) args /\
  M.run (B"d8.ndt.subm") args = sh_nu (fun d n => val_of_R M.vo_ndt (DateTime.ndt_checked_sub_months d n)) args /\
  M.run (B"d8.ndt.with") args = sh_with DateTime.dec_ndt (fun f d x => val_of_R M.vo_ndt (DateTime.ndt_with f d x)) args /\
  M.run (B"d8.ndt.opaddm") args = sh_nu (fun d n => val_of_R DateTime.enc_ndt (M.ndt_op_add_months d n)) args /\
  M.run (B"d8.ndt.opsubm") args = sh_nu (fun d n => val_of_R DateTime.enc_ndt (M.ndt_op_sub_months d n)) args /\
  M.run (B"d8.ndt.prov") args =
    match args with
    | [a] => match DateTime.dec_ndt a with Some x => val_of_R (fun v => v) (M.ndt_prov x) | None => VBad end
    | _ => VBad end /\
  (* Months::new(n).as_u32() = n for every u32 *)
  M.run (B"d8.months_u32") args =
    match args with [a] => match arg_u32 a with Some n => VInt n | None => VBad end | _ => VBad end /\
  M.run (B"d8.weq") args =
    match args with
    | [a; b; c; e] => match DateTime.dec_date a, M.arg_wd b, DateTime.dec_date c, M.arg_wd e with
        | Some d1, Some w1, Some d2, Some w2 => val_of_R (fun v => v) (M.week_eq_obs (d_week d1 w1) (d_week d2 w2))
        | _, _, _, _ => VBad end
    | _ => VBad end.
Proof. repeat match goal with |- _ /\ _ => split end; reflexivity. Qed.
