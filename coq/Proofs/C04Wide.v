(** C04 — the date-field setters, day stepping and month stepping of a date-time whose WALL CLOCK
    lies in the one-day headroom (its local date is NaiveDate::BEFORE_MIN or AFTER_MAX), which the
    [*_partial] theorems of Proofs/C04Date.v leave out; and the resulting theorems over every
    well-formed date-time.
    Technique: the two headroom dates are closed words, so every NaiveDate operation on them is
    evaluated by the kernel ([vm_compute]) — exhaustively over the finite part of the argument
    range, symbolically (same steps as the shared proofs of Proofs/C08*.v) beyond it. *)
From Coq Require Import ZArith List Bool Lia ZifyBool.
From V Require Import Base.Int Base.IntLemmas Base.IO Base.Lift Base.Table Gen.DateTables Spec.Gregorian.
From V Require Model.Date Model.Time.
From V Require Import Model.DateTime Model.C04.
From V Require Proofs.Date Proofs.C08 Proofs.DateIso Proofs.DateWide.
From V Require Import Proofs.C04 Proofs.C04Date.
Import ListNotations.
Open Scope Z_scope.
Ltac Zify.zify_post_hook ::= Z.to_euclidean_division_equations.

Module S := V.Proofs.C08Sweeps.
Module CD := V.Proofs.C08Date.

(** * The two headroom dates, indexed by [hb] ([true]: before the range, [false]: after it) *)
Definition HY (hb : bool) : Z := if hb then -262144 else 262143.     (* year *)
Definition HO (hb : bool) : Z := if hb then 366 else 1.              (* ordinal *)
Definition HW (hb : bool) : Z := if hb then Date.D_BEFORE_MIN else Date.D_AFTER_MAX.
Definition HN (hb : bool) : Z := if hb then DN_MIN - 1 else DN_MAX + 1.

Lemma HW_word hb : HW hb = S.mkdate (HY hb) (HO hb) /\ HY hb = (if hb then MIN_YEAR - 1 else MAX_YEAR + 1) /\
  valid_yo (HY hb) (HO hb) = true /\ dn (HW hb) = HN hb /\ dn_of_yo (HY hb) (HO hb) = HN hb.
Proof. destruct hb; vm_compute; repeat split; reflexivity. Qed.

(** the other days of the two headroom years: never a result that survives *)
Definition outb (hb : bool) (d : Z) : bool :=
  let o := Date.d_ordinal d in
  (d =? S.mkdate (HY hb) o) && valid_yo (HY hb) o && negb (o =? HO hb).

Definition shift_escapes (hb : bool) (d k : Z) : bool :=
  match shift_date_checked d k with
  | Val None => true
  | Val (Some x) => if hb then x <? Date.D_MIN else Date.D_MAX <? x
  | _ => false
  end.
Definition out_ok (hb : bool) (o : Z) : bool :=
  let d := S.mkdate (HY hb) o in
  if valid_yo (HY hb) o && negb (o =? HO hb) then
    (dn d =? HN hb - HO hb + o) && shift_escapes hb d (-1) && shift_escapes hb d 0 && shift_escapes hb d 1
  else true.
Lemma out_sweep : forall_range (out_ok true) 1 366 = true /\ forall_range (out_ok false) 1 366 = true.
Proof. split; vm_compute; reflexivity. Qed.

Lemma out_class hb d : outb hb d = true ->
  (if hb then dn d <= DN_MIN - 2 else DN_MAX + 2 <= dn d) /\
  forall k, -1 <= k <= 1 -> shift_escapes hb d k = true.
Proof.
  unfold outb. cbv zeta. set (o := Date.d_ordinal d). intros H.
  apply andb_prop in H. destruct H as [H Hne]. apply andb_prop in H. destruct H as [Hd Hv].
  apply Z.eqb_eq in Hd.
  assert (Hor : 1 <= o <= 366) by (unfold valid_yo, days_in_year in Hv; destruct (is_leap (HY hb)); lia).
  assert (Hs : out_ok hb o = true).
  { destruct hb; [apply (forall_range_spec _ _ _ (proj1 out_sweep))|apply (forall_range_spec _ _ _ (proj2 out_sweep))]; lia. }
  unfold out_ok in Hs. cbv zeta in Hs. rewrite Hv, Hne, <- Hd in Hs. cbn [andb] in Hs.
  repeat (apply andb_prop in Hs; destruct Hs as [Hs ?]).
  split.
  - destruct hb; unfold HN, HO, DN_MIN, DN_MAX in *; cbn [negb] in *; lia.
  - intros k Hk. assert (k = -1 \/ k = 0 \/ k = 1) as [->|[->| ->]] by lia; assumption.
Qed.

(** re-resolving a wall clock on such a day: refused, or a value whose UTC date word lies outside
    [D_MIN, D_MAX] on the same side (which every range filter removes) *)
Lemma from_local_out hb off d t : outb hb d = true -> time_ok t -> off_ok off ->
  exists r, from_local_datetime off (mk_ndt d t) = Val r /\ escaped off r hb /\
            (if hb then usecs (mk_ndt d t) - off < TMIN else TMAX < usecs (mk_ndt d t) - off).
Proof.
  intros Ho Ht Hoff. destruct (out_class hb d Ho) as [Hdn Hsh].
  unfold from_local_datetime, ndt_checked_sub_offset. cbn [nd_date nd_time].
  rewrite overflowing_sub_offset_spec by assumption. cbv [bind].
  destruct Ht as [Hs Hf]. set (s := Time.tsecs t) in *.
  pose proof (proj2 (offset_days_range s off Hs Hoff)) as Hk.
  specialize (Hsh _ Hk). unfold shift_escapes in Hsh.
  assert (Hu : if hb then usecs (mk_ndt d t) - off < TMIN else TMAX < usecs (mk_ndt d t) - off).
  { unfold usecs. cbn [nd_date nd_time]. fold s. unfold off_ok in Hoff.
    destruct hb; unfold TMIN, TMAX, DN_MIN, DN_MAX in *; lia. }
  destruct (shift_date_checked d ((s - off) / 86400)) as [[x|]| |] eqn:E; try discriminate.
  - unfold obind. cbv [bind]. eexists. split; [reflexivity|]. split; [|exact Hu].
    right. eexists. eexists. split; [reflexivity|]. destruct hb; lia.
  - unfold obind. cbv [bind]. eexists. split; [reflexivity|]. split; [left; reflexivity|exact Hu].
Qed.

(** * The NaiveDate setters on the two headroom words, fields 1..6 (month, month0, day, day0,
      ordinal, ordinal0): exhaustively for arguments up to 400, symbolically above *)
Definition setter_ok (hb : bool) (field x : Z) : bool :=
  match date_setter field (HW hb) x, new_dn field (HN hb) x with
  | Val None, None => true
  | Val (Some d'), Some n' => (dn d' =? n') && ((d' =? HW hb) || outb hb d')
  | _, _ => false
  end.
Lemma setter_sweep :
  forall_range2 (setter_ok true) 1 6 0 401 = true /\ forall_range2 (setter_ok false) 1 6 0 401 = true.
Proof. split; vm_compute; reflexivity. Qed.

Lemma valid_ymd_month_big y m d : 12 < m -> valid_ymd y m d = false.
Proof. intros H. unfold valid_ymd. replace (m <=? 12) with false by lia. destruct (1 <=? m); reflexivity. Qed.
Lemma valid_ymd_day_big y m d : 31 < d -> valid_ymd y m d = false.
Proof.
  intros H. unfold valid_ymd. pose proof (CD.days_in_month_bounds (is_leap y) m).
  replace (d <=? days_in_month (is_leap y) m) with false by lia. rewrite andb_false_r. reflexivity.
Qed.
Lemma valid_yo_big y o : 366 < o -> valid_yo y o = false.
Proof. intros H. unfold valid_yo, days_in_year. destruct (is_leap y); lia. Qed.

Lemma new_dn_big field n x : 1 <= field <= 6 -> 400 < x -> new_dn field n x = None.
Proof.
  intros Hf Hx. unfold new_dn. destruct (ymd_of_dn n) as [[y m] d]. cbv zeta beta.
  replace (field =? 0) with false by lia.
  destruct (field =? 1); [rewrite (valid_ymd_month_big y x d) by lia; reflexivity|].
  destruct (field =? 2); [rewrite (valid_ymd_month_big y (x + 1) d) by lia; reflexivity|].
  destruct (field =? 3); [rewrite (valid_ymd_day_big y m x) by lia; reflexivity|].
  destruct (field =? 4); [rewrite (valid_ymd_day_big y m (x + 1)) by lia; reflexivity|].
  destruct (field =? 5); [rewrite (valid_yo_big y x) by lia; reflexivity|].
  rewrite (valid_yo_big y (x + 1)) by lia. reflexivity.
Qed.

Lemma date_setter_big d mdf field x : Date.d_mdf d = Val mdf -> 1 <= field <= 6 -> 400 < x ->
  date_setter field d x = Val None.
Proof.
  intros Hm Hf Hx. unfold date_setter. replace (field =? 0) with false by lia.
  assert (B1 : forall z, 400 < z -> Date.with_month d z = Val None).
  { intros z Hz. unfold Date.with_month. rewrite Hm. cbv [bind]. unfold Date.mdf_with_month.
    replace (12 <? z) with true by lia. reflexivity. }
  assert (B2 : forall z, 400 < z -> Date.with_day d z = Val None).
  { intros z Hz. unfold Date.with_day. rewrite Hm. cbv [bind]. unfold Date.mdf_with_day.
    replace (31 <? z) with true by lia. reflexivity. }
  assert (B3 : forall z, 400 < z -> Date.with_ordinal d z = Val None).
  { intros z Hz. unfold Date.with_ordinal. replace ((z =? 0) || (366 <? z)) with true by lia. reflexivity. }
  destruct (field =? 1); [apply B1; lia|].
  destruct (field =? 2).
  { unfold Date.with_month0, checked_add, chko. destruct (in_u32 (x + 1)); [apply B1; lia|reflexivity]. }
  destruct (field =? 3); [apply B2; lia|].
  destruct (field =? 4).
  { unfold Date.with_day0, checked_add, chko. destruct (in_u32 (x + 1)); [apply B2; lia|reflexivity]. }
  destruct (field =? 5); [apply B3; lia|].
  unfold Date.with_ordinal0, checked_add, chko. destruct (in_u32 (x + 1)); [apply B3; lia|reflexivity].
Qed.

Lemma HW_mdf hb : exists mdf, Date.d_mdf (HW hb) = Val mdf.
Proof. destruct hb; eexists; vm_compute; reflexivity. Qed.

(** a NaiveDate setter on a headroom date: no such date ([None]), the date itself, or another day of
    the headroom year — with the day number the calendar gives *)
Lemma setter_headroom hb field x : 1 <= field <= 6 -> in_u32 x = true ->
  exists r, date_setter field (HW hb) x = Val r /\
  match new_dn field (HN hb) x with
  | None => r = None
  | Some n' => exists d', r = Some d' /\ dn d' = n' /\ (d' = HW hb \/ outb hb d' = true)
  end.
Proof.
  intros Hf Hx. destruct (Z_le_dec x 400) as [Hle|Hgt].
  - assert (Hs : setter_ok hb field x = true).
    { unfold in_u32, in_range in Hx.
      destruct hb; [apply (forall_range2_spec _ _ _ _ _ (proj1 setter_sweep))
                   |apply (forall_range2_spec _ _ _ _ _ (proj2 setter_sweep))]; lia. }
    unfold setter_ok in Hs.
    destruct (date_setter field (HW hb) x) as [[d'|]| |]; destruct (new_dn field (HN hb) x) as [n'|]; try discriminate.
    + apply andb_prop in Hs. destruct Hs as [H1 H2]. apply Z.eqb_eq in H1.
      exists (Some d'). split; [reflexivity|]. exists d'. split; [reflexivity|]. split; [exact H1|].
      apply orb_prop in H2. destruct H2 as [H2|H2]; [left; apply Z.eqb_eq; exact H2|right; exact H2].
    + exists None. split; reflexivity.
  - rewrite new_dn_big by lia. exists None. split; [|reflexivity].
    destruct (HW_mdf hb) as [mdf Hm]. apply (date_setter_big _ mdf); [exact Hm|lia|lia].
Qed.

(** * Day stepping and month stepping of the two headroom words (Proofs/DateWide.v, the readings
      of the words computed) *)
Definition fast_ok (hb : bool) (o' : Z) : bool :=
  if valid_yo (HY hb) o' then
    (Z.lor (Z.land (HW hb) (Date.not_i32 DateTables.D_ORDINAL_MASK)) (Date.shl_i32 o' 4) =? S.mkdate (HY hb) o')
    && S.rz_is (Date.from_yof (S.mkdate (HY hb) o')) (S.mkdate (HY hb) o')
    && (if o' =? HO hb then true else outb hb (S.mkdate (HY hb) o'))
  else true.
Lemma fast_sweep : forall_range (fast_ok true) 1 366 = true /\ forall_range (fast_ok false) 1 366 = true.
Proof. split; vm_compute; reflexivity. Qed.
Lemma fast_facts hb o' : valid_yo (HY hb) o' = true ->
  Z.lor (Z.land (HW hb) (Date.not_i32 DateTables.D_ORDINAL_MASK)) (Date.shl_i32 o' 4) = S.mkdate (HY hb) o' /\
  Date.from_yof (S.mkdate (HY hb) o') = Val (S.mkdate (HY hb) o') /\
  (o' <> HO hb -> outb hb (S.mkdate (HY hb) o') = true).
Proof.
  intros Hv. assert (Hor : 1 <= o' <= 366) by (unfold valid_yo, days_in_year in Hv; destruct (is_leap (HY hb)); lia).
  assert (Hs : fast_ok hb o' = true).
  { destruct hb; [apply (forall_range_spec _ _ _ (proj1 fast_sweep))|apply (forall_range_spec _ _ _ (proj2 fast_sweep))]; lia. }
  unfold fast_ok in Hs. rewrite Hv in Hs.
  apply andb_prop in Hs. destruct Hs as [Hs H3]. apply andb_prop in Hs. destruct Hs as [H1 H2].
  apply Z.eqb_eq in H1. apply S.rz_is_eq in H2. split; [exact H1|]. split; [exact H2|].
  intros Hne. replace (o' =? HO hb) with false in H3 by lia. exact H3.
Qed.

Lemma HW_add_days hb k : in_i32 k = true ->
  Date.add_days (HW hb) k =
  Val (if (0 <? HO hb + k) && (HO hb + k <=? days_in_year (HY hb)) then Some (S.mkdate (HY hb) (HO hb + k))
       else CD.date_if (dn_in_range (HN hb + k)) (C08AddDays.date_of_dn (HN hb + k))).
Proof.
  intros Hk. destruct (HW_word hb) as (_ & _ & Hv & _ & Hn). rewrite <- Hn.
  apply DateWide.add_days_gen; try assumption.
  - destruct hb; cbn [HY]; lia.
  - destruct hb; vm_compute; reflexivity.
  - destruct hb; vm_compute; reflexivity.
  - destruct hb; vm_compute; reflexivity.
  - destruct hb; vm_compute; reflexivity.
  - intros o' Ho'. destruct (fast_facts hb o' Ho') as (F1 & F2 & _). split; assumption.
Qed.

Lemma HW_month_day hb :
  Date.d_year (HW hb) = HY hb /\
  Date.d_month (HW hb) = Val (if hb then 12 else 1) /\ Date.d_day (HW hb) = Val (if hb then 31 else 1) /\
  ymd_of_dn (HN hb) = (HY hb, if hb then 12 else 1, if hb then 31 else 1).
Proof. destruct hb; vm_compute; repeat split; reflexivity. Qed.

Lemma HW_diff_months hb k : in_i32 k = true ->
  Date.diff_months (HW hb) k = Val (DateWide.shift_ymd (HY hb) (if hb then 12 else 1) (if hb then 31 else 1) k).
Proof.
  intros Hk. destruct (HW_month_day hb) as (Hy & Hm & Hd & _).
  apply DateWide.diff_months_gen; try assumption; destruct hb; cbn [HY]; lia.
Qed.

Lemma with_year_headroom hb x : in_i32 x = true ->
  Date.with_year (HW hb) x =
  Val (CD.date_if (year_in_range x && valid_ymd x (if hb then 12 else 1) (if hb then 31 else 1))
                  (CD.mk_ymd x (if hb then 12 else 1) (if hb then 31 else 1))).
Proof.
  intros Hx.
  assert (Hmdf : Date.d_mdf (HW hb) =
                 Val ((if hb then 12 else 1) * 512 + (if hb then 31 else 1) * 16 + S.yflags (HY hb)))
    by (destruct hb; vm_compute; reflexivity).
  destruct (S.yflags_facts (HY hb)) as (_ & Hf & _). destruct (S.yflags_facts x) as (_ & Hfx & _).
  unfold Date.with_year. rewrite Hmdf. cbn [bind]. rewrite S.yf_from_year_spec by assumption. cbn [bind].
  set (m0 := if hb then 12 else 1) in *. set (d0 := if hb then 31 else 1) in *.
  assert (Hb : 1 <= m0 <= 12 /\ 1 <= d0 <= 31) by (unfold m0, d0; destruct hb; lia).
  destruct (CD.mdfw_facts (m0 * 512 + d0 * 16 + S.yflags (HY hb)) (S.yflags x) ltac:(lia) ltac:(lia)) as (_ & _ & Wf).
  rewrite Wf by lia.
  replace ((m0 * 512 + d0 * 16 + S.yflags (HY hb)) / 16 * 16) with (m0 * 512 + d0 * 16) by lia.
  apply CD.from_mdf_word; [assumption|lia|lia].
Qed.

(** * The date-time layer over a headroom wall clock *)
Lemma headroom_source a l : dtz_ok a -> overflowing_naive_local a = Val l -> in_rng (wall a) = false ->
  exists hb, nd_date l = HW hb /\ wall a / 86400 = HN hb /\ time_ok (nd_time l) /\
             Time.tsecs (nd_time l) = wall a mod 86400 /\ frac l = frac (dz_utc a) /\ ndt_wide l /\ usecs l = wall a.
Proof.
  intros Ha Hl Hin. destruct (overflowing_naive_local_spec HD a Ha) as [l2 [Hl2 [[Hd Ht] [Hu Hf]]]].
  rewrite Hl in Hl2. inversion Hl2. subst l2. clear Hl2.
  assert (Hn : dn (nd_date l) = wall a / 86400 /\ Time.tsecs (nd_time l) = wall a mod 86400).
  { unfold usecs in Hu. destruct Ht as [Hs _]. lia. }
  destruct Hn as [Hn Hsod].
  assert (Hwide : ndt_wide l) by (split; assumption).
  destruct Hd as [Hd|[Hd|Hd]].
  - exfalso. pose proof (proj1 HD _ Hd) as Hr. unfold in_rng, TMIN, TMAX in Hin. unfold DN_MIN, DN_MAX in Hr.
    unfold usecs in Hu. destruct Ht as [Hs _]. lia.
  - exists true. cbn [HW HN]. rewrite <- Hn, Hd, dn_BEFORE_MIN. repeat (split; [first [reflexivity|assumption]|]). assumption.
  - exists false. cbn [HW HN]. rewrite <- Hn, Hd, dn_AFTER_MAX. repeat (split; [first [reflexivity|assumption]|]). assumption.
Qed.

Lemma HW_dateok hb : dateok (HW hb).
Proof. destruct hb; [right; left|right; right]; reflexivity. Qed.

(** the new wall clock is a supported or headroom date: exact re-resolution with the range filter *)
Lemma map_local_dateok a f l d' : dtz_ok a -> overflowing_naive_local a = Val l -> time_ok (nd_time l) ->
  Time.tsecs (nd_time l) = wall a mod 86400 -> frac l = frac (dz_utc a) ->
  f l = Val (Some (mk_ndt d' (nd_time l))) -> dateok d' ->
  let w' := dn d' * 86400 + wall a mod 86400 in
  if keep (w' - dz_off a) (frac (dz_utc a))
  then exists z, map_local a f = Val (Some z) /\ dtz_ok z /\ dz_off z = dz_off a /\
                 wall z = w' /\ frac (dz_utc z) = frac (dz_utc a)
  else map_local a f = Val None.
Proof.
  intros Ha Hl Ht Hsod Hfr Hfl Hd' w'.
  assert (Hw : ndt_wide (mk_ndt d' (nd_time l))) by (split; assumption).
  pose proof (map_local_some HD a f l (mk_ndt d' (nd_time l)) Ha Hl Hfl Hw) as H.
  assert (Hus : usecs (mk_ndt d' (nd_time l)) = w').
  { unfold usecs, w'. cbn [nd_date nd_time]. rewrite Hsod. reflexivity. }
  assert (Hfr' : frac (mk_ndt d' (nd_time l)) = frac (dz_utc a)) by exact Hfr.
  rewrite Hus, Hfr' in H.
  destruct (keep (w' - dz_off a) (frac (dz_utc a))).
  - destruct H as [z [H1 [H2 [H3 [H4 H5]]]]]. exists z. repeat split; try assumption; try apply H2.
    unfold wall in *. rewrite H4, H3. lia.
  - exact H.
Qed.

(** the new wall clock is another day of a headroom year: refused *)
Lemma map_local_out hb a f l d' : dtz_ok a -> overflowing_naive_local a = Val l -> time_ok (nd_time l) ->
  f l = Val (Some (mk_ndt d' (nd_time l))) -> outb hb d' = true ->
  map_local a f = Val None /\ in_rng (dn d' * 86400 + Time.tsecs (nd_time l) - dz_off a) = false.
Proof.
  intros Ha Hl Ht Hf Ho.
  destruct (from_local_out hb (dz_off a) d' (nd_time l) Ho Ht (proj2 Ha)) as (r & Hr & He & Hu).
  split.
  - unfold map_local. rewrite Hl. cbv [bind]. unfold obind. rewrite Hf. cbv [bind]. rewrite Hr. cbv [bind].
    destruct He as [->|(x & tm & -> & Hx)]; cbn [mlt_single]; [reflexivity|].
    rewrite out_of_range_word; [reflexivity|destruct hb; [left|right]; exact Hx].
  - unfold usecs in Hu. cbn [nd_date nd_time] in Hu. unfold in_rng. destruct hb; lia.
Qed.

(** ** date-field replacement *)
(** [new_dn], plus the one case where the setter is the identity although the calendar has no such
    supported date: with_year with the unchanged year (of a headroom date) *)
Definition new_dn_id (field n x : Z) : option Z :=
  if (field =? 0) && (fst (fst (ymd_of_dn n)) =? x) then Some n else new_dn field n x.

Lemma closure_headroom hb field l x : nd_date l = HW hb -> 0 <= field <= 6 ->
  (if field =? 0 then in_i32 x else in_u32 x) = true ->
  exists r, setter_closure field x l = ndt_map_date l (Val r) /\
  match new_dn_id field (HN hb) x with
  | None => r = None
  | Some n' => exists d', r = Some d' /\ dn d' = n' /\ (nominal d' \/ d' = HW hb \/ outb hb d' = true)
  end.
Proof.
  intros Hd Hf Hx. destruct (HW_month_day hb) as (Hy & Hm & Hdd & Hymd).
  destruct (HW_word hb) as (_ & _ & _ & Hdn & _).
  unfold new_dn_id, setter_closure. rewrite Hymd. cbn [fst].
  destruct (field =? 0) eqn:E0.
  - assert (field = 0) by lia. subst field. cbn [andb]. rewrite Hd, Hy.
    destruct (HY hb =? x) eqn:Ey.
    + exists (Some (HW hb)). split.
      * unfold ndt_map_date, obind. cbv [bind]. rewrite <- Hd, ndt_eta. reflexivity.
      * exists (HW hb). split; [reflexivity|]. split; [exact Hdn|]. right. left. reflexivity.
    + rewrite (ndt_with_date 0 l x ltac:(lia)). change (0 =? 0) with true. cbv iota.
      rewrite Hd, (with_year_headroom hb x Hx).
      unfold new_dn. rewrite Hymd. cbv zeta beta. change (0 =? 0) with true. cbv iota.
      set (m0 := if hb then 12 else 1). set (d0 := if hb then 31 else 1).
      destruct (year_in_range x && valid_ymd x m0 d0) eqn:Ec.
      * apply andb_prop in Ec. destruct Ec as [E1 E2].
        pose proof (Proofs.C08.mk_ymd_repr x m0 d0 E1 E2) as R.
        exists (Some (CD.mk_ymd x m0 d0)). split; [reflexivity|].
        exists (CD.mk_ymd x m0 d0). split; [reflexivity|]. split; [exact (dn_of_repr _ _ _ R)|].
        left. exact (nominal_of_repr _ _ _ R).
      * exists None. split; reflexivity.
  - cbn [andb]. assert (Hf' : 1 <= field <= 6) by lia.
    destruct (setter_headroom hb field x Hf' Hx) as (r & Hset & Hres).
    exists r. split.
    + rewrite (ndt_with_date field l x Hf). fold (date_setter field (nd_date l) x). rewrite Hd, Hset. reflexivity.
    + destruct (new_dn field (HN hb) x) as [n'|]; [|exact Hres].
      destruct Hres as (d' & H1 & H2 & H3). exists d'. split; [exact H1|]. split; [exact H2|]. right. exact H3.
Qed.

Theorem with_datefield_headroom field a x : dtz_ok a -> in_rng (wall a) = false -> 0 <= field <= 6 ->
  (if field =? 0 then in_i32 x else in_u32 x) = true ->
  match new_dn_id field (wall a / 86400) x with
  | None => dz_with field a x = Val None
  | Some n' =>
      let w' := n' * 86400 + wall a mod 86400 in
      if keep (w' - dz_off a) (frac (dz_utc a))
      then exists z, dz_with field a x = Val (Some z) /\ dtz_ok z /\ dz_off z = dz_off a /\
                     wall z = w' /\ frac (dz_utc z) = frac (dz_utc a)
      else dz_with field a x = Val None
  end.
Proof.
  intros Ha Hin Hf Hx. destruct (overflowing_naive_local_spec HD a Ha) as [l [Hl _]].
  destruct (headroom_source a l Ha Hl Hin) as (hb & Hd & Hn & Ht & Hsod & Hfr & Hw & Hu).
  rewrite Hn. destruct (closure_headroom hb field l x Hd Hf Hx) as (r & Hcl & Hres).
  rewrite dz_with_closure.
  destruct (new_dn_id field (HN hb) x) as [n'|].
  - destruct Hres as (d' & -> & Hdn' & Hclass). cbv zeta. rewrite <- Hdn'.
    assert (Hfl : setter_closure field x l = Val (Some (mk_ndt d' (nd_time l)))) by (rewrite Hcl; reflexivity).
    assert (Hok : dateok d' -> if keep (dn d' * 86400 + wall a mod 86400 - dz_off a) (frac (dz_utc a))
      then exists z, map_local a (setter_closure field x) = Val (Some z) /\ dtz_ok z /\ dz_off z = dz_off a /\
                     wall z = dn d' * 86400 + wall a mod 86400 /\ frac (dz_utc z) = frac (dz_utc a)
      else map_local a (setter_closure field x) = Val None)
      by (intros Hdo; exact (map_local_dateok a _ l d' Ha Hl Ht Hsod Hfr Hfl Hdo)).
    destruct Hclass as [Hnom|[Heq|Hout]].
    + apply Hok. left. exact Hnom.
    + apply Hok. rewrite Heq. apply HW_dateok.
    + destruct (map_local_out hb a _ l d' Ha Hl Ht Hfl Hout) as [Hm Hr].
      unfold keep. rewrite <- Hsod, Hr. cbn [andb]. exact Hm.
  - subst r. apply (map_local_none a _ l Hl). rewrite Hcl. reflexivity.
Qed.

Lemma new_dn_id_nominal field a x : dtz_ok a -> in_rng (wall a) = true ->
  new_dn_id field (wall a / 86400) x = new_dn field (wall a / 86400) x.
Proof.
  intros Ha Hin. destruct (overflowing_naive_local_spec HD a Ha) as [l [Hl _]].
  destruct (wall_date_repr a l Ha Hl Hin) as (Hr & Hdn & _).
  unfold new_dn_id.
  destruct ((field =? 0) && (fst (fst (ymd_of_dn (wall a / 86400))) =? x)) eqn:E; [|reflexivity].
  apply andb_prop in E. destruct E as [E0 Ex]. apply Z.eqb_eq in E0, Ex. subst field.
  revert Ex. unfold new_dn, ymd_of_dn.
  set (n := wall a / 86400) in *. destruct (yo_of_dn n) as [y o]. cbn [fst snd] in *.
  pose proof (CD.repr_acc y o _ Hr) as A. destruct (md_of_ordinal (is_leap y) o) as [m d]. cbn [fst].
  intros <-. destruct A as (_ & _ & _ & _ & _ & _ & _ & _ & _ & Hv & Hord).
  change (0 =? 0) with true. cbv zeta beta iota. rewrite (proj1 Hr). rewrite CD.valid_md_ymd in Hv. rewrite Hv.
  cbn [andb]. unfold dn_of_ymd. rewrite Hord, Hdn. reflexivity.
Qed.

(** replacing a date field (0 year, 1 month, 2 month0, 3 day, 4 day0, 5 ordinal, 6 ordinal0) of ANY
    well-formed date-time: exactly that field of the wall-clock date is replaced, time of day kept;
    None exactly when no such date exists or the instant is refused *)
Theorem with_datefield_all field a x : dtz_ok a -> 0 <= field <= 6 ->
  (if field =? 0 then in_i32 x else in_u32 x) = true ->
  match new_dn_id field (wall a / 86400) x with
  | None => dz_with field a x = Val None
  | Some n' =>
      let w' := n' * 86400 + wall a mod 86400 in
      if keep (w' - dz_off a) (frac (dz_utc a))
      then exists z, dz_with field a x = Val (Some z) /\ dtz_ok z /\ dz_off z = dz_off a /\
                     wall z = w' /\ frac (dz_utc z) = frac (dz_utc a)
      else dz_with field a x = Val None
  end.
Proof.
  intros Ha Hf Hx. destruct (in_rng (wall a)) eqn:Hin.
  - rewrite (new_dn_id_nominal field a x Ha Hin). apply with_datefield_spec; assumption.
  - apply with_datefield_headroom; assumption.
Qed.

(** ** day stepping *)
Lemma add_days_out a n l d' : dtz_ok a -> n <> 0 -> overflowing_naive_local a = Val l -> time_ok (nd_time l) ->
  Date.checked_add_days (nd_date l) n = Val (Some d') -> outb false d' = true ->
  dz_checked_add_days a n = Val None.
Proof.
  intros Ha Hn Hl Ht Hg Ho.
  destruct (from_local_out false (dz_off a) d' (nd_time l) Ho Ht (proj2 Ha)) as (r & Hr & He & _).
  unfold dz_checked_add_days. replace (n =? 0) with false by lia. rewrite Hl. cbv [bind].
  unfold ndt_checked_add_days, ndt_map_date, obind. rewrite Hg. cbv [bind]. rewrite Hr. cbv [bind].
  destruct He as [->|(x & tm & -> & Hx)]; cbn [mlt_single]; [reflexivity|]. cbn [dz_utc].
  rewrite ndt_le_spec. unfold NDT_MAX. cbn [nd_date]. replace (x <? Date.D_MAX) with false by lia.
  replace (x =? Date.D_MAX) with false by lia. reflexivity.
Qed.
Lemma sub_days_out a n l d' : dtz_ok a -> overflowing_naive_local a = Val l -> time_ok (nd_time l) ->
  Date.checked_sub_days (nd_date l) n = Val (Some d') -> outb true d' = true ->
  dz_checked_sub_days a n = Val None.
Proof.
  intros Ha Hl Ht Hg Ho.
  destruct (from_local_out true (dz_off a) d' (nd_time l) Ho Ht (proj2 Ha)) as (r & Hr & He & _).
  unfold dz_checked_sub_days. rewrite Hl. cbv [bind].
  unfold ndt_checked_sub_days, ndt_map_date, obind. rewrite Hg. cbv [bind]. rewrite Hr. cbv [bind].
  destruct He as [->|(x & tm & -> & Hx)]; cbn [mlt_single]; [reflexivity|]. cbn [dz_utc].
  rewrite ndt_le_spec. unfold NDT_MIN. cbn [nd_date]. replace (Date.D_MIN <? x) with false by lia.
  replace (Date.D_MIN =? x) with false by lia. reflexivity.
Qed.

Theorem add_days_headroom a n : dtz_ok a -> in_rng (wall a) = false -> in_u64 n = true -> n <> 0 ->
  let n' := wall a / 86400 + n in
  let w' := n' * 86400 + wall a mod 86400 in
  if dn_in_range n' && keep (w' - dz_off a) (frac (dz_utc a))
  then exists z, dz_checked_add_days a n = Val (Some z) /\ dtz_ok z /\ dz_off z = dz_off a /\
                 wall z = w' /\ frac (dz_utc z) = frac (dz_utc a)
  else dz_checked_add_days a n = Val None.
Proof.
  intros Ha Hin Hn Hn0 n' w'. destruct (overflowing_naive_local_spec HD a Ha) as [l [Hl _]].
  destruct (headroom_source a l Ha Hl Hin) as (hb & Hd & Hnn & Ht & Hsod & Hfr & Hw & Hu).
  unfold in_u64, in_range, u64_max in Hn.
  assert (Hdnl : dn (nd_date l) = wall a / 86400) by (rewrite Hd, Hnn; apply HW_word).
  assert (Hnone : Date.checked_add_days (nd_date l) n = Val None -> dz_checked_add_days a n = Val None).
  { intros E. unfold dz_checked_add_days. replace (n =? 0) with false by lia. rewrite Hl. cbv [bind].
    unfold ndt_checked_add_days, ndt_map_date, obind. rewrite E. reflexivity. }
  destruct (n <=? i32_max) eqn:E1.
  - assert (Hk : in_i32 n = true) by (unfold i32_max in E1; CD.solve_in).
    assert (Hcad : Date.checked_add_days (nd_date l) n = Date.add_days (HW hb) n).
    { unfold Date.checked_add_days. rewrite E1, as_i32_id by exact Hk. rewrite Hd. reflexivity. }
    rewrite (HW_add_days hb n Hk), <- Hnn in Hcad. fold n' in Hcad.
    destruct hb; cbn [HO HY] in Hcad.
    + change (days_in_year (-262144)) with 366 in Hcad.
      replace ((0 <? 366 + n) && (366 + n <=? 366)) with false in Hcad by lia.
      destruct (dn_in_range n') eqn:E2; cbn [andb].
      * pose proof (PD.date_of_dn_repr n' E2) as Hr'. cbn [CD.date_if] in Hcad.
        pose proof (add_days_glue HD a n l (C08AddDays.date_of_dn n') Ha Hn0 Hl Hcad
                      (or_introl (nominal_of_repr _ _ _ Hr'))) as G.
        rewrite (dn_of_repr _ _ _ Hr'), (proj2 (C08Days.yo_of_dn_valid n')), Hdnl in G.
        exact (G ltac:(unfold n'; lia)).
      * apply Hnone. exact Hcad.
    + change (days_in_year 262143) with 365 in Hcad.
      replace (dn_in_range n') with false in * by (unfold dn_in_range, n'; rewrite Hnn; cbn [HN]; unfold DN_MIN, DN_MAX; lia).
      cbn [andb].
      destruct ((0 <? 1 + n) && (1 + n <=? 365)) eqn:Ef.
      * apply (add_days_out a n l _ Ha Hn0 Hl Ht Hcad).
        apply (fast_facts false (1 + n)); [unfold valid_yo; cbn [HY]; change (days_in_year 262143) with 365; lia|cbn [HO]; lia].
      * apply Hnone. exact Hcad.
  - replace (dn_in_range n') with false
      by (unfold dn_in_range, n', i32_max in *; rewrite Hnn; destruct hb; cbn [HN]; unfold DN_MIN, DN_MAX; lia).
    apply Hnone. unfold Date.checked_add_days. rewrite E1. reflexivity.
Qed.

(** adding [n <> 0] days to ANY well-formed date-time *)
Theorem add_days_all a n : dtz_ok a -> in_u64 n = true -> n <> 0 ->
  let n' := wall a / 86400 + n in
  let w' := n' * 86400 + wall a mod 86400 in
  if dn_in_range n' && keep (w' - dz_off a) (frac (dz_utc a))
  then exists z, dz_checked_add_days a n = Val (Some z) /\ dtz_ok z /\ dz_off z = dz_off a /\
                 wall z = w' /\ frac (dz_utc z) = frac (dz_utc a)
  else dz_checked_add_days a n = Val None.
Proof.
  intros Ha Hn Hn0. destruct (in_rng (wall a)) eqn:Hin;
    [apply add_days_spec|apply add_days_headroom]; assumption.
Qed.

Lemma HW_sub0 hb : Date.checked_sub_days (HW hb) 0 = Val (Some (HW hb)).
Proof. destruct hb; vm_compute; reflexivity. Qed.

Theorem sub_days_headroom a n : dtz_ok a -> in_rng (wall a) = false -> in_u64 n = true ->
  let n' := wall a / 86400 - n in
  let w' := n' * 86400 + wall a mod 86400 in
  if ((n =? 0) || dn_in_range n') && in_rng (w' - dz_off a)
  then exists z, dz_checked_sub_days a n = Val (Some z) /\ dtz_ok z /\ dz_off z = dz_off a /\
                 wall z = w' /\ frac (dz_utc z) = frac (dz_utc a)
  else dz_checked_sub_days a n = Val None.
Proof.
  intros Ha Hin Hn n' w'. destruct (overflowing_naive_local_spec HD a Ha) as [l [Hl _]].
  destruct (headroom_source a l Ha Hl Hin) as (hb & Hd & Hnn & Ht & Hsod & Hfr & Hw & Hu).
  unfold in_u64, in_range, u64_max in Hn.
  assert (Hdnl : dn (nd_date l) = wall a / 86400) by (rewrite Hd, Hnn; apply HW_word).
  destruct (n =? 0) eqn:E0.
  - (* zero days: the value itself *)
    assert (n = 0) by lia. subst n. cbn [orb andb].
    assert (Hw' : w' = wall a) by (unfold w', n'; lia).
    assert (Hir : in_rng (w' - dz_off a) = true).
    { rewrite Hw'. unfold wall. replace (usecs (dz_utc a) + dz_off a - dz_off a) with (usecs (dz_utc a)) by lia.
      apply (ndt_ok_range HD). apply Ha. }
    rewrite Hir. exists a. split.
    + unfold dz_checked_sub_days. rewrite Hl. cbv [bind]. unfold ndt_checked_sub_days, ndt_map_date, obind.
      rewrite Hd, HW_sub0. cbv [bind]. rewrite <- Hd, ndt_eta, (utc_local_utc HD a l Ha Hl). cbv [bind mlt_single].
      rewrite (ndt_le_MIN HD _ (proj1 Ha)). reflexivity.
    + repeat split; try apply Ha. symmetry. exact Hw'.
  - cbn [orb].
    assert (Hnone : Date.checked_sub_days (nd_date l) n = Val None -> dz_checked_sub_days a n = Val None).
    { intros E. unfold dz_checked_sub_days. rewrite Hl. cbv [bind].
      unfold ndt_checked_sub_days, ndt_map_date, obind. rewrite E. reflexivity. }
    destruct (n <=? i32_max) eqn:E1.
    + assert (Hk : in_i32 (- n) = true) by (unfold i32_max in E1; CD.solve_in).
      assert (Hcsd : Date.checked_sub_days (nd_date l) n = Date.add_days (HW hb) (- n)).
      { unfold Date.checked_sub_days. rewrite E1, as_i32_id by (unfold i32_max in E1; CD.solve_in).
        unfold neg_i32, chk. rewrite Hk. cbv [bind]. rewrite Hd. reflexivity. }
      rewrite (HW_add_days hb (- n) Hk), <- Hnn in Hcsd.
      replace (wall a / 86400 + - n) with n' in Hcsd by (unfold n'; lia).
      destruct hb; cbn [HO HY] in Hcsd.
      * change (days_in_year (-262144)) with 366 in Hcsd.
        replace (dn_in_range n') with false in * by (unfold dn_in_range, n'; rewrite Hnn; cbn [HN]; unfold DN_MIN, DN_MAX; lia).
        cbn [andb].
        destruct ((0 <? 366 + - n) && (366 + - n <=? 366)) eqn:Ef.
        -- apply (sub_days_out a n l _ Ha Hl Ht Hcsd).
           apply (fast_facts true (366 + - n)); [unfold valid_yo; cbn [HY]; change (days_in_year (-262144)) with 366; lia|cbn [HO]; lia].
        -- apply Hnone. exact Hcsd.
      * change (days_in_year 262143) with 365 in Hcsd.
        replace ((0 <? 1 + - n) && (1 + - n <=? 365)) with false in Hcsd by lia.
        destruct (dn_in_range n') eqn:E2; cbn [andb].
        -- pose proof (PD.date_of_dn_repr n' E2) as Hr'. cbn [CD.date_if] in Hcsd.
           pose proof (sub_days_glue HD a n l (C08AddDays.date_of_dn n') Ha Hl Hcsd
                         (or_introl (nominal_of_repr _ _ _ Hr'))) as G.
           rewrite (dn_of_repr _ _ _ Hr'), (proj2 (C08Days.yo_of_dn_valid n')), Hdnl in G.
           exact (G ltac:(unfold n'; lia)).
        -- apply Hnone. exact Hcsd.
    + replace (dn_in_range n') with false
        by (unfold dn_in_range, n', i32_max in *; rewrite Hnn; destruct hb; cbn [HN]; unfold DN_MIN, DN_MAX; lia).
      apply Hnone. unfold Date.checked_sub_days. rewrite E1. reflexivity.
Qed.

(** subtracting [n] days from ANY well-formed date-time ([n = 0]: the value itself, also when its
    wall clock is a headroom reading) *)
Theorem sub_days_all a n : dtz_ok a -> in_u64 n = true ->
  let n' := wall a / 86400 - n in
  let w' := n' * 86400 + wall a mod 86400 in
  if ((n =? 0) || dn_in_range n') && in_rng (w' - dz_off a)
  then exists z, dz_checked_sub_days a n = Val (Some z) /\ dtz_ok z /\ dz_off z = dz_off a /\
                 wall z = w' /\ frac (dz_utc z) = frac (dz_utc a)
  else dz_checked_sub_days a n = Val None.
Proof.
  intros Ha Hn n' w'. destruct (in_rng (wall a)) eqn:Hin; [|apply sub_days_headroom; assumption].
  replace ((n =? 0) || dn_in_range n') with (dn_in_range n'); [apply sub_days_spec; assumption|].
  destruct (n =? 0) eqn:E0; [|reflexivity]. cbn [orb].
  assert (n = 0) by lia. subst n. unfold n'. rewrite Z.sub_0_r.
  unfold in_rng, TMIN, TMAX in Hin. unfold dn_in_range, DN_MIN, DN_MAX. lia.
Qed.

(** ** month stepping *)
Lemma shift_ymd_target y m0 d0 k : 1 <= m0 <= 12 -> 1 <= d0 <= 31 ->
  let t := 12 * y + (m0 - 1) + k in
  let y' := t / 12 in let m' := t mod 12 + 1 in
  let d' := Z.min d0 (days_in_month (is_leap y') m') in
  if year_in_range y'
  then exists dd, DateWide.shift_ymd y m0 d0 k = Some dd /\ nominal dd /\ dn dd = dn_of_ymd y' m' d'
  else DateWide.shift_ymd y m0 d0 k = None.
Proof.
  intros Hm Hd t y' m' d'. unfold DateWide.shift_ymd. cbv zeta. fold t. fold y'. fold m'. fold d'.
  destruct (year_in_range y') eqn:E; [|reflexivity].
  assert (Hv : valid_ymd y' m' d' = true).
  { unfold valid_ymd. pose proof (CD.days_in_month_bounds (is_leap y') m') as B. unfold d', m' in *. lia. }
  pose proof (Proofs.C08.mk_ymd_repr y' m' d' E Hv) as R.
  exists (CD.mk_ymd y' m' d'). split; [reflexivity|]. split; [exact (nominal_of_repr _ _ _ R)|].
  exact (dn_of_repr _ _ _ R).
Qed.

(** month stepping by [m] months: [m = 0] is the identity (the value itself, whatever its wall
    clock); otherwise calendar month arithmetic on the wall-clock date *)
Definition month_target_id (n m k : Z) : option Z := if m =? 0 then Some n else month_target n k.

Theorem months_headroom (add : bool) a m : dtz_ok a -> in_rng (wall a) = false -> in_u32 m = true -> m <> 0 ->
  let step := if add then dz_checked_add_months a m else dz_checked_sub_months a m in
  match month_target (wall a / 86400) (if add then m else - m) with
  | None => step = Val None
  | Some n' =>
      let w' := n' * 86400 + wall a mod 86400 in
      if in_rng (w' - dz_off a)
      then exists z, step = Val (Some z) /\ dtz_ok z /\ dz_off z = dz_off a /\
                     wall z = w' /\ frac (dz_utc z) = frac (dz_utc a)
      else step = Val None
  end.
Proof.
  intros Ha Hin Hm Hm0 step. destruct (overflowing_naive_local_spec HD a Ha) as [l [Hl _]].
  destruct (headroom_source a l Ha Hl Hin) as (hb & Hd & Hnn & Ht & Hsod & Hfr & Hw & Hu).
  destruct (HW_month_day hb) as (Hy & Hmo & Hdd & Hymd).
  set (k := if add then m else - m).
  set (m0 := if hb then 12 else 1) in *. set (d0 := if hb then 31 else 1) in *.
  assert (Hb : 1 <= m0 <= 12 /\ 1 <= d0 <= 31) by (unfold m0, d0; destruct hb; lia).
  unfold in_u32, in_range, u32_max in Hm.
  assert (Hstep : (if add then Date.checked_add_months (nd_date l) m else Date.checked_sub_months (nd_date l) m)
                  = Val (if m <=? i32_max then DateWide.shift_ymd (HY hb) m0 d0 k else None)).
  { rewrite Hd. unfold k. destruct add.
    - unfold Date.checked_add_months. replace (m =? 0) with false by lia.
      destruct (m <=? i32_max) eqn:E1; [|reflexivity].
      rewrite as_i32_id by (unfold i32_max in E1; CD.solve_in).
      apply HW_diff_months. unfold i32_max in E1. CD.solve_in.
    - unfold Date.checked_sub_months. replace (m =? 0) with false by lia.
      destruct (m <=? i32_max) eqn:E1; [|reflexivity].
      rewrite as_i32_id by (unfold i32_max in E1; CD.solve_in).
      unfold neg_i32, chk. replace (in_i32 (- m)) with true by (unfold i32_max in E1; CD.solve_in). cbv [bind].
      apply HW_diff_months. unfold i32_max in E1. CD.solve_in. }
  pose proof (shift_ymd_target (HY hb) m0 d0 k (proj1 Hb) (proj2 Hb)) as T. cbv zeta in T.
  unfold month_target. rewrite Hnn, Hymd. fold m0 d0 k.
  set (y' := (12 * HY hb + (m0 - 1) + k) / 12) in *.
  assert (Hbig : (m <=? i32_max) = false -> year_in_range y' = false).
  { intros E. unfold year_in_range, MIN_YEAR, MAX_YEAR, y', k, i32_max in *.
    destruct hb; destruct add; cbn [HY]; unfold m0; lia. }
  assert (Hnone : (if m <=? i32_max then DateWide.shift_ymd (HY hb) m0 d0 k else None) = None -> step = Val None).
  { intros E. rewrite E in Hstep. unfold step, dz_checked_add_months, dz_checked_sub_months.
    rewrite Hl. cbv [bind]. unfold ndt_checked_add_months, ndt_checked_sub_months, ndt_map_date, obind.
    destruct add; rewrite Hstep; reflexivity. }
  destruct (year_in_range y') eqn:Ey.
  - destruct T as (dd & S1 & Hnom & Hdn). cbv zeta.
    destruct (m <=? i32_max) eqn:E1; [|specialize (Hbig eq_refl); discriminate].
    rewrite S1 in Hstep. rewrite <- Hdn. unfold step. destruct add.
    + exact (add_months_glue HD a m l dd Ha Hl Hstep (or_introl Hnom)).
    + exact (sub_months_glue HD a m l dd Ha Hl Hstep (or_introl Hnom)).
  - apply Hnone. destruct (m <=? i32_max); [exact T|reflexivity].
Qed.

Theorem months_all (add : bool) a m : dtz_ok a -> in_u32 m = true ->
  let step := if add then dz_checked_add_months a m else dz_checked_sub_months a m in
  match month_target_id (wall a / 86400) m (if add then m else - m) with
  | None => step = Val None
  | Some n' =>
      let w' := n' * 86400 + wall a mod 86400 in
      if in_rng (w' - dz_off a)
      then exists z, step = Val (Some z) /\ dtz_ok z /\ dz_off z = dz_off a /\
                     wall z = w' /\ frac (dz_utc z) = frac (dz_utc a)
      else step = Val None
  end.
Proof.
  intros Ha Hm step. unfold month_target_id. destruct (m =? 0) eqn:E0.
  - assert (m = 0) by lia. subst m. cbv zeta.
    assert (Hw' : wall a / 86400 * 86400 + wall a mod 86400 = wall a) by lia.
    rewrite Hw'. unfold wall at 1. replace (usecs (dz_utc a) + dz_off a - dz_off a) with (usecs (dz_utc a)) by lia.
    rewrite (ndt_ok_range HD _ (proj1 Ha)). destruct (months_zero HD a Ha) as [Z1 Z2].
    exists a. split; [unfold step; destruct add; assumption|]. repeat split; apply Ha.
  - destruct (in_rng (wall a)) eqn:Hin.
    + apply months_spec; assumption.
    + apply months_headroom; try assumption. lia.
Qed.

(** * Examples on a headroom wall clock (MAX_UTC seen from +02:00 is 1 January of year MAX_YEAR+1;
      MIN_UTC seen from -02:00 is 31 December of year MIN_YEAR-1) *)
Lemma headroom_examples :
  in_rng (wall z_max_p2h) = false /\ in_rng (wall z_min_m2h) = false /\
  dz_with 1 z_max_p2h 1 = Val (Some z_max_p2h) /\ dz_with 1 z_max_p2h 2 = Val None /\
  dz_with 0 z_max_p2h 262143 = Val (Some z_max_p2h) /\
  dz_with 3 z_min_m2h 31 = Val (Some z_min_m2h) /\ dz_with 3 z_min_m2h 30 = Val None /\
  dz_checked_sub_days z_max_p2h 0 = Val (Some z_max_p2h) /\ dz_checked_add_days z_max_p2h 1 = Val None /\
  (exists z, dz_checked_sub_days z_max_p2h 1 = Val (Some z) /\ wall z = wall z_max_p2h - 86400) /\
  (exists z, dz_checked_add_days z_min_m2h 1 = Val (Some z) /\ wall z = wall z_min_m2h + 86400) /\
  (exists z, dz_checked_sub_months z_max_p2h 1 = Val (Some z) /\ wall z = wall z_max_p2h - 31 * 86400) /\
  dz_checked_add_months z_max_p2h 1 = Val None.
Proof.
  do 9 (split; [vm_compute; reflexivity|]).
  do 3 (split; [eexists; split; [vm_compute; reflexivity|vm_compute; reflexivity]|]).
  vm_compute. reflexivity.
Qed.
