(** C03 — the remaining operator surface of the dispatcher [Model.C03.run2]: compound assignment
    ([+=] / [-=] of a TimeDelta or a core::time::Duration), subtraction of a reference, and
    FixedOffset operands ([checked_add_offset] / [checked_sub_offset], [Add<FixedOffset>] /
    [Sub<FixedOffset>] on NaiveDateTime and DateTime<Tz>).
    Each op is reduced to the checked form it is built from ([agrees]: the value where the checked form
    succeeds, [Panic] exactly where it refuses) and given its value-level statement on instants. *)
From Coq Require Import ZArith List Bool Lia ZifyBool.
From V Require Import Base.Int Base.IO Base.IntLemmas Spec.Gregorian Model.TimeDelta Model.DateTime Model.C03 Proofs.C06 Proofs.C03.
From V Require Model.Date Model.Time.
Import ListNotations.
Open Scope Z_scope.
Ltac Zify.zify_post_hook ::= Z.to_euclidean_division_equations.

(** * compound assignment: [*self = self.add(rhs)] *)
Lemma ops_assign_date_agree d x :
  op_dadd_assign d x = op_dadd_td d x /\ op_dsub_assign d x = op_dsub_td d x /\
  agrees (op_dadd_assign d x) (Date.checked_add_signed d x) /\
  agrees (op_dsub_assign d x) (Date.checked_sub_signed d x).
Proof. repeat split; apply unwrap_r_agrees. Qed.

Lemma ops_assign_ndt_agree a d :
  op_nadd_assign a d = op_nadd_td a d /\ op_nsub_assign a d = op_nsub_td a d /\
  agrees (op_nadd_assign a d) (ndt_checked_add_signed a d) /\
  agrees (op_nsub_assign a d) (ndt_checked_sub_signed a d).
Proof. repeat split; apply unwrap_r_agrees. Qed.

(** value level: a date moves by the whole days of the duration (truncated toward zero) *)
Lemma ops_assign_date_exact d x : vdate d -> valid x ->
  (if dn_in_range (dn d + Z.quot (ns x) 86400000000000)
   then exists d', op_dadd_assign d x = Val d' /\ vdate d' /\ dn d' = dn d + Z.quot (ns x) 86400000000000
   else op_dadd_assign d x = Panic) /\
  (if dn_in_range (dn d - Z.quot (ns x) 86400000000000)
   then exists d', op_dsub_assign d x = Val d' /\ vdate d' /\ dn d' = dn d - Z.quot (ns x) 86400000000000
   else op_dsub_assign d x = Panic).
Proof.
  intros Hd Hx. split.
  - destruct (date_add_signed_trunc_u d x Hd Hx) as [r [E R]].
    unfold op_dadd_assign, op_dadd_td, unwrap_r. rewrite E. cbn [bind]. change DAYNS with 86400000000000 in R.
    destruct r as [d'|]; cbn [date_res] in R; cbn [unwrap].
    + destruct R as [V D]. pose proof (vdate_range d' V) as Rg. rewrite D in Rg.
      replace (dn_in_range (dn d + Z.quot (ns x) 86400000000000)) with true by (unfold dn_in_range; lia).
      exists d'. split; [reflexivity|]. split; assumption.
    + rewrite R. reflexivity.
  - destruct (date_sub_signed_trunc_u d x Hd Hx) as [r [E R]].
    unfold op_dsub_assign, op_dsub_td, unwrap_r. rewrite E. cbn [bind]. change DAYNS with 86400000000000 in R.
    destruct r as [d'|]; cbn [date_res] in R; cbn [unwrap].
    + destruct R as [V D]. pose proof (vdate_range d' V) as Rg. rewrite D in Rg.
      replace (dn_in_range (dn d - Z.quot (ns x) 86400000000000)) with true by (unfold dn_in_range; lia).
      exists d'. split; [reflexivity|]. split; assumption.
    + rewrite R. reflexivity.
Qed.

Lemma ops_assign_ndt_exact a d : nvalid a -> valid d ->
  (if in_ns_range (inst a + ns d)
   then exists b, op_nadd_assign a d = Val b /\ nvalid b /\ inst b = inst a + ns d
   else op_nadd_assign a d = Panic) /\
  (if in_ns_range (inst a - ns d)
   then exists b, op_nsub_assign a d = Val b /\ nvalid b /\ inst b = inst a - ns d
   else op_nsub_assign a d = Panic).
Proof. intros Ha Hd. split; [exact (op_nadd_exact a d Ha Hd)|exact (op_nsub_exact a d Ha Hd)]. Qed.

(** * [+= / -=] of a core::time::Duration: conversion failure panics, else the TimeDelta operator *)
Lemma ops_std_assign_agree a s n :
  match from_std s n with
  | Some d => op_nadd_std_assign a s n = op_nadd_td a d /\ op_nsub_std_assign a s n = op_nsub_td a d
  | None => op_nadd_std_assign a s n = Panic /\ op_nsub_std_assign a s n = Panic
  end.
Proof. exact (ops_std_agree a s n). Qed.

Lemma ops_zstd_assign_agree a s n :
  match from_std s n with
  | Some d => op_zadd_std_assign a s n = op_zadd_td a d /\ op_zsub_std_assign a s n = op_zsub_td a d
  | None => op_zadd_std_assign a s n = Panic /\ op_zsub_std_assign a s n = Panic
  end.
Proof.
  unfold op_zadd_std_assign, op_zsub_std_assign. destruct (from_std s n) as [d|]; cbn [unwrap bind].
  - exact (ops_assign_agree a d).
  - split; reflexivity.
Qed.

(* the binary operators with a Duration on a zone-aware value (ar.zaddstd) *)
Lemma ops_zstd_agree a s n :
  match from_std s n with
  | Some d => op_zadd_std a s n = op_zadd_td a d /\ op_zsub_std a s n = op_zsub_td a d
  | None => op_zadd_std a s n = Panic /\ op_zsub_std a s n = Panic
  end.
Proof. unfold op_zadd_std, op_zsub_std. destruct (from_std s n); split; reflexivity. Qed.

(** value level for a Duration of [s] seconds and [n] nanoseconds: the instant moves by exactly
    [s*10^9 + n] ns; panic exactly when the Duration does not fit a TimeDelta or the target instant
    is not representable *)
Lemma in_rng_dec x : {in_rng x} + {~ in_rng x}.
Proof.
  unfold in_rng. destruct (Z_le_dec RMIN x); destruct (Z_le_dec x RMAX); try (left; lia); right; lia.
Qed.
Definition in_td_range (x : Z) : bool := (RMIN <=? x) && (x <=? RMAX).
Lemma in_td_range_spec x : in_td_range x = true <-> in_rng x.
Proof. unfold in_td_range, in_rng. lia. Qed.

Lemma ops_std_assign_exact a s n : nvalid a -> in_u64 s = true -> 0 <= n < G ->
  (if in_td_range (s * G + n) && in_ns_range (inst a + (s * G + n))
   then exists b, op_nadd_std_assign a s n = Val b /\ nvalid b /\ inst b = inst a + (s * G + n)
   else op_nadd_std_assign a s n = Panic) /\
  (if in_td_range (s * G + n) && in_ns_range (inst a - (s * G + n))
   then exists b, op_nsub_std_assign a s n = Val b /\ nvalid b /\ inst b = inst a - (s * G + n)
   else op_nsub_std_assign a s n = Panic).
Proof.
  intros Ha Hs Hn. pose proof (ops_std_assign_agree a s n) as A. pose proof (from_std_spec s n Hs Hn) as F.
  destruct (from_std s n) as [d|].
  - destruct F as [Fn Fv]. destruct A as [A1 A2]. rewrite A1, A2.
    replace (in_td_range (s * G + n)) with true
      by (symmetry; apply in_td_range_spec; rewrite <- Fn; apply Fv).
    cbn [andb]. rewrite <- Fn. split; [exact (op_nadd_exact a d Ha Fv)|exact (op_nsub_exact a d Ha Fv)].
  - destruct A as [A1 A2]. rewrite A1, A2.
    replace (in_td_range (s * G + n)) with false.
    + cbn [andb]. split; reflexivity.
    + symmetry. destruct (in_td_range (s * G + n)) eqn:E; [|reflexivity]. apply in_td_range_spec in E. contradiction.
Qed.

(** zone-aware value: same instants, the offset kept *)
Lemma op_zadd_exact u off d : nvalid u -> valid d ->
  (if in_ns_range (inst u + ns d)
   then exists b, op_zadd_td (mk_dtz u off) d = Val (mk_dtz b off) /\ nvalid b /\ inst b = inst u + ns d
   else op_zadd_td (mk_dtz u off) d = Panic) /\
  (if in_ns_range (inst u - ns d)
   then exists b, op_zsub_td (mk_dtz u off) d = Val (mk_dtz b off) /\ nvalid b /\ inst b = inst u - ns d
   else op_zsub_td (mk_dtz u off) d = Panic).
Proof.
  intros Hu Hd. destruct (zone_add_sub u off d) as [Ea Es]. unfold op_zadd_td, op_zsub_td, unwrap_r. rewrite Ea, Es.
  split.
  - destruct (ndt_add_exact_u u d Hu Hd) as [r [E R]]. rewrite E. unfold in_ns_range.
    destruct r as [b|]; cbn [ndt_res] in R; cbn [zmap bind unwrap].
    + destruct R as [V I]. pose proof (nvalid_inst_range b V) as Rg. rewrite I in Rg.
      replace ((NS_MIN <=? inst u + ns d) && (inst u + ns d <=? NS_MAX)) with true by lia. eauto.
    + replace ((NS_MIN <=? inst u + ns d) && (inst u + ns d <=? NS_MAX)) with false by lia. reflexivity.
  - destruct (ndt_sub_exact_u u d Hu Hd) as [r [E R]]. rewrite E. unfold in_ns_range.
    destruct r as [b|]; cbn [ndt_res] in R; cbn [zmap bind unwrap].
    + destruct R as [V I]. pose proof (nvalid_inst_range b V) as Rg. rewrite I in Rg.
      replace ((NS_MIN <=? inst u - ns d) && (inst u - ns d <=? NS_MAX)) with true by lia. eauto.
    + replace ((NS_MIN <=? inst u - ns d) && (inst u - ns d <=? NS_MAX)) with false by lia. reflexivity.
Qed.

Lemma ops_zstd_assign_exact u off s n : nvalid u -> in_u64 s = true -> 0 <= n < G ->
  (if in_td_range (s * G + n) && in_ns_range (inst u + (s * G + n))
   then exists b, op_zadd_std_assign (mk_dtz u off) s n = Val (mk_dtz b off) /\ nvalid b /\ inst b = inst u + (s * G + n)
   else op_zadd_std_assign (mk_dtz u off) s n = Panic) /\
  (if in_td_range (s * G + n) && in_ns_range (inst u - (s * G + n))
   then exists b, op_zsub_std_assign (mk_dtz u off) s n = Val (mk_dtz b off) /\ nvalid b /\ inst b = inst u - (s * G + n)
   else op_zsub_std_assign (mk_dtz u off) s n = Panic).
Proof.
  intros Ha Hs Hn. pose proof (ops_zstd_assign_agree (mk_dtz u off) s n) as A. pose proof (from_std_spec s n Hs Hn) as F.
  destruct (from_std s n) as [d|].
  - destruct F as [Fn Fv]. destruct A as [A1 A2]. rewrite A1, A2.
    replace (in_td_range (s * G + n)) with true
      by (symmetry; apply in_td_range_spec; rewrite <- Fn; apply Fv).
    cbn [andb]. rewrite <- Fn. exact (op_zadd_exact u off d Ha Fv).
  - destruct A as [A1 A2]. rewrite A1, A2.
    replace (in_td_range (s * G + n)) with false.
    + cbn [andb]. split; reflexivity.
    + symmetry. destruct (in_td_range (s * G + n)) eqn:E; [|reflexivity]. apply in_td_range_spec in E. contradiction.
Qed.

(** * [DateTime - &DateTime] is [signed_duration_since] *)
Lemma op_zsub_zref_agree a b : op_zsub_zref a b = dz_signed_duration_since a b /\ op_zsub_zref a b = op_zsub_z a b.
Proof. split; reflexivity. Qed.
Lemma op_zsub_zref_exact u1 o1 u2 o2 : nvalid u1 -> nvalid u2 ->
  exists d, op_zsub_zref (mk_dtz u1 o1) (mk_dtz u2 o2) = Val d /\ valid d /\ ns d = inst u1 - inst u2.
Proof. exact (zone_diff_exact u1 o1 u2 o2). Qed.

(** * FixedOffset operands: the value [off] seconds later / earlier *)
Lemma ndt_add_offset_spec a off : nvalid a -> -86400 < off < 86400 ->
  exists r, ndt_checked_add_offset a off = Val r /\ ndt_res (inst a + off * G) r.
Proof.
  intros [Hd Ht] Ho. unfold ndt_checked_add_offset.
  destruct (oao_spec _ off Ht Ho) as [t' [k [E [Vt [Ef [Es Hk]]]]]]. rewrite E. cbn [bind].
  destruct (shift_checked_spec _ k Hd Hk) as [r [E2 R]]. unfold obind. rewrite E2. cbn [bind].
  pose proof (vdate_range _ Hd) as Rg. destruct Ht as [Hs Hf]. pose proof Vt as [Vs Vf].
  rewrite inst_split. unfold tns.
  destruct r as [d'|]; cbn in R |- *; eexists; (split; [reflexivity|]); cbn.
  - destruct R as [R1 R2]. split; [split; assumption|]. rewrite inst_split. unfold tns. cbn [nd_date nd_time].
    rewrite R2, Ef. unfold DAYNS, G in *. lia.
  - unfold dn_in_range, NS_MIN, NS_MAX, DN_MIN, DN_MAX, EPOCH_DN, DAYNS, G in *. lia.
Qed.

Lemma ndt_offset_exact a off : nvalid a -> -86400 < off < 86400 ->
  (exists r, ndt_checked_add_offset a off = Val r /\
     match r with Some b => nvalid b /\ inst b = inst a + off * G
                | None => ~ (NS_MIN <= inst a + off * G <= NS_MAX) end) /\
  (exists r, ndt_checked_sub_offset a off = Val r /\
     match r with Some b => nvalid b /\ inst b = inst a - off * G
                | None => ~ (NS_MIN <= inst a - off * G <= NS_MAX) end).
Proof.
  intros Ha Ho. split; [exact (ndt_add_offset_spec a off Ha Ho)|exact (ndt_sub_offset_spec a off Ha Ho)].
Qed.

Lemma ops_off_agree a off :
  agrees (op_nadd_off a off) (ndt_checked_add_offset a off) /\
  agrees (op_nsub_off a off) (ndt_checked_sub_offset a off).
Proof. split; apply unwrap_r_agrees. Qed.

Lemma unwrap_ndt_res target c r : c = Val r -> ndt_res target r ->
  if in_ns_range target
  then exists b, unwrap_r c = Val b /\ nvalid b /\ inst b = target
  else unwrap_r c = Panic.
Proof.
  intros E R. subst c. unfold unwrap_r, in_ns_range. cbn [bind].
  destruct r as [b|]; cbn [ndt_res] in R; cbn [unwrap].
  - destruct R as [V I]. pose proof (nvalid_inst_range b V) as Rg. rewrite I in Rg.
    replace ((NS_MIN <=? target) && (target <=? NS_MAX)) with true by lia. eauto.
  - replace ((NS_MIN <=? target) && (target <=? NS_MAX)) with false by lia. reflexivity.
Qed.

Lemma ops_off_exact a off : nvalid a -> -86400 < off < 86400 ->
  (if in_ns_range (inst a + off * G)
   then exists b, op_nadd_off a off = Val b /\ nvalid b /\ inst b = inst a + off * G
   else op_nadd_off a off = Panic) /\
  (if in_ns_range (inst a - off * G)
   then exists b, op_nsub_off a off = Val b /\ nvalid b /\ inst b = inst a - off * G
   else op_nsub_off a off = Panic).
Proof.
  intros Ha Ho. split.
  - destruct (ndt_add_offset_spec a off Ha Ho) as [r [E R]]. exact (unwrap_ndt_res _ _ r E R).
  - destruct (ndt_sub_offset_spec a off Ha Ho) as [r [E R]]. exact (unwrap_ndt_res _ _ r E R).
Qed.

(** zone-aware value +- FixedOffset: the operator on the stored UTC value, the value's own offset kept *)
Lemma ops_zoff_agree a off :
  op_zadd_off a off = (let* u := op_nadd_off (dz_utc a) off in Val (mk_dtz u (dz_off a))) /\
  op_zsub_off a off = (let* u := op_nsub_off (dz_utc a) off in Val (mk_dtz u (dz_off a))).
Proof. split; reflexivity. Qed.

Lemma ops_zoff_exact u zoff off : nvalid u -> -86400 < off < 86400 ->
  (if in_ns_range (inst u + off * G)
   then exists b, op_zadd_off (mk_dtz u zoff) off = Val (mk_dtz b zoff) /\ nvalid b /\ inst b = inst u + off * G
   else op_zadd_off (mk_dtz u zoff) off = Panic) /\
  (if in_ns_range (inst u - off * G)
   then exists b, op_zsub_off (mk_dtz u zoff) off = Val (mk_dtz b zoff) /\ nvalid b /\ inst b = inst u - off * G
   else op_zsub_off (mk_dtz u zoff) off = Panic).
Proof.
  intros Hu Ho. destruct (ops_off_exact u off Hu Ho) as [A S].
  destruct (ops_zoff_agree (mk_dtz u zoff) off) as [Ea Es]. rewrite Ea, Es. cbn [dz_utc dz_off].
  split.
  - destruct (in_ns_range (inst u + off * G)).
    + destruct A as [b [E [V I]]]. rewrite E. cbn [bind]. exists b. split; [reflexivity|split; assumption].
    + rewrite A. reflexivity.
  - destruct (in_ns_range (inst u - off * G)).
    + destruct S as [b [E [V I]]]. rewrite E. cbn [bind]. exists b. split; [reflexivity|split; assumption].
    + rewrite S. reflexivity.
Qed.

(** the hypotheses are inhabited, both outcomes occur *)
Lemma ops_off_examples :
  nvalid NDT_MAX /\ nvalid NDT_MIN /\
  ndt_checked_add_offset NDT_MAX 1 = Val None /\ ndt_checked_sub_offset NDT_MAX 86399 <> Val None /\
  ndt_checked_sub_offset NDT_MIN 1 = Val None /\ ndt_checked_add_offset NDT_MIN 86399 <> Val None /\
  op_nadd_off NDT_MAX 1 = Panic /\ op_zsub_off (mk_dtz NDT_MIN 3600) 1 = Panic /\
  op_zadd_off (mk_dtz NDT_MIN 3600) 86399 = Val (mk_dtz (mk_ndt Date.D_MIN (Time.mk_time 86399 0)) 3600).
Proof. vm_compute. repeat split; congruence. Qed.
