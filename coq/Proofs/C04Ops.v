(** C04 — theorems for the ops of the [z.*] dispatcher added by the API-coverage sweep:
    z.uml, z.peast / z.pwest, z.mk, z.pfromlocal, z.pcmp, z.conv, z.opmonths, z.prov, z.show.
    Built on Proofs/C04.v (semantics [usecs] / [frac] / [wall] / [in_rng]), Proofs/C04Date.v (the
    unconditional forms) and Proofs/C04Wide.v (headroom), the calendar library of C08 / C01 / C07 for
    the provided accessors, and C09's writer theorems for the Display / Debug text. *)
From Coq Require Import ZArith List Bool Lia ZifyBool.
From V Require Import Base.Int Base.IntLemmas Base.IO Gen.DateTimeConsts Spec.Gregorian.
From V Require Model.Date Model.Time Model.DateExtra Model.C01 Model.Show.
From V Require Import Model.DateTime Model.C04.
From V Require Proofs.Date Proofs.C08 Proofs.DateIso Proofs.C01 Proofs.Time.
From V Require Import Proofs.C04 Proofs.C04Date Proofs.C04Wide.
Import ListNotations.
Open Scope Z_scope.
Ltac Zify.zify_post_hook ::= Z.to_euclidean_division_equations.

(** * z.uml — FixedOffset::utc_minus_local *)
Theorem uml_spec off : off_ok off -> fo_utc_minus_local off = Val (- off).
Proof.
  intros H. unfold off_ok in H. unfold fo_utc_minus_local, neg_i32, chk.
  replace (in_i32 (- off)) with true by (symmetry; solve_in). reflexivity.
Qed.
(** every stored offset comes from [east_opt] / [west_opt]: negation of such a value never traps *)
Theorem uml_of_east s off : east_opt s = Some off -> fo_utc_minus_local off = Val (- s).
Proof. intros H. apply east_opt_some_iff in H. destruct H as [-> H]. apply uml_spec. exact H. Qed.

(** * z.peast / z.pwest — the deprecated panicking constructors FixedOffset::east / west *)
Theorem peast_spec s :
  unwrap (east_opt s) = if (-86400 <? s) && (s <? 86400) then Val s else Panic.
Proof. unfold east_opt, FO_EAST_LO, FO_EAST_HI. destruct ((-86400 <? s) && (s <? 86400)); reflexivity. Qed.
Theorem peast_checked s :
  match east_opt s with
  | Some off => unwrap (east_opt s) = Val off /\ off = s /\ off_ok s
  | None => unwrap (east_opt s) = Panic /\ ~ off_ok s
  end.
Proof.
  destruct (east_opt s) as [off|] eqn:E.
  - apply east_opt_some_iff in E. destruct E as [-> H]. split; [reflexivity|split; [reflexivity|exact H]].
  - split; [reflexivity|]. intros H.
    assert (E2 : east_opt s = Some s) by (apply east_opt_some_iff; split; [reflexivity|exact H]).
    rewrite E in E2. discriminate.
Qed.
Theorem pwest_spec s : in_i32 s = true ->
  unwrap_r (west_opt s) = if (-86400 <? s) && (s <? 86400) then Val (- s) else Panic.
Proof.
  intros Hs. rewrite (west_opt_spec s Hs). unfold unwrap_r, bind.
  destruct ((-86400 <? s) && (s <? 86400)); reflexivity.
Qed.
Theorem pwest_checked s : in_i32 s = true ->
  exists o, west_opt s = Val o /\
  match o with
  | Some off => unwrap_r (west_opt s) = Val off /\ off = - s /\ off_ok s /\ east_opt (- s) = Some off
  | None => unwrap_r (west_opt s) = Panic /\ ~ off_ok s
  end.
Proof.
  intros Hs. rewrite (west_opt_spec s Hs). eexists. split; [reflexivity|].
  unfold unwrap_r, bind, off_ok.
  destruct ((-86400 <? s) && (s <? 86400)) eqn:E.
  - cbn [unwrap]. repeat split; try lia. apply east_opt_some_iff. unfold off_ok. lia.
  - cbn [unwrap]. split; [reflexivity|lia].
Qed.

(** * z.mk — DateTime::from_naive_utc_and_offset / deprecated from_utc / timezone() *)
Theorem mk_spec u off :
  dz_utc (mk_dtz u off) = u /\ dz_off (mk_dtz u off) = off /\ naive_utc (mk_dtz u off) = u /\
  mk_dtz u off = from_utc_datetime off u /\
  (ndt_ok u -> off_ok off -> dtz_ok (mk_dtz u off) /\ wall (mk_dtz u off) = usecs u + off).
Proof.
  split; [reflexivity|]. split; [reflexivity|]. split; [reflexivity|]. split; [reflexivity|].
  intros Hu Ho. split; [split; [exact Hu|exact Ho]|reflexivity].
Qed.

(** * z.pfromlocal — deprecated DateTime::from_local: [datetime - offset.fix()] with the panicking
      operator.  The expression of the dispatcher, under a name. *)
Definition dz_from_local (l : ndt) (off : Z) : R dtz :=
  let* u := unwrap_r (ndt_checked_sub_offset l off) in Val (mk_dtz u off).
Theorem pfromlocal_checked off l :
  match from_local_datetime off l with
  | Val (MSingle z) => dz_from_local l off = Val z
  | Val MNone => dz_from_local l off = Panic
  | Val (MAmbiguous _ _) => False
  | Panic => dz_from_local l off = Panic
  | OutOfFuel => dz_from_local l off = OutOfFuel
  end.
Proof.
  unfold from_local_datetime, dz_from_local, unwrap_r, bind.
  destruct (ndt_checked_sub_offset l off) as [[u|]| |]; reflexivity.
Qed.
(** value level: the instant is the reading minus the offset; Panic exactly when that instant is
    outside the supported range ([in_rng], NOT [keep]: a leap fraction in the last second of the
    range is built, exactly as [from_local_datetime] does) *)
Theorem pfromlocal_spec off l : ndt_ok l -> off_ok off ->
  if in_rng (usecs l - off)
  then exists z, dz_from_local l off = Val z /\ from_local_datetime off l = Val (MSingle z) /\
                 dtz_ok z /\ dz_off z = off /\ usecs (dz_utc z) = usecs l - off /\ frac (dz_utc z) = frac l /\
                 wall z = usecs l /\ naive_local z = Val l
  else dz_from_local l off = Panic /\ from_local_datetime off l = Val MNone.
Proof.
  intros Hl Ho. pose proof (from_local_fails_iff off l Hl Ho) as H.
  pose proof (pfromlocal_checked off l) as C.
  destruct (in_rng (usecs l - off)).
  - destruct H as [z [H1 [H2 [H3 [H4 H5]]]]]. rewrite H1 in C. exists z.
    split; [exact C|]. split; [exact H1|]. split; [exact H2|]. split; [exact H3|]. split; [exact H4|].
    split; [exact H5|]. split; [unfold wall; rewrite H3, H4; lia|].
    exact (proj1 (local_roundtrip_u off l z Hl Ho H1)).
  - rewrite H in C. split; [exact C|exact H].
Qed.

(** * z.pcmp — PartialOrd / PartialEq between date-times of different zone types *)
Lemma cmp_lex2_vals a1 a2 b1 b2 :
  cmp_lex [a1; a2] [b1; b2] = -1 \/ cmp_lex [a1; a2] [b1; b2] = 0 \/ cmp_lex [a1; a2] [b1; b2] = 1.
Proof.
  unfold cmp_lex. destruct (cmpZ_vals a1 b1) as [-> | [-> | ->]]; cbn [Z.eqb]; auto.
  destruct (cmpZ_vals a2 b2) as [-> | [-> | ->]]; cbn [Z.eqb]; auto.
Qed.
Theorem pcmp_spec a b : dtz_ok a -> dtz_ok b ->
  let c := cmp_lex [usecs (dz_utc a); frac (dz_utc a)] [usecs (dz_utc b); frac (dz_utc b)] in
  let p := dz_partial_cmp a b in
  p = Some c /\ dz_partial_cmp a (dz_to_utc b) = Some c /\ p = Some (dz_cmp a b) /\
  (c = -1 \/ c = 0 \/ c = 1) /\
  pc_lt p = (c =? -1) /\ pc_le p = (c <=? 0) /\ pc_gt p = (c =? 1) /\ pc_ge p = (0 <=? c) /\
  dz_eqb a b = (c =? 0) /\ dz_eqb a (dz_to_utc b) = (c =? 0) /\ negb (dz_eqb a b) = negb (c =? 0) /\
  (c = 0 <-> usecs (dz_utc a) = usecs (dz_utc b) /\ frac (dz_utc a) = frac (dz_utc b)).
Proof.
  intros Ha Hb c p. destruct (eq_ord_instant a b Ha Hb) as [Hc He]. fold c in Hc.
  assert (Hp : p = Some c) by (unfold p, dz_partial_cmp; fold (dz_cmp a b); rewrite Hc; reflexivity).
  pose proof (cmp_lex2_vals (usecs (dz_utc a)) (frac (dz_utc a)) (usecs (dz_utc b)) (frac (dz_utc b))) as Hv.
  fold c in Hv.
  assert (Heq : dz_eqb a b = (c =? 0)).
  { pose proof (proj1 (eq_ord_hash_agree a b)) as Hag. rewrite Hc in Hag.
    destruct (dz_eqb a b); destruct (c =? 0) eqn:E; try reflexivity.
    - assert (c = 0) by (apply Hag; reflexivity). lia.
    - assert (true = true -> False); [|tauto]. intros _.
      assert (false = true) by (apply Hag; lia). discriminate. }
  split; [exact Hp|]. split; [exact Hp|]. split; [unfold p, dz_partial_cmp; reflexivity|].
  split; [exact Hv|]. rewrite Hp. unfold pc_lt, pc_le, pc_gt, pc_ge.
  split; [reflexivity|]. split; [lia|]. split; [reflexivity|]. split; [lia|].
  split; [exact Heq|]. split; [exact Heq|]. split; [rewrite Heq; reflexivity|].
  split.
  - intros H0. apply He. apply (proj2 (proj1 (eq_ord_hash_agree a b))). rewrite Hc. exact H0.
  - intros H0. apply He in H0. rewrite <- Hc. apply (proj1 (eq_ord_hash_agree a b)). exact H0.
Qed.

(** * z.conv — From<DateTime<FixedOffset>> for DateTime<Utc> and back *)
Theorem conv_spec a :
  dz_into_utc a = mk_dtz (dz_utc a) 0 /\ dz_utc_into_fixed a = Val (mk_dtz (dz_utc a) 0) /\
  dz_utc_into_fixed (dz_into_utc a) = Val (mk_dtz (dz_utc a) 0) /\
  dz_eqb (dz_into_utc a) a = true /\ dz_cmp (dz_into_utc a) a = 0 /\
  dz_hash_key (dz_into_utc a) = dz_hash_key a /\
  (dtz_ok a -> dtz_ok (dz_into_utc a) /\ wall (dz_into_utc a) = usecs (dz_utc a)).
Proof.
  split; [reflexivity|]. split; [reflexivity|]. split; [reflexivity|].
  destruct (with_timezone_same_instant a 0) as [H1 [H2 H3]].
  split; [exact H1|]. split; [exact H2|]. split; [exact H3|].
  intros [Hu _]. split; [split; [exact Hu|unfold off_ok; cbn [dz_off dz_into_utc with_timezone from_utc_datetime]; lia]|].
  unfold wall. cbn [dz_utc dz_off dz_into_utc with_timezone from_utc_datetime]. lia.
Qed.

(** * z.opmonths — Add<Months> / Sub<Months>: the checked form, Panic where it reports nothing *)
Theorem opmonths_checked (add : bool) a m :
  let op := if add then dz_op_add_months a m else dz_op_sub_months a m in
  match (if add then dz_checked_add_months a m else dz_checked_sub_months a m) with
  | Val (Some z) => op = Val z
  | Val None => op = Panic
  | Panic => op = Panic
  | OutOfFuel => op = OutOfFuel
  end.
Proof.
  destruct add; cbv zeta; unfold dz_op_add_months, dz_op_sub_months, unwrap_r, bind;
  [destruct (dz_checked_add_months a m) as [[z|]| |]|destruct (dz_checked_sub_months a m) as [[z|]| |]];
  reflexivity.
Qed.
Theorem opmonths_spec (add : bool) a m : dtz_ok a -> in_u32 m = true ->
  let op := if add then dz_op_add_months a m else dz_op_sub_months a m in
  match month_target_id (wall a / 86400) m (if add then m else - m) with
  | None => op = Panic
  | Some n' =>
      let w' := n' * 86400 + wall a mod 86400 in
      if in_rng (w' - dz_off a)
      then exists z, op = Val z /\ dtz_ok z /\ dz_off z = dz_off a /\
                     wall z = w' /\ frac (dz_utc z) = frac (dz_utc a)
      else op = Panic
  end.
Proof.
  intros Ha Hm. pose proof (months_all add a m Ha Hm) as H. pose proof (opmonths_checked add a m) as C.
  cbv zeta in *.
  destruct (month_target_id (wall a / 86400) m (if add then m else - m)) as [n'|].
  - destruct (in_rng (n' * 86400 + wall a mod 86400 - dz_off a)).
    + destruct H as [z [H1 H2]]. rewrite H1 in C. exists z. split; [exact C|exact H2].
    + rewrite H in C. exact C.
  - rewrite H in C. exact C.
Qed.

(** * z.prov — the provided methods of Datelike / Timelike (year_ce, quarter, num_days_from_ce,
      num_days_in_month, hour12, num_seconds_from_midnight, IsoWeek::week0) read the wall clock,
      also in the one-day headroom *)
Module PT := V.Proofs.Time.

(** the provided date accessors of a date word agree with the calendar reading of its day number *)
Definition prov_ok (d : Z) : Prop :=
  let n := dn d in
  let '(y, m, dd) := ymd_of_dn n in
  DateExtra.d_year_ce d = Val (if 1 <=? y then (true, y) else (false, 1 - y)) /\
  DateExtra.d_quarter d = Val ((m - 1) / 3 + 1) /\
  C01.datelike_num_days_from_ce (Date.d_year d) (Date.d_ordinal d) = Val n /\
  DateExtra.d_num_days_in_month d = Val (days_in_month (is_leap y) m).
Definition rBZ_is (r : R (bool * Z)) (x : bool * Z) : bool :=
  match r with Val v => Bool.eqb (fst v) (fst x) && (snd v =? snd x) | _ => false end.
Definition prov_okb (d : Z) : bool :=
  let n := dn d in
  let '(y, m, dd) := ymd_of_dn n in
  rBZ_is (DateExtra.d_year_ce d) (if 1 <=? y then (true, y) else (false, 1 - y)) &&
  rZ_is (DateExtra.d_quarter d) ((m - 1) / 3 + 1) &&
  rZ_is (C01.datelike_num_days_from_ce (Date.d_year d) (Date.d_ordinal d)) n &&
  rZ_is (DateExtra.d_num_days_in_month d) (days_in_month (is_leap y) m).
Lemma rBZ_is_true r x : rBZ_is r x = true -> r = Val x.
Proof.
  destruct r as [[b z]| |]; cbn [rBZ_is]; try discriminate. destruct x as [b' z']. cbn [fst snd].
  intros H. apply andb_prop in H. destruct H as [H1 H2]. apply Bool.eqb_prop in H1. apply Z.eqb_eq in H2.
  subst. reflexivity.
Qed.
Lemma prov_okb_ok d : prov_okb d = true -> prov_ok d.
Proof.
  unfold prov_okb, prov_ok. destruct (ymd_of_dn (dn d)) as [[y m] dd].
  intros H. do 3 (apply andb_prop in H; destruct H as [H ?]).
  apply rBZ_is_true in H. apply rZ_is_true in H0, H1, H2. repeat split; assumption.
Qed.
Lemma prov_BEFORE_MIN : prov_ok Date.D_BEFORE_MIN.
Proof. apply prov_okb_ok. vm_compute. reflexivity. Qed.
Lemma prov_AFTER_MAX : prov_ok Date.D_AFTER_MAX.
Proof. apply prov_okb_ok. vm_compute. reflexivity. Qed.
(** nominal dates: C08's theorems on year_ce / quarter / num_days_in_month, C01's on num_days_from_ce *)
Lemma prov_ok_nominal d : nominal d -> prov_ok d.
Proof.
  intros H. destruct (repr_of_nominal d H) as [y [o Hr]]. unfold prov_ok.
  rewrite (dn_of_repr _ _ _ Hr). unfold ymd_of_dn.
  rewrite (C08Days.yo_of_dn_of_yo y o (proj1 (proj2 Hr))).
  pose proof (C08.year_ce_spec y o d Hr) as E1.
  pose proof (proj1 (C08.quarter_spec y o d Hr)) as E2.
  pose proof (C08.num_days_in_month_spec y o d Hr) as E4.
  pose proof (C08Date.repr_acc y o d Hr) as A.
  unfold C08.month_of in E2, E4.
  destruct (md_of_ordinal (is_leap y) o) as [m dd]. cbn [fst] in E2, E4.
  destruct A as (A1 & A2 & _).
  split; [exact E1|]. split; [exact E2|]. split; [|exact E4].
  rewrite A1, A2. apply Proofs.C01.datelike_num_days_from_ce_spec; [exact (proj1 Hr)|].
  destruct Hr as (_ & Ho & _). unfold valid_yo, days_in_year in Ho. destruct (is_leap y); lia.
Qed.
Lemma prov_ok_dateok d : dateok d -> prov_ok d.
Proof. intros [H|[->| ->]]; [apply prov_ok_nominal; exact H|apply prov_BEFORE_MIN|apply prov_AFTER_MAX]. Qed.
Lemma iso_ok_dateok d : dateok d -> iso_ok d.
Proof. intros [H|[->| ->]]; [apply iso_ok_nominal; exact H|apply iso_BEFORE_MIN|apply iso_AFTER_MAX]. Qed.

Theorem prov_wallclock a : dtz_ok a ->
  let w := wall a in let n := w / 86400 in let sod := w mod 86400 in
  let '(y, m, d) := ymd_of_dn n in let h := sod / 3600 in
  dz_prov a = Val (VTup [val_of_bool (1 <=? y); VInt (if 1 <=? y then y else 1 - y); VInt ((m - 1) / 3 + 1);
                         VInt n; VInt (days_in_month (is_leap y) m);
                         val_of_bool (12 <=? h); VInt (if h mod 12 =? 0 then 12 else h mod 12);
                         VInt sod; VInt (snd (iso_of_dn n) - 1)]).
Proof.
  intros Ha. destruct (overflowing_naive_local_u a Ha) as [l [Hl [[Hd Ht] [Hu Hf]]]].
  pose proof (prov_ok_dateok _ Hd) as Hp. unfold prov_ok in Hp.
  destruct (iso_ok_dateok _ Hd) as [iw [I1 I2]].
  assert (Hn : dn (nd_date l) = wall a / 86400 /\ Time.tsecs (nd_time l) = wall a mod 86400).
  { unfold usecs in Hu. destruct Ht as [Hs _]. lia. }
  destruct Hn as [Hn Hsod]. rewrite Hn in Hp, I2.
  pose proof (DateIso.iso_of_dn_bounds (wall a / 86400)) as Hwb.
  cbv zeta. destruct (ymd_of_dn (wall a / 86400)) as [[y m] d].
  destruct Hp as (P1 & P2 & P3 & P4).
  destruct (hms_spec _ Ht) as [T1 [T2 T3]].
  destruct (PT.hour12_spec (nd_time l) (proj1 Ht)) as [T4 _]. unfold Spec.TimeOfDay.hour_of in T4.
  unfold dz_prov. rewrite Hl. cbv [bind].
  unfold ndt_year, ndt_ordinal, ndt_iso_week, ndt_hour, ndt_minute, ndt_second.
  rewrite P1, P2, P3, P4, T4, T1, T2, T3, I1, Hsod.
  assert (Hw0 : Date.iw_week0 iw = Val (snd (iso_of_dn (wall a / 86400)) - 1)).
  { unfold Date.iw_week0, sub_u32, chk. rewrite <- I2. cbn [snd]. rewrite <- I2 in Hwb. cbn [snd] in Hwb.
    replace (in_u32 (Date.iw_week iw - 1)) with true by (symmetry; solve_in). reflexivity. }
  rewrite Hw0.
  set (sod := wall a mod 86400) in *.
  assert (Hs : 0 <= sod < 86400) by (unfold sod; lia).
  unfold add_u32, chk.
  replace (sod / 3600 * 3600 + sod / 60 mod 60 * 60 + sod mod 60) with sod by lia.
  replace (in_u32 sod) with true by (symmetry; solve_in).
  destruct (1 <=? y); reflexivity.
Qed.

(** * z.datenaive — DateTime::date_naive: the date of the panicking wall-clock reading *)
Theorem date_naive_spec a : dtz_ok a ->
  if in_rng (wall a)
  then exists d, dz_date_naive a = Val d /\ nominal d /\ dn d = wall a / 86400
  else dz_date_naive a = Panic.
Proof.
  intros Ha. pose proof (naive_local_panics_iff a Ha) as H. unfold dz_date_naive.
  destruct (in_rng (wall a)).
  - destruct H as [l [H1 [[Hd [Hs _]] [H3 _]]]]. rewrite H1. cbv [bind]. exists (nd_date l).
    split; [reflexivity|]. split; [exact Hd|]. unfold usecs in H3. lia.
  - rewrite H. reflexivity.
Qed.

(** * z.acc — the 14-field tuple of the dispatcher, from the per-accessor theorems *)
Theorem acc_tuple a : dtz_ok a ->
  let w := wall a in let n := w / 86400 in let sod := w mod 86400 in
  let '(y, m, d) := ymd_of_dn n in
  dz_acc a = Val (VTup [VInt y; VInt m; VInt (m - 1); VInt d; VInt (d - 1);
                        VInt (ordinal_of_dn n); VInt (ordinal_of_dn n - 1); VInt (weekday_of_dn n);
                        VInt (sod / 3600); VInt (sod / 60 mod 60); VInt (sod mod 60); VInt (frac (dz_utc a));
                        VInt (fst (iso_of_dn n)); VInt (snd (iso_of_dn n))]).
Proof.
  intros Ha. pose proof (accessors_wallclock_u a Ha) as A. destruct (iso_week_wallclock_full a Ha) as [w [W1 W2]].
  cbv zeta in *. destruct (ymd_of_dn (wall a / 86400)) as [[y m] d].
  destruct A as (A1 & A2 & A3 & A4 & A5 & A6 & A7 & A8 & A9 & A10 & A11 & A12).
  unfold dz_acc. rewrite A1, A2, A3, A4, A5, A6, A7, A8, A9, A10, A11, A12, W1. cbv [bind].
  rewrite <- W2. reflexivity.
Qed.
