(** Proofs for C12, part 7: the property at the level of cases for ALL three ops and EVERY format
    string.  `sf.fmt`: any value x any format string ([holds_fmt_any]); `sf.fmtl`
    (StrftimeItems::new_lenient): the same text as strict mode on every format string without an
    error by the table, no claim otherwise ([holds_fmtl_any]); `sf.items`: the canonical item list
    the model yields is accepted by the judge for every format string, strict and lenient
    ([holds_items_any]), which includes that draining the iterator never traps and ends within the
    bound of the op. *)
From Coq Require Import ZArith List Bool Lia ZifyBool String.
From V Require Import Base.Int Base.IO Base.IntLemmas Base.Lift Spec.Gregorian Spec.StrftimeDoc
  Model.Items Gen.Strftime Gen.Locales Model.Strftime Model.Format Model.C12 Judge.C12
  Proofs.C12 Proofs.C12Str Proofs.C12Tok Proofs.C12Fam Proofs.C12View Proofs.C12All.
From V Require Model.Date Model.Time Model.DateTime.
Import ListNotations.
Open Scope Z_scope.
Ltac Zify.zify_post_hook ::= Z.to_euclidean_division_equations.

(** * Lenient mode on format strings without error *)
Theorem tokenization_lenient : forall fmt, utf8_valid fmt = true -> has_err (tokens fmt) = false ->
  exists items, sf_until_err (S (sf_bound fmt)) (sf_new_lenient fmt) [] = Val items /\
                norm_items items = norm_items (doc_items fmt).
Proof.
  intros fmt Hv He. unfold doc_items, tokens, sf_new_lenient.
  apply (tok_main_gen true (List.length fmt) fmt (le_n _) Hv); [intros _; exact He|].
  unfold sf_bound. lia.
Qed.

Lemma format_spec_items l : forall a sv fmt items, args_view a sv ->
  sf_until_err (S (sf_bound fmt)) (mk_sfi fmt [] l) [] = Val items ->
  norm_items items = norm_items (doc_items fmt) ->
  claim (doc_format sv fmt) (delayed_display a (mk_sfi fmt [] l)).
Proof.
  intros a sv fmt items Hv Hi Hn.
  unfold delayed_display. cbn [sf_remainder sf_queue List.length]. rewrite Nat.add_0_r.
  rewrite (format_concat _ a _ items Hi).
  rewrite <- write_items_norm, Hn, write_items_norm.
  unfold doc_items. rewrite write_items_upto_err.
  unfold doc_format. apply render_tokens_spec; [exact Hv|apply tokens_documented].
Qed.

Theorem format_spec_lenient : forall a sv fmt, args_view a sv -> utf8_valid fmt = true ->
  has_err (tokens fmt) = false ->
  claim (doc_format sv fmt) (delayed_display a (sf_new_lenient fmt)).
Proof.
  intros a sv fmt Hv Hf He. destruct (tokenization_lenient fmt Hf He) as (items & Hi & Hn).
  exact (format_spec_items true a sv fmt items Hv Hi Hn).
Qed.

(** lenient and strict formatting agree on every format string without error *)
Theorem lenient_display_eq_strict : forall a fmt, utf8_valid fmt = true -> has_err (tokens fmt) = false ->
  delayed_display a (sf_new_lenient fmt) = delayed_display a (sf_new fmt).
Proof.
  intros a fmt Hf He.
  destruct (tokenization_lenient fmt Hf He) as (il & Hil & Hnl).
  destruct (tokenization_all fmt Hf) as (is_ & His & Hns). unfold strict_items in His.
  unfold delayed_display, sf_new, sf_new_lenient in *. cbn [sf_remainder sf_queue List.length]. rewrite Nat.add_0_r.
  rewrite (format_concat _ a _ il Hil), (format_concat _ a _ is_ His).
  rewrite <- (write_items_norm a il), <- (write_items_norm a is_), Hnl, Hns. reflexivity.
Qed.

(** * The formatter's arguments for every decodable value *)
Lemma args_of_value kind v sv : sval_of kind v = Some sv ->
  exists a, dec_value kind v = Some (Val a) /\ args_view a sv.
Proof.
  intros Es. destruct (sval_of_kind _ _ _ Es) as [-> | [-> | [-> | [-> | ->]]]].
  - destruct (sval_of_inv0 _ _ Es) as (y & o & ->). destruct (args_view_date y o sv Es) as (d & Hd & Hav).
    exists (fa_of_date d). split; [|exact Hav]. unfold dec_value. cbn [Z.eqb]. rewrite Hd. reflexivity.
  - destruct (sval_of_inv1 _ _ Es) as (s & f & ->). destruct (args_view_time s f sv Es) as (t & Hd & Hav).
    exists (fa_of_time t). split; [|exact Hav]. unfold dec_value. cbn [Z.eqb Pos.eqb]. rewrite Hd. reflexivity.
  - destruct (sval_of_inv2 _ _ Es) as (y & o & s & f & ->). destruct (args_view_ndt y o s f sv Es) as (n & Hd & Hav).
    exists (fa_of_ndt n). split; [|exact Hav]. unfold dec_value. cbn [Z.eqb Pos.eqb]. rewrite Hd. reflexivity.
  - destruct (sval_of_inv3 _ _ Es) as (y & o & s & f & off & ->).
    destruct (args_view_dtz_all y o s f off sv Es) as (z & a & Hd & Ha & Hav).
    exists a. split; [|exact Hav]. unfold dec_value. cbn [Z.eqb Pos.eqb]. rewrite Hd. cbn [option_map]. rewrite Ha. reflexivity.
  - destruct (sval_of_inv4 _ _ Es) as (y & o & s & f & ->).
    destruct (args_view_utc y o s f sv Es) as (n & a & Hd & Ha & Hav).
    exists a. split; [|exact Hav]. unfold dec_value. cbn [Z.eqb Pos.eqb]. rewrite Hd. cbn [option_map]. rewrite Ha. reflexivity.
Qed.

Lemma judge_fmt_ok b kind v fmt : utf8_valid fmt = true ->
  accepted (judge_fmt b kind v fmt (run_fmt b kind v fmt)).
Proof.
  intros Hf. unfold judge_fmt. destruct (sval_of kind v) as [sv|] eqn:Es; [|exact I].
  destruct (args_of_value kind v sv Es) as (a & Hd & Hav).
  destruct (b && has_err (tokens fmt)) eqn:Eb; [exact I|].
  assert (C : claim (doc_format sv fmt) (delayed_display a (mk_sfi fmt [] b))).
  { destruct b.
    - apply format_spec_lenient; auto.
    - apply format_spec_all; auto. }
  unfold run_fmt. rewrite Hd. cbn [bind].
  destruct (doc_format sv fmt) as [s| |]; cbn [claim] in C; [| |exact I].
  - rewrite C. unfold fok, judge_eq. cbn [val_eqb]. rewrite bytes_eqb_refl. exact I.
  - rewrite C. unfold ferr, judge_eq. cbn [val_eqb]. rewrite bytes_eqb_refl. exact I.
Qed.

(** C12 holds of the model on `sf.fmt` for EVERY value and EVERY format string (arguments that do
    not decode, or a format that is not UTF-8, are outside the domain on both sides) *)
Theorem holds_fmt_any : forall kind v fmt,
  accepted (judge (bytes_of_string "sf.fmt") [VInt kind; v; VStr fmt]
                  (run (bytes_of_string "sf.fmt") [VInt kind; v; VStr fmt])).
Proof.
  intros kind v fmt.
  change (judge (bytes_of_string "sf.fmt") [VInt kind; v; VStr fmt])
    with (fun out => if utf8_ok fmt then judge_fmt false kind v fmt out else JSkip).
  change (run (bytes_of_string "sf.fmt") [VInt kind; v; VStr fmt])
    with (if utf8_valid fmt then run_fmt false kind v fmt else VBad).
  cbv beta. rewrite (utf8_ok_valid fmt). destruct (utf8_valid fmt) eqn:Hv; [|exact I].
  apply judge_fmt_ok. exact Hv.
Qed.
Theorem holds_fmtl_any : forall kind v fmt,
  accepted (judge (bytes_of_string "sf.fmtl") [VInt kind; v; VStr fmt]
                  (run (bytes_of_string "sf.fmtl") [VInt kind; v; VStr fmt])).
Proof.
  intros kind v fmt.
  change (judge (bytes_of_string "sf.fmtl") [VInt kind; v; VStr fmt])
    with (fun out => if utf8_ok fmt then judge_fmt true kind v fmt out else JSkip).
  change (run (bytes_of_string "sf.fmtl") [VInt kind; v; VStr fmt])
    with (if utf8_valid fmt then run_fmt true kind v fmt else VBad).
  cbv beta. rewrite (utf8_ok_valid fmt). destruct (utf8_valid fmt) eqn:Hv; [|exact I].
  apply judge_fmt_ok. exact Hv.
Qed.

(** * `sf.items`: the whole item list *)
Definition ni (i : Item) : nitem :=
  match i with
  | Literal s | Space s => NText s
  | INumeric n p => NNum (numeric_idx n) (pad_idx p)
  | IFixed f => NFix (fixed_idx f)
  | IError => NErr
  end.
Fixpoint until_first_err (l : list Item) : list Item :=
  match l with [] => [] | IError :: _ => [IError] | x :: r => x :: until_first_err r end.
Fixpoint has_ierr (l : list Item) : bool :=
  match l with [] => false | IError :: _ => true | _ :: r => has_ierr r end.

Lemma ni_enc i : nitem_of_val (enc_item i) = ni i.
Proof. destruct i; reflexivity. Qed.
Lemma ni_tok t : nitem_of_tok t = ni (item_of_tok t).
Proof.
  destruct t as [s|f p|f|]; cbn [nitem_of_tok item_of_tok ni]; try reflexivity.
  - destruct f, p; reflexivity.
  - destruct f; try reflexivity. destruct dot; cbn [tfield_code fixed_of];
      destruct (digits =? 3); [reflexivity| |reflexivity|]; destruct (digits =? 6); reflexivity.
Qed.
Lemma nupto_ni l : nupto_err (map ni l) = map ni (until_first_err l).
Proof. induction l as [|a l IH]; [reflexivity|]. destruct a; cbn [map ni nupto_err until_first_err]; rewrite ?IH; reflexivity. Qed.
Lemma nmerge_ni l : nmerge (map ni l) = map ni (norm_items l).
Proof.
  induction l as [|a l IH]; [reflexivity|].
  assert (T : forall s, nmerge (NText s :: map ni l) = map ni (mtext s (norm_items l))).
  { intros s. cbn [nmerge]. rewrite IH. destruct (norm_items l) as [|[b|b|n p|f|] r'] eqn:En; cbn [map ni mtext]; try reflexivity.
    exfalso. exact (norm_no_space l _ _ En). }
  destruct a; cbn [map ni]; rewrite ?norm_lit_mtext, ?norm_space_mtext; try apply T;
    cbn [nmerge norm_items map ni]; rewrite IH; reflexivity.
Qed.
Lemma nitem_eqb_ni i : nitem_eqb (ni i) (ni i) = true.
Proof. destruct i; cbn [ni nitem_eqb]; rewrite ?bytes_eqb_refl, ?Z.eqb_refl; reflexivity. Qed.
Lemma nlist_eqb_ni l : nlist_eqb (map ni l) (map ni l) = true.
Proof. induction l as [|a l IH]; [reflexivity|]. cbn [map nlist_eqb]. rewrite nitem_eqb_ni, IH. reflexivity. Qed.

Lemma until_first_err_noerr l : has_ierr l = false -> until_first_err l = l.
Proof. induction l as [|a l IH]; [reflexivity|]. destruct a; cbn [has_ierr until_first_err]; intros H; try discriminate; rewrite IH by exact H; reflexivity. Qed.
Lemma has_ierr_norm l : has_ierr (norm_items l) = has_ierr l.
Proof.
  induction l as [|a l IH]; [reflexivity|].
  assert (T : forall s, has_ierr (mtext s (norm_items l)) = has_ierr l).
  { intros s. rewrite <- IH. destruct (norm_items l) as [|[b|b|n p|f|] r']; reflexivity. }
  destruct a; rewrite ?norm_lit_mtext, ?norm_space_mtext; cbn [has_ierr]; try apply T;
    cbn [norm_items has_ierr]; auto.
Qed.
Lemma has_ierr_toks l : has_ierr (map item_of_tok l) = has_err l.
Proof. induction l as [|a l IH]; [reflexivity|]. destruct a; cbn [map item_of_tok has_ierr has_err]; auto. Qed.
Lemma upto_err_noerr l : has_err l = false -> upto_err l = l.
Proof. induction l as [|a l IH]; [reflexivity|]. destruct a; cbn [has_err upto_err]; intros H; try discriminate; rewrite IH by exact H; reflexivity. Qed.

(* the judge accepts an item list whose part up to the first Error is the documented one *)
Lemma judge_items_ok fmt b l :
  norm_items (until_first_err l) = norm_items (doc_items fmt) ->
  accepted (judge_items fmt b (enc_items l)).
Proof.
  intros H. unfold judge_items. destruct (has_err (tokens fmt) && b); [exact I|].
  unfold enc_items. rewrite map_map.
  rewrite (map_ext (fun x => nitem_of_val (enc_item x)) ni ni_enc).
  rewrite (map_ext nitem_of_tok (fun t => ni (item_of_tok t)) ni_tok), <- (map_map item_of_tok ni).
  rewrite nupto_ni, !nmerge_ni. fold (doc_items fmt). rewrite H, nlist_eqb_ni. exact I.
Qed.

Lemma sf_take_acc fuel : forall st acc,
  sf_take fuel st acc = rmap (option_map (fun l => rev acc ++ l)) (sf_take fuel st []).
Proof.
  induction fuel as [|f IH]; intros st acc; [reflexivity|].
  cbn [sf_take]. unfold rmap, bind.
  destruct (sf_next st) as [[o st']| |]; try reflexivity.
  destruct o as [it|]; [|cbn [rev app option_map]; rewrite app_nil_r; reflexivity].
  rewrite (IH st' (it :: acc)), (IH st' [it]). unfold rmap, bind.
  destruct (sf_take f st' []) as [[l|]| |]; try reflexivity.
  cbn [option_map rev app]. rewrite <- app_assoc. reflexivity.
Qed.

Lemma take_vs_until : forall fuel st l items,
  sf_take fuel st [] = Val (Some l) -> sf_until_err fuel st [] = Val items -> until_first_err l = items.
Proof.
  induction fuel as [|f IH]; intros st l items Ht Hu; [discriminate|].
  cbn [sf_take sf_until_err] in *. unfold bind in *.
  destruct (sf_next st) as [[o st']| |]; try discriminate.
  destruct o as [it|]; [|injection Ht as <-; injection Hu as <-; reflexivity].
  rewrite sf_take_acc in Ht. unfold rmap, bind in Ht.
  destruct (sf_take f st' []) as [[l'|]| |] eqn:Et; try discriminate.
  cbn [option_map rev app] in Ht. injection Ht as <-.
  assert (G : it <> IError -> sf_until_err f st' [it] = Val items -> until_first_err (it :: l') = items).
  { intros Hne Hu'. rewrite sf_until_err_acc in Hu'. unfold rmap, bind in Hu'.
    destruct (sf_until_err f st' []) as [items'| |] eqn:Eu; try discriminate.
    cbn [rev app] in Hu'. injection Hu' as <-.
    rewrite <- (IH st' l' items' Et Eu). destruct it; try reflexivity. congruence. }
  destruct it; try (apply G; [discriminate|exact Hu]).
  injection Hu as <-. reflexivity.
Qed.

Lemma until_noerr_take : forall fuel st items,
  sf_until_err fuel st [] = Val items -> has_ierr items = false -> sf_take fuel st [] = Val (Some items).
Proof.
  induction fuel as [|f IH]; intros st items Hu Hn; [discriminate|].
  cbn [sf_take sf_until_err] in *. unfold bind in *.
  destruct (sf_next st) as [[o st']| |]; try discriminate.
  destruct o as [it|]; [|injection Hu as <-; reflexivity].
  assert (G : it <> IError -> sf_until_err f st' [it] = Val items -> sf_take f st' [it] = Val (Some items)).
  { intros Hne Hu'. rewrite sf_until_err_acc in Hu'. unfold rmap, bind in Hu'.
    destruct (sf_until_err f st' []) as [items'| |] eqn:Eu; try discriminate.
    cbn [rev app] in Hu'. injection Hu' as <-.
    rewrite sf_take_acc, (IH st' items' Eu).
    - reflexivity.
    - destruct it; cbn [has_ierr] in Hn; try exact Hn. congruence. }
  destruct it; try (apply G; [discriminate|exact Hu]).
  injection Hu as <-. discriminate Hn.
Qed.

(** strict mode: every step on a valid non-empty string succeeds and leaves a valid string *)
Definition row_err_nil (name : bytes) (e : entry) (m : bytes) : Prop :=
  row_is_err e m = true -> forall tl, head_ok tl = true ->
  exists q, parse_next_item false [] (37 :: m ++ name ++ tl) = Val (Some ([], IError), q).
Lemma rows_err_nil : Forall (fun ne => Forall (row_err_nil (fst ne) (snd ne)) modifiers) doc_table.
Proof.
  unfold doc_table, modifiers.
  repeat (apply Forall_cons;
          [repeat (apply Forall_cons;
                   [cbn [fst snd]; intros Herr;
                    first [discriminate Herr | (intros tl Htl; eexists; sf_step; reflexivity)]|]); apply Forall_nil|]).
  apply Forall_nil.
Qed.

Lemma strict_step_total r : utf8_valid r = true -> r <> [] ->
  exists rm it q, parse_next_item false [] r = Val (Some (rm, it), q) /\ utf8_valid rm = true.
Proof.
  intros Hv Hne. destruct r as [|b0 r']; [congruence|].
  destruct (b0 =? 37) eqn:E37.
  - apply Z.eqb_eq in E37. subst b0.
    assert (Hvr' : utf8_valid r' = true) by (apply valid_ascii_tail in Hv; [exact Hv|lia]).
    destruct (split_mod r') as [pad r1] eqn:Ep.
    destruct (lookup doc_table r1) as [[e rest]|] eqn:El.
    2:{ destruct (is_err_res_inv _ (unknown_err r' pad r1 Hvr' Ep El)) as (rm & q & Hp & Hrm). eauto. }
    destruct (percent_row _ _ _ Ep) as (m & Hm & Hr & _).
    destruct (lookup_sound _ _ _ _ El) as (name & Hin & Hs). subst r1 r'.
    assert (Hvrest : utf8_valid rest = true).
    { apply (valid_ascii_prefix m (modifiers_ascii m Hm)) in Hvr'.
      pose proof (proj1 (Forall_forall _ _) ascii_names _ Hin) as Hn. cbn [fst] in Hn.
      apply (valid_ascii_prefix name Hn) in Hvr'. exact Hvr'. }
    destruct (row_is_err e m) eqn:Eerr.
    + destruct (table_row rows_err_nil name e m Hin Hm Eerr rest (valid_head_ok _ Hvrest)) as (q & Hp).
      exists [], IError, q. split; [exact Hp|reflexivity].
    + pose proof (table_row rows_model name e m Hin Hm rest (valid_head_ok _ Hvrest)) as Hmodel.
      rewrite Eerr in Hmodel. destruct Hmodel as (i0 & q & Hp & _). eauto.
  - destruct (first_char_not_percent b0 r' Hv ltac:(lia)) as (c0 & Hnc & Ec0).
    destruct (text_step false [] (b0 :: r') c0 Hv Hnc Ec0) as (k & Hk & Hvk & _ & Hp). eauto.
Qed.

Lemma sf_take_total : forall fuel st acc, sf_lenient st = false -> utf8_valid (sf_remainder st) = true ->
  sf_measure st < Z.of_nat fuel -> exists l, sf_take fuel st acc = Val (Some l).
Proof.
  induction fuel as [|f IH]; intros [r q b] acc Hb Hv Hm; cbn [sf_lenient sf_remainder] in *; subst b.
  { unfold sf_measure, blen in Hm. cbn [sf_remainder sf_queue] in Hm. lia. }
  cbn [sf_take]. destruct q as [|i q].
  - destruct r as [|b0 r'].
    + eexists. reflexivity.
    + destruct (strict_step_total (b0 :: r') Hv ltac:(discriminate)) as (rm & it & q' & Hp & Hvr).
      assert (Hn : sf_next (mk_sfi (b0 :: r') [] false) = Val (Some it, mk_sfi rm q' false)).
      { unfold sf_next. cbn [sf_queue sf_remainder sf_lenient]. rewrite Hp. reflexivity. }
      rewrite Hn. cbn [bind].
      destruct (sf_next_decreases _ _ _ (or_introl eq_refl) Hn) as [Hd _].
      apply IH; cbn [sf_lenient sf_remainder]; auto. lia.
  - unfold sf_next. cbn [sf_queue sf_remainder sf_lenient bind].
    apply IH; cbn [sf_lenient sf_remainder]; auto.
    unfold sf_measure in *. cbn [sf_remainder sf_queue List.length] in *. lia.
Qed.

Lemma run_items_ok fmt b : utf8_valid fmt = true -> accepted (judge_items fmt b (run_items fmt b)).
Proof.
  intros Hv. destruct (has_err (tokens fmt) && b) eqn:Eb.
  { unfold judge_items. rewrite Eb. exact I. }
  unfold run_items. destruct b.
  - (* lenient, no error by the table *)
    rewrite andb_true_r in Eb.
    destruct (tokenization_lenient fmt Hv Eb) as (items & Hi & Hn). unfold sf_new_lenient in Hi.
    assert (Hne : has_ierr items = false).
    { rewrite <- has_ierr_norm, Hn, has_ierr_norm. unfold doc_items. rewrite has_ierr_toks, upto_err_noerr by exact Eb. exact Eb. }
    rewrite (until_noerr_take _ _ _ Hi Hne).
    apply judge_items_ok. rewrite until_first_err_noerr by exact Hne. exact Hn.
  - destruct (tokenization_all fmt Hv) as (items & Hi & Hn). unfold strict_items, sf_new in Hi.
    destruct (sf_take_total (S (sf_bound fmt)) (mk_sfi fmt [] false) [] eq_refl Hv) as (l & Hl).
    { unfold sf_measure, sf_bound, blen. cbn [sf_remainder sf_queue List.length]. lia. }
    rewrite Hl. apply judge_items_ok. rewrite (take_vs_until _ _ _ _ Hl Hi). exact Hn.
Qed.

(** C12 holds of the model on `sf.items` for EVERY format string, strict and lenient *)
Theorem holds_items_any : forall fmt l,
  accepted (judge (bytes_of_string "sf.items") [VStr fmt; VInt l]
                  (run (bytes_of_string "sf.items") [VStr fmt; VInt l])).
Proof.
  intros fmt l.
  change (judge (bytes_of_string "sf.items") [VStr fmt; VInt l])
    with (fun out => if utf8_ok fmt && ((l =? 0) || (l =? 1)) then judge_items fmt (l =? 1) out else JSkip).
  change (run (bytes_of_string "sf.items") [VStr fmt; VInt l])
    with (if utf8_valid fmt && ((l =? 0) || (l =? 1)) then run_items fmt (l =? 1) else VBad).
  cbv beta. rewrite (utf8_ok_valid fmt). destruct (utf8_valid fmt) eqn:Hv; [|exact I].
  destruct ((l =? 0) || (l =? 1)); cbn [andb]; [|exact I].
  apply run_items_ok. exact Hv.
Qed.

(** the item list itself, without the judge: in strict mode the iterator ends without trap on
    every valid UTF-8 string, and its items up to the first Error are the documented ones *)
Theorem strict_items_total : forall fmt, utf8_valid fmt = true ->
  exists l, sf_take (S (sf_bound fmt)) (sf_new fmt) [] = Val (Some l) /\
            norm_items (until_first_err l) = norm_items (doc_items fmt).
Proof.
  intros fmt Hv. destruct (tokenization_all fmt Hv) as (items & Hi & Hn). unfold strict_items in Hi.
  destruct (sf_take_total (S (sf_bound fmt)) (sf_new fmt) [] eq_refl Hv) as (l & Hl).
  { unfold sf_measure, sf_bound, blen, sf_new. cbn [sf_remainder sf_queue List.length]. lia. }
  exists l. split; [exact Hl|]. rewrite (take_vs_until _ _ _ _ Hl Hi). exact Hn.
Qed.

(** the hypotheses of [unknown_specifier_error_in_context] are inhabited: "ab%-Q!" *)
Lemma ex_unknown : utf8_valid ([97; 98] ++ 37 :: [45; 81; 33]) = true /\ ~ In 37 [97; 98] /\
  split_mod [45; 81; 33] = (Some DNone, [81; 33]) /\ lookup doc_table [81; 33] = None.
Proof. repeat split; try (vm_compute; reflexivity). cbn. intros [H|[H|[]]]; discriminate. Qed.
(* a format string with an undocumented specifier, a trailing '%' and multi-byte text: "é%Q%Y%" *)
Definition ex_fmt_bad : bytes := [195; 169; 37; 81; 37; 89; 37].
Lemma ex_fmt_bad_valid : utf8_valid ex_fmt_bad = true /\ has_err (tokens ex_fmt_bad) = true.
Proof. split; vm_compute; reflexivity. Qed.
Lemma ex_fmt_noerr : utf8_valid ex_fmt = true /\ has_err (tokens ex_fmt) = false.
Proof. split; vm_compute; reflexivity. Qed.
