(** Proofs for C12, part 12: [items_exact] - draining `StrftimeItems::new(fmt)` /
    `new_lenient(fmt)` gives exactly [exact_items], for every valid UTF-8 string. *)
From Coq Require Import ZArith List Bool Lia ZifyBool String.
From V Require Import Base.Int Base.IO Base.IntLemmas Base.Lift Spec.Gregorian Spec.StrftimeDoc
  Model.Items Gen.Strftime Gen.Locales Model.Strftime Model.Format
  Proofs.C12 Proofs.C12Str Proofs.C12Tok Proofs.C12Fam Proofs.C12All Proofs.C12Judge Proofs.C12Lenient
  Proofs.C12Exact Proofs.C12Exact2 Proofs.C12Exact3.
From V Require Proofs.C15Strftime.
Import ListNotations.
Open Scope Z_scope.
Ltac Zify.zify_post_hook ::= Z.to_euclidean_division_equations.

Lemma rows_nonempty : Forall (fun ne => forall pad, row_items exact_simple (snd ne) pad <> []) doc_table.
Proof.
  unfold doc_table.
  repeat (apply Forall_cons; [intros pad; destruct pad as [[]|]; vm_compute; discriminate|]).
  apply Forall_nil.
Qed.

Lemma items_gen_nil comp l f : items_gen comp l f [] = [].
Proof. destruct f; reflexivity. Qed.

(** one step of the description = one call of parse_next_item *)
Lemma gen_unfold l f s : utf8_valid s = true -> s <> [] ->
  exists rm it q, parse_next_item l [] s = Val (Some (rm, it), q) /\
    items_gen exact_simple l (S f) s = (it :: q) ++ items_gen exact_simple l f rm.
Proof.
  intros Hv Hne. destruct s as [|b r]; [congruence|]. cbn [items_gen].
  destruct (b =? 37) eqn:E37.
  - apply Z.eqb_eq in E37. subst b.
    assert (Hvr : utf8_valid r = true) by (apply valid_ascii_tail in Hv; [exact Hv|lia]).
    rewrite (parse_step l r Hvr). unfold pct_spec, classify.
    destruct (split_mod r) as [pad r1]. destruct (lookup doc_table r1) as [[e rest]|] eqn:El.
    + destruct (row_bad e pad).
      * destruct l; [do 3 eexists; split; reflexivity|].
        do 3 eexists. split; [reflexivity|]. cbn [app]. f_equal. f_equal.
        rewrite items_gen_nil. reflexivity.
      * destruct (lookup_in _ _ _ _ El) as (name & Hin).
        pose proof (proj1 (Forall_forall _ _) rows_nonempty _ Hin pad) as Hn. cbn [snd] in Hn.
        destruct (row_items exact_simple e pad) as [|i q0]; [congruence|].
        do 3 eexists. split; reflexivity.
    + destruct l; [do 3 eexists; split; reflexivity|].
      do 3 eexists. split; [reflexivity|]. cbn [app]. f_equal.
      destruct (match r with [] => false | c :: _ => c =? 58 end); [reflexivity|].
      rewrite items_gen_nil. reflexivity.
  - destruct (first_char_not_percent b r Hv ltac:(lia)) as (c0 & Hnc & Ec0).
    destruct (text_step_exact l [] (b :: r) c0 Hv Hnc Ec0) as (_ & _ & Hp).
    rewrite Hp, Hnc. destruct (is_whitespace c0); do 3 eexists; split; reflexivity.
Qed.

Lemma drain_take l : forall q f rm acc,
  sf_take (List.length q + f) (mk_sfi rm q l) acc = sf_take f (mk_sfi rm [] l) (rev q ++ acc).
Proof.
  induction q as [|i q IH]; intros f rm acc; [reflexivity|].
  cbn [List.length Nat.add sf_take]. unfold sf_next. cbn [sf_queue sf_remainder sf_lenient]. cbv [bind].
  rewrite IH. cbn [rev]. rewrite <- app_assoc. reflexivity.
Qed.

Lemma take_main l : forall (n : nat) s, (List.length s <= n)%nat -> utf8_valid s = true -> blen s <= u64_max ->
  forall fuel f, (13 * List.length s < fuel)%nat -> (List.length s < f)%nat ->
  sf_take fuel (mk_sfi s [] l) [] = Val (Some (items_gen exact_simple l f s)).
Proof.
  induction n as [|n IH]; intros s Hn Hv Hl fuel f Hfuel Hf.
  { destruct s; [|cbn in Hn; lia]. destruct fuel; [lia|]. rewrite items_gen_nil. reflexivity. }
  destruct s as [|b r] eqn:Es.
  { destruct fuel; [lia|]. rewrite items_gen_nil. reflexivity. }
  rewrite <- Es in *. assert (Hne : s <> []) by (rewrite Es; discriminate).
  destruct f as [|f]; [lia|]. destruct fuel as [|fuel]; [lia|].
  destruct (gen_unfold l f s Hv Hne) as (rm & it & q & Hp & Hg). rewrite Hg.
  destruct (parse_next_item_consumes l [] s rm it q ltac:(left; reflexivity) Hp) as [Hshort Hq].
  apply queue_ok_short in Hq.
  assert (Hrm : utf8_valid rm = true /\ blen rm <= u64_max).
  { destruct (C15Strftime.parse_next_item_ok l [] s (conj Hv Hl)) as [(q' & E)|(rm' & it' & q' & E & Hok)];
      rewrite E in Hp; [discriminate|]. injection Hp as <- <- <-. exact Hok. }
  destruct Hrm as [Hvrm Hlrm]. unfold blen in Hshort.
  cbn [sf_take]. unfold sf_next. cbn [sf_queue sf_remainder sf_lenient]. rewrite Hp. cbv [bind].
  assert (Hfu : exists f1, fuel = (List.length q + f1)%nat /\ (13 * List.length rm < f1)%nat).
  { exists (fuel - List.length q)%nat. lia. }
  destruct Hfu as (f1 & -> & Hf1).
  rewrite drain_take, sf_take_acc.
  rewrite (IH rm ltac:(lia) Hvrm Hlrm f1 f Hf1 ltac:(lia)).
  unfold rmap, bind. cbn [option_map]. rewrite rev_app_distr. cbn [rev app]. rewrite rev_involutive.
  reflexivity.
Qed.

(** items_exact: the drained iterator, strict and lenient, on every valid UTF-8 string *)
Theorem items_exact : forall l s, utf8_valid s = true -> blen s <= u64_max ->
  sf_take (S (sf_bound s)) (mk_sfi s [] l) [] = Val (Some (exact_items l s)).
Proof.
  intros l s Hv Hl. unfold exact_items.
  apply (take_main l (List.length s) s (le_n _) Hv Hl); unfold sf_bound; lia.
Qed.

(** what the formatter consumes in strict mode: the description up to the first [Error] *)
Theorem strict_items_exact : forall fmt, utf8_valid fmt = true -> blen fmt <= u64_max ->
  strict_items fmt = Val (until_first_err (exact_items false fmt)).
Proof.
  intros fmt Hv Hl. destruct (tokenization_all fmt Hv) as (items & Hi & _).
  unfold strict_items in *. rewrite Hi. f_equal. symmetry.
  exact (take_vs_until _ _ _ _ (items_exact false fmt Hv Hl) Hi).
Qed.

(** maximality of the runs: the character right after a run does not belong to it *)
Lemma run_len_maximal p : forall fuel s, (List.length s <= fuel)%nat -> utf8_valid s = true ->
  match next_char (skipn (run_len p fuel s) s) with Some c => p c = false | None => True end.
Proof.
  induction fuel as [|f IH]; intros s Hf Hv.
  - destruct s; [exact I|cbn in Hf; lia].
  - destruct s as [|b0 r]; [exact I|].
    destruct (valid_char b0 r Hv) as (m & rest & x & Hm & Hlen & Hskip & Hvr & Hnc & Hlu & _ & _).
    cbn [run_len]. rewrite Hnc. destruct (p x) eqn:Ep.
    + cbv zeta. rewrite Hlu, Nat2Z.id.
      assert (Hskipn : forall (l : bytes) a c, skipn (a + c) l = skipn c (skipn a l)).
      { intros l a. revert l. induction a as [|a IHa]; intros l c; [reflexivity|].
        destruct l as [|y l]; [destruct c; reflexivity|]. cbn [Nat.add skipn]. apply IHa. }
      rewrite Hskipn, Hskip. apply IH; [|exact Hvr].
      rewrite <- Hskip, skipn_length. cbn [List.length] in *. lia.
    + cbn [skipn]. rewrite Hnc. exact Ep.
Qed.
Theorem run_maximal : forall p s, utf8_valid s = true ->
  (run p s <= List.length s)%nat /\
  match next_char (skipn (run p s) s) with Some c => p c = false | None => True end.
Proof.
  intros p s Hv. split; [|exact (run_len_maximal p _ s (le_n _) Hv)].
  destruct (find_run_len (fun c => negb (p c)) (List.length s) s 0 (List.length s) (le_n _) (le_n _) Hv) as (_ & Hk & _).
  unfold run. cbv zeta in Hk.
  assert (Hext : forall q q' t f, (forall c, q c = q' c) -> run_len q f t = run_len q' f t).
  { intros q q' t f He. revert t. induction f as [|f IHf]; intros t; [reflexivity|].
    cbn [run_len]. destruct (next_char t); [|reflexivity]. rewrite He. destruct (q' z); [|reflexivity].
    cbv zeta. rewrite IHf. reflexivity. }
  rewrite (Hext _ p s _ (fun c => negb_involutive (p c))) in Hk. exact Hk.
Qed.

(** `%%` `%n` `%t` are items of their own, never merged with neighbouring text; composites are
    the items of their expansion, not merged with adjacent literals; runs alternate *)
Definition Bs := bytes_of_string.
Local Open Scope string_scope.
Lemma exact_examples :
  exact_items false (Bs "a%%b") = [Literal (Bs "a"); Literal (Bs "%"); Literal (Bs "b")] /\
  exact_items false [32; 37; 110; 32; 9; 37; 116] = [Space [32]; Space [10]; Space [32; 9]; Space [9]] /\
  exact_items false (Bs "/%D/") = [Literal [47]; num0 N_Month; Literal [47]; num0 N_Day; Literal [47];
                                   num0 N_YearMod100; Literal [47]] /\
  exact_items false (Bs "ab  cd%Y") = [Literal (Bs "ab"); Space (Bs "  "); Literal (Bs "cd"); num0 N_Year] /\
  exact_simple (Bs "%m/%d/%y") = SF_D_FMT /\ exact_simple (Bs "%H:%M:%S") = SF_T_FMT /\
  exact_simple (Bs "%a %b %e %H:%M:%S %Y") = SF_D_T_FMT /\ exact_simple (Bs "%I:%M:%S %p") = SF_T_FMT_AMPM.
Proof. vm_compute. repeat split; reflexivity. Qed.

(** lenient mode on invalid specifiers: the source text of the specifier becomes one [Literal]
    (a character that cannot start a specifier is not part of it), the tail of a composite leaks
    after a padding modifier; strict mode: [Error], the rest dropped, except after "%:" *)
Lemma lenient_examples :
  exact_items true (Bs "%Qx %.3y%-a%-Dz") =
    [Literal (Bs "%"); Literal (Bs "Qx"); Space (Bs " "); Literal (Bs "%.3"); Literal (Bs "y"); Literal (Bs "%-a");
     Literal (Bs "%-D"); Literal [47]; num0 N_Day; Literal [47]; num0 N_YearMod100; Literal (Bs "z")] /\
  exact_items true (Bs "%-:zq%") = [Literal (Bs "%-:"); Literal (Bs "zq"); Literal (Bs "%")] /\
  exact_items false (Bs "%Qx%Y") = [IError] /\
  exact_items false (Bs "%:x%Y") = [IError; Literal (Bs "x"); num0 N_Year] /\
  exact_items false (Bs "%-Dx") = [IError; Literal [47]; num0 N_Day; Literal [47]; num0 N_YearMod100].
Proof. vm_compute. repeat split; reflexivity. Qed.

(** the densest input: "%c" yields 13 items per 2 bytes (6.5 items per byte, not 13) *)
Lemma density_example :
  List.length (exact_items false (Bs "%c%c%c%c")) = 52%nat /\ List.length (Bs "%c%c%c%c") = 8%nat.
Proof. vm_compute. split; reflexivity. Qed.
Lemma exact_inhabited : utf8_valid (Bs "%Qx %.3y%-a%-Dz") = true /\ blen (Bs "%Qx %.3y%-a%-Dz") <= u64_max.
Proof. vm_compute. split; [reflexivity|discriminate]. Qed.

(** the rendered text, both modes: the formatter writes the items of the description up to the
    first [Error] (lenient mode has none: every invalid specifier is written as its source text,
    followed by the leaked items of a composite after `%-D`-like specifiers) *)
Lemma take_to_until : forall fuel st L, sf_take fuel st [] = Val (Some L) ->
  sf_until_err fuel st [] = Val (until_first_err L).
Proof.
  induction fuel as [|f IH]; intros st L H; [discriminate|].
  cbn [sf_take sf_until_err] in *. unfold bind in *.
  destruct (sf_next st) as [[o st']| |]; try discriminate.
  destruct o as [it|]; [|injection H as <-; reflexivity].
  rewrite sf_take_acc in H. unfold rmap, bind in H.
  destruct (sf_take f st' []) as [[l'|]| |] eqn:Et; try discriminate.
  cbn [option_map rev app] in H. injection H as <-.
  pose proof (IH st' l' Et) as Hu.
  destruct it; cbn [until_first_err]; try (rewrite sf_until_err_acc, Hu; reflexivity). reflexivity.
Qed.
Theorem display_exact : forall a l s, utf8_valid s = true -> blen s <= u64_max ->
  delayed_display a (mk_sfi s [] l) = write_items a (until_first_err (exact_items l s)) [].
Proof.
  intros a l s Hv Hl. unfold delayed_display. cbn [sf_remainder sf_queue List.length]. rewrite Nat.add_0_r.
  apply format_concat. apply take_to_until. exact (items_exact l s Hv Hl).
Qed.
Theorem lenient_no_error : forall s, utf8_valid s = true -> blen s <= u64_max ->
  until_first_err (exact_items true s) = exact_items true s.
Proof.
  intros s Hv Hl. destruct (lenient_never_errors s Hv Hl) as (l0 & Ht & Hn). unfold sf_new_lenient in Ht.
  rewrite (items_exact true s Hv Hl) in Ht. injection Ht as <-. apply until_first_err_noerr. clear -Hn.
  induction (exact_items true s) as [|i r IH]; [reflexivity|].
  cbn [forallb] in Hn. apply andb_prop in Hn. destruct Hn as [Hi Hr].
  destruct i; cbn [has_ierr]; try (apply IH; exact Hr). discriminate Hi.
Qed.
Theorem lenient_display_exact : forall a s, utf8_valid s = true -> blen s <= u64_max ->
  delayed_display a (sf_new_lenient s) = write_items a (exact_items true s) [].
Proof.
  intros a s Hv Hl. unfold sf_new_lenient. rewrite (display_exact a true s Hv Hl), (lenient_no_error s Hv Hl).
  reflexivity.
Qed.
