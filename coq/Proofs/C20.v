(** C20 -- the recorded findings as witnesses (computed on the faithful model), next to the conditional
    round-trip theorems of Proofs/C20Text.v. *)
From Coq Require Import ZArith List Bool Lia String.
From V Require Import Base.Int Base.IO Base.Utf8 Gen.SerdeConsts Model.Scan Model.DateTime Model.Rfc3339 Model.Show Model.Serde.
From V Require Model.Date Model.Time.
Import ListNotations.
Open Scope Z_scope.

Definition date_of (y m d : Z) : Z := match Date.from_ymd_opt y m d with Val (Some x) => x | _ => 0 end.

(** (1) an offset with seconds: 2020-01-01T00:00:00 at +05:30:15 (UTC reading 2019-12-31T18:29:45) is
    written with the offset rounded to +05:30 and reads back 15 s later, at offset +05:30 *)
Definition dtz_secs : dtz := Eval vm_compute in mk_dtz (mk_ndt (date_of 2019 12 31) (Time.mk_time 66585 0)) 19815.
Definition dtz_secs_text : bytes := Eval vm_compute in B"2020-01-01T00:00:00+05:30".
Definition dtz_secs_back : dtz := Eval vm_compute in mk_dtz (mk_ndt (date_of 2019 12 31) (Time.mk_time 66600 0)) 19800.
Lemma seconds_offset_refuted :
  dec_dtz (enc_dtz dtz_secs) = Some dtz_secs /\
  ser_dtz dtz_secs = Val (SOk (SStr dtz_secs_text)) /\
  (forall fmt, de_dt_fixed (carry fmt (SStr dtz_secs_text)) = Val (SOk dtz_secs_back)) /\
  dz_utc dtz_secs_back <> dz_utc dtz_secs /\
  Time.tsecs (nd_time (dz_utc dtz_secs_back)) - Time.tsecs (nd_time (dz_utc dtz_secs)) = 15.
Proof.
  split; [vm_compute; reflexivity|]. split; [vm_compute; reflexivity|].
  split; [intros fmt; unfold carry; destruct (fmt =? 0); vm_compute; reflexivity|].
  split; [vm_compute; discriminate|vm_compute; reflexivity].
Qed.
(* ... and an offset of +23:59:45 is written as "+24:00", which no reader accepts *)
Definition dtz_24 : dtz := Eval vm_compute in mk_dtz (mk_ndt (date_of 2020 1 1) (Time.mk_time 0 0)) 86385.
Definition dtz_24_text : bytes := Eval vm_compute in B"2020-01-01T23:59:45+24:00".
Lemma seconds_offset_24_refuted :
  dec_dtz (enc_dtz dtz_24) = Some dtz_24 /\
  ser_dtz dtz_24 = Val (SOk (SStr dtz_24_text)) /\
  (forall fmt, de_dt_fixed (carry fmt (SStr dtz_24_text)) = Val (SErr (EParse OutOfRange))).
Proof.
  split; [vm_compute; reflexivity|]. split; [vm_compute; reflexivity|].
  intros fmt; unfold carry; destruct (fmt =? 0); vm_compute; reflexivity.
Qed.

(** (2) a leap-second fraction on a second other than 59: 12:34:30 + 1.5 s is written "12:34:31.500"
    and reads back as 12:34:31.5 *)
Definition time_leap : Time.ntime := Time.mk_time 45270 1500000000.
Definition time_leap_text : bytes := Eval vm_compute in B"12:34:31.500".
Definition ndt_leap : ndt := Eval vm_compute in mk_ndt (date_of 2020 1 1) time_leap.
Definition ndt_leap_text : bytes := Eval vm_compute in B"2020-01-01T12:34:31.500".
Lemma leap_off_minute_refuted :
  Time.dec_time (Time.enc_time time_leap) = Some time_leap /\
  ser_time time_leap = Val (SOk (SStr time_leap_text)) /\
  (forall fmt, de_time (carry fmt (SStr time_leap_text)) = Val (SOk (Time.mk_time 45271 500000000))) /\
  ser_ndt ndt_leap = Val (SOk (SStr ndt_leap_text)) /\
  de_ndt (SStr ndt_leap_text) = Val (SOk (mk_ndt (nd_date ndt_leap) (Time.mk_time 45271 500000000))).
Proof.
  split; [vm_compute; reflexivity|]. split; [vm_compute; reflexivity|].
  split; [intros fmt; unfold carry; destruct (fmt =? 0); vm_compute; reflexivity|].
  split; vm_compute; reflexivity.
Qed.

(** (3) the wall clock outside the date range: 262142-12-31T23:59:59Z at +00:01 is written (by the
    repaired serializer) as "+262143-01-01T00:00:59+00:01", whose date no reader accepts; the
    serializer as found (naive_local()) trapped on this value *)
Definition dtz_edge : dtz := Eval vm_compute in mk_dtz (mk_ndt (date_of 262142 12 31) (Time.mk_time 86399 0)) 60.
Definition dtz_edge_text : bytes := Eval vm_compute in B"+262143-01-01T00:00:59+00:01".
Definition ser_dtz_unrepaired (a : dtz) : SR sval :=
  let* naive := naive_local a in
  collect_str (write_rfc3339 [] naive (dz_off a) SD_DT_SECFORM (SD_DT_USE_Z =? 1)).
Lemma wall_clock_refuted :
  dec_dtz (enc_dtz dtz_edge) = Some dtz_edge /\
  ser_dtz dtz_edge = Val (SOk (SStr dtz_edge_text)) /\
  (forall fmt, de_dt_fixed (carry fmt (SStr dtz_edge_text)) = Val (SErr (EParse OutOfRange))) /\
  ser_dtz_unrepaired dtz_edge = Panic.
Proof.
  split; [vm_compute; reflexivity|]. split; [vm_compute; reflexivity|].
  split; [intros fmt; unfold carry; destruct (fmt =? 0); vm_compute; reflexivity|].
  vm_compute. reflexivity.
Qed.

(** the nanosecond modules refuse (with an error, not a trap) a date-time outside the i64 window:
    2262-04-11T23:47:16.854775808Z *)
Definition ndt_2262 : ndt := Eval vm_compute in mk_ndt (date_of 2262 4 11) (Time.mk_time 85636 854775808).
Lemma nanos_window_example :
  ts_serialize 14 ndt_2262 = Val (SErr ESerNanos) /\ ts_serialize 6 ndt_2262 = Val (SErr ESerNanos) /\
  ts_serialize_option 15 (Some ndt_2262) = Val (SErr ESerNanos) /\
  ts_serialize 12 ndt_2262 = Val (SOk (SI64 9223372036854775)) /\
  ts_deserialize 14 (SU64 9223372036854775808) = Val (SOk ndt_2262) /\
  ts_deserialize 8 (SU64 9223372036854775808) = Val (SErr (EInvalidTs 9223372036854775808)).
Proof. vm_compute. repeat split. Qed.
