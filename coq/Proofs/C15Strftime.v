(** C15 -- the slice-safety invariant of the format-string iterator (src/format/strftime.rs).
    Every [&s[i..]] / [&s[..i]] of StrftimeItems::next / parse_next_item / error() is taken at a
    character boundary of the well-formed input, every index arithmetic step stays inside usize, the
    [assert!(nextspec > 0)] cannot fail: for EVERY well-formed UTF-8 format string, strict or lenient,
    the iterator never traps.  Together with C12_strftime_terminates (it ends, <= 13 items per byte)
    this makes StrftimeItems::parse / parse_to_owned / count total. *)
From Coq Require Import ZArith List Bool Lia ZifyBool.
From V Require Import Base.Int Base.IO Model.Items Gen.Strftime Model.Strftime.
Import ListNotations.
Open Scope Z_scope.
Ltac Zify.zify_post_hook ::= Z.to_euclidean_division_equations.

Notation valid := utf8_valid.

(** * well-formed strings: concatenation, boundaries, slices *)
Lemma blen_app a b : blen (a ++ b) = blen a + blen b.
Proof. unfold blen. rewrite app_length. lia. Qed.
Lemma blen_nonneg s : 0 <= blen s. Proof. unfold blen. lia. Qed.
Lemma blen_cons c s : blen (c :: s) = 1 + blen s.
Proof. unfold blen. cbn [List.length]. lia. Qed.

(* a well-formed string does not start with a continuation byte *)
Definition starts_ok (s : bytes) : bool := match s with [] => true | b :: _ => negb (is_cont b) end.
Lemma valid_starts_ok s : valid s = true -> starts_ok s = true.
Proof.
  destruct s as [|b r]; [reflexivity|]. cbn [utf8_valid starts_ok]. unfold is_cont. intros H.
  destruct ((0 <=? b) && (b <? 128)) eqn:E1; [lia|].
  destruct ((194 <=? b) && (b <? 224)) eqn:E2; [lia|].
  destruct ((224 <=? b) && (b <? 240)) eqn:E3; [lia|].
  destruct ((240 <=? b) && (b <? 245)) eqn:E4; [lia|discriminate].
Qed.

(* the first character of a non-empty well-formed string *)
Inductive first_char (s : bytes) : Prop :=
| FC (c r : bytes) (x : Z) (Hs : s = c ++ r) (Hc : valid c = true) (Hr : valid r = true)
     (Hx : next_char s = Some x) (Hl : len_utf8 x = blen c) (Hx0 : 0 <= x) (Hasc : x < 128 -> c = [x]).
Lemma land_31 x : Z.land x 31 = x mod 32.
Proof. change 31 with (Z.ones 5). rewrite Z.land_ones by lia. reflexivity. Qed.
Lemma land_63 x : Z.land x 63 = x mod 64.
Proof. change 63 with (Z.ones 6). rewrite Z.land_ones by lia. reflexivity. Qed.
Lemma land_15 x : Z.land x 15 = x mod 16.
Proof. change 15 with (Z.ones 4). rewrite Z.land_ones by lia. reflexivity. Qed.
Lemma land_7 x : Z.land x 7 = x mod 8.
Proof. change 7 with (Z.ones 3). rewrite Z.land_ones by lia. reflexivity. Qed.

Lemma valid_first b r : valid (b :: r) = true -> first_char (b :: r).
Proof.
  cbn [utf8_valid]. intros H.
  destruct ((0 <=? b) && (b <? 128)) eqn:E1.
  { apply (FC (b :: r) [b] r b); try reflexivity; try lia.
    - cbn [utf8_valid]. rewrite E1. reflexivity.
    - exact H.
    - cbn [next_char]. replace (b <? 128) with true by lia. reflexivity.
    - unfold len_utf8. replace (b <? 128) with true by lia. reflexivity. }
  destruct ((194 <=? b) && (b <? 224)) eqn:E2.
  { destruct r as [|b1 r']; [discriminate|]. apply andb_prop in H. destruct H as [H1 Hr]. unfold is_cont in H1.
    apply (FC _ [b; b1] r' (Z.land b 31 * 64 + Z.land b1 63)); try reflexivity.
    - cbn [utf8_valid]. rewrite E1, E2. unfold is_cont. rewrite H1. reflexivity.
    - exact Hr.
    - cbn [next_char nth_z_aux cont_bits]. replace (b <? 128) with false by lia. replace (b <? 224) with true by lia. reflexivity.
    - rewrite land_31, land_63. unfold len_utf8, blen. cbn [List.length].
      replace (b mod 32 * 64 + b1 mod 64 <? 128) with false by lia. replace (b mod 32 * 64 + b1 mod 64 <? 2048) with true by lia. reflexivity.
    - rewrite land_31, land_63. lia.
    - rewrite land_31, land_63. lia. }
  destruct ((224 <=? b) && (b <? 240)) eqn:E3.
  { destruct r as [|b1 [|b2 r']]; try discriminate.
    apply andb_prop in H. destruct H as [H Hr]. apply andb_prop in H. destruct H as [H H4].
    apply andb_prop in H. destruct H as [H H3]. apply andb_prop in H. destruct H as [H1 H2]. unfold is_cont in H1, H2.
    apply (FC _ [b; b1; b2] r' (Z.land b 15 * 4096 + Z.land b1 63 * 64 + Z.land b2 63)); try reflexivity.
    - cbn [utf8_valid]. rewrite E1, E2, E3. unfold is_cont. rewrite H1, H2, H3, H4. reflexivity.
    - exact Hr.
    - cbn [next_char nth_z_aux cont_bits]. replace (b <? 128) with false by lia. replace (b <? 224) with false by lia.
      replace (b <? 240) with true by lia. reflexivity.
    - rewrite land_15, !land_63. unfold len_utf8, blen. cbn [List.length].
      assert (2048 <= b mod 16 * 4096 + b1 mod 64 * 64 + b2 mod 64 < 65536).
      { destruct (b =? 224) eqn:Eb; lia. }
      replace (_ <? 128) with false by lia. replace (_ <? 2048) with false by lia. replace (_ <? 65536) with true by lia. reflexivity.
    - rewrite land_15, !land_63. lia.
    - rewrite land_15, !land_63. destruct (b =? 224) eqn:Eb; lia. }
  destruct ((240 <=? b) && (b <? 245)) eqn:E4; [|discriminate].
  destruct r as [|b1 [|b2 [|b3 r']]]; try discriminate.
  apply andb_prop in H. destruct H as [H Hr]. apply andb_prop in H. destruct H as [H H5].
  apply andb_prop in H. destruct H as [H H4]. apply andb_prop in H. destruct H as [H H3].
  apply andb_prop in H. destruct H as [H1 H2]. unfold is_cont in H1, H2, H3.
  apply (FC _ [b; b1; b2; b3] r' (Z.land b 7 * 262144 + Z.land b1 63 * 4096 + Z.land b2 63 * 64 + Z.land b3 63)); try reflexivity.
  - cbn [utf8_valid]. rewrite E1, E2, E3, E4. unfold is_cont. rewrite H1, H2, H3, H4, H5. reflexivity.
  - exact Hr.
  - cbn [next_char nth_z_aux cont_bits]. replace (b <? 128) with false by lia. replace (b <? 224) with false by lia.
    replace (b <? 240) with false by lia. reflexivity.
  - rewrite land_7, !land_63. unfold len_utf8, blen. cbn [List.length].
    assert (65536 <= b mod 8 * 262144 + b1 mod 64 * 4096 + b2 mod 64 * 64 + b3 mod 64).
    { destruct (b =? 240) eqn:Eb; lia. }
    replace (_ <? 128) with false by lia. replace (_ <? 2048) with false by lia. replace (_ <? 65536) with false by lia. reflexivity.
  - rewrite land_7, !land_63. lia.
  - rewrite land_7, !land_63. destruct (b =? 240) eqn:Eb; lia.
Qed.

Lemma valid_app_aux b : forall n a, (List.length a <= n)%nat -> valid a = true -> valid (a ++ b) = valid b.
Proof.
  induction n as [|n IH]; intros a Hn Ha.
  - destruct a; [reflexivity|cbn in Hn; lia].
  - destruct a as [|b0 r]; [reflexivity|]. cbn [app]. cbn [utf8_valid] in Ha |- *.
    destruct ((0 <=? b0) && (b0 <? 128)) eqn:E1.
    { apply IH; [cbn in Hn; lia|exact Ha]. }
    destruct ((194 <=? b0) && (b0 <? 224)) eqn:E2.
    { destruct r as [|b1 r']; [discriminate|]. cbn [app]. apply andb_prop in Ha. destruct Ha as [H1 Hr]. rewrite H1. cbn [andb].
      apply IH; [cbn in Hn; lia|exact Hr]. }
    destruct ((224 <=? b0) && (b0 <? 240)) eqn:E3.
    { destruct r as [|b1 [|b2 r']]; try discriminate. cbn [app].
      apply andb_prop in Ha. destruct Ha as [Ha Hr]. rewrite Ha. cbn [andb]. apply IH; [cbn in Hn; lia|exact Hr]. }
    destruct ((240 <=? b0) && (b0 <? 245)) eqn:E4; [|discriminate].
    destruct r as [|b1 [|b2 [|b3 r']]]; try discriminate. cbn [app].
    apply andb_prop in Ha. destruct Ha as [Ha Hr]. rewrite Ha. cbn [andb]. apply IH; [cbn in Hn; lia|exact Hr].
Qed.
Lemma valid_app a b : valid a = true -> valid (a ++ b) = valid b.
Proof. intros H. apply (valid_app_aux b (List.length a) a); [lia|exact H]. Qed.
Lemma valid_app_true a b : valid a = true -> valid b = true -> valid (a ++ b) = true.
Proof. intros Ha Hb. rewrite valid_app by exact Ha. exact Hb. Qed.

Lemma nth_z_aux_app {A} (a : list A) : forall b, nth_z_aux (a ++ b) (List.length a) = nth_z_aux b 0.
Proof. induction a as [|x a IH]; intros b; [reflexivity|]. cbn [app List.length nth_z_aux]. apply IH. Qed.
Lemma boundary_app a b : starts_ok b = true -> is_char_boundary (a ++ b) (blen a) = true.
Proof.
  intros Hb. unfold is_char_boundary. destruct (blen a =? 0) eqn:E0; [reflexivity|].
  pose proof (blen_nonneg a). replace (blen a <? 0) with false by lia.
  unfold blen at 1. rewrite Nat2Z.id, nth_z_aux_app. destruct b as [|c r]; cbn [nth_z_aux].
  - rewrite app_nil_r. apply Z.eqb_refl.
  - exact Hb.
Qed.
Lemma str_from_app a b : valid b = true -> str_from (a ++ b) (blen a) = Val b.
Proof.
  intros Hb. unfold str_from. rewrite boundary_app by (apply valid_starts_ok; exact Hb).
  unfold blen. rewrite Nat2Z.id. rewrite skipn_app, skipn_all, Nat.sub_diag. reflexivity.
Qed.
Lemma str_to_app a b : valid b = true -> str_to (a ++ b) (blen a) = Val a.
Proof.
  intros Hb. unfold str_to. rewrite boundary_app by (apply valid_starts_ok; exact Hb).
  unfold blen. rewrite Nat2Z.id. rewrite firstn_app, firstn_all, Nat.sub_diag. cbn [firstn]. rewrite app_nil_r. reflexivity.
Qed.
Lemma first_char_nonempty s : valid s = true -> s <> [] -> first_char s.
Proof. destruct s as [|b r]; [congruence|]. intros H _. apply valid_first. exact H. Qed.
Lemma next_char_none s : next_char s = None -> s = [].
Proof.
  destruct s as [|b r]; [reflexivity|]. cbn [next_char].
  destruct (b <? 128); [discriminate|]. destruct (b <? 224); [discriminate|]. destruct (b <? 240); discriminate.
Qed.
Lemma len_utf8_range c : 1 <= len_utf8 c <= 4.
Proof. unfold len_utf8. destruct (c <? 128); [lia|]. destruct (c <? 2048); [lia|]. destruct (c <? 65536); lia. Qed.

(** * str::find over a well-formed string returns a character boundary *)
Lemma find_skip p : forall l r pos, find_char_aux p (l ++ r) (List.length l) pos = find_char_aux p r 0 (pos + blen l).
Proof.
  induction l as [|x l IH]; intros r pos.
  - cbn [app List.length]. unfold blen. cbn [List.length]. rewrite Z.add_0_r. reflexivity.
  - cbn [app List.length find_char_aux]. rewrite IH. rewrite blen_cons. f_equal. lia.
Qed.
Lemma find_char_split p : forall n s pos, (List.length s <= n)%nat -> valid s = true ->
  match find_char_aux p s 0 pos with
  | Some i => exists a b x, s = a ++ b /\ valid a = true /\ valid b = true /\ i = pos + blen a /\
                            next_char b = Some x /\ p x = true
  | None => True
  end.
Proof.
  induction n as [|n IH]; intros s pos Hn Hs.
  - destruct s; [exact I|cbn in Hn; lia].
  - destruct s as [|b0 r]; [exact I|].
    destruct (valid_first b0 r Hs) as [c r' x Es Hc Hr Hx Hl Hx0 Hasc].
    cbn [find_char_aux]. rewrite Hx. destruct (p x) eqn:Ep.
    + exists [], (b0 :: r), x. cbn [app]. unfold blen at 1. cbn [List.length]. repeat split; try assumption; try reflexivity; lia.
    + destruct c as [|c0 c']; [pose proof (len_utf8_range x); unfold blen in Hl; cbn in Hl; lia|].
      cbn [app] in Es. injection Es as -> ->.
      replace (Z.to_nat (len_utf8 x) - 1)%nat with (List.length c') by (rewrite Hl, blen_cons; unfold blen; lia).
      rewrite find_skip.
      assert (Hn' : (List.length r' <= n)%nat) by (cbn in Hn; rewrite app_length in Hn; lia).
      specialize (IH r' (pos + 1 + blen c') Hn' Hr).
      destruct (find_char_aux p r' 0 (pos + 1 + blen c')) as [i|]; [|exact I].
      destruct IH as (a & b & y & -> & Ha & Hb & Hi & Hy & Hpy).
      exists ((c0 :: c') ++ a), b, y. rewrite <- app_assoc. cbn [app]. repeat split; try assumption.
      * change (c0 :: c' ++ a) with ((c0 :: c') ++ a). apply valid_app_true; assumption.
      * change (c0 :: c' ++ a) with ((c0 :: c') ++ a). rewrite blen_app, blen_cons. lia.
Qed.
(* the slices [..nextspec] / [nextspec..] of a literal / white-space run, and [assert!(nextspec > 0)] *)
Lemma run_split p s : valid s = true -> s <> [] ->
  (forall x, next_char s = Some x -> p x = false) ->
  let nextspec := match find_char p s with Some i => i | None => blen s end in
  exists a b, s = a ++ b /\ valid a = true /\ valid b = true /\ nextspec = blen a /\ 0 < nextspec /\ blen b < blen s.
Proof.
  intros Hs Hne Hfirst. unfold find_char.
  pose proof (find_char_split p (List.length s) s 0 (le_n _) Hs) as H.
  destruct (find_char_aux p s 0 0) as [i|].
  - destruct H as (a & b & x & -> & Ha & Hb & Hi & Hx & Hp). cbv zeta.
    destruct a as [|a0 a'].
    + cbn [app] in *. rewrite (Hfirst x Hx) in Hp. discriminate.
    + exists (a0 :: a'), b. rewrite blen_app, blen_cons in *. pose proof (blen_nonneg a'). repeat split; try assumption; lia.
  - cbv zeta. exists s, []. rewrite app_nil_r. destruct s as [|s0 s']; [congruence|].
    repeat split; try assumption; try reflexivity; unfold blen; cbn [List.length]; lia.
Qed.

(** * one format specifier: [parse_spec] and its helpers *)
Lemma strip_prefix_app p : forall s r, strip_prefix p s = Some r -> s = p ++ r.
Proof.
  induction p as [|x p IH]; intros s r H; cbn [strip_prefix] in H.
  - injection H as ->. reflexivity.
  - destruct s as [|y s']; [discriminate|]. destruct (x =? y) eqn:E; [|discriminate].
    apply IH in H. subst s'. assert (x = y) by lia. subst y. reflexivity.
Qed.
Definition ascii (s : bytes) : bool := forallb (fun c => (0 <=? c) && (c <? 128)) s.
Lemma ascii_valid s : ascii s = true -> valid s = true.
Proof.
  induction s as [|c s IH]; [reflexivity|]. unfold ascii. cbn [forallb utf8_valid]. intros H.
  apply andb_prop in H. destruct H as [Hc Hs]. rewrite Hc. apply IH. exact Hs.
Qed.
(* the literal prefixes matched by the [%:..z] arms are ASCII (checked on the translated table) *)
Fixpoint arm_ok (a : sf_arm) : bool :=
  match a with
  | ArmPrefixes l => forallb (fun pi => ascii (fst pi)) l
  | ArmNext l => (fix go (l : list (Z * sf_arm)) : bool := match l with [] => true | (_, s) :: r => arm_ok s && go r end) l
  | _ => true
  end.
Lemma arms_ok : forallb (fun ca => arm_ok (snd ca)) SF_ARMS = true.
Proof. vm_compute. reflexivity. Qed.
Lemma assoc_arm_ok c a : assoc c SF_ARMS = Some a -> arm_ok a = true.
Proof.
  pose proof arms_ok as H. revert H. generalize SF_ARMS. induction l as [|[k v] l IH]; cbn [assoc forallb snd]; [discriminate|].
  intros H E. apply andb_prop in H. destruct H as [H1 H2]. destruct (c =? k); [injection E as <-; exact H1|exact (IH H2 E)].
Qed.

Section Spec.
  Variable lenient : bool.
  Variable original : bytes.
  Hypothesis Horig : valid original = true.
  Hypothesis Hlen : blen original <= u64_max.

  (* what is handed on: a well-formed string no longer than the input of this step *)
  Definition wf_short (rm : bytes) : Prop := valid rm = true /\ blen rm <= blen original.
  (* [fresh pre rem el]: [rem] is what is left of [original] after the consumed prefix [pre], and (lenient
     mode) the error length counts exactly the consumed bytes; [stale rem el]: the error length still
     points at SOME character boundary of [original] (it is not advanced by the [%:..z] prefix matches) *)
  Definition fresh (pre rem : bytes) (el : Z) : Prop :=
    wf_short rem /\ (if lenient then original = pre ++ rem /\ valid pre = true /\ el = blen pre else el = 0).
  Definition stale (rem : bytes) (el : Z) : Prop :=
    wf_short rem /\
    (if lenient then exists pe re, original = pe ++ re /\ valid pe = true /\ valid re = true /\ el = blen pe else el = 0).
  Lemma fresh_stale pre rem el : fresh pre rem el -> stale rem el.
  Proof. unfold fresh, stale. intros [Hr H]. split; [exact Hr|]. destruct lenient; [|exact H]. destruct H as (E & Hp & He). exists pre, rem. destruct Hr. tauto. Qed.

  Lemma in_usize_le z : 0 <= z <= blen original -> in_usize z = true.
  Proof. intros H. unfold in_usize, in_u64, in_range, u64_max in *. lia. Qed.
  Lemma wf_short_nil : wf_short [].
  Proof. split; [reflexivity|]. unfold blen at 1. cbn [List.length]. apply blen_nonneg. Qed.
  Lemma wf_short_orig : wf_short original.
  Proof. split; [exact Horig|lia]. Qed.
  Lemma str_from_0 : str_from original 0 = Val original.
  Proof. change original with ([] ++ original) at 1. change 0 with (blen []). apply str_from_app. exact Horig. Qed.

  (* error(): strict mode never looks at the character; lenient mode slices at the error length *)
  Lemma sf_error_strict ch : lenient = false ->
    exists el' rm it, sf_error lenient original 0 ch = Val (el', (rm, it)) /\ stale rm el'.
  Proof.
    intros El. unfold sf_error. rewrite El. cbn [negb]. destruct SF_ERROR_CONSUMES.
    - do 3 eexists. split; [reflexivity|]. split; [exact wf_short_nil|]. rewrite El. reflexivity.
    - rewrite str_from_0. cbn [bind]. do 3 eexists. split; [reflexivity|]. split; [exact wf_short_orig|]. rewrite El. reflexivity.
  Qed.
  Lemma sf_error_none rem el : stale rem el ->
    exists el' rm it, sf_error lenient original el None = Val (el', (rm, it)) /\ stale rm el'.
  Proof.
    intros [Hr H]. destruct lenient eqn:El.
    - unfold sf_error. cbn [negb bind]. destruct H as (pe & re & E & Hp & Hre & ->).
      rewrite E, str_from_app, str_to_app by exact Hre. cbn [bind].
      do 3 eexists. split; [reflexivity|]. split.
      + split; [exact Hre|]. rewrite E, !blen_app. pose proof (blen_nonneg pe). lia.
      + rewrite El. exists pe, re. tauto.
    - subst el. pose proof (sf_error_strict None El) as X. rewrite El in X. exact X.
  Qed.
  Lemma sf_error_some pre cb rem el c : fresh (pre ++ cb) rem el -> (lenient = true -> valid pre = true) ->
    valid cb = true -> len_utf8 c = blen cb ->
    exists el' rm it, sf_error lenient original el (Some c) = Val (el', (rm, it)) /\ stale rm el'.
  Proof.
    intros [[Hr Hsh] H] Hp Hc Hl. destruct lenient eqn:El.
    - specialize (Hp eq_refl). unfold sf_error. cbn [negb].
      destruct H as (E & _ & ->). rewrite blen_app, Hl. unfold sub_usize, chk.
      replace (blen pre + blen cb - blen cb) with (blen pre) by lia.
      rewrite in_usize_le by (rewrite E, !blen_app; pose proof (blen_nonneg pre); pose proof (blen_nonneg cb); pose proof (blen_nonneg rem); lia).
      cbn [bind]. assert (E' : original = pre ++ (cb ++ rem)) by (rewrite E, app_assoc; reflexivity).
      assert (Hv : valid (cb ++ rem) = true) by (apply valid_app_true; assumption).
      rewrite E', str_from_app, str_to_app by exact Hv. cbn [bind].
      do 3 eexists. split; [reflexivity|]. split.
      + split; [exact Hv|]. rewrite E', !blen_app. pose proof (blen_nonneg pre). lia.
      + rewrite El. exists pre, (cb ++ rem). tauto.
    - subst el. pose proof (sf_error_strict (Some c) El) as X. rewrite El in X. exact X.
  Qed.

  (* macro next!() *)
  Lemma sf_next_char_ok pre rem el : fresh pre rem el ->
    (exists rm it, sf_next_char lenient original rem el = Val (inl (rm, it)) /\ wf_short rm) \/
    (exists x rm el' cb, sf_next_char lenient original rem el = Val (inr (x, rm, el')) /\
       rem = cb ++ rm /\ valid cb = true /\ len_utf8 x = blen cb /\ fresh (pre ++ cb) rm el').
  Proof.
    intros Hf. pose proof Hf as [[Hr Hsh] H]. unfold sf_next_char. destruct (next_char rem) as [x|] eqn:Ex.
    - right. assert (Hne : rem <> []) by (intros ->; discriminate).
      destruct (first_char_nonempty rem Hr Hne) as [cb rm x' Es Hc Hrm Hx' Hl _ _]. rewrite Ex in Hx'. injection Hx' as <-.
      rewrite Hl. subst rem. rewrite str_from_app by exact Hrm. cbn [bind].
      assert (Hsh' : wf_short rm) by (split; [exact Hrm|rewrite blen_app in Hsh; pose proof (blen_nonneg cb); lia]).
      destruct lenient eqn:El.
      + destruct H as (E & Hp & ->). unfold add_usize, chk.
        rewrite in_usize_le by (rewrite E, !blen_app; pose proof (blen_nonneg pre); pose proof (blen_nonneg cb); pose proof (blen_nonneg rm); lia).
        cbn [bind]. exists x, rm, (blen pre + blen cb), cb. repeat split; try assumption; try reflexivity; try apply Hsh'.
        rewrite El. rewrite <- app_assoc, blen_app. repeat split; try assumption; try reflexivity. apply valid_app_true; assumption.
      + cbn [bind]. exists x, rm, el, cb. repeat split; try assumption; try reflexivity; try apply Hsh'. rewrite El. exact H.
    - left. apply next_char_none in Ex. subst rem.
      destruct (sf_error_none [] el (fresh_stale _ _ _ Hf)) as (el' & rm & it & E & [Hv _]). rewrite E. cbn [bind].
      exists rm, it. split; [reflexivity|exact Hv].
  Qed.
  Lemma fresh_pre_valid pre rem el : fresh pre rem el -> lenient = true -> valid pre = true.
  Proof. intros [_ H] El. rewrite El in H. tauto. Qed.

  (* one arm of [match spec]: never a trap; what it hands on is well-formed and the error length is
     still a boundary *)
  Definition arm_res_ok (r : arm_res) : Prop :=
    match r with
    | ARet (rm, _) _ => wf_short rm
    | ACont _ rm el _ => stale rm el
    end.
  Fixpoint arm_size (a : sf_arm) : nat :=
    match a with
    | ArmNext l => S ((fix go (l : list (Z * sf_arm)) : nat := match l with [] => O | (_, s) :: r => (arm_size s + go r)%nat end) l)
    | _ => 1%nat
    end.
  Definition subs_size (l : list (Z * sf_arm)) : nat :=
    (fix go (l : list (Z * sf_arm)) : nat := match l with [] => O | (_, s) :: r => (arm_size s + go r)%nat end) l.
  Definition subs_ok (l : list (Z * sf_arm)) : bool :=
    (fix go (l : list (Z * sf_arm)) : bool := match l with [] => true | (_, s) :: r => arm_ok s && go r end) l.
  Lemma run_arm_ok_n alt : forall n a pre rem el q, (arm_size a <= n)%nat -> arm_ok a = true -> fresh pre rem el ->
    exists r, run_arm lenient alt original a rem el q = Val r /\ arm_res_ok r.
  Proof.
    induction n as [|n IH]; intros a pre rem el q Hn Ha Hf.
    { destruct a; cbn [arm_size] in Hn; lia. }
    destruct a as [i|h t|ia ip|l|l]; cbn [run_arm].
    - eexists. split; [reflexivity|]. exact (fresh_stale _ _ _ Hf).
    - eexists. split; [reflexivity|]. exact (fresh_stale _ _ _ Hf).
    - eexists. split; [reflexivity|]. exact (fresh_stale _ _ _ Hf).
    - cbn [arm_ok] in Ha. clear Hn. induction l as [|[p it] l IHl].
      + destruct (sf_error_none rem el (fresh_stale _ _ _ Hf)) as (el' & rm & it & E & Hs). rewrite E. cbn [bind].
        eexists. split; [reflexivity|]. destruct Hf as [Hr _]. destruct Hs as [_ Hs]. split; assumption.
      + cbn [forallb fst] in Ha. apply andb_prop in Ha. destruct Ha as [Hpa Hl].
        destruct (strip_prefix p rem) as [r'|] eqn:Es; [|exact (IHl Hl)].
        apply strip_prefix_app in Es. pose proof Hf as [[Hr Hsh] Hrest]. subst rem.
        assert (Hr' : valid r' = true) by (rewrite valid_app in Hr by (apply ascii_valid; exact Hpa); exact Hr).
        rewrite str_from_app by exact Hr'. cbn [bind]. eexists. split; [reflexivity|].
        split; [split; [exact Hr'|rewrite blen_app in Hsh; pose proof (blen_nonneg p); lia]|].
        destruct (fresh_stale _ _ _ Hf) as [_ Hst]. exact Hst.
    - destruct (sf_next_char_ok pre rem el Hf) as [(rm & it & E & Hv)|(x & rm & el' & cb & E & Er & Hcb & Hl & Hf')].
      + rewrite E. cbn [bind]. eexists. split; [reflexivity|]. exact Hv.
      + rewrite E. cbn [bind]. change (arm_ok (ArmNext l)) with (subs_ok l) in Ha.
        assert (Hsz : (subs_size l <= n)%nat) by (cbn [arm_size] in Hn; unfold subs_size; lia). clear Hn.
        induction l as [|[c sub] l IHl].
        * destruct (sf_error_some pre cb rm el' x Hf' (fresh_pre_valid _ _ _ Hf) Hcb Hl) as (el2 & rm2 & it2 & E2 & Hs). rewrite E2. cbn [bind].
          eexists. split; [reflexivity|]. exact Hs.
        * cbn [subs_ok] in Ha. apply andb_prop in Ha. destruct Ha as [Hsub Hl'].
          cbn [subs_size] in Hsz. fold (subs_size l) in Hsz.
          destruct (x =? c); [|apply IHl; [exact Hl'|lia]].
          apply (IH sub (pre ++ cb) rm el' q); [lia|exact Hsub|exact Hf'].
  Qed.
  Lemma run_arm_ok alt a pre rem el q : arm_ok a = true -> fresh pre rem el ->
    exists r, run_arm lenient alt original a rem el q = Val r /\ arm_res_ok r.
  Proof. apply (run_arm_ok_n alt (arm_size a)). lia. Qed.

  (* the [Some('%')] branch of parse_next_item *)
  Lemma parse_spec_ok q rest : original = 37 :: rest ->
    exists rm it q', parse_spec lenient q original = Val (Some (rm, it), q') /\ wf_short rm.
  Proof.
    intros Eo. assert (Hrest : valid rest = true).
    { pose proof Horig as H. rewrite Eo in H. cbn [utf8_valid] in H. exact H. }
    unfold parse_spec. replace (str_from original 1) with (Val rest).
    2:{ rewrite Eo. change (37 :: rest) with ([37] ++ rest). change 1 with (blen [37]). symmetry. apply str_from_app. exact Hrest. }
    cbn [bind].
    assert (Hel : exists el, (if lenient then add_usize 0 1 else Val 0) = Val el /\ fresh [37] rest el).
    { assert (Hsh : wf_short rest) by (split; [exact Hrest|rewrite Eo, blen_cons; lia]).
      destruct lenient eqn:El.
      - exists 1. split; [unfold add_usize, chk; rewrite in_usize_le by (rewrite Eo, blen_cons; pose proof (blen_nonneg rest); lia); reflexivity|].
        split; [exact Hsh|]. rewrite El. split; [exact Eo|]. split; reflexivity.
      - exists 0. split; [reflexivity|]. split; [exact Hsh|]. rewrite El. reflexivity. }
    destruct Hel as (el & -> & Hf). cbn [bind].
    destruct (sf_next_char_ok [37] rest el Hf) as [(rm & it & E & Hv)|(spec & rm & el' & cb & E & Er & Hcb & Hl & Hf')].
    { rewrite E. cbn [bind]. do 3 eexists. split; [reflexivity|exact Hv]. }
    rewrite E. cbn [bind].
    (* after the optional second next!() *)
    assert (Hn2 : forall (cnd : bool),
      (exists rm2 it2, (if cnd then sf_next_char lenient original rm el' else Val (inr (spec, rm, el'))) = Val (inl (rm2, it2)) /\ wf_short rm2) \/
      (exists spec2 rm2 el2 pre2 cb2, (if cnd then sf_next_char lenient original rm el' else Val (inr (spec, rm, el'))) = Val (inr (spec2, rm2, el2)) /\
         valid cb2 = true /\ len_utf8 spec2 = blen cb2 /\ fresh (pre2 ++ cb2) rm2 el2 /\ (lenient = true -> valid pre2 = true))).
    { intros [|].
      - destruct (sf_next_char_ok _ rm el' Hf') as [(rm2 & it2 & E2 & Hv2)|(x2 & rm2 & el2 & cb2 & E2 & Er2 & Hcb2 & Hl2 & Hf2)].
        + left. eauto.
        + right. exists x2, rm2, el2, ([37] ++ cb), cb2. split; [exact E2|]. split; [exact Hcb2|]. split; [exact Hl2|]. split; [exact Hf2|exact (fresh_pre_valid _ _ _ Hf')].
      - right. exists spec, rm, el', [37], cb. split; [reflexivity|]. split; [exact Hcb|]. split; [exact Hl|]. split; [exact Hf'|intros _; reflexivity]. }
    destruct (Hn2 (is_some (assoc spec SF_PAD_OVERRIDE) || (spec =? SF_ALT_CHAR))) as [(rm2 & it2 & E2 & Hv2)|(spec2 & rm2 & el2 & pre2 & cb2 & E2 & Hcb2 & Hl2 & Hf2 & Hp2)];
      rewrite E2; cbn [bind].
    { do 3 eexists. split; [reflexivity|exact Hv2]. }
    destruct ((spec =? SF_ALT_CHAR) && negb (contains_char SF_HAVE_ALTERNATES spec2)).
    { destruct (sf_error_some pre2 cb2 rm2 el2 spec2 Hf2 Hp2 Hcb2 Hl2) as (e3 & rm3 & it3 & E3 & [Hv3 _]). rewrite E3. cbn [bind].
      do 3 eexists. split; [reflexivity|exact Hv3]. }
    assert (Har : exists ar, (match assoc spec2 SF_ARMS with
                  | Some arm => run_arm lenient (spec =? SF_ALT_CHAR) original arm rm2 el2 q
                  | None => let* '(el, (rm, it)) := sf_error lenient original el2 (Some spec2) in Val (ACont it rm el q)
                  end) = Val ar /\ arm_res_ok ar).
    { destruct (assoc spec2 SF_ARMS) as [arm|] eqn:Ea.
      - apply (run_arm_ok _ arm (pre2 ++ cb2)); [exact (assoc_arm_ok _ _ Ea)|exact Hf2].
      - destruct (sf_error_some pre2 cb2 rm2 el2 spec2 Hf2 Hp2 Hcb2 Hl2) as (e3 & rm3 & it3 & E3 & Hs3). rewrite E3. cbn [bind].
        eexists. split; [reflexivity|exact Hs3]. }
    destruct Har as (ar & -> & Hok). cbn [bind].
    destruct ar as [[rm3 it3] q3|item rm3 el3 q3]; cbn [arm_res_ok] in Hok.
    { do 3 eexists. split; [reflexivity|exact Hok]. }
    assert (Herr : exists rm4 it4, (let* '(_, res) := sf_error lenient original el3 None in Val (Some res, q3)) = Val (Some (rm4, it4), q3) /\ wf_short rm4).
    { destruct (sf_error_none rm3 el3 Hok) as (e4 & rm4 & it4 & E4 & [Hv4 _]). rewrite E4. cbn [bind]. eauto. }
    destruct (assoc spec SF_PAD_OVERRIDE) as [new_pad|].
    - destruct item; try (destruct Herr as (rm4 & it4 & -> & Hv4); do 3 eexists; split; [reflexivity|exact Hv4]).
      destruct (is_nil q3).
      + do 3 eexists. split; [reflexivity|exact (proj1 Hok)].
      + destruct Herr as (rm4 & it4 & -> & Hv4). do 3 eexists. split; [reflexivity|exact Hv4].
    - do 3 eexists. split; [reflexivity|exact (proj1 Hok)].
  Qed.
End Spec.

(** * parse_next_item, next(), and the drained iterator *)
Definition rem_ok (s : bytes) : Prop := valid s = true /\ blen s <= u64_max.

Lemma parse_next_item_ok lenient q r : rem_ok r ->
  (exists q', parse_next_item lenient q r = Val (None, q')) \/
  (exists rm it q', parse_next_item lenient q r = Val (Some (rm, it), q') /\ rem_ok rm).
Proof.
  intros [Hv Hl]. unfold parse_next_item. destruct (next_char r) as [c0|] eqn:Ec.
  2:{ left. eauto. }
  right. assert (Hne : r <> []) by (intros ->; discriminate).
  destruct (c0 =? 37) eqn:E37.
  - destruct (first_char_nonempty r Hv Hne) as [c r' x Es Hc Hr' Hx _ _ Hasc]. rewrite Ec in Hx. injection Hx as <-.
    assert (c0 = 37) by lia. subst c0. rewrite (Hasc ltac:(lia)) in Es. cbn [app] in Es.
    destruct (parse_spec_ok lenient r Hv Hl q r' Es) as (rm & it & q' & E & [Hvr Hsr]). rewrite E.
    exists rm, it, q'. split; [reflexivity|]. split; [exact Hvr|lia].
  - destruct (is_whitespace c0) eqn:Ew.
    + destruct (run_split (fun c => negb (is_whitespace c)) r Hv Hne) as (a & b & Es & Ha & Hb & En & Hpos & Hsh).
      { intros x Hx. rewrite Ec in Hx. injection Hx as <-. rewrite Ew. reflexivity. }
      cbv zeta in En. rewrite En in *. replace (0 <? blen a) with true by lia. cbn [rassert bind].
      rewrite Es, str_to_app, str_from_app by exact Hb. cbn [bind].
      do 3 eexists. split; [reflexivity|]. split; [exact Hb|]. rewrite Es in Hl. rewrite blen_app in Hl. pose proof (blen_nonneg a). lia.
    + destruct (run_split (fun c => is_whitespace c || (c =? 37)) r Hv Hne) as (a & b & Es & Ha & Hb & En & Hpos & Hsh).
      { intros x Hx. rewrite Ec in Hx. injection Hx as <-. rewrite Ew, E37. reflexivity. }
      cbv zeta in En. rewrite En in *. replace (0 <? blen a) with true by lia. cbn [rassert bind].
      rewrite Es, str_to_app, str_from_app by exact Hb. cbn [bind].
      do 3 eexists. split; [reflexivity|]. split; [exact Hb|]. rewrite Es in Hl. rewrite blen_app in Hl. pose proof (blen_nonneg a). lia.
Qed.

Lemma sf_next_ok st : rem_ok (sf_remainder st) ->
  exists o st', sf_next st = Val (o, st') /\ rem_ok (sf_remainder st').
Proof.
  intros H. unfold sf_next. destruct (sf_queue st) as [|item rest].
  - destruct (parse_next_item_ok (sf_lenient st) [] (sf_remainder st) H) as [(q' & E)|(rm & it & q' & E & Hrm)]; rewrite E; cbn [bind].
    + do 2 eexists. split; [reflexivity|]. exact H.
    + do 2 eexists. split; [reflexivity|]. exact Hrm.
  - do 2 eexists. split; [reflexivity|]. exact H.
Qed.
Lemma sf_take_no_panic : forall fuel st acc, rem_ok (sf_remainder st) -> sf_take fuel st acc <> Panic.
Proof.
  induction fuel as [|f IH]; intros st acc H; cbn [sf_take]; [discriminate|].
  destruct (sf_next_ok st H) as (o & st' & E & H'). rewrite E. cbn [bind]. destruct o as [it|]; [apply IH; exact H'|discriminate].
Qed.

(** the iterator never traps: every well-formed format string (of a length a Rust string can have),
    strict or lenient, with or without the repair of error() *)
Theorem strftime_never_panics s lenient fuel : valid s = true -> blen s <= u64_max ->
  sf_take fuel (mk_sfi s [] lenient) [] <> Panic.
Proof. intros Hv Hl. apply sf_take_no_panic. split; assumption. Qed.
