(** C11_holds: on every case line of every op of the C11 dispatcher (Model/C11.v [run]) the
    independent judge (Judge/C11.v) accepts the model's output, or the line is outside the
    property's domain (JSkip); never JBad. *)
From Coq Require Import ZArith List Bool Lia ZifyBool String.
From V Require Model.Date Model.Time Model.Parsed.
From V Require Import Base.Int Base.IntLemmas Base.IO Base.Utf8 Model.Scan Model.DateTime Model.C11
  Spec.Gregorian Spec.Rfc2822 Spec.Rfc2822Lenient Judge.C11 Proofs.HoldsLib
  Proofs.Utf8 Proofs.C08Sweeps Proofs.C08Date Proofs.C08 Proofs.Date Proofs.C04 Proofs.C11 Proofs.C11Reader Proofs.C11Write
  Proofs.C11Roundtrip Proofs.C11RoundtripThm Proofs.C11Exact.
From V Require Proofs.C13Safe Proofs.C11Total Proofs.C09Holds Judge.C09.
Import ListNotations.
Open Scope Z_scope.
Ltac Zify.zify_post_hook ::= Z.to_euclidean_division_equations.

(** a string argument has a length a Rust string can have *)
Definition args_len_ok (args : list val) : Prop :=
  match args with [VStr s] => blen s <= u64_max | _ => True end.

(** * r2.parse *)
Lemma r2_parse_not_crash s : utf8_valid s = true -> blen s <= u64_max -> is_crash (r2_parse s) = false.
Proof.
  intros Hv Hl. destruct (V.Proofs.C11Total.parse_from_rfc2822_never_panics s Hv Hl) as (r & Hp).
  unfold r2_parse. rewrite Hp. destruct r as [z|e]; reflexivity.
Qed.
Lemma is_error_perr e : is_error (VErr (perr_name e)) = true.
Proof. destruct e; reflexivity. Qed.
Lemma holds_parse s : blen s <= u64_max ->
  judge_parse s (if utf8_valid s then r2_parse s else VBad) <> JSkip ->
  judge_parse s (if utf8_valid s then r2_parse s else VBad) = JOk.
Proof.
  intros Hl. unfold judge_parse. destruct (utf8_valid s) eqn:Hv; cbn [negb]; [|congruence].
  pose proof (r2_parse_not_crash s Hv Hl) as Hnc.
  destruct (recognise s) as [f|] eqn:Hr; [|rewrite Hnc; congruence].
  destruct (valid f) eqn:Hval; cbn [negb].
  - destruct (weekday_ok f) eqn:Hw; cbn [negb].
    + destruct (representable f) eqn:Hrep; cbn [negb]; [|rewrite Hnc; congruence].
      intros _. pose proof (judge_accepts_reader s f Hv Hl Hr Hval Hrep) as J. unfold judge_parse in J.
      rewrite Hv, Hr, Hval, Hw, Hrep in J. exact J.
    + intros _. destruct (reader_rejects_on_grammar s f Hv Hl Hr) as (e & He); [rewrite Hval, Hw; reflexivity|].
      rewrite He, is_error_perr. reflexivity.
  - intros _. destruct (reader_rejects_on_grammar s f Hv Hl Hr) as (e & He); [rewrite Hval; reflexivity|].
    rewrite He, is_error_perr. reflexivity.
Qed.

(** * r2.write / r2.fmt / r2.rt *)
Lemma dec5_inv z v : dec5 z = Some v ->
  exists y o s f off, z = VTup [VInt y; VInt o; VInt s; VInt f; VInt off] /\ v = (y, o, s, f, off) /\
    year_in_range y = true /\ valid_yo y o = true /\ 0 <= s < 86400 /\ 0 <= f < 2000000000 /\ -86400 < off < 86400.
Proof.
  unfold dec5. destruct z as [| | | |l| | | |]; try discriminate.
  destruct l as [|v1 l]; try discriminate. destruct v1 as [y| | | | | | | |]; try discriminate.
  destruct l as [|v2 l]; try discriminate. destruct v2 as [o| | | | | | | |]; try discriminate.
  destruct l as [|v3 l]; try discriminate. destruct v3 as [s| | | | | | | |]; try discriminate.
  destruct l as [|v4 l]; try discriminate. destruct v4 as [f| | | | | | | |]; try discriminate.
  destruct l as [|v5 l]; try discriminate. destruct v5 as [off| | | | | | | |]; try discriminate.
  destruct l as [|v6 l]; try discriminate.
  destruct (year_in_range y && valid_yo y o && (0 <=? s) && (s <? 86400) && (0 <=? f) && (f <? 2000000000)
            && (-86400 <? off) && (off <? 86400)) eqn:E; [|discriminate].
  intros H. injection H as <-. exists y, o, s, f, off.
  do 7 (apply andb_prop in E; destruct E as [E ?]). repeat split; try reflexivity; try assumption; lia.
Qed.

(** beyond the range of dates the writer sees a sentinel date, whose year is not printable *)
Lemma sentinel_years : ~ (0 <= Date.d_year Date.D_BEFORE_MIN <= 9999) /\ ~ (0 <= Date.d_year Date.D_AFTER_MAX <= 9999).
Proof. split; vm_compute; intros [H1 H2]; try (apply H1; reflexivity); try (apply H2; reflexivity). Qed.
Lemma writer_panics_far y o d t off : repr y o d -> time_ok t -> -86400 < off < 86400 ->
  dn_in_range (wall_dn y o (Time.tsecs t) off) = false ->
  to_rfc2822 (mk_dtz (mk_ndt d t) off) = Panic.
Proof.
  intros H Ht Ho Hn. set (n := wall_dn y o (Time.tsecs t) off) in *.
  unfold to_rfc2822, overflowing_naive_local, ndt_overflowing_add_offset. cbn [dz_utc dz_off nd_time nd_date].
  rewrite overflowing_add_offset_spec by (assumption || exact Ho). cbv [bind].
  set (days := (Time.tsecs t + off) / 86400) in *.
  assert (Hd : -1 <= days <= 1) by (unfold days; destruct Ht as [Hs _]; lia).
  assert (Hn' : n = dn_of_yo y o + days) by reflexivity.
  destruct sentinel_years as [Y1 Y2].
  unfold shift_date_overflowing. destruct (days =? -1) eqn:E1.
  - rewrite (pred_opt_spec y o d H). replace (dn_of_yo y o - 1) with n by lia. rewrite Hn. cbv [date_if bind].
    rewrite write_year_guard; [reflexivity|exact Y1].
  - destruct (days =? 1) eqn:E2.
    + rewrite (succ_opt_spec y o d H). replace (dn_of_yo y o + 1) with n by lia. rewrite Hn. cbv [date_if bind].
      rewrite write_year_guard; [reflexivity|exact Y2].
    + exfalso. replace n with (dn_of_yo y o) in Hn by lia. rewrite (repr_dn_in_range y o d H) in Hn. discriminate.
Qed.

Section Writer.
  Variables y o s f off : Z.
  Hypothesis Hy : year_in_range y = true.
  Hypothesis Ho : valid_yo y o = true.
  Hypothesis Hs : 0 <= s < 86400.
  Hypothesis Hf : 0 <= f < 2000000000.
  Hypothesis Hoff : -86400 < off < 86400.
  Let z := VTup [VInt y; VInt o; VInt s; VInt f; VInt off].
  Let a := mk_dtz (mk_ndt (mkdate y o) (Time.mk_time s f)) off.

  Lemma w_dec : dec_dtz z = Some a.
  Proof.
    apply V.Proofs.C09Holds.dec_dtz_valid.
    - unfold Judge.C09.valid_date. rewrite Hy, Ho. reflexivity.
    - unfold Judge.C09.valid_time. lia.
    - unfold Judge.C09.valid_offset. lia.
  Qed.
  Lemma w_repr : repr y o (mkdate y o). Proof. apply repr_mk; assumption. Qed.
  Lemma w_time : time_ok (Time.mk_time s f). Proof. unfold time_ok. cbn [Time.tsecs Time.tfrac]. lia. Qed.

  Lemma w_panic : year_printable (y, o, s, f, off) = false -> to_rfc2822 a = Panic.
  Proof.
    intros Hp. unfold year_printable, wall_year in Hp.
    destruct (dn_in_range (wall_dn y o s off)) eqn:En.
    - apply (writer_panics y o (mkdate y o) (Time.mk_time s f) off w_repr w_time Hoff); cbn [Time.tsecs]; [exact En|lia].
    - apply (writer_panics_far y o (mkdate y o) (Time.mk_time s f) off w_repr w_time Hoff). cbn [Time.tsecs]. exact En.
  Qed.

  Hypothesis Hdom : in_writer_domain (y, o, s, f, off) = true.
  Hypothesis Hprint : year_printable (y, o, s, f, off) = true.
  Lemma w_min : off mod 60 = 0. Proof. unfold in_writer_domain in Hdom. lia. Qed.
  Lemma w_leap : f < 1000000000 \/ s mod 60 = 59. Proof. unfold in_writer_domain in Hdom. lia. Qed.
  Lemma w_year : 0 <= fst (yo_of_dn (wall_dn y o s off)) <= 9999.
  Proof. unfold year_printable, wall_year in Hprint. lia. Qed.

  Lemma w_text : judge_text (y, o, s, f, off) (standard_text false y o s f off) = JOk.
  Proof.
    unfold judge_text. rewrite hl_bytes_eqb_refl. cbn [orb negb].
    rewrite (recognise_standard y o s f off Hs Hf w_leap Hoff w_min w_year).
    destruct (standard_valid y o s f off Ho Hy Hs Hf w_leap Hoff w_min w_year) as (Hval & Hwd & Hrep).
    rewrite Hval, Hwd, Hrep. cbn [andb negb f_wd].
    rewrite (standard_denotes y o s f off Ho Hs Hf w_leap Hoff w_min w_year).
    apply hl_judge_eq_of. reflexivity.
  Qed.
  Lemma w_write : val_of_R VStr (to_rfc2822 a) = VStr (standard_text false y o s f off).
  Proof.
    apply (writer_shape_run y o (mkdate y o) (Time.mk_time s f) off w_repr w_time Hoff w_min). cbn [Time.tsecs]. exact w_year.
  Qed.
  Lemma w_rt : r2_rt a = enc5 (whole_seconds (y, o, s, f, off)).
  Proof.
    unfold a. rewrite (roundtrip y o (mkdate y o) (Time.mk_time s f) off w_repr w_time); cbn [Time.tsecs Time.tfrac];
      [reflexivity|exact w_leap|exact Hoff|exact w_min|exact w_year].
  Qed.
End Writer.

Lemma holds_write zv : 
  judge_write zv (match dec_dtz zv with Some a => val_of_R VStr (to_rfc2822 a) | None => VBad end) <> JSkip ->
  judge_write zv (match dec_dtz zv with Some a => val_of_R VStr (to_rfc2822 a) | None => VBad end) = JOk.
Proof.
  unfold judge_write. destruct (dec5 zv) as [v|] eqn:Ed; [|congruence].
  destruct (dec5_inv _ _ Ed) as (y & o & s & f & off & -> & -> & Hy & Ho & Hs & Hf & Hoff).
  rewrite (w_dec y o s f off Hy Ho Hs Hf Hoff).
  destruct (in_writer_domain (y, o, s, f, off)) eqn:Edom; cbn [negb]; [|congruence].
  destruct (year_printable (y, o, s, f, off)) eqn:Ep.
  - intros _. rewrite (w_write y o s f off Hy Ho Hs Hf Hoff Edom Ep). apply w_text; assumption.
  - intros _. rewrite (w_panic y o s f off Hy Ho Hs Hf Hoff Ep). reflexivity.
Qed.
Lemma holds_rt zv :
  judge_rt zv (match dec_dtz zv with Some a => r2_rt a | None => VBad end) <> JSkip ->
  judge_rt zv (match dec_dtz zv with Some a => r2_rt a | None => VBad end) = JOk.
Proof.
  unfold judge_rt. destruct (dec5 zv) as [v|] eqn:Ed; [|congruence].
  destruct (dec5_inv _ _ Ed) as (y & o & s & f & off & -> & -> & Hy & Ho & Hs & Hf & Hoff).
  rewrite (w_dec y o s f off Hy Ho Hs Hf Hoff).
  destruct (in_writer_domain (y, o, s, f, off)) eqn:Edom; cbn [negb]; [|congruence].
  destruct (year_printable (y, o, s, f, off)) eqn:Ep.
  - intros _. rewrite (w_rt y o s f off Hy Ho Hs Hf Hoff Edom Ep). apply hl_judge_eq_refl.
  - intros _. unfold r2_rt. rewrite (w_panic y o s f off Hy Ho Hs Hf Hoff Ep). reflexivity.
Qed.

(** * all ops *)
Theorem C11_holds op args : args_len_ok args ->
  judge op args (run op args) <> JSkip -> judge op args (run op args) = JOk.
Proof.
  intros Hlen. unfold judge, run.
  destruct (op_is op "r2.parse") eqn:E1.
  { destruct args as [|a0 [|b0 rest]]; try (intros X; exfalso; apply X; reflexivity).
    2:{ destruct a0; intros X; exfalso; apply X; reflexivity. }
    destruct a0; try (intros X; exfalso; apply X; reflexivity). cbn [args_len_ok] in Hlen. apply holds_parse. exact Hlen. }
  destruct (op_is op "r2.write" || op_is op "r2.fmt") eqn:E2.
  { destruct args as [|a0 [|b0 rest]]; try (intros X; exfalso; apply X; reflexivity). apply holds_write. }
  destruct (op_is op "r2.rt") eqn:E3.
  { destruct args as [|a0 [|b0 rest]]; try (intros X; exfalso; apply X; reflexivity). apply holds_rt. }
  congruence.
Qed.

(** which model function answers each op *)
Theorem C11_dispatch :
  (forall s, run (B"r2.parse") [VStr s] = if utf8_valid s then r2_parse s else VBad) /\
  (forall z, run (B"r2.write") [z] = match dec_dtz z with Some a => val_of_R VStr (to_rfc2822 a) | None => VBad end) /\
  (forall z, run (B"r2.fmt") [z] = match dec_dtz z with Some a => val_of_R VStr (to_rfc2822 a) | None => VBad end) /\
  (forall z, run (B"r2.rt") [z] = match dec_dtz z with Some a => r2_rt a | None => VBad end) /\
  (forall op args, op_is op "r2.parse" = false -> op_is op "r2.write" = false -> op_is op "r2.fmt" = false ->
     op_is op "r2.rt" = false -> run op args = VErr (B"NOOP")).
Proof.
  repeat split; try reflexivity.
  intros op args H1 H2 H3 H4. unfold run. rewrite H1, H2, H3, H4. reflexivity.
Qed.
