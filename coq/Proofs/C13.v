(** C13 — lemmas about the item-driven reader Model/Parse.v: every item kind, applied to the text
    the formatter prints for it followed by a rest that satisfies the item's follow condition,
    consumes exactly that text and hands the printed value to the field setter. *)
From Coq Require Import ZArith List Bool Lia ZifyBool String.
From V Require Import Base.Int Base.IntLemmas Base.IO Base.Utf8 Gen.ScanTables Model.Scan Model.Items
  Gen.ParseTable Proofs.Utf8 Proofs.Scan Model.Parse.
From V Require Model.Parsed.
Import ListNotations.
Open Scope Z_scope.

(** * Literal *)
Lemma strip_prefix_app (l r : bytes) : strip_prefix l (l ++ r) = Some r.
Proof.
  induction l as [|c l IH]; [destruct r; reflexivity|].
  cbn [app strip_prefix]. rewrite Z.eqb_refl. exact IH.
Qed.

Lemma parse_literal_inverse relaxed p l rest : starts_ok rest = true ->
  parse_item relaxed p (l ++ rest) (Literal l) = pok (p, rest).
Proof.
  intros Hs. cbn [parse_item]. rewrite blen_app. pose proof (blen_nonneg rest).
  replace (blen l + blen rest <? blen l) with false by lia.
  unfold starts_with. rewrite strip_prefix_app. cbn [negb].
  rewrite str_from_app by exact Hs. reflexivity.
Qed.

(* a literal that is not there is refused, never skipped *)
Lemma parse_literal_mismatch relaxed p l s :
  strip_prefix l s = None -> exists e, parse_item relaxed p s (Literal l) = perr_ e.
Proof.
  intros H. cbn [parse_item]. destruct (blen s <? blen l); [eexists; reflexivity|].
  unfold starts_with. rewrite H. eexists; reflexivity.
Qed.

(** * Space: any run of ASCII white space is consumed, whatever the format's own white space *)
Definition ascii_ws (ws : bytes) : Prop := Forall (fun c => 0 <= c <= 127 /\ is_whitespace c = true) ws.

Lemma parse_space_inverse relaxed p fmt_ws ws rest :
  ascii_ws ws -> first_cp_fails is_whitespace rest ->
  parse_item relaxed p (ws ++ rest) (Space fmt_ws) = pok (p, rest).
Proof.
  intros Hw Hr. cbn [parse_item]. unfold trim_start. rewrite trim_prefix by assumption. reflexivity.
Qed.

(** * Numeric items *)
Lemma first_cp_digit_not_ws c r : is_ascii_digit c = true -> first_cp_fails is_whitespace (c :: r).
Proof.
  intros Hc. pose proof (digit_range c Hc). unfold first_cp_fails.
  rewrite next_code_point_ascii by lia. unfold is_whitespace. lia.
Qed.
Lemma first_cp_byte_not_ws c r : 33 <= c <= 127 -> first_cp_fails is_whitespace (c :: r).
Proof.
  intros Hc. unfold first_cp_fails. rewrite next_code_point_ascii by lia. unfold is_whitespace. lia.
Qed.

Lemma digits_utf8 ds rest : forallb is_ascii_digit ds = true -> utf8_valid rest = true ->
  utf8_valid (ds ++ rest) = true.
Proof.
  intros Hd Hv. rewrite utf8_valid_app_ascii; [exact Hv|].
  clear - Hd. induction ds as [|c r IH]; constructor.
  - cbn [forallb] in Hd. apply andb_prop in Hd. pose proof (digit_range c (proj1 Hd)). lia.
  - apply IH. cbn [forallb] in Hd. apply andb_prop in Hd. exact (proj2 Hd).
Qed.

(* the table entry of a numeric item *)
Definition numeric_entry (spec : Numeric) : option (Z * bool * Z) := zassoc (numeric_idx spec) PN_TABLE.

(** An unsigned field: optional ASCII white space (space padding), then at most [width] digits;
    when fewer than [width] digits are printed the rest must not start with a digit. *)
Theorem parse_numeric_unsigned p spec width code pad ds rest :
  numeric_entry spec = Some (width, false, code) ->
  ascii_ws pad ->
  forallb is_ascii_digit ds = true -> 1 <= blen ds <= width ->
  (blen ds < width -> not_digit_start rest = true) ->
  utf8_valid rest = true -> digits_value ds 0 <= i64_max ->
  parse_numeric p (pad ++ ds ++ rest) spec =
  (let+ p' := set_by_code code p (digits_value ds 0) in pok (p', rest)).
Proof.
  intros He Hpad Hd Hlen Hfollow Hv Hval. unfold parse_numeric. unfold numeric_entry in He. rewrite He.
  assert (Htrim : trim_start (pad ++ ds ++ rest) = ds ++ rest).
  { unfold trim_start. apply trim_prefix; [exact Hpad|].
    destruct ds as [|c r]; [rewrite blen_nil in Hlen; lia|].
    cbn [app]. apply first_cp_digit_not_ws. cbn [forallb] in Hd. apply andb_prop in Hd. exact (proj1 Hd). }
  rewrite Htrim. change PN_MIN_DIGITS with 1.
  rewrite number_on_digits; try assumption; try lia. reflexivity.
Qed.

(** A signed field (year, ISO year) printed with an explicit sign: any number of digits is read. *)
Theorem parse_numeric_signed p spec width code pad (neg : bool) ds rest :
  numeric_entry spec = Some (width, true, code) ->
  ascii_ws pad ->
  forallb is_ascii_digit ds = true -> 1 <= blen ds <= u64_max ->   (* a str is shorter than usize::MAX *)
  not_digit_start rest = true ->
  utf8_valid rest = true -> digits_value ds 0 <= i64_max ->
  parse_numeric p (pad ++ (if neg then 45 else 43) :: ds ++ rest) spec =
  (let+ p' := set_by_code code p (if neg then - digits_value ds 0 else digits_value ds 0) in pok (p', rest)).
Proof.
  intros He Hpad Hd Hlen Hfollow Hv Hval. unfold u64_max in Hlen. unfold parse_numeric. unfold numeric_entry in He. rewrite He.
  assert (Htrim : trim_start (pad ++ (if neg then 45 else 43) :: ds ++ rest) = (if neg then 45 else 43) :: ds ++ rest).
  { unfold trim_start. apply trim_prefix; [exact Hpad|]. apply first_cp_byte_not_ws. destruct neg; lia. }
  rewrite Htrim. change PN_MIN_DIGITS with 1. change PN_SIGNED_MAX_DIGITS with 18446744073709551615.
  pose proof (digits_utf8 ds rest Hd Hv) as Hv'.
  destruct neg.
  - cbn [starts_with_byte]. replace (45 =? 45) with true by reflexivity.
    rewrite str_from_1 by (apply utf8_valid_starts_ok; exact Hv'). cbn [bind].
    rewrite number_on_digits; try assumption; try lia; [|intros _; exact Hfollow].
    cbn [pbind bind]. unfold checked_sub. rewrite chko_in.
    2:{ pose proof (digits_value_mono ds 0 Hd ltac:(lia)). unfold in_i64, in_range, i64_min, i64_max in *. lia. }
    reflexivity.
  - cbn [starts_with_byte]. replace (43 =? 45) with false by reflexivity. replace (43 =? 43) with true by reflexivity.
    rewrite str_from_1 by (apply utf8_valid_starts_ok; exact Hv'). cbn [bind].
    rewrite number_on_digits; try assumption; try lia; [|intros _; exact Hfollow]. reflexivity.
Qed.
