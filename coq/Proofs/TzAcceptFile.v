(** Acceptance completeness of the TZif reader, part 2: headers, section lengths, whole files.
    The cursor of parser.rs after [off] bytes of the file [d] is [cur_at d off]; every read of the
    header / block stage is a [sub d off n]. *)
From Coq Require Import ZArith List Bool Lia ZifyBool String.
From V Require Import Base.Int Base.IO Base.IntLemmas Base.Lift Gen.TzInfo.
From V Require Import Model.TzParser Model.TzRule Model.TzLookup.
From V Require Import Spec.TzWriter.
From V Require Import Proofs.TzCommon Proofs.TzEval Proofs.TzGrammar Proofs.TzRoundtrip Proofs.TzWriterRoundtrip
                      Proofs.TzWriterFull Proofs.C16 Proofs.TzAcceptSpec Proofs.TzAccept.
Import ListNotations.
Open Scope Z_scope.
Ltac Zify.zify_post_hook ::= Z.to_euclidean_division_equations.

Definition cur_at (d : bytes) (off : Z) : cursor := mk_cur (skipn (Z.to_nat off) d) off.

Lemma zlen_sub (d : bytes) off n : 0 <= off -> 0 <= n -> off + n <= zlen d -> zlen (sub d off n) = n.
Proof. intros H1 H2 H3. unfold sub. rewrite zlen_firstn; [reflexivity|]. rewrite zlen_skipn by lia. lia. Qed.
Lemma sub_byte (d : bytes) off n : Forall byte d -> Forall byte (sub d off n).
Proof. intros H. unfold sub. apply Forall_firstn, Forall_skipn, H. Qed.

Lemma skipn_skipn' {A} : forall y x (l : list A), skipn x (skipn y l) = skipn (x + y) l.
Proof.
  induction y as [|y IH]; intros x l; [rewrite Nat.add_0_r; reflexivity|].
  destruct l as [|a l]; [rewrite !skipn_nil; reflexivity|].
  rewrite Nat.add_succ_r. cbn [skipn]. apply IH.
Qed.
(* one read: the bytes at the offset, or UnexpectedEof *)
Lemma read_exact_at (d : bytes) off n o' : 0 <= off <= zlen d -> zlen d < i64_max -> 0 <= n -> o' = off + n ->
  read_exact (cur_at d off) n = if o' <=? zlen d then ok (sub d off n, cur_at d o') else fail EIo.
Proof.
  intros Ho Hd Hn ->. unfold read_exact, cur_at. cbn [remaining read_count]. rewrite zlen_skipn by lia.
  destruct (off + n <=? zlen d) eqn:E.
  - replace ((0 <=? n) && (n <=? zlen d - off)) with true by lia.
    unfold add_usize. rewrite chk_in by (unfold i64_max in *; range_solver). rewrite bind_val.
    unfold sub. rewrite skipn_skipn'.
    replace (Z.to_nat n + Z.to_nat off)%nat with (Z.to_nat (off + n)) by lia. reflexivity.
  - replace ((0 <=? n) && (n <=? zlen d - off)) with false by lia. reflexivity.
Qed.
Lemma read_exact_in (d : bytes) off n o' : 0 <= off -> zlen d < i64_max -> 0 <= n -> o' = off + n -> o' <= zlen d ->
  read_exact (cur_at d off) n = ok (sub d off n, cur_at d o').
Proof.
  intros Ho Hd Hn Ho' Hle. rewrite (read_exact_at d off n o') by lia. replace (o' <=? zlen d) with true by lia. reflexivity.
Qed.
Lemma u32_at_bound (d : bytes) o : Forall byte d -> 0 <= o -> o + 4 <= zlen d -> 0 <= u32_at d o <= u32_max.
Proof. intros Hb H1 H2. apply be_uint4_bound; [apply zlen_sub; lia|apply sub_byte; exact Hb]. Qed.
Lemma read_be_u32_at (d : bytes) o o' : 0 <= o -> zlen d < i64_max -> o' = o + 4 -> o' <= zlen d ->
  read_be_u32 (cur_at d o) = ok (u32_at d o, cur_at d o').
Proof.
  intros H1 Hd Ho' H2. unfold read_be_u32. rewrite (read_exact_in d o 4 o') by lia. rewrite rbind_ok. cbv beta iota.
  unfold copy_from_slice. rewrite zlen_sub by lia. reflexivity.
Qed.

Lemma firstn1_skipn {A} (dflt : A) : forall (l : list A) n, (n < List.length l)%nat -> firstn 1 (skipn n l) = [nth n l dflt].
Proof.
  induction l as [|a l IH]; intros n H; cbn [List.length] in H; [lia|].
  destruct n; [reflexivity|]. cbn [skipn nth]. apply IH. lia.
Qed.
Lemma sub1 (d : bytes) i : 0 <= i < zlen d -> sub d i 1 = [byte_at d i].
Proof. intros H. unfold sub, byte_at. change (Z.to_nat 1) with 1%nat. apply firstn1_skipn. unfold zlen in H. lia. Qed.
Lemma ver_match (b : Z) :
  match [b] with [0] => ok V1 | [50] => ok V2 | [51] => ok V3 | _ => fail EUnsupportedTzFile end
  = match ver_of_byte b with Some v => ok v | None => fail EUnsupportedTzFile end.
Proof.
  unfold ver_of_byte. destruct b as [|p|p]; try reflexivity.
  repeat (destruct p as [p|p|]; try reflexivity).
Qed.

(** ** the header in closed form *)
Definition header_res (d : bytes) (off : Z) : res (header * cursor) :=
  if negb (bytes_eqb (sub d off 4) [84; 90; 105; 102]) then Err EInvalidTzFile else
  match ver_of_byte (byte_at d (off + 4)) with
  | None => Err EUnsupportedTzFile
  | Some _ =>
      if negb (counts_ok (u32_at d (off + 20)) (u32_at d (off + 24)) (u32_at d (off + 36)) (u32_at d (off + 40)))
      then Err EInvalidTzFile else Ok (hdr_at d off, cur_at d (off + 44))
  end.
Lemma header_new_at (d : bytes) off : data_ok d -> 0 <= off -> off + 44 <= zlen d ->
  header_new (cur_at d off) = Val (header_res d off).
Proof.
  intros [Hd Hb] H0 H44. unfold header_new, header_res, hdr_at.
  rewrite (read_exact_in d off 4 (off + 4)) by lia. rewrite rbind_ok. cbv beta iota.
  change (B"TZif") with [84; 90; 105; 102].
  destruct (negb (bytes_eqb (sub d off 4) [84; 90; 105; 102])); [reflexivity|].
  rewrite (read_exact_in d (off + 4) 1 (off + 5)) by lia. rewrite rbind_ok. cbv beta iota.
  rewrite sub1 by lia. rewrite ver_match.
  destruct (ver_of_byte (byte_at d (off + 4))) as [v|]; [|reflexivity]. rewrite rbind_ok.
  rewrite (read_exact_in d (off + 5) 15 (off + 20)) by lia. rewrite rbind_ok. cbv beta iota.
  rewrite (read_be_u32_at d (off + 20) (off + 24)) by lia. rewrite rbind_ok. cbv beta iota.
  rewrite (read_be_u32_at d (off + 24) (off + 28)) by lia. rewrite rbind_ok. cbv beta iota.
  rewrite (read_be_u32_at d (off + 28) (off + 32)) by lia. rewrite rbind_ok. cbv beta iota.
  rewrite (read_be_u32_at d (off + 32) (off + 36)) by lia. rewrite rbind_ok. cbv beta iota.
  rewrite (read_be_u32_at d (off + 36) (off + 40)) by lia. rewrite rbind_ok. cbv beta iota.
  rewrite (read_be_u32_at d (off + 40) (off + 44)) by lia. rewrite rbind_ok. cbv beta iota.
  fold (counts_ok (u32_at d (off + 20)) (u32_at d (off + 24)) (u32_at d (off + 36)) (u32_at d (off + 40))).
  destruct (negb (counts_ok (u32_at d (off + 20)) (u32_at d (off + 24)) (u32_at d (off + 36)) (u32_at d (off + 40))));
    [reflexivity|].
  rewrite !as_usize_id by (apply u32_at_bound; [exact Hb|lia|lia]). reflexivity.
Qed.
Lemma header_res_ok d off h c : off + 44 <= zlen d ->
  header_res d off = Ok (h, c) <-> header_ok_at d off = true /\ h = hdr_at d off /\ c = cur_at d (off + 44).
Proof.
  intros H44. unfold header_res, header_ok_at. replace (off + 44 <=? zlen d) with true by lia. cbn [andb].
  destruct (bytes_eqb (sub d off 4) [84; 90; 105; 102]); cbn [negb andb];
    [|split; [discriminate|intros [H _]; discriminate]].
  destruct (ver_of_byte (byte_at d (off + 4))) as [v|]; cbn [andb];
    [|split; [discriminate|intros [H _]; discriminate]].
  destruct (counts_ok (u32_at d (off + 20)) (u32_at d (off + 24)) (u32_at d (off + 36)) (u32_at d (off + 40)));
    cbn [negb]; [|split; [discriminate|intros [H _]; discriminate]].
  split; [intros H; injection H as <- <-; auto|intros (_ & -> & ->); reflexivity].
Qed.

(** ** the block stage in closed form *)
Lemma hdr_at_ok d off : data_ok d -> 0 <= off -> header_ok_at d off = true ->
  hdr_ok (hdr_at d off) /\
  (ut_local_count (hdr_at d off) = 0 \/ ut_local_count (hdr_at d off) = type_count (hdr_at d off)).
Proof.
  intros [Hd Hb] H0 H. unfold header_ok_at in H.
  apply andb_prop in H. destruct H as [H Hc]. apply andb_prop in H. destruct H as [H _].
  apply andb_prop in H. destruct H as [H44 _].
  unfold hdr_ok, hdr_at. cbn [ut_local_count std_wall_count leap_count transition_count type_count char_count].
  pose proof (u32_at_bound d (off + 20) Hb ltac:(lia) ltac:(lia)).
  pose proof (u32_at_bound d (off + 24) Hb ltac:(lia) ltac:(lia)).
  pose proof (u32_at_bound d (off + 28) Hb ltac:(lia) ltac:(lia)).
  pose proof (u32_at_bound d (off + 32) Hb ltac:(lia) ltac:(lia)).
  pose proof (u32_at_bound d (off + 36) Hb ltac:(lia) ltac:(lia)).
  pose proof (u32_at_bound d (off + 40) Hb ltac:(lia) ltac:(lia)).
  unfold counts_ok in Hc. lia.
Qed.

Definition body_of (h : header) (c : cursor) (ts : Z) : R (res (state * cursor)) :=
  let* n := mul_usize (transition_count h) ts in
  let+ '(ttimes, c) := read_exact c n in
  let+ '(ttypes, c) := read_exact c (transition_count h) in
  let* n := mul_usize (type_count h) 6 in
  let+ '(ltts, c) := read_exact c n in
  let+ '(names, c) := read_exact c (char_count h) in
  let* rec := add_usize ts 4 in
  let* n := mul_usize (leap_count h) rec in
  let+ '(leaps, c) := read_exact c n in
  let+ '(std_walls, c) := read_exact c (std_wall_count h) in
  let+ '(ut_locals, c) := read_exact c (ut_local_count h) in
  ok (mk_state h ts ttimes ttypes ltts names leaps std_walls ut_locals, c).
Lemma state_new_body c first :
  state_new c first = let+ '(h, c) := header_new c in body_of h c (if first then 4 else 8).
Proof. reflexivity. Qed.

Ltac read_step d :=
  match goal with
  | |- context [read_exact (cur_at d ?o) ?n] =>
      rewrite (read_exact_at d o n (o + n)) by lia;
      destruct (o + n <=? zlen d) eqn:?;
      [rewrite rbind_ok; cbv beta iota
      |match goal with |- _ = if ?x <=? zlen d then _ else _ => replace (x <=? zlen d) with false by lia end;
       reflexivity]
  end.
Lemma body_at (d : bytes) off ts : data_ok d -> 0 <= off -> off + 44 <= zlen d -> (ts = 4 \/ ts = 8) ->
  hdr_ok (hdr_at d off) ->
  body_of (hdr_at d off) (cur_at d (off + 44)) ts
  = if off + block_len (hdr_at d off) ts <=? zlen d
    then ok (state_at d off ts, cur_at d (off + block_len (hdr_at d off) ts)) else fail EIo.
Proof.
  intros [Hd Hb] H0 H44 Hts (G1 & G2 & G3 & G4 & G5 & G6). unfold u32_max in *.
  unfold body_of, state_at, block_len, o_ut, o_std, o_leaps, o_names, o_ltts, o_types, o_times.
  set (h := hdr_at d off) in *. clearbody h.
  unfold mul_usize, add_usize.
  rewrite chk_in by (destruct Hts as [-> | ->]; range_solver). rewrite bind_val.
  destruct Hts as [-> | ->].
  - read_step d. read_step d.
    rewrite chk_in by range_solver. rewrite bind_val. read_step d. read_step d.
    rewrite chk_in by range_solver. rewrite bind_val. change (4 + 4) with 8.
    rewrite chk_in by range_solver. rewrite bind_val. read_step d. read_step d. read_step d.
    match goal with |- _ = if ?x <=? zlen d then _ else _ => replace (x <=? zlen d) with true by lia end.
    match goal with |- ok (_, cur_at d ?x) = ok (_, cur_at d ?y) => replace y with x by lia end. reflexivity.
  - read_step d. read_step d.
    rewrite chk_in by range_solver. rewrite bind_val. read_step d. read_step d.
    rewrite chk_in by range_solver. rewrite bind_val. change (8 + 4) with 12.
    rewrite chk_in by range_solver. rewrite bind_val. read_step d. read_step d. read_step d.
    match goal with |- _ = if ?x <=? zlen d then _ else _ => replace (x <=? zlen d) with true by lia end.
    match goal with |- ok (_, cur_at d ?x) = ok (_, cur_at d ?y) => replace y with x by lia end. reflexivity.
Qed.

(* the header + block stage at offset [off]: succeeds exactly when the header is fine and the
   block it announces lies inside the file *)
Lemma state_new_at (d : bytes) off (first : bool) st c : data_ok d -> 0 <= off <= zlen d ->
  let ts := if first then 4 else 8 in
  state_new (cur_at d off) first = Val (Ok (st, c)) <->
  header_ok_at d off = true /\ off + block_len (hdr_at d off) ts <= zlen d /\
  st = state_at d off ts /\ c = cur_at d (off + block_len (hdr_at d off) ts).
Proof.
  intros Hd H0 ts. assert (Hts : ts = 4 \/ ts = 8) by (subst ts; destruct first; auto).
  destruct Hd as [Hlen Hbytes].
  destruct (off + 44 <=? zlen d) eqn:E44.
  - rewrite state_new_body. rewrite (header_new_at d off (conj Hlen Hbytes) ltac:(lia) ltac:(lia)).
    fold ts. destruct (header_res d off) as [[h c1]|e] eqn:Eh; cbn [rbind].
    + apply header_res_ok in Eh; [|lia]. destruct Eh as (Hok & -> & ->).
      destruct (hdr_at_ok d off (conj Hlen Hbytes) ltac:(lia) Hok) as [Hh _].
      rewrite (body_at d off ts (conj Hlen Hbytes) ltac:(lia) ltac:(lia) Hts Hh).
      destruct (off + block_len (hdr_at d off) ts <=? zlen d) eqn:Eb.
      * split; [intros H; injection H as <- <-; repeat split; try assumption; lia|].
        intros (_ & _ & -> & ->). reflexivity.
      * split; [discriminate|]. intros (_ & Hx & _). lia.
    + split; [discriminate|]. intros (Hok & _).
      assert (Hx : header_res d off = Ok (hdr_at d off, cur_at d (off + 44))) by (apply header_res_ok; [lia|auto]).
      rewrite Eh in Hx. discriminate.
  - split.
    + intros H. exfalso.
      assert (Hc : cur_ok (zlen d) (cur_at d off)).
      { unfold cur_ok, cur_at. cbn [remaining read_count]. rewrite zlen_skipn by lia.
        repeat split; try lia; [unfold i64_max, u64_max in *; lia|apply Forall_skipn; exact Hbytes]. }
      destruct (state_new_spec (zlen d) (cur_at d off) first Hc) as (r & Hr & Hq).
      rewrite H in Hr. injection Hr as <-. destruct Hq as (Hc' & Hst & Hrc & _).
      destruct Hc' as (_ & Hsum & _). pose proof (zlen_nonneg (remaining c)).
      destruct (so_hdr _ _ Hst) as (G1 & G2 & G3 & G4 & G5 & G6).
      cbn [read_count cur_at] in Hrc. unfold block_size in Hrc.
      destruct first; nia.
    + intros (Hok & _). unfold header_ok_at in Hok. lia.
Qed.

(** ** [select]: which block is decoded, with which footer *)
Lemma cur_at_empty (d : bytes) off : 0 <= off <= zlen d -> cur_is_empty (cur_at d off) = (off =? zlen d).
Proof.
  intros H. unfold cur_is_empty, cur_at. cbn [remaining].
  pose proof (zlen_skipn d off ltac:(lia)) as Hl.
  destruct (skipn (Z.to_nat off) d) as [|x r].
  - change (zlen (@nil Z)) with 0 in Hl. lia.
  - rewrite zlen_cons in Hl. pose proof (zlen_nonneg r). lia.
Qed.
Lemma hdr_version_v1 d off : h_version (hdr_at d off) = V1 <-> ver_of_byte (byte_at d (off + 4)) = None \/ byte_at d (off + 4) = 0.
Proof.
  unfold hdr_at. cbn [h_version]. unfold ver_of_byte.
  destruct (byte_at d (off + 4) =? 0) eqn:E0; [split; [intros _; right; lia|reflexivity]|].
  destruct (byte_at d (off + 4) =? 50); [split; [discriminate|intros [H | H]; [discriminate|lia]]|].
  destruct (byte_at d (off + 4) =? 51); [split; [discriminate|intros [H | H]; [discriminate|lia]]|].
  split; [intros _; left; reflexivity|reflexivity].
Qed.
Lemma header_ok_version d off : header_ok_at d off = true -> ver_of_byte (byte_at d (off + 4)) <> None.
Proof.
  unfold header_ok_at. intros H. apply andb_prop in H. destruct H as [H _]. apply andb_prop in H. destruct H as [_ H].
  destruct (ver_of_byte (byte_at d (off + 4))); [discriminate|discriminate H].
Qed.

Definition v1_layout_ok (d : bytes) : bool :=
  header_ok_at d 0 && (byte_at d 4 =? 0) && (zlen d =? block_len (hdr_at d 0) 4).
Lemma header_ok_len d off : header_ok_at d off = true -> off + 44 <= zlen d.
Proof.
  unfold header_ok_at. intros H. repeat (apply andb_prop in H; destruct H as [H ?]). lia.
Qed.
Lemma layouts_first d : v1_layout_ok d = true \/ v23_layout_ok d = true ->
  header_ok_at d 0 = true /\ 0 + block_len (hdr_at d 0) 4 <= zlen d.
Proof.
  unfold v1_layout_ok, v23_layout_ok. intros [H | H].
  - apply andb_prop in H. destruct H as [H H2]. apply andb_prop in H. destruct H as [H H1]. split; [exact H|lia].
  - apply andb_prop in H. destruct H as [H Hf]. apply andb_prop in H. destruct H as [H He].
    apply andb_prop in H. destruct H as [H Hc]. apply andb_prop in H. destruct H as [Ha Hb].
    split; [exact Ha|]. apply header_ok_len in Hc. unfold off2 in Hc. lia.
Qed.
Theorem select_iff d st footer : data_ok d ->
  select d = Val (Ok (st, footer)) <->
  (v1_layout_ok d = true /\ st = state_at d 0 4 /\ footer = None) \/
  (v23_layout_ok d = true /\ st = state_at d (off2 d) 8 /\ footer = Some (footer_of d)).
Proof.
  intros Hd. pose proof (zlen_nonneg d) as Hz. unfold select. change (cur_new d) with (cur_at d 0).
  pose proof (fun st c => state_new_at d 0 true st c Hd ltac:(lia)) as H1. cbv zeta in H1.
  destruct (state_new (cur_at d 0) true) as [[[st1 c1]|e]| |] eqn:E1; cbn [rbind].
  2-4: split; [discriminate|]; intros Hcase;
       (assert (Hx : header_ok_at d 0 = true /\ 0 + block_len (hdr_at d 0) 4 <= zlen d)
          by (apply layouts_first; destruct Hcase as [(Hv & _) | (Hv & _)]; auto));
       pose proof (proj2 (H1 _ _) (conj (proj1 Hx) (conj (proj2 Hx) (conj eq_refl eq_refl)))) as Hs;
       discriminate Hs.
  destruct (proj1 (H1 st1 c1) eq_refl) as (Hok1 & Hfit1 & -> & ->).
  cbn [st_header state_at]. change (0 + block_len (hdr_at d 0) 4) with (off2 d) in *.
  assert (Hoff2 : 44 <= off2 d).
  { destruct (hdr_at_ok d 0 Hd ltac:(lia) Hok1) as [(? & ? & ? & ? & ? & ?) _]. unfold off2, block_len. lia. }
  pose proof (header_ok_version d 0 Hok1) as Hv1. change (0 + 4) with 4 in Hv1.
  pose proof (hdr_version_v1 d 0) as Hvv. change (0 + 4) with 4 in Hvv.
  unfold v1_layout_ok, v23_layout_ok. rewrite Hok1. cbn [andb].
  destruct (byte_at d 4 =? 0) eqn:E0; cbn [negb andb].
  - assert (Hb0 : byte_at d 4 = 0) by lia. rewrite (proj2 Hvv (or_intror Hb0)).
    rewrite cur_at_empty by lia. rewrite (Z.eqb_sym (off2 d) (zlen d)). fold (off2 d).
    destruct (zlen d =? off2 d); split.
    + intros H. injection H as <- <-. left. auto.
    + intros [(_ & -> & ->) | (Hx & _)]; [reflexivity|discriminate].
    + discriminate.
    + intros [(Hx & _) | (Hx & _)]; discriminate.
  - assert (Hnv : h_version (hdr_at d 0) <> V1) by (intros Hx; apply Hvv in Hx; destruct Hx; [contradiction|lia]).
    pose proof (fun st c => state_new_at d (off2 d) false st c Hd ltac:(lia)) as H2. cbv zeta in H2.
    assert (Hsel : forall K, match h_version (hdr_at d 0) with V1 => K | _ =>
                      let+ '(st2, c2) := state_new (cur_at d (off2 d)) false in
                      match h_version (st_header st2) with V1 => fail EInvalidTzFile | _ => ok (st2, Some (remaining c2)) end end
                    = let+ '(st2, c2) := state_new (cur_at d (off2 d)) false in
                      match h_version (st_header st2) with V1 => fail EInvalidTzFile | _ => ok (st2, Some (remaining c2)) end).
    { intros K. destruct (h_version (hdr_at d 0)); [congruence|reflexivity|reflexivity]. }
    rewrite Hsel. clear Hsel.
    destruct (state_new (cur_at d (off2 d)) false) as [[[st2 c2]|e]| |] eqn:E2; cbn [rbind].
    2-4: split; [discriminate|]; intros [(Hx & _) | (Hx & _)]; [discriminate|];
         apply andb_prop in Hx; destruct Hx as [Hx Hf]; apply andb_prop in Hx; destruct Hx as [Hc He];
         (assert (Hfit : off2 d + block_len (hdr_at d (off2 d)) 8 <= zlen d) by lia);
         pose proof (proj2 (H2 _ _) (conj Hc (conj Hfit (conj eq_refl eq_refl)))) as Hs;
         discriminate Hs.
    destruct (proj1 (H2 st2 c2) eq_refl) as (Hok2 & Hfit2 & -> & ->).
    cbn [st_header state_at remaining cur_at]. fold (footer_of d).
    rewrite Hok2. replace (off2 d + block_len (hdr_at d (off2 d)) 8 <=? zlen d) with true by lia.
    rewrite andb_true_r. cbn [andb].
    pose proof (header_ok_version d (off2 d) Hok2) as Hv2. pose proof (hdr_version_v1 d (off2 d)) as Hvv2.
    destruct (byte_at d (off2 d + 4) =? 0) eqn:E20; cbn [negb].
    + assert (Hb20 : byte_at d (off2 d + 4) = 0) by lia. rewrite (proj2 Hvv2 (or_intror Hb20)). split; [discriminate|]. intros [(Hx & _) | (Hx & _)]; discriminate.
    + assert (Hnv2 : h_version (hdr_at d (off2 d)) <> V1) by (intros Hx; apply Hvv2 in Hx; destruct Hx; [contradiction|lia]).
      destruct (h_version (hdr_at d (off2 d))); [congruence| |];
        (split; [intros H; injection H as <- <-; right; auto|intros [(Hx & _) | (_ & -> & ->)]; [discriminate|reflexivity]]).
Qed.

(** ** the selected block satisfies the hypotheses of the block-level theorems *)
Lemma state_at_hyps d off (first : bool) : data_ok d -> 0 <= off <= zlen d -> header_ok_at d off = true ->
  let ts := if first then 4 else 8 in
  off + block_len (hdr_at d off) ts <= zlen d -> ver_ts ts (h_version (hdr_at d off)) ->
  blk_hyps (state_at d off ts) ts.
Proof.
  intros Hd H0 Hok ts Hfit Hver. assert (Hts : ts = 4 \/ ts = 8) by (subst ts; destruct first; auto).
  destruct (hdr_at_ok d off Hd ltac:(lia) Hok) as [Hh Hut].
  constructor.
  - assert (Hc : cur_ok (zlen d) (cur_at d off)).
    { destruct Hd as [Hlen Hbytes]. unfold cur_ok, cur_at. cbn [remaining read_count]. rewrite zlen_skipn by lia.
      repeat split; try lia; [unfold i64_max, u64_max in *; lia|apply Forall_skipn; exact Hbytes]. }
    destruct (state_new_spec (zlen d) (cur_at d off) first Hc) as (r & Hr & Hq).
    pose proof (proj2 (state_new_at d off first (state_at d off ts) _ Hd H0)
                  (conj Hok (conj Hfit (conj eq_refl eq_refl)))) as Hs.
    rewrite Hs in Hr. injection Hr as <-. apply Hq.
  - exact Hver.
  - cbn [state_at st_ut_locals st_header].
    destruct Hh as (G1 & G2 & G3 & G4 & G5 & G6). unfold u32_max in *.
    rewrite zlen_sub; [lia| |lia|].
    + unfold o_ut, o_std, o_leaps, o_names, o_ltts, o_types, o_times. destruct Hts as [-> | ->]; lia.
    + unfold block_len in Hfit. unfold o_ut, o_std, o_leaps, o_names, o_ltts, o_types, o_times.
      destruct Hts as [-> | ->]; lia.
Qed.
Lemma ext_of_version d off : (match h_version (hdr_at d off) with V3 => true | _ => false end) = (byte_at d (off + 4) =? 51).
Proof.
  unfold hdr_at. cbn [h_version]. unfold ver_of_byte.
  destruct (byte_at d (off + 4) =? 0) eqn:E0; [lia|].
  destruct (byte_at d (off + 4) =? 50) eqn:E50; [lia|].
  destruct (byte_at d (off + 4) =? 51); reflexivity.
Qed.

(** ** the footer stage *)
Lemma z_match10 (x : Z) : (match x with 10 => true | _ => false end) = (x =? 10).
Proof. destruct x as [|p|p]; try reflexivity; repeat (destruct p as [p|p|]; try reflexivity). Qed.
Lemma z_match58 (x : Z) : (match x with 58 => true | _ => false end) = (x =? 58).
Proof. destruct x as [|p|p]; try reflexivity; repeat (destruct p as [p|p|]; try reflexivity). Qed.
Lemma footer_step_some v f rule :
  footer_step v (Some f) = Val (Ok rule) <->
  footer_text_ok f = true /\
  match trim_ascii_ws f with
  | [] => ok None
  | s => let+ r := from_tz_string s (match v with V3 => true | _ => false end) in ok (Some r)
  end = Val (Ok rule).
Proof.
  unfold footer_step, footer_text_ok.
  destruct (utf8_valid f); cbn [negb andb]; [|split; [discriminate|intros [H _]; discriminate]].
  assert (E1 : (match f with 10 :: _ => true | _ => false end) = (hd 0 f =? 10)).
  { destruct f as [|x r]; [reflexivity|]. cbn [hd]. apply z_match10. }
  assert (E2 : (match last_byte f with Some 10 => true | _ => false end) = (hd 0 (rev f) =? 10)).
  { unfold last_byte. destruct (rev f) as [|x r]; [reflexivity|]. cbn [hd]. apply z_match10. }
  rewrite E1, E2.
  destruct ((hd 0 f =? 10) && (hd 0 (rev f) =? 10)); cbn [negb andb]; [|split; [discriminate|intros [H _]; discriminate]].
  cbv zeta.
  assert (E3 : (match trim_ascii_ws f with 58 :: _ => true | _ => false end) = (hd 0 (trim_ascii_ws f) =? 58)).
  { destruct (trim_ascii_ws f) as [|x r]; [reflexivity|]. cbn [hd]. apply z_match58. }
  rewrite E3.
  destruct (hd 0 (trim_ascii_ws f) =? 58); cbn [negb orb andb]; [split; [discriminate|intros [H _]; discriminate]|].
  destruct (existsb (fun x => x =? 0) (trim_ascii_ws f)); cbn [negb]; [split; [discriminate|intros [H _]; discriminate]|].
  destruct (trim_ascii_ws f); (split; [intros H; split; [reflexivity|exact H]|intros [_ H]; exact H]).
Qed.

(** ** whole files *)
Lemma rbind_ok_iff {A T} (x : R (res A)) (f : A -> R (res T)) (t : T) :
  rbind x f = Val (Ok t) <-> exists a, x = Val (Ok a) /\ f a = Val (Ok t).
Proof.
  split; [apply rbind_ok_inv|]. intros (a & -> & H). exact H.
Qed.
Lemma v1_layout_version d : v1_layout_ok d = true ->
  header_ok_at d 0 = true /\ byte_at d 4 = 0 /\ zlen d = block_len (hdr_at d 0) 4 /\ ver_ts 4 (h_version (hdr_at d 0)).
Proof.
  unfold v1_layout_ok. intros H. apply andb_prop in H. destruct H as [H H2]. apply andb_prop in H. destruct H as [H H1].
  split; [exact H|]. split; [lia|]. split; [lia|]. left. split; [reflexivity|].
  apply (hdr_version_v1 d 0). right. change (0 + 4) with 4. lia.
Qed.
Lemma v23_layout_version d : v23_layout_ok d = true ->
  header_ok_at d 0 = true /\ byte_at d 4 <> 0 /\ header_ok_at d (off2 d) = true /\
  off2 d + block_len (hdr_at d (off2 d)) 8 <= zlen d /\ ver_ts 8 (h_version (hdr_at d (off2 d))).
Proof.
  unfold v23_layout_ok. intros H.
  apply andb_prop in H. destruct H as [H Hf]. apply andb_prop in H. destruct H as [H He].
  apply andb_prop in H. destruct H as [H Hc]. apply andb_prop in H. destruct H as [Ha Hb].
  split; [exact Ha|]. split; [lia|]. split; [exact Hc|]. split; [lia|]. right. split; [reflexivity|].
  intros Hx. apply (hdr_version_v1 d (off2 d)) in Hx. destruct Hx as [Hx | Hx].
  - exact (header_ok_version d (off2 d) Hc Hx).
  - lia.
Qed.
Lemma off2_range d : data_ok d -> header_ok_at d 0 = true -> 44 <= off2 d.
Proof.
  intros Hd Hok. destruct (hdr_at_ok d 0 Hd ltac:(lia) Hok) as [(? & ? & ? & ? & ? & ?) _]. unfold off2, block_len. lia.
Qed.

Definition selected (d : bytes) (st : state) : Prop :=
  (v1_layout_ok d = true /\ st = state_at d 0 4) \/ (v23_layout_ok d = true /\ st = state_at d (off2 d) 8).
Lemma selected_hyps d st : data_ok d -> selected d st ->
  exists ts footer, select d = Val (Ok (st, footer)) /\ blk_hyps st ts.
Proof.
  intros Hd [[Hl ->] | [Hl ->]].
  - destruct (v1_layout_version d Hl) as (Hok & Hb & Hlen & Hver). exists 4, None. split.
    + apply select_iff; [exact Hd|]. left. auto.
    + pose proof (zlen_nonneg d). apply (state_at_hyps d 0 true Hd ltac:(lia) Hok); [cbv zeta; lia|exact Hver].
  - destruct (v23_layout_version d Hl) as (Hok & Hb & Hok2 & Hfit & Hver). exists 8, (Some (footer_of d)). split.
    + apply select_iff; [exact Hd|]. right. auto.
    + pose proof (off2_range d Hd Hok). pose proof (header_ok_len d (off2 d) Hok2).
      apply (state_at_hyps d (off2 d) false Hd ltac:(lia) Hok2); [exact Hfit|exact Hver].
Qed.

(* version 1: complete, no function of the reader inside the predicate *)
Theorem v1_accepts_iff d z : data_ok d ->
  (parse d = Val (Ok z) /\ byte_at d 4 = 0) <-> (tzif_v1_accepts d = true /\ z = tzif_v1_zone d).
Proof.
  intros Hd. rewrite parse_select. rewrite rbind_ok_iff.
  change (tzif_v1_accepts d) with (v1_layout_ok d && block_ok (state_at d 0 4)). split.
  - intros [([st footer] & Hs & Hf) Hb0]. apply (select_iff d st footer Hd) in Hs.
    destruct Hs as [(Hl & -> & ->) | (Hl & _)].
    + destruct (selected_hyps d (state_at d 0 4) Hd (or_introl (conj Hl eq_refl))) as (ts & f' & _ & Hh).
      apply (finish_accepts _ ts None z Hh) in Hf. destruct Hf as (Hbo & rule & Hr & _ & ->).
      cbn [footer_step] in Hr. injection Hr as <-. rewrite Hl, Hbo. auto.
    + destruct (v23_layout_version d Hl) as (_ & Hx & _). contradiction.
  - intros [Ha ->]. apply andb_prop in Ha. destruct Ha as [Hl Hbo].
    destruct (v1_layout_version d Hl) as (_ & Hb0 & _). split; [|exact Hb0].
    destruct (selected_hyps d (state_at d 0 4) Hd (or_introl (conj Hl eq_refl))) as (ts & f' & _ & Hh).
    exists (state_at d 0 4, None). split; [apply select_iff; [exact Hd|left; auto]|].
    apply (finish_accepts _ ts None _ Hh). split; [exact Hbo|]. exists None. repeat split.
Qed.

(* version 2 / 3.  PARTIAL: the TZ string of a non-blank footer is judged by the reader's own
   [from_tz_string] and its agreement with the last transition by [footer_consistent] *)
Theorem v23_accepts_iff d z : data_ok d ->
  (parse d = Val (Ok z) /\ byte_at d 4 <> 0) <-> (tzif_v23_accepts d = true /\ z = tzif_v23_zone d).
Proof.
  intros Hd. rewrite parse_select. rewrite rbind_ok_iff. unfold tzif_v23_accepts, tzif_v23_zone.
  assert (Hrr : forall rule, footer_step (h_version (hdr_at d (off2 d))) (Some (footer_of d)) = Val (Ok rule) <->
                             footer_text_ok (footer_of d) = true /\ footer_rule_res d = Val (Ok rule)).
  { intros rule. rewrite footer_step_some. rewrite ext_of_version. unfold footer_rule_res, footer_ext_of.
    destruct (trim_ascii_ws (footer_of d)); reflexivity. }
  split.
  - intros [([st footer] & Hs & Hf) Hb0]. apply (select_iff d st footer Hd) in Hs.
    destruct Hs as [(Hl & _) | (Hl & -> & ->)].
    + destruct (v1_layout_version d Hl) as (_ & Hx & _). contradiction.
    + destruct (selected_hyps d _ Hd (or_intror (conj Hl eq_refl))) as (ts & f' & _ & Hh).
      apply (finish_accepts _ ts _ z Hh) in Hf. destruct Hf as (Hbo & rule & Hr & Hc & ->).
      cbn [st_header state_at] in Hr. apply Hrr in Hr. destruct Hr as [Ht Hr].
      rewrite Hl, Hbo, Ht, Hr, Hc. auto.
  - intros [Ha ->].
    apply andb_prop in Ha. destruct Ha as [Ha Hc]. apply andb_prop in Ha. destruct Ha as [Ha Ht].
    apply andb_prop in Ha. destruct Ha as [Hl Hbo].
    destruct (v23_layout_version d Hl) as (_ & Hb0 & _). split; [|exact Hb0].
    destruct (selected_hyps d _ Hd (or_intror (conj Hl eq_refl))) as (ts & f' & _ & Hh).
    exists (state_at d (off2 d) 8, Some (footer_of d)). split; [apply select_iff; [exact Hd|right; auto]|].
    apply (finish_accepts _ ts _ _ Hh). split; [exact Hbo|].
    destruct (footer_rule_res d) as [[rule|e]| |] eqn:Er; try discriminate Hc.
    exists rule. split; [|split; [exact Hc|reflexivity]].
    cbn [st_header state_at]. apply Hrr. auto.
Qed.

Theorem accepts_iff d z : data_ok d ->
  parse d = Val (Ok z) <-> tzif_accepts d = true /\ z = tzif_zone d.
Proof.
  intros Hd. unfold tzif_accepts, tzif_zone. pose proof (v1_accepts_iff d z Hd) as H1. pose proof (v23_accepts_iff d z Hd) as H2.
  destruct (byte_at d 4 =? 0) eqn:E0.
  - assert (Hb : byte_at d 4 = 0) by lia.
    assert (Hn : tzif_v23_accepts d = false).
    { destruct (tzif_v23_accepts d) eqn:E; [|reflexivity]. unfold tzif_v23_accepts in E.
      apply andb_prop in E. destruct E as [E _]. apply andb_prop in E. destruct E as [E _]. apply andb_prop in E. destruct E as [E _].
      destruct (v23_layout_version d E) as (_ & Hx & _). contradiction. }
    rewrite Hn, orb_false_r. split; [intros H; apply H1; auto|intros H; apply H1 in H; apply H].
  - assert (Hb : byte_at d 4 <> 0) by lia.
    assert (Hn : tzif_v1_accepts d = false).
    { destruct (tzif_v1_accepts d) eqn:E; [|reflexivity].
      change (tzif_v1_accepts d) with (v1_layout_ok d && block_ok (state_at d 0 4)) in E.
      apply andb_prop in E. destruct E as [E _]. destruct (v1_layout_version d E) as (_ & Hx & _). contradiction. }
    rewrite Hn. cbn [orb]. split; [intros H; apply H2; auto|intros H; apply H2 in H; apply H].
Qed.

(** ** the two rejections, for every file: the layout is fine (so that the type records are
    reached) and some record of the decoded block has offset i32::MIN / an unterminated designation *)
Theorem rejects_min_offset d st r : data_ok d -> selected d st ->
  In r (blk_ltt_recs (st_local_time_types st)) -> rec_utoff r = -2147483648 ->
  tzif_accepts d = false /\ exists e, parse d = Val (Err e) /\ (e = EInvalidTzFile \/ e = ELocalTimeType).
Proof.
  intros Hd Hsel Hin Hr. destruct (selected_hyps d st Hd Hsel) as (ts & footer & Hs & Hh).
  destruct (finish_rejects_min_offset st ts footer r Hh Hin Hr) as (e & He & Hee).
  assert (Hp : parse d = Val (Err e)) by (rewrite parse_select, Hs; exact He).
  split; [|exists e; auto].
  destruct (tzif_accepts d) eqn:E; [|reflexivity].
  pose proof (proj2 (accepts_iff d (tzif_zone d) Hd) (conj E eq_refl)) as Hx. rewrite Hp in Hx. discriminate.
Qed.
Theorem rejects_unterminated d st r : data_ok d -> selected d st ->
  In r (blk_ltt_recs (st_local_time_types st)) ->
  has_nul (skipn (Z.to_nat (rec_idx r)) (st_names st)) = false ->
  tzif_accepts d = false /\ exists e, parse d = Val (Err e) /\ (e = EInvalidTzFile \/ e = ELocalTimeType).
Proof.
  intros Hd Hsel Hin Hr. destruct (selected_hyps d st Hd Hsel) as (ts & footer & Hs & Hh).
  destruct (finish_rejects_unterminated st ts footer r Hh Hin Hr) as (e & He & Hee).
  assert (Hp : parse d = Val (Err e)) by (rewrite parse_select, Hs; exact He).
  split; [|exists e; auto].
  destruct (tzif_accepts d) eqn:E; [|reflexivity].
  pose proof (proj2 (accepts_iff d (tzif_zone d) Hd) (conj E eq_refl)) as Hx. rewrite Hp in Hx. discriminate.
Qed.
(* the exact error: the first refused record of the decoded block decides *)
Theorem first_bad_record d st pre r post e : data_ok d -> selected d st ->
  blk_ltt_recs (st_local_time_types st) = pre ++ r :: post ->
  forallb (ltt_rec_ok (st_names st)) pre = true -> ltt_res (st_names st) r = Err e ->
  parse d = Val (Err e).
Proof.
  intros Hd Hsel Hsplit Hpre Hr. destruct (selected_hyps d st Hd Hsel) as (ts & footer & Hs & Hh).
  rewrite parse_select, Hs. exact (finish_first_bad_record st ts footer pre r post e Hh Hsplit Hpre Hr).
Qed.

(** ** Witnesses on concrete files (headers by the specification writer Spec/TzWriter.v) *)
Definition table_terminated : bytes := [76; 77; 84; 0; 69; 83; 84; 0; 69; 68; 84; 0].   (* LMT\0EST\0EDT\0 *)
Definition table_unterminated : bytes := [76; 77; 84; 0; 69; 83; 84; 0; 69; 68; 84].    (* LMT\0EST\0EDT *)
(* version 1, one type: utoff = i32::MIN, isdst 0, designation index 3 (a NUL: empty designation) *)
Definition file_min_offset_v1 : bytes :=
  tzif_header_full 0 0 0 0 0 1 12 ++ be32 (-2147483648) ++ [0; 3] ++ table_terminated.
(* the same record in the 64-bit block of a version 2 file *)
Definition file_min_offset_v2 : bytes :=
  tzif_block_full 50 4 slim_zone [] [] ++ tzif_header_full 50 0 0 0 0 1 12 ++ be32 (-2147483648) ++ [0; 3]
  ++ table_terminated ++ [10; 10].
(* the neighbour i32::MIN + 1 is accepted *)
Definition file_min_plus_one_v1 : bytes :=
  tzif_header_full 0 0 0 0 0 1 12 ++ be32 (-2147483647) ++ [0; 3] ++ table_terminated.
(* version 1, one type: utoff -18000, designation index 8 = "EDT" with no NUL after it inside the table *)
Definition file_unterminated_v1 : bytes :=
  tzif_header_full 0 0 0 0 0 1 11 ++ be32 (-18000) ++ [0; 8] ++ table_unterminated.
Definition file_unterminated_v2 : bytes :=
  tzif_block_full 50 4 slim_zone [] [] ++ tzif_header_full 50 0 0 0 0 1 11 ++ be32 (-18000) ++ [0; 8]
  ++ table_unterminated ++ [10; 10].
Definition file_berlin_v2 : bytes :=
  write_tzif_v23_full 50 slim_zone [] [] example_berlin example_berlin_std example_berlin_ut.

Lemma data_ok_b (d : bytes) : (zlen d <? i64_max) && forallb (fun b => (0 <=? b) && (b <? 256)) d = true -> data_ok d.
Proof. intros H. apply andb_prop in H. destruct H as [H1 H2]. split; [lia|apply byte_forallb; exact H2]. Qed.

Lemma accept_examples :
  (data_ok example_v1_file /\ tzif_v1_accepts example_v1_file = true /\ tzif_accepts example_v1_file = true /\
   parse example_v1_file = Val (Ok (tzif_zone example_v1_file))) /\
  (data_ok file_berlin_v2 /\ tzif_v23_accepts file_berlin_v2 = true /\ tzif_accepts file_berlin_v2 = true /\
   parse file_berlin_v2 = Val (Ok (tzif_zone file_berlin_v2)) /\ tzif_zone file_berlin_v2 = example_berlin) /\
  (data_ok file_min_plus_one_v1 /\ tzif_accepts file_min_plus_one_v1 = true /\
   tzif_zone file_min_plus_one_v1 = mk_tz [] [mk_ltt (-2147483647) false None] [] None).
Proof.
  repeat split; try (apply data_ok_b; vm_compute; reflexivity); vm_compute; reflexivity.
Qed.
Lemma reject_examples :
  (data_ok file_min_offset_v1 /\ selected file_min_offset_v1 (state_at file_min_offset_v1 0 4) /\
   tzif_accepts file_min_offset_v1 = false /\ parse file_min_offset_v1 = Val (Err ELocalTimeType)) /\
  (data_ok file_min_offset_v2 /\ selected file_min_offset_v2 (state_at file_min_offset_v2 (off2 file_min_offset_v2) 8) /\
   tzif_accepts file_min_offset_v2 = false /\ parse file_min_offset_v2 = Val (Err ELocalTimeType)) /\
  (data_ok file_unterminated_v1 /\ selected file_unterminated_v1 (state_at file_unterminated_v1 0 4) /\
   tzif_accepts file_unterminated_v1 = false /\ parse file_unterminated_v1 = Val (Err EInvalidTzFile)) /\
  (data_ok file_unterminated_v2 /\ selected file_unterminated_v2 (state_at file_unterminated_v2 (off2 file_unterminated_v2) 8) /\
   tzif_accepts file_unterminated_v2 = false /\ parse file_unterminated_v2 = Val (Err EInvalidTzFile)).
Proof.
  repeat split; try (apply data_ok_b; vm_compute; reflexivity);
    try (left; split; [vm_compute; reflexivity|reflexivity]);
    try (right; split; [vm_compute; reflexivity|reflexivity]);
    vm_compute; reflexivity.
Qed.
