(** C15 -- the item-driven reader keeps the field state TYPED (every field holds a value of its Rust
    type, Proofs/C14.v [typed]): whatever [parse_item] / [parse_items] / [parse_rfc2822] /
    [parse_rfc3339_relaxed] of Model/Parse.v hand back on success was built from a typed state by the
    Parsed::set_* methods only, with arguments the scanners produced (a digit run below 2^63, a weekday
    0..6, an am/pm flag 0/1).  Together with the slice-safety theorems of Proofs/C13Total.v this gives the
    premise of C14's resolution theorems (to_naive_date / to_naive_time / to_naive_datetime_with_offset /
    to_datetime return by value on every typed state) for the `parse_from_str` family.
    Partial correctness only (inversion of the monads): no well-formedness premise on the input. *)
From Coq Require Import ZArith List Bool Lia ZifyBool.
From V Require Import Base.Int Base.IntLemmas Base.IO Base.Utf8 Gen.ScanTables Model.Scan Model.Items Gen.ParseTable Model.Parse.
From V Require Model.Parsed Proofs.C14 Proofs.C14Zoned.
Import ListNotations.
Open Scope Z_scope.
Ltac Zify.zify_post_hook ::= Z.to_euclidean_division_equations.

Module P14 := V.Proofs.C14.
Module P14Z := V.Proofs.C14Zoned.
Notation typed := P14.typed.

(** * inversion of the two monads *)
Lemma bind_inv {X Y} (x : R X) (f : X -> R Y) r : bind x f = Val r -> exists a, x = Val a /\ f a = Val r.
Proof. destruct x; cbn; intros H; try discriminate. eauto. Qed.
Lemma pbind_inv {X Y} (x : PR X) (f : X -> PR Y) r :
  pbind x f = Val (POk r) -> exists a, x = Val (POk a) /\ f a = Val (POk r).
Proof. destruct x as [[a|e]| |]; cbn; intros H; try discriminate. eauto. Qed.
(* one step: [H : pbind x f = Val (POk r)] or [H : bind x f = Val r] becomes the equation of [x] and [H] about [f a] *)
Ltac pinv H a E :=
  first
  [ apply pbind_inv in H; destruct H as (a & E & H)
  | apply bind_inv in H; destruct H as (a & E & H) ];
  cbv beta in H.
Lemma pok_inj {A} (a b : A) : pok a = Val (POk b) -> a = b.
Proof. unfold pok. intros H. injection H as H. exact H. Qed.

(** * the setters *)
Ltac ftype_range :=
  let R := fresh "R" in
  intros R; cbn [P14.ftype]; rewrite ?P14.as_i32_small, ?P14.as_u32_small by (unfold i32_max, u32_max in *; lia);
  unfold in_i32, in_range, i32_min, i32_max, u32_max in *; lia.
Lemma setq_checked_typed f lo hi cast p v q : typed p -> (lo <= v <= hi -> P14.ftype f (cast v)) ->
  setq (Parsed.set_checked f lo hi cast p v) = Val (POk q) -> typed q.
Proof.
  intros T Ht H. destruct (Parsed.set_checked f lo hi cast p v) as [q' [u|e]] eqn:E; cbn [setq] in H; [|discriminate].
  apply pok_inj in H. subst q'. exact (proj1 (P14.set_checked_step _ _ _ _ _ _ _ _ T E Ht)).
Qed.
Lemma setq_ifc_typed f p v q : typed p -> P14.ftype f v ->
  setq (Parsed.set_if_consistent f p v) = Val (POk q) -> typed q.
Proof.
  intros T Ht H. destruct (Parsed.set_if_consistent f p v) as [q' [u|e]] eqn:E; cbn [setq] in H; [|discriminate].
  apply pok_inj in H. subst q'. exact (P14Z.set_ifc_typed _ _ _ _ _ T E Ht).
Qed.
Lemma set_hour_typed p v q : typed p -> (let* r := Parsed.set_hour p v in setq r) = Val (POk q) -> typed q.
Proof.
  intros T H. apply bind_inv in H. destruct H as ([q' [u|e]] & E & H); cbn [setq] in H; [|discriminate].
  apply pok_inj in H. subst q'. exact (proj1 (P14.set_hour_step p v q u T E)).
Qed.
Lemma set_hour12_typed p v q : typed p -> setq (Parsed.set_hour12 p v) = Val (POk q) -> typed q.
Proof.
  intros T H. unfold Parsed.set_hour12 in H. destruct (Parsed.contains 1 12 v) eqn:Ec; cbn [negb] in H; [|discriminate].
  apply (setq_ifc_typed _ _ _ _ T) in H; [exact H|]. cbn [P14.ftype]. unfold Parsed.contains in Ec.
  destruct (v =? 12); rewrite P14.as_u32_small by (unfold u32_max; lia); unfold u32_max; lia.
Qed.

Lemma zassoc_in {A} k : forall (l : list (Z * A)) v, zassoc k l = Some v -> In v (map snd l).
Proof.
  induction l as [|[k' v'] l IH]; intros v H; cbn [zassoc] in H; [discriminate|].
  destruct (k =? k'); [injection H as <-; left; reflexivity|right; exact (IH v H)].
Qed.
Definition wd_b (v : Z) : bool := (0 <=? v) && (v <=? 6).
Lemma wd_tables : forallb wd_b (map snd PN_WD_FROM_SUN) = true /\ forallb wd_b (map snd PN_WD_FROM_MON) = true.
Proof. split; reflexivity. Qed.
Lemma wd_table_typed (t : list (Z * Z)) p v q : forallb wd_b (map snd t) = true -> typed p ->
  match zassoc v t with Some wd => setq (Parsed.set_weekday p wd) | None => perr_ OutOfRange end = Val (POk q) -> typed q.
Proof.
  intros Ht T H. destruct (zassoc v t) as [wd|] eqn:E; [|discriminate].
  apply zassoc_in in E. pose proof (proj1 (forallb_forall _ _) Ht wd E) as Hw. unfold wd_b in Hw.
  unfold Parsed.set_weekday in H. apply (setq_ifc_typed _ _ _ _ T) in H; [exact H|]. cbn [P14.ftype]. lia.
Qed.

(** every setter reachable from the Numeric table, with an i64 argument *)
Lemma set_by_code_typed code p v q : typed p -> in_i64 v = true -> set_by_code code p v = Val (POk q) -> typed q.
Proof.
  intros T Hv. unfold set_by_code.
  repeat match goal with
  | |- (if ?c then _ else _) = _ -> _ => destruct c
  end; try discriminate;
  try (unfold Parsed.set_year, Parsed.set_year_div_100, Parsed.set_year_mod_100, Parsed.set_isoyear, Parsed.set_isoyear_div_100,
         Parsed.set_isoyear_mod_100, Parsed.set_quarter, Parsed.set_month, Parsed.set_week_from_sun, Parsed.set_week_from_mon,
         Parsed.set_isoweek, Parsed.set_ordinal, Parsed.set_day, Parsed.set_minute, Parsed.set_second, Parsed.set_nanosecond,
         Parsed.set_offset;
       apply (setq_checked_typed _ _ _ _ _ _ _ T); ftype_range).
  - exact (set_hour12_typed p v q T).
  - exact (set_hour_typed p v q T).
  - unfold Parsed.set_timestamp. apply (setq_ifc_typed _ _ _ _ T). exact Hv.
  - exact (wd_table_typed _ p v q (proj1 wd_tables) T).
  - exact (wd_table_typed _ p v q (proj2 wd_tables) T).
Qed.

(** * what the scanners hand on *)
(* a digit run: 0 <= v <= i64::MAX *)
Lemma number_loop_val s : forall l i min max n r v, 0 <= n <= i64_max ->
  number_loop s l i min max n = Val (POk (r, v)) -> 0 <= v <= i64_max.
Proof.
  assert (Hend : forall max n r v, 0 <= n <= i64_max -> number_end s max n = Val (POk (r, v)) -> 0 <= v <= i64_max).
  { intros max n r v Hn H. unfold number_end in H. apply bind_inv in H. destruct H as (rest & _ & H).
    apply pok_inj in H. injection H as _ <-. exact Hn. }
  induction l as [|c t IH]; intros i min max n r v Hn H; cbn [number_loop] in H.
  - exact (Hend _ _ _ _ Hn H).
  - destruct (max <=? i); [exact (Hend _ _ _ _ Hn H)|].
    destruct (negb (is_ascii_digit c)).
    + destruct (i <? min); [discriminate|]. apply bind_inv in H. destruct H as (rest & _ & H).
      apply pok_inj in H. injection H as _ <-. exact Hn.
    + unfold checked_mul, checked_add, chko in H. destruct (in_i64 (n * 10)) eqn:E1; [|discriminate].
      apply bind_inv in H. destruct H as (d & Ed & H). unfold sub_u8, chk in Ed.
      destruct (in_u8 (c - 48)) eqn:E2; [|discriminate]. injection Ed as <-.
      destruct (in_i64 (n * 10 + (c - 48))) eqn:E3; [|discriminate].
      apply (IH _ _ _ _ _ _) in H; [exact H|].
      unfold in_i64, in_u8, in_range, i64_min, i64_max, u8_max in *. lia.
Qed.
Lemma number_val s min max r v : number s min max = Val (POk (r, v)) -> 0 <= v <= i64_max.
Proof.
  unfold number. intros H. apply bind_inv in H. destruct H as (u & _ & H).
  destruct (blen s <? min); [discriminate|]. apply (number_loop_val s s 0 min max 0 r v); [unfold i64_max; lia|exact H].
Qed.
Lemma number_in_i64 s min max r v : number s min max = Val (POk (r, v)) -> in_i64 v = true.
Proof. intros H. apply number_val in H. unfold in_i64, in_range, i64_min, i64_max in *. lia. Qed.

Lemma assoc_bytes_in k : forall (t : list (bytes * Z)) v, assoc_bytes k t = Some v -> In v (map snd t).
Proof.
  induction t as [|[k' v'] t IH]; intros v H; cbn [assoc_bytes] in H; [discriminate|].
  destruct (bytes_eqb k k'); [injection H as <-; left; reflexivity|right; exact (IH v H)].
Qed.
Lemma weekday_arms : forallb wd_b (map snd SHORT_WEEKDAY_ARMS) = true.
Proof. reflexivity. Qed.
Lemma short_weekday_val s r v : short_weekday s = Val (POk (r, v)) -> 0 <= v <= 6.
Proof.
  unfold short_weekday. intros H. destruct (blen s <? SHORT_WEEKDAY_LEN); [discriminate|].
  apply bind_inv in H. destruct H as (key & _ & H).
  destruct (assoc_bytes key SHORT_WEEKDAY_ARMS) as [wd|] eqn:E; [|discriminate].
  apply bind_inv in H. destruct H as (rest & _ & H). apply pok_inj in H. injection H as _ <-.
  apply assoc_bytes_in in E. pose proof (proj1 (forallb_forall _ _) weekday_arms wd E) as Hw. unfold wd_b in Hw. lia.
Qed.
Lemma short_or_long_weekday_val s r v : short_or_long_weekday s = Val (POk (r, v)) -> 0 <= v <= 6.
Proof.
  unfold short_or_long_weekday. intros H. apply pbind_inv in H. destruct H as ([s1 wd] & E & H).
  apply bind_inv in H. destruct H as (suffix & _ & H). apply bind_inv in H. destruct H as (s2 & _ & H).
  apply pok_inj in H. injection H as _ <-. exact (short_weekday_val _ _ _ E).
Qed.
Definition ampm_b (v : Z) : bool := (0 <=? v) && (v <=? 1).
Lemma ampm_arms : forallb ampm_b (map snd P_AMPM_ARMS) = true.
Proof. reflexivity. Qed.

(** * one item *)
Definition keeps (f : Parsed.parsed -> bytes -> PR (Parsed.parsed * bytes)) : Prop :=
  forall p s q r, typed p -> f p s = Val (POk (q, r)) -> typed q.

(* [let+ p := setq (set_x ..) in pok (p, s)] *)
Lemma set_then_typed (x : PR Parsed.parsed) (s : bytes) q r :
  (forall q', x = Val (POk q') -> typed q') -> (let+ p := x in pok (p, s)) = Val (POk (q, r)) -> typed q.
Proof. intros Hx H. apply pbind_inv in H. destruct H as (q' & E & H). apply pok_inj in H. injection H as <- _. exact (Hx _ E). Qed.

Lemma consume_number_typed p s lohi code q r : typed p -> consume_number p s lohi code = Val (POk (q, r)) -> typed q.
Proof.
  intros T H. unfold consume_number in H. apply pbind_inv in H. destruct H as ([s' v] & E & H).
  revert H. apply set_then_typed. intros q'. apply set_by_code_typed; [exact T|exact (number_in_i64 _ _ _ _ _ E)].
Qed.

Lemma parse_numeric_typed spec : keeps (fun p s => parse_numeric p s spec).
Proof.
  intros p s q r T H. unfold parse_numeric in H. destruct (zassoc (numeric_idx spec) PN_TABLE) as [[[width signed] code]|]; [|discriminate].
  cbv zeta in H. apply pbind_inv in H. destruct H as ([s' v] & E & H).
  revert H. apply set_then_typed. intros q'. apply set_by_code_typed; [exact T|].
  destruct signed.
  - destruct (starts_with_byte (trim_start s) 45).
    + apply bind_inv in E. destruct E as (s1 & _ & E). apply pbind_inv in E. destruct E as ([s_ v0] & En & E).
      apply number_val in En. unfold checked_sub, chko in E. destruct (in_i64 (0 - v0)) eqn:Ei; [|discriminate].
      apply pok_inj in E. injection E as _ <-. exact Ei.
    + destruct (starts_with_byte (trim_start s) 43).
      * apply bind_inv in E. destruct E as (s1 & _ & E). exact (number_in_i64 _ _ _ _ _ E).
      * exact (number_in_i64 _ _ _ _ _ E).
  - exact (number_in_i64 _ _ _ _ _ E).
Qed.

Lemma set_offset_typed p v q : typed p -> setq (Parsed.set_offset p v) = Val (POk q) -> typed q.
Proof. intros T. unfold Parsed.set_offset. apply (setq_checked_typed _ _ _ _ _ _ _ T). ftype_range. Qed.
Lemma set_nanosecond_typed p v q : typed p -> setq (Parsed.set_nanosecond p v) = Val (POk q) -> typed q.
Proof. intros T. unfold Parsed.set_nanosecond. apply (setq_checked_typed _ _ _ _ _ _ _ T). ftype_range. Qed.
Lemma set_month_typed p v q : typed p -> setq (Parsed.set_month p v) = Val (POk q) -> typed q.
Proof. intros T. unfold Parsed.set_month. apply (setq_checked_typed _ _ _ _ _ _ _ T). ftype_range. Qed.
Lemma set_year_typed p v q : typed p -> setq (Parsed.set_year p v) = Val (POk q) -> typed q.
Proof. intros T. unfold Parsed.set_year. apply (setq_checked_typed _ _ _ _ _ _ _ T). ftype_range. Qed.
Lemma set_weekday_typed p v q : typed p -> 0 <= v <= 6 -> setq (Parsed.set_weekday p v) = Val (POk q) -> typed q.
Proof. intros T Hv. unfold Parsed.set_weekday. apply (setq_ifc_typed _ _ _ _ T). cbn [P14.ftype]. exact Hv. Qed.

Lemma parse_tz_item_typed idx : keeps (fun p s => parse_tz_item p s idx).
Proof.
  intros p s q r T H. unfold parse_tz_item in H. destruct (zassoc idx P_TZ_FLAGS) as [[[az am] ams]|]; [|discriminate].
  apply pbind_inv in H. destruct H as ([s' off] & _ & H). revert H. apply set_then_typed. intros q'. exact (set_offset_typed _ _ _ T).
Qed.
Lemma parse_dot_nanosecond_typed : keeps parse_dot_nanosecond.
Proof.
  intros p s q r T H. unfold parse_dot_nanosecond in H. destruct (starts_with_byte s 46).
  - apply bind_inv in H. destruct H as (s1 & _ & H). apply pbind_inv in H. destruct H as ([s' nano] & _ & H).
    revert H. apply set_then_typed. intros q'. exact (set_nanosecond_typed _ _ _ T).
  - apply pok_inj in H. injection H as <- _. exact T.
Qed.
Lemma parse_nodot_typed idx : keeps (fun p s => parse_nodot p s idx).
Proof.
  intros p s q r T H. unfold parse_nodot in H. destruct (zassoc idx P_NODOT) as [[minlen digits]|]; [|discriminate].
  destruct (blen s <? minlen); [discriminate|]. apply pbind_inv in H. destruct H as ([s' nano] & _ & H).
  revert H. apply set_then_typed. intros q'. exact (set_nanosecond_typed _ _ _ T).
Qed.
Lemma parse_ampm_typed : keeps parse_ampm.
Proof.
  intros p s q r T H. unfold parse_ampm in H. destruct (blen s <? P_AMPM_LEN); [discriminate|].
  apply bind_inv in H. destruct H as (a & _ & H). apply bind_inv in H. destruct H as (b & _ & H).
  destruct (assoc_bytes _ P_AMPM_ARMS) as [ampm|] eqn:E; [|discriminate].
  apply assoc_bytes_in in E. pose proof (proj1 (forallb_forall _ _) ampm_arms ampm E) as Hw. unfold ampm_b in Hw.
  apply pbind_inv in H. destruct H as (q' & Eq & H). apply bind_inv in H. destruct H as (s' & _ & H).
  apply pok_inj in H. injection H as <- _.
  unfold Parsed.set_ampm in Eq. apply (setq_ifc_typed _ _ _ _ T) in Eq; [exact Eq|]. cbn [P14.ftype]. unfold u32_max. lia.
Qed.

(** * the RFC 2822 item *)
Lemma parse_rfc2822_typed : keeps parse_rfc2822.
Proof.
  intros p s q r T H. unfold parse_rfc2822 in H. cbv zeta in H.
  (* optional weekday *)
  apply pbind_inv in H. destruct H as ([p1 s1] & E1 & H).
  assert (T1 : typed p1).
  { apply bind_inv in E1. destruct E1 as ([[s_ wd]|e] & Ew & E1).
    - destruct (negb (starts_with_byte s_ 44)); [discriminate|].
      apply bind_inv in E1. destruct E1 as (s1' & _ & E1). revert E1. apply set_then_typed. intros q'.
      exact (set_weekday_typed _ _ _ T (short_weekday_val _ _ _ Ew)).
    - apply pok_inj in E1. injection E1 as <- _. exact T. }
  clear E1 T.
  (* day *)
  apply pbind_inv in H. destruct H as ([p2 s2] & E2 & H). apply (consume_number_typed _ _ _ _ _ _ T1) in E2. clear T1.
  apply pbind_inv in H. destruct H as (s3 & _ & H).
  (* month *)
  apply pbind_inv in H. destruct H as ([s4 month0] & _ & H).
  apply bind_inv in H. destruct H as (month & _ & H).
  apply pbind_inv in H. destruct H as (p3 & E3 & H). apply (set_month_typed _ _ _ E2) in E3. clear E2.
  apply pbind_inv in H. destruct H as (s5 & _ & H).
  (* year *)
  apply pbind_inv in H. destruct H as ([s6 year] & _ & H).
  apply bind_inv in H. destruct H as (yearlen & _ & H).
  apply bind_inv in H. destruct H as (year' & _ & H).
  apply pbind_inv in H. destruct H as (p4 & E4 & H). apply (set_year_typed _ _ _ E3) in E4. clear E3.
  apply pbind_inv in H. destruct H as (s7 & _ & H).
  (* hour, minute *)
  apply pbind_inv in H. destruct H as ([p5 s8] & E5 & H). apply (consume_number_typed _ _ _ _ _ _ E4) in E5. clear E4.
  apply pbind_inv in H. destruct H as (s9 & _ & H).
  apply pbind_inv in H. destruct H as ([p6 s10] & E6 & H). apply (consume_number_typed _ _ _ _ _ _ E5) in E6. clear E5.
  (* optional second *)
  apply pbind_inv in H. destruct H as ([p7 s11] & E7 & H).
  assert (T7 : typed p7).
  { apply bind_inv in E7. destruct E7 as ([s_|e] & _ & E7).
    - exact (consume_number_typed _ _ _ _ _ _ E6 E7).
    - apply pok_inj in E7. injection E7 as <- _. exact E6. }
  clear E6 E7.
  apply pbind_inv in H. destruct H as (s12 & _ & H).
  (* zone, comments *)
  apply pbind_inv in H. destruct H as ([s13 off] & _ & H).
  apply pbind_inv in H. destruct H as (p8 & E8 & H). apply (set_offset_typed _ _ _ T7) in E8.
  apply bind_inv in H. destruct H as (s14 & _ & H). apply pok_inj in H. injection H as <- _. exact E8.
Qed.

(** * Fixed items, one item, an item list *)
Lemma parse_fixed_typed relaxed spec : keeps relaxed -> keeps (fun p s => parse_fixed relaxed p s spec).
Proof.
  intros Hr p s q r T H. unfold parse_fixed in H.
  destruct spec as [ | | | | | | | | | | | | | | | | | | | i]; [..|destruct i];
    try exact (parse_ampm_typed _ _ _ _ T H); try exact (parse_dot_nanosecond_typed _ _ _ _ T H);
    try exact (parse_tz_item_typed _ _ _ _ _ T H); try exact (parse_nodot_typed _ _ _ _ _ T H);
    try exact (parse_rfc2822_typed _ _ _ _ T H); try exact (Hr _ _ _ _ T H).
  5: { apply pok_inj in H. injection H as <- _. exact T. }
  all: apply pbind_inv in H; destruct H as ([s' v] & E & H).
  1-2: apply bind_inv in H; destruct H as (m & _ & H); revert H; apply set_then_typed; intros q'; exact (set_month_typed _ _ _ T).
  - revert H. apply set_then_typed. intros q'. exact (set_weekday_typed _ _ _ T (short_weekday_val _ _ _ E)).
  - revert H. apply set_then_typed. intros q'. exact (set_weekday_typed _ _ _ T (short_or_long_weekday_val _ _ _ E)).
Qed.

Lemma parse_item_typed relaxed it : keeps relaxed -> keeps (fun p s => parse_item relaxed p s it).
Proof.
  intros Hr p s q r T H. destruct it as [l|l|spec pad|spec|]; cbn [parse_item] in H.
  - destruct (blen s <? blen l); [discriminate|]. destruct (negb (starts_with s l)); [discriminate|].
    apply bind_inv in H. destruct H as (r' & _ & H). apply pok_inj in H. injection H as <- _. exact T.
  - apply pok_inj in H. injection H as <- _. exact T.
  - exact (parse_numeric_typed spec _ _ _ _ T H).
  - exact (parse_fixed_typed relaxed spec Hr _ _ _ _ T H).
  - discriminate.
Qed.

Lemma parse_items_typed relaxed : keeps relaxed -> forall items, keeps (fun p s => parse_items relaxed p s items).
Proof.
  intros Hr. induction items as [|it items IH]; intros p s q r T H; cbn [parse_items] in H.
  - apply pok_inj in H. injection H as <- _. exact T.
  - apply pbind_inv in H. destruct H as ([p1 s1] & E & H).
    exact (IH _ _ _ _ (parse_item_typed relaxed it Hr _ _ _ _ T E) H).
Qed.

Lemma parse_rfc3339_relaxed_typed : keeps parse_rfc3339_relaxed.
Proof.
  assert (Hno : keeps (fun (_ : Parsed.parsed) (_ : bytes) => @OutOfFuel (presult (Parsed.parsed * bytes)))).
  { intros p s q r _ H. discriminate. }
  intros p s q r T H. unfold parse_rfc3339_relaxed in H. cbv zeta in H.
  apply pbind_inv in H. destruct H as ([p1 s1] & E1 & H). apply (parse_items_typed _ Hno _ _ _ _ _ T) in E1.
  apply pbind_inv in H. destruct H as (s2 & _ & H).
  apply pbind_inv in H. destruct H as ([p2 s3] & E2 & H). apply (parse_items_typed _ Hno _ _ _ _ _ E1) in E2.
  apply bind_inv in H. destruct H as (utc & _ & H).
  apply pbind_inv in H. destruct H as ([s4 off] & _ & H).
  revert H. apply set_then_typed. intros q'. exact (set_offset_typed _ _ _ E2).
Qed.

(** * parse_internal / parse / parse_and_remainder and the lazily driven loop of the entry points *)
Theorem parse_internal_typed items : keeps (fun p s => parse_internal p s items).
Proof. exact (parse_items_typed _ parse_rfc3339_relaxed_typed items). Qed.
Theorem parse_typed items p s q : typed p -> parse p s items = Val (POk q) -> typed q.
Proof.
  intros T H. unfold parse, parse_end in H. apply pbind_inv in H. destruct H as ([p1 s1] & E & H).
  destruct (is_empty s1); [|discriminate]. apply pok_inj in H. subst p1. exact (parse_internal_typed items _ _ _ _ T E).
Qed.
Theorem parse_sf_loop_typed : forall fuel p s st q r, typed p -> parse_sf_loop fuel p s st = Val (POk (q, r)) -> typed q.
Proof.
  induction fuel as [|f IH]; intros p s st q r T H; cbn [parse_sf_loop] in H; [discriminate|].
  apply bind_inv in H. destruct H as ([o st'] & _ & H). destruct o as [it|].
  - apply pbind_inv in H. destruct H as ([p1 s1] & E & H).
    exact (IH _ _ _ _ _ (parse_item_typed _ it parse_rfc3339_relaxed_typed _ _ _ _ T E) H).
  - apply pok_inj in H. injection H as <- _. exact T.
Qed.
