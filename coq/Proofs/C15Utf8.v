(** C15 -- the two executable statements of UTF-8 well-formedness in the models (Model/Strftime.v, local to the
    format-string iterator, and Base/Utf8.v, shared by the text scanners) accept the same byte strings. *)
From Coq Require Import ZArith List Bool Lia ZifyBool.
From V Require Import Base.Int Base.IO.
From V Require Base.Utf8 Model.Strftime.
Import ListNotations.
Open Scope Z_scope.

Lemma utf8_valid_eq_n : forall n s, (List.length s <= n)%nat -> Model.Strftime.utf8_valid s = Base.Utf8.utf8_valid s.
Proof.
  induction n as [|n IH]; intros s Hn.
  - destruct s; [reflexivity|cbn in Hn; lia].
  - destruct s as [|a r]; [reflexivity|]. cbn [Model.Strftime.utf8_valid Base.Utf8.utf8_valid].
    unfold Model.Strftime.is_cont, Base.Utf8.cont.
    destruct ((0 <=? a) && (a <? 128)) eqn:E1.
    { replace ((0 <=? a) && (a <=? 127)) with true by lia. apply IH. cbn in Hn; lia. }
    replace ((0 <=? a) && (a <=? 127)) with false by lia.
    destruct ((194 <=? a) && (a <? 224)) eqn:E2.
    { replace ((194 <=? a) && (a <=? 223)) with true by lia. destruct r as [|b r']; [reflexivity|].
      rewrite (IH r') by (cbn in Hn |- *; lia). generalize (Base.Utf8.utf8_valid r'). intros t. lia. }
    replace ((194 <=? a) && (a <=? 223)) with false by lia.
    destruct ((224 <=? a) && (a <? 240)) eqn:E3.
    { replace ((224 <=? a) && (a <=? 239)) with true by lia. destruct r as [|b [|c r']]; try reflexivity.
      rewrite (IH r') by (cbn in Hn |- *; lia). generalize (Base.Utf8.utf8_valid r'). intros t.
      destruct (a =? 224) eqn:Ea; destruct (a =? 237) eqn:Eb; lia. }
    replace ((224 <=? a) && (a <=? 239)) with false by lia.
    destruct ((240 <=? a) && (a <? 245)) eqn:E4.
    { replace ((240 <=? a) && (a <=? 244)) with true by lia. destruct r as [|b [|c [|d r']]]; try reflexivity.
      rewrite (IH r') by (cbn in Hn |- *; lia). generalize (Base.Utf8.utf8_valid r'). intros t.
      destruct (a =? 240) eqn:Ea; destruct (a =? 244) eqn:Eb; lia. }
    replace ((240 <=? a) && (a <=? 244)) with false by lia. reflexivity.
Qed.
Theorem utf8_valid_eq s : Model.Strftime.utf8_valid s = Base.Utf8.utf8_valid s.
Proof. exact (utf8_valid_eq_n (List.length s) s (le_n _)). Qed.
