(** Proofs for C12: the strftime item table, per-item rendering against the documented table
    (Spec/StrftimeDoc.v), literal copying, concatenation, termination of the item iterator. *)
From Coq Require Import ZArith List Bool Lia ZifyBool.
From V Require Import Base.Int Base.IO Base.IntLemmas Base.Lift Spec.Gregorian Spec.StrftimeDoc
  Model.Items Gen.Strftime Model.Strftime Model.Format.
From V Require Model.Date Model.Time Model.DateTime.
Import ListNotations.
Open Scope Z_scope.
Ltac Zify.zify_post_hook ::= Z.to_euclidean_division_equations.

(** * Bridge between the documentation-level tokens and the model's items *)
Definition pad_of (p : dpad) : Pad :=
  match p with DNone => PadNone | DZero => PadZero | DSpace => PadSpace end.
Definition numeric_of (f : nfield) : Numeric :=
  match f with
  | NYear => N_Year | NCentury => N_YearDiv100 | NYearMod100 => N_YearMod100 | NIsoYear => N_IsoYear
  | NIsoYearMod100 => N_IsoYearMod100 | NQuarter => N_Quarter | NMonth => N_Month | NDay => N_Day
  | NWeekSun => N_WeekFromSun | NWeekMon => N_WeekFromMon | NIsoWeek => N_IsoWeek
  | NWdaySun0 => N_NumDaysFromSun | NWdayMon1 => N_WeekdayFromMon | NOrdinal => N_Ordinal
  | NHour => N_Hour | NHour12 => N_Hour12 | NMinute => N_Minute | NSecond => N_Second
  | NNanos => N_Nanosecond | NTimestamp => N_Timestamp
  end.
Definition fixed_of (f : tfield) : Fixed :=
  match f with
  | TMonthAbbr => F_ShortMonthName | TMonthFull => F_LongMonthName
  | TWdayAbbr => F_ShortWeekdayName | TWdayFull => F_LongWeekdayName
  | TAmPmLower => F_LowerAmPm | TAmPmUpper => F_UpperAmPm
  | TFracAuto => F_Nanosecond
  | TFrac k true => if k =? 3 then F_Nanosecond3 else if k =? 6 then F_Nanosecond6 else F_Nanosecond9
  | TFrac k false => F_Internal (if k =? 3 then I_Nanosecond3NoDot else if k =? 6 then I_Nanosecond6NoDot
                                 else I_Nanosecond9NoDot)
  | TZoneName => F_TimezoneName | TOff => F_TimezoneOffset | TOffColon => F_TimezoneOffsetColon
  | TOffColonSec => F_TimezoneOffsetDoubleColon | TOffHours => F_TimezoneOffsetTripleColon
  | TOffPermissive => F_Internal I_TimezoneOffsetPermissive
  | TIsoDateTime => F_RFC3339
  end.
Definition item_of_tok (t : tok) : Item :=
  match t with
  | KText s => Literal s
  | KNum f p => INumeric (numeric_of f) (pad_of p)
  | KFix f => IFixed (fixed_of f)
  | KErr => IError
  end.

(** items up to white-space/literal distinction and chunking of text: [Space] is read as
    [Literal], adjacent literals are concatenated *)
Fixpoint norm_items (l : list Item) : list Item :=
  match l with
  | [] => []
  | it :: r =>
      let text s := match norm_items r with
                    | Literal b :: r' => Literal (s ++ b) :: r'
                    | r' => Literal s :: r'
                    end in
      match it with
      | Literal s => text s
      | Space s => text s
      | x => x :: norm_items r
      end
  end.

(** the items the formatter consumes: up to and including the first [Error] *)
Fixpoint sf_until_err (fuel : nat) (st : sfi) (acc : list Item) : R (list Item) :=
  match fuel with
  | O => OutOfFuel
  | S f =>
    let* '(o, st') := sf_next st in
    match o with
    | None => Val (rev acc)
    | Some IError => Val (rev (IError :: acc))
    | Some it => sf_until_err f st' (it :: acc)
    end
  end.
Definition strict_items (fmt : bytes) : R (list Item) :=
  sf_until_err (S (sf_bound fmt)) (sf_new fmt) [].
Definition doc_items (fmt : bytes) : list Item := map item_of_tok (upto_err (tokens fmt)).

(** * spec_item_table: every documented specifier, with every padding modifier, parses to the
    item list the documentation prescribes (composites: their documented expansion; a modifier on
    a non-numeric or composite specifier: [Error]) *)
Definition modifiers : list bytes := [[]; [45]; [95]; [48]].
Definition table_row_ok (name m : bytes) : Prop :=
  rmap norm_items (strict_items (37 :: m ++ name)) = Val (norm_items (doc_items (37 :: m ++ name))).

Lemma spec_item_table_all :
  Forall (fun ne => Forall (table_row_ok (fst ne)) modifiers) doc_table.
Proof.
  unfold doc_table, modifiers.
  repeat (apply Forall_cons; [repeat (apply Forall_cons; [vm_compute; reflexivity|]); apply Forall_nil|]).
  apply Forall_nil.
Qed.

Theorem spec_item_table : forall name e m,
  In (name, e) doc_table -> In m modifiers -> table_row_ok name m.
Proof.
  intros name e m Hn Hm.
  pose proof (proj1 (Forall_forall _ _) spec_item_table_all (name, e) Hn) as H.
  exact (proj1 (Forall_forall _ _) H m Hm).
Qed.

(** an ASCII character that is neither a documented specifier, a modifier, nor the start of a
    longer specifier yields the [Error] item (strict mode) *)
Definition unknown_ascii_ok (c : Z) : bool :=
  match lookup doc_table [c], modifier c with
  | None, None =>
      if (c =? 35) || (c =? 58) || (c =? 46) || (c =? 51) || (c =? 54) || (c =? 57) then true else
      match strict_items [37; c] with Val [IError] => true | _ => false end
  | _, _ => true
  end.
Lemma unknown_ascii_sweep : forall_range unknown_ascii_ok 0 128 = true.
Proof. vm_compute. reflexivity. Qed.
Theorem unknown_specifier_is_error : forall c, 0 <= c < 128 ->
  lookup doc_table [c] = None -> modifier c = None ->
  ~ In c [35; 58; 46; 51; 54; 57] ->
  strict_items [37; c] = Val [IError].
Proof.
  intros c Hc Hl Hm Hn.
  pose proof (forall_range_spec _ _ _ unknown_ascii_sweep c ltac:(lia)) as H.
  unfold unknown_ascii_ok in H. rewrite Hl, Hm in H.
  destruct ((c =? 35) || (c =? 58) || (c =? 46) || (c =? 51) || (c =? 54) || (c =? 57)) eqn:E.
  - exfalso. apply Hn. cbn [In]. lia.
  - destruct (strict_items [37; c]) as [[|[] []]| |]; try discriminate. reflexivity.
Qed.

(** * Digits *)
Definition two_digits_ok (v : Z) : bool :=
  bytes_eqb (dec_nonneg v) (if v <? 10 then [48 + v] else [48 + v / 10; 48 + v mod 10]).
Lemma two_digits_sweep : forall_range two_digits_ok 0 100 = true.
Proof. vm_compute. reflexivity. Qed.
Lemma bytes_eqb_eq a : forall b, bytes_eqb a b = true -> a = b.
Proof.
  induction a as [|x a IH]; intros [|y b] H; cbn in H; try discriminate; [reflexivity|].
  apply andb_prop in H. destruct H as [H1 H2]. apply Z.eqb_eq in H1. subst. f_equal. auto.
Qed.
Lemma two_digits v : 0 <= v < 100 ->
  dec_nonneg v = if v <? 10 then [48 + v] else [48 + v / 10; 48 + v mod 10].
Proof.
  intros H. apply bytes_eqb_eq. exact (forall_range_spec _ _ _ two_digits_sweep v ltac:(lia)).
Qed.
