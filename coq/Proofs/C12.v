(** Proofs for C12: the strftime item table, per-item rendering against the documented table
    (Spec/StrftimeDoc.v), literal copying, concatenation, termination of the item iterator. *)
From Coq Require Import ZArith List Bool Lia ZifyBool.
From V Require Import Base.Int Base.IO Base.IntLemmas Base.Lift Spec.Gregorian Spec.StrftimeDoc
  Model.Items Gen.Strftime Gen.Locales Model.Strftime Model.Format.
From V Require Model.Date Model.Time Model.DateTime.
Import ListNotations.
Open Scope Z_scope.
Ltac Zify.zify_post_hook ::= Z.to_euclidean_division_equations.

(** * Bridge between the documentation-level tokens and the model's items *)
Definition pad_of (p : dpad) : Pad :=
  match p with DNone => PadNone | DZero => PadZero | DSpace => PadSpace end.
Definition numeric_of (f : nfield) : Numeric :=
  match f with
  | NYear => N_Year | NCentury => N_YearDiv100 | NYearMod100 => N_YearMod100 | NIsoYear => N_IsoYear
  | NIsoYearMod100 => N_IsoYearMod100 | NQuarter => N_Quarter | NMonth => N_Month | NDay => N_Day
  | NWeekSun => N_WeekFromSun | NWeekMon => N_WeekFromMon | NIsoWeek => N_IsoWeek
  | NWdaySun0 => N_NumDaysFromSun | NWdayMon1 => N_WeekdayFromMon | NOrdinal => N_Ordinal
  | NHour => N_Hour | NHour12 => N_Hour12 | NMinute => N_Minute | NSecond => N_Second
  | NNanos => N_Nanosecond | NTimestamp => N_Timestamp
  end.
Definition fixed_of (f : tfield) : Fixed :=
  match f with
  | TMonthAbbr => F_ShortMonthName | TMonthFull => F_LongMonthName
  | TWdayAbbr => F_ShortWeekdayName | TWdayFull => F_LongWeekdayName
  | TAmPmLower => F_LowerAmPm | TAmPmUpper => F_UpperAmPm
  | TFracAuto => F_Nanosecond
  | TFrac k true => if k =? 3 then F_Nanosecond3 else if k =? 6 then F_Nanosecond6 else F_Nanosecond9
  | TFrac k false => F_Internal (if k =? 3 then I_Nanosecond3NoDot else if k =? 6 then I_Nanosecond6NoDot
                                 else I_Nanosecond9NoDot)
  | TZoneName => F_TimezoneName | TOff => F_TimezoneOffset | TOffColon => F_TimezoneOffsetColon
  | TOffColonSec => F_TimezoneOffsetDoubleColon | TOffHours => F_TimezoneOffsetTripleColon
  | TOffPermissive => F_Internal I_TimezoneOffsetPermissive
  | TIsoDateTime => F_RFC3339
  end.
Definition item_of_tok (t : tok) : Item :=
  match t with
  | KText s => Literal s
  | KNum f p => INumeric (numeric_of f) (pad_of p)
  | KFix f => IFixed (fixed_of f)
  | KErr => IError
  end.

(** items up to white-space/literal distinction and chunking of text: [Space] is read as
    [Literal], adjacent literals are concatenated *)
Fixpoint norm_items (l : list Item) : list Item :=
  match l with
  | [] => []
  | it :: r =>
      let text s := match norm_items r with
                    | Literal b :: r' => Literal (s ++ b) :: r'
                    | r' => Literal s :: r'
                    end in
      match it with
      | Literal s => text s
      | Space s => text s
      | x => x :: norm_items r
      end
  end.

(** the items the formatter consumes: up to and including the first [Error] *)
Fixpoint sf_until_err (fuel : nat) (st : sfi) (acc : list Item) : R (list Item) :=
  match fuel with
  | O => OutOfFuel
  | S f =>
    let* '(o, st') := sf_next st in
    match o with
    | None => Val (rev acc)
    | Some IError => Val (rev (IError :: acc))
    | Some it => sf_until_err f st' (it :: acc)
    end
  end.
Definition strict_items (fmt : bytes) : R (list Item) :=
  sf_until_err (S (sf_bound fmt)) (sf_new fmt) [].
Definition doc_items (fmt : bytes) : list Item := map item_of_tok (upto_err (tokens fmt)).

(** * spec_item_table: every documented specifier, with every padding modifier, parses to the
    item list the documentation prescribes (composites: their documented expansion; a modifier on
    a non-numeric or composite specifier: [Error]) *)
Definition modifiers : list bytes := [[]; [45]; [95]; [48]].
Definition table_row_ok (name m : bytes) : Prop :=
  rmap norm_items (strict_items (37 :: m ++ name)) = Val (norm_items (doc_items (37 :: m ++ name))).

Lemma spec_item_table_all :
  Forall (fun ne => Forall (table_row_ok (fst ne)) modifiers) doc_table.
Proof.
  unfold doc_table, modifiers.
  repeat (apply Forall_cons; [repeat (apply Forall_cons; [vm_compute; reflexivity|]); apply Forall_nil|]).
  apply Forall_nil.
Qed.

Theorem spec_item_table : forall name e m,
  In (name, e) doc_table -> In m modifiers -> table_row_ok name m.
Proof.
  intros name e m Hn Hm.
  pose proof (proj1 (Forall_forall _ _) spec_item_table_all (name, e) Hn) as H.
  exact (proj1 (Forall_forall _ _) H m Hm).
Qed.

(** an ASCII character that is neither a documented specifier, a modifier, nor the start of a
    longer specifier yields the [Error] item (strict mode) *)
Definition unknown_ascii_ok (c : Z) : bool :=
  match lookup doc_table [c], modifier c with
  | None, None =>
      if (c =? 35) || (c =? 58) || (c =? 46) || (c =? 51) || (c =? 54) || (c =? 57) then true else
      match strict_items [37; c] with Val [IError] => true | _ => false end
  | _, _ => true
  end.
Lemma unknown_ascii_sweep : forall_range unknown_ascii_ok 0 128 = true.
Proof. vm_compute. reflexivity. Qed.
Theorem unknown_specifier_is_error : forall c, 0 <= c < 128 ->
  lookup doc_table [c] = None -> modifier c = None ->
  ~ In c [35; 58; 46; 51; 54; 57] ->
  strict_items [37; c] = Val [IError].
Proof.
  intros c Hc Hl Hm Hn.
  pose proof (forall_range_spec _ _ _ unknown_ascii_sweep c ltac:(lia)) as H.
  unfold unknown_ascii_ok in H. rewrite Hl, Hm in H.
  destruct ((c =? 35) || (c =? 58) || (c =? 46) || (c =? 51) || (c =? 54) || (c =? 57)) eqn:E.
  - exfalso. apply Hn. cbn [In]. lia.
  - destruct (strict_items [37; c]) as [[|[] []]| |]; try discriminate. reflexivity.
Qed.

(** * Digits *)
Definition two_digits_ok (v : Z) : bool :=
  bytes_eqb (dec_nonneg v) (if v <? 10 then [48 + v] else [48 + v / 10; 48 + v mod 10]).
Lemma two_digits_sweep : forall_range two_digits_ok 0 100 = true.
Proof. vm_compute. reflexivity. Qed.
Lemma bytes_eqb_eq a : forall b, bytes_eqb a b = true -> a = b.
Proof.
  induction a as [|x a IH]; intros [|y b] H; cbn in H; try discriminate; [reflexivity|].
  apply andb_prop in H. destruct H as [H1 H2]. apply Z.eqb_eq in H1. subst. f_equal. auto.
Qed.
Lemma two_digits v : 0 <= v < 100 ->
  dec_nonneg v = if v <? 10 then [48 + v] else [48 + v / 10; 48 + v mod 10].
Proof.
  intros H. apply bytes_eqb_eq. exact (forall_range_spec _ _ _ two_digits_sweep v ltac:(lia)).
Qed.

(** * Numbers: the writers of formatting.rs against the documentation-level [pad_num] *)
Definition fres_eqb (a : fres) (s : bytes) : bool :=
  match a with Val (Some t) => bytes_eqb t s | _ => false end.
Lemma fres_eqb_eq a s : fres_eqb a s = true -> a = fok s.
Proof.
  destruct a as [[t|]| |]; cbn; try discriminate. intros H. apply bytes_eqb_eq in H. subst. reflexivity.
Qed.
Definition all_pads : list dpad := [DNone; DZero; DSpace].
Lemma all_pads_in p : In p all_pads. Proof. destruct p; cbn; auto. Qed.

Definition write_two_ok (v : Z) : bool :=
  forallb (fun p => fres_eqb (write_two v (pad_of p)) (pad_num p 2 false v)) all_pads.
Lemma write_two_sweep : forall_range write_two_ok 0 100 = true.
Proof. vm_compute. reflexivity. Qed.
Lemma write_two_spec v p : 0 <= v < 100 -> write_two v (pad_of p) = fok (pad_num p 2 false v).
Proof.
  intros H. apply fres_eqb_eq.
  pose proof (forall_range_spec _ _ _ write_two_sweep v ltac:(lia)) as Hs.
  unfold write_two_ok in Hs. rewrite forallb_forall in Hs. apply Hs, all_pads_in.
Qed.

Definition write_one_ok (v : Z) : bool :=
  forallb (fun p => fres_eqb (write_one v) (pad_num p 1 false v)) all_pads.
Lemma write_one_sweep : forall_range write_one_ok 0 10 = true.
Proof. vm_compute. reflexivity. Qed.
Lemma write_one_spec v p : 0 <= v < 10 -> write_one v = fok (pad_num p 1 false v).
Proof.
  intros H. apply fres_eqb_eq.
  pose proof (forall_range_spec _ _ _ write_one_sweep v ltac:(lia)) as Hs.
  unfold write_one_ok in Hs. rewrite forallb_forall in Hs. apply Hs, all_pads_in.
Qed.

Definition write_hundreds_ok (v : Z) : bool := fres_eqb (write_hundreds v) (pad_num DZero 2 false v).
Lemma write_hundreds_sweep : forall_range write_hundreds_ok 0 100 = true.
Proof. vm_compute. reflexivity. Qed.
Lemma write_hundreds_spec v : 0 <= v < 100 -> write_hundreds v = fok (pad_num DZero 2 false v).
Proof.
  intros H. apply fres_eqb_eq. exact (forall_range_spec _ _ _ write_hundreds_sweep v ltac:(lia)).
Qed.

Lemma blen_app (a b : bytes) : blen (a ++ b) = blen a + blen b.
Proof. unfold blen. rewrite app_length. lia. Qed.

Lemma rep_eq (c : Z) a b : a = b -> repeat c (Z.to_nat a) = repeat c (Z.to_nat b).
Proof. intros ->. reflexivity. Qed.
Lemma rep_nonpos (c : Z) a (x : bytes) : a <= 0 -> repeat c (Z.to_nat a) ++ x = x.
Proof. intros H. replace (Z.to_nat a) with 0%nat by lia. reflexivity. Qed.

(* write_n is pad_num, for every integer *)
Lemma write_n_spec n v p always : 0 <= n < 1000 ->
  write_n n v (pad_of p) always = fok (pad_num p n always v).
Proof.
  intros Hn. unfold write_n, pad_num, fmt_int, digits, rep, dlen, blen.
  assert (Hu : add_usize n 1 = Val (n + 1)).
  { unfold add_usize. apply chk_in. unfold in_usize, in_u64, in_range, u64_max. lia. }
  destruct always, p; cbn [pad_of]; rewrite ?Hu; cbv [bind fok]; do 2 f_equal;
    destruct (v <? 0); cbn [List.length];
    try (rewrite rep_nonpos by lia; reflexivity);
    try (f_equal; f_equal; apply rep_eq; lia);
    try (f_equal; apply rep_eq; lia).
Qed.

Definition write_year_ok (y : Z) : bool :=
  forallb (fun p => fres_eqb (write_year y (pad_of p)) (pad_num p 4 false y)) all_pads.
Lemma write_year_sweep : forall_range write_year_ok 1000 9000 = true.
Proof. vm_compute. reflexivity. Qed.
Lemma write_year_spec y p : in_i32 y = true ->
  write_year y (pad_of p) = fok (pad_num p 4 ((y <? 0) || (9999 <? y)) y).
Proof.
  intros Hy. destruct ((1000 <=? y) && (y <=? 9999)) eqn:E.
  - replace ((y <? 0) || (9999 <? y)) with false by lia.
    apply fres_eqb_eq.
    pose proof (forall_range_spec _ _ _ write_year_sweep y ltac:(lia)) as Hs.
    unfold write_year_ok in Hs. rewrite forallb_forall in Hs. apply Hs, all_pads_in.
  - unfold write_year. rewrite E.
    replace (negb ((0 <=? y) && (y <? 10000))) with ((y <? 0) || (9999 <? y)) by lia.
    apply write_n_spec. lia.
Qed.

(** * Views: how a model value denotes a specification-level value *)
(* the calendar reading of a packed [NaiveDate]: discharged for every date by C01's theorems *)
Record date_view (d dn : Z) : Prop := mk_dv {
  dv_dn : in_i32 dn = true;
  dv_year : Date.d_year d = year_of_dn dn /\ in_i32 (year_of_dn dn) = true;
  dv_ymd : exists y m dd, ymd_of_dn dn = (y, m, dd) /\ Date.d_month d = Val m /\ Date.d_day d = Val dd
                          /\ 1 <= m <= 12 /\ 1 <= dd <= 31;
  dv_ordinal : Date.d_ordinal d = ordinal_of_dn dn /\ 1 <= ordinal_of_dn dn <= 366;
  dv_weekday : Date.d_weekday d = Val (weekday_of_dn dn);
  dv_iso : exists w, Date.d_iso_week d = Val w /\ Date.iw_year w = fst (iso_of_dn dn)
                     /\ Date.iw_week w = snd (iso_of_dn dn)
                     /\ 1 <= snd (iso_of_dn dn) <= 53 /\ in_i32 (fst (iso_of_dn dn)) = true;
  dv_ndce : Date.num_days_from_ce d = Val dn
}.
Definition time_view (t : Time.ntime) (s nano : Z) (leap : bool) : Prop :=
  Time.tsecs t = s /\ 0 <= s < 86400 /\ 0 <= nano < 1000000000 /\
  Time.tfrac t = nano + (if leap then 1000000000 else 0).

Record args_view (a : fmt_args) (sv : sval) : Prop := mk_av {
  av_date : match fa_date a, sv_dn sv with
            | Some d, Some dn => date_view d dn | None, None => True | _, _ => False end;
  av_time : match fa_time a, sv_sod sv with
            | Some t, Some s => time_view t s (sv_nano sv) (sv_leap sv) | None, None => True | _, _ => False end;
  av_off : match fa_off a, sv_off sv with
           | Some (name, off), Some o =>
               off = o /\ -86400 < o < 86400 /\
               (if sv_utc sv then name = utc_display /\ o = 0 else fixed_offset_display o = Val name)
           | None, None => True | _, _ => False end;
  av_unix : match sv_unix sv with
            | Some u => exists dn s, sv_dn sv = Some dn /\ sv_sod sv = Some s /\
                        u = unix_secs dn s - (match sv_off sv with Some o => o | None => 0 end)
            | None => sv_dn sv = None \/ sv_sod sv = None
            end
}.

Definition claim (r : rres) (out : fres) : Prop :=
  match r with ROk s => out = fok s | RFail => out = ferr | RSkip => True end.

Lemma as_u8_small x : 0 <= x < 256 -> as_u8 x = x.
Proof. intros H. apply as_u8_id. unfold in_u8, in_range, u8_max. lia. Qed.
Lemma in_i32_bounds z : in_i32 z = true -> -2147483648 <= z <= 2147483647.
Proof. unfold in_i32, in_range, i32_min, i32_max. lia. Qed.
Lemma chk_i32 z : -2147483648 <= z <= 2147483647 -> chk in_i32 z = Val z.
Proof. intros. apply chk_in. unfold in_i32, in_range, i32_min, i32_max. lia. Qed.
Lemma chk_u32 z : 0 <= z <= 4294967295 -> chk in_u32 z = Val z.
Proof. intros. apply chk_in. unfold in_u32, in_range, u32_max. lia. Qed.
Lemma chk_i64 z : -9223372036854775808 <= z <= 9223372036854775807 -> chk in_i64 z = Val z.
Proof. intros. apply chk_in. unfold in_i64, in_range, i64_min, i64_max. lia. Qed.

Lemma wd_days_since_spec a b : 0 <= a <= 6 -> 0 <= b <= 6 -> wd_days_since a b = Val ((a - b) mod 7).
Proof.
  intros Ha Hb. unfold wd_days_since, add_u32, sub_u32.
  destruct (a <? b) eqn:E.
  - rewrite chk_u32 by lia. cbv [bind]. rewrite chk_u32 by lia. f_equal. lia.
  - rewrite chk_u32 by lia. f_equal. lia.
Qed.

Lemma weeks_from_spec d dn day : date_view d dn -> 0 <= day <= 6 ->
  weeks_from d day = Val (weeks_on_or_before (ordinal_of_dn dn) ((weekday_of_dn dn - day) mod 7)).
Proof.
  intros V Hd. destruct V as [_ _ _ [Ho Hor] Hw _ _].
  unfold weeks_from. rewrite Hw. cbv [bind].
  assert (Hwd : 0 <= weekday_of_dn dn <= 6) by (unfold weekday_of_dn; lia).
  rewrite wd_days_since_spec by lia. cbv [bind]. rewrite Ho.
  set (o := ordinal_of_dn dn) in *. set (s := (weekday_of_dn dn - day) mod 7).
  assert (Hs : 0 <= s <= 6) by (unfold s; lia).
  rewrite (as_i32_id o) by (unfold in_i32, in_range, i32_min, i32_max; lia).
  rewrite (as_i32_id s) by (unfold in_i32, in_range, i32_min, i32_max; lia).
  unfold sub_i32, add_i32. rewrite chk_i32 by lia. cbv [bind]. rewrite chk_i32 by lia. cbv [bind].
  unfold div_i32. rewrite div_t_nz by lia. rewrite chk_i32 by lia.
  f_equal. unfold weeks_on_or_before. destruct (o - s <? 1) eqn:E; lia.
Qed.

(** * render_item_spec, numeric items *)
Lemma div_euclid_100 y : in_i32 y = true -> div_euclid in_i32 y 100 = Val (y / 100).
Proof.
  intros H. apply in_i32_bounds in H. rewrite div_euclid_pos by lia. apply chk_i32. lia.
Qed.
Lemma rem_euclid_100 y : in_i32 y = true -> rem_euclid in_i32 y 100 = Val (y mod 100).
Proof.
  intros H. apply in_i32_bounds in H. rewrite rem_euclid_pos by lia.
  replace (in_i32 (y / 100)) with true; [reflexivity|].
  symmetry. unfold in_i32, in_range, i32_min, i32_max. lia.
Qed.

Lemma time_fields t s nano leap : time_view t s nano leap ->
  Time.hour t = s / 3600 /\ Time.minute t = s / 60 mod 60 /\ Time.second t = s mod 60 /\
  Z.quot (Time.nanosecond t) 1000000000 = (if leap then 1 else 0) /\
  Z.rem (Time.nanosecond t) 1000000000 = nano.
Proof.
  intros (Hs & Hr & Hn & Hf). unfold Time.hour, Time.minute, Time.second, Time.hms, Time.nanosecond,
    Time.urem, Time.udiv. rewrite Hs, Hf. destruct leap; repeat split; lia.
Qed.

Ltac time_case at_ sod ad Ht :=
  destruct at_ as [t|], sod as [s|]; try contradiction;
  [|destruct ad; cbn [claim]; reflexivity];
  destruct (time_fields _ _ _ _ Ht) as (Hh & Hmi & Hse & Hq & Hrm);
  pose proof Ht as (_ & Hsr & Hnr & _).

Theorem render_numeric_spec : forall a sv f p, args_view a sv ->
  claim (render_num sv f p) (format_numeric a (numeric_of f) (pad_of p)).
Proof.
  intros [ad at_ ao] [dn sod nano leap off utc unix] f p [Hd Ht Ho Hu].
  cbn [fa_date fa_time fa_off sv_dn sv_sod sv_nano sv_leap sv_off sv_utc sv_unix] in *.
  unfold render_num, num_value, format_numeric.
  cbn [fa_date fa_time fa_off sv_dn sv_sod sv_nano sv_leap sv_off sv_utc sv_unix].
  destruct (width_documented f p) eqn:Ewd; cbn [negb]; [|exact I].
  destruct f; cbn [numeric_of num_width].
  (* date fields *)
  all: try (destruct ad as [d|], dn as [dn|]; try contradiction; [|cbn [claim]; reflexivity];
            destruct (Hd) as [Hdn [Hy Hyr] (yy & m & dd & Hymd & Hm & Hdd & Hmr & Hddr) [Hord Hordr] Hwd
                              (w & Hw & Hwy & Hww & Hwr & Hwyr) Hnd]).
  - (* Year *) cbn [claim]. rewrite Hy. apply write_year_spec. exact Hyr.
  - (* Century *) cbn [claim]. rewrite Hy, div_euclid_100 by exact Hyr. cbv [bind]. apply write_n_spec. lia.
  - (* YearMod100 *)
    destruct (year_of_dn dn <? 0) eqn:E; cbn [claim]; [exact I|].
    rewrite Hy, rem_euclid_100 by exact Hyr. cbv [bind].
    rewrite as_u8_small by lia. apply write_two_spec. lia.
  - (* IsoYear *) cbn [claim]. rewrite Hw. cbv [bind]. rewrite Hwy. apply write_year_spec. exact Hwyr.
  - (* IsoYearMod100 *)
    destruct (fst (iso_of_dn dn) <? 0) eqn:E; cbn [claim]; [exact I|].
    rewrite Hw. cbv [bind]. rewrite Hwy, rem_euclid_100 by exact Hwyr. cbv [bind].
    rewrite as_u8_small by lia. apply write_two_spec. lia.
  - (* Quarter *) rewrite Hymd. cbn [claim]. unfold d_quarter, d_month0. rewrite Hm. cbv [bind].
    unfold sub_u32. rewrite chk_u32 by lia. cbv [bind].
    rewrite div_euclid_pos by lia. rewrite chk_u32 by lia. cbv [bind].
    unfold add_u32. rewrite chk_u32 by lia. cbv [bind].
    rewrite as_u8_small by lia. apply write_one_spec. lia.
  - (* Month *) rewrite Hymd. cbn [claim]. rewrite Hm. cbv [bind]. rewrite as_u8_small by lia.
    apply write_two_spec. lia.
  - (* Day *) rewrite Hymd. cbn [claim]. rewrite Hdd. cbv [bind]. rewrite as_u8_small by lia.
    apply write_two_spec. lia.
  - (* WeekSun *) cbn [claim]. rewrite (weeks_from_spec d dn WD_SUN Hd) by (unfold WD_SUN; lia). cbv [bind].
    unfold WD_SUN. replace ((weekday_of_dn dn - 6) mod 7) with ((weekday_of_dn dn + 1) mod 7) by lia.
    set (k := weeks_on_or_before _ _).
    assert (0 <= k < 100) by (unfold k, weeks_on_or_before; destruct (_ <? 1); lia).
    rewrite as_u8_small by lia. apply write_two_spec. lia.
  - (* WeekMon *) cbn [claim]. rewrite (weeks_from_spec d dn WD_MON Hd) by (unfold WD_MON; lia). cbv [bind].
    unfold WD_MON. assert (Hwdr : 0 <= weekday_of_dn dn <= 6) by (unfold weekday_of_dn; lia).
    replace ((weekday_of_dn dn - 0) mod 7) with (weekday_of_dn dn) by lia.
    set (k := weeks_on_or_before _ _).
    assert (0 <= k < 100) by (unfold k, weeks_on_or_before; destruct (_ <? 1); lia).
    rewrite as_u8_small by lia. apply write_two_spec. lia.
  - (* IsoWeek *) cbn [claim]. rewrite Hw. cbv [bind]. rewrite Hww. rewrite as_u8_small by lia.
    apply write_two_spec. lia.
  - (* WdaySun0 *) cbn [claim]. rewrite Hwd. cbv [bind]. unfold wd_num_days_from_sunday, WD_SUN.
    assert (Hwdr : 0 <= weekday_of_dn dn <= 6) by (unfold weekday_of_dn; lia).
    rewrite wd_days_since_spec by lia. cbv [bind].
    replace ((weekday_of_dn dn - 6) mod 7) with ((weekday_of_dn dn + 1) mod 7) by lia.
    rewrite as_u8_small by lia. apply write_one_spec. lia.
  - (* WdayMon1 *) cbn [claim]. rewrite Hwd. cbv [bind]. unfold wd_number_from_monday, WD_MON.
    assert (Hwdr : 0 <= weekday_of_dn dn <= 6) by (unfold weekday_of_dn; lia).
    rewrite wd_days_since_spec by lia. cbv [bind]. unfold add_u32. rewrite chk_u32 by lia. cbv [bind].
    replace ((weekday_of_dn dn - 0) mod 7 + 1) with (weekday_of_dn dn + 1) by lia.
    rewrite as_u8_small by lia. apply write_one_spec. lia.
  - (* Ordinal *) cbn [claim]. rewrite Hord. apply write_n_spec. lia.
  (* time fields *)
  - (* Hour *) time_case at_ sod ad Ht. destruct ad; cbn [claim]; rewrite Hh, as_u8_small by lia; apply write_two_spec; lia.
  - (* Hour12 *) time_case at_ sod ad Ht.
    assert (E : snd (Time.hour12 t) = (if s / 3600 mod 12 =? 0 then 12 else s / 3600 mod 12)).
    { unfold Time.hour12. rewrite Hh. cbn [snd]. unfold Time.urem.
      replace (Z.rem (s / 3600) 12) with (s / 3600 mod 12) by lia. reflexivity. }
    destruct ad; cbn [claim]; rewrite E;
      (rewrite as_u8_small by (destruct (_ =? 0); lia)); apply write_two_spec; destruct (_ =? 0); lia.
  - (* Minute *) time_case at_ sod ad Ht. destruct ad; cbn [claim]; rewrite Hmi, as_u8_small by lia; apply write_two_spec; lia.
  - (* Second *) time_case at_ sod ad Ht.
    destruct ad; cbn [claim]; rewrite Hse, Hq; unfold add_u32;
      (rewrite chk_u32 by (destruct leap; lia)); cbv [bind];
      (rewrite as_u8_small by (destruct leap; lia)); apply write_two_spec; destruct leap; lia.
  - (* Nanos *) time_case at_ sod ad Ht. destruct ad; cbn [claim]; rewrite Hrm; apply write_n_spec; lia.
  - (* Timestamp *)
    destruct unix as [u|].
    + destruct Hu as (dn' & s' & E1 & E2 & Eu).
      destruct ad as [d|], dn as [dn|]; try contradiction; try discriminate.
      destruct at_ as [t|], sod as [s|]; try contradiction; try discriminate.
      injection E1 as <-. injection E2 as <-. cbn [claim].
      destruct Hd as [Hdn _ _ _ _ _ Hnd]. destruct Ht as (Hs & Hsr & _).
      unfold naive_timestamp, DateTime.dt_timestamp. cbn [DateTime.nd_date DateTime.nd_time].
      rewrite Hnd. cbv [bind]. unfold Time.num_seconds_from_midnight. rewrite Hs.
      apply in_i32_bounds in Hdn.
      unfold sub_i64, mul_i64, add_i64, Gen.DateTimeConsts.UNIX_EPOCH_DAY.
      rewrite chk_i64 by lia. cbv [bind]. rewrite chk_i64 by lia. cbv [bind]. rewrite chk_i64 by lia. cbv [bind].
      assert (Hoff : (match ao with Some (_, o) => o | None => 0 end) = (match off with Some o => o | None => 0 end)
                     /\ -86400 < (match off with Some o => o | None => 0 end) < 86400).
      { destruct ao as [[nm o]|], off as [o'|]; try contradiction; [|lia]. destruct Ho as (-> & Hr & _). lia. }
      destruct Hoff as [-> Hor]. rewrite chk_i64 by lia. cbv [bind].
      subst u. unfold unix_secs, EPOCH_DN.
      destruct p; try discriminate Ewd.
      rewrite (write_n_spec 9 _ DNone false) by lia. reflexivity.
    + cbn [claim]. destruct Hu as [E|E]; subst.
      * destruct ad; [contradiction|]. reflexivity.
      * destruct at_; [contradiction|]. destruct ad; reflexivity.
Qed.

(** * render_item_spec, fixed items *)
Definition month_names_ok (m : Z) : bool :=
  fres_eqb (nth_name LOC_SHORT_MONTHS (as_usize (m - 1))) (firstn 3 (nth_bytes month_names (m - 1)))
  && fres_eqb (nth_name LOC_LONG_MONTHS (as_usize (m - 1))) (nth_bytes month_names (m - 1)).
Lemma month_names_sweep : forall_range month_names_ok 1 12 = true.
Proof. vm_compute. reflexivity. Qed.
Definition weekday_names_ok (wd : Z) : bool :=
  fres_eqb (nth_name LOC_SHORT_WEEKDAYS (as_usize ((wd + 1) mod 7))) (firstn 3 (nth_bytes weekday_names wd))
  && fres_eqb (nth_name LOC_LONG_WEEKDAYS (as_usize ((wd + 1) mod 7))) (nth_bytes weekday_names wd).
Lemma weekday_names_sweep : forall_range weekday_names_ok 0 7 = true.
Proof. vm_compute. reflexivity. Qed.

(* offsets: symbolic in the sign and the absolute value *)
Lemma pad2_small h : 0 <= h < 10 -> pad_num DZero 2 false h = [48; 48 + h].
Proof.
  intros H. unfold pad_num, digits, rep, dlen. rewrite Z.abs_eq by lia. rewrite two_digits by lia.
  replace (h <? 0) with false by lia. replace (h <? 10) with true by lia. reflexivity.
Qed.
Definition off_sign (off : Z) : Z := if off <? 0 then 45 else 43.
Lemma offset_format_abs_minutes colons sign a : 0 <= a < 86400 ->
  offset_format_abs (mk_of OP_Minutes colons false PadZero) sign a =
  fok ([sign] ++ pad_num DZero 2 false ((a + 30) / 60 / 60)
       ++ (match colons with C_Colon => [58] | _ => [] end) ++ pad_num DZero 2 false ((a + 30) / 60 mod 60)).
Proof.
  intros Ha. unfold offset_format_abs. cbn [of_precision of_colons of_padding op_eqb andb].
  unfold add_i32, div_i32, rem_i32. rewrite chk_i32 by lia. cbv [bind].
  rewrite div_t_nz by lia.
  replace (Z.quot (a + 30) 60) with ((a + 30) / 60) by lia.
  set (mi := (a + 30) / 60). assert (Hmi : 0 <= mi <= 1440) by (unfold mi; lia).
  rewrite chk_i32 by lia. cbv beta iota.
  rewrite rem_t_nz by lia. replace (Z.quot mi 60) with (mi / 60) by lia.
  replace (Z.rem mi 60) with (mi mod 60) by lia.
  replace (in_i32 (mi / 60)) with true by (symmetry; unfold in_i32, in_range, i32_min, i32_max; lia).
  cbv beta iota. rewrite div_t_nz by lia. replace (Z.quot mi 60) with (mi / 60) by lia.
  rewrite chk_i32 by lia. cbv beta iota. rewrite !as_u8_small by lia.
  destruct (mi / 60 <? 10) eqn:E.
  - unfold add_u8. rewrite chk_in by (unfold in_u8, in_range, u8_max; lia).
    cbv [bind fseq fok]. rewrite write_hundreds_spec by lia. cbv [bind fok fseq].
    rewrite (pad2_small (mi / 60)) by lia. destruct colons; cbn [app]; rewrite ?app_nil_r; reflexivity.
  - cbv [fseq bind]. rewrite !write_hundreds_spec by lia. cbv [bind fok fseq].
    destruct colons; cbn [app]; rewrite ?app_nil_r; reflexivity.
Qed.
Lemma offset_format_abs_seconds sign a : 0 <= a < 86400 ->
  offset_format_abs (mk_of OP_Seconds C_Colon false PadZero) sign a =
  fok ([sign] ++ pad_num DZero 2 false (a / 3600) ++ [58] ++ pad_num DZero 2 false (a / 60 mod 60)
       ++ [58] ++ pad_num DZero 2 false (a mod 60)).
Proof.
  intros Ha. unfold offset_format_abs. cbn [of_precision of_colons of_padding op_eqb andb negb].
  unfold div_i32, rem_i32. cbv [bind].
  rewrite div_t_nz by lia. replace (Z.quot a 60) with (a / 60) by lia.
  set (mi := a / 60). assert (Hmi : 0 <= mi < 1440) by (unfold mi; lia).
  rewrite chk_i32 by lia. cbv beta iota.
  rewrite rem_t_nz by lia. replace (Z.quot a 60) with mi by (unfold mi; lia).
  replace (in_i32 mi) with true by (symmetry; unfold in_i32, in_range, i32_min, i32_max; lia).
  replace (Z.rem a 60) with (a mod 60) by lia. cbv beta iota.
  rewrite rem_t_nz by lia. replace (Z.quot mi 60) with (mi / 60) by lia.
  replace (Z.rem mi 60) with (mi mod 60) by lia.
  replace (in_i32 (mi / 60)) with true by (symmetry; unfold in_i32, in_range, i32_min, i32_max; lia).
  cbv beta iota. rewrite div_t_nz by lia. replace (Z.quot mi 60) with (mi / 60) by lia.
  rewrite chk_i32 by lia. cbv beta iota. rewrite !as_u8_small by lia.
  replace (a / 3600) with (mi / 60) by (unfold mi; lia).
  destruct (mi / 60 <? 10) eqn:E.
  - unfold add_u8. rewrite chk_in by (unfold in_u8, in_range, u8_max; lia).
    cbv [bind fseq fok]. rewrite !write_hundreds_spec by lia. cbv [bind fok fseq].
    rewrite (pad2_small (mi / 60)) by lia. cbn [app]. rewrite ?app_nil_r. reflexivity.
  - cbv [fseq bind]. rewrite !write_hundreds_spec by lia. cbv [bind fok fseq].
    cbn [app]. rewrite ?app_nil_r. reflexivity.
Qed.
Lemma offset_format_abs_hours sign a : 0 <= a < 86400 ->
  offset_format_abs (mk_of OP_Hours C_None false PadZero) sign a =
  fok ([sign] ++ pad_num DZero 2 false (a / 3600)).
Proof.
  intros Ha. unfold offset_format_abs. cbn [of_precision of_colons of_padding op_eqb andb negb].
  unfold div_i32. cbv [bind].
  rewrite div_t_nz by lia. replace (Z.quot a 3600) with (a / 3600) by lia.
  rewrite chk_i32 by lia. cbv beta iota. rewrite !as_u8_small by lia.
  destruct (a / 3600 <? 10) eqn:E.
  - unfold add_u8. rewrite chk_in by (unfold in_u8, in_range, u8_max; lia).
    cbv [bind fseq fok]. rewrite (pad2_small (a / 3600)) by lia. cbn [app]. reflexivity.
  - cbv [fseq bind]. rewrite !write_hundreds_spec by lia. cbv [bind fok fseq].
    cbn [app]. rewrite ?app_nil_r. reflexivity.
Qed.

Lemma offset_format_sign f off : -86400 < off < 86400 -> of_allow_zulu f = false ->
  offset_format f off = offset_format_abs f (off_sign off) (Z.abs off).
Proof.
  intros Ho Hz. unfold offset_format, off_sign. rewrite Hz. cbn [andb].
  destruct (off <? 0) eqn:E.
  - unfold neg_i32. rewrite chk_i32 by lia. cbv [bind]. rewrite Z.abs_neq by lia. reflexivity.
  - cbv [bind]. rewrite Z.abs_eq by lia. reflexivity.
Qed.

Lemma offset_text_unfold off colon mode :
  offset_text off colon mode =
  let a := Z.abs off in
  let sep := if colon then [58] else [] in
  [off_sign off] ++
  (if mode =? 0 then pad_num DZero 2 false ((a + 30) / 60 / 60) ++ sep ++ pad_num DZero 2 false ((a + 30) / 60 mod 60)
   else if mode =? 1 then pad_num DZero 2 false (a / 3600) ++ sep ++ pad_num DZero 2 false (a / 60 mod 60)
                          ++ sep ++ pad_num DZero 2 false (a mod 60)
   else pad_num DZero 2 false (a / 3600)).
Proof.
  unfold offset_text, off_sign. cbv zeta.
  destruct (mode =? 0); [|destruct (mode =? 1)]; destruct (off <? 0); reflexivity.
Qed.

Theorem offset_items_spec off : -86400 < off < 86400 ->
  offset_format (mk_of OP_Minutes C_Maybe false PadZero) off = fok (offset_text off false 0) /\
  offset_format (mk_of OP_Minutes C_Colon false PadZero) off = fok (offset_text off true 0) /\
  offset_format (mk_of OP_Seconds C_Colon false PadZero) off = fok (offset_text off true 1) /\
  offset_format (mk_of OP_Hours C_None false PadZero) off = fok (offset_text off false 2).
Proof.
  intros Ho. assert (Ha : 0 <= Z.abs off < 86400) by lia.
  rewrite !offset_format_sign by (try exact Ho; reflexivity).
  rewrite !offset_text_unfold. cbv zeta. cbn [Z.eqb].
  rewrite !offset_format_abs_minutes, offset_format_abs_seconds, offset_format_abs_hours by exact Ha.
  repeat split.
Qed.

(* Display for FixedOffset on whole-minute offsets *)
Lemma fixed_offset_display_minutes off : -86400 < off < 86400 -> off mod 60 = 0 ->
  fixed_offset_display off = Val (offset_text off true 0).
Proof.
  intros Ho Hm. rewrite offset_text_unfold. cbv zeta. cbn [Z.eqb].
  unfold fixed_offset_display.
  assert (E : (if off <? 0 then let* n := neg_i32 off in Val (45, n) else Val (43, off))
              = Val (off_sign off, Z.abs off)).
  { unfold off_sign. destruct (off <? 0) eqn:E.
    - unfold neg_i32. rewrite chk_i32 by lia. cbv [bind]. rewrite Z.abs_neq by lia. reflexivity.
    - rewrite Z.abs_eq by lia. reflexivity. }
  rewrite E. cbv [bind]. set (a := Z.abs off). assert (Ha : 0 <= a < 86400 /\ a mod 60 = 0) by (unfold a; lia).
  rewrite rem_euclid_pos by lia.
  replace (in_i32 (a / 60)) with true by (symmetry; unfold in_i32, in_range, i32_min, i32_max; lia).
  rewrite div_euclid_pos by lia. rewrite chk_i32 by lia.
  rewrite rem_euclid_pos by lia.
  replace (in_i32 (a / 60 / 60)) with true by (symmetry; unfold in_i32, in_range, i32_min, i32_max; lia).
  rewrite div_euclid_pos by lia. rewrite chk_i32 by lia.
  replace (a mod 60 =? 0) with true by lia. f_equal.
  replace ((a + 30) / 60) with (a / 60) by lia.
  assert (P : forall x, 0 <= x -> fmt_int false true 2 x = pad_num DZero 2 false x).
  { intros x Hx. unfold fmt_int, pad_num, digits, rep, dlen, blen. replace (x <? 0) with false by lia.
    cbn [List.length app]. f_equal. apply rep_eq. lia. }
  rewrite !P by lia. reflexivity.
Qed.

Lemma fmt_int_pad x n : 0 <= x -> fmt_int false true n x = pad_num DZero n false x.
Proof.
  intros Hx. unfold fmt_int, pad_num, digits, rep, dlen, blen. replace (x <? 0) with false by lia.
  cbn [List.length app]. f_equal. apply rep_eq. lia.
Qed.

Definition tfield_documented (f : tfield) : Prop :=
  match f with TFrac k _ => k = 3 \/ k = 6 \/ k = 9 | _ => True end.

Lemma frac_auto_spec n : 0 <= n < 1000000000 ->
  (if n =? 0 then fok []
   else if Z.rem n 1000000 =? 0 then fok (LOC_DECIMAL_POINT ++ fmt_int false true 3 (Z.quot n 1000000))
   else if Z.rem n 1000 =? 0 then fok (LOC_DECIMAL_POINT ++ fmt_int false true 6 (Z.quot n 1000))
   else fok (LOC_DECIMAL_POINT ++ fmt_int false true 9 n))
  = fok (if n =? 0 then []
         else if n mod 1000000 =? 0 then 46 :: frac_digits n 3
         else if n mod 1000 =? 0 then 46 :: frac_digits n 6
         else 46 :: frac_digits n 9).
Proof.
  intros Hn. unfold frac_digits, LOC_DECIMAL_POINT.
  change (10 ^ (9 - 3)) with 1000000. change (10 ^ (9 - 6)) with 1000. change (10 ^ (9 - 9)) with 1.
  replace (Z.rem n 1000000) with (n mod 1000000) by lia.
  replace (Z.rem n 1000) with (n mod 1000) by lia.
  replace (Z.quot n 1000000) with (n / 1000000) by lia.
  replace (Z.quot n 1000) with (n / 1000) by lia.
  rewrite Z.div_1_r. rewrite !fmt_int_pad by lia.
  destruct (n =? 0); [reflexivity|]. destruct (_ =? 0); [reflexivity|]. destruct (_ =? 0); reflexivity.
Qed.

Theorem render_fixed_spec : forall a sv f, args_view a sv -> tfield_documented f ->
  claim (render_fix sv f) (format_fixed a (fixed_of f)).
Proof.
  intros [ad at_ ao] [dn sod nano leap off utc unix] f [Hd Ht Ho Hu] Hdoc.
  cbn [fa_date fa_time fa_off sv_dn sv_sod sv_nano sv_leap sv_off sv_utc sv_unix] in *.
  unfold render_fix, format_fixed.
  cbn [fa_date fa_time fa_off sv_dn sv_sod sv_nano sv_leap sv_off sv_utc sv_unix].
  destruct f; cbn [fixed_of].
  - (* MonthAbbr *)
    destruct ad as [d|], dn as [dn|]; try contradiction; [|destruct at_, ao; cbn [claim]; reflexivity].
    destruct Hd as [_ _ (yy & m & dd & Hymd & Hm & Hdd & Hmr & Hddr) _ _ _ _].
    rewrite Hymd. cbn [claim]. unfold d_month0. rewrite Hm. cbv [bind]. unfold sub_u32. rewrite chk_u32 by lia.
    cbv [bind]. apply fres_eqb_eq.
    pose proof (forall_range_spec _ _ _ month_names_sweep m ltac:(lia)) as Hs.
    unfold month_names_ok in Hs. apply andb_prop in Hs. exact (proj1 Hs).
  - (* MonthFull *)
    destruct ad as [d|], dn as [dn|]; try contradiction; [|destruct at_, ao; cbn [claim]; reflexivity].
    destruct Hd as [_ _ (yy & m & dd & Hymd & Hm & Hdd & Hmr & Hddr) _ _ _ _].
    rewrite Hymd. cbn [claim]. unfold d_month0. rewrite Hm. cbv [bind]. unfold sub_u32. rewrite chk_u32 by lia.
    cbv [bind]. apply fres_eqb_eq.
    pose proof (forall_range_spec _ _ _ month_names_sweep m ltac:(lia)) as Hs.
    unfold month_names_ok in Hs. apply andb_prop in Hs. exact (proj2 Hs).
  - (* WdayAbbr *)
    destruct ad as [d|], dn as [dn|]; try contradiction; [|destruct at_, ao; cbn [claim]; reflexivity].
    destruct Hd as [_ _ _ _ Hwd _ _]. cbn [claim]. rewrite Hwd. cbv [bind].
    assert (Hwdr : 0 <= weekday_of_dn dn <= 6) by (unfold weekday_of_dn; lia).
    unfold wd_num_days_from_sunday, WD_SUN. rewrite wd_days_since_spec by lia. cbv [bind].
    replace ((weekday_of_dn dn - 6) mod 7) with ((weekday_of_dn dn + 1) mod 7) by lia.
    apply fres_eqb_eq.
    pose proof (forall_range_spec _ _ _ weekday_names_sweep (weekday_of_dn dn) ltac:(lia)) as Hs.
    unfold weekday_names_ok in Hs. apply andb_prop in Hs. exact (proj1 Hs).
  - (* WdayFull *)
    destruct ad as [d|], dn as [dn|]; try contradiction; [|destruct at_, ao; cbn [claim]; reflexivity].
    destruct Hd as [_ _ _ _ Hwd _ _]. cbn [claim]. rewrite Hwd. cbv [bind].
    assert (Hwdr : 0 <= weekday_of_dn dn <= 6) by (unfold weekday_of_dn; lia).
    unfold wd_num_days_from_sunday, WD_SUN. rewrite wd_days_since_spec by lia. cbv [bind].
    replace ((weekday_of_dn dn - 6) mod 7) with ((weekday_of_dn dn + 1) mod 7) by lia.
    apply fres_eqb_eq.
    pose proof (forall_range_spec _ _ _ weekday_names_sweep (weekday_of_dn dn) ltac:(lia)) as Hs.
    unfold weekday_names_ok in Hs. apply andb_prop in Hs. exact (proj2 Hs).
  - (* AmPmLower *)
    destruct at_ as [t|], sod as [s|]; try contradiction; [|destruct ad, ao; cbn [claim]; reflexivity].
    destruct (time_fields _ _ _ _ Ht) as (Hh & _). destruct Ht as (_ & Hsr & _).
    assert (E : fst (Time.hour12 t) = negb (s <? 43200)).
    { unfold Time.hour12. rewrite Hh. cbn [fst]. lia. }
    destruct ad; cbn [claim]; rewrite E; destruct (s <? 43200); reflexivity.
  - (* AmPmUpper *)
    destruct at_ as [t|], sod as [s|]; try contradiction; [|destruct ad, ao; cbn [claim]; reflexivity].
    destruct (time_fields _ _ _ _ Ht) as (Hh & _). destruct Ht as (_ & Hsr & _).
    assert (E : fst (Time.hour12 t) = negb (s <? 43200)).
    { unfold Time.hour12. rewrite Hh. cbn [fst]. lia. }
    destruct ad; cbn [claim]; rewrite E; destruct (s <? 43200); reflexivity.
  - (* FracAuto *)
    destruct at_ as [t|], sod as [s|]; try contradiction; [|destruct ad, ao; cbn [claim]; reflexivity].
    destruct (time_fields _ _ _ _ Ht) as (_ & _ & _ & _ & Hrm). destruct Ht as (_ & _ & Hnr & _).
    destruct ad; cbn [claim]; rewrite Hrm; apply frac_auto_spec; lia.
  - (* Frac k dot *)
    cbn [tfield_documented] in Hdoc.
    destruct at_ as [t|], sod as [s|]; try contradiction;
      [|destruct dot, (digits =? 3), (digits =? 6), ad, ao; cbn [claim]; reflexivity].
    destruct Ht as (_ & _ & Hnr & Hf). unfold Time.nanosecond. rewrite Hf.
    assert (E3 : Z.rem (Z.quot (nano + (if leap then 1000000000 else 0)) 1000000) 1000 = nano / 1000000)
      by (destruct leap; lia).
    assert (E6 : Z.rem (Z.quot (nano + (if leap then 1000000000 else 0)) 1000) 1000000 = nano / 1000)
      by (destruct leap; lia).
    assert (E9 : Z.rem (nano + (if leap then 1000000000 else 0)) 1000000000 = nano)
      by (destruct leap; lia).
    unfold frac_digits, LOC_DECIMAL_POINT.
    destruct Hdoc as [-> | [-> | ->]]; cbn [Z.eqb Pos.eqb];
      [change (10 ^ (9 - 3)) with 1000000 | change (10 ^ (9 - 6)) with 1000 | change (10 ^ (9 - 9)) with 1;
                                                                                 rewrite Z.div_1_r];
      destruct dot, ad; cbn [claim app]; rewrite ?E3, ?E6, ?E9, fmt_int_pad by lia; reflexivity.
  - (* ZoneName *)
    destruct ao as [[name o]|], off as [o'|]; try contradiction; [|destruct ad, at_; cbn [claim]; reflexivity].
    destruct Ho as (-> & Hor & Hn).
    destruct utc.
    + destruct Hn as [-> _]. destruct ad, at_; cbn [claim]; reflexivity.
    + destruct (o' mod 60 =? 0) eqn:E; [|exact I].
      rewrite fixed_offset_display_minutes in Hn by lia. injection Hn as <-.
      destruct ad, at_; cbn [claim]; reflexivity.
  - (* Off *)
    destruct ao as [[name o]|], off as [o'|]; try contradiction; [|destruct ad, at_; cbn [claim]; reflexivity].
    destruct Ho as (-> & Hor & _). destruct (offset_items_spec o' Hor) as (H1 & H2 & H3 & H4).
    destruct ad, at_; cbn [claim]; exact H1.
  - (* OffColon *)
    destruct ao as [[name o]|], off as [o'|]; try contradiction; [|destruct ad, at_; cbn [claim]; reflexivity].
    destruct Ho as (-> & Hor & _). destruct (offset_items_spec o' Hor) as (H1 & H2 & H3 & H4).
    destruct ad, at_; cbn [claim]; exact H2.
  - (* OffColonSec *)
    destruct ao as [[name o]|], off as [o'|]; try contradiction; [|destruct ad, at_; cbn [claim]; reflexivity].
    destruct Ho as (-> & Hor & _). destruct (offset_items_spec o' Hor) as (H1 & H2 & H3 & H4).
    destruct ad, at_; cbn [claim]; exact H3.
  - (* OffHours *)
    destruct ao as [[name o]|], off as [o'|]; try contradiction; [|destruct ad, at_; cbn [claim]; reflexivity].
    destruct Ho as (-> & Hor & _). destruct (offset_items_spec o' Hor) as (H1 & H2 & H3 & H4).
    destruct ad, at_; cbn [claim]; exact H4.
  - exact I.
  - exact I.
Qed.

(** * %+ : the RFC 3339 item renders as its documented expansion %Y-%m-%dT%H:%M:%S%.f%:z *)
Definition iso_year_ok (y : Z) : bool :=
  fres_eqb (let+ a := write_hundreds (as_u8 (Z.quot y 100)) in
            let+ b := write_hundreds (as_u8 (Z.rem y 100)) in fok (a ++ b))
           (pad_num DZero 4 false y).
Lemma iso_year_sweep : forall_range iso_year_ok 0 10000 = true.
Proof. vm_compute. reflexivity. Qed.

Lemma frac_auto_bytes n : 0 <= n < 1000000000 ->
  (if n =? 0 then []
   else if Z.rem n 1000000 =? 0 then 46 :: fmt_int false true 3 (Z.quot n 1000000)
   else if Z.rem n 1000 =? 0 then 46 :: fmt_int false true 6 (Z.quot n 1000)
   else 46 :: fmt_int false true 9 n)
  = (if n =? 0 then []
     else if n mod 1000000 =? 0 then 46 :: frac_digits n 3
     else if n mod 1000 =? 0 then 46 :: frac_digits n 6
     else 46 :: frac_digits n 9).
Proof.
  intros Hn. unfold frac_digits.
  change (10 ^ (9 - 3)) with 1000000. change (10 ^ (9 - 6)) with 1000. change (10 ^ (9 - 9)) with 1.
  replace (Z.rem n 1000000) with (n mod 1000000) by lia.
  replace (Z.rem n 1000) with (n mod 1000) by lia.
  replace (Z.quot n 1000000) with (n / 1000000) by lia.
  replace (Z.quot n 1000) with (n / 1000) by lia.
  rewrite Z.div_1_r. rewrite !fmt_int_pad by lia. reflexivity.
Qed.

Theorem render_iso_spec : forall a sv, args_view a sv ->
  claim (render_all sv (tokens iso_expansion) []) (format_fixed a F_RFC3339).
Proof.
  intros [ad at_ ao] [dn sod nano leap off utc unix] [Hd Ht Ho Hu].
  cbn [fa_date fa_time fa_off sv_dn sv_sod sv_nano sv_leap sv_off sv_utc sv_unix] in *.
  change (tokens iso_expansion) with
    [KNum NYear DZero; KText [45]; KNum NMonth DZero; KText [45]; KNum NDay DZero; KText [84];
     KNum NHour DZero; KText [58]; KNum NMinute DZero; KText [58]; KNum NSecond DZero;
     KFix TFracAuto; KFix TOffColon].
  unfold format_fixed. cbn [fa_date fa_time fa_off].
  cbn [render_all render_tok render_num render_fix width_documented negb num_value num_width
       sv_dn sv_sod sv_nano sv_leap sv_off sv_utc sv_unix].
  destruct ad as [d|], dn as [dn|]; try contradiction; [|cbn [claim]; reflexivity].
  destruct Hd as [Hdn [Hy Hyr] (yy & m & dd & Hymd & Hm & Hdd & Hmr & Hddr) _ _ _ _].
  rewrite Hymd. cbv beta iota.
  destruct at_ as [t|], sod as [s|]; try contradiction; [|cbn [claim]; reflexivity].
  destruct (time_fields _ _ _ _ Ht) as (Hh & Hmi & Hse & Hq & Hrm). pose proof Ht as (Hts & Hsr & Hnr & Hf).
  cbv beta iota.
  destruct ao as [[name o]|], off as [o'|]; try contradiction; [|cbn [claim]; reflexivity].
  destruct Ho as (-> & Hor & _). cbn [claim].
  unfold write_rfc3339_auto. cbn [DateTime.nd_date DateTime.nd_time].
  rewrite Hy, Hm, Hdd. cbv [bind].
  (* year *)
  assert (EY : (if (0 <=? year_of_dn dn) && (year_of_dn dn <=? 9999)
                then let+ a := write_hundreds (as_u8 (Z.quot (year_of_dn dn) 100)) in
                     let+ b := write_hundreds (as_u8 (Z.rem (year_of_dn dn) 100)) in fok (a ++ b)
                else fok (fmt_int true true 5 (year_of_dn dn)))
               = fok (pad_num DZero 4 ((year_of_dn dn <? 0) || (9999 <? year_of_dn dn)) (year_of_dn dn))).
  { set (y := year_of_dn dn) in *. destruct ((0 <=? y) && (y <=? 9999)) eqn:E.
    - replace ((y <? 0) || (9999 <? y)) with false by lia. apply fres_eqb_eq.
      exact (forall_range_spec _ _ _ iso_year_sweep y ltac:(lia)).
    - replace ((y <? 0) || (9999 <? y)) with true by lia.
      pose proof (write_n_spec 4 y DZero true ltac:(lia)) as W. unfold write_n in W. cbn [pad_of] in W.
      unfold add_usize in W. rewrite chk_in in W by reflexivity. cbv [bind] in W. exact W. }
  rewrite EY. cbv [fseq bind fok].
  rewrite !as_u8_small by lia. rewrite !write_hundreds_spec by lia. cbv [bind fok fseq].
  unfold Time.hms in *. unfold Time.hour, Time.minute, Time.second, Time.hms in Hh, Hmi, Hse.
  rewrite Hh, Hmi, Hse.
  assert (EL : (if Time.nanosecond t >=? 1000000000
                then let* s0 := add_u32 (s mod 60) 1 in let* n := sub_u32 (Time.nanosecond t) 1000000000 in Val (s0, n)
                else Val (s mod 60, Time.nanosecond t))
               = Val (s mod 60 + (if leap then 1 else 0), nano)).
  { unfold Time.nanosecond. rewrite Hf. destruct leap.
    - replace (nano + 1000000000 >=? 1000000000) with true by lia.
      unfold add_u32, sub_u32. rewrite chk_u32 by lia. cbv [bind]. rewrite chk_u32 by lia. cbv [bind].
      f_equal. f_equal. lia.
    - replace (nano + 0 >=? 1000000000) with false by lia. f_equal. f_equal; lia. }
  cbv [bind] in EL. rewrite EL. cbv beta iota.
  rewrite !as_u8_small by (destruct leap; lia).
  rewrite !write_hundreds_spec by (destruct leap; lia). cbv beta iota.
  destruct (offset_items_spec o' Hor) as (_ & H2 & _). rewrite H2. cbv beta iota.
  rewrite frac_auto_bytes by lia.
  unfold fok. f_equal. f_equal. cbn [app]. rewrite <- !app_assoc. cbn [app]. reflexivity.
Qed.

(** * Whole token lists *)
Definition tok_documented (t : tok) : Prop := match t with KFix f => tfield_documented f | _ => True end.

Lemma render_all_acc sv l : forall acc,
  render_all sv l acc = match render_all sv l [] with ROk s => ROk (acc ++ s) | x => x end.
Proof.
  induction l as [|t r IH]; intros acc; cbn [render_all].
  - rewrite app_nil_r. reflexivity.
  - destruct (render_tok sv t) as [s| |]; try reflexivity.
    rewrite (IH (acc ++ s)), (IH ([] ++ s)). cbn [app].
    destruct (render_all sv r []); try reflexivity. rewrite app_assoc. reflexivity.
Qed.
Lemma render_all_app sv l1 l2 : forall acc,
  render_all sv (l1 ++ l2) acc = match render_all sv l1 acc with ROk a => render_all sv l2 a | x => x end.
Proof.
  induction l1 as [|t r IH]; intros acc; cbn [render_all app]; [reflexivity|].
  destruct (render_tok sv t); try reflexivity. apply IH.
Qed.

Lemma write_items_step a it r acc :
  write_items a (it :: r) acc =
  match format_item a it with
  | Val (Some s) => write_items a r (acc ++ s) | Val None => Val None | Panic => Panic | OutOfFuel => OutOfFuel end.
Proof. cbn [write_items]. unfold fseq, bind. destruct (format_item a it) as [[s|]| |]; reflexivity. Qed.

Theorem render_tokens_spec : forall a sv toks acc, args_view a sv -> Forall tok_documented toks ->
  claim (render_all sv (expand_iso toks) acc) (write_items a (map item_of_tok toks) acc).
Proof.
  intros a sv toks acc Hv. revert acc. induction toks as [|t r IH]; intros acc Hdoc.
  - cbn. reflexivity.
  - inversion Hdoc as [|? ? Ht Hr]; subst. specialize (IH). cbn [map]. rewrite write_items_step.
    destruct t as [s|f p|f|]; cbn [item_of_tok format_item].
    + cbn [expand_iso render_all render_tok]. unfold fok. apply IH. exact Hr.
    + cbn [expand_iso render_all render_tok].
      pose proof (render_numeric_spec a sv f p Hv) as C.
      destruct (render_num sv f p) as [s| |]; cbn [claim] in C |- *; rewrite ?C; unfold fok, ferr; auto.
    + destruct f; try (cbn [expand_iso render_all render_tok];
        match goal with |- context [render_fix sv ?f] =>
          pose proof (render_fixed_spec a sv f Hv Ht) as C;
          destruct (render_fix sv f) as [s| |]; cbn [claim] in C |- *; rewrite ?C; unfold fok, ferr; auto
        end).
      (* %+ *)
      cbn [expand_iso fixed_of]. rewrite render_all_app, render_all_acc.
      pose proof (render_iso_spec a sv Hv) as C.
      destruct (render_all sv (tokens iso_expansion) []) as [s| |]; cbn [claim] in C |- *;
        rewrite ?C; unfold fok, ferr; auto.
    + cbn [expand_iso render_all render_tok]. reflexivity.
Qed.

Lemma write_items_upto_err a l : forall acc,
  write_items a (map item_of_tok (upto_err l)) acc = write_items a (map item_of_tok l) acc.
Proof.
  induction l as [|t r IH]; intros acc; [reflexivity|].
  destruct t; cbn [upto_err map]; rewrite ?write_items_step; cbn [item_of_tok format_item];
    try (destruct (format_numeric _ _ _) as [[s|]| |]); try (destruct (format_fixed _ _) as [[s|]| |]);
    unfold fok, ferr; auto.
Qed.

(* every token produced from a format string stands for a documented entry *)
Definition entry_documented (e : entry) : Prop := match e with EText f => tfield_documented f | _ => True end.
Lemma doc_table_documented : Forall (fun ne => entry_documented (snd ne)) doc_table.
Proof. unfold doc_table. repeat (apply Forall_cons; [cbn; auto|]). apply Forall_nil. Qed.
Lemma lookup_in t : forall s e rest, lookup t s = Some (e, rest) -> exists name, In (name, e) t.
Proof.
  induction t as [|[name e'] r IH]; intros s e rest H; [discriminate|]. cbn [lookup] in H.
  destruct (strip_prefix name s).
  - injection H as <- <-. exists name. left. reflexivity.
  - destruct (IH _ _ _ H) as [n Hn]. exists n. right. exact Hn.
Qed.
Lemma toks_documented comp : (forall x, Forall tok_documented (comp x)) ->
  forall fuel s, Forall tok_documented (toks comp fuel s).
Proof.
  intros Hc. induction fuel as [|f IH]; intros s; [constructor|]. cbn [toks].
  destruct s as [|c r]; [constructor|].
  destruct (c =? 37) eqn:E37.
  - apply Z.eqb_eq in E37. subst c.
    set (pr := match r with
               | c :: r' => match modifier c with Some p => (Some p, r') | None => (None, r) end
               | [] => (None, r) end).
    destruct pr as [pad r1].
    destruct (lookup doc_table r1) as [[e rest]|] eqn:El; [|repeat constructor].
    destruct (lookup_in _ _ _ _ El) as [name Hin].
    pose proof (proj1 (Forall_forall _ _) doc_table_documented _ Hin) as Hd. cbn [snd] in Hd.
    destruct e, pad; try (repeat constructor; fail); try (constructor; [exact I || exact Hd|apply IH]).
    apply Forall_app. split; [apply Hc|apply IH].
  - replace (match c with 37 => _ | _ => KText [c] :: toks comp f r end) with (KText [c] :: toks comp f r).
    + constructor; [exact I|apply IH].
    + destruct c as [|p|p]; try reflexivity.
      do 6 (destruct p as [p|p|]; try reflexivity). discriminate E37.
Qed.
Lemma tokens_documented s : Forall tok_documented (tokens s).
Proof.
  apply toks_documented. intros x. apply toks_documented. intros y. repeat constructor.
Qed.
