(** Model-vs-spec lemmas for the ISO week date (IsoWeek::from_yof, NaiveDate::iso_week,
    NaiveDate::from_isoywd_opt of Model/Date.v against Spec/Gregorian.v).  Shared. *)
From Coq Require Import ZArith List Bool Lia ZifyBool.
From V Require Import Base.Int Base.IntLemmas Base.Bits Base.Table Base.Lift Gen.DateTables Model.Date Spec.Gregorian.
From V Require Export Proofs.Date Proofs.Gregorian.
Import ListNotations.
Open Scope Z_scope.
Ltac Zify.zify_post_hook ::= Z.to_euclidean_division_equations.

(** * The three year-flag functions, by enumeration of the 16 flag values *)
Definition yfun_ok (f : Z) : bool :=
  let w7 := Z.land f 7 in
  (0 <=? w7) && (w7 <=? 7)
  && rz_is (yf_nisoweeks f) (52 + (if (w7 =? 2) || ((Z.land f 8 =? 0) && (w7 =? 1)) then 1 else 0))
  && rz_is (yf_isoweek_delta f) (if w7 <? 3 then w7 + 7 else w7)
  && rz_is (yf_ndays f) (if Z.land f 8 =? 0 then 366 else 365).
Lemma yfun_sweep : forall_range yfun_ok 0 16 = true.
Proof. vm_cast_no_check (eq_refl true). Qed.

Lemma yflags_iso y :
  yf_isoweek_delta (yflags y) = Val (iso_delta y) /\
  yf_nisoweeks (yflags y) = Val (iso_weeks_in_year y) /\
  yf_ndays (yflags y) = Val (days_in_year y).
Proof.
  destruct (yflags_facts y) as (_ & Hf & H7 & H8 & Hw).
  pose proof (forall_range_spec _ _ _ yfun_sweep (yflags y) ltac:(lia)) as S. unfold yfun_ok in S.
  repeat (apply andb_prop in S; destruct S as [S ?]).
  repeat match goal with h : rz_is _ _ = true |- _ => apply rz_is_eq in h end.
  pose proof (Hw 0) as W0. unfold weekday_of_dn, dn_of_yo in W0.
  set (w7 := Z.land (yflags y) 7) in *.
  assert (Hd : iso_delta y = if w7 <? 3 then w7 + 7 else w7).
  { unfold iso_delta. cbv zeta. set (b := days_before_year y) in *.
    destruct ((b - 1) mod 7 <? 3) eqn:E; destruct (w7 <? 3) eqn:E'; lia. }
  split; [congruence|]. split.
  - rewrite iso_weeks_in_year_spec, Hd, <- H8.
    match goal with h : yf_nisoweeks _ = _ |- _ => rewrite h end. f_equal. f_equal.
    destruct (w7 <? 3) eqn:E; destruct (Z.land (yflags y) 8 =? 0); cbn [andb];
    repeat match goal with |- context [if ?c then _ else _] => destruct c eqn:? end; lia.
  - match goal with h : yf_ndays _ = _ |- _ => rewrite h end. unfold days_in_year. rewrite <- H8. reflexivity.
Qed.

(** * IsoWeek: the packed word [ywf] as arithmetic *)
Definition mkweek (iy w : Z) : Z := iy * 1024 + (w * 16 + yflags iy).

Lemma pack_ywf y w f : -2097152 <= y <= 2097151 -> 0 <= w <= 63 -> 0 <= f < 16 ->
  Z.lor (Z.lor (shl_i32 y 10) (as_i32 (shl_u32 w 4))) f = y * 1024 + (w * 16 + f).
Proof.
  intros Hy Hw Hf. unfold shl_i32. rewrite Z.shiftl_mul_pow2 by lia. change (2 ^ 10) with 1024.
  rewrite as_i32_id by solve_in.
  rewrite shl_u32_small by (unfold u32_max; lia). change (2 ^ 4) with 16. rewrite as_i32_id by solve_in.
  pose proof (lor_disjoint y (w * 16) 10 ltac:(lia) ltac:(change (2 ^ 10) with 1024; lia)) as L.
  rewrite Z.shiftl_mul_pow2 in L by lia. change (2 ^ 10) with 1024 in L. rewrite L.
  pose proof (lor_disjoint (y * 64 + w) f 4 ltac:(lia) ltac:(change (2 ^ 4) with 16; lia)) as L2.
  rewrite Z.shiftl_mul_pow2 in L2 by lia. change (2 ^ 4) with 16 in L2.
  replace (y * 1024 + w * 16) with ((y * 64 + w) * 16) by lia. rewrite L2. lia.
Qed.
Lemma unpack_ywf y w f : 0 <= w <= 63 -> 0 <= f < 16 ->
  iw_year (y * 1024 + (w * 16 + f)) = y /\ iw_week (y * 1024 + (w * 16 + f)) = w.
Proof.
  intros Hw Hf. unfold iw_year, iw_week, shr, IW_YEAR_GET_SHIFT, IW_WEEK_GET_SHIFT, IW_WEEK_MASK.
  rewrite !Z.shiftr_div_pow2 by lia. change (2 ^ 10) with 1024. change (2 ^ 4) with 16.
  split; [lia|].
  replace ((y * 1024 + (w * 16 + f)) / 16) with (y * 2 ^ 6 + w) by (change (2 ^ 6) with 64; lia).
  change 63 with (2 ^ 6 - 1). rewrite land_ones_packed by (change (2 ^ 6) with 64; lia).
  apply as_u32_id. solve_in.
Qed.

(** * IsoWeek::from_yof and NaiveDate::iso_week *)
Theorem isoweek_from_yof_spec y o : year_in_range y = true -> valid_yo y o = true ->
  isoweek_from_yof y o (yflags y) =
    Val (mkweek (fst (iso_of_dn (dn_of_yo y o))) (snd (iso_of_dn (dn_of_yo y o)))).
Proof.
  intros Hy Ho. pose proof (year_range_bounds y Hy) as Hyb.
  pose proof (lo_facts_of y o Ho) as [_ Fo _ _ _ _ _].
  rewrite iso_of_dn_yo by assumption. cbv zeta.
  destruct (yflags_iso y) as (Hdl & Hnw & _). destruct (yflags_iso (y - 1)) as (_ & Hnwp & _).
  pose proof (iso_delta_range y) as Dr. pose proof (iso_weeks_52_53 y) as Wr. pose proof (iso_weeks_52_53 (y - 1)) as Wpr.
  unfold isoweek_from_yof, IW_YEAR_SHIFT, IW_WEEK_SHIFT. rewrite Hdl. cbn [bind].
  chk_ok. unfold div_u32. rewrite div_t_nz by lia. rewrite Z.quot_div_nonneg by lia.
  set (raw := (o + iso_delta y) / 7) in *. assert (Hraw : 0 <= raw <= 53) by (unfold raw; lia).
  chk_ok.
  destruct (raw <? 1) eqn:E1.
  - chk_ok. rewrite yf_from_year_spec by solve_in. cbn [bind]. rewrite Hnwp. cbn [bind fst snd].
    rewrite yf_from_year_spec by solve_in. cbn [bind].
    destruct (yflags_facts (y - 1)) as (_ & Hf & _).
    rewrite pack_ywf by lia. reflexivity.
  - rewrite Hnw. cbn [bind].
    destruct (iso_weeks_in_year y <? raw) eqn:E2.
    + chk_ok. cbn [fst snd]. rewrite yf_from_year_spec by solve_in. cbn [bind].
      destruct (yflags_facts (y + 1)) as (_ & Hf & _).
      rewrite pack_ywf by lia. reflexivity.
    + cbn [bind fst snd]. rewrite yf_from_year_spec by solve_in. cbn [bind].
      destruct (yflags_facts y) as (_ & Hf & _).
      rewrite pack_ywf by lia. reflexivity.
Qed.

Lemma iso_of_dn_bounds n : 1 <= snd (iso_of_dn n) <= 53.
Proof.
  destruct (isoywd_of_dn n) as [Hv _]. unfold valid_isoywd in Hv.
  pose proof (iso_weeks_52_53 (fst (iso_of_dn n))). lia.
Qed.

Theorem d_iso_week_spec y o d : repr y o d ->
  let iw := iso_of_dn (dn_of_yo y o) in
  d_iso_week d = Val (mkweek (fst iw) (snd iw)) /\
  iw_year (mkweek (fst iw) (snd iw)) = fst iw /\ iw_week (mkweek (fst iw) (snd iw)) = snd iw.
Proof.
  intros H iw. pose proof (repr_acc y o d H) as A. destruct (md_of_ordinal (is_leap y) o).
  destruct A as (Ey & Eo & Ef & _). destruct H as (Hy & Ho & _).
  split.
  - unfold d_iso_week. rewrite Ey, Eo, Ef. apply isoweek_from_yof_spec; assumption.
  - pose proof (iso_of_dn_bounds (dn_of_yo y o)) as B. fold iw in B.
    destruct (yflags_facts (fst iw)) as (_ & Hf & _).
    unfold mkweek. apply unpack_ywf; lia.
Qed.

Lemma Val_inj {A} (a b : A) : Val a = Val b -> a = b.
Proof. intros H. injection H. auto. Qed.

(** derived [Ord] on IsoWeek = order of (ISO year, week) pairs, monotone in the date *)
Lemma mkweek_cmp y1 w1 y2 w2 : 0 <= w1 <= 63 -> 0 <= w2 <= 63 ->
  cmpZ (mkweek y1 w1) (mkweek y2 w2) = cmp_lex [y1; w1] [y2; w2].
Proof.
  intros H1 H2. unfold mkweek, cmp_lex.
  destruct (yflags_facts y1) as (_ & F1 & _). destruct (yflags_facts y2) as (_ & F2 & _).
  destruct (Z_lt_dec y1 y2); [rewrite !cmpZ_lt by lia; reflexivity|].
  destruct (Z_lt_dec y2 y1); [rewrite (cmpZ_gt y1 y2), cmpZ_gt by lia; reflexivity|].
  assert (y1 = y2) by lia. subst y2. rewrite cmpZ_eq. cbn [Z.eqb].
  destruct (Z_lt_dec w1 w2); [rewrite !cmpZ_lt by lia; reflexivity|].
  destruct (Z_lt_dec w2 w1); [rewrite (cmpZ_gt w1 w2), cmpZ_gt by lia; reflexivity|].
  assert (w1 = w2) by lia. subst w2. rewrite !cmpZ_eq. reflexivity.
Qed.

Theorem iso_week_order y1 o1 d1 y2 o2 d2 w1 w2 : repr y1 o1 d1 -> repr y2 o2 d2 ->
  d_iso_week d1 = Val w1 -> d_iso_week d2 = Val w2 ->
  cmpZ w1 w2 = cmp_lex [fst (iso_of_dn (dn_of_yo y1 o1)); snd (iso_of_dn (dn_of_yo y1 o1))]
                       [fst (iso_of_dn (dn_of_yo y2 o2)); snd (iso_of_dn (dn_of_yo y2 o2))] /\
  (dn_of_yo y1 o1 <= dn_of_yo y2 o2 -> cmpZ w1 w2 <> 1).
Proof.
  intros H1 H2 E1 E2.
  destruct (d_iso_week_spec _ _ _ H1) as (S1 & _). destruct (d_iso_week_spec _ _ _ H2) as (S2 & _).
  cbv zeta in S1, S2. rewrite S1 in E1. rewrite S2 in E2. apply Val_inj in E1. apply Val_inj in E2. subst w1 w2.
  pose proof (iso_of_dn_bounds (dn_of_yo y1 o1)) as B1. pose proof (iso_of_dn_bounds (dn_of_yo y2 o2)) as B2.
  assert (C : cmpZ (mkweek (fst (iso_of_dn (dn_of_yo y1 o1))) (snd (iso_of_dn (dn_of_yo y1 o1))))
                   (mkweek (fst (iso_of_dn (dn_of_yo y2 o2))) (snd (iso_of_dn (dn_of_yo y2 o2)))) =
              cmp_lex [fst (iso_of_dn (dn_of_yo y1 o1)); snd (iso_of_dn (dn_of_yo y1 o1))]
                      [fst (iso_of_dn (dn_of_yo y2 o2)); snd (iso_of_dn (dn_of_yo y2 o2))])
    by (apply mkweek_cmp; lia).
  split; [exact C|].
  intros Hle. rewrite C. pose proof (iso_of_dn_mono _ _ Hle) as M.
  set (a1 := fst (iso_of_dn (dn_of_yo y1 o1))) in *. set (b1 := snd (iso_of_dn (dn_of_yo y1 o1))) in *.
  set (a2 := fst (iso_of_dn (dn_of_yo y2 o2))) in *. set (b2 := snd (iso_of_dn (dn_of_yo y2 o2))) in *.
  clearbody a1 b1 a2 b2. unfold cmp_lex. destruct M as [M|[M1 M2]].
  - rewrite cmpZ_lt by lia. cbn. lia.
  - rewrite M1, cmpZ_eq. cbn [Z.eqb]. destruct (Z_lt_dec b1 b2); [rewrite cmpZ_lt by lia; cbn; lia|].
    assert (b1 = b2) by lia. subst b2. rewrite cmpZ_eq. cbn. lia.
Qed.

(** * NaiveDate::from_isoywd_opt, for every [i32] year, [u32] week and weekday 0..6 *)
Lemma dn_year_lt y o : valid_yo y o = true -> y < MIN_YEAR -> dn_in_range (dn_of_yo y o) = false.
Proof. intros H L. rewrite dn_in_range_iff by assumption. unfold year_in_range. lia. Qed.
Lemma dn_year_gt y o : valid_yo y o = true -> MAX_YEAR < y -> dn_in_range (dn_of_yo y o) = false.
Proof. intros H L. rewrite dn_in_range_iff by assumption. unfold year_in_range. lia. Qed.

Theorem from_isoywd_opt_spec y w wd : in_i32 y = true -> in_u32 w = true -> 0 <= wd <= 6 ->
  from_isoywd_opt y w wd =
    Val (date_if (valid_isoywd y w wd && dn_in_range (dn_of_isoywd y w wd)) (date_of_dn (dn_of_isoywd y w wd))).
Proof.
  intros Hy Hw Hwd.
  destruct (yflags_iso y) as (Hdl & Hnw & Hnd).
  pose proof (iso_delta_range y) as Dr. pose proof (iso_weeks_52_53 y) as Wr.
  pose proof (iso_weeks_in_year_spec y) as W.
  pose proof (days_in_year_cases y) as Ly.
  assert (Hleap : is_leap y = (days_in_year y =? 366)) by (unfold days_in_year; destruct (is_leap y); reflexivity).
  rewrite Hleap in W.
  unfold from_isoywd_opt. rewrite yf_from_year_spec by assumption. cbn [bind]. rewrite Hnw. cbn [bind].
  unfold valid_isoywd.
  destruct ((w =? 0) || (iso_weeks_in_year y <? w)) eqn:E0.
  { replace ((1 <=? w) && (w <=? iso_weeks_in_year y)) with false by solve_in. reflexivity. }
  replace ((1 <=? w) && (w <=? iso_weeks_in_year y) && (0 <=? wd) && (wd <=? 6)) with true by solve_in.
  assert (Hw1 : 1 <= w <= 53) by solve_in.
  cbn [andb]. chk_ok. chk_ok. rewrite Hdl. cbn [bind].
  rewrite dn_of_isoywd_yo.
  set (dl := iso_delta y) in *. set (L := days_in_year y) in *. set (b := days_before_year y).
  destruct (w * 7 + wd <=? dl) eqn:E1.
  - (* the day belongs to the previous calendar year *)
    pose proof (days_in_year_cases (y - 1)) as Lp. pose proof (dby_pred y) as Bp. fold b in Bp.
    assert (Hvp : valid_yo (y - 1) (w * 7 + wd + days_in_year (y - 1) - dl) = true) by (unfold valid_yo; lia).
    assert (Hdn : b + (7 * w + wd) - dl = dn_of_yo (y - 1) (w * 7 + wd + days_in_year (y - 1) - dl))
      by (unfold dn_of_yo; lia).
    unfold checked_sub, chko. destruct (in_i32 (y - 1)) eqn:Ey1.
    + rewrite yf_from_year_spec by assumption. cbn [bind].
      destruct (yflags_iso (y - 1)) as (_ & _ & Hndp). rewrite Hndp. cbn [bind].
      chk_ok. chk_ok.
      rewrite foaf_spec by solve_in. rewrite Hvp, andb_true_r, Hdn.
      rewrite dn_in_range_iff, date_of_dn_mk by assumption. reflexivity.
    + rewrite Hdn. rewrite dn_year_lt; [reflexivity|assumption|unfold MIN_YEAR; solve_in].
  - chk_ok. rewrite Hnd. cbn [bind]. fold L.
    destruct (w * 7 + wd - dl <=? L) eqn:E2.
    + assert (Hv : valid_yo y (w * 7 + wd - dl) = true) by (unfold valid_yo; fold L; lia).
      rewrite foaf_spec by solve_in. rewrite Hv, andb_true_r.
      replace (b + (7 * w + wd) - dl) with (dn_of_yo y (w * 7 + wd - dl)) by (unfold dn_of_yo; fold b; lia).
      rewrite dn_in_range_iff, date_of_dn_mk by assumption. reflexivity.
    + pose proof (days_in_year_cases (y + 1)) as Ln. pose proof (dby_succ y) as Bn. fold b L in Bn.
      assert (Hvn : valid_yo (y + 1) (w * 7 + wd - dl - L) = true).
      { unfold valid_yo. destruct ((dl =? 9) || (L =? 366) && (dl =? 8)) eqn:E3; lia. }
      assert (Hdn : b + (7 * w + wd) - dl = dn_of_yo (y + 1) (w * 7 + wd - dl - L)) by (unfold dn_of_yo; lia).
      unfold checked_add, chko. destruct (in_i32 (y + 1)) eqn:Ey1.
      * rewrite yf_from_year_spec by assumption. cbn [bind]. chk_ok.
        rewrite foaf_spec by solve_in. rewrite Hvn, andb_true_r, Hdn.
        rewrite dn_in_range_iff, date_of_dn_mk by assumption. reflexivity.
      * rewrite Hdn. rewrite dn_year_gt; [reflexivity|assumption|unfold MAX_YEAR; solve_in].
Qed.
