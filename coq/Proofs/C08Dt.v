(** C08, date-time part: [succ_opt] / [pred_opt] as day number +-1, the wall-clock reading of a
    zone-aware date-time (fixed offsets), [DateTime::years_since], and the NaiveDateTime forms of
    month stepping and field replacement (the date part moves, the time of day is kept). *)
From Coq Require Import ZArith List Bool Lia ZifyBool.
From V Require Import Base.Int Base.IntLemmas Base.Bits Base.Lift Base.Table Gen.DateTables
  Spec.Gregorian Model.Date Model.DateExtra Proofs.C08Sweeps Proofs.C08Date Proofs.C08Days Proofs.C08AddDays
  Proofs.C08.
From V Require Model.Time Model.DateTime Model.C08.
Import ListNotations.
Open Scope Z_scope.
Ltac Zify.zify_post_hook ::= Z.to_euclidean_division_equations.

(** * succ_opt / pred_opt *)
Definition succ_ok (lo : Z) : bool :=
  let o := lo / 16 in let f := lo mod 16 in
  if lo_valid lo then
    let nol := Z.land lo 8184 + 16 in
    if nol <=? 5856 then (Z.lor (Z.land lo 7) nol =? lo + 16) && (o + 1 <=? ylen_f f)
    else o =? ylen_f f
  else true.
Lemma succ_sweep : forall_range succ_ok 0 8192 = true.
Proof. vm_compute. reflexivity. Qed.

Lemma dn_next_year y : dn_of_yo (y + 1) 1 = dn_of_yo y (days_in_year y) + 1.
Proof. unfold dn_of_yo. rewrite dby_succ. lia. Qed.

Theorem succ_opt_spec y o d : repr y o d ->
  succ_opt d = Val (date_if (dn_in_range (dn_of_yo y o + 1)) (date_of_dn (dn_of_yo y o + 1))).
Proof.
  intros H. pose proof H as (Hy & Ho & Hd). pose proof (lo_facts_of y o Ho) as [Ff Fo Fdiv Fmod Frng Fleap Fvalid].
  pose proof (forall_range_spec _ _ _ succ_sweep _ Frng) as S. unfold succ_ok in S.
  rewrite Fvalid, Fdiv, Fmod in S. unfold ylen_f in S. rewrite Fleap in S.
  pose proof (year_range_bounds y Hy) as Hyb.
  unfold succ_opt, D_OL_MASK, D_MAX_OL. change (shl_i32 1 4) with 16.
  set (lo := o * 16 + yflags y) in *.
  assert (Hland : Z.land d 8184 = Z.land lo 8184) by (rewrite Hd; unfold mkdate; fold lo; apply land_lo; lia).
  rewrite Hland.
  assert (Hl : Z.land lo 8184 = o * 16 + (if is_leap y then 0 else 8)).
  { pose proof (forall_range_spec _ _ _ lo2_sweep lo Frng) as L2. unfold lo2_ok in L2.
    rewrite Fdiv, Fmod in L2. rewrite land8_leap in L2 by lia. rewrite Fleap in L2. lia. }
  rewrite Hl in *. clear Hl Hland.
  replace (days_in_year y) with (if is_leap y then 366 else 365) in * by reflexivity.
  assert (Hleap8 : in_i32 (o * 16 + (if is_leap y then 0 else 8) + 16) = true) by (destruct (is_leap y); solve_in).
  unfold add_i32, chk. rewrite Hleap8. cbn [bind].
  destruct (o * 16 + (if is_leap y then 0 else 8) + 16 <=? 5856) eqn:E.
  - apply andb_prop in S. destruct S as [S1 S2].
    rewrite Hd. unfold mkdate, not_i32. fold lo. rewrite land_lnot_lo by lia. change (8191 - 8184) with 7.
    assert (0 <= Z.land lo 7 < 8192).
    { split; [apply Z.land_nonneg; lia|].
      pose proof (acc_ok_lo lo Frng) as A. unfold acc_ok in A. rewrite Fvalid, Fdiv, Fmod in A.
      destruct (md_of_ordinal _ o). repeat (apply andb_prop in A; destruct A as [A ?]).
      assert (Z.land (yflags y) 7 <= yflags y); [|lia].
      clear - Ff. revert Ff. generalize (yflags y). intros f Ff.
      assert (f = 1 \/ f = 2 \/ f = 3 \/ f = 4 \/ f = 5 \/ f = 6 \/ f = 7 \/ f = 8 \/ f = 9 \/ f = 10
              \/ f = 11 \/ f = 12 \/ f = 13 \/ f = 14 \/ f = 15) as C by lia.
      repeat (destruct C as [->|C]; [vm_compute; discriminate|]). subst. vm_compute. discriminate. }
    rewrite lor_lo by (destruct (is_leap y); lia).
    replace (Z.lor (Z.land lo 7) (o * 16 + (if is_leap y then 0 else 8) + 16)) with ((o + 1) * 16 + yflags y) by (unfold lo in *; lia).
    fold (mkdate y (o + 1)).
    assert (Hv : valid_yo y (o + 1) = true) by (rewrite valid_yo_iff; destruct (is_leap y); lia).
    rewrite from_yof_mk by assumption. cbn [bind].
    replace (dn_of_yo y o + 1) with (dn_of_yo y (o + 1)) by (unfold dn_of_yo; lia).
    rewrite dn_in_range_iff, Hy by assumption. unfold date_of_dn. rewrite yo_of_dn_of_yo by assumption. reflexivity.
  - destruct (repr_md y o d H) as (Hyear & _). rewrite Hyear.
    unfold add_i32, chk. replace (in_i32 (y + 1)) with true by solve_in. cbn [bind].
    rewrite from_yo_opt_spec by solve_in.
    assert (Hv : valid_yo (y + 1) 1 = true) by (rewrite valid_yo_iff; destruct (is_leap (y + 1)); lia).
    rewrite Hv, andb_true_r.
    assert (Hn : dn_of_yo y o + 1 = dn_of_yo (y + 1) 1).
    { rewrite dn_next_year. replace o with (if is_leap y then 366 else 365) by lia. reflexivity. }
    rewrite Hn, dn_in_range_iff by assumption. unfold date_of_dn. rewrite yo_of_dn_of_yo by assumption. reflexivity.
Qed.

Theorem pred_opt_spec y o d : repr y o d ->
  pred_opt d = Val (date_if (dn_in_range (dn_of_yo y o - 1)) (date_of_dn (dn_of_yo y o - 1))).
Proof.
  intros H. pose proof H as (Hy & Ho & Hd). pose proof (lo_facts_of y o Ho) as [Ff Fo Fdiv Fmod Frng Fleap Fvalid].
  pose proof (year_range_bounds y Hy) as Hyb.
  pose proof (repr_ordbits y o d H) as Hob. unfold D_ORDINAL_MASK in Hob.
  pose proof (acc_ok_lo _ Frng) as A. unfold acc_ok in A. rewrite Fvalid, Fdiv, Fmod in A.
  destruct (md_of_ordinal (f_leap (yflags y)) o) as [m0 d0]. repeat (apply andb_prop in A; destruct A as [A ?]).
  assert (Hland : Z.land d 8176 = o * 16).
  { rewrite Hd. unfold mkdate. rewrite land_lo by lia.
    pose proof (forall_range_spec _ _ _ lo2_sweep _ Frng) as L2. unfold lo2_ok in L2.
    set (lo := o * 16 + yflags y) in *.
    assert (Z.land lo 8176 = Z.shiftr (Z.land lo 8176) 4 * 16); [|lia].
    rewrite Z.shiftr_div_pow2 by lia. change (2 ^ 4) with 16.
    assert (Z.land lo 8176 mod 16 = 0); [|lia].
    change 16 with (2 ^ 4). rewrite <- Z.land_ones by lia. rewrite <- Z.land_assoc.
    change (Z.land 8176 (Z.ones 4)) with 0. apply Z.land_0_r. }
  unfold pred_opt, D_ORDINAL_MASK. change (shl_i32 1 4) with 16. rewrite Hland.
  unfold sub_i32, chk. replace (in_i32 (o * 16 - 16)) with true by solve_in. cbn [bind].
  destruct (0 <? o * 16 - 16) eqn:E.
  - assert (Hv : valid_yo y (o - 1) = true) by (rewrite valid_yo_iff in *; destruct (is_leap y); lia).
    pose proof (lo_facts_of y _ Hv) as [_ Fo' _ _ _ _ _].
    pose proof (set_ordinal y o d (o - 1) H Fo') as SO. unfold D_ORDINAL_MASK in SO.
    rewrite shl_u32_small in SO by (unfold u32_max; lia). change (2 ^ 4) with 16 in SO.
    rewrite as_i32_id in SO by solve_in. replace ((o - 1) * 16) with (o * 16 - 16) in SO by lia.
    rewrite SO. replace (o * 16 - 16) with ((o - 1) * 16) by lia. fold (mkdate y (o - 1)).
    rewrite from_yof_mk by assumption. cbn [bind].
    replace (dn_of_yo y o - 1) with (dn_of_yo y (o - 1)) by (unfold dn_of_yo; lia).
    rewrite dn_in_range_iff, Hy by assumption. unfold date_of_dn. rewrite yo_of_dn_of_yo by assumption. reflexivity.
  - assert (E1 : o = 1) by lia. clear Hob. subst o.
    destruct (repr_md y 1 d H) as (Hyear & _). rewrite Hyear.
    replace (in_i32 (y - 1)) with true by solve_in. cbn [bind].
    rewrite from_ymd_opt_spec by solve_in.
    assert (V : valid_ymd (y - 1) 12 31 = true) by reflexivity. rewrite V, andb_true_r.
    assert (Ho' : ordinal_of_md (is_leap (y - 1)) 12 31 = days_in_year (y - 1)).
    { unfold days_in_year. destruct (is_leap (y - 1)); reflexivity. }
    assert (Hv : valid_yo (y - 1) (days_in_year (y - 1)) = true).
    { unfold valid_yo, days_in_year. destruct (is_leap (y - 1)); reflexivity. }
    unfold mk_ymd. rewrite Ho'.
    assert (Hn : dn_of_yo y 1 - 1 = dn_of_yo (y - 1) (days_in_year (y - 1))).
    { pose proof (dn_next_year (y - 1)). replace (y - 1 + 1) with y in * by lia. lia. }
    rewrite Hn, dn_in_range_iff by assumption. unfold date_of_dn. rewrite yo_of_dn_of_yo by assumption. reflexivity.
Qed.

(** * The wall-clock reading of a date-time with a fixed offset *)
Import V.Model.C08.

Definition fields (D n : Z) : Prop :=
  let '(yy, mm, dd) := ymd_of_dn n in
  d_year D = yy /\ d_month D = Val mm /\ d_day D = Val dd /\ -262144 <= yy <= 262143 /\ 1 <= mm <= 12 /\ 1 <= dd <= 31.

Lemma fields_repr y o d : repr y o d -> fields d (dn_of_yo y o).
Proof.
  intros H. destruct (repr_md y o d H) as (E1 & _ & E3 & E4 & _ & _ & B1 & B2 & _).
  pose proof (year_range_bounds y (proj1 H)). pose proof (days_in_month_bounds (is_leap y) (month_of y o)).
  unfold fields, ymd_of_dn. rewrite (yo_of_dn_of_yo y o (proj1 (proj2 H))).
  unfold month_of, day_of in *. destruct (md_of_ordinal (is_leap y) o) as [m dd]. cbn [fst snd] in *.
  repeat split; try assumption; lia.
Qed.
Lemma fields_in_range n : dn_in_range n = true -> fields (date_of_dn n) n.
Proof.
  intros Hn. destruct (date_of_dn_repr n Hn) as [R E]. pose proof (fields_repr _ _ _ R) as F.
  rewrite E in F. exact F.
Qed.
Lemma fields_before_min : fields D_BEFORE_MIN (DN_MIN - 1).
Proof. vm_compute. repeat split; discriminate. Qed.
Lemma fields_after_max : fields D_AFTER_MAX (DN_MAX + 1).
Proof. vm_compute. repeat split; discriminate. Qed.

Definition local_dn (y o s off : Z) : Z := dn_of_yo y o + (s + off) / 86400.
Definition local_secs (s off : Z) : Z := (s + off) mod 86400.

Record dz_ok (a : DateTime.dtz) (y o s fr off : Z) : Prop := {
  dk_date : repr y o (DateTime.nd_date (DateTime.dz_utc a));
  dk_secs : Time.tsecs (DateTime.nd_time (DateTime.dz_utc a)) = s;
  dk_frac : Time.tfrac (DateTime.nd_time (DateTime.dz_utc a)) = fr;
  dk_off : DateTime.dz_off a = off;
  dk_srange : 0 <= s < 86400;
  dk_orange : -86400 < off < 86400 }.

Lemma time_add_offset t off : 0 <= Time.tsecs t < 86400 -> -86400 < off < 86400 ->
  Time.overflowing_add_offset t off =
  Val (Time.mk_time ((Time.tsecs t + off) mod 86400) (Time.tfrac t), (Time.tsecs t + off) / 86400).
Proof.
  intros Hs Ho. unfold Time.overflowing_add_offset. rewrite as_i32_id by solve_in.
  unfold add_i32, chk. replace (in_i32 (Time.tsecs t + off)) with true by solve_in. cbn [bind].
  rewrite div_euclid_pos, rem_euclid_pos by lia. unfold chk.
  replace (in_i32 ((Time.tsecs t + off) / 86400)) with true by solve_in. cbn [bind].
  rewrite as_u32_id by solve_in. reflexivity.
Qed.

Lemma naive_local_spec a y o s fr off : dz_ok a y o s fr off ->
  exists D, DateTime.overflowing_naive_local a = Val (DateTime.mk_ndt D (Time.mk_time (local_secs s off) fr))
            /\ fields D (local_dn y o s off).
Proof.
  intros [Hd Hs Hf Hoff Hsr Hor]. unfold DateTime.overflowing_naive_local, DateTime.ndt_overflowing_add_offset.
  rewrite Hoff. rewrite time_add_offset by lia. cbn [bind]. rewrite Hs, Hf.
  unfold local_dn, local_secs. set (dd := (s + off) / 86400).
  assert (Hdd : dd = -1 \/ dd = 0 \/ dd = 1) by (unfold dd; lia).
  pose proof (dn_bounds y o (proj1 Hd) (proj1 (proj2 Hd))) as Hnb.
  pose proof (dn_in_range_iff y o (proj1 (proj2 Hd))) as Hir. rewrite (proj1 Hd) in Hir.
  unfold dn_in_range, DN_MIN, DN_MAX in Hir.
  unfold DateTime.shift_date_overflowing. destruct Hdd as [E|[E|E]]; rewrite E.
  - cbn [Z.eqb]. rewrite (pred_opt_spec y o _ Hd). cbn [bind].
    replace (dn_of_yo y o + -1) with (dn_of_yo y o - 1) by lia.
    destruct (dn_in_range (dn_of_yo y o - 1)) eqn:R; cbn [date_if].
    + eexists. split; [reflexivity|]. apply fields_in_range. assumption.
    + eexists. split; [reflexivity|].
      replace (dn_of_yo y o - 1) with (DN_MIN - 1); [apply fields_before_min|].
      unfold dn_in_range, DN_MIN, DN_MAX in *. lia.
  - cbn [Z.eqb]. eexists. split; [reflexivity|]. replace (dn_of_yo y o + 0) with (dn_of_yo y o) by lia.
    apply fields_repr. assumption.
  - cbn [Z.eqb]. rewrite (succ_opt_spec y o _ Hd). cbn [bind].
    destruct (dn_in_range (dn_of_yo y o + 1)) eqn:R; cbn [date_if].
    + eexists. split; [reflexivity|]. apply fields_in_range. assumption.
    + eexists. split; [reflexivity|].
      replace (dn_of_yo y o + 1) with (DN_MAX + 1); [apply fields_after_max|].
      unfold dn_in_range, DN_MIN, DN_MAX in *. lia.
Qed.

Lemma dz_time_spec a y o s fr off : dz_ok a y o s fr off ->
  dz_time a = Val (Time.mk_time (local_secs s off) fr).
Proof.
  intros [Hd Hs Hf Hoff Hsr Hor]. unfold dz_time, Time.op_add_offset, rmap.
  rewrite Hoff, time_add_offset by lia. cbn [bind fst]. rewrite Hs, Hf. reflexivity.
Qed.

(** whole years between two wall-clock readings: (month, day, second of day, fraction) compared
    lexicographically *)
Definition dt_years_between (n1 s1 f1 n0 s0 f0 : Z) : option Z :=
  let '(y1, m1, d1) := ymd_of_dn n1 in
  let '(y0, m0, d0) := ymd_of_dn n0 in
  let earlier := (m1 <? m0) || ((m1 =? m0) && ((d1 <? d0) || ((d1 =? d0) &&
                   ((s1 <? s0) || ((s1 =? s0) && (f1 <? f0)))))) in
  let n := y1 - y0 - (if earlier then 1 else 0) in
  if 0 <=? n then Some n else None.

Theorem dz_years_since_spec a y1 o1 s1 f1 off1 b y0 o0 s0 f0 off0 :
  dz_ok a y1 o1 s1 f1 off1 -> dz_ok b y0 o0 s0 f0 off0 ->
  dz_years_since a b =
  Val (dt_years_between (local_dn y1 o1 s1 off1) (local_secs s1 off1) f1
                        (local_dn y0 o0 s0 off0) (local_secs s0 off0) f0).
Proof.
  intros Ha Hb.
  destruct (naive_local_spec _ _ _ _ _ _ Ha) as (D1 & L1 & F1).
  destruct (naive_local_spec _ _ _ _ _ _ Hb) as (D0 & L0 & F0).
  unfold dz_years_since, dt_years_between. rewrite L1, L0. cbn [bind DateTime.nd_date].
  rewrite (dz_time_spec _ _ _ _ _ _ Ha), (dz_time_spec _ _ _ _ _ _ Hb).
  unfold fields in *.
  destruct (ymd_of_dn (local_dn y1 o1 s1 off1)) as [[yy1 mm1] dd1].
  destruct (ymd_of_dn (local_dn y0 o0 s0 off0)) as [[yy0 mm0] dd0].
  destruct F1 as (E1 & E2 & E3 & B1 & B2 & B3). destruct F0 as (G1 & G2 & G3 & C1 & C2 & C3).
  rewrite E1, E2, E3, G1, G2, G3. unfold sub_i32, chk.
  replace (in_i32 (yy1 - yy0)) with true by solve_in. cbn [bind].
  unfold time_lt. cbn [Time.tsecs Time.tfrac].
  set (earlier := (mm1 <? mm0) || _).
  replace (in_i32 (yy1 - yy0 - (if earlier then 1 else 0))) with true by (destruct earlier; solve_in).
  cbn [bind]. destruct (0 <=? yy1 - yy0 - (if earlier then 1 else 0)) eqn:E; [|reflexivity].
  rewrite as_u32_id by (destruct earlier; solve_in). reflexivity.
Qed.

(** * NaiveDateTime: the date part moves, the time of day is kept *)
Definition with_time_of (a : DateTime.ndt) (o : option Z) : option DateTime.ndt :=
  match o with Some d => Some (DateTime.mk_ndt d (DateTime.nd_time a)) | None => None end.

Theorem ndt_add_months_spec a y o n : repr y o (DateTime.nd_date a) -> in_u32 n = true ->
  DateTime.ndt_checked_add_months a n = Val (with_time_of a (shift_months y o n)) /\
  DateTime.ndt_checked_sub_months a n = Val (with_time_of a (shift_months y o (- n))).
Proof.
  intros H Hn. unfold DateTime.ndt_checked_add_months, DateTime.ndt_checked_sub_months, DateTime.ndt_map_date, obind.
  rewrite (checked_add_months_spec y o _ n H Hn), (checked_sub_months_spec y o _ n H Hn). cbn [bind].
  split; [destruct (shift_months y o n)|destruct (shift_months y o (- n))]; reflexivity.
Qed.

Theorem ndt_with_spec a y o f x : repr y o (DateTime.nd_date a) -> 0 <= f <= 6 ->
  DateTime.ndt_with f a x = bind (d_with f (DateTime.nd_date a) x) (fun r => Val (with_time_of a r)).
Proof.
  intros H Hf. unfold DateTime.ndt_with, d_with, DateTime.ndt_map_date, obind.
  assert (f = 0 \/ f = 1 \/ f = 2 \/ f = 3 \/ f = 4 \/ f = 5 \/ f = 6) as C by lia.
  destruct C as [->|[->|[->|[->|[->|[->| ->]]]]]]; cbn [Z.eqb Pos.eqb];
  match goal with |- bind ?rr _ = _ => destruct rr as [[v|]| |] end; reflexivity.
Qed.

Theorem succ_pred_spec y o d : repr y o d ->
  succ_opt d = Val (date_if (dn_in_range (dn_of_yo y o + 1)) (date_of_dn (dn_of_yo y o + 1))) /\
  pred_opt d = Val (date_if (dn_in_range (dn_of_yo y o - 1)) (date_of_dn (dn_of_yo y o - 1))).
Proof. intros H. split; [apply succ_opt_spec|apply pred_opt_spec]; assumption. Qed.

Theorem dz_years_since_expanded a y1 o1 s1 f1 off1 b y0 o0 s0 f0 off0 :
  dz_ok a y1 o1 s1 f1 off1 -> dz_ok b y0 o0 s0 f0 off0 ->
  dz_years_since a b =
  Val (let '(yy1, m1, d1) := ymd_of_dn (local_dn y1 o1 s1 off1) in
       let '(yy0, m0, d0) := ymd_of_dn (local_dn y0 o0 s0 off0) in
       let earlier := (m1 <? m0) || ((m1 =? m0) && ((d1 <? d0) || ((d1 =? d0) &&
                        ((local_secs s1 off1 <? local_secs s0 off0)
                         || ((local_secs s1 off1 =? local_secs s0 off0) && (f1 <? f0)))))) in
       let n := yy1 - yy0 - (if earlier then 1 else 0) in
       if 0 <=? n then Some n else None).
Proof. intros Ha Hb. rewrite (dz_years_since_spec _ _ _ _ _ _ _ _ _ _ _ _ Ha Hb). unfold dt_years_between. reflexivity. Qed.
