(** C11 -- reader exactness.
    (1) every string of the strict RFC 2822 grammar (Spec/Rfc2822.v [recognise]) is a string of the
        same grammar read with Unicode white space (Spec/Rfc2822Lenient.v [recognise_u]), with the
        same fields;
    (2) reader soundness over ALL well-formed strings: whenever DateTime::parse_from_rfc2822
        returns Ok, the string is in the lenient grammar, its fields are valid, the day of week
        (if written) is right, the value is representable, and the value returned is exactly the
        denoted one;
    (3) on the strict grammar the result is decided completely: Ok(denoted value) exactly for
        valid, consistent, representable fields, an error value otherwise;
    (4) C11_holds: the judge of the check accepts the model's output on every case line. *)
From Coq Require Import ZArith List Bool Lia ZifyBool String.
From V Require Model.Date Model.Time Model.Parsed.
From V Require Import Base.Int Base.IntLemmas Base.IO Base.Utf8 Gen.ScanTables Gen.Rfc2822Consts Model.Scan Model.DateTime
  Model.C11 Spec.Gregorian Spec.Rfc2822 Spec.Rfc2822Lenient Judge.C11
  Proofs.Utf8 Proofs.Scan Proofs.C11 Proofs.C11Scan Proofs.C11Resolve Proofs.C11Reader Proofs.C11Inv Proofs.C11Sound
  Proofs.C11ResolveInv.
From V Require Proofs.C13Safe Proofs.C11Total.
Import ListNotations.
Open Scope Z_scope.

(** * (1) strict grammar inside the lenient one *)
Lemma comments_strict_u : forall fuel s, comments_to_end fuel s = true -> comments_to_end_u fuel s = true.
Proof.
  induction fuel as [|fuel IH]; intros s H; [discriminate|].
  cbn [comments_to_end] in H. cbn [comments_to_end_u]. destruct s as [|c0 s0]; [reflexivity|]. set (s := c0 :: s0) in *.
  destruct (comment_rest (ws0 s)) as [r|] eqn:Ec; [|discriminate].
  assert (Ht : tok_start (ws0 s)).
  { apply comment_rest_exact in Ec. destruct Ec as (a & _ & Hs). rewrite Hs. cbn [tok_start]. lia. }
  unfold uws0. rewrite (ws0_trim s Ht), Ec. apply IH. exact H.
Qed.
Lemma ws1_uws1 s r : utf8_valid s = true -> ws1 s = Some r -> tok_start r -> uws1 s = Some r.
Proof. intros Hv H Ht. apply space_inv. apply space_ws1; assumption. Qed.
Lemma rec_year_digit s yl yv r : utf8_valid s = true -> rec_year s = Some (yl, yv, r) -> tok_start s /\ utf8_valid r = true.
Proof.
  intros Hv. unfold rec_year. destruct (take_digits_spec s) as (ds & Hs & Hd & Hf & _).
  destruct (take_digits s) as [dv r'] eqn:Et. cbn [fst snd] in *.
  destruct (2 <=? Z.of_nat (List.length dv)) eqn:E; [|discriminate]. intros H. inversion H. subst r'.
  pose proof (all_digits_forall ds Hd) as Hascii. split.
  - destruct ds as [|c ds]; [subst dv; cbn in E; discriminate|]. rewrite Hs. cbn [app forallb tok_start] in *.
    apply andb_prop in Hd. pose proof (digit_range c (proj1 Hd)). lia.
  - rewrite Hs, utf8_valid_app_ascii in Hv by exact Hascii. exact Hv.
Qed.

Theorem recognise_in_recognise_u s f : utf8_valid s = true -> recognise s = Some f -> recognise_u s = Some f.
Proof.
  intros Hv Hr. unfold recognise in Hr.
  destruct (rec_dow (ws0 s)) as [wd s1] eqn:Edow.
  unfold obind in Hr.
  destruct (rec_day (ws0 s1)) as [[d s2]|] eqn:Eday; [|discriminate].
  destruct (ws1 s2) as [s3|] eqn:Ews1; [|discriminate].
  destruct (month_name s3) as [[mo s4]|] eqn:Emon; [|discriminate].
  destruct (ws1 s4) as [s5|] eqn:Ews2; [|discriminate].
  destruct (rec_year s5) as [[[yl yv] s6]|] eqn:Eyear; [|discriminate].
  destruct (ws1 s6) as [s7|] eqn:Ews3; [|discriminate].
  destruct (take2 s7) as [[h s8]|] eqn:Eh; [|discriminate].
  destruct (expect 58 (ws0 s8)) as [s9|] eqn:Ecol; [|discriminate].
  destruct (take2 (ws0 s9)) as [[mi s10]|] eqn:Emi; [|discriminate].
  destruct (rec_second s10) as [[sec s11]|] eqn:Esec; [|discriminate].
  destruct (ws1 s11) as [s12|] eqn:Ews4; [|discriminate].
  destruct (rec_zone s12) as [[z s13]|] eqn:Ez; [|discriminate].
  destruct (comments_to_end (S (List.length s13)) s13) eqn:Ecom; [|discriminate].
  pose proof (ws0_valid s Hv) as Hv0.
  pose proof (rec_day_digit _ _ _ Eday) as Hdig.
  destruct (dow_scan Parsed.parsed_new (ws0 s) wd s1 Hv0 (ws0_idem s) Edow Hdig eq_refl) as (_ & Hv1 & Tdow & _).
  destruct (day_scan (ws0 s1) d s2 (ws0_valid s1 Hv1) Eday) as (_ & Hv2 & Tday & _).
  assert (Hv3 : utf8_valid s3 = true) by (rewrite (ws1_ws0 _ _ Ews1); apply ws0_valid; exact Hv2).
  destruct (month_name_scan s3 mo s4 Hv3 Emon) as (_ & Hv4 & Tmon & _).
  assert (Hv5 : utf8_valid s5 = true) by (rewrite (ws1_ws0 _ _ Ews2); apply ws0_valid; exact Hv4).
  destruct (rec_year_digit s5 yl yv s6 Hv5 Eyear) as [Tyear Hv6].
  assert (Hv7 : utf8_valid s7 = true) by (rewrite (ws1_ws0 _ _ Ews3); apply ws0_valid; exact Hv6).
  destruct (take2_number s7 h s8 Hv7 Eh) as (_ & Hv8 & _ & Th).
  pose proof (ws0_valid s8 Hv8) as Hv8'.
  assert (Hcol : ws0 s8 = 58 :: s9).
  { unfold expect in Ecol. destruct (ws0 s8) as [|x t]; [discriminate|]. destruct (x =? 58) eqn:Ex; [|discriminate].
    injection Ecol as ->. f_equal. lia. }
  assert (Tcol : tok_start (ws0 s8)) by (rewrite Hcol; cbn [tok_start]; lia).
  assert (Hv9 : utf8_valid s9 = true) by (rewrite Hcol in Hv8'; destruct (utf8_valid_tail_ascii 58 s9 ltac:(lia) Hv8') as [H _]; exact H).
  destruct (take2_number (ws0 s9) mi s10 (ws0_valid s9 Hv9) Emi) as (_ & Hv10 & _ & Tmi).
  assert (Hs12 : s12 = ws0 s11) by (apply ws1_ws0; exact Ews4).
  pose proof (zone_start _ _ _ Ez) as Hzs.
  assert (Tz : tok_start s12) by (destruct s12 as [|c t]; [destruct Hzs|cbn [tok_start]; lia]).
  (* the optional seconds *)
  assert (Hsec : rec_second_u s10 = Some (sec, s11) /\ utf8_valid s11 = true).
  { unfold rec_second in Esec. unfold rec_second_u, uws0. pose proof (ws0_valid s10 Hv10) as Hv10'.
    destruct (ws0 s10) as [|c t] eqn:E10.
    - injection Esec as <- <-. rewrite Hs12, E10 in Hzs. destruct Hzs.
    - destruct (c =? 58) eqn:Ec.
      + assert (c = 58) by lia. subst c.
        assert (T10 : tok_start (ws0 s10)) by (rewrite E10; cbn [tok_start]; lia).
        rewrite (ws0_trim s10 T10), E10. cbn [Z.eqb Pos.eqb].
        unfold obind in Esec. destruct (take2 (ws0 t)) as [[v r']|] eqn:Et; [|discriminate]. injection Esec as <- <-.
        destruct (utf8_valid_tail_ascii 58 t ltac:(lia) Hv10') as [Hvt _].
        destruct (take2_number (ws0 t) v r' (ws0_valid t Hvt) Et) as (_ & Hvr & _ & Tt).
        rewrite (ws0_trim t Tt). unfold obind. rewrite Et. split; [reflexivity|exact Hvr].
      + injection Esec as <- <-. rewrite Hs12, E10 in Hzs.
        assert (T10 : tok_start (ws0 s10)) by (rewrite E10; cbn [tok_start]; lia).
        rewrite (ws0_trim s10 T10), E10, Ec. split; [reflexivity|exact Hv10]. }
  destruct Hsec as [Esec' Hv11].
  unfold recognise_u, uws0.
  rewrite (ws0_trim s Tdow), Edow. cbv beta iota zeta. rewrite (ws0_trim s1 Tday). unfold obind.
  rewrite Eday, (ws1_uws1 s2 s3 Hv2 Ews1 Tmon), Emon, (ws1_uws1 s4 s5 Hv4 Ews2 Tyear), Eyear, (ws1_uws1 s6 s7 Hv6 Ews3 Th), Eh.
  rewrite (ws0_trim s8 Tcol), Ecol, (ws0_trim s9 Tmi), Emi, Esec', (ws1_uws1 s11 s12 Hv11 Ews4 Tz), Ez.
  rewrite (comments_strict_u _ _ Ecom). exact Hr.
Qed.

(** * (2) reader soundness over all well-formed strings *)
Theorem reader_sound s z : utf8_valid s = true -> blen s <= u64_max ->
  parse_from_rfc2822 s = Val (POk z) ->
  exists f, recognise_u s = Some f /\ valid f = true /\ weekday_ok f = true /\ representable f = true /\
            enc_dtz z = enc5 (denote f).
Proof.
  intros Hv Hl H. unfold parse_from_rfc2822 in H.
  apply pbind_inv_ in H. destruct H as (p & Hp & H).
  destruct (scan_sound s p Hv Hl Hp) as (f & Hf & -> & Hset).
  apply bind_inv_ in H. destruct H as (r & Hr & H). injection H as H.
  destruct r as [z'|e]; cbn [of_res] in H; [|discriminate]. injection H as <-.
  rewrite parsed_of_resolve in Hr.
  destruct (to_datetime_ok_inv f Hset z' Hr) as (Hval & Hw & Hrep).
  exists f. repeat split; try assumption.
  assert (Hnn : fields_nonneg f).
  { destruct Hset as (_ & _ & _ & Hh & Hmi & Hs & _ & Hy & _). unfold fields_nonneg. lia. }
  destruct (to_datetime_fields f Hval Hrep Hnn Hw) as (z2 & Hz2 & He). rewrite Hr in Hz2. injection Hz2 as <-.
  rewrite He. unfold enc5. destruct (denote f) as [[[[y o] sd] fr] of_]. reflexivity.
Qed.

(** * (3) on the strict grammar the result is decided completely *)
Theorem reader_rejects_on_grammar s f : utf8_valid s = true -> blen s <= u64_max ->
  recognise s = Some f -> valid f && weekday_ok f && representable f = false ->
  exists e, r2_parse s = VErr (perr_name e).
Proof.
  intros Hv Hl Hr Hbad. destruct (V.Proofs.C11Total.parse_from_rfc2822_never_panics s Hv Hl) as (r & Hp).
  unfold r2_parse. rewrite Hp. destruct r as [z|e]; cbn [val_of_R val_of_presult]; [|exists e; reflexivity].
  exfalso. destruct (reader_sound s z Hv Hl Hp) as (f' & Hf' & Hval & Hw & Hrep & _).
  rewrite (recognise_in_recognise_u s f Hv Hr) in Hf'. injection Hf' as <-.
  rewrite Hval, Hw, Hrep in Hbad. discriminate.
Qed.

(** on the strict grammar: accepted exactly for valid, consistent, representable fields *)
Theorem reader_accepts_iff_on_grammar s f : utf8_valid s = true -> blen s <= u64_max -> recognise s = Some f ->
  ((exists z, parse_from_rfc2822 s = Val (POk z)) <->
   (valid f = true /\ weekday_ok f = true /\ representable f = true)).
Proof.
  intros Hv Hl Hr. split.
  - intros (z & Hz). destruct (reader_sound s z Hv Hl Hz) as (f' & Hf' & Hval & Hw & Hrep & _).
    rewrite (recognise_in_recognise_u s f Hv Hr) in Hf'. injection Hf' as <-. auto.
  - intros (Hval & Hw & Hrep). pose proof (reader_complete s f Hv Hl Hr Hval Hw Hrep) as Hc.
    destruct (V.Proofs.C11Total.parse_from_rfc2822_never_panics s Hv Hl) as (r & Hp).
    destruct r as [z|e]; [exists z; exact Hp|].
    exfalso. unfold r2_parse in Hc. rewrite Hp in Hc. cbn [val_of_R val_of_presult] in Hc.
    unfold enc5 in Hc. destruct (denote f) as [[[[y o] sd] fr] of_]. discriminate.
Qed.

(** the strings on which the reader and the strict grammar differ exist: white space that RFC 2822
    does not list (here a bare LF after the comma and a no-break space U+00A0 before the time) is
    accepted where the standard form has a space *)
Definition lenient_example : bytes := B"Tue," ++ [10] ++ B"1 Jul 2003" ++ [194; 160] ++ B"10:52:37 +0200".
Example lenient_witness :
  utf8_valid lenient_example = true /\ recognise lenient_example = None /\
  (exists f, recognise_u lenient_example = Some f /\ valid f = true /\ weekday_ok f = true /\ representable f = true) /\
  r2_parse lenient_example = VTup [VInt 2003; VInt 182; VInt 31957; VInt 0; VInt 7200].
Proof.
  split; [vm_compute; reflexivity|]. split; [vm_compute; reflexivity|]. split; [|vm_compute; reflexivity].
  eexists. split; [vm_compute; reflexivity|]. repeat split; vm_compute; reflexivity.
Qed.
