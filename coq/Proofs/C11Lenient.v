(** C11 -- reader completeness for the LENIENT grammar (Spec/Rfc2822Lenient.v [recognise_u]): the
    forward scanning proof of Proofs/C11Scan.v [scan_complete] redone with [str::trim_start] runs of
    Unicode white space in place of the folding-white-space step of the strict grammar.
    With Proofs/C11Exact.v [reader_sound] this gives the two-way theorem over ALL well-formed
    strings: DateTime::parse_from_rfc2822 returns Ok(z) exactly when the lenient grammar recognises
    the string with valid, consistent, representable fields, and then z is the denoted value; in
    every other case the result is an error value. *)
From Coq Require Import ZArith List Bool Lia ZifyBool String.
From V Require Model.Date Model.Time Model.Parsed.
From V Require Import Base.Int Base.IntLemmas Base.IO Base.Utf8 Gen.ScanTables Gen.Rfc2822Consts Model.Scan Model.DateTime
  Model.C11 Spec.Gregorian Spec.Rfc2822 Spec.Rfc2822Lenient Judge.C11
  Proofs.Utf8 Proofs.Scan Proofs.C11 Proofs.C11Scan Proofs.C11Resolve Proofs.C11Reader Proofs.C11Inv Proofs.C11Sound
  Proofs.C11ResolveInv Proofs.C11Exact.
From V Require Proofs.C13Safe Proofs.C11Total.
Import ListNotations.
Open Scope Z_scope.
Ltac Zify.zify_post_hook ::= Z.to_euclidean_division_equations.

(** * White space *)
(** a token start is not white space for [trim_start] *)
Lemma tok_trim s : tok_start s -> trim_start s = s.
Proof. intros H. exact (trim_prefix is_whitespace [] s (Forall_nil _) (tok_start_stops s H)). Qed.

(** mandatory white space of the lenient grammar: [scan::space] *)
Lemma space_uws1 s r : uws1 s = Some r -> space s = Val (POk r).
Proof.
  unfold uws1, space. cbv zeta. destruct (blen (trim_start s) <? blen s); [|discriminate].
  intros H. injection H as <-. reflexivity.
Qed.

(** * [ day-name "," ] followed (after white space) by the day digits *)
Lemma dow_scan_u p s wd s1 : utf8_valid s = true -> rec_dow s = (wd, s1) ->
  match trim_start s1 with c :: _ => is_ascii_digit c = true | [] => False end ->
  Parsed.pget Parsed.F_weekday p = None ->
  opt_weekday p s = Val (POk (match wd with Some w => Parsed.pput Parsed.F_weekday (Some w) p | None => p end, s1))
  /\ utf8_valid s1 = true /\ match wd with Some w => 0 <= w <= 6 | None => True end.
Proof.
  intros Hv H Hd Hp. unfold rec_dow in H. unfold opt_weekday.
  pose proof (V.Proofs.C13Safe.short_weekday_safe s Hv) as Hsafe.
  destruct (short_weekday s) as [[[s_ w]|e]| |] eqn:E; cbn [V.Proofs.C13Safe.safe] in Hsafe; try contradiction.
  - destruct (weekday_inv s s_ w Hv E) as [Hdn Hvs]. rewrite Hdn in H.
    destruct (day_name_scan s w s_ Hv Hdn) as (_ & _ & Ht & Hw).
    destruct (expect 44 s_) as [r'|] eqn:Eex.
    + injection H as <- <-. cbn [bind]. unfold expect in Eex. destruct s_ as [|x r0]; [discriminate|].
      destruct (x =? 44) eqn:Ex; [|discriminate]. injection Eex as <-. assert (x = 44) by lia. subst x.
      unfold R2_WEEKDAY_SEP. cbn [starts_with_byte Z.eqb Pos.eqb negb].
      destruct (utf8_valid_tail_ascii 44 r0 ltac:(lia) Hvs) as [Hv0 Hs0].
      rewrite str_from_1 by exact Hs0. cbn [bind]. unfold Parsed.set_weekday. rewrite set_ifc_fresh by exact Hp.
      cbn [pset pbind bind pok]. auto.
    + injection H as <- <-. exfalso. rewrite (tok_trim s Ht) in Hd.
      destruct (short_weekday_digit s Hv Hd) as (e & He). rewrite He in E. discriminate.
  - cbn [bind]. destruct (day_name s) as [[w r]|] eqn:Edn.
    + destruct (day_name_scan s w r Hv Edn) as (Hsw & _). rewrite Hsw in E. discriminate.
    + injection H as <- <-. split; [reflexivity|]. split; [exact Hv|exact I].
Qed.

(** * [ [WS] ":" [WS] second ] *)
Lemma second_scan_u p s sec r : utf8_valid s = true -> rec_second_u s = Some (sec, r) ->
  match sec with Some v => v <= 60 | None => True end ->
  Parsed.pget Parsed.F_second p = None ->
  opt_second p s = Val (POk (match sec with Some v => Parsed.pput Parsed.F_second (Some v) p | None => p end, r))
  /\ utf8_valid r = true /\ blen r <= blen s /\ match sec with Some v => 0 <= v | None => True end.
Proof.
  intros Hv H Hsec Hp. unfold rec_second_u, uws0 in H. unfold opt_second, R2_TIME_SEP2.
  destruct (trim_start_valid s Hv) as [Hv0 L0].
  rewrite char_ok by (exact Hv0 || lia).
  destruct (trim_start s) as [|c t] eqn:Ews.
  - injection H as <- <-. cbn [bind]. repeat split; auto; lia.
  - destruct (c =? 58) eqn:Ec.
    + assert (c = 58) by lia. subst c. unfold obind in H.
      destruct (take2 (trim_start t)) as [[v r']|] eqn:Et; [|discriminate]. injection H as <- <-.
      cbn [bind]. change (R2_SECOND_TRIM =? 1) with true. cbv iota.
      destruct (utf8_valid_tail_ascii 58 t ltac:(lia) Hv0) as [Hvt _].
      destruct (trim_start_valid t Hvt) as [Hvt0 Lt0].
      destruct (take2_number (trim_start t) v r' Hvt0 Et) as (Hn & Hvr & Hrange & Htok).
      unfold R2_SECOND_MIN, R2_SECOND_MAX. rewrite Hn. cbn [pbind bind].
      unfold Parsed.set_second. rewrite set_checked_fresh by (assumption || lia).
      rewrite as_u32_small by (unfold u32_max; lia). cbn [pset pbind bind pok].
      pose proof (take2_len _ _ _ Et). rewrite blen_cons in L0. repeat split; auto; lia.
    + injection H as <- <-. cbn [bind]. repeat split; auto; lia.
Qed.

(** * *( [WS] comment ) up to the end *)
Lemma comments_scan_u : forall fuel s, utf8_valid s = true -> blen s <= u64_max ->
  comments_to_end_u fuel s = true -> comments_loop fuel s = Val [].
Proof.
  induction fuel as [|f IH]; intros s Hv Hl H; [discriminate|].
  cbn [comments_to_end_u] in H. destruct s as [|c0 s0]; [reflexivity|].
  set (s := c0 :: s0) in *.
  destruct (comment_rest (uws0 s)) as [r|] eqn:Ec; [|discriminate].
  pose proof (comment_scan_of_rest s r Hv Hl Ec) as Hc.
  pose proof (V.Proofs.C11Total.comment_2822_safe s Hv Hl) as Hsafe. rewrite Hc in Hsafe.
  cbn [V.Proofs.C13Safe.safe fst] in Hsafe. destruct Hsafe as [Hvr Hlr].
  cbn [comments_loop]. rewrite Hc. cbn [bind]. apply IH; [exact Hvr|lia|exact H].
Qed.

(** * Assembly: every string of the lenient grammar with valid fields is scanned completely, without
    a trap, and sets exactly the fields of the specification *)
Theorem scan_complete_u s f : utf8_valid s = true -> blen s <= u64_max ->
  recognise_u s = Some f -> valid f = true -> year_in_range (year_of f) = true ->
  parse_items_rfc2822 Parsed.parsed_new s = Val (POk (parsed_of f)) /\ fields_nonneg f.
Proof.
  intros Hv Hl Hr Hval Hyr. unfold recognise_u, uws0 in Hr. cbv zeta in Hr.
  destruct (rec_dow (trim_start s)) as [wd s1] eqn:Edow.
  unfold obind in Hr.
  destruct (rec_day (trim_start s1)) as [[d s2]|] eqn:Eday; [|discriminate].
  destruct (uws1 s2) as [s3|] eqn:Ews1; [|discriminate].
  destruct (month_name s3) as [[mo s4]|] eqn:Emon; [|discriminate].
  destruct (uws1 s4) as [s5|] eqn:Ews2; [|discriminate].
  destruct (rec_year s5) as [[[yl yv] s6]|] eqn:Eyear; [|discriminate].
  destruct (uws1 s6) as [s7|] eqn:Ews3; [|discriminate].
  destruct (take2 s7) as [[h s8]|] eqn:Eh; [|discriminate].
  destruct (expect 58 (trim_start s8)) as [s9|] eqn:Ecol; [|discriminate].
  destruct (take2 (trim_start s9)) as [[mi s10]|] eqn:Emi; [|discriminate].
  destruct (rec_second_u s10) as [[sec s11]|] eqn:Esec; [|discriminate].
  destruct (uws1 s11) as [s12|] eqn:Ews4; [|discriminate].
  destruct (rec_zone s12) as [[z s13]|] eqn:Ez; [|discriminate].
  destruct (comments_to_end_u (S (List.length s13)) s13) eqn:Ecom; [|discriminate].
  injection Hr as <-.
  (* what validity says about the fields *)
  unfold valid in Hval. cbn [f_month f_day f_hour f_minute f_second f_zone] in Hval.
  set (F := mk_fields wd d mo yl yv h mi sec z) in *.
  assert (Hfields : valid_ymd (year_of F) mo d = true /\ h <= 23 /\ mi <= 59 /\ second_of F <= 60 /\ valid_zone z = true).
  { repeat (apply andb_prop in Hval; destruct Hval as [Hval ?]). repeat split; try assumption; try lia. unfold valid_ymd. lia. }
  destruct Hfields as (Hymd & Hh & Hmi & Hsecv & Hzv).
  (* forward: every intermediate string is well-formed and not longer than the one before *)
  destruct (trim_start_valid s Hv) as [Hv0 L0].
  pose proof (rec_dow_len _ _ _ Edow) as L1.
  pose proof (rec_day_digit _ _ _ Eday) as Hdig.
  destruct (dow_scan_u Parsed.parsed_new (trim_start s) wd s1 Hv0 Edow Hdig eq_refl) as (Ndow & Hv1 & Rwd).
  destruct (trim_start_valid s1 Hv1) as [Hv1' L1'].
  destruct (day_scan (trim_start s1) d s2 Hv1' Eday) as (Nday & Hv2 & Tday & Rday).
  pose proof (rec_day_len _ _ _ Eday) as L2.
  pose proof (uws1_trim _ _ Ews1) as E3. destruct (trim_start_valid s2 Hv2) as [Hv3 L3]. rewrite <- E3 in Hv3, L3.
  destruct (month_name_scan s3 mo s4 Hv3 Emon) as (Nmon & Hv4 & Tmon & Rmon).
  pose proof (month_name_len _ _ _ Emon) as L4.
  pose proof (uws1_trim _ _ Ews2) as E5. destruct (trim_start_valid s4 Hv4) as [Hv5 L5]. rewrite <- E5 in Hv5, L5.
  assert (Hyv' : yv <= 262142).
  { unfold year_in_range, MAX_YEAR, MIN_YEAR in Hyr. unfold year_of in Hyr. cbn [F f_ylen f_yval] in Hyr.
    destruct (yl =? 2); [destruct (yv <=? 49)|destruct (yl =? 3)]; lia. }
  assert (Hyv : yv <= i64_max) by (unfold i64_max; lia).
  destruct (year_scan s5 yl yv s6 Hv5 ltac:(lia) Eyear Hyv) as (Nyear & Hv6 & Tyear & Hyl & Hyl2 & Hyvr).
  pose proof (rec_year_len _ _ _ _ Eyear) as L6.
  pose proof (uws1_trim _ _ Ews3) as E7. destruct (trim_start_valid s6 Hv6) as [Hv7 L7]. rewrite <- E7 in Hv7, L7.
  destruct (take2_number s7 h s8 Hv7 Eh) as (Nh & Hv8 & Rh & Th).
  pose proof (take2_len _ _ _ Eh) as L8.
  destruct (trim_start_valid s8 Hv8) as [Hv8' L8'].
  assert (Hcol : trim_start s8 = 58 :: s9).
  { unfold expect in Ecol. destruct (trim_start s8) as [|x t]; [discriminate|]. destruct (x =? 58) eqn:Ex; [|discriminate].
    injection Ecol as ->. f_equal. lia. }
  assert (Hv9 : utf8_valid s9 = true) by (rewrite Hcol in Hv8'; destruct (utf8_valid_tail_ascii 58 s9 ltac:(lia) Hv8') as [H _]; exact H).
  assert (L9 : blen s9 <= blen s8) by (rewrite Hcol, blen_cons in L8'; lia).
  destruct (trim_start_valid s9 Hv9) as [Hv9' L9'].
  destruct (take2_number (trim_start s9) mi s10 Hv9' Emi) as (Nmi & Hv10 & Rmi & Tmi).
  pose proof (take2_len _ _ _ Emi) as L10.
  set (p1 := match wd with Some w => Parsed.pput Parsed.F_weekday (Some w) Parsed.parsed_new | None => Parsed.parsed_new end) in *.
  set (p2 := Parsed.pput Parsed.F_day (Some d) p1).
  set (p3 := Parsed.pput Parsed.F_month (Some mo) p2).
  set (p4 := Parsed.pput Parsed.F_year (Some (year_of F)) p3).
  set (p6 := Parsed.pput Parsed.F_hour_mod_12 (Some (h mod 12)) (Parsed.pput Parsed.F_hour_div_12 (Some (h / 12)) p4)).
  set (p7 := Parsed.pput Parsed.F_minute (Some mi) p6).
  destruct (second_scan_u p7 s10 sec s11 Hv10 Esec) as (Nsec & Hv11 & L11 & Rsec).
  { unfold second_of in Hsecv. cbn [F f_second] in Hsecv. destruct sec; [exact Hsecv|exact I]. }
  { destruct wd; reflexivity. }
  pose proof (uws1_trim _ _ Ews4) as E12. destruct (trim_start_valid s11 Hv11) as [Hv12 L12]. rewrite <- E12 in Hv12, L12.
  destruct (zone_scan s12 z s13 Hv12 Ez Hzv) as (Nz & Hv13 & Tz).
  pose proof (rec_zone_len _ _ _ Ez) as L13.
  pose proof (zone_offset_range z Hzv (ex_intro _ s12 (ex_intro _ s13 Ez))) as Hzr.
  pose proof (comments_scan_u _ s13 Hv13 ltac:(lia) Ecom) as Ncom.
  split.
  2:{ unfold fields_nonneg, second_of. cbn [F f_hour f_minute f_second f_yval]. destruct sec; repeat split; lia. }
  (* the model, step by step *)
  unfold parse_items_rfc2822, parse_rfc2822. cbv zeta.
  rewrite Ndow. cbv [pbind bind]. fold p1.
  unfold R2_DAY_MIN, R2_DAY_MAX. rewrite Nday. cbv [pbind bind].
  unfold Parsed.set_day. rewrite set_checked_fresh; [|destruct wd; reflexivity|].
  2:{ unfold valid_ymd in Hymd. assert (days_in_month (is_leap (year_of F)) mo <= 31) by (unfold days_in_month; destruct (mo =? 2); [destruct (is_leap (year_of F))|destruct ((mo =? 4) || (mo =? 6) || (mo =? 9) || (mo =? 11))]; lia). lia. }
  rewrite as_u32_small by (unfold u32_max; lia). cbv [pset pok pbind bind]. fold p2.
  rewrite (space_uws1 s2 s3 Ews1). cbv [pbind bind].
  rewrite Nmon. cbv [pbind bind].
  unfold add_i64, R2_MONTH_ADD. rewrite chk_in by (unfold in_i64, in_range, i64_min, i64_max; lia). cbv [bind].
  unfold Parsed.set_month. rewrite set_checked_fresh; [|destruct wd; reflexivity|lia].
  rewrite as_u32_small by (unfold u32_max; lia). replace (1 + (mo - 1)) with mo by lia. cbv [pset pok pbind bind]. fold p3.
  rewrite (space_uws1 s4 s5 Ews2). cbv [pbind bind].
  unfold R2_YEAR_MIN. rewrite Nyear. cbv [pbind bind].
  pose proof (blen_nonneg s6) as Hnn6. unfold sub_usize. rewrite chk_in by (unfold in_usize, in_u64, in_range, u64_max in *; lia). cbv [bind].
  rewrite Hyl. rewrite year_rule_ok by (unfold i64_max; lia).
  cbv [bind]. change (year_rule_spec yl yv) with (year_of F).
  unfold Parsed.set_year. rewrite set_checked_fresh; [|destruct wd; reflexivity|unfold year_in_range, MIN_YEAR, MAX_YEAR in Hyr; unfold i32_min, i32_max; lia].
  cbv [pset pok pbind bind]. fold p4.
  rewrite (space_uws1 s6 s7 Ews3). cbv [pbind bind].
  unfold R2_HOUR_MIN, R2_HOUR_MAX. rewrite Nh. cbv [pbind bind].
  rewrite set_hour_fresh; [|lia|destruct wd; reflexivity|destruct wd; reflexivity]. cbv [pset pok pbind bind]. fold p6.
  rewrite Hcol. unfold R2_TIME_SEP1. rewrite char_ok by (first [rewrite <- Hcol; exact Hv8' | lia]).
  cbn [Z.eqb Pos.eqb]. cbv [pbind bind].
  unfold R2_MINUTE_MIN, R2_MINUTE_MAX. rewrite Nmi. cbv [pbind bind].
  unfold Parsed.set_minute. rewrite set_checked_fresh; [|destruct wd; reflexivity|lia].
  rewrite as_u32_small by (unfold u32_max; lia). cbv [pset pok pbind bind]. fold p7.
  rewrite Nsec. cbv [pbind bind].
  rewrite (space_uws1 s11 s12 Ews4). cbv [pbind bind].
  rewrite Nz. cbv [pbind bind].
  unfold Parsed.set_offset. rewrite set_checked_fresh; [|destruct wd, sec; reflexivity|unfold i32_min, i32_max; lia].
  cbv [pset pok pbind bind]. rewrite Ncom. cbv [bind is_empty]. reflexivity.
Qed.

(** * reader_complete for the lenient grammar: the value returned is the denoted one *)
Theorem reader_complete_u s f : utf8_valid s = true -> blen s <= u64_max ->
  recognise_u s = Some f -> valid f = true -> weekday_ok f = true -> representable f = true ->
  exists z, parse_from_rfc2822 s = Val (POk z) /\ enc_dtz z = enc5 (denote f).
Proof.
  intros Hv Hl Hr Hval Hw Hrep.
  destruct (scan_complete_u s f Hv Hl Hr Hval (representable_year f Hrep)) as [Hs Hnn].
  destruct (to_datetime_fields f Hval Hrep Hnn Hw) as (z & Hz & He).
  exists z. split.
  - unfold parse_from_rfc2822. rewrite Hs. cbv [pbind bind]. rewrite parsed_of_resolve, Hz. reflexivity.
  - rewrite He. unfold enc5. destruct (denote f) as [[[[y o] sd] fr] of_]. reflexivity.
Qed.
Corollary reader_complete_u_val s f : utf8_valid s = true -> blen s <= u64_max ->
  recognise_u s = Some f -> valid f = true -> weekday_ok f = true -> representable f = true ->
  r2_parse s = enc5 (denote f).
Proof.
  intros Hv Hl Hr Hval Hw Hrep. destruct (reader_complete_u s f Hv Hl Hr Hval Hw Hrep) as (z & Hz & He).
  unfold r2_parse. rewrite Hz. cbn [val_of_R val_of_presult]. exact He.
Qed.

(** a day of week that is not the date's is refused on the lenient grammar too *)
Theorem weekday_contradiction_rejected_u s f : utf8_valid s = true -> blen s <= u64_max ->
  recognise_u s = Some f -> valid f = true -> weekday_ok f = false -> representable f = true ->
  r2_parse s = VErr (perr_name Impossible).
Proof.
  intros Hv Hl Hr Hval Hw Hrep. unfold r2_parse, parse_from_rfc2822.
  destruct (scan_complete_u s f Hv Hl Hr Hval (representable_year f Hrep)) as [Hs Hnn].
  rewrite Hs. cbv [pbind bind]. rewrite parsed_of_resolve.
  rewrite (to_datetime_weekday_contradiction f Hval Hrep Hnn Hw). reflexivity.
Qed.

(** * The two-way theorem over ALL well-formed strings *)
Theorem reader_accepts_iff s v : utf8_valid s = true -> blen s <= u64_max ->
  ((exists z, parse_from_rfc2822 s = Val (POk z) /\ enc_dtz z = v) <->
   (exists f, recognise_u s = Some f /\ valid f = true /\ weekday_ok f = true /\ representable f = true /\
              v = enc5 (denote f))).
Proof.
  intros Hv Hl. split.
  - intros (z & Hz & <-). destruct (reader_sound s z Hv Hl Hz) as (f & H1 & H2 & H3 & H4 & H5).
    exists f. repeat split; assumption.
  - intros (f & H1 & H2 & H3 & H4 & ->). exact (reader_complete_u s f Hv Hl H1 H2 H3 H4).
Qed.

(** acceptance alone *)
Corollary reader_accepts_iff_grammar s : utf8_valid s = true -> blen s <= u64_max ->
  ((exists z, parse_from_rfc2822 s = Val (POk z)) <->
   (exists f, recognise_u s = Some f /\ valid f = true /\ weekday_ok f = true /\ representable f = true)).
Proof.
  intros Hv Hl. split.
  - intros (z & Hz). destruct (reader_sound s z Hv Hl Hz) as (f & H1 & H2 & H3 & H4 & _). exists f. auto.
  - intros (f & H1 & H2 & H3 & H4). destruct (reader_complete_u s f Hv Hl H1 H2 H3 H4) as (z & Hz & _). exists z. exact Hz.
Qed.

(** the output of the reader on EVERY well-formed string is decided by the specification: the
    denoted value when the lenient grammar recognises the string with valid, consistent,
    representable fields, an error value in every other case *)
Theorem reader_decided s : utf8_valid s = true -> blen s <= u64_max ->
  match recognise_u s with
  | Some f => if valid f && weekday_ok f && representable f then r2_parse s = enc5 (denote f)
              else exists e, r2_parse s = VErr (perr_name e)
  | None => exists e, r2_parse s = VErr (perr_name e)
  end.
Proof.
  intros Hv Hl.
  assert (Hrej : (forall f, recognise_u s = Some f -> valid f && weekday_ok f && representable f = false) ->
                 exists e, r2_parse s = VErr (perr_name e)).
  { intros Hno. destruct (V.Proofs.C11Total.parse_from_rfc2822_never_panics s Hv Hl) as (r & Hp).
    unfold r2_parse. rewrite Hp. destruct r as [z|e]; cbn [val_of_R val_of_presult]; [|exists e; reflexivity].
    exfalso. destruct (reader_sound s z Hv Hl Hp) as (f & Hf & Hval & Hw & Hrep & _).
    specialize (Hno f Hf). rewrite Hval, Hw, Hrep in Hno. discriminate. }
  destruct (recognise_u s) as [f|] eqn:Er.
  - destruct (valid f && weekday_ok f && representable f) eqn:E.
    + apply andb_prop in E. destruct E as [E Hrep]. apply andb_prop in E. destruct E as [Hval Hw].
      apply reader_complete_u_val; assumption.
    + apply Hrej. intros f' Hf'. injection Hf' as <-. exact E.
  - apply Hrej. intros f' Hf'. discriminate.
Qed.

(** the two sides of [reader_accepts_iff] are inhabited by a string outside the strict grammar (a bare
    LF after the comma, a no-break space before the time): the right-hand side by computation, the
    left-hand side through the theorem *)
Example accepts_iff_witness :
  utf8_valid lenient_example = true /\ blen lenient_example <= u64_max /\ recognise lenient_example = None /\
  (exists f, recognise_u lenient_example = Some f /\ valid f = true /\ weekday_ok f = true /\ representable f = true /\
             VTup [VInt 2003; VInt 182; VInt 31957; VInt 0; VInt 7200] = enc5 (denote f)) /\
  (exists z, parse_from_rfc2822 lenient_example = Val (POk z) /\
             enc_dtz z = VTup [VInt 2003; VInt 182; VInt 31957; VInt 0; VInt 7200]).
Proof.
  assert (Hv : utf8_valid lenient_example = true) by (vm_compute; reflexivity).
  assert (Hl : blen lenient_example <= u64_max) by (vm_compute; intro H; discriminate H).
  assert (Hf : exists f, recognise_u lenient_example = Some f /\ valid f = true /\ weekday_ok f = true /\ representable f = true /\
             VTup [VInt 2003; VInt 182; VInt 31957; VInt 0; VInt 7200] = enc5 (denote f)).
  { eexists. split; [vm_compute; reflexivity|]. repeat split; vm_compute; reflexivity. }
  split; [exact Hv|]. split; [exact Hl|]. split; [vm_compute; reflexivity|]. split; [exact Hf|].
  apply (proj2 (reader_accepts_iff lenient_example _ Hv Hl)). exact Hf.
Qed.
