(** C15 -- proofs.  Corollaries of the owners' theorems (Props/Cxx.v) in the form "for all arguments
    of the Rust types the modelled entry point returns (neither Panic nor OutOfFuel) and a returned
    value is valid", plus the lemmas about the [c15.*] compositions of Model/C15.v. *)
From Coq Require Import ZArith List Bool Lia ZifyBool String.
From V Require Import Base.Int Base.IO Spec.Gregorian Spec.TimeOfDay.
From V Require Model.Date Model.Time Model.DateTime Model.TimeDelta Model.Items Model.Strftime Model.C15.
From V Require Proofs.C08Sweeps Proofs.C08Date Proofs.C08AddDays Proofs.Time Proofs.C06.
From V Require Props.C01 Props.C06 Props.C07 Props.C10 Props.C12.
Import ListNotations.
Open Scope Z_scope.

(** * "returns": the R-monad value is neither a trap nor an exhausted fuel *)
Definition returns {A} (r : R A) : Prop := r <> Panic /\ r <> OutOfFuel.
Lemma returns_val {A} (r : R A) (v : A) : r = Val v -> returns r.
Proof. intros ->. split; discriminate. Qed.
Lemma returns_ex {A} (r : R A) : (exists v, r = Val v) -> returns r.
Proof. intros [v ->]. split; discriminate. Qed.
Lemma returns_bind {A C} (r : R A) (f : A -> R C) : returns r -> (forall a, r = Val a -> returns (f a)) -> returns (bind r f).
Proof. destruct r as [a| |]; intros [H1 H2] Hf; [exact (Hf a eq_refl)|congruence|congruence]. Qed.

(** * validity of model values *)
Definition date_valid (d : Z) : Prop := exists y o, Proofs.C08Sweeps.repr y o d.
Definition time_valid (t : Model.Time.ntime) : Prop := Proofs.Time.tvalid t.
Definition ndt_valid (a : Model.DateTime.ndt) : Prop := date_valid (Model.DateTime.nd_date a) /\ time_valid (Model.DateTime.nd_time a).

(** * NaiveDate constructors (C01): all i32 / u32 arguments; value valid *)
Lemma date_if_valid b d (Hd : b = true -> date_valid d) x : Proofs.C08Date.date_if b d = Some x -> date_valid x.
Proof. unfold Proofs.C08Date.date_if. destruct b; [|discriminate]. intros [= <-]. auto. Qed.

Lemma from_ymd_opt_total y m dd : in_i32 y = true -> in_u32 m = true -> in_u32 dd = true ->
  returns (Model.Date.from_ymd_opt y m dd) /\
  forall d, Model.Date.from_ymd_opt y m dd = Val (Some d) -> date_valid d.
Proof.
  intros Hy Hm Hd. pose proof (Props.C01.C01_from_ymd_opt y m dd Hy Hm Hd) as E. split; [exact (returns_val _ _ E)|].
  intros d H. rewrite E in H. injection H as H. revert H. apply date_if_valid.
  intros Hb. apply andb_prop in Hb. destruct Hb as [H1 H2].
  destruct (Props.C01.C01_mk_ymd_repr y m dd H1 H2) as [R _]. eexists; eexists; exact R.
Qed.
Lemma from_yo_opt_total y o : in_i32 y = true -> in_u32 o = true ->
  returns (Model.Date.from_yo_opt y o) /\ forall d, Model.Date.from_yo_opt y o = Val (Some d) -> date_valid d.
Proof.
  intros Hy Ho. pose proof (Props.C01.C01_from_yo_opt y o Hy Ho) as E. split; [exact (returns_val _ _ E)|].
  intros d H. rewrite E in H. injection H as H. revert H. apply date_if_valid.
  intros Hb. apply andb_prop in Hb. destruct Hb as [H1 H2]. exists y, o. apply Proofs.C08Date.repr_mk; assumption.
Qed.
Lemma from_isoywd_opt_total y w wd : in_i32 y = true -> in_u32 w = true -> 0 <= wd <= 6 ->
  returns (Model.Date.from_isoywd_opt y w wd) /\ forall d, Model.Date.from_isoywd_opt y w wd = Val (Some d) -> date_valid d.
Proof.
  intros Hy Hw Hwd. pose proof (Props.C01.C01_from_isoywd_opt y w wd Hy Hw Hwd) as E. split; [exact (returns_val _ _ E)|].
  intros d H. rewrite E in H. injection H as H. revert H. apply date_if_valid.
  intros Hb. apply andb_prop in Hb. destruct Hb as [_ H2]. eexists; eexists. exact (Props.C01.C01_date_of_dn_repr _ H2).
Qed.
Lemma from_num_days_from_ce_opt_total n : in_i32 n = true ->
  returns (Model.Date.from_num_days_from_ce_opt n) /\ forall d, Model.Date.from_num_days_from_ce_opt n = Val (Some d) -> date_valid d.
Proof.
  intros Hn. pose proof (Props.C01.C01_from_num_days_from_ce_opt n Hn) as E. split; [exact (returns_val _ _ E)|].
  intros d H. rewrite E in H. injection H as H. revert H. apply date_if_valid.
  intros Hb. eexists; eexists. exact (Props.C01.C01_date_of_dn_repr _ Hb).
Qed.
Lemma succ_pred_total d : date_valid d -> returns (Model.Date.succ_opt d) /\ returns (Model.Date.pred_opt d) /\
  (forall x, Model.Date.succ_opt d = Val (Some x) -> date_valid x) /\ (forall x, Model.Date.pred_opt d = Val (Some x) -> date_valid x).
Proof.
  intros (y & o & R). pose proof (Props.C01.C01_succ_opt y o d R) as E1. pose proof (Props.C01.C01_pred_opt y o d R) as E2.
  split; [exact (returns_val _ _ E1)|]. split; [exact (returns_val _ _ E2)|]. split; intros x H.
  - rewrite E1 in H. injection H as H. revert H. apply date_if_valid. intros Hb. eexists; eexists. exact (Props.C01.C01_date_of_dn_repr _ Hb).
  - rewrite E2 in H. injection H as H. revert H. apply date_if_valid. intros Hb. eexists; eexists. exact (Props.C01.C01_date_of_dn_repr _ Hb).
Qed.

(** * NaiveTime constructors (C07): all u32 arguments; value valid *)
Lemma accept_valid h m s n : in_u32 h = true -> in_u32 m = true -> in_u32 s = true -> 0 <= n ->
  accept_hms_nano h m s n = true -> time_valid (Model.Time.mk_time (secs_of_hms h m s) n).
Proof.
  intros Hh Hm Hs Hn Ha. unfold in_u32, in_range in *.
  apply (Props.C07.C07_ctor_valid h m s n Ha); lia.
Qed.
Lemma from_hms_nano_opt_total h m s n : in_u32 h = true -> in_u32 m = true -> in_u32 s = true -> in_u32 n = true ->
  returns (Model.Time.from_hms_nano_opt h m s n) /\ forall t, Model.Time.from_hms_nano_opt h m s n = Val (Some t) -> time_valid t.
Proof.
  intros Hh Hm Hs Hn. pose proof (Props.C07.C07_ctor_accept_iff_hms_nano h m s n Hh Hm Hs Hn) as E.
  split; [exact (returns_val _ _ E)|]. intros t H. rewrite E in H. injection H as H.
  destruct (accept_hms_nano h m s n) eqn:Ea; [|discriminate]. injection H as <-.
  apply accept_valid; try assumption. unfold in_u32, in_range in Hn. lia.
Qed.
Lemma from_hms_opt_total h m s : in_u32 h = true -> in_u32 m = true -> in_u32 s = true ->
  returns (Model.Time.from_hms_opt h m s) /\ forall t, Model.Time.from_hms_opt h m s = Val (Some t) -> time_valid t.
Proof. intros Hh Hm Hs. apply (from_hms_nano_opt_total h m s 0 Hh Hm Hs). reflexivity. Qed.
Lemma from_hms_milli_opt_total h m s x : in_u32 h = true -> in_u32 m = true -> in_u32 s = true -> in_u32 x = true ->
  returns (Model.Time.from_hms_milli_opt h m s x) /\ forall t, Model.Time.from_hms_milli_opt h m s x = Val (Some t) -> time_valid t.
Proof.
  intros Hh Hm Hs Hx. pose proof (Props.C07.C07_ctor_accept_iff_hms_milli h m s x Hh Hm Hs Hx) as E.
  split; [exact (returns_val _ _ E)|]. intros t H. rewrite E in H. injection H as H.
  destruct (accept_hms_nano h m s (x * 1000000)) eqn:Ea; [|discriminate]. injection H as <-.
  apply accept_valid; try assumption. unfold in_u32, in_range in Hx. lia.
Qed.
Lemma from_hms_micro_opt_total h m s x : in_u32 h = true -> in_u32 m = true -> in_u32 s = true -> in_u32 x = true ->
  returns (Model.Time.from_hms_micro_opt h m s x) /\ forall t, Model.Time.from_hms_micro_opt h m s x = Val (Some t) -> time_valid t.
Proof.
  intros Hh Hm Hs Hx. pose proof (Props.C07.C07_ctor_accept_iff_hms_micro h m s x Hh Hm Hs Hx) as E.
  split; [exact (returns_val _ _ E)|]. intros t H. rewrite E in H. injection H as H.
  destruct (accept_hms_nano h m s (x * 1000)) eqn:Ea; [|discriminate]. injection H as <-.
  apply accept_valid; try assumption. unfold in_u32, in_range in Hx. lia.
Qed.

(** * NaiveDate::and_hms_opt and its milli, micro, nano variants (ops c15.d.hms..): the date is kept, the time is the constructor result *)
Lemma d_and_time_opt_total d rt : date_valid d -> returns rt -> (forall t, rt = Val (Some t) -> time_valid t) ->
  returns (Model.C15.d_and_time_opt d rt) /\ forall a, Model.C15.d_and_time_opt d rt = Val (Some a) -> ndt_valid a.
Proof.
  intros Hd [H1 H2] Ht. unfold Model.C15.d_and_time_opt. destruct rt as [ot| |]; try congruence. cbn [bind].
  split; [split; discriminate|]. intros a H. injection H as H. destruct ot as [t|]; [|discriminate]. injection H as <-.
  split; cbn [Model.DateTime.nd_date Model.DateTime.nd_time]; [exact Hd|exact (Ht t eq_refl)].
Qed.
Lemma and_hms_total d h m s : date_valid d -> in_u32 h = true -> in_u32 m = true -> in_u32 s = true ->
  returns (Model.C15.d_and_hms_opt d h m s) /\ forall a, Model.C15.d_and_hms_opt d h m s = Val (Some a) -> ndt_valid a.
Proof. intros Hd Hh Hm Hs. destruct (from_hms_opt_total h m s Hh Hm Hs). apply d_and_time_opt_total; assumption. Qed.
Lemma and_hms_milli_total d h m s x : date_valid d -> in_u32 h = true -> in_u32 m = true -> in_u32 s = true -> in_u32 x = true ->
  returns (Model.C15.d_and_hms_milli_opt d h m s x) /\ forall a, Model.C15.d_and_hms_milli_opt d h m s x = Val (Some a) -> ndt_valid a.
Proof. intros Hd Hh Hm Hs Hx. destruct (from_hms_milli_opt_total h m s x Hh Hm Hs Hx). apply d_and_time_opt_total; assumption. Qed.
Lemma and_hms_micro_total d h m s x : date_valid d -> in_u32 h = true -> in_u32 m = true -> in_u32 s = true -> in_u32 x = true ->
  returns (Model.C15.d_and_hms_micro_opt d h m s x) /\ forall a, Model.C15.d_and_hms_micro_opt d h m s x = Val (Some a) -> ndt_valid a.
Proof. intros Hd Hh Hm Hs Hx. destruct (from_hms_micro_opt_total h m s x Hh Hm Hs Hx). apply d_and_time_opt_total; assumption. Qed.
Lemma and_hms_nano_total d h m s x : date_valid d -> in_u32 h = true -> in_u32 m = true -> in_u32 s = true -> in_u32 x = true ->
  returns (Model.C15.d_and_hms_nano_opt d h m s x) /\ forall a, Model.C15.d_and_hms_nano_opt d h m s x = Val (Some a) -> ndt_valid a.
Proof. intros Hd Hh Hm Hs Hx. destruct (from_hms_nano_opt_total h m s x Hh Hm Hs Hx). apply d_and_time_opt_total; assumption. Qed.

(** * RFC 3339 reader (C10): every well-formed string *)
Lemma parse_from_rfc3339_total s : Base.Utf8.utf8_valid s = true -> returns (Model.Rfc3339.parse_from_rfc3339 s).
Proof. intros H. apply returns_ex. exact (Props.C10.C10_parse_never_traps s H). Qed.

(** * format-string items (C12): the iterator ends, at most 13 items per byte; the item count op and
      StrftimeItems::parse are never FUEL *)
Lemma strftime_items_bounded s lenient : Gen.Strftime.SF_ERROR_CONSUMES = true \/ lenient = true ->
  Model.C15.sf_items s lenient <> OutOfFuel /\ Model.C15.sf_items s lenient <> Val None /\
  forall l, Model.C15.sf_items s lenient = Val (Some l) -> Z.of_nat (List.length l) <= 13 * Z.of_nat (List.length s).
Proof.
  intros H. pose proof (Props.C12.C12_strftime_terminates s lenient H) as T. unfold Model.C15.sf_items.
  destruct (Model.Strftime.sf_take _ _ _) as [[l|]| |]; try contradiction.
  - repeat split; try discriminate. intros l' [= <-]. exact T.
  - repeat split; discriminate.
Qed.
Lemma item_count_bounded s lenient : Gen.Strftime.SF_ERROR_CONSUMES = true \/ lenient = true ->
  Model.C15.item_count s lenient <> VFuel /\
  forall n, Model.C15.item_count s lenient = VInt n -> n <= 13 * Z.of_nat (List.length s).
Proof.
  intros H. destruct (strftime_items_bounded s lenient H) as (H1 & H2 & H3). unfold Model.C15.item_count.
  destruct (Model.C15.sf_items s lenient) as [[l|]| |]; try congruence.
  all: split; try discriminate. intros n [= <-]. specialize (H3 l eq_refl). lia.
Qed.
Lemma sf_parse_no_fuel s lenient : Gen.Strftime.SF_ERROR_CONSUMES = true \/ lenient = true ->
  Model.C15.sf_parse s lenient <> VFuel.
Proof.
  intros H. destruct (strftime_items_bounded s lenient H) as (H1 & H2 & H3). unfold Model.C15.sf_parse.
  destruct (Model.C15.sf_items s lenient) as [[l|]| |]; try congruence.
  all: try discriminate. destruct (existsb _ l); [discriminate|]. unfold Model.Items.enc_items. discriminate.
Qed.

Lemma time_ctor_total h m s x : in_u32 h = true -> in_u32 m = true -> in_u32 s = true -> in_u32 x = true ->
  (returns (Model.Time.from_hms_opt h m s) /\ forall t, Model.Time.from_hms_opt h m s = Val (Some t) -> time_valid t) /\
  (returns (Model.Time.from_hms_milli_opt h m s x) /\ forall t, Model.Time.from_hms_milli_opt h m s x = Val (Some t) -> time_valid t) /\
  (returns (Model.Time.from_hms_micro_opt h m s x) /\ forall t, Model.Time.from_hms_micro_opt h m s x = Val (Some t) -> time_valid t) /\
  (returns (Model.Time.from_hms_nano_opt h m s x) /\ forall t, Model.Time.from_hms_nano_opt h m s x = Val (Some t) -> time_valid t).
Proof.
  intros Hh Hm Hs Hx. split; [apply from_hms_opt_total; assumption|]. split; [apply from_hms_milli_opt_total; assumption|].
  split; [apply from_hms_micro_opt_total; assumption|apply from_hms_nano_opt_total; assumption].
Qed.
Lemma and_hms_all_total d h m s x : date_valid d ->
  in_u32 h = true -> in_u32 m = true -> in_u32 s = true -> in_u32 x = true ->
  (returns (Model.C15.d_and_hms_opt d h m s) /\ forall a, Model.C15.d_and_hms_opt d h m s = Val (Some a) -> ndt_valid a) /\
  (returns (Model.C15.d_and_hms_milli_opt d h m s x) /\ forall a, Model.C15.d_and_hms_milli_opt d h m s x = Val (Some a) -> ndt_valid a) /\
  (returns (Model.C15.d_and_hms_micro_opt d h m s x) /\ forall a, Model.C15.d_and_hms_micro_opt d h m s x = Val (Some a) -> ndt_valid a) /\
  (returns (Model.C15.d_and_hms_nano_opt d h m s x) /\ forall a, Model.C15.d_and_hms_nano_opt d h m s x = Val (Some a) -> ndt_valid a).
Proof.
  intros Hd Hh Hm Hs Hx. split; [apply and_hms_total; assumption|]. split; [apply and_hms_milli_total; assumption|].
  split; [apply and_hms_micro_total; assumption|apply and_hms_nano_total; assumption].
Qed.
Lemma hypotheses_inhabited :
  date_valid (Model.Date.D_MAX) /\ Gen.Strftime.SF_ERROR_CONSUMES = true /\
  Model.C15.item_count (B"%c%c") false = VInt 26 /\ Model.C15.sf_parse (B"%Q") false = VErr B"BadFormat".
Proof.
  split; [|split; [reflexivity|split; vm_compute; reflexivity]].
  exists 262142, 365. split; [reflexivity|]. split; vm_compute; reflexivity.
Qed.
