(** Local facts about the shared calendar model (Model/Date.v) that the C08 theorems need, part 2:
    the packed word of a date as arithmetic ([mkdate y o = y*8192 + o*16 + flags]); accessors,
    constructors, setters, month stepping and day stepping against Spec/Gregorian.v.
    To be reconciled with Proofs/Date.v (C01). *)
From Coq Require Import ZArith List Bool Lia ZifyBool.
From V Require Import Base.Int Base.IntLemmas Base.Bits Base.Lift Base.Table Gen.DateTables
  Spec.Gregorian Model.Date Proofs.C08Sweeps.
Import ListNotations.
Open Scope Z_scope.
Ltac Zify.zify_post_hook ::= Z.to_euclidean_division_equations.

(** * Accessors on a represented date *)
Lemma acc_ok_lo lo : 0 <= lo < 8192 -> acc_ok lo = true.
Proof. intros H. apply (forall_range_spec _ _ _ acc_sweep). lia. Qed.
Lemma mdf_ok_i i : 0 <= i < 6656 -> mdf_ok i = true.
Proof. intros H. apply (forall_range_spec _ _ _ mdf_sweep). lia. Qed.

Lemma year_range_bounds y : year_in_range y = true -> -262143 <= y <= 262142.
Proof. unfold year_in_range, MIN_YEAR, MAX_YEAR. lia. Qed.

Record lo_facts (y o : Z) : Prop := {
  lf_f : 1 <= yflags y <= 15;
  lf_o : 1 <= o <= 366;
  lf_div : (o * 16 + yflags y) / 16 = o;
  lf_mod : (o * 16 + yflags y) mod 16 = yflags y;
  lf_rng : 0 <= o * 16 + yflags y < 8192;
  lf_leap : f_leap (yflags y) = is_leap y;
  lf_valid : lo_valid (o * 16 + yflags y) = true }.
Lemma lo_facts_of y o : valid_yo y o = true -> lo_facts y o.
Proof.
  intros Ho. destruct (yflags_facts y) as (_ & Hf & H7 & H8 & _).
  unfold valid_yo, days_in_year in Ho.
  assert (Hd : (o * 16 + yflags y) / 16 = o) by lia.
  assert (Hm : (o * 16 + yflags y) mod 16 = yflags y) by lia.
  assert (Ho' : 1 <= o <= 366) by (destruct (is_leap y); lia).
  split; try assumption; try lia.
  unfold lo_valid. rewrite Hd, Hm. unfold ylen_f, f_leap. rewrite H8.
  destruct (is_leap y); lia.
Qed.

Section Acc.
  Context (y o d : Z) (H : repr y o d).
  Let f := yflags y.
  Let lo := o * 16 + f.
  Let Hy : year_in_range y = true := proj1 H.
  Let Ho : valid_yo y o = true := proj1 (proj2 H).
  Let Hd : d = y * 8192 + lo := proj2 (proj2 H).
  Let F : lo_facts y o := lo_facts_of y o Ho.

  Lemma repr_acc :
    let '(m, dd) := md_of_ordinal (is_leap y) o in
    d_year d = y /\ d_ordinal d = o /\ d_year_flags d = f /\ d_leap_year d = is_leap y /\
    from_yof d = Val d /\ d_mdf d = Val (m * 512 + dd * 16 + f) /\
    d_month d = Val m /\ d_day d = Val dd /\
    d_weekday d = Val (weekday_of_dn (dn_of_yo y o)) /\
    valid_md (is_leap y) m dd = true /\ ordinal_of_md (is_leap y) m dd = o.
  Proof.
    destruct F as [Ff Fo Fdiv Fmod Frng Fleap Fvalid]. fold f lo in Ff, Fdiv, Fmod, Frng, Fleap, Fvalid.
    pose proof (acc_ok_lo lo Frng) as A. unfold acc_ok in A.
    rewrite Fvalid, Fdiv, Fmod, Fleap in A.
    destruct (md_of_ordinal (is_leap y) o) as [m dd] eqn:Emd.
    repeat (apply andb_prop in A; destruct A as [A ?]).
    match goal with h : rz_is (from_yof lo) _ = true |- _ => apply rz_is_eq in h; rename h into Hyof end.
    match goal with h : rz_is (d_mdf lo) _ = true |- _ => apply rz_is_eq in h; rename h into Hmdf end.
    match goal with h : rz_is (d_weekday lo) _ = true |- _ => apply rz_is_eq in h; rename h into Hwd end.
    pose proof (year_range_bounds y Hy) as Hyb.
    assert (L : forall m0, 0 <= m0 < 8192 -> Z.land d m0 = Z.land lo m0).
    { intros m0 Hm0. rewrite Hd. apply land_lo; lia. }
    assert (Emdf : d_mdf d = Val (m * 512 + dd * 16 + f)).
    { rewrite <- Hmdf. unfold d_mdf, d_year_flags, D_OL_MASK, D_YEAR_FLAGS_MASK. rewrite !L by lia. reflexivity. }
    split. { unfold d_year, shr, D_YEAR_SHIFT. rewrite Z.shiftr_div_pow2 by lia. change (2 ^ 13) with 8192. lia. }
    split. { unfold d_ordinal, shr, D_ORDINAL_MASK, D_ORDINAL_SHIFT. rewrite L by lia.
             replace (Z.shiftr (Z.land lo 8176) 4) with o by lia. apply as_u32_id. unfold in_u32, in_range, u32_max. lia. }
    split. { unfold d_year_flags, D_YEAR_FLAGS_MASK. rewrite L by lia. replace (Z.land lo 15) with f by lia.
             apply as_u8_id. unfold in_u8, in_range, u8_max. lia. }
    split. { unfold d_leap_year. rewrite L by lia. rewrite <- Fleap. unfold f_leap.
             replace (Z.land lo 8) with (Z.land f 8) by lia. reflexivity. }
    split. { revert Hyof. unfold from_yof, D_OL_MASK, D_MAX_OL. rewrite !L by lia.
             destruct (rassert _); cbn [bind]; try discriminate.
             destruct (rassert _); cbn [bind]; try discriminate.
             destruct (rassert _); cbn [bind]; try discriminate. reflexivity. }
    split. { exact Emdf. }
    pose proof (mdf_ok_i (m * 512 + dd * 16 + f)) as M.
    unfold valid_md in *. 
    assert (Hmd : 1 <= m <= 12 /\ 1 <= dd <= 31).
    { unfold days_in_month in *. repeat match goal with |- context [if ?c then _ else _] => destruct c end;
      repeat match goal with h : context [if ?c then _ else _] |- _ => destruct c end; lia. }
    specialize (M ltac:(lia)). unfold mdf_ok in M.
    replace ((m * 512 + dd * 16 + f) / 512) with m in M by lia.
    repeat (apply andb_prop in M; destruct M as [M ?]).
    split. { unfold d_month. rewrite Emdf. cbn [bind]. f_equal. lia. }
    split. { unfold d_day. rewrite Emdf. cbn [bind]. f_equal.
             replace ((m * 512 + dd * 16 + f) / 16 mod 32) with dd in * by lia. lia. }
    split. { destruct (yflags_facts y) as (_ & _ & _ & _ & W). pose proof (W o) as Wo. fold f in Wo.
             rewrite <- Wo, <- Hwd. unfold d_weekday, D_ORDINAL_MASK, D_WEEKDAY_FLAGS_MASK.
             rewrite !L by lia. reflexivity. }
    split; [|lia]. unfold valid_md. lia.
  Qed.
End Acc.
