(** Local facts about the shared calendar model (Model/Date.v) that the C08 theorems need, part 2:
    the packed word of a date as arithmetic ([mkdate y o = y*8192 + o*16 + flags]); accessors,
    constructors, setters, month stepping and day stepping against Spec/Gregorian.v.
    To be reconciled with Proofs/Date.v (C01). *)
From Coq Require Import ZArith List Bool Lia ZifyBool.
From V Require Import Base.Int Base.IntLemmas Base.Bits Base.Lift Base.Table Gen.DateTables
  Spec.Gregorian Model.Date Proofs.C08Sweeps.
Import ListNotations.
Open Scope Z_scope.
Ltac Zify.zify_post_hook ::= Z.to_euclidean_division_equations.

(** * Accessors on a represented date *)
Lemma acc_ok_lo lo : 0 <= lo < 8192 -> acc_ok lo = true.
Proof. intros H. apply (forall_range_spec _ _ _ acc_sweep). lia. Qed.
Lemma mdf_ok_i i : 0 <= i < 6656 -> mdf_ok i = true.
Proof. intros H. apply (forall_range_spec _ _ _ mdf_sweep). lia. Qed.

Lemma year_range_bounds y : year_in_range y = true -> -262143 <= y <= 262142.
Proof. unfold year_in_range, MIN_YEAR, MAX_YEAR. lia. Qed.

Record lo_facts (y o : Z) : Prop := {
  lf_f : 1 <= yflags y <= 15;
  lf_o : 1 <= o <= 366;
  lf_div : (o * 16 + yflags y) / 16 = o;
  lf_mod : (o * 16 + yflags y) mod 16 = yflags y;
  lf_rng : 0 <= o * 16 + yflags y < 8192;
  lf_leap : f_leap (yflags y) = is_leap y;
  lf_valid : lo_valid (o * 16 + yflags y) = true }.
Lemma lo_facts_of y o : valid_yo y o = true -> lo_facts y o.
Proof.
  intros Ho. destruct (yflags_facts y) as (_ & Hf & H7 & H8 & _).
  unfold valid_yo, days_in_year in Ho.
  assert (Hd : (o * 16 + yflags y) / 16 = o) by lia.
  assert (Hm : (o * 16 + yflags y) mod 16 = yflags y) by lia.
  assert (Ho' : 1 <= o <= 366) by (destruct (is_leap y); lia).
  split; try assumption; try lia.
  unfold lo_valid. rewrite Hd, Hm. unfold ylen_f, f_leap. rewrite H8.
  destruct (is_leap y); lia.
Qed.

Section Acc.
  Context (y o d : Z) (H : repr y o d).
  Let f := yflags y.
  Let lo := o * 16 + f.
  Let Hy : year_in_range y = true := proj1 H.
  Let Ho : valid_yo y o = true := proj1 (proj2 H).
  Let Hd : d = y * 8192 + lo := proj2 (proj2 H).
  Let F : lo_facts y o := lo_facts_of y o Ho.

  Lemma repr_acc :
    let '(m, dd) := md_of_ordinal (is_leap y) o in
    d_year d = y /\ d_ordinal d = o /\ d_year_flags d = f /\ d_leap_year d = is_leap y /\
    from_yof d = Val d /\ d_mdf d = Val (m * 512 + dd * 16 + f) /\
    d_month d = Val m /\ d_day d = Val dd /\
    d_weekday d = Val (weekday_of_dn (dn_of_yo y o)) /\
    valid_md (is_leap y) m dd = true /\ ordinal_of_md (is_leap y) m dd = o.
  Proof.
    destruct F as [Ff Fo Fdiv Fmod Frng Fleap Fvalid]. fold f lo in Ff, Fdiv, Fmod, Frng, Fleap, Fvalid.
    pose proof (acc_ok_lo lo Frng) as A. unfold acc_ok in A.
    rewrite Fvalid, Fdiv, Fmod, Fleap in A.
    destruct (md_of_ordinal (is_leap y) o) as [m dd] eqn:Emd.
    repeat (apply andb_prop in A; destruct A as [A ?]).
    match goal with h : rz_is (from_yof lo) _ = true |- _ => apply rz_is_eq in h; rename h into Hyof end.
    match goal with h : rz_is (d_mdf lo) _ = true |- _ => apply rz_is_eq in h; rename h into Hmdf end.
    match goal with h : rz_is (d_weekday lo) _ = true |- _ => apply rz_is_eq in h; rename h into Hwd end.
    pose proof (year_range_bounds y Hy) as Hyb.
    assert (L : forall m0, 0 <= m0 < 8192 -> Z.land d m0 = Z.land lo m0).
    { intros m0 Hm0. rewrite Hd. apply land_lo; lia. }
    assert (Emdf : d_mdf d = Val (m * 512 + dd * 16 + f)).
    { rewrite <- Hmdf. unfold d_mdf, d_year_flags, D_OL_MASK, D_YEAR_FLAGS_MASK. rewrite !L by lia. reflexivity. }
    split. { unfold d_year, shr, D_YEAR_SHIFT. rewrite Z.shiftr_div_pow2 by lia. change (2 ^ 13) with 8192. lia. }
    split. { unfold d_ordinal, shr, D_ORDINAL_MASK, D_ORDINAL_SHIFT. rewrite L by lia.
             replace (Z.shiftr (Z.land lo 8176) 4) with o by lia. apply as_u32_id. unfold in_u32, in_range, u32_max. lia. }
    split. { unfold d_year_flags, D_YEAR_FLAGS_MASK. rewrite L by lia. replace (Z.land lo 15) with f by lia.
             apply as_u8_id. unfold in_u8, in_range, u8_max. lia. }
    split. { unfold d_leap_year. rewrite L by lia. rewrite <- Fleap. unfold f_leap.
             replace (Z.land lo 8) with (Z.land f 8) by lia. reflexivity. }
    split. { revert Hyof. unfold from_yof, D_OL_MASK, D_MAX_OL. rewrite !L by lia.
             destruct (rassert _); cbn [bind]; try discriminate.
             destruct (rassert _); cbn [bind]; try discriminate.
             destruct (rassert _); cbn [bind]; try discriminate. reflexivity. }
    split. { exact Emdf. }
    pose proof (mdf_ok_i (m * 512 + dd * 16 + f)) as M.
    unfold valid_md in *. 
    assert (Hmd : 1 <= m <= 12 /\ 1 <= dd <= 31).
    { unfold days_in_month in *. repeat match goal with |- context [if ?c then _ else _] => destruct c end;
      repeat match goal with h : context [if ?c then _ else _] |- _ => destruct c end; lia. }
    specialize (M ltac:(lia)). unfold mdf_ok in M.
    replace ((m * 512 + dd * 16 + f) / 512) with m in M by lia.
    repeat (apply andb_prop in M; destruct M as [M ?]).
    split. { unfold d_month. rewrite Emdf. cbn [bind]. f_equal. lia. }
    split. { unfold d_day. rewrite Emdf. cbn [bind]. f_equal.
             replace ((m * 512 + dd * 16 + f) / 16 mod 32) with dd in * by lia. lia. }
    split. { destruct (yflags_facts y) as (_ & _ & _ & _ & W). pose proof (W o) as Wo. fold f in Wo.
             rewrite <- Wo, <- Hwd. unfold d_weekday, D_ORDINAL_MASK, D_WEEKDAY_FLAGS_MASK.
             rewrite !L by lia. reflexivity. }
    split; [|lia]. unfold valid_md. lia.
  Qed.
End Acc.

(** * Constructors *)
Ltac solve_in := unfold in_i32, in_u32, in_u8, in_i64, in_u64, in_range, i32_min, i32_max, u32_max, u8_max,
  i64_min, i64_max, u64_max in *; lia.

Definition date_if (b : bool) (d : Z) : option Z := if b then Some d else None.
Definition mk_ymd (y m dd : Z) : Z := mkdate y (ordinal_of_md (is_leap y) m dd).

Lemma repr_mk y o : year_in_range y = true -> valid_yo y o = true -> repr y o (mkdate y o).
Proof. intros. split; [assumption|]. split; [assumption|reflexivity]. Qed.
Lemma from_yof_mk y o : year_in_range y = true -> valid_yo y o = true -> from_yof (mkdate y o) = Val (mkdate y o).
Proof. intros Hy Ho. pose proof (repr_acc y o _ (repr_mk y o Hy Ho)) as A.
  destruct (md_of_ordinal (is_leap y) o). tauto. Qed.

Lemma shl_u32_small a k : 0 <= k -> 0 <= a -> a * 2 ^ k <= u32_max -> shl_u32 a k = a * 2 ^ k.
Proof. intros Hk Ha Hb. unfold shl_u32. rewrite Z.shiftl_mul_pow2 by lia. apply as_u32_id.
  assert (0 < 2 ^ k) by (apply Z.pow_pos_nonneg; lia). unfold in_u32, in_range. nia. Qed.
Lemma shl_i32_year y : -262144 <= y <= 262143 -> shl_i32 y 13 = y * 8192.
Proof. intros H. unfold shl_i32. rewrite Z.shiftl_mul_pow2 by lia. change (2 ^ 13) with 8192.
  apply as_i32_id. solve_in. Qed.
Lemma lor_o_f o f : 0 <= f < 16 -> Z.lor (o * 16) f = o * 16 + f.
Proof. intros Hf. pose proof (lor_disjoint o f 4 ltac:(lia) ltac:(change (2 ^ 4) with 16; lia)) as H.
  rewrite Z.shiftl_mul_pow2 in H by lia. exact H. Qed.

(** the word assembled from year, ordinal (<= 511) and flags *)
Lemma pack_yof y o f : -262144 <= y <= 262143 -> 0 <= o <= 511 -> 0 <= f < 16 ->
  Z.lor (Z.lor (shl_i32 y 13) (o * 16)) f = y * 8192 + (o * 16 + f).
Proof.
  intros Hy Ho Hf. rewrite shl_i32_year by lia.
  replace (Z.lor (y * 8192) (o * 16)) with (y * 8192 + o * 16).
  2:{ symmetry. pose proof (lor_disjoint y (o * 16) 13 ltac:(lia) ltac:(change (2 ^ 13) with 8192; lia)) as H.
      rewrite Z.shiftl_mul_pow2 in H by lia. exact H. }
  rewrite lor_lo by lia. rewrite lor_o_f by lia. reflexivity.
Qed.

Definition lo2_ok (lo : Z) : bool :=
  (Z.land lo 8184 =? lo / 16 * 16 + Z.land (lo mod 16) 8) && (Z.land lo 15 =? lo mod 16).
Lemma lo2_sweep : forall_range lo2_ok 0 8192 = true.
Proof. vm_compute. reflexivity. Qed.
Lemma land_ol y o f : 0 <= o <= 511 -> 0 <= f < 16 ->
  Z.land (y * 8192 + (o * 16 + f)) 8184 = o * 16 + Z.land f 8.
Proof.
  intros Ho Hf. rewrite land_lo by lia.
  pose proof (forall_range_spec _ _ _ lo2_sweep (o * 16 + f) ltac:(lia)) as H. unfold lo2_ok in H.
  replace ((o * 16 + f) / 16) with o in H by lia. replace ((o * 16 + f) mod 16) with f in H by lia. lia.
Qed.
Lemma land8_leap f : 0 <= f < 16 -> Z.land f 8 = if f_leap f then 0 else 8.
Proof.
  intros Hf. unfold f_leap.
  assert (f = 0 \/ f = 1 \/ f = 2 \/ f = 3 \/ f = 4 \/ f = 5 \/ f = 6 \/ f = 7 \/ f = 8 \/ f = 9 \/ f = 10
          \/ f = 11 \/ f = 12 \/ f = 13 \/ f = 14 \/ f = 15) as H by lia.
  repeat (destruct H as [->|H]; [reflexivity|]). subst. reflexivity.
Qed.

Lemma valid_yo_iff y o : valid_yo y o = (1 <=? o) && (o <=? (if is_leap y then 366 else 365)).
Proof. unfold valid_yo, days_in_year. reflexivity. Qed.

Theorem from_yo_opt_spec y o : in_i32 y = true -> in_u32 o = true ->
  from_yo_opt y o = Val (date_if (year_in_range y && valid_yo y o) (mkdate y o)).
Proof.
  intros Hy Ho. unfold from_yo_opt. rewrite yf_from_year_spec by assumption. cbn [bind].
  unfold from_ordinal_and_flags, D_MIN_YEAR, D_MAX_YEAR, D_MAX_ORDINAL, D_YEAR_SHIFT, D_ORDINAL_SHIFT, D_OL_MASK, D_MAX_OL.
  unfold year_in_range, MIN_YEAR, MAX_YEAR.
  destruct ((y <? -262143) || (262142 <? y)) eqn:E1.
  { replace ((-262143 <=? y) && (y <=? 262142)) with false by lia. reflexivity. }
  replace ((-262143 <=? y) && (y <=? 262142)) with true by lia. cbn [andb].
  destruct ((o =? 0) || (366 <? o)) eqn:E2.
  { rewrite valid_yo_iff. replace ((1 <=? o) && (o <=? (if is_leap y then 366 else 365))) with false; [reflexivity|].
    destruct (is_leap y); solve_in. }
  rewrite yf_from_year_spec by assumption. cbn [bind]. rewrite Z.eqb_refl. cbn [rassert bind].
  destruct (yflags_facts y) as (_ & Hf & H7 & H8 & _).
  assert (Hob : 1 <= o <= 366) by solve_in.
  rewrite shl_u32_small by (unfold u32_max; lia). change (2 ^ 4) with 16.
  rewrite as_i32_id by solve_in.
  rewrite pack_yof by lia. rewrite land_ol by lia. rewrite land8_leap by lia.
  unfold f_leap. rewrite H8. rewrite valid_yo_iff.
  destruct (is_leap y) eqn:EL.
  - replace (o * 16 + 0 <=? 5856) with true by lia. replace ((1 <=? o) && (o <=? 366)) with true by lia.
    fold (mkdate y o). rewrite from_yof_mk; [reflexivity| unfold year_in_range, MIN_YEAR, MAX_YEAR; lia |].
    rewrite valid_yo_iff, EL. lia.
  - destruct (o * 16 + 8 <=? 5856) eqn:E3.
    + replace ((1 <=? o) && (o <=? 365)) with true by lia.
      fold (mkdate y o). rewrite from_yof_mk; [reflexivity| unfold year_in_range, MIN_YEAR, MAX_YEAR; lia |].
      rewrite valid_yo_iff, EL. lia.
    + replace ((1 <=? o) && (o <=? 365)) with false by lia. reflexivity.
Qed.

Lemma days_in_month_bounds l m : 28 <= days_in_month l m <= 31.
Proof. unfold days_in_month. repeat match goal with |- context [if ?c then _ else _] => destruct c end; lia. Qed.

(** facts of the month/day/flags word [m*512 + dd*16 + f] *)
Lemma mdf_word m dd y : 0 <= m <= 12 -> 0 <= dd <= 31 ->
  let f := yflags y in let i := m * 512 + dd * 16 + f in
  let v := valid_md (is_leap y) m dd in let o := ordinal_of_md (is_leap y) m dd in
  mdf_new m dd f = Some i /\
  mdf_ordinal i = Val (if v then Some o else None) /\
  mdf_ordinal_and_flags i = Val (if v then Some (o * 16 + f) else None) /\
  mdf_year_flags i = f /\ mdf_month i = m /\ mdf_day i = dd /\
  (v = true -> valid_yo y o = true /\ md_of_ordinal (is_leap y) o = (m, dd)).
Proof.
  intros Hm Hd f i v o. destruct (yflags_facts y) as (_ & Hf & _ & H8 & _). fold f in Hf, H8.
  pose proof (mdf_ok_i i ltac:(unfold i; lia)) as M. unfold mdf_ok in M.
  replace (i mod 16) with f in M by (unfold i; lia).
  replace (i / 16 mod 32) with dd in M by (unfold i; lia).
  replace (i / 512) with m in M by (unfold i; lia).
  unfold f_leap in M. rewrite H8 in M. fold v o in M.
  repeat (apply andb_prop in M; destruct M as [M ?]).
  repeat match goal with h : oz_is _ _ = true |- _ => apply oz_is_eq in h end.
  repeat match goal with h : roz_is _ _ = true |- _ => apply roz_is_eq in h end.
  split; [assumption|]. split; [assumption|]. split; [assumption|].
  split; [lia|]. split; [lia|]. split; [lia|].
  intros Hv. rewrite Hv in *. rewrite valid_yo_iff. unfold ylen_f, f_leap in *. rewrite H8 in *.
  destruct (md_of_ordinal (is_leap y) o) as [m' d']. split.
  - destruct (is_leap y); lia.
  - f_equal; lia.
Qed.

Lemma valid_md_ymd y m dd : valid_md (is_leap y) m dd = valid_ymd y m dd.
Proof. reflexivity. Qed.

Lemma from_mdf_word y m dd : in_i32 y = true -> 0 <= m <= 12 -> 0 <= dd <= 31 ->
  from_mdf y (m * 512 + dd * 16 + yflags y) = Val (date_if (year_in_range y && valid_ymd y m dd) (mk_ymd y m dd)).
Proof.
  intros Hy Hm Hd. unfold from_mdf, D_MIN_YEAR, D_MAX_YEAR, year_in_range, MIN_YEAR, MAX_YEAR, D_YEAR_SHIFT.
  destruct ((y <? -262143) || (262142 <? y)) eqn:E1.
  { replace ((-262143 <=? y) && (y <=? 262142)) with false by lia. reflexivity. }
  replace ((-262143 <=? y) && (y <=? 262142)) with true by lia. cbn [andb].
  destruct (mdf_word m dd y Hm Hd) as (_ & _ & Hoaf & _ & _ & _ & Hv).
  unfold obind. rewrite Hoaf. cbn [bind]. rewrite valid_md_ymd in *.
  destruct (valid_ymd y m dd) eqn:V; [|reflexivity].
  destruct (Hv eq_refl) as [Hvo _]. cbn [date_if].
  destruct (yflags_facts y) as (_ & Hf & _).
  pose proof (lo_facts_of y _ Hvo) as [_ Fo _ _ _ _ _].
  rewrite shl_i32_year by lia.
  pose proof (lor_disjoint y (ordinal_of_md (is_leap y) m dd * 16 + yflags y) 13 ltac:(lia)
                ltac:(change (2 ^ 13) with 8192; lia)) as L.
  rewrite Z.shiftl_mul_pow2 in L by lia. change (2 ^ 13) with 8192 in L. rewrite L.
  fold (mkdate y (ordinal_of_md (is_leap y) m dd)).
  rewrite from_yof_mk; [reflexivity | unfold year_in_range, MIN_YEAR, MAX_YEAR; lia | assumption].
Qed.

Theorem from_ymd_opt_spec y m dd : in_i32 y = true -> in_u32 m = true -> in_u32 dd = true ->
  from_ymd_opt y m dd = Val (date_if (year_in_range y && valid_ymd y m dd) (mk_ymd y m dd)).
Proof.
  intros Hy Hm Hd. unfold from_ymd_opt. rewrite yf_from_year_spec by assumption. cbn [bind].
  destruct ((m <=? 12) && (dd <=? 31)) eqn:E.
  - destruct (mdf_word m dd y ltac:(solve_in) ltac:(solve_in)) as (Hnew & _). rewrite Hnew.
    apply from_mdf_word; solve_in.
  - unfold mdf_new. rewrite E.
    replace (valid_ymd y m dd) with false; [rewrite andb_false_r; reflexivity|].
    unfold valid_ymd. pose proof (days_in_month_bounds (is_leap y) m). lia.
Qed.

(** * Setters *)
Lemma set_ordinal y o d o' : repr y o d -> 1 <= o' <= 366 ->
  Z.lor (Z.land d (not_i32 D_ORDINAL_MASK)) (as_i32 (shl_u32 o' 4)) = y * 8192 + (o' * 16 + yflags y).
Proof.
  intros H Ho'. destruct H as (Hy & Ho & ->). pose proof (lo_facts_of y o Ho) as [Ff Fo _ Fmod Frng _ _].
  unfold mkdate, not_i32, D_ORDINAL_MASK. rewrite land_lnot_lo by lia.
  pose proof (forall_range_spec _ _ _ lo2_sweep (o * 16 + yflags y) ltac:(lia)) as L. unfold lo2_ok in L.
  replace (Z.land (o * 16 + yflags y) (8191 - 8176)) with (yflags y) by (change (8191 - 8176) with 15; lia).
  rewrite shl_u32_small by (unfold u32_max; lia). change (2 ^ 4) with 16.
  rewrite as_i32_id by solve_in. rewrite lor_lo by lia.
  rewrite Z.lor_comm, lor_o_f by lia. reflexivity.
Qed.

Lemma with_mdf_word y o d m dd : repr y o d -> 0 <= m <= 12 -> 0 <= dd <= 31 ->
  with_mdf d (m * 512 + dd * 16 + yflags y) = Val (date_if (valid_ymd y m dd) (mk_ymd y m dd)).
Proof.
  intros H Hm Hd. pose proof (repr_acc y o d H) as A. destruct (md_of_ordinal (is_leap y) o) as [m0 d0].
  destruct A as (_ & _ & Hfl & _).
  destruct (mdf_word m dd y Hm Hd) as (_ & Hord & _ & Hyf & _ & _ & Hv).
  unfold with_mdf. rewrite Hfl, Hyf, Z.eqb_refl. cbn [rassert bind].
  unfold obind. rewrite Hord. cbn [bind]. rewrite valid_md_ymd in *.
  destruct (valid_ymd y m dd) eqn:V; [|reflexivity].
  destruct (Hv eq_refl) as [Hvo _]. pose proof (lo_facts_of y _ Hvo) as [_ Fo _ _ _ _ _].
  rewrite (set_ordinal y o d _ H Fo). fold (mkdate y (ordinal_of_md (is_leap y) m dd)).
  rewrite from_yof_mk by (try exact (proj1 H); assumption). reflexivity.
Qed.

Definition mdfw_i (mdf x : Z) := mdf * 32 + x.
Lemma mdfw_facts mdf x : 0 <= mdf < 6656 -> 0 <= x <= 31 ->
  mdf_with_day mdf x = Some (mdf / 512 * 512 + x * 16 + mdf mod 16) /\
  (x <= 12 -> mdf_with_month mdf x = Some (x * 512 + mdf mod 512)) /\
  (x <= 15 -> mdf_with_flags mdf x = mdf / 16 * 16 + x).
Proof.
  intros Hm Hx. pose proof (forall_range_spec _ _ _ mdfw_sweep (mdf * 32 + x) ltac:(lia)) as W.
  unfold mdfw_ok in W. replace ((mdf * 32 + x) / 32) with mdf in W by lia.
  replace ((mdf * 32 + x) mod 32) with x in W by lia.
  repeat (apply andb_prop in W; destruct W as [W ?]).
  split; [apply oz_is_eq; assumption|]. split; intros Hx2.
  - replace (x <=? 12) with true in * by lia. apply oz_is_eq; assumption.
  - replace (x <=? 15) with true in * by lia. lia.
Qed.

Section Setters.
  Context (y o d : Z) (H : repr y o d).
  Let m0 := fst (md_of_ordinal (is_leap y) o).
  Let d0 := snd (md_of_ordinal (is_leap y) o).

  Lemma repr_mdf : d_mdf d = Val (m0 * 512 + d0 * 16 + yflags y) /\ 1 <= m0 <= 12 /\ 1 <= d0 <= 31.
  Proof.
    pose proof (repr_acc y o d H) as A. unfold m0, d0. destruct (md_of_ordinal (is_leap y) o) as [m dd]. cbn [fst snd].
    destruct A as (_ & _ & _ & _ & _ & Hmdf & _ & _ & _ & Hv & _). split; [assumption|].
    unfold valid_md in Hv. pose proof (days_in_month_bounds (is_leap y) m). lia.
  Qed.

  Theorem with_month_spec x : in_u32 x = true ->
    with_month d x = Val (date_if (valid_ymd y x d0) (mk_ymd y x d0)).
  Proof.
    intros Hx. destruct repr_mdf as (Hmdf & Hm & Hd). destruct (yflags_facts y) as (_ & Hf & _).
    unfold with_month. rewrite Hmdf. cbn [bind]. unfold mdf_with_month at 1.
    destruct (12 <? x) eqn:E.
    - replace (valid_ymd y x d0) with false; [reflexivity|]. unfold valid_ymd. lia.
    - destruct (mdfw_facts (m0 * 512 + d0 * 16 + yflags y) x ltac:(lia) ltac:(solve_in)) as (_ & Wm & _).
      specialize (Wm ltac:(lia)). unfold mdf_with_month in Wm. rewrite E in Wm. injection Wm as Wm. rewrite Wm.
      replace ((m0 * 512 + d0 * 16 + yflags y) mod 512) with (d0 * 16 + yflags y) by lia.
      rewrite Z.add_assoc. apply (with_mdf_word y o d x d0 H); solve_in.
  Qed.

  Theorem with_day_spec x : in_u32 x = true ->
    with_day d x = Val (date_if (valid_ymd y m0 x) (mk_ymd y m0 x)).
  Proof.
    intros Hx. destruct repr_mdf as (Hmdf & Hm & Hd). destruct (yflags_facts y) as (_ & Hf & _).
    unfold with_day. rewrite Hmdf. cbn [bind]. unfold mdf_with_day at 1.
    destruct (31 <? x) eqn:E.
    - replace (valid_ymd y m0 x) with false; [reflexivity|]. unfold valid_ymd.
      pose proof (days_in_month_bounds (is_leap y) m0). lia.
    - destruct (mdfw_facts (m0 * 512 + d0 * 16 + yflags y) x ltac:(lia) ltac:(solve_in)) as (Wd & _).
      unfold mdf_with_day in Wd. rewrite E in Wd. injection Wd as Wd. rewrite Wd.
      replace ((m0 * 512 + d0 * 16 + yflags y) / 512 * 512) with (m0 * 512) by lia.
      replace ((m0 * 512 + d0 * 16 + yflags y) mod 16) with (yflags y) by lia.
      apply (with_mdf_word y o d m0 x H); solve_in.
  Qed.

  Theorem with_month0_spec x : in_u32 x = true ->
    with_month0 d x = Val (date_if (valid_ymd y (x + 1) d0) (mk_ymd y (x + 1) d0)).
  Proof.
    intros Hx. unfold with_month0, checked_add, chko. destruct (in_u32 (x + 1)) eqn:E.
    - apply with_month_spec. assumption.
    - replace (valid_ymd y (x + 1) d0) with false; [reflexivity|]. unfold valid_ymd. solve_in.
  Qed.
  Theorem with_day0_spec x : in_u32 x = true ->
    with_day0 d x = Val (date_if (valid_ymd y m0 (x + 1)) (mk_ymd y m0 (x + 1))).
  Proof.
    intros Hx. unfold with_day0, checked_add, chko. destruct (in_u32 (x + 1)) eqn:E.
    - apply with_day_spec. assumption.
    - replace (valid_ymd y m0 (x + 1)) with false; [reflexivity|]. unfold valid_ymd.
      pose proof (days_in_month_bounds (is_leap y) m0). solve_in.
  Qed.

  Theorem with_ordinal_spec x : in_u32 x = true ->
    with_ordinal d x = Val (date_if (valid_yo y x) (mkdate y x)).
  Proof.
    intros Hx. unfold with_ordinal, D_OL_MASK, D_MAX_OL. rewrite valid_yo_iff.
    destruct ((x =? 0) || (366 <? x)) eqn:E.
    { replace ((1 <=? x) && (x <=? (if is_leap y then 366 else 365))) with false; [reflexivity|].
      destruct (is_leap y); solve_in. }
    assert (Hxb : 1 <= x <= 366) by solve_in.
    rewrite (set_ordinal y o d x H Hxb). destruct (yflags_facts y) as (_ & Hf & _ & H8 & _).
    rewrite land_ol by lia. rewrite land8_leap by lia. unfold f_leap. rewrite H8.
    destruct (is_leap y) eqn:EL.
    - replace (x * 16 + 0 <=? 5856) with true by lia. replace ((1 <=? x) && (x <=? 366)) with true by lia.
      fold (mkdate y x). rewrite from_yof_mk; [reflexivity| exact (proj1 H) |]. rewrite valid_yo_iff, EL. lia.
    - destruct (x * 16 + 8 <=? 5856) eqn:E3.
      + replace ((1 <=? x) && (x <=? 365)) with true by lia.
        fold (mkdate y x). rewrite from_yof_mk; [reflexivity| exact (proj1 H) |]. rewrite valid_yo_iff, EL. lia.
      + replace ((1 <=? x) && (x <=? 365)) with false by lia. reflexivity.
  Qed.
  Theorem with_ordinal0_spec x : in_u32 x = true ->
    with_ordinal0 d x = Val (date_if (valid_yo y (x + 1)) (mkdate y (x + 1))).
  Proof.
    intros Hx. unfold with_ordinal0, checked_add, chko. destruct (in_u32 (x + 1)) eqn:E.
    - apply with_ordinal_spec. assumption.
    - replace (valid_yo y (x + 1)) with false; [reflexivity|]. rewrite valid_yo_iff. destruct (is_leap y); solve_in.
  Qed.

  Theorem with_year_spec x : in_i32 x = true ->
    with_year d x = Val (date_if (year_in_range x && valid_ymd x m0 d0) (mk_ymd x m0 d0)).
  Proof.
    intros Hx. destruct repr_mdf as (Hmdf & Hm & Hd). destruct (yflags_facts y) as (_ & Hf & _).
    destruct (yflags_facts x) as (_ & Hfx & _).
    unfold with_year. rewrite Hmdf. cbn [bind]. rewrite yf_from_year_spec by assumption. cbn [bind].
    destruct (mdfw_facts (m0 * 512 + d0 * 16 + yflags y) (yflags x) ltac:(lia) ltac:(lia)) as (_ & _ & Wf).
    rewrite Wf by lia.
    replace ((m0 * 512 + d0 * 16 + yflags y) / 16 * 16) with (m0 * 512 + d0 * 16) by lia.
    apply from_mdf_word; solve_in.
  Qed.
End Setters.

(** * Month stepping *)
Definition shift_months (y o k : Z) : option Z :=
  let m0 := fst (md_of_ordinal (is_leap y) o) in
  let d0 := snd (md_of_ordinal (is_leap y) o) in
  let t := 12 * y + (m0 - 1) + k in
  let y' := t / 12 in
  let m' := t mod 12 + 1 in
  let d' := Z.min d0 (days_in_month (is_leap y') m') in
  date_if (year_in_range y') (mk_ymd y' m' d').

Lemma flags_shr3 y : Z.shiftr (yflags y) 3 = if is_leap y then 0 else 1.
Proof.
  destruct (yflags_facts y) as (_ & Hf & _ & H8 & _). rewrite <- H8. clear H8.
  revert Hf. generalize (yflags y). intros f Hf.
  assert (f = 1 \/ f = 2 \/ f = 3 \/ f = 4 \/ f = 5 \/ f = 6 \/ f = 7 \/ f = 8 \/ f = 9 \/ f = 10
          \/ f = 11 \/ f = 12 \/ f = 13 \/ f = 14 \/ f = 15) as H by lia.
  repeat (destruct H as [->|H]; [reflexivity|]). subst. reflexivity.
Qed.

Lemma month_days_table (leap : bool) (mi : Z) : 0 <= mi <= 11 ->
  exists dm0, tget DM_MONTH_DAYS mi = Val dm0 /\
    (if mi =? 1 then (if leap then DM_FEB_LEAP else DM_FEB_COMMON) else dm0) = days_in_month leap (mi + 1).
Proof.
  intros H.
  assert (mi = 0 \/ mi = 1 \/ mi = 2 \/ mi = 3 \/ mi = 4 \/ mi = 5 \/ mi = 6 \/ mi = 7 \/ mi = 8 \/ mi = 9
          \/ mi = 10 \/ mi = 11) as C by lia.
  repeat (destruct C as [->|C]; [eexists; split; [reflexivity|]; destruct leap; reflexivity|]).
  subst. eexists; split; [reflexivity|]; destruct leap; reflexivity.
Qed.

Theorem diff_months_spec y o d k : repr y o d -> in_i32 k = true ->
  diff_months d k = Val (shift_months y o k).
Proof.
  intros H Hk. pose proof (repr_acc y o d H) as A. unfold shift_months.
  destruct (md_of_ordinal (is_leap y) o) as [m0 d0]. cbn [fst snd].
  destruct A as (Hy & _ & _ & _ & _ & _ & Hm & Hd & _ & Hv & _).
  pose proof (year_range_bounds y (proj1 H)) as Hyb.
  unfold valid_md in Hv. pose proof (days_in_month_bounds (is_leap y) m0) as Hdim.
  unfold diff_months. rewrite Hm, Hd, Hy. cbn [bind].
  unfold mul_i32, chk. replace (in_i32 (y * 12)) with true by solve_in. cbn [bind].
  rewrite as_i32_id by solve_in.
  unfold add_i32, chk. replace (in_i32 (y * 12 + m0)) with true by solve_in. cbn [bind].
  unfold sub_i32, chk. replace (in_i32 (y * 12 + m0 - 1)) with true by solve_in. cbn [bind].
  replace (12 * y + (m0 - 1) + k) with (y * 12 + m0 - 1 + k) by lia.
  set (t := y * 12 + m0 - 1 + k).
  unfold checked_add, chko. fold t. destruct (in_i32 t) eqn:Et.
  2:{ replace (year_in_range (t / 12)) with false; [reflexivity|].
      unfold year_in_range, MIN_YEAR, MAX_YEAR. solve_in. }
  rewrite div_euclid_pos, rem_euclid_pos by lia.
  unfold chk. replace (in_i32 (t / 12)) with true by solve_in. cbn [bind].
  rewrite as_u32_id by solve_in.
  unfold add_u32, chk. replace (in_u32 (t mod 12 + 1)) with true by solve_in. cbn [bind].
  rewrite yf_from_year_spec by solve_in. cbn [bind].
  unfold yf_ndays, NDAYS_BASE, NDAYS_SHIFT, shr. rewrite flags_shr3.
  unfold sub_u32, chk.
  replace (in_u32 (366 - (if is_leap (t / 12) then 0 else 1))) with true by (destruct (is_leap (t / 12)); solve_in).
  cbn [bind]. replace (in_u32 (t mod 12 + 1 - 1)) with true by solve_in. cbn [bind].
  rewrite as_u64_id by solve_in.
  destruct (month_days_table (is_leap (t / 12)) (t mod 12 + 1 - 1) ltac:(lia)) as (dm0 & Ht & Hmax).
  rewrite Ht. cbn [bind].
  replace (366 - (if is_leap (t / 12) then 0 else 1) =? DM_LEAP_NDAYS) with (is_leap (t / 12))
    by (unfold DM_LEAP_NDAYS; destruct (is_leap (t / 12)); reflexivity).
  rewrite Hmax. replace (t mod 12 + 1 - 1 + 1) with (t mod 12 + 1) by lia.
  set (y' := t / 12). set (m' := t mod 12 + 1). set (dim := days_in_month (is_leap y') m').
  pose proof (days_in_month_bounds (is_leap y') m') as Hdim'. fold dim in Hdim'.
  replace (if dim <? d0 then dim else d0) with (Z.min d0 dim) by (destruct (dim <? d0) eqn:Eq; lia).
  rewrite from_ymd_opt_spec by solve_in.
  replace (valid_ymd y' m' (Z.min d0 dim)) with true; [rewrite andb_true_r; reflexivity|].
  unfold valid_ymd. fold dim. unfold m'. lia.
Qed.

Lemma mk_ymd_self y o : valid_yo y o = true ->
  mk_ymd y (fst (md_of_ordinal (is_leap y) o)) (snd (md_of_ordinal (is_leap y) o)) = mkdate y o.
Proof.
  intros Ho. pose proof (lo_facts_of y o Ho) as [_ _ Fdiv Fmod Frng Fleap Fvalid].
  pose proof (acc_ok_lo _ Frng) as A. unfold acc_ok in A. rewrite Fvalid, Fdiv, Fmod, Fleap in A.
  destruct (md_of_ordinal (is_leap y) o) as [m dd]. cbn [fst snd].
  repeat (apply andb_prop in A; destruct A as [A ?]). unfold mk_ymd. f_equal. lia.
Qed.

Lemma shift_months_0 y o d : repr y o d -> shift_months y o 0 = Some d.
Proof.
  intros H. pose proof (repr_acc y o d H) as A. pose proof (mk_ymd_self y o (proj1 (proj2 H))) as S.
  unfold shift_months. destruct (md_of_ordinal (is_leap y) o) as [m0 d0]. cbn [fst snd] in *.
  destruct A as (_ & _ & _ & _ & _ & _ & _ & _ & _ & Hv & _). unfold valid_md in Hv.
  replace ((12 * y + (m0 - 1) + 0) / 12) with y by lia.
  replace ((12 * y + (m0 - 1) + 0) mod 12 + 1) with m0 by lia.
  replace (Z.min d0 (days_in_month (is_leap y) m0)) with d0 by lia.
  rewrite (proj1 H). cbn [date_if]. rewrite S. f_equal. symmetry. exact (proj2 (proj2 H)).
Qed.

Theorem checked_add_months_spec y o d n : repr y o d -> in_u32 n = true ->
  checked_add_months d n = Val (shift_months y o n).
Proof.
  intros H Hn. unfold checked_add_months. destruct (n =? 0) eqn:E0.
  { replace n with 0 by lia. rewrite (shift_months_0 y o d H). reflexivity. }
  destruct (n <=? i32_max) eqn:E1.
  - rewrite as_i32_id by solve_in. apply diff_months_spec; [assumption|solve_in].
  - unfold shift_months. replace (year_in_range _) with false; [reflexivity|].
    pose proof (repr_acc y o d H) as A. destruct (md_of_ordinal (is_leap y) o) as [m0 d0]. cbn [fst snd].
    destruct A as (_ & _ & _ & _ & _ & _ & _ & _ & _ & Hv & _). unfold valid_md in Hv.
    pose proof (year_range_bounds y (proj1 H)). unfold year_in_range, MIN_YEAR, MAX_YEAR. solve_in.
Qed.

Theorem checked_sub_months_spec y o d n : repr y o d -> in_u32 n = true ->
  checked_sub_months d n = Val (shift_months y o (- n)).
Proof.
  intros H Hn. unfold checked_sub_months. destruct (n =? 0) eqn:E0.
  { replace n with 0 by lia. change (- 0) with 0. rewrite (shift_months_0 y o d H). reflexivity. }
  destruct (n <=? i32_max) eqn:E1.
  - rewrite as_i32_id by solve_in. unfold neg_i32, chk. replace (in_i32 (- n)) with true by solve_in.
    cbn [bind]. apply diff_months_spec; [assumption|solve_in].
  - unfold shift_months. replace (year_in_range _) with false; [reflexivity|].
    pose proof (repr_acc y o d H) as A. destruct (md_of_ordinal (is_leap y) o) as [m0 d0]. cbn [fst snd].
    destruct A as (_ & _ & _ & _ & _ & _ & _ & _ & _ & Hv & _). unfold valid_md in Hv.
    pose proof (year_range_bounds y (proj1 H)). unfold year_in_range, MIN_YEAR, MAX_YEAR. solve_in.
Qed.
