(** C13 — slice safety of the reader: on every well-formed UTF-8 input and every item list
    (whose literals are well-formed strings) [parse_internal] returns a value or a ParseError,
    never a trap, and the remainder it hands on is again well-formed.  All arms except the
    RFC 2822 item (gap, see Props/C13.v). *)
From Coq Require Import ZArith List Bool Lia ZifyBool.
From V Require Import Base.Int Base.IntLemmas Base.IO Base.Utf8 Base.Lift Gen.ScanTables Model.Scan Model.Items
  Gen.ParseTable Proofs.Utf8 Proofs.Scan Model.Parse Proofs.C13 Proofs.C13Reads.
From V Require Model.Parsed Proofs.C14.
Import ListNotations.
Open Scope Z_scope.

(** a ParseResult computation that neither traps nor runs out of fuel, and whose successful
    value satisfies [good] *)
Definition safe {A} (r : PR A) (good : A -> Prop) : Prop :=
  match r with
  | Val (POk a) => good a
  | Val (PErr _) => True
  | Panic => False
  | OutOfFuel => False
  end.
Definition wf (s : bytes) : Prop := utf8_valid s = true.

Lemma safe_pbind {X Y} (x : PR X) (f : X -> PR Y) gx gy :
  safe x gx -> (forall a, gx a -> safe (f a) gy) -> safe (pbind x f) gy.
Proof. destruct x as [[a|e]| |]; cbn; auto. Qed.
Lemma safe_weaken {X} (x : PR X) (g1 g2 : X -> Prop) : safe x g1 -> (forall a, g1 a -> g2 a) -> safe x g2.
Proof. destruct x as [[a|e]| |]; cbn; auto. Qed.

(** * UTF-8 facts *)
Lemma utf8_first_range x r : utf8_valid (x :: r) = true -> 0 <= x <= 127 \/ 194 <= x <= 244.
Proof.
  cbn [utf8_valid]. intros H.
  destruct ((0 <=? x) && (x <=? 127)) eqn:E1; [lia|].
  destruct ((194 <=? x) && (x <=? 223)) eqn:E2; [lia|].
  destruct ((224 <=? x) && (x <=? 239)) eqn:E3; [lia|].
  destruct ((240 <=? x) && (x <=? 244)) eqn:E4; [lia|discriminate].
Qed.

(* the remainder after the first scalar value of a well-formed string is well-formed *)
Lemma ncp_rest_valid s c r : utf8_valid s = true -> next_code_point s = Some (c, r) -> utf8_valid r = true.
Proof.
  destruct s as [|a t]; [discriminate|]. intros H Hn. pose proof (utf8_first_range a t H) as Hrange.
  cbn [utf8_valid next_code_point] in H, Hn.
  destruct ((0 <=? a) && (a <=? 127)) eqn:E1.
  { replace (a <? 128) with true in Hn by lia. inversion Hn; subst; exact H. }
  replace (a <? 128) with false in Hn by lia.
  destruct ((194 <=? a) && (a <=? 223)) eqn:E2.
  { destruct t as [|b t']; [discriminate|]. replace (a <? 224) with true in Hn by lia.
    inversion Hn; subst; apply andb_prop in H; exact (proj2 H). }
  destruct ((224 <=? a) && (a <=? 239)) eqn:E3.
  { destruct t as [|b [|c0 t']]; try discriminate. replace (a <? 224) with false in Hn by lia.
    replace (a <? 240) with true in Hn by lia. inversion Hn; subst; apply andb_prop in H; exact (proj2 H). }
  destruct ((240 <=? a) && (a <=? 244)) eqn:E4; [|discriminate].
  destruct t as [|b [|c0 [|d t']]]; try discriminate. replace (a <? 224) with false in Hn by lia.
  replace (a <? 240) with false in Hn by lia. inversion Hn; subst. apply andb_prop in H. exact (proj2 H).
Qed.

Lemma trim_fuel_valid p : forall fuel s, utf8_valid s = true -> utf8_valid (trim_start_matches_fuel fuel p s) = true.
Proof.
  induction fuel as [|f IH]; intros s H; [exact H|]. cbn [trim_start_matches_fuel].
  destruct (next_code_point s) as [[c r]|] eqn:En; [|exact H].
  destruct (p c); [|exact H]. apply IH. exact (ncp_rest_valid s c r H En).
Qed.
Lemma trim_matches_valid p s : wf s -> wf (trim_start_matches p s).
Proof. intros H. apply trim_fuel_valid. exact H. Qed.
Lemma trim_start_valid s : wf s -> wf (trim_start s).
Proof. apply trim_matches_valid. Qed.

(* a well-formed prefix can be split off a well-formed string *)
Lemma utf8_app_inv : forall n a, (List.length a <= n)%nat -> utf8_valid a = true ->
  forall b, utf8_valid (a ++ b) = true -> utf8_valid b = true.
Proof.
  induction n as [|n IH]; intros a Hn Ha b Hab.
  - destruct a; [exact Hab|cbn in Hn; lia].
  - destruct a as [|x t]; [exact Hab|]. cbn [app utf8_valid] in *. cbn [List.length] in Hn.
    destruct ((0 <=? x) && (x <=? 127)) eqn:E1; [apply (IH t); [lia|assumption|assumption]|].
    destruct ((194 <=? x) && (x <=? 223)) eqn:E2.
    { destruct t as [|y t']; [discriminate|]. cbn [app] in Hab. cbn [List.length] in Hn.
      apply andb_prop in Ha. apply andb_prop in Hab. apply (IH t'); [lia|exact (proj2 Ha)|exact (proj2 Hab)]. }
    destruct ((224 <=? x) && (x <=? 239)) eqn:E3.
    { destruct t as [|y [|z t']]; try discriminate. cbn [app] in Hab. cbn [List.length] in Hn.
      apply andb_prop in Ha. apply andb_prop in Hab. apply (IH t'); [lia|exact (proj2 Ha)|exact (proj2 Hab)]. }
    destruct ((240 <=? x) && (x <=? 244)) eqn:E4; [|discriminate].
    destruct t as [|y [|z [|u t']]]; try discriminate. cbn [app] in Hab. cbn [List.length] in Hn.
    apply andb_prop in Ha. apply andb_prop in Hab. apply (IH t'); [lia|exact (proj2 Ha)|exact (proj2 Hab)].
Qed.
Lemma strip_prefix_split : forall l s r, strip_prefix l s = Some r -> s = l ++ r.
Proof.
  induction l as [|x l IH]; intros s r H; [cbn in H; injection H as <-; reflexivity|].
  destruct s as [|y s']; [discriminate|]. cbn [strip_prefix] in H.
  destruct (x =? y) eqn:E; [|discriminate]. assert (x = y) by lia. subst y. cbn [app]. f_equal. exact (IH s' r H).
Qed.

Lemma ascii_app_valid a b : Forall (fun c => 0 <= c <= 127) a -> wf (a ++ b) -> wf b.
Proof. intros Ha H. unfold wf in *. rewrite utf8_valid_app_ascii in H by exact Ha. exact H. Qed.

(** * number *)
Lemma number_pure_loop_valid : forall l i min max n r v,
  utf8_valid l = true -> number_pure_loop l i min max n = POk (r, v) -> utf8_valid r = true.
Proof.
  induction l as [|c t IH]; intros i min max n r v Hv H; cbn [number_pure_loop] in H.
  - inversion H; subst. reflexivity.
  - destruct (max <=? i); [inversion H; subst; exact Hv|].
    destruct (is_ascii_digit c) eqn:Ed; cbn [negb] in H.
    + destruct (i64_max <? n * 10 + (c - 48)); [discriminate|].
      pose proof (digit_range c Ed). rewrite utf8_valid_ascii in Hv by lia. exact (IH _ _ _ _ _ _ Hv H).
    + destruct (i <? min); [discriminate|]. inversion H; subst. exact Hv.
Qed.
Lemma number_safe s min max : wf s -> 0 <= min <= max -> safe (number s min max) (fun x => wf (fst x)).
Proof.
  intros Hv Hm. rewrite number_ok by assumption. unfold number_pure.
  destruct (blen s <? min); [exact I|].
  destruct (number_pure_loop s 0 min max 0) as [[r v]|e] eqn:E; [|exact I].
  cbn. exact (number_pure_loop_valid _ _ _ _ _ _ _ Hv E).
Qed.

(** * nanosecond / nanosecond_fixed *)
Lemma digit_run_valid s : utf8_valid s = true -> utf8_valid (snd (digit_run s)) = true.
Proof.
  induction s as [|c t IH]; intros H; [reflexivity|]. cbn [digit_run].
  destruct (is_ascii_digit c) eqn:Ed; [|exact H].
  pose proof (digit_range c Ed). rewrite utf8_valid_ascii in H by lia.
  destruct (digit_run t) as [d u]. cbn [snd] in *. exact (IH H).
Qed.
Lemma nanosecond_safe s : wf s -> safe (nanosecond s) (fun x => wf (fst x)).
Proof.
  intros Hv. rewrite nanosecond_ok by exact Hv. unfold nanosecond_pure.
  pose proof (digit_run_valid s Hv) as Hr. destruct (digit_run s) as [d t]. cbn [snd] in Hr.
  destruct d; [exact I|exact Hr].
Qed.
Lemma nanosecond_fixed_safe s d : wf s -> 1 <= d <= 9 -> safe (nanosecond_fixed s d) (fun x => wf (fst x)).
Proof.
  intros Hv Hd. unfold nanosecond_fixed. eapply safe_pbind; [apply number_safe; [exact Hv|lia]|].
  intros [s1 v] Hs1. cbn [fst] in Hs1.
  assert (exists sc, index SCALE_FIXED d = Val sc) as [sc Hsc].
  { assert (d = 1 \/ d = 2 \/ d = 3 \/ d = 4 \/ d = 5 \/ d = 6 \/ d = 7 \/ d = 8 \/ d = 9) as Hc by lia.
    destruct Hc as [->|[->|[->|[->|[->|[->|[->|[->| ->]]]]]]]]; eexists; reflexivity. }
  rewrite Hsc. cbn [bind]. destruct (checked_mul in_i64 v sc); [exact Hs1|exact I].
Qed.

(** * the three-letter name scanners and their long forms *)
Definition lower_letter (c : Z) : bool := (97 <=? c) && (c <=? 122).
Definition key_is_letters (k : bytes) : bool := forallb lower_letter k.
Definition byte_check (bit a : Z) : bool := negb (lower_letter (Z.lor a bit)) || (a <? 128).
Lemma byte_sweep : forall_range (byte_check 32) 0 256 = true.
Proof. vm_compute. reflexivity. Qed.
Lemma lor32_letter_ascii a : 0 <= a <= 255 -> lower_letter (Z.lor a 32) = true -> 0 <= a <= 127.
Proof.
  intros Ha Hl. pose proof (forall_range_spec (byte_check 32) 256 0 byte_sweep a ltac:(lia)) as H.
  unfold byte_check in H. rewrite Hl in H. cbn [negb orb] in H. lia.
Qed.

Lemma assoc_bytes_key k t v : assoc_bytes k t = Some v -> In k (map fst t).
Proof.
  induction t as [|[k' v'] r IH]; cbn [assoc_bytes map fst]; [discriminate|].
  destruct (bytes_eqb k k') eqn:E; [intros _; left; symmetry; exact (bytes_eqb_eq k k' E)|intros H; right; exact (IH H)].
Qed.

Lemma name3_safe (arms : list (bytes * Z)) s :
  forallb (fun kv => key_is_letters (fst kv)) arms = true -> wf s ->
  safe (if blen s <? 3 then perr_ TooShort else
        let* key := key3 s 32 in
        match assoc_bytes key arms with
        | None => perr_ Invalid
        | Some v => let* r := str_from s 3 in pok (r, v)
        end) (fun x => wf (fst x) /\ In (snd x) (map snd arms)).
Proof.
  intros Harms Hv. destruct (blen s <? 3) eqn:El; [exact I|].
  destruct s as [|a [|b [|c r]]]; try (rewrite ?blen_cons, ?blen_nil in El; lia).
  rewrite key3_ok. cbn [bind]. destruct (assoc_bytes (key_of [a; b; c] 32) arms) as [v|] eqn:Ea; [|exact I].
  pose proof (assoc_bytes_key _ _ _ Ea) as Hk. pose proof (assoc_bytes_in _ _ _ Ea) as Hin.
  assert (Hkl : key_is_letters (key_of [a; b; c] 32) = true).
  { rewrite forallb_forall in Harms. apply in_map_iff in Hk. destruct Hk as ([k' v'] & Hkk & Hin').
    cbn [fst] in Hkk. subst k'. exact (Harms _ Hin'). }
  unfold key_is_letters, key_of in Hkl. cbn [map forallb] in Hkl.
  apply andb_prop in Hkl. destruct Hkl as [La Hkl]. apply andb_prop in Hkl. destruct Hkl as [Lb Hkl].
  apply andb_prop in Hkl. destruct Hkl as [Lc _].
  unfold wf in Hv.
  assert (Ha : 0 <= a <= 127) by (apply lor32_letter_ascii; [destruct (utf8_first_range a _ Hv); lia|exact La]).
  rewrite utf8_valid_ascii in Hv by exact Ha.
  assert (Hb : 0 <= b <= 127) by (apply lor32_letter_ascii; [destruct (utf8_first_range b _ Hv); lia|exact Lb]).
  rewrite utf8_valid_ascii in Hv by exact Hb.
  assert (Hc : 0 <= c <= 127) by (apply lor32_letter_ascii; [destruct (utf8_first_range c _ Hv); lia|exact Lc]).
  rewrite utf8_valid_ascii in Hv by exact Hc.
  rewrite str_from_3 by (apply utf8_valid_starts_ok; exact Hv). cbn. split; [exact Hv|exact Hin].
Qed.

Lemma short_month0_safe s : wf s -> safe (short_month0 s) (fun x => wf (fst x) /\ 0 <= snd x <= 11).
Proof.
  intros Hv. rewrite short_month0_unfold. eapply safe_weaken; [apply (name3_safe SHORT_MONTH_ARMS s); [reflexivity|exact Hv]|].
  intros [r v] [H1 H2]. split; [exact H1|]. cbn [snd] in *. exact (month_val_range v H2).
Qed.
Lemma weekday_val_range v : In v (map snd SHORT_WEEKDAY_ARMS) -> 0 <= v <= 6.
Proof. cbn. intros H. repeat (destruct H as [H|H]; [lia|]). contradiction. Qed.
Lemma short_weekday_safe s : wf s -> safe (short_weekday s) (fun x => wf (fst x) /\ 0 <= snd x <= 6).
Proof.
  intros Hv. rewrite short_weekday_unfold. eapply safe_weaken; [apply (name3_safe SHORT_WEEKDAY_ARMS s); [reflexivity|exact Hv]|].
  intros [r v] [H1 H2]. split; [exact H1|]. cbn [snd] in *. exact (weekday_val_range v H2).
Qed.

(* equality ignoring ASCII case with ASCII letters forces ASCII bytes *)
Definition lower_check (y c : Z) : bool :=
  negb (is_ascii_alphabetic y) || negb (u8_eq_ignore_ascii_case c y) || (c <? 128).
Lemma lower_sweep : forall_range (fun y => forall_range (lower_check y) 0 256) 0 128 = true.
Proof. vm_compute. reflexivity. Qed.
Lemma eq_ignore_ascii_byte c y : 0 <= c <= 255 -> is_ascii_alphabetic y = true ->
  u8_eq_ignore_ascii_case c y = true -> 0 <= c <= 127.
Proof.
  intros Hc Hy He.
  assert (Hyr : 0 <= y < 0 + 128) by (unfold is_ascii_alphabetic, is_ascii_uppercase, is_ascii_lowercase in Hy; lia).
  pose proof (forall_range_spec _ 128 0 lower_sweep y Hyr) as H1. cbv beta in H1.
  pose proof (forall_range_spec _ 256 0 H1 c ltac:(lia)) as H2.
  unfold lower_check in H2. rewrite Hy, He in H2. cbn [negb orb] in H2. lia.
Qed.

Lemma consume_suffix_safe s suffix : wf s -> forallb is_ascii_alphabetic suffix = true ->
  exists r, consume_suffix s suffix = Val r /\ wf r.
Proof.
  intros Hv Hs. unfold consume_suffix. destruct (blen s >=? blen suffix) eqn:El; [|exists s; split; [reflexivity|exact Hv]].
  unfold slice_to. pose proof (blen_nonneg suffix).
  replace ((0 <=? blen suffix) && (blen suffix <=? blen s)) with true by lia. cbn [bind].
  destruct (eq_ignore_ascii_case (firstn (Z.to_nat (blen suffix)) s) suffix) eqn:Ee; [|exists s; split; [reflexivity|exact Hv]].
  set (n := Z.to_nat (blen suffix)) in *.
  assert (Hsplit : s = firstn n s ++ skipn n s) by (symmetry; apply firstn_skipn).
  assert (Hlen : blen (firstn n s) = blen suffix).
  { unfold blen at 1. rewrite firstn_length. unfold n, blen in *. lia. }
  (* the prefix is ASCII *)
  assert (Hascii : forall pre suf t, utf8_valid (pre ++ t) = true -> forallb is_ascii_alphabetic suf = true ->
            all2 u8_eq_ignore_ascii_case pre suf = true -> List.length pre = List.length suf ->
            Forall (fun c => 0 <= c <= 127) pre).
  { clear. induction pre as [|c pre IH]; intros suf t Hv Hs Ha Hl; [constructor|].
    destruct suf as [|y suf]; [discriminate|]. cbn [all2 forallb] in *. cbn [app] in Hv.
    apply andb_prop in Hs. destruct Hs as [Hy Hs]. apply andb_prop in Ha. destruct Ha as [Hcy Ha].
    assert (Hc : 0 <= c <= 127).
    { apply (eq_ignore_ascii_byte c y); [destruct (utf8_first_range c _ Hv); lia|exact Hy|exact Hcy]. }
    constructor; [exact Hc|]. rewrite utf8_valid_ascii in Hv by exact Hc.
    apply (IH suf t Hv Hs Ha). cbn in Hl. lia. }
  unfold eq_ignore_ascii_case in Ee. apply andb_prop in Ee. destruct Ee as [_ Ea].
  assert (Hpre : Forall (fun c => 0 <= c <= 127) (firstn n s)).
  { apply (Hascii (firstn n s) suffix (skipn n s)); [rewrite <- Hsplit; exact Hv|exact Hs|exact Ea|].
    unfold blen in Hlen. lia. }
  assert (Hrest : wf (skipn n s)) by (apply (ascii_app_valid (firstn n s)); [exact Hpre|rewrite <- Hsplit; exact Hv]).
  exists (skipn n s). split; [|exact Hrest].
  rewrite Hsplit at 1. rewrite <- Hlen. apply str_from_app. apply utf8_valid_starts_ok. exact Hrest.
Qed.

Lemma long_name_safe (scanner : bytes -> PR (bytes * Z)) (suffixes : list bytes) hi s :
  (forall s, wf s -> safe (scanner s) (fun x => wf (fst x) /\ 0 <= snd x <= hi)) ->
  (forall v, 0 <= v <= hi -> exists suffix, index suffixes (as_usize v) = Val suffix /\ forallb is_ascii_alphabetic suffix = true) ->
  wf s ->
  safe (let+ '(s1, x) := scanner s in
        let* suffix := index suffixes (as_usize x) in
        let* s2 := consume_suffix s1 suffix in
        pok (s2, x)) (fun x => wf (fst x) /\ 0 <= snd x <= hi).
Proof.
  intros Hsc Hsuf Hv. eapply safe_pbind; [apply Hsc; exact Hv|].
  intros [s1 x] [H1 H2]. cbn [fst snd] in *.
  destruct (Hsuf x H2) as (suffix & Hi & Hl). rewrite Hi. cbn [bind].
  destruct (consume_suffix_safe s1 suffix H1 Hl) as (r & Hr & Hw). rewrite Hr. cbn. split; [exact Hw|exact H2].
Qed.
Lemma month_suffixes v : 0 <= v <= 11 ->
  exists suffix, index LONG_MONTH_SUFFIXES (as_usize v) = Val suffix /\ forallb is_ascii_alphabetic suffix = true.
Proof.
  intros H. assert (v = 0 \/ v = 1 \/ v = 2 \/ v = 3 \/ v = 4 \/ v = 5 \/ v = 6 \/ v = 7 \/ v = 8 \/ v = 9 \/ v = 10 \/ v = 11) as Hc by lia.
  destruct Hc as [->|[->|[->|[->|[->|[->|[->|[->|[->|[->|[->| ->]]]]]]]]]]]; eexists; split; reflexivity.
Qed.
Lemma weekday_suffixes v : 0 <= v <= 6 ->
  exists suffix, index LONG_WEEKDAY_SUFFIXES (as_usize v) = Val suffix /\ forallb is_ascii_alphabetic suffix = true.
Proof.
  intros H. assert (v = 0 \/ v = 1 \/ v = 2 \/ v = 3 \/ v = 4 \/ v = 5 \/ v = 6) as Hc by lia.
  destruct Hc as [->|[->|[->|[->|[->|[->| ->]]]]]]; eexists; split; reflexivity.
Qed.
Lemma short_or_long_month0_safe s : wf s -> safe (short_or_long_month0 s) (fun x => wf (fst x) /\ 0 <= snd x <= 11).
Proof. intros Hv. exact (long_name_safe short_month0 LONG_MONTH_SUFFIXES 11 s short_month0_safe month_suffixes Hv). Qed.
Lemma short_or_long_weekday_safe s : wf s -> safe (short_or_long_weekday s) (fun x => wf (fst x) /\ 0 <= snd x <= 6).
Proof. intros Hv. exact (long_name_safe short_weekday LONG_WEEKDAY_SUFFIXES 6 s short_weekday_safe weekday_suffixes Hv). Qed.

(** * timezone_offset, for any colon-consumer that is itself safe *)
Lemma str_from_safe_ascii c r : 0 <= c <= 127 -> wf (c :: r) -> str_from (c :: r) 1 = Val r /\ wf r.
Proof.
  intros Hc Hv. destruct (utf8_valid_tail_ascii c r Hc Hv) as [H1 H2]. split; [apply str_from_1; exact H2|exact H1].
Qed.

Lemma tz_tail_safe neg s cc am :
  (forall t, wf t -> safe (cc t) wf) -> wf s -> safe (tz_tail neg s cc am) (fun x => wf (fst x)).
Proof.
  intros Hcc Hv. unfold tz_tail.
  destruct s as [|h1 [|h2 s2]]; try exact I. cbn [tz_digits].
  destruct (is_ascii_digit h1) eqn:E1; [|exact I]. destruct (is_ascii_digit h2) eqn:E2; [|exact I]. cbn [andb].
  pose proof (digit_range h1 E1). pose proof (digit_range h2 E2).
  rewrite two_digit_value_ok by assumption. cbn [plift bind pbind].
  assert (Hv2 : wf s2) by (unfold wf in *; rewrite !utf8_valid_ascii in Hv by lia; exact Hv).
  rewrite str_from_2 by (apply utf8_valid_starts_ok; exact Hv2). cbn [bind].
  eapply safe_pbind; [apply Hcc; exact Hv2|]. intros s3 Hv3.
  assert (Hmin : safe (match tz_digits s3 with
                       | POk (m1, m2) =>
                           if (TZ_MIN_TENS_LO <=? m1) && (m1 <=? TZ_MIN_TENS_HI) && is_ascii_digit m2
                           then plift (two_digit_value m1 m2)
                           else if (TZ_MIN_OOR_TENS_LO <=? m1) && (m1 <=? TZ_MIN_OOR_TENS_HI) && is_ascii_digit m2
                           then perr_ OutOfRange else perr_ Invalid
                       | PErr _ => if am then pok 0 else perr_ TooShort
                       end)
                 (fun m => 0 <= m <= 59 /\
                           (2 <= blen s3 -> exists m1 m2 s4, s3 = m1 :: m2 :: s4 /\ 0 <= m1 <= 127 /\ 0 <= m2 <= 127))).
  { destruct s3 as [|m1 [|m2 s4]]; cbn [tz_digits].
    - destruct am; [split; [lia|unfold blen; cbn; lia]|exact I].
    - destruct am; [split; [lia|unfold blen; cbn; lia]|exact I].
    - change TZ_MIN_TENS_LO with 48. change TZ_MIN_TENS_HI with 53.
      destruct ((48 <=? m1) && (m1 <=? 53) && is_ascii_digit m2) eqn:Em.
      + apply andb_prop in Em. destruct Em as [Em1 Em2]. pose proof (digit_range m2 Em2).
        assert (is_ascii_digit m1 = true) by (unfold is_ascii_digit; lia).
        rewrite two_digit_value_ok by assumption. cbn. split; [lia|]. intros _. exists m1, m2, s4. repeat split; lia.
      + destruct ((TZ_MIN_OOR_TENS_LO <=? m1) && (m1 <=? TZ_MIN_OOR_TENS_HI) && is_ascii_digit m2); exact I. }
  eapply safe_pbind; [exact Hmin|]. intros minutes [Hm Hshape].
  eapply (safe_pbind _ _ wf).
  { destruct (blen s3 >=? 2) eqn:El.
    - destruct (Hshape ltac:(lia)) as (m1 & m2 & s4 & -> & Hm1 & Hm2).
      assert (Hv4 : wf s4) by (unfold wf in *; rewrite !utf8_valid_ascii in Hv3 by lia; exact Hv3).
      rewrite str_from_2 by (apply utf8_valid_starts_ok; exact Hv4). exact Hv4.
    - destruct (blen s3 =? 0); [exact Hv3|exact I]. }
  intros s5 Hv5.
  change TZ_SECS_PER_HOUR with 3600. change TZ_SECS_PER_MINUTE with 60.
  unfold mul_i32, add_i32, neg_i32.
  rewrite chk_in by (unfold in_i32, in_range, i32_min, i32_max; lia). cbn [bind].
  rewrite chk_in by (unfold in_i32, in_range, i32_min, i32_max; lia). cbn [bind].
  rewrite chk_in by (unfold in_i32, in_range, i32_min, i32_max; lia). cbn [bind].
  destruct neg; [|exact Hv5].
  rewrite chk_in by (unfold in_i32, in_range, i32_min, i32_max; lia). exact Hv5.
Qed.

Lemma timezone_offset_safe s cc az am ams :
  (forall t, wf t -> safe (cc t) wf) -> wf s -> safe (timezone_offset s cc az am ams) (fun x => wf (fst x)).
Proof.
  intros Hcc Hv. rewrite timezone_offset_unfold.
  pose proof (ncp_valid s Hv) as Hn. destruct s as [|c r]; [rewrite Hn; destruct az; exact I|].
  change TZ_MINUS_SIGN with 8722. change (len_utf8 43) with 1. change (len_utf8 45) with 1. change (len_utf8 8722) with 3.
  destruct Hn as [[Hc Hn]|[Hc (cp & r' & Hn & Hcp & Hminus)]]; rewrite Hn.
  - destruct (str_from_safe_ascii c r Hc Hv) as [Hs Hr].
    destruct (az && ((c =? 90) || (c =? 122))) eqn:Ez.
    { rewrite Hs. exact Hr. }
    rewrite Hs. cbn [bind].
    destruct (c =? 43); [cbn [pbind bind pok]; apply tz_tail_safe; assumption|].
    destruct (c =? 45); [cbn [pbind bind pok]; apply tz_tail_safe; assumption|].
    replace (c =? 8722) with false by lia. exact I.
  - replace (az && ((c =? 90) || (c =? 122))) with false by (destruct az; lia).
    replace (cp =? 43) with false by lia. replace (cp =? 45) with false by lia.
    destruct (cp =? 8722) eqn:Em; [|exact I].
    destruct (negb ams); [exact I|].
    assert (Hcp' : cp = 8722) by lia. specialize (Hminus Hcp'). injection Hminus as -> ->.
    unfold wf in Hv. rewrite utf8_valid_minus in Hv.
    rewrite str_from_3 by (apply utf8_valid_starts_ok; exact Hv). cbn [bind pbind pok].
    apply tz_tail_safe; assumption.
Qed.

Lemma colon_or_space_safe t : wf t -> safe (colon_or_space t) wf.
Proof. intros H. unfold colon_or_space. cbn. apply trim_matches_valid. exact H. Qed.

(** * setters never trap *)
Lemma setq_safe r : safe (setq r) (fun _ => True).
Proof. destruct r as [p [u|e]]; exact I. Qed.
Lemma set_by_code_safe code p v :
  In code [0; 1; 2; 3; 4; 5; 6; 7; 8; 9; 10; 12; 13; 15; 16; 17; 18; 19; 20; 21; 100; 101] ->
  safe (set_by_code code p v) (fun _ => True).
Proof.
  intros Hin. unfold set_by_code.
  repeat match goal with
         | |- safe (if ?c =? ?k then _ else _) _ => destruct (c =? k) eqn:?
         end; try apply setq_safe.
  - (* set_hour *)
    destruct (Proofs.C14.set_hour_no_panic p v) as [H1 H2].
    destruct (Model.Parsed.set_hour p v) as [r| |]; try contradiction. cbn [bind]. apply setq_safe.
  - unfold set_weekday_with_num_days_from_sunday. destruct (zassoc v PN_WD_FROM_SUN); [apply setq_safe|exact I].
  - unfold set_weekday_with_number_from_monday. destruct (zassoc v PN_WD_FROM_MON); [apply setq_safe|exact I].
  - exfalso. cbn in Hin. lia.
Qed.
Lemma numeric_entry_ok spec : exists width signed code, numeric_entry spec = Some (width, signed, code) /\ 1 <= width /\
  In code [0; 1; 2; 3; 4; 5; 6; 7; 8; 9; 10; 12; 13; 15; 16; 17; 18; 19; 20; 21; 100; 101].
Proof.
  destruct spec; eexists _, _, _; (split; [reflexivity|]); (split; [lia|]); cbn; tauto.
Qed.

(** * the arms of parse_internal *)
Definition good (x : Model.Parsed.parsed * bytes) : Prop := wf (snd x).

Lemma parse_numeric_safe p s spec : wf s -> safe (parse_numeric p s spec) good.
Proof.
  intros Hv. unfold parse_numeric. destruct (numeric_entry_ok spec) as (width & signed & code & He & Hw & Hc).
  unfold numeric_entry in He. rewrite He.
  pose proof (trim_start_valid s Hv) as Ht. set (s1 := trim_start s) in *.
  change PN_MIN_DIGITS with 1. change PN_SIGNED_MAX_DIGITS with 18446744073709551615.
  assert (Hread : safe (if signed then
                          if starts_with_byte s1 45 then
                            let* s2 := str_from s1 1 in
                            let+ '(s_, v) := number s2 1 18446744073709551615 in
                            match checked_sub in_i64 0 v with Some n => pok (s_, n) | None => perr_ OutOfRange end
                          else if starts_with_byte s1 43 then
                            let* s2 := str_from s1 1 in number s2 1 18446744073709551615
                          else number s1 1 width
                        else number s1 1 width) (fun x => wf (fst x))).
  { destruct signed; [|apply number_safe; [exact Ht|lia]].
    destruct s1 as [|c r]; [apply number_safe; [exact Ht|lia]|]. cbn [starts_with_byte].
    destruct (c =? 45) eqn:E45.
    - assert (c = 45) by lia. subst c. destruct (str_from_safe_ascii 45 r ltac:(lia) Ht) as [Hs Hr]. rewrite Hs. cbn [bind].
      eapply safe_pbind; [apply number_safe; [exact Hr|lia]|]. intros [s_ v] Hs_. cbn [fst] in Hs_.
      destruct (checked_sub in_i64 0 v); [exact Hs_|exact I].
    - destruct (c =? 43) eqn:E43; [|apply number_safe; [exact Ht|lia]].
      assert (c = 43) by lia. subst c. destruct (str_from_safe_ascii 43 r ltac:(lia) Ht) as [Hs Hr]. rewrite Hs. cbn [bind].
      apply number_safe; [exact Hr|lia]. }
  eapply safe_pbind; [exact Hread|]. intros [s2 v] Hs2. cbn [fst] in Hs2.
  eapply safe_pbind; [apply set_by_code_safe; exact Hc|]. intros p' _. exact Hs2.
Qed.

Lemma set_then_safe (r : Model.Parsed.parsed * Model.Parsed.res unit) s : wf s ->
  safe (let+ p := setq r in pok (p, s)) good.
Proof. intros H. destruct r as [p [u|e]]; [exact H|exact I]. Qed.

Lemma parse_tz_item_safe p s idx : wf s -> In idx (map fst P_TZ_FLAGS) -> safe (parse_tz_item p s idx) good.
Proof.
  intros Hv Hin. unfold parse_tz_item. destruct (zassoc idx P_TZ_FLAGS) as [[[az am] ams]|] eqn:E.
  2:{ exfalso. cbn in Hin. repeat (destruct Hin as [<-|Hin]; [discriminate|]). exact Hin. }
  eapply safe_pbind; [apply timezone_offset_safe; [exact colon_or_space_safe|apply trim_start_valid; exact Hv]|].
  intros [s1 off] Hs1. cbn [fst] in Hs1. apply set_then_safe. exact Hs1.
Qed.

Lemma parse_dot_nanosecond_safe p s : wf s -> safe (parse_dot_nanosecond p s) good.
Proof.
  intros Hv. unfold parse_dot_nanosecond. destruct s as [|c r]; [exact Hv|]. cbn [starts_with_byte].
  destruct (c =? 46) eqn:E; [|exact Hv]. assert (c = 46) by lia. subst c.
  destruct (str_from_safe_ascii 46 r ltac:(lia) Hv) as [Hs Hr]. rewrite Hs. cbn [bind].
  eapply safe_pbind; [apply nanosecond_safe; exact Hr|]. intros [s1 nano] Hs1. cbn [fst] in Hs1.
  apply set_then_safe. exact Hs1.
Qed.

Lemma parse_nodot_safe p s idx : wf s -> In idx [101; 102; 103] -> safe (parse_nodot p s idx) good.
Proof.
  intros Hv Hin. unfold parse_nodot.
  assert (exists minlen d, zassoc idx P_NODOT = Some (minlen, d) /\ 1 <= d <= 9) as (minlen & d & -> & Hd).
  { cbn in Hin. destruct Hin as [<-|[<-|[<-|[]]]]; eexists _, _; split; try reflexivity; lia. }
  destruct (blen s <? minlen); [exact I|].
  eapply safe_pbind; [apply nanosecond_fixed_safe; assumption|]. intros [s1 nano] Hs1. cbn [fst] in Hs1.
  apply set_then_safe. exact Hs1.
Qed.

Lemma parse_ampm_safe p s : wf s -> safe (parse_ampm p s) good.
Proof.
  intros Hv. unfold parse_ampm. change P_AMPM_LEN with 2. destruct (blen s <? 2) eqn:El; [exact I|].
  destruct s as [|a [|b r]]; try (rewrite ?blen_cons, ?blen_nil in El; lia).
  change (index (a :: b :: r) 0) with (@Val Z a). change (index (a :: b :: r) 1) with (@Val Z b). cbn [bind].
  destruct (assoc_bytes [Z.lor a P_AMPM_BIT; Z.lor b P_AMPM_BIT] P_AMPM_ARMS) as [v|] eqn:Ea; [|exact I].
  pose proof (assoc_bytes_key _ _ _ Ea) as Hk.
  assert (Hl : lower_letter (Z.lor a 32) = true /\ lower_letter (Z.lor b 32) = true).
  { change P_AMPM_BIT with 32 in Hk. unfold P_AMPM_ARMS in Hk. cbn [map fst In] in Hk.
    destruct Hk as [Hk|[Hk|[]]]; injection Hk as H1 H2;
      (split; [first [rewrite <- H1|rewrite H1]|first [rewrite <- H2|rewrite H2]]; reflexivity). }
  destruct Hl as [La Lb]. unfold wf in Hv.
  assert (Ha : 0 <= a <= 127) by (apply lor32_letter_ascii; [destruct (utf8_first_range a _ Hv); lia|exact La]).
  rewrite utf8_valid_ascii in Hv by exact Ha.
  assert (Hb : 0 <= b <= 127) by (apply lor32_letter_ascii; [destruct (utf8_first_range b _ Hv); lia|exact Lb]).
  rewrite utf8_valid_ascii in Hv by exact Hb.
  destruct (setq (Model.Parsed.set_ampm p v)) as [[p'|e]| |] eqn:Es; cbn [pbind bind]; try exact I.
  - change P_AMPM_REST with 2. rewrite str_from_2 by (apply utf8_valid_starts_ok; exact Hv). exact Hv.
  - pose proof (setq_safe (Model.Parsed.set_ampm p v)) as H. rewrite Es in H. exact H.
  - pose proof (setq_safe (Model.Parsed.set_ampm p v)) as H. rewrite Es in H. exact H.
Qed.

Definition fixed_ok (spec : Fixed) : bool := match spec with F_RFC2822 => false | _ => true end.

Lemma parse_fixed_safe relaxed p s spec :
  (forall p s, wf s -> safe (relaxed p s) good) -> fixed_ok spec = true -> wf s ->
  safe (parse_fixed relaxed p s spec) good.
Proof.
  intros Hrel Hok Hv. destruct spec as [ | | | | | | | | | | | | | | | | | | | i]; try discriminate; cbn [parse_fixed].
  - eapply safe_pbind; [apply short_month0_safe; exact Hv|]. intros [s1 m0] [H1 H2]. cbn [fst snd] in *.
    rewrite add_i64_small by lia. cbn [bind]. apply set_then_safe. exact H1.
  - eapply safe_pbind; [apply short_or_long_month0_safe; exact Hv|]. intros [s1 m0] [H1 H2]. cbn [fst snd] in *.
    rewrite add_i64_small by lia. cbn [bind]. apply set_then_safe. exact H1.
  - eapply safe_pbind; [apply short_weekday_safe; exact Hv|]. intros [s1 wd] [H1 H2]. apply set_then_safe. exact H1.
  - eapply safe_pbind; [apply short_or_long_weekday_safe; exact Hv|]. intros [s1 wd] [H1 H2]. apply set_then_safe. exact H1.
  - apply parse_ampm_safe; exact Hv.
  - apply parse_ampm_safe; exact Hv.
  - apply parse_dot_nanosecond_safe; exact Hv.
  - apply parse_dot_nanosecond_safe; exact Hv.
  - apply parse_dot_nanosecond_safe; exact Hv.
  - apply parse_dot_nanosecond_safe; exact Hv.
  - (* TimezoneName *) cbn. apply trim_matches_valid. exact Hv.
  - apply parse_tz_item_safe; [exact Hv|cbn; tauto].
  - apply parse_tz_item_safe; [exact Hv|cbn; tauto].
  - apply parse_tz_item_safe; [exact Hv|cbn; tauto].
  - apply parse_tz_item_safe; [exact Hv|cbn; tauto].
  - apply parse_tz_item_safe; [exact Hv|cbn; tauto].
  - apply parse_tz_item_safe; [exact Hv|cbn; tauto].
  - apply Hrel; exact Hv.
  - destruct i.
    + apply parse_tz_item_safe; [exact Hv|cbn; tauto].
    + apply parse_nodot_safe; [exact Hv|cbn; tauto].
    + apply parse_nodot_safe; [exact Hv|cbn; tauto].
    + apply parse_nodot_safe; [exact Hv|cbn; tauto].
Qed.

(** an item list the theorem covers: literals are well-formed strings, no RFC 2822 item *)
Definition item_ok (it : Item) : bool :=
  match it with
  | Literal l => utf8_valid l
  | IFixed f => fixed_ok f
  | _ => true
  end.

Lemma parse_item_safe relaxed p s it :
  (forall p s, wf s -> safe (relaxed p s) good) -> item_ok it = true -> wf s ->
  safe (parse_item relaxed p s it) good.
Proof.
  intros Hrel Hok Hv. destruct it as [l|w|spec pad|spec|]; cbn [parse_item item_ok] in *.
  - destruct (blen s <? blen l); [exact I|]. unfold starts_with.
    destruct (strip_prefix l s) as [r|] eqn:Es; [|exact I]. cbn [negb].
    pose proof (strip_prefix_split l s r Es) as ->.
    assert (Hr : wf r) by (apply (utf8_app_inv (List.length l) l (le_n _) Hok r Hv)).
    rewrite str_from_app by (apply utf8_valid_starts_ok; exact Hr). exact Hr.
  - cbn. apply trim_start_valid. exact Hv.
  - apply parse_numeric_safe; exact Hv.
  - apply parse_fixed_safe; assumption.
  - exact I.
Qed.

Theorem parse_items_safe relaxed : (forall p s, wf s -> safe (relaxed p s) good) ->
  forall items p s, forallb item_ok items = true -> wf s -> safe (parse_items relaxed p s items) good.
Proof.
  intros Hrel. induction items as [|it r IH]; intros p s Hok Hv; cbn [parse_items].
  - exact Hv.
  - cbn [forallb] in Hok. apply andb_prop in Hok. destruct Hok as [H1 H2].
    eapply safe_pbind; [apply parse_item_safe; eassumption|]. intros [p' s'] Hs'. apply IH; assumption.
Qed.

(** * parse_rfc3339_relaxed and parse_internal *)
Lemma parse_items_no_rfc3339 r1 r2 : forall items p s,
  forallb (fun it => match it with IFixed F_RFC3339 => false | _ => true end) items = true ->
  parse_items r1 p s items = parse_items r2 p s items.
Proof.
  induction items as [|it r IH]; intros p s H; [reflexivity|]. cbn [forallb] in H. apply andb_prop in H. destruct H as [H1 H2].
  cbn [parse_items].
  assert (Hi : parse_item r1 p s it = parse_item r2 p s it).
  { destruct it as [l|w|spec pad|spec|]; try reflexivity. destruct spec; try reflexivity. discriminate. }
  rewrite Hi. destruct (parse_item r2 p s it) as [[[p' s']|e]| |]; cbn [pbind bind]; try reflexivity. apply IH; exact H2.
Qed.

Theorem parse_rfc3339_relaxed_safe p s : wf s -> safe (parse_rfc3339_relaxed p s) good.
Proof.
  intros Hv. unfold parse_rfc3339_relaxed.
  set (dummy := fun (_ : Model.Parsed.parsed) (_ : bytes) => @perr_ (Model.Parsed.parsed * bytes) BadFormat).
  assert (Hdummy : forall p s, wf s -> safe (dummy p s) good) by (intros; exact I).
  rewrite (parse_items_no_rfc3339 _ dummy P_RELAXED_DATE_ITEMS p s eq_refl).
  eapply safe_pbind; [apply (parse_items_safe dummy Hdummy); [reflexivity|exact Hv]|].
  intros [p1 s1] Hs1. unfold good in Hs1. cbn [snd] in Hs1.
  eapply (safe_pbind _ _ wf).
  { destruct s1 as [|c r]; [exact I|]. destruct (existsb (Z.eqb c) P_RELAXED_SEPARATORS) eqn:Ex; [|exact I].
    assert (Hc : 0 <= c <= 127).
    { cbn in Ex. lia. }
    destruct (str_from_safe_ascii c r Hc Hs1) as [Hs Hr]. rewrite Hs. exact Hr. }
  intros s2 Hs2.
  rewrite (parse_items_no_rfc3339 _ dummy P_RELAXED_TIME_ITEMS p1 s2 eq_refl).
  eapply safe_pbind; [apply (parse_items_safe dummy Hdummy); [reflexivity|exact Hs2]|].
  intros [p2 s3] Hs3. unfold good in Hs3. cbn [snd] in Hs3.
  pose proof (trim_start_valid s3 Hs3) as Hs4. set (s4 := trim_start s3) in *.
  change (blen P_RELAXED_UTC) with 3.
  assert (Hutc : exists u : bool,
            (if blen s4 >=? 3 then let* pre := slice_to s4 3 in Val (eq_ignore_ascii_case P_RELAXED_UTC pre) else Val false) = Val u /\
            (u = true -> exists a b c r, s4 = a :: b :: c :: r /\ 0 <= a <= 127 /\ 0 <= b <= 127 /\ 0 <= c <= 127)).
  { destruct (blen s4 >=? 3) eqn:El; [|exists false; split; [reflexivity|discriminate]].
    destruct s4 as [|a [|b [|c r]]]; try (rewrite ?blen_cons, ?blen_nil in El; lia).
    unfold slice_to. rewrite !blen_cons. pose proof (blen_nonneg r).
    replace ((0 <=? 3) && (3 <=? 1 + (1 + (1 + blen r)))) with true by lia. cbn [bind firstn Z.to_nat Pos.to_nat Pos.iter_op Nat.add].
    eexists. split; [reflexivity|]. intros He. exists a, b, c, r. split; [reflexivity|].
    unfold eq_ignore_ascii_case in He. apply andb_prop in He. destruct He as [_ He]. cbn [P_RELAXED_UTC all2] in He.
    apply andb_prop in He. destruct He as [E1 He]. apply andb_prop in He. destruct He as [E2 He].
    apply andb_prop in He. destruct He as [E3 _].
    unfold wf in Hs4.
    assert (Ha : 0 <= a <= 127).
    { apply (eq_ignore_ascii_byte a 85); [destruct (utf8_first_range a _ Hs4); lia|reflexivity|].
      unfold u8_eq_ignore_ascii_case in *. lia. }
    rewrite utf8_valid_ascii in Hs4 by exact Ha.
    assert (Hb : 0 <= b <= 127).
    { apply (eq_ignore_ascii_byte b 84); [destruct (utf8_first_range b _ Hs4); lia|reflexivity|].
      unfold u8_eq_ignore_ascii_case in *. lia. }
    rewrite utf8_valid_ascii in Hs4 by exact Hb.
    assert (Hc : 0 <= c <= 127).
    { apply (eq_ignore_ascii_byte c 67); [destruct (utf8_first_range c _ Hs4); lia|reflexivity|].
      unfold u8_eq_ignore_ascii_case in *. lia. }
    repeat split; lia. }
  destruct Hutc as (u & Hu & Hshape). rewrite Hu. cbn [bind].
  eapply (safe_pbind _ _ (fun x => wf (fst x))).
  { destruct u.
    - destruct (Hshape eq_refl) as (a & b & c & r & Hs & Ha & Hb & Hc). rewrite Hs in *.
      assert (Hr : wf r) by (unfold wf in *; rewrite !utf8_valid_ascii in Hs4 by lia; exact Hs4).
      rewrite str_from_3 by (apply utf8_valid_starts_ok; exact Hr). exact Hr.
    - destruct P_RELAXED_TZ_FLAGS as [[z mm] ms]. apply timezone_offset_safe; [exact colon_or_space_safe|exact Hs4]. }
  intros [s5 off] Hs5. cbn [fst] in Hs5. apply set_then_safe. exact Hs5.
Qed.

(** never-Panic for parse_internal / parse / parse_and_remainder on every well-formed input *)
Theorem parse_internal_safe items p s : forallb item_ok items = true -> wf s ->
  safe (parse_internal p s items) good.
Proof. intros Hok Hv. exact (parse_items_safe parse_rfc3339_relaxed parse_rfc3339_relaxed_safe items p s Hok Hv). Qed.

Corollary parse_never_panics items p s : forallb item_ok items = true -> utf8_valid s = true ->
  parse p s items <> Panic /\ parse p s items <> OutOfFuel /\
  parse_and_remainder p s items <> Panic /\ parse_and_remainder p s items <> OutOfFuel.
Proof.
  intros Hok Hv. pose proof (parse_internal_safe items p s Hok Hv) as H.
  unfold parse, parse_and_remainder, parse_end.
  destruct (parse_internal p s items) as [[[p' s']|e]| |]; cbn in *; try contradiction.
  - destruct (is_empty s'); repeat split; discriminate.
  - repeat split; discriminate.
Qed.
