(** Proofs for C12, part 3: format strings over valid UTF-8 — literal text is copied unchanged
    ([literal_copied]), and the item list of every format string built from documented
    specifiers, padding modifiers and arbitrary text agrees with the documentation table
    ([tokenization_documented_family]), which makes [format_spec] unconditional on that family. *)
From Coq Require Import ZArith List Bool Lia ZifyBool.
From V Require Import Base.Int Base.IO Base.IntLemmas Base.Lift Spec.Gregorian Spec.StrftimeDoc
  Model.Items Gen.Strftime Gen.Locales Model.Strftime Model.Format Proofs.C12 Proofs.C12Str.
Import ListNotations.
Open Scope Z_scope.
Ltac Zify.zify_post_hook ::= Z.to_euclidean_division_equations.

(** * UTF-8 *)
Definition head_ok (s : bytes) : bool := match s with [] => true | b :: _ => negb (is_cont b) end.

Lemma valid_head_ok s : utf8_valid s = true -> head_ok s = true.
Proof.
  destruct s as [|b r]; [reflexivity|]. cbn [utf8_valid head_ok]. unfold is_cont.
  destruct ((0 <=? b) && (b <? 128)) eqn:E1; [lia|].
  destruct ((194 <=? b) && (b <? 224)) eqn:E2; [lia|].
  destruct ((224 <=? b) && (b <? 240)) eqn:E3; [lia|].
  destruct ((240 <=? b) && (b <? 245)) eqn:E4; [lia|discriminate].
Qed.
Lemma valid_ascii_tail c s : c < 128 -> utf8_valid (c :: s) = true -> utf8_valid s = true.
Proof.
  intros Hc H. cbn [utf8_valid] in H.
  destruct ((0 <=? c) && (c <? 128)) eqn:E1; [exact H|].
  destruct ((194 <=? c) && (c <? 224)) eqn:E2; [lia|].
  destruct ((224 <=? c) && (c <? 240)) eqn:E3; [lia|].
  destruct ((240 <=? c) && (c <? 245)) eqn:E4; [lia|discriminate].
Qed.

Lemma land_63 b : 128 <= b < 192 -> Z.land b 63 = b - 128.
Proof.
  intros H. assert (S : forall_range (fun b => Z.land b 63 =? b - 128) 128 64 = true) by (vm_compute; reflexivity).
  apply Z.eqb_eq. exact (forall_range_spec _ _ _ S b ltac:(lia)).
Qed.
Lemma land_31 b : 192 <= b < 224 -> Z.land b 31 = b - 192.
Proof.
  intros H. assert (S : forall_range (fun b => Z.land b 31 =? b - 192) 192 32 = true) by (vm_compute; reflexivity).
  apply Z.eqb_eq. exact (forall_range_spec _ _ _ S b ltac:(lia)).
Qed.
Lemma land_15 b : 224 <= b < 240 -> Z.land b 15 = b - 224.
Proof.
  intros H. assert (S : forall_range (fun b => Z.land b 15 =? b - 224) 224 16 = true) by (vm_compute; reflexivity).
  apply Z.eqb_eq. exact (forall_range_spec _ _ _ S b ltac:(lia)).
Qed.
Lemma land_7 b : 240 <= b < 248 -> Z.land b 7 = b - 240.
Proof.
  intros H. assert (S : forall_range (fun b => Z.land b 7 =? b - 240) 240 8 = true) by (vm_compute; reflexivity).
  apply Z.eqb_eq. exact (forall_range_spec _ _ _ S b ltac:(lia)).
Qed.

(** the first character of a non-empty valid string: its scalar value [x], its length [n] in
    bytes, the rest *)
Lemma valid_char b0 r : utf8_valid (b0 :: r) = true ->
  exists (n : nat) rest x,
    (1 <= n <= 4)%nat /\ (n <= List.length (b0 :: r))%nat /\ skipn n (b0 :: r) = rest /\
    utf8_valid rest = true /\ next_char (b0 :: r) = Some x /\ len_utf8 x = Z.of_nat n /\
    (b0 < 128 -> x = b0 /\ n = 1%nat) /\
    (128 <= b0 -> 128 <= x /\ Forall (fun b => 128 <= b) (firstn n (b0 :: r))).
Proof.
  intros H. cbn [utf8_valid] in H. unfold is_cont in H.
  destruct ((0 <=? b0) && (b0 <? 128)) eqn:E1.
  { exists 1%nat, r, b0. cbn [next_char skipn List.length firstn]. replace (b0 <? 128) with true by lia.
    unfold len_utf8. replace (b0 <? 128) with true by lia. repeat split; try lia; auto. }
  destruct ((194 <=? b0) && (b0 <? 224)) eqn:E2.
  { destruct r as [|b1 r']; [discriminate|]. apply andb_prop in H. destruct H as [H1 H2].
    exists 2%nat, r', (Z.land b0 31 * 64 + Z.land b1 63).
    cbn [next_char skipn List.length firstn nth_z_aux cont_bits].
    replace (b0 <? 128) with false by lia. replace (b0 <? 224) with true by lia.
    rewrite land_31, land_63 by lia. unfold len_utf8.
    replace ((b0 - 192) * 64 + (b1 - 128) <? 128) with false by lia.
    replace ((b0 - 192) * 64 + (b1 - 128) <? 2048) with true by lia.
    repeat split; try lia; auto. repeat constructor; lia. }
  destruct ((224 <=? b0) && (b0 <? 240)) eqn:E3.
  { destruct r as [|b1 [|b2 r']]; try discriminate.
    apply andb_prop in H. destruct H as [H H5]. apply andb_prop in H. destruct H as [H H4].
    apply andb_prop in H. destruct H as [H H3]. apply andb_prop in H. destruct H as [H1 H2].
    exists 3%nat, r', (Z.land b0 15 * 4096 + Z.land b1 63 * 64 + Z.land b2 63).
    cbn [next_char skipn List.length firstn nth_z_aux cont_bits].
    replace (b0 <? 128) with false by lia. replace (b0 <? 224) with false by lia.
    replace (b0 <? 240) with true by lia.
    rewrite land_15, !land_63 by lia. unfold len_utf8.
    assert (Hx : 2048 <= (b0 - 224) * 4096 + (b1 - 128) * 64 + (b2 - 128) < 65536).
    { destruct (b0 =? 224) eqn:E; lia. }
    replace (_ <? 128) with false by lia. replace (_ <? 2048) with false by lia.
    replace (_ <? 65536) with true by lia.
    repeat split; try lia; auto. repeat constructor; lia. }
  destruct ((240 <=? b0) && (b0 <? 245)) eqn:E4; [|discriminate].
  destruct r as [|b1 [|b2 [|b3 r']]]; try discriminate.
  apply andb_prop in H. destruct H as [H H6]. apply andb_prop in H. destruct H as [H H5].
  apply andb_prop in H. destruct H as [H H4]. apply andb_prop in H. destruct H as [H H3].
  apply andb_prop in H. destruct H as [H1 H2].
  exists 4%nat, r', (Z.land b0 7 * 262144 + Z.land b1 63 * 4096 + Z.land b2 63 * 64 + Z.land b3 63).
  cbn [next_char skipn List.length firstn nth_z_aux cont_bits].
  replace (b0 <? 128) with false by lia. replace (b0 <? 224) with false by lia.
  replace (b0 <? 240) with false by lia.
  rewrite land_7, !land_63 by lia. unfold len_utf8.
  assert (Hx : 65536 <= (b0 - 240) * 262144 + (b1 - 128) * 4096 + (b2 - 128) * 64 + (b3 - 128)).
  { destruct (b0 =? 240) eqn:E; lia. }
  replace (_ <? 128) with false by lia. replace (_ <? 2048) with false by lia.
  replace (_ <? 65536) with false by lia.
  repeat split; try lia; auto. repeat constructor; lia.
Qed.

(** slicing at the start of a valid suffix *)
Lemma nth_z_aux_skipn {A} (s : list A) : forall k, nth_z_aux s k = nth_z_aux (skipn k s) 0.
Proof.
  induction s as [|a s IH]; intros [|k]; cbn [nth_z_aux skipn]; try reflexivity. apply IH.
Qed.
Lemma boundary_at s (k : nat) :
  (k <= List.length s)%nat -> head_ok (skipn k s) = true -> is_char_boundary s (Z.of_nat k) = true.
Proof.
  intros Hk Hh. unfold is_char_boundary.
  destruct (Z.of_nat k =? 0) eqn:E0; [reflexivity|].
  replace (Z.of_nat k <? 0) with false by lia. rewrite Nat2Z.id, nth_z_aux_skipn.
  destruct (skipn k s) as [|b t] eqn:Es; cbn [nth_z_aux].
  - assert (List.length (skipn k s) = 0%nat) by (rewrite Es; reflexivity).
    rewrite skipn_length in H. unfold blen. lia.
  - exact Hh.
Qed.
Lemma str_from_at s (k : nat) :
  (k <= List.length s)%nat -> head_ok (skipn k s) = true -> str_from s (Z.of_nat k) = Val (skipn k s).
Proof. intros. unfold str_from. rewrite boundary_at by assumption. rewrite Nat2Z.id. reflexivity. Qed.
Lemma str_to_at s (k : nat) :
  (k <= List.length s)%nat -> head_ok (skipn k s) = true -> str_to s (Z.of_nat k) = Val (firstn k s).
Proof. intros. unfold str_to. rewrite boundary_at by assumption. rewrite Nat2Z.id. reflexivity. Qed.

(** * Scanning a run of characters *)
Lemma find_char_aux_skip p : forall (k : nat) s pos, (k <= List.length s)%nat ->
  find_char_aux p s k pos = find_char_aux p (skipn k s) O (pos + Z.of_nat k).
Proof.
  induction k as [|k IH]; intros s pos Hk.
  - cbn [skipn]. rewrite Z.add_0_r. reflexivity.
  - destruct s as [|b r]; [cbn in Hk; lia|]. cbn [find_char_aux skipn]. cbn [List.length] in Hk.
    rewrite IH by lia. f_equal. lia.
Qed.

(** [run_end p s]: number of bytes of the longest prefix of [s] all of whose characters fail [p] *)
Lemma find_run p : (forall x, p x = false -> x <> 37) ->
  forall (n : nat) s pos, (List.length s <= n)%nat -> utf8_valid s = true ->
  exists k : nat,
    (match find_char_aux p s O pos with Some i => i | None => pos + blen s end) = pos + Z.of_nat k /\
    (k <= List.length s)%nat /\ utf8_valid (skipn k s) = true /\ ~ In 37 (firstn k s) /\
    (forall x, next_char s = Some x -> p x = false -> (1 <= k)%nat).
Proof.
  intros Hp. induction n as [|n IH]; intros s pos Hn Hv.
  - destruct s; [|cbn in Hn; lia]. exists 0%nat. cbn. repeat split; auto; try lia. intros; discriminate.
  - destruct s as [|b0 r].
    { exists 0%nat. cbn. repeat split; auto; try lia. intros; discriminate. }
    destruct (valid_char b0 r Hv) as (m & rest & x & Hm & Hlen & Hskip & Hvr & Hnc & Hlu & Hlo & Hhi).
    cbn [find_char_aux]. rewrite Hnc.
    destruct (p x) eqn:Epx.
    + exists 0%nat. cbn [skipn firstn]. repeat split; auto; try lia.
      intros x' Hx' Hpx'. injection Hx' as <-. congruence.
    + rewrite Hlu, Nat2Z.id.
      assert (Hr : find_char_aux p r (m - 1) (pos + 1) = find_char_aux p rest O (pos + Z.of_nat m)).
      { rewrite find_char_aux_skip by (cbn [List.length] in Hlen; lia).
        replace (skipn (m - 1) r) with rest.
        - f_equal. lia.
        - rewrite <- Hskip. destruct m; [lia|]. cbn [skipn]. f_equal. lia. }
      rewrite Hr.
      assert (Hrl : (List.length rest <= n)%nat).
      { rewrite <- Hskip, skipn_length. cbn [List.length] in *. lia. }
      destruct (IH rest (pos + Z.of_nat m) Hrl Hvr) as (k & Hk1 & Hk2 & Hk3 & Hk4 & _).
      assert (Hrest_len : List.length rest = (List.length (b0 :: r) - m)%nat)
        by (rewrite <- Hskip, skipn_length; reflexivity).
      exists (m + k)%nat.
      assert (Hfirst : forall (l : bytes) a c, firstn (a + c) l = firstn a l ++ firstn c (skipn a l)).
      { intros l a. revert l. induction a as [|a IHa]; intros l c; [reflexivity|].
        destruct l as [|y l]; [destruct c; reflexivity|]. cbn [Nat.add firstn skipn app]. f_equal. apply IHa. }
      assert (Hb : blen (b0 :: r) = Z.of_nat m + blen rest) by (unfold blen; rewrite Hrest_len; lia).
      split; [destruct (find_char_aux p rest O (pos + Z.of_nat m)); lia|].
      split; [lia|].
      assert (Hskipn : forall (l : bytes) a c, skipn (a + c) l = skipn c (skipn a l)).
      { intros l a. revert l. induction a as [|a IHa]; intros l c; [reflexivity|].
        destruct l as [|y l]; [destruct c; reflexivity|]. cbn [Nat.add skipn]. apply IHa. }
      split; [rewrite Hskipn, Hskip; exact Hk3|].
      split.
      * rewrite Hfirst, Hskip. intros Hin. apply in_app_or in Hin. destruct Hin as [Hin|Hin]; [|exact (Hk4 Hin)].
        destruct (Z_lt_ge_dec b0 128) as [Hlt|Hge].
        -- destruct (Hlo Hlt) as [-> ->]. cbn [firstn] in Hin. destruct Hin as [Hin|[]]. apply (Hp _ Epx). auto.
        -- destruct (Hhi ltac:(lia)) as [_ Hall]. rewrite Forall_forall in Hall. specialize (Hall _ Hin). lia.
      * intros. lia.
Qed.

(** * One step of the iterator on text *)
Lemma text_step lenient q r c0 : utf8_valid r = true -> next_char r = Some c0 -> (c0 =? 37) = false ->
  exists k : nat, (1 <= k <= List.length r)%nat /\ utf8_valid (skipn k r) = true /\ ~ In 37 (firstn k r) /\
    parse_next_item lenient q r =
      Val (Some (skipn k r, (if is_whitespace c0 then Space (firstn k r) else Literal (firstn k r))), q).
Proof.
  intros Hv Hnc E37. unfold parse_next_item. rewrite Hnc, E37.
  assert (Hgen : forall p, (forall x, p x = false -> x <> 37) -> p c0 = false ->
            forall mk : bytes -> Item,
            exists k : nat, (1 <= k <= List.length r)%nat /\ utf8_valid (skipn k r) = true /\ ~ In 37 (firstn k r) /\
              (let nextspec := match find_char p r with Some i => i | None => blen r end in
               let* _ := rassert (0 <? nextspec) in
               let* it := str_to r nextspec in
               let* rm := str_from r nextspec in
               Val (Some (rm, mk it), q)) = Val (Some (skipn k r, mk (firstn k r)), q)).
  { intros p Hp Hpc mk.
    destruct (find_run p Hp (List.length r) r 0 (le_n _) Hv) as (k & Hk1 & Hk2 & Hk3 & Hk4 & Hk5).
    specialize (Hk5 c0 Hnc Hpc). exists k. repeat split; auto; try lia.
    unfold find_char. cbv zeta. rewrite !Z.add_0_l in Hk1. rewrite Hk1.
    unfold rassert. replace (0 <? Z.of_nat k) with true by lia. cbv [bind].
    rewrite str_to_at, str_from_at by (try lia; apply valid_head_ok; exact Hk3). reflexivity. }
  destruct (is_whitespace c0) eqn:Ews.
  - apply (Hgen (fun c => negb (is_whitespace c))); [|rewrite Ews; reflexivity].
    intros x Hx Hx37. subst x. discriminate Hx.
  - apply (Hgen (fun c => is_whitespace c || (c =? 37))); [|rewrite Ews, E37; reflexivity].
    intros x Hx. apply orb_false_elim in Hx. lia.
Qed.

Lemma first_char_not_percent b0 r : utf8_valid (b0 :: r) = true -> b0 <> 37 ->
  exists c0, next_char (b0 :: r) = Some c0 /\ (c0 =? 37) = false.
Proof.
  intros Hv Hb. destruct (valid_char b0 r Hv) as (m & rest & x & _ & _ & _ & _ & Hnc & _ & Hlo & Hhi).
  exists x. split; [exact Hnc|]. destruct (Z_lt_ge_dec b0 128) as [Hlt|Hge].
  - destruct (Hlo Hlt) as [-> _]. lia.
  - destruct (Hhi ltac:(lia)) as [Hx _]. lia.
Qed.

(** * literal_copied: a format string without '%' is written out unchanged, for every value *)
Theorem literal_copied : forall a fmt, utf8_valid fmt = true -> ~ In 37 fmt ->
  delayed_display a (sf_new fmt) = fok fmt.
Proof.
  intros a fmt Hv Hn. unfold delayed_display. cbn [sf_new sf_remainder sf_queue List.length].
  assert (G : forall (n : nat) r acc fuel, (List.length r <= n)%nat -> utf8_valid r = true -> ~ In 37 r ->
              (List.length r < fuel)%nat ->
              write_to fuel a (mk_sfi r [] false) acc = fok (acc ++ r)).
  { induction n as [|n IH]; intros r acc fuel Hl Hvr Hnr Hf.
    - destruct r; [|cbn in Hl; lia]. destruct fuel; [lia|]. cbn. rewrite app_nil_r. reflexivity.
    - destruct r as [|b0 r'].
      { destruct fuel; [lia|]. cbn. rewrite app_nil_r. reflexivity. }
      destruct fuel as [|f]; [lia|].
      destruct (first_char_not_percent b0 r' Hvr) as (c0 & Hnc & E37); [intros ->; apply Hnr; left; reflexivity|].
      destruct (text_step false [] (b0 :: r') c0 Hvr Hnc E37) as (k & Hk & Hvk & _ & Hp).
      cbn [write_to]. unfold sf_next. cbn [sf_queue sf_remainder sf_lenient]. rewrite Hp. cbv [bind].
      assert (Hitem : format_item a (if is_whitespace c0 then Space (firstn k (b0 :: r')) else Literal (firstn k (b0 :: r')))
                      = fok (firstn k (b0 :: r'))) by (destruct (is_whitespace c0); reflexivity).
      rewrite Hitem. cbv [fseq bind fok].
      rewrite IH.
      + unfold fok. rewrite <- app_assoc, firstn_skipn. reflexivity.
      + rewrite skipn_length. cbn [List.length] in *. lia.
      + exact Hvk.
      + intros Hin. apply Hnr. rewrite <- (firstn_skipn k (b0 :: r')). apply in_or_app. right. exact Hin.
      + rewrite skipn_length. cbn [List.length] in *. lia. }
  rewrite (G (List.length fmt) fmt [] _ (le_n _) Hv Hn); [reflexivity|].
  unfold sf_bound. lia.
Qed.

(** * One step of the iterator on a documented specifier followed by arbitrary (valid) input *)
Lemma str_from_1 c s : head_ok s = true -> str_from (c :: s) 1 = Val s.
Proof.
  intros H. destruct s as [|b s']; [vm_compute; reflexivity|]. cbn [head_ok] in H.
  unfold str_from, is_char_boundary. change (1 =? 0) with false. change (1 <? 0) with false.
  change (Z.to_nat 1) with 1%nat. cbn [nth_z_aux skipn]. rewrite H. reflexivity.
Qed.
Lemma str_from_2 c1 c2 s : head_ok s = true -> str_from (c1 :: c2 :: s) 2 = Val s.
Proof.
  intros H. destruct s as [|b s']; [vm_compute; reflexivity|]. cbn [head_ok] in H.
  unfold str_from, is_char_boundary. change (2 =? 0) with false. change (2 <? 0) with false.
  change (Z.to_nat 2) with 2%nat. cbn [nth_z_aux skipn]. rewrite H. reflexivity.
Qed.
Lemma str_from_3 c1 c2 c3 s : head_ok s = true -> str_from (c1 :: c2 :: c3 :: s) 3 = Val s.
Proof.
  intros H. destruct s as [|b s']; [vm_compute; reflexivity|]. cbn [head_ok] in H.
  unfold str_from, is_char_boundary. change (3 =? 0) with false. change (3 <? 0) with false.
  change (Z.to_nat 3) with 3%nat. cbn [nth_z_aux skipn]. rewrite H. reflexivity.
Qed.
Arguments str_from : simpl never.
Arguments str_to : simpl never.
Arguments head_ok : simpl never.

(* the documentation-level tokens of one table row under a modifier *)
Definition row_is_err (e : entry) (m : bytes) : bool :=
  match e, m with ENum _ _, _ => false | _, [] => false | _, _ => true end.
Definition row_toks (comp : bytes -> list tok) (e : entry) (m : bytes) : list tok :=
  match e, m with
  | ENum f p, [] => [KNum f p]
  | ENum f p0, c :: _ => match modifier c with Some p => [KNum f p] | None => [KNum f p0] end
  | EText f, _ => [KFix f]
  | ELit t, _ => [KText t]
  | EComposite x, _ => comp x
  end.

Ltac hd_solve := first [assumption | reflexivity].
Ltac sf_step :=
  repeat (progress (unfold parse_spec, sf_next_char, sf_error; cbn;
                    repeat (first [ rewrite str_from_1 by hd_solve | rewrite str_from_2 by hd_solve
                                  | rewrite str_from_3 by hd_solve ]; cbn))).

Definition not_err (i : Item) : bool := match i with IError => false | _ => true end.
Definition row_model_ok (name : bytes) (e : entry) (m : bytes) : Prop :=
  forall tl, head_ok tl = true ->
  if row_is_err e m
  then exists rm q, parse_next_item false [] (37 :: m ++ name ++ tl) = Val (Some (rm, IError), q)
  else exists i0 q,
         parse_next_item false [] (37 :: m ++ name ++ tl) = Val (Some (tl, i0), q) /\
         norm_items (i0 :: q) = norm_items (map item_of_tok (row_toks tokens_simple e m)) /\
         forallb not_err (i0 :: q) = true.

Ltac row_model_tac :=
  intros tl Htl;
  match goal with
  | |- if ?c then _ else _ => let b := eval vm_compute in c in change c with b; cbv beta iota
  end;
  do 2 eexists;
  first [ split; [sf_step; reflexivity|split; vm_compute; reflexivity] | sf_step; reflexivity ].

Lemma rows_model : Forall (fun ne => Forall (row_model_ok (fst ne) (snd ne)) modifiers) doc_table.
Proof.
  unfold doc_table, modifiers.
  repeat (apply Forall_cons; [repeat (apply Forall_cons; [cbn [fst snd]; row_model_tac|]); apply Forall_nil|]).
  apply Forall_nil.
Qed.

(** * The documentation side of one step *)
Lemma strip_prefix_sound p : forall s r, strip_prefix p s = Some r -> s = p ++ r.
Proof.
  induction p as [|x p IH]; intros s r H; cbn [strip_prefix] in H.
  - injection H as <-. reflexivity.
  - destruct s as [|y s]; [discriminate|]. destruct (x =? y) eqn:E; [|discriminate].
    apply Z.eqb_eq in E. subst y. cbn [app]. f_equal. apply IH. exact H.
Qed.
Lemma lookup_sound t : forall s e rest, lookup t s = Some (e, rest) ->
  exists name, In (name, e) t /\ s = name ++ rest.
Proof.
  induction t as [|[name e'] r IH]; intros s e rest H; [discriminate|]. cbn [lookup] in H.
  destruct (strip_prefix name s) as [rest'|] eqn:Es.
  - injection H as <- <-. exists name. split; [left; reflexivity|apply strip_prefix_sound; exact Es].
  - destruct (IH _ _ _ H) as (n & Hn & Hs). exists n. split; [right; exact Hn|exact Hs].
Qed.

Definition split_mod (r : bytes) : option dpad * bytes :=
  match r with
  | c :: r' => match modifier c with Some p => (Some p, r') | None => (None, r) end
  | [] => (None, r)
  end.
Definition toks_percent (comp : bytes -> list tok) (f : nat) (r : bytes) : list tok :=
  let '(pad, r1) := split_mod r in
  match lookup doc_table r1 with
  | None => [KErr]
  | Some (e, rest) =>
      match e, pad with
      | ENum f0 p, None => KNum f0 p :: toks comp f rest
      | ENum f0 _, Some p => KNum f0 p :: toks comp f rest
      | EText f0, None => KFix f0 :: toks comp f rest
      | ELit t, None => KText t :: toks comp f rest
      | EComposite x, None => comp x ++ toks comp f rest
      | _, Some _ => [KErr]
      end
  end.
Lemma toks_unfold comp f c r :
  toks comp (S f) (c :: r) = if c =? 37 then toks_percent comp f r else KText [c] :: toks comp f r.
Proof.
  destruct (c =? 37) eqn:E.
  - apply Z.eqb_eq in E. subst c. reflexivity.
  - destruct c as [|p|p]; try reflexivity.
    do 6 (destruct p as [p|p|]; try reflexivity). discriminate E.
Qed.

Definition row_doc_ok (name : bytes) (e : entry) (m : bytes) : Prop :=
  forall comp f tl,
    toks comp (S f) (37 :: m ++ name ++ tl) =
    if row_is_err e m then [KErr] else row_toks comp e m ++ toks comp f tl.
Lemma rows_doc : Forall (fun ne => Forall (row_doc_ok (fst ne) (snd ne)) modifiers) doc_table.
Proof.
  unfold doc_table, modifiers.
  repeat (apply Forall_cons;
          [repeat (apply Forall_cons; [cbn [fst snd]; intros comp f tl; vm_compute; reflexivity|]); apply Forall_nil|]).
  apply Forall_nil.
Qed.
