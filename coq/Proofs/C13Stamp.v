(** C13 -- format_parse_roundtrip END TO END for the timestamp item: "%s" (and "%s%.9f" / "%s%.f") for
    EVERY NaiveDateTime and EVERY DateTime<Utc>, negative timestamps included (years before 1970),
    through the formatter ([format_numeric] of Timestamp: the count of non-leap seconds, "-" and
    digits when negative), the reader (the signed Timestamp entry of the Numeric table) and the
    timestamp arm of Parsed resolution (Proofs/C14Stamp.v).  "%s" alone keeps whole seconds: the
    result is the value with its fraction (and the leap-second flag, which a timestamp cannot
    carry) dropped; with the nine fraction digits the result is the value itself (a leap second is
    read back as the non-leap :59.fff -- the same count of seconds). *)
From Coq Require Import ZArith List Bool Lia ZifyBool.
From V Require Import Base.Int Base.IntLemmas Base.IO Base.Utf8 Model.Scan Model.Items Gen.ParseTable Gen.Strftime
  Proofs.Utf8 Proofs.Scan Model.Parse Proofs.C13 Proofs.C13Reads Proofs.C13Fmt Proofs.C13Digits Proofs.C13Time
  Proofs.C13View Proofs.C13TimeForms Spec.StrftimeDoc.
From V Require Model.Parsed Model.Format Model.Date Model.Time Model.DateTime Model.Strftime Proofs.C12 Proofs.C14
  Proofs.C14Date Proofs.C14Stamp Proofs.C08Sweeps Proofs.C04 Proofs.C04Date.
Import ListNotations.
Open Scope Z_scope.
Ltac Zify.zify_post_hook ::= Z.to_euclidean_division_equations.

(** * the item: the formatter's text of a timestamp is read back as that timestamp *)
Definition stamp_text (ts : Z) : bytes := pad_num DNone 9 false ts.

Lemma stamp_text_neg ts : ts < 0 -> stamp_text ts = pad_num DNone 9 true ts.
Proof. intros H. unfold stamp_text, pad_num. replace (ts <? 0) with true by lia. reflexivity. Qed.

Lemma stamp_reads ts rest : - i64_max <= ts <= i64_max -> not_digit_start rest = true -> utf8_valid rest = true ->
  reads_numeric N_Timestamp (stamp_text ts) rest = Some (W_code 20 ts).
Proof.
  intros Hts Hnd Hr. destruct (Z_lt_dec ts 0) as [Hneg|Hpos].
  - rewrite stamp_text_neg by exact Hneg.
    apply (pad_num_signed_reads N_Timestamp u64_max 20 DNone 9 ts rest (numeric_table N_Timestamp)); try assumption; lia.
  - assert (H19 : 19 <= u64_max) by (unfold u64_max; lia).
    pose proof (Z.pow_le_mono_r 10 19 u64_max ltac:(lia) H19) as Hp. change (10 ^ 19) with 10000000000000000000 in Hp.
    assert (Hfit : ts < 10 ^ u64_max) by (eapply Z.lt_le_trans; [|exact Hp]; unfold i64_max in Hts; lia).
    assert (Hw : 0 <= 9 <= u64_max) by (unfold u64_max; lia).
    assert (Hw1 : 1 <= u64_max) by (unfold u64_max; lia).
    exact (pad_num_unsigned_reads N_Timestamp u64_max true 20 DNone 9 ts rest (numeric_table N_Timestamp)
             ltac:(lia) Hw Hw1 Hfit (proj2 Hts) Hr (or_introl Hnd)).
Qed.

Lemma item_stamp a d t ts rest :
  Model.Format.fa_date a = Some d -> Model.Format.fa_time a = Some t ->
  Model.DateTime.dt_timestamp (Model.DateTime.mk_ndt d t) = Val (ts + match Model.Format.fa_off a with Some (_, o) => o | None => 0 end) ->
  - i64_max <= ts <= i64_max -> not_digit_start rest = true -> utf8_valid rest = true ->
  item_rt a (INumeric N_Timestamp PadNone) (stamp_text ts) (W_code 20 ts) rest.
Proof.
  intros Hd Ht Hts Hb Hnd Hr. split; [|split].
  - unfold renders. cbn [Model.Format.format_item]. destruct a as [od ot oo]. cbn [Model.Format.fa_date Model.Format.fa_time Model.Format.fa_off] in *.
    subst od ot. cbn [Model.Format.format_numeric Model.Format.fa_date Model.Format.fa_time Model.Format.fa_off].
    unfold Model.Format.naive_timestamp. rewrite Hts. cbn [bind].
    unfold sub_i64. rewrite chk_in by (unfold in_i64, in_range, i64_min, i64_max in *; lia). cbn [bind].
    replace (ts + match oo with Some (_, o) => o | None => 0 end - match oo with Some (_, o) => o | None => 0 end) with ts by lia.
    exact (Proofs.C12.write_n_spec 9 ts DNone false ltac:(lia)).
  - cbn [reads_b]. apply stamp_reads; assumption.
  - rewrite utf8_valid_app_ascii by apply pad_num_ascii. exact Hr.
Qed.

(** * "%s" *)
Import Model.Parsed.
Module S14 := V.Proofs.C14Stamp.

Definition STAMP_FMT : list Item := [INumeric N_Timestamp PadNone].
(* the value with its fraction and leap-second flag dropped: what a count of seconds can carry *)
Definition floor_ndt (v : Model.DateTime.ndt) : Model.DateTime.ndt :=
  Model.DateTime.mk_ndt (Model.DateTime.nd_date v) (Model.Time.mk_time (Model.Time.tsecs (Model.DateTime.nd_time v)) 0).

(* the segment and the field record the reader builds, for any formatter arguments carrying the value *)
Lemma stamp_seg a y o d t off :
  Model.Format.fa_date a = Some d -> Model.Format.fa_time a = Some t ->
  match Model.Format.fa_off a with Some (_, o) => o | None => 0 end = off ->
  Proofs.C08Sweeps.repr y o d -> 0 <= Model.Time.tsecs t < 86400 -> -86400 < off < 86400 ->
  Model.Format.write_items a STAMP_FMT [] = Model.Format.fok (stamp_text (S14.secs_at y o (Model.Time.tsecs t) - off)) /\
  parse parsed_new (stamp_text (S14.secs_at y o (Model.Time.tsecs t) - off)) STAMP_FMT =
    pok (S14.stamp_fields (S14.secs_at y o (Model.Time.tsecs t) - off) None None None).
Proof.
  intros Hd Ht Hoff H Hs Hob. set (ts := S14.secs_at y o (Model.Time.tsecs t) - off).
  pose proof (S14.secs_at_i64 y o d _ H Hs) as Hb.
  assert (S : seg_ok a STAMP_FMT [stamp_text ts] [W_code 20 ts] []).
  { apply (seg_cons a _ _ _ [] [] [] [] (seg_nil a [] eq_refl)). cbn [concat app].
    apply (item_stamp a d t ts [] Hd Ht); try reflexivity.
    - rewrite Hoff. rewrite (S14.dt_timestamp_val y o d t H Hs). f_equal. unfold ts. lia.
    - unfold ts, i64_max. lia. }
  destruct (seg_parse _ _ _ _ S) as [Hw Hp]. cbn [concat app] in Hw, Hp. rewrite app_nil_r in Hw, Hp.
  split; [exact Hw|]. rewrite Hp. reflexivity.
Qed.

Lemma floor_facts y o v : Proofs.C08Sweeps.repr y o (Model.DateTime.nd_date v) -> valid_time (Model.DateTime.nd_time v) ->
  Proofs.C08Sweeps.repr y o (Model.DateTime.nd_date (floor_ndt v)) /\
  Proofs.C04.time_ok (Model.DateTime.nd_time (floor_ndt v)) /\ S14.leap_on_59 (Model.DateTime.nd_time (floor_ndt v)) /\
  Model.DateTime.dt_timestamp (floor_ndt v) = Val (S14.secs_at y o (Model.Time.tsecs (Model.DateTime.nd_time v))) /\
  S14.second_field_ok None (Model.DateTime.nd_time (floor_ndt v)) /\ S14.nano_field_ok None (Model.DateTime.nd_time (floor_ndt v)).
Proof.
  intros H [Hs _]. unfold floor_ndt. cbn [Model.DateTime.nd_date Model.DateTime.nd_time].
  split; [exact H|]. split; [unfold Proofs.C04.time_ok; cbn [Model.Time.tsecs Model.Time.tfrac]; lia|].
  split; [unfold S14.leap_on_59; cbn [Model.Time.tfrac]; lia|].
  split; [exact (S14.dt_timestamp_val y o _ _ H Hs)|]. split; [left; reflexivity|reflexivity].
Qed.

(** NaiveDateTime: for EVERY supported date and time of day *)
Theorem ndt_stamp_roundtrip y o v :
  Proofs.C08Sweeps.repr y o (Model.DateTime.nd_date v) -> valid_time (Model.DateTime.nd_time v) ->
  exists text,
    Model.Format.write_items (Model.Format.fa_of_ndt v) STAMP_FMT [] = Model.Format.fok text /\
    (let+ p := parse parsed_new text STAMP_FMT in pr_of (to_naive_datetime_with_offset p 0)) = pok (floor_ndt v).
Proof.
  intros H Hvt. destruct (floor_facts y o v H Hvt) as (Hr & Hto & Hl & Hts & Hsec & Hnano).
  destruct v as [d t]. cbn [Model.DateTime.nd_date Model.DateTime.nd_time] in *.
  destruct (stamp_seg (Model.Format.fa_of_ndt (Model.DateTime.mk_ndt d t)) y o d t 0 eq_refl eq_refl eq_refl H (proj1 Hvt) ltac:(lia)) as [Hw Hp].
  rewrite Z.sub_0_r in Hw, Hp. eexists. split; [exact Hw|]. rewrite Hp. cbn [pbind bind pok].
  pose proof (S14.secs_at_i64 y o d _ H (proj1 Hvt)) as Hb.
  rewrite (S14.naive_datetime_of_stamp y o (floor_ndt (Model.DateTime.mk_ndt d t)) 0 _ None None None Hr Hto Hl); try assumption.
  - reflexivity.
  - rewrite Z.add_0_r. exact Hts.
  - unfold in_i64, in_range, i64_min, i64_max. lia.
  - intros x E. discriminate E.
Qed.

(** DateTime<Utc> *)
Theorem utc_stamp_roundtrip y o v :
  Proofs.C08Sweeps.repr y o (Model.DateTime.nd_date v) -> valid_time (Model.DateTime.nd_time v) ->
  exists a text,
    Model.Format.fa_of_utc v = Val a /\
    Model.Format.write_items a STAMP_FMT [] = Model.Format.fok text /\
    (let+ p := parse parsed_new text STAMP_FMT in pr_of (to_datetime p)) = pok (Model.DateTime.mk_dtz (floor_ndt v) 0).
Proof.
  intros H Hvt. destruct (floor_facts y o v H Hvt) as (Hr & Hto & Hl & Hts & Hsec & Hnano).
  assert (Hv : Proofs.C04.ndt_ok v).
  { split; [exact (Proofs.C04Date.nominal_of_repr _ _ _ H)|]. destruct Hvt as [Hs Hf]. unfold Proofs.C04.time_ok. lia. }
  destruct v as [d t]. cbn [Model.DateTime.nd_date Model.DateTime.nd_time] in *.
  exists (Model.Format.mk_fa (Some d) (Some t) (Some (Model.Format.utc_display, 0))).
  destruct (stamp_seg (Model.Format.mk_fa (Some d) (Some t) (Some (Model.Format.utc_display, 0))) y o d t 0
              eq_refl eq_refl eq_refl H (proj1 Hvt) ltac:(lia)) as [Hw Hp].
  rewrite Z.sub_0_r in Hw, Hp. eexists. split; [|split; [exact Hw|]].
  - unfold Model.Format.fa_of_utc. rewrite (S14.utc_local _ Hv). reflexivity.
  - rewrite Hp. cbn [pbind bind pok].
    destruct (S14.utc_datetime_of_stamp y o (floor_ndt (Model.DateTime.mk_ndt d t)) _ None None None Hr Hto Hl Hts Hsec Hnano
                (or_introl eq_refl)) as [E _].
    rewrite E. reflexivity.
Qed.

(** NaiveDateTime::parse_from_str(&v.format("%s").to_string(), "%s") and the same for DateTime<Utc> *)
Definition stamp_format : bytes := [37; 115].
Lemma stamp_format_items :
  Model.Strftime.sf_take (S (Model.Strftime.sf_bound stamp_format)) (Model.Strftime.sf_new stamp_format) [] = Val (Some STAMP_FMT) /\
  (List.length STAMP_FMT < S (Model.Strftime.sf_bound stamp_format))%nat.
Proof. split; [vm_compute; reflexivity|cbn; lia]. Qed.

Theorem ndt_stamp_parse_from_str y o v :
  Proofs.C08Sweeps.repr y o (Model.DateTime.nd_date v) -> valid_time (Model.DateTime.nd_time v) ->
  exists text,
    Model.Format.delayed_display (Model.Format.fa_of_ndt v) (Model.Strftime.sf_new stamp_format) = Model.Format.fok text /\
    ndt_parse_from_str text stamp_format = pok (floor_ndt v).
Proof.
  intros H Hvt. destruct (ndt_stamp_roundtrip y o v H Hvt) as (text & Hw & Hp).
  destruct stamp_format_items as [Htake Hlen].
  destruct (sf_lift stamp_format STAMP_FMT _ text Htake Hlen Hw) as [Hd Hps].
  exists text. split; [exact Hd|]. unfold ndt_parse_from_str. rewrite Hps. exact Hp.
Qed.

Theorem utc_stamp_parse_from_str y o v :
  Proofs.C08Sweeps.repr y o (Model.DateTime.nd_date v) -> valid_time (Model.DateTime.nd_time v) ->
  exists a text,
    Model.Format.fa_of_utc v = Val a /\
    Model.Format.delayed_display a (Model.Strftime.sf_new stamp_format) = Model.Format.fok text /\
    dt_parse_from_str text stamp_format = pok (Model.DateTime.mk_dtz (floor_ndt v) 0).
Proof.
  intros H Hvt. destruct (utc_stamp_roundtrip y o v H Hvt) as (a & text & Ha & Hw & Hp).
  destruct stamp_format_items as [Htake Hlen].
  destruct (sf_lift stamp_format STAMP_FMT _ text Htake Hlen Hw) as [Hd Hps].
  exists a, text. split; [exact Ha|]. split; [exact Hd|]. unfold dt_parse_from_str. rewrite Hps. exact Hp.
Qed.

Example stamp_roundtrip_inhabited :
  Proofs.C08Sweeps.repr 1969 365 (Proofs.C08Sweeps.mkdate 1969 365) /\ valid_time (Model.Time.mk_time 86399 0) /\
  Proofs.C08Sweeps.repr (-262143) 1 (Proofs.C08Sweeps.mkdate (-262143) 1) /\ valid_time (Model.Time.mk_time 0 0) /\
  stamp_text (-1) = [45; 49] /\
  ndt_parse_from_str [45; 49] stamp_format =
    pok (Model.DateTime.mk_ndt (Proofs.C08Sweeps.mkdate 1969 365) (Model.Time.mk_time 86399 0)).
Proof.
  split; [repeat split; reflexivity|]. split; [split; [cbn; lia|left; cbn; lia]|].
  split; [repeat split; reflexivity|]. split; [split; [cbn; lia|left; cbn; lia]|].
  split; [reflexivity|vm_compute; reflexivity].
Qed.
