(** C05, op lz.conv: the conversions into DateTime<Local> (From<DateTime<Utc>>, From<DateTime<FixedOffset>>,
    FromStr, From<SystemTime>) and out of it (into DateTime<Utc> / DateTime<FixedOffset>).
    Function level: every one of them keeps the naive UTC reading; the Local ones carry the offset
    Local.from_utc_datetime selects.  Dispatcher level: under the contract [lookup_ok] of Proofs/C05Ops.v the
    judge accepts the model's output on every batch.  The text step uses the Debug -> FromStr round trip of
    C09 (Proofs/C09Zoned.v), the SystemTime step the specification of C02 (Proofs/C02.v). *)
From Coq Require Import ZArith List Bool Lia ZifyBool String.
From V Require Import Base.Int Base.IO Spec.Gregorian Spec.Zone.
From V Require Import Model.TzParser Model.TzRule Model.TzLookup Model.C05.
From V Require Model.Date Model.Time Model.DateTime Model.C16 Model.Scan Model.Show Model.FromStr Model.C02.
From V Require Import Proofs.TzCommon Proofs.C05 Proofs.C05Composite Proofs.C05Glue Proofs.C05Judge Proofs.C05Holds
  Proofs.HoldsLib Proofs.C05Ops.
From V Require Proofs.C09Zoned Proofs.C09Time Proofs.C09Show Proofs.C08Sweeps.
Import ListNotations.
Open Scope Z_scope.
Ltac Zify.zify_post_hook ::= Z.to_euclidean_division_equations.

(** * Function level *)
(* all four Local-producing conversions are Local.from_utc_datetime of the source's naive UTC reading *)
Lemma conv_into_local z (src : DateTime.dtz) :
  local_from_utc z src = from_utc_datetime z (DateTime.dz_utc src) /\
  local_from_fixed z src = from_utc_datetime z (DateTime.dz_utc src).
Proof. split; reflexivity. Qed.
(* the two conversions out of Local keep the naive UTC reading; offset 0 / the Local value's own offset *)
Lemma conv_out_of_local (l : DateTime.dtz) :
  utc_from_local l = DateTime.mk_dtz (DateTime.dz_utc l) 0 /\
  fixed_from_local l = DateTime.mk_dtz (DateTime.dz_utc l) (DateTime.dz_off l).
Proof. split; reflexivity. Qed.
(* FromStr: an error of the DateTime<FixedOffset> parser is passed on, a parsed value is converted *)
Lemma local_from_str_spec z s :
  (forall e, FromStr.datetime_fixed_from_str s = Val (Scan.PErr e) -> local_from_str z s = Val (Scan.PErr e)) /\
  (forall dt l, FromStr.datetime_fixed_from_str s = Val (Scan.POk dt) ->
     from_utc_datetime z (DateTime.dz_utc dt) = Val l -> local_from_str z s = Val (Scan.POk l)).
Proof.
  split.
  - intros e H. unfold local_from_str. rewrite H. reflexivity.
  - intros dt l H Hl. unfold local_from_str, with_timezone_local. rewrite H. cbn [bind]. rewrite Hl. reflexivity.
Qed.
(* SystemTime: first to DateTime<Utc> (C02), then converted *)
Lemma local_from_systime_spec z before ds dn u l :
  C02.dt_from_systime before ds dn = Val u -> from_utc_datetime z (DateTime.dz_utc u) = Val l ->
  local_from_systime z before ds dn = Val l.
Proof. intros Hu Hl. unfold local_from_systime, with_timezone_local. rewrite Hu. cbn [bind]. exact Hl. Qed.

(** * Arguments: what the dispatcher's decoder gives *)
Lemma arg_secs_full x n : arg_secs (VInt x) = Some n ->
  P2.valid_ndt n /\ P2.secs_of n = x /\ P2.dfrac n = 0 /\ P4.ndt_ok n /\ wsecs n = x.
Proof.
  intros Ha. destruct (arg_secs_spec x n Ha) as [Hok Hw]. revert Ha.
  unfold arg_secs. destruct (in_i64 x) eqn:Hx; [|discriminate].
  destruct (P2D.u_from_timestamp_spec x 0 Hx eq_refl) as (r & Hr & Hs). rewrite Hr.
  destruct r as [a|]; [|discriminate]. intros E; injection E as <-.
  destruct Hs as (Hv & Hsec & Hf & _).
  split; [exact Hv|]. split; [exact Hsec|]. split; [exact Hf|]. split; assumption.
Qed.

Lemma conv_k_range x : -86400 < conv_k x < 86400 /\ conv_k x mod 60 = 0.
Proof. unfold conv_k. lia. Qed.

(* the DateTime<FixedOffset> source of the text is in C09's round-trip domain *)
Lemma conv_text_dom x n : P2.valid_ndt n -> P2.secs_of n = x -> P2.dfrac n = 0 -> J.ts_ok x = true ->
  Proofs.C09Zoned.dtz_dom (DateTime.mk_dtz n (conv_k x)).
Proof.
  intros (Hd & Hs & Hf) Hsec Hfr Hts. destruct (P2D.valid_date_repr _ Hd) as (yu & ou & Hr).
  destruct (P2D.repr_valid _ _ _ Hr) as [_ Hdn].
  exists yu, ou. cbn [DateTime.dz_utc DateTime.dz_off]. split; [exact Hr|].
  split.
  { split; [|left; unfold P2.dfrac in Hfr; lia].
    unfold Proofs.C09Show.tvalid. unfold P2.dsecs, P2.dfrac, P2.G in *. lia. }
  destruct (conv_k_range x) as [Hk Hm]. split; [exact Hk|]. split; [exact Hm|].
  unfold P2.secs_of, unix_secs in Hsec. rewrite Hdn in Hsec.
  unfold J.ts_ok, J.TS_MIN, J.TS_MAX in Hts. unfold dn_in_range, DN_MIN, DN_MAX. unfold EPOCH_DN in Hsec.
  unfold P2.dsecs in *. set (s := Model.Time.tsecs (DateTime.nd_time n)) in *. clearbody s.
  set (d := dn_of_yo yu ou) in *. clearbody d. set (k := conv_k x) in *. clearbody k.
  clear - Hs Hsec Hts Hk. lia.
Qed.

(** * The element *)
Lemma pair_of_val n o : P4.ndt_ok n -> pair_of (DateTime.mk_dtz n o) = Val (VTup [VInt o; VInt (wsecs n)]).
Proof. intros Hn. unfold pair_of. cbn [DateTime.dz_utc DateTime.dz_off]. rewrite (ts_wall n Hn). reflexivity. Qed.

Lemma conv_value zone n x o :
  arg_secs (VInt x) = Some n -> J.ts_ok x = true ->
  from_utc_datetime zone n = Val (DateTime.mk_dtz n o) ->
  op_conv zone n =
    VTup [VTup [VInt o; VInt x]; VTup [VInt o; VInt x]; VTup [VInt 0; VInt x]; VTup [VInt o; VInt x];
          VTup [VInt o; VInt x]; VTup [VInt o; VInt x]].
Proof.
  intros Ha Hts Hv. destruct (arg_secs_full x n Ha) as (Hvn & Hsec & Hfr & Hn & Hw).
  unfold op_conv. rewrite (ts_wall n Hn), Hw. cbn [bind].
  unfold local_from_utc, local_from_fixed, with_timezone_local, DateTime.with_timezone, DateTime.from_utc_datetime.
  cbn [DateTime.dz_utc]. rewrite Hv. cbn [bind]. rewrite (pair_of_val n o Hn), Hw. cbn [bind].
  unfold utc_from_local, fixed_from_local, DateTime.with_timezone, DateTime.from_utc_datetime.
  cbn [DateTime.dz_utc DateTime.dz_off]. rewrite (pair_of_val n 0 Hn), (pair_of_val n o Hn), Hw. cbn [bind].
  (* the text *)
  destruct (proj1 (Proofs.C09Zoned.dtz_fixed_roundtrip _ (conv_text_dom x n Hvn Hsec Hfr Hts))) as (s & Es & Ep).
  rewrite Es. cbn [bind].
  rewrite (proj2 (local_from_str_spec zone s) _ _ Ep Hv). cbn [bind]. rewrite (pair_of_val n o Hn), Hw. cbn [bind].
  (* the SystemTime *)
  assert (Hsys : C02.dt_from_systime (x <? 0) (Z.abs x) 0 = Val (DateTime.mk_dtz n 0)).
  { assert (Hr : NS_MIN <= P2.sys_ns (x <? 0) (Z.abs x) 0 <= NS_MAX /\ P2.sys_ns (x <? 0) (Z.abs x) 0 = x * P2.G).
    { unfold P2.sys_ns, P2.G. unfold J.ts_ok, J.TS_MIN, J.TS_MAX in Hts.
      unfold NS_MIN, NS_MAX.
      destruct (x <? 0) eqn:E; lia. }
    destruct Hr as [Hr Ht].
    assert (Hds : 0 <= Z.abs x <= i64_max).
    { unfold J.ts_ok, J.TS_MIN, J.TS_MAX in Hts. unfold i64_max. lia. }
    destruct (proj1 (P2D.u_from_systime_spec (x <? 0) (Z.abs x) 0 Hds ltac:(unfold P2.G; lia)) Hr)
      as (a & Ea & Hva & Hla & Hia).
    rewrite Ea. f_equal. f_equal. apply P2D.u_instant_inj; try assumption.
    - unfold P2.nonleap. rewrite Hfr. unfold P2.G. lia.
    - rewrite Hia, Ht. rewrite P2.instant_secs, Hsec, Hfr. lia. }
  rewrite (local_from_systime_spec zone _ _ _ _ _ Hsys Hv). cbn [bind]. rewrite (pair_of_val n o Hn), Hw.
  reflexivity.
Qed.

Lemma el_conv zone sz x n : lookup_ok zone sz -> arg_secs (VInt x) = Some n -> at_spaced sz x = true ->
  ev_fine (J.j_conv sz x (op_conv zone n)).
Proof.
  intros L Ha Hsp. destruct (arg_secs_spec x n Ha) as [Hn Hw].
  unfold J.j_conv. destruct (J.in_dom sz x) eqn:Hd; cbn [negb]; [|exact I].
  destruct (zone_off sz x) as [o|] eqn:Ho; [|exact I].
  destruct (J.fo_ok o) eqn:Hf; cbn [negb]; [|exact I].
  destruct (lk_at zone sz L x o Hsp Hd Ho) as (lt & Hlt & Ho'). rewrite <- Hw in Hlt.
  apply fo_ok_off in Hf. rewrite <- Ho' in Hf.
  destruct (proj1 (from_utc_values zone n lt Hn Hlt) Hf) as [Hv _]. rewrite Ho' in Hv.
  rewrite (conv_value zone n x o Ha (in_dom_ts _ _ Hd) Hv). cbv zeta. rewrite hl_val_eqb_refl. exact I.
Qed.

(** * The dispatcher *)
Lemma run_conv b zm xs : run B"lz.conv" [VStr b; zm; xs] = batch (VStr b) xs op_conv.
Proof. unfold run. opis. destruct xs; reflexivity. Qed.
Lemma judge_conv src zm xs sz out : J.dec_zone src zm = Some sz ->
  J.judge B"lz.conv" [src; zm; xs] out =
  match z_rule sz with
  | Some (inr a) => J.batch (fun t o => if J.spacing_rule_self a (utc_year t) then J.j_conv sz t o else J.ESkip) xs out
  | _ => J.batch (J.j_conv sz) xs out
  end.
Proof. intros H. unfold J.judge. destruct xs; rewrite H; opis; reflexivity. Qed.

Theorem holds_conv b zm xs zone sz :
  lookup_ok zone sz -> parse b = Val (Ok zone) -> J.dec_zone (VStr b) zm = Some sz ->
  J.judge B"lz.conv" [VStr b; zm; xs] (run B"lz.conv" [VStr b; zm; xs]) <> JSkip ->
  J.judge B"lz.conv" [VStr b; zm; xs] (run B"lz.conv" [VStr b; zm; xs]) = JOk.
Proof.
  intros L Hz Hd.
  assert (Hb : zone_of_src (VStr b) = Some (Val (Ok zone))) by (cbn [zone_of_src]; rewrite Hz; reflexivity).
  rewrite run_conv, (judge_conv _ _ _ sz _ Hd).
  destruct (z_rule sz) as [[o|a]|] eqn:Er.
  - apply (batch_holds _ _ zone); [exact Hb|]. intros x n Hx Ha. apply (el_conv zone sz x n L Ha).
    unfold at_spaced. rewrite Er. reflexivity.
  - apply (batch_holds _ _ zone); [exact Hb|]. intros x n Hx Ha.
    destruct (J.spacing_rule_self a (utc_year x)) eqn:Es; [|exact I].
    apply (el_conv zone sz x n L Ha). unfold at_spaced. rewrite Er. exact Es.
  - apply (batch_holds _ _ zone); [exact Hb|]. intros x n Hx Ha. apply (el_conv zone sz x n L Ha).
    unfold at_spaced. rewrite Er. reflexivity.
Qed.
