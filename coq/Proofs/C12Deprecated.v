(** C12, the deprecated free functions chrono::format::format / chrono::format::format_item (ops sf.dfmt /
    sf.dfmti): both are [DelayedFormat { .. }.fmt(w)]; the text is the one `format_with_items` gives on the
    same items, item by item as well as in one call; hence the judge accepts the model's output of both ops
    for every kind, every value and every format string. *)
From Coq Require Import ZArith List Bool Lia ZifyBool String.
From V Require Import Base.Int Base.IO Base.IntLemmas Base.Lift Spec.Gregorian Spec.StrftimeDoc
  Model.Items Gen.Strftime Gen.Locales Model.Strftime Model.Format Model.C12 Judge.C12
  Proofs.C12 Proofs.C12Str Proofs.C12Tok Proofs.C12Fam Proofs.C12View Proofs.C12All Proofs.C12Judge.
From V Require Model.Date Model.Time Model.DateTime.
Import ListNotations.
Open Scope Z_scope.

Lemma fseq_fok x : fseq x fok = x.
Proof. destruct x as [[s|]| |]; reflexivity. Qed.

(* format_item(w, date, time, off, item) writes what the formatter writes for that item *)
Theorem format_item_fn_eq a it : format_item_fn a it = format_item a it.
Proof. unfold format_item_fn. cbn [write_items app]. exact (fseq_fok _). Qed.

(* format(w, date, time, off, items) is Display of the DelayedFormat over the same items *)
Theorem format_fn_eq a st : format_fn a st = delayed_display a st.
Proof. reflexivity. Qed.

(* one format_item call per item, concatenated = one pass of DelayedFormat::write_to *)
Lemma per_item_eq fuel : forall a st acc, per_item fuel a st acc = write_to fuel a st acc.
Proof.
  induction fuel as [|fuel IH]; intros a st acc; cbn [per_item write_to]; [reflexivity|].
  destruct (sf_next st) as [[o st']| |]; cbn [bind]; try reflexivity.
  destruct o as [it|]; [|reflexivity]. rewrite format_item_fn_eq. unfold fseq.
  destruct (format_item a it) as [[s|]| |]; cbn [bind]; try reflexivity. apply IH.
Qed.
Theorem per_item_display_eq a st : per_item_display a st = delayed_display a st.
Proof. unfold per_item_display, delayed_display. apply per_item_eq. Qed.

(** the ops *)
Theorem run_dfmti_eq kind v f : run_dfmt true kind v f = run_dfmt false kind v f.
Proof.
  unfold run_dfmt. destruct (wall_ok kind v); [|reflexivity].
  destruct (dec_value kind v) as [ra|]; [|reflexivity].
  destruct ra as [a| |]; cbn [bind]; try reflexivity. rewrite per_item_display_eq. reflexivity.
Qed.
Theorem run_dfmt_eq kind v f :
  run_dfmt false kind v f = if wall_ok kind v then run_fmt false kind v f else VBad.
Proof. unfold run_dfmt, run_fmt, format_fn. destruct (wall_ok kind v); reflexivity. Qed.

Lemma judge_dfmt_ok per kind v fmt : utf8_valid fmt = true ->
  accepted (match run_dfmt per kind v fmt with
            | VErr e => if bytes_eqb e B"BADARGS" then JSkip else judge_fmt false kind v fmt (run_dfmt per kind v fmt)
            | _ => judge_fmt false kind v fmt (run_dfmt per kind v fmt)
            end).
Proof.
  intros Hv.
  assert (E : run_dfmt per kind v fmt = if wall_ok kind v then run_fmt false kind v fmt else VBad).
  { destruct per; [rewrite run_dfmti_eq|]; apply run_dfmt_eq. }
  rewrite E. destruct (wall_ok kind v); [|exact I].
  pose proof (judge_fmt_ok false kind v fmt Hv) as H.
  destruct (run_fmt false kind v fmt) as [| | | | |e| | |]; try exact H.
  destruct (bytes_eqb e B"BADARGS"); [exact I|exact H].
Qed.

Theorem holds_dfmt_any : forall kind v fmt,
  accepted (judge (bytes_of_string "sf.dfmt") [VInt kind; v; VStr fmt]
                  (run (bytes_of_string "sf.dfmt") [VInt kind; v; VStr fmt])).
Proof.
  intros kind v fmt.
  change (judge (bytes_of_string "sf.dfmt") [VInt kind; v; VStr fmt])
    with (fun out => if utf8_ok fmt then
                       match out with
                       | VErr e => if bytes_eqb e B"BADARGS" then JSkip else judge_fmt false kind v fmt out
                       | _ => judge_fmt false kind v fmt out
                       end else JSkip).
  change (run (bytes_of_string "sf.dfmt") [VInt kind; v; VStr fmt])
    with (if utf8_valid fmt then run_dfmt false kind v fmt else VBad).
  cbv beta. rewrite (utf8_ok_valid fmt). destruct (utf8_valid fmt) eqn:Hv; [|exact I].
  exact (judge_dfmt_ok false kind v fmt Hv).
Qed.
Theorem holds_dfmti_any : forall kind v fmt,
  accepted (judge (bytes_of_string "sf.dfmti") [VInt kind; v; VStr fmt]
                  (run (bytes_of_string "sf.dfmti") [VInt kind; v; VStr fmt])).
Proof.
  intros kind v fmt.
  change (judge (bytes_of_string "sf.dfmti") [VInt kind; v; VStr fmt])
    with (fun out => if utf8_ok fmt then
                       match out with
                       | VErr e => if bytes_eqb e B"BADARGS" then JSkip else judge_fmt false kind v fmt out
                       | _ => judge_fmt false kind v fmt out
                       end else JSkip).
  change (run (bytes_of_string "sf.dfmti") [VInt kind; v; VStr fmt])
    with (if utf8_valid fmt then run_dfmt true kind v fmt else VBad).
  cbv beta. rewrite (utf8_ok_valid fmt). destruct (utf8_valid fmt) eqn:Hv; [|exact I].
  exact (judge_dfmt_ok true kind v fmt Hv).
Qed.

(* inhabited: a date-time with offset through both routes *)
Lemma dfmt_example :
  run (bytes_of_string "sf.dfmt") [VInt 3; VTup [VInt 2001; VInt 189; VInt 2094; VInt 26490000; VInt 34200]; VStr (bytes_of_string "%Y-%m-%dT%H:%M:%S%.3f%:z")]
    = VStr (bytes_of_string "2001-07-08T10:04:54.026+09:30") /\
  run (bytes_of_string "sf.dfmti") [VInt 3; VTup [VInt 2001; VInt 189; VInt 2094; VInt 26490000; VInt 34200]; VStr (bytes_of_string "%Y-%m-%dT%H:%M:%S%.3f%:z")]
    = VStr (bytes_of_string "2001-07-08T10:04:54.026+09:30") /\
  run (bytes_of_string "sf.dfmt") [VInt 3; VTup [VInt 262142; VInt 365; VInt 86399; VInt 0; VInt 1]; VStr (bytes_of_string "%Y")] = VBad.
Proof. vm_compute. repeat split; reflexivity. Qed.
