(** C02 — (1) the constants: UNIX_EPOCH is the instant 0, MIN_UTC / MAX_UTC (NaiveDateTime::MIN / MAX)
    are the first and last instants of the supported range; (2) [C02_holds]: on EVERY case line of
    the judge's domain (all 28 ops of the dispatcher) the judge of Judge/C02.v accepts the model's
    output.  Unconditional (the calendar facts are discharged in Proofs/C02Date.v). *)
From Coq Require Import String ZArith List Bool Lia ZifyBool.
From V Require Import Base.Int Base.IO Base.IntLemmas Spec.Gregorian Model.TimeDelta.
From V Require Import Gen.DateTimeConsts Gen.TsConsts Gen.TimeDelta.
From V Require Model.Date Model.Time Judge.C02.
From V Require Import Model.DateTime Model.C02 Proofs.C02 Proofs.C02Holds Proofs.C02Date.
From V Require Proofs.C01Holds.
Import ListNotations.
Open Scope Z_scope.
Ltac Zify.zify_post_hook ::= Z.to_euclidean_division_equations.

Notation DF := date_facts_hold.
Notation FF := fields_hold.

(** * 1. The constants *)
Definition D_EPOCH : Z := Eval vm_compute in
  match Date.from_ymd_opt 1970 1 1 with Val (Some d) => d | _ => 0 end.
Definition NDT_EPOCH : ndt := mk_ndt D_EPOCH T_MIN.

Lemma valid_EPOCH : valid_ndt NDT_EPOCH /\ nonleap NDT_EPOCH.
Proof.
  split; [split|].
  - exists 1970, 1. repeat split; vm_compute; reflexivity.
  - vm_compute. repeat split; discriminate.
  - vm_compute. reflexivity.
Qed.
Lemma valid_MIN : valid_ndt NDT_MIN /\ nonleap NDT_MIN.
Proof.
  split; [split|].
  - exists (-262143), 1. repeat split; vm_compute; reflexivity.
  - vm_compute. repeat split; discriminate.
  - vm_compute. reflexivity.
Qed.
Lemma valid_MAX : valid_ndt NDT_MAX /\ nonleap NDT_MAX.
Proof.
  split; [split|].
  - exists 262142, 365. repeat split; vm_compute; reflexivity.
  - vm_compute. repeat split; discriminate.
  - vm_compute. reflexivity.
Qed.

Lemma consts_spec :
  Date.from_ymd_opt 1970 1 1 = Val (Some D_EPOCH) /\
  (valid_ndt NDT_EPOCH /\ nonleap NDT_EPOCH /\ instant NDT_EPOCH = 0 /\ dt_timestamp NDT_EPOCH = Val 0) /\
  (valid_ndt NDT_MIN /\ nonleap NDT_MIN /\ instant NDT_MIN = NS_MIN /\ dt_timestamp NDT_MIN = Val SEC_MIN) /\
  (valid_ndt NDT_MAX /\ nonleap NDT_MAX /\ instant NDT_MAX = NS_MAX /\ dt_timestamp NDT_MAX = Val SEC_MAX).
Proof.
  split; [vm_compute; reflexivity|].
  split; [|split].
  - split; [exact (proj1 valid_EPOCH)|]. split; [exact (proj2 valid_EPOCH)|]. split; vm_compute; reflexivity.
  - split; [exact (proj1 valid_MIN)|]. split; [exact (proj2 valid_MIN)|]. split; vm_compute; reflexivity.
  - split; [exact (proj1 valid_MAX)|]. split; [exact (proj2 valid_MAX)|]. split; vm_compute; reflexivity.
Qed.

(** MIN and MAX are the extreme values: every valid date-time lies between them on the time axis
    (seconds for every value, instants for the non-leap ones; a leap-second value on the last second
    is the only representable reading above MAX's instant and is excluded by [nonleap]) *)
Lemma consts_extreme a : valid_ndt a ->
  secs_of NDT_MIN <= secs_of a <= secs_of NDT_MAX /\
  (nonleap a -> instant NDT_MIN <= instant a <= instant NDT_MAX).
Proof.
  intros Hv. split.
  - pose proof (secs_of_range DF a Hv) as H. change (secs_of NDT_MIN) with SEC_MIN.
    change (secs_of NDT_MAX) with SEC_MAX. exact H.
  - intros Hl. pose proof (nonleap_instant_range DF a Hv Hl) as H.
    change (instant NDT_MIN) with NS_MIN. change (instant NDT_MAX) with NS_MAX. exact H.
Qed.

(** the value of the [ts.consts] observation *)
Lemma ts_consts_val :
  ts_consts = Val (VTup [enc_dtz (mk_dtz NDT_EPOCH 0); VInt 0; enc_ndt NDT_EPOCH;
                         enc_dtz (mk_dtz NDT_MIN 0); enc_dtz (mk_dtz NDT_MAX 0);
                         enc_ndt NDT_MIN; enc_ndt NDT_MAX; VInt SEC_MIN; VInt SEC_MAX]).
Proof. vm_compute. reflexivity. Qed.

Lemma holds_consts : Judge.C02.judge B"ts.consts" [] (run B"ts.consts" []) = JOk.
Proof. vm_compute. reflexivity. Qed.

(** the [Default] impls: each is the epoch (its date / its time / the whole), offset 0 on the zoned ones *)
Lemma defaults_spec :
  date_default = Val D_EPOCH /\ time_default = Val T_MIN /\ ndt_default = Val NDT_EPOCH /\
  dtz_default_utc = Val (mk_dtz NDT_EPOCH 0) /\ dtz_default_fixed = Val (mk_dtz NDT_EPOCH 0).
Proof. vm_compute. repeat split; reflexivity. Qed.
Lemma ts_defaults_val :
  ts_defaults = Val (VTup [enc_date D_EPOCH; Time.enc_time T_MIN; enc_ndt NDT_EPOCH;
                           enc_dtz (mk_dtz NDT_EPOCH 0); enc_dtz (mk_dtz NDT_EPOCH 0); VInt 0; VInt 0]).
Proof. vm_compute. reflexivity. Qed.
Lemma holds_defaults : Judge.C02.judge B"ts.defaults" [] (run B"ts.defaults" []) = JOk.
Proof. vm_compute. reflexivity. Qed.

(** * 2. Bridges between the judge's and the model's reading of an argument *)
Lemma east_opt_ok o : Judge.C02.off_ok o = true -> east_opt o = Some o.
Proof. unfold Judge.C02.off_ok, east_opt, FO_EAST_LO, FO_EAST_HI. intros ->. reflexivity. Qed.

Lemma dec_dt_inv l x : Judge.C02.dec_dt l = Some x ->
  exists y o s f, l = [VInt y; VInt o; VInt s; VInt f].
Proof.
  unfold Judge.C02.dec_dt.
  destruct l as [|[y| | | | | | | |] l]; try discriminate.
  destruct l as [|[o| | | | | | | |] l]; try discriminate.
  destruct l as [|[s| | | | | | | |] l]; try discriminate.
  destruct l as [|[f| | | | | | | |] l]; try discriminate.
  destruct l; try discriminate. intros _. exists y, o, s, f. reflexivity.
Qed.

Definition ndt_of (y o s f : Z) : ndt := mk_ndt (C08Sweeps.mkdate y o) (Time.mk_time s f).

Lemma dec_dt_model y o s f x : Judge.C02.dec_dt [VInt y; VInt o; VInt s; VInt f] = Some x ->
  let a := ndt_of y o s f in
  x = (date_dn (nd_date a), s, f) /\ valid_ndt a /\ dsecs a = s /\ dfrac a = f /\
  dec_ndt (VTup [VInt y; VInt o; VInt s; VInt f]) = Some a /\
  enc_ndt a = VTup [VInt y; VInt o; VInt s; VInt f].
Proof.
  unfold Judge.C02.dec_dt, Judge.C02.G.
  destruct (year_in_range y && valid_yo y o && (0 <=? s) && (s <? 86400) && (0 <=? f) && (f <? 2 * 1000000000)) eqn:E;
    [|discriminate].
  intros [= <-]. cbv zeta.
  do 5 (apply andb_prop in E; destruct E as [E ?]). rename E into Hy. assert (Ho : valid_yo y o = true) by assumption.
  assert (Hr : C08Sweeps.repr y o (C08Sweeps.mkdate y o)) by (repeat split; assumption).
  destruct (repr_fields y o _ Hr) as (E1 & E2 & Iy & Io & Hf).
  destruct (repr_valid y o _ Hr) as [Hvd Hdn].
  unfold ndt_of. cbn [nd_date nd_time]. unfold dsecs, dfrac. cbn [nd_time Time.tsecs Time.tfrac].
  split; [rewrite Hdn; reflexivity|].
  split; [split; [exact Hvd|]; unfold dsecs, dfrac, G; cbn [nd_time Time.tsecs Time.tfrac]; lia|].
  split; [reflexivity|]. split; [reflexivity|]. split.
  - unfold dec_ndt, dec_date. rewrite Iy, Io, Hf. cbn [andb]. unfold Time.dec_time.
    replace ((0 <=? s) && (s <? 86400) && (0 <=? f) && (f <? 2000000000)) with true by lia. reflexivity.
  - unfold enc_ndt. cbn [nd_date nd_time Time.tsecs Time.tfrac]. rewrite E1, E2. reflexivity.
Qed.

(** * 3. Constructors: the four ways of reporting success / refusal *)
Definition enc_kind (k : Judge.C02.kind) (r : option ndt) : val :=
  match k with
  | Judge.C02.KOpt => vo_ndt r
  | Judge.C02.KPanic => match r with Some a => enc_ndt a | None => VPanic end
  | Judge.C02.KMlt off => v_mlt (lift_off off r)
  | Judge.C02.KDtz off => match r with Some a => enc_dtz (mk_dtz a off) | None => VPanic end
  end.

Lemma enc_kind_not_bad k r : Judge.C02.is_badargs (enc_kind k r) = false.
Proof. destruct k, r; reflexivity. Qed.

Lemma dec_enc4 a : valid_ndt a ->
  Judge.C02.dec_dt [VInt (Date.d_year (nd_date a)); VInt (Date.d_ordinal (nd_date a));
                    VInt (Time.tsecs (nd_time a)); VInt (Time.tfrac (nd_time a))]
  = Some (date_dn (nd_date a), dsecs a, dfrac a).
Proof. intros Hv. exact (dec_enc FF a Hv). Qed.

Lemma ctor_kind_ok k should right (r : option ndt) :
  match r with
  | Some a => valid_ndt a /\ should = true /\ right (date_dn (nd_date a), dsecs a, dfrac a) = true
  | None => should = false
  end ->
  Judge.C02.judge_ctor k should right (enc_kind k r) = JOk.
Proof.
  destruct r as [a|]; intros H.
  - destruct H as [Hv [Hs Hr]]. pose proof (dec_enc4 a Hv) as Hd.
    destruct k; unfold enc_kind, vo_ndt, v_mlt, lift_off, enc_mlt, val_of_option, enc_ndt, enc_dtz,
      Judge.C02.judge_ctor, Judge.C02.payload; cbn [dz_utc dz_off];
      rewrite ?Z.eqb_refl, Hs, Hd, Hr; reflexivity.
  - destruct k; unfold enc_kind, vo_ndt, v_mlt, lift_off, enc_mlt, val_of_option,
      Judge.C02.judge_ctor, Judge.C02.payload; rewrite H; reflexivity.
Qed.

(** seconds + nanosecond field *)
Lemma from_kind_ok k secs nsecs r : in_i64 secs = true -> in_u32 nsecs = true ->
  dt_from_timestamp secs nsecs = Val r ->
  Judge.C02.judge_ctor k (Judge.C02.accept secs nsecs) (Judge.C02.right_secs secs nsecs) (enc_kind k r) = JOk.
Proof.
  intros Hs Hn Hr. destruct (from_timestamp_spec DF secs nsecs Hs Hn) as [r' [Hr' Hspec]].
  rewrite Hr in Hr'. injection Hr' as <-.
  assert (Hn0 : 0 <= nsecs) by (ranges; lia).
  apply ctor_kind_ok. destruct r as [a|].
  - destruct Hspec as [Hv [Hsec [Hf Hns]]]. split; [exact Hv|]. split.
    + apply (accept_iff secs nsecs Hn0). split; [|exact Hns]. rewrite <- Hsec. apply (secs_of_range DF); assumption.
    + unfold Judge.C02.right_secs. fold (secs_of a). rewrite Hsec, Hf. rewrite !Z.eqb_refl. reflexivity.
  - destruct (Judge.C02.accept secs nsecs) eqn:E; [|reflexivity]. exfalso. apply Hspec.
    apply (accept_iff secs nsecs Hn0). exact E.
Qed.

(** a count of [unit] nanoseconds each *)
Lemma unit_kind_ok k t r :
  match r with
  | Some a => valid_ndt a /\ nonleap a /\ instant a = t
  | None => ~ (NS_MIN <= t <= NS_MAX)
  end ->
  Judge.C02.judge_ctor k (Judge.C02.ns_in_range t) (Judge.C02.right_ns t) (enc_kind k r) = JOk.
Proof.
  intros Hspec. apply ctor_kind_ok. destruct r as [a|].
  - destruct Hspec as [Hv [Hl Hi]]. split; [exact Hv|]. split.
    + apply ns_in_range_iff. rewrite <- Hi. apply (nonleap_instant_range DF); assumption.
    + apply right_ns_ok; assumption.
  - destruct (Judge.C02.ns_in_range t) eqn:E; [|reflexivity]. exfalso. apply Hspec. apply ns_in_range_iff. exact E.
Qed.

(** the model's outputs are these encodings *)
Lemma out_opt r : val_of_R vo_ndt (Val r) = enc_kind Judge.C02.KOpt r.
Proof. reflexivity. Qed.
Lemma out_panic r : val_of_R enc_ndt (unwrap_r (Val r)) = enc_kind Judge.C02.KPanic r.
Proof. destruct r; reflexivity. Qed.
Lemma out_mlt off r : val_of_R v_mlt (rmap (lift_off off) (Val r)) = enc_kind (Judge.C02.KMlt off) r.
Proof. reflexivity. Qed.
Lemma out_dtz off r : val_of_R enc_dtz (rmap (fun u => mk_dtz u off) (unwrap_r (Val r))) = enc_kind (Judge.C02.KDtz off) r.
Proof. destruct r; reflexivity. Qed.

(** * 4. Argument shapes *)
Definition m_i64_u32 (args : list val) (f : Z -> Z -> val) : val :=
  match args with
  | [a; b] => match arg_i64 a, arg_u32 b with Some s, Some n => f s n | _, _ => VBad end
  | _ => VBad end.
Definition m_i64_1 (args : list val) (f : Z -> val) : val :=
  match args with [a] => match arg_i64 a with Some z => f z | None => VBad end | _ => VBad end.
Definition m_ndt_1 (args : list val) (f : ndt -> val) : val :=
  match args with [a] => match dec_ndt a with Some d => f d | None => VBad end | _ => VBad end.
Definition m_off_i64 (args : list val) (f : Z -> Z -> val) : val :=
  match args with
  | [VInt o; b] => match east_opt o, arg_i64 b with Some _, Some z => f o z | _, _ => VBad end
  | _ => VBad end.
Definition m_off_i64_u32 (args : list val) (f : Z -> Z -> Z -> val) : val :=
  match args with
  | [VInt o; b; c] => match east_opt o, arg_i64 b, arg_u32 c with Some _, Some z, Some n => f o z n | _, _, _ => VBad end
  | _ => VBad end.
Definition j_two (args : list val) (out : val) (f : val -> val -> val -> verdict) : verdict :=
  match args with [a; b] => f a b out | _ => JSkip end.
Definition j_one (args : list val) (out : val) (f : val -> val -> verdict) : verdict :=
  match args with [a] => f a out | _ => JSkip end.
Definition j_off2 (args : list val) (out : val) (f : Z -> val -> val -> verdict) : verdict :=
  match args with [VInt o; a] => if Judge.C02.off_ok o then f o a out else JSkip | _ => JSkip end.
Definition j_off3 (args : list val) (out : val) (f : Z -> val -> val -> val -> verdict) : verdict :=
  match args with [VInt o; a; b] => if Judge.C02.off_ok o then f o a b out else JSkip | _ => JSkip end.

Lemma two_from_holds k (f : Z -> Z -> val) args :
  (forall s n, in_i64 s = true -> in_u32 n = true ->
     exists r, dt_from_timestamp s n = Val r /\ f s n = enc_kind k r) ->
  j_two args (m_i64_u32 args f) (Judge.C02.j_from k) <> JSkip ->
  j_two args (m_i64_u32 args f) (Judge.C02.j_from k) = JOk.
Proof.
  intros Hf. unfold j_two, m_i64_u32.
  destruct args as [|a [|b [|c r]]]; try congruence.
  unfold Judge.C02.j_from. destruct a as [secs| | | | | | | |]; try congruence.
  destruct b as [nsecs| | | | | | | |]; try congruence.
  destruct (in_i64 secs && in_u32 nsecs) eqn:E; [|congruence]. intros _.
  apply andb_prop in E. destruct E as [E1 E2].
  unfold arg_i64, arg_u32. rewrite E1, E2.
  destruct (Hf secs nsecs E1 E2) as [r0 [Hr Hout]]. rewrite Hout. apply from_kind_ok; assumption.
Qed.

Lemma off3_from_holds (kf : Z -> Judge.C02.kind) (f : Z -> Z -> Z -> val) args :
  (forall o s n, in_i64 s = true -> in_u32 n = true ->
     exists r, dt_from_timestamp s n = Val r /\ f o s n = enc_kind (kf o) r) ->
  j_off3 args (m_off_i64_u32 args f) (fun o => Judge.C02.j_from (kf o)) <> JSkip ->
  j_off3 args (m_off_i64_u32 args f) (fun o => Judge.C02.j_from (kf o)) = JOk.
Proof.
  intros Hf. unfold j_off3, m_off_i64_u32.
  destruct args as [|[o| | | | | | | |] [|a [|b [|c r]]]]; try congruence.
  destruct (Judge.C02.off_ok o) eqn:Eo; [|congruence].
  unfold Judge.C02.j_from. destruct a as [secs| | | | | | | |]; try congruence.
  destruct b as [nsecs| | | | | | | |]; try congruence.
  destruct (in_i64 secs && in_u32 nsecs) eqn:E; [|congruence]. intros _.
  apply andb_prop in E. destruct E as [E1 E2].
  rewrite (east_opt_ok o Eo). unfold arg_i64, arg_u32. rewrite E1, E2.
  destruct (Hf o secs nsecs E1 E2) as [r0 [Hr Hout]]. rewrite Hout. apply from_kind_ok; assumption.
Qed.

Lemma one_unit_holds k unit (f : Z -> val) args :
  (forall x, in_i64 x = true ->
     exists r, f x = enc_kind k r /\
       match r with
       | Some a => valid_ndt a /\ nonleap a /\ instant a = x * unit
       | None => ~ (NS_MIN <= x * unit <= NS_MAX)
       end) ->
  j_one args (m_i64_1 args f) (Judge.C02.j_unit k unit) <> JSkip ->
  j_one args (m_i64_1 args f) (Judge.C02.j_unit k unit) = JOk.
Proof.
  intros Hf. unfold j_one, m_i64_1.
  destruct args as [|a [|b r]]; try congruence.
  unfold Judge.C02.j_unit. destruct a as [x| | | | | | | |]; try congruence.
  destruct (in_i64 x) eqn:E; [|congruence]. intros _.
  unfold arg_i64. rewrite E.
  destruct (Hf x E) as [r0 [Hout Hspec]]. rewrite Hout. apply unit_kind_ok. exact Hspec.
Qed.

Lemma off2_unit_holds (kf : Z -> Judge.C02.kind) unit (f : Z -> Z -> val) args :
  (forall o x, in_i64 x = true ->
     exists r, f o x = enc_kind (kf o) r /\
       match r with
       | Some a => valid_ndt a /\ nonleap a /\ instant a = x * unit
       | None => ~ (NS_MIN <= x * unit <= NS_MAX)
       end) ->
  j_off2 args (m_off_i64 args f) (fun o => Judge.C02.j_unit (kf o) unit) <> JSkip ->
  j_off2 args (m_off_i64 args f) (fun o => Judge.C02.j_unit (kf o) unit) = JOk.
Proof.
  intros Hf. unfold j_off2, m_off_i64.
  destruct args as [|[o| | | | | | | |] [|a [|b r]]]; try congruence.
  destruct (Judge.C02.off_ok o) eqn:Eo; [|congruence].
  unfold Judge.C02.j_unit. destruct a as [x| | | | | | | |]; try congruence.
  destruct (in_i64 x) eqn:E; [|congruence]. intros _.
  rewrite (east_opt_ok o Eo). unfold arg_i64. rewrite E.
  destruct (Hf o x E) as [r0 [Hout Hspec]]. rewrite Hout. apply unit_kind_ok. exact Hspec.
Qed.

(** the unit constructors as specifications over [option ndt] *)
Lemma millis_r x : in_i64 x = true -> exists r, dt_from_timestamp_millis x = Val r /\
  match r with Some a => valid_ndt a /\ nonleap a /\ instant a = x * 1000000 | None => ~ (NS_MIN <= x * 1000000 <= NS_MAX) end.
Proof. exact (from_timestamp_millis_spec DF x). Qed.
Lemma micros_r x : in_i64 x = true -> exists r, dt_from_timestamp_micros x = Val r /\
  match r with Some a => valid_ndt a /\ nonleap a /\ instant a = x * 1000 | None => ~ (NS_MIN <= x * 1000 <= NS_MAX) end.
Proof. exact (from_timestamp_micros_spec DF x). Qed.
Lemma nanos_r x : in_i64 x = true -> exists a, dt_from_timestamp_nanos x = Val a /\
  valid_ndt a /\ nonleap a /\ instant a = x * 1.
Proof.
  intros Hx. destruct (from_timestamp_nanos_spec DF x Hx) as [a [Ha [Hv [Hl Hi]]]].
  exists a. rewrite Z.mul_1_r. auto.
Qed.

(** * 5. Accessors *)
Lemma nanos_opt_total a : valid_ndt a -> exists r, dt_timestamp_nanos_opt a = Val r.
Proof.
  intros Hv. pose proof (secs_of_range DF a Hv) as Hr.
  unfold dt_timestamp_nanos_opt. rewrite (timestamp_spec DF) by assumption. rewrite bind_val.
  destruct Hv as [Hd [Hs Hf]]. unfold dt_subsec_nanos, Time.nanosecond. fold (dfrac a).
  destruct (secs_of a <? 0) eqn:E.
  - unfold sub_i64, add_i64. rewrite chk_val by (ranges; consts; lia). cbv [bind].
    rewrite chk_val by (ranges; consts; lia). cbv [bind].
    destruct (checked_mul in_i64 (secs_of a + 1) 1000000000); eexists; reflexivity.
  - cbv [bind]. destruct (checked_mul in_i64 (secs_of a) 1000000000); eexists; reflexivity.
Qed.

Lemma ts_acc_nonleap a : valid_ndt a -> nonleap a ->
  ts_acc a = Val (VTup [VInt (instant a / G); VInt (instant a / 1000000); VInt (instant a / 1000);
     val_of_option VInt (if in_i64 (instant a) then Some (instant a) else None);
     VInt (dfrac a / 1000000); VInt (dfrac a / 1000); VInt (dfrac a)]).
Proof.
  intros Hv Hl. unfold ts_acc.
  rewrite (timestamp_floor DF) by assumption. rewrite bind_val.
  rewrite (timestamp_millis_floor DF) by assumption. rewrite bind_val.
  rewrite (timestamp_micros_floor DF) by assumption. rewrite bind_val.
  rewrite (timestamp_nanos_opt_spec DF) by assumption. rewrite bind_val.
  destruct (subsec_spec a Hv) as [E1 [E2 E3]]. rewrite E1, E2, E3. reflexivity.
Qed.
Lemma ts_acc_any a : valid_ndt a -> exists x1 x2 x3,
  ts_acc a = Val (VTup [VInt (secs_of a); x1; x2; x3;
                        VInt (dfrac a / 1000000); VInt (dfrac a / 1000); VInt (dfrac a)]).
Proof.
  intros Hv. unfold ts_acc.
  rewrite (timestamp_spec DF) by assumption. rewrite bind_val.
  rewrite (timestamp_millis_val DF) by assumption. rewrite bind_val.
  rewrite (timestamp_micros_val DF) by assumption. rewrite bind_val.
  destruct (nanos_opt_total a Hv) as [r Hr]. rewrite Hr, bind_val.
  destruct (subsec_spec a Hv) as [E1 [E2 E3]]. rewrite E1, E2, E3. eexists _, _, _. reflexivity.
Qed.

Lemma acc_holds args :
  j_one args (m_ndt_1 args (fun a => val_of_R (fun v => v) (ts_acc a))) Judge.C02.j_acc <> JSkip ->
  j_one args (m_ndt_1 args (fun a => val_of_R (fun v => v) (ts_acc a))) Judge.C02.j_acc = JOk.
Proof.
  unfold j_one, m_ndt_1. destruct args as [|arg [|b r]]; try congruence.
  unfold Judge.C02.j_acc. destruct arg as [| | | |l| | | |]; try congruence.
  destruct (Judge.C02.dec_dt l) as [[[dn s1] f1]|] eqn:Ed; [|congruence].
  destruct (dec_dt_inv l _ Ed) as (y & o & s & f & ->).
  destruct (dec_dt_model y o s f _ Ed) as (Ex & Hv & Hs & Hf & Hdec & Henc). injection Ex as -> -> ->.
  rewrite Hdec. set (a := ndt_of y o s f) in *.
  destruct (f <? Judge.C02.G) eqn:El.
  - intros _. assert (Hl : nonleap a) by (unfold nonleap, G; rewrite Hf; unfold Judge.C02.G in El; lia).
    rewrite (ts_acc_nonleap a Hv Hl). cbn [val_of_R]. rewrite Hf.
    change (unix_nanos (date_dn (C08Sweeps.mkdate y o)) s f) with (instant a).
    unfold Judge.C02.opt_i64, Judge.C02.G, G.
    destruct (in_i64 (instant a)); cbn [val_of_option]; apply C01Holds.judge_eq_refl.
  - intros _. destruct (ts_acc_any a Hv) as (x1 & x2 & x3 & Hacc). rewrite Hacc. cbn [val_of_R].
    rewrite Hf. change (secs_of a) with (unix_secs (date_dn (C08Sweeps.mkdate y o)) s).
    rewrite !Z.eqb_refl. reflexivity.
Qed.

Lemma accns_holds args :
  j_one args (m_ndt_1 args (fun a => val_of_R VInt (dt_timestamp_nanos a))) Judge.C02.j_acc_ns <> JSkip ->
  j_one args (m_ndt_1 args (fun a => val_of_R VInt (dt_timestamp_nanos a))) Judge.C02.j_acc_ns = JOk.
Proof.
  unfold j_one, m_ndt_1. destruct args as [|arg [|b r]]; try congruence.
  unfold Judge.C02.j_acc_ns. destruct arg as [| | | |l| | | |]; try congruence.
  destruct (Judge.C02.dec_dt l) as [[[dn s1] f1]|] eqn:Ed; [|congruence].
  destruct (dec_dt_inv l _ Ed) as (y & o & s & f & ->).
  destruct (dec_dt_model y o s f _ Ed) as (Ex & Hv & Hs & Hf & Hdec & Henc). injection Ex as -> -> ->.
  rewrite Hdec. set (a := ndt_of y o s f) in *.
  destruct (f <? Judge.C02.G) eqn:El; [|congruence]. intros _.
  assert (Hl : nonleap a) by (unfold nonleap, G; rewrite Hf; unfold Judge.C02.G in El; lia).
  rewrite (timestamp_nanos_spec DF a Hv Hl).
  change (unix_nanos (date_dn (C08Sweeps.mkdate y o)) s f) with (instant a).
  destruct (in_i64 (instant a)); cbn [val_of_R]; [apply C01Holds.judge_eq_refl|reflexivity].
Qed.

(** * 6. Round trips *)
Definition j_rt_body (a b out : val) : verdict :=
  match a, b with
  | VInt secs, VInt nsecs =>
      if in_i64 secs && in_u32 nsecs then
        judge_eq (if Judge.C02.accept secs nsecs then VSome (VTup [VInt secs; VInt nsecs]) else VNone) out
      else JSkip
  | _, _ => JSkip end.

Lemma rt_holds args :
  j_two args (m_i64_u32 args (fun s n => val_of_R (fun v => v) (rt_secs s n))) j_rt_body <> JSkip ->
  j_two args (m_i64_u32 args (fun s n => val_of_R (fun v => v) (rt_secs s n))) j_rt_body = JOk.
Proof.
  unfold j_two, m_i64_u32. destruct args as [|a [|b [|c r]]]; try congruence.
  unfold j_rt_body. destruct a as [secs| | | | | | | |]; try congruence.
  destruct b as [nsecs| | | | | | | |]; try congruence.
  destruct (in_i64 secs && in_u32 nsecs) eqn:E; [|congruence]. intros _.
  apply andb_prop in E. destruct E as [Hs Hn]. unfold arg_i64, arg_u32. rewrite Hs, Hn.
  assert (Hn0 : 0 <= nsecs) by (ranges; lia).
  destruct (from_timestamp_spec DF secs nsecs Hs Hn) as [r0 [Hr Hspec]]. unfold rt_secs. rewrite Hr, bind_val.
  destruct r0 as [a|].
  - destruct (roundtrip_secs DF secs nsecs a Hs Hn Hr) as [Ht Hsub]. rewrite Ht, bind_val, Hsub. cbn [val_of_R].
    destruct Hspec as [Hv [Hsec [Hf Hns]]].
    replace (Judge.C02.accept secs nsecs) with true; [apply C01Holds.judge_eq_refl|].
    symmetry. apply (accept_iff secs nsecs Hn0). split; [|exact Hns]. rewrite <- Hsec. apply (secs_of_range DF); assumption.
  - cbn [val_of_R]. replace (Judge.C02.accept secs nsecs) with false; [reflexivity|].
    destruct (Judge.C02.accept secs nsecs) eqn:E; [|reflexivity]. exfalso. apply Hspec.
    apply (accept_iff secs nsecs Hn0). exact E.
Qed.

Lemma rtunit_holds unit from back args :
  (forall x, in_i64 x = true -> exists r, from x = Val r /\
     match r with
     | Some a => valid_ndt a /\ nonleap a /\ instant a = x * unit /\ back a = Val x
     | None => ~ (NS_MIN <= x * unit <= NS_MAX) end) ->
  j_one args (m_i64_1 args (fun z => val_of_R (fun v => v) (rt_unit from back z))) (Judge.C02.j_rt_unit unit) <> JSkip ->
  j_one args (m_i64_1 args (fun z => val_of_R (fun v => v) (rt_unit from back z))) (Judge.C02.j_rt_unit unit) = JOk.
Proof.
  intros Hf. unfold j_one, m_i64_1. destruct args as [|a [|b r]]; try congruence.
  unfold Judge.C02.j_rt_unit. destruct a as [x| | | | | | | |]; try congruence.
  destruct (in_i64 x) eqn:E; [|congruence]. intros _. unfold arg_i64. rewrite E.
  destruct (Hf x E) as [r0 [Hr Hspec]]. unfold rt_unit. rewrite Hr, bind_val. destruct r0 as [a|].
  - destruct Hspec as (Hv & Hl & Hi & Hb). rewrite Hb, bind_val. cbn [val_of_R].
    replace (Judge.C02.ns_in_range (x * unit)) with true; [apply C01Holds.judge_eq_refl|].
    symmetry. apply ns_in_range_iff. rewrite <- Hi. apply (nonleap_instant_range DF); assumption.
  - cbn [val_of_R]. replace (Judge.C02.ns_in_range (x * unit)) with false; [reflexivity|].
    destruct (Judge.C02.ns_in_range (x * unit)) eqn:E1; [|reflexivity]. exfalso. apply Hspec.
    apply ns_in_range_iff. exact E1.
Qed.

Lemma rtns_holds args :
  j_one args (m_i64_1 args (fun z => val_of_R (fun v => v) (rt_nanos z))) (Judge.C02.j_rt_unit 1) <> JSkip ->
  j_one args (m_i64_1 args (fun z => val_of_R (fun v => v) (rt_nanos z))) (Judge.C02.j_rt_unit 1) = JOk.
Proof.
  unfold j_one, m_i64_1. destruct args as [|a [|b r]]; try congruence.
  unfold Judge.C02.j_rt_unit. destruct a as [x| | | | | | | |]; try congruence.
  destruct (in_i64 x) eqn:E; [|congruence]. intros _. unfold arg_i64. rewrite E.
  destruct (roundtrip_nanos DF x E) as [a [Ha Hb]]. unfold rt_nanos. rewrite Ha, bind_val, Hb, bind_val.
  cbn [val_of_R val_of_option].
  replace (Judge.C02.ns_in_range (x * 1)) with true; [apply C01Holds.judge_eq_refl|].
  symmetry. apply ns_in_range_iff. ranges. consts. lia.
Qed.

Lemma back_holds args :
  j_one args (m_ndt_1 args (fun a => val_of_R (fun v => v) (back_all a))) Judge.C02.j_back <> JSkip ->
  j_one args (m_ndt_1 args (fun a => val_of_R (fun v => v) (back_all a))) Judge.C02.j_back = JOk.
Proof.
  unfold j_one, m_ndt_1. destruct args as [|arg [|b r]]; try congruence.
  unfold Judge.C02.j_back.
  destruct arg as [| | | |l| | | |]; try congruence.
  destruct l as [|[y| | | | | | | |] l]; try congruence.
  destruct l as [|[o| | | | | | | |] l]; try congruence.
  destruct l as [|[s| | | | | | | |] l]; try congruence.
  destruct l as [|[f| | | | | | | |] l]; try congruence.
  destruct l; try congruence.
  destruct (Judge.C02.dec_dt [VInt y; VInt o; VInt s; VInt f]) as [[[dn s1] f1]|] eqn:Ed; [|congruence].
  destruct (dec_dt_model y o s f _ Ed) as (Ex & Hv & Hs & Hf & Hdec & Henc). injection Ex as -> -> ->.
  rewrite Hdec. set (a := ndt_of y o s f) in *.
  assert (Ey : Date.d_year (nd_date a) = y /\ Date.d_ordinal (nd_date a) = o)
    by (unfold enc_ndt in Henc; injection Henc; auto).
  pose proof (secs_of_range DF a Hv) as Hrange.
  assert (Hfr : 0 <= f < 2 * G) by (destruct Hv as [_ [_ H]]; rewrite Hf in H; exact H).
  destruct (f <? Judge.C02.G) eqn:El.
  - intros _. assert (Hl : nonleap a) by (unfold nonleap, G; rewrite Hf; unfold Judge.C02.G in El; lia).
    unfold back_all.
    destruct (back_secs DF a Hv (or_introl Hl)) as [ts [Ht Hb1]]. rewrite Ht, bind_val, Hb1, bind_val.
    destruct (back_millis DF a Hv Hl) as [ms [Hm Hb2]]. rewrite Hm, bind_val, Hb2, bind_val.
    destruct (back_micros DF a Hv Hl) as [us [Hu Hb3]]. rewrite Hu, bind_val, Hb3, bind_val.
    pose proof (timestamp_nanos_opt_spec DF a Hv Hl) as Hn. rewrite Hn, bind_val.
    change (unix_nanos (date_dn (C08Sweeps.mkdate y o)) s f) with (instant a).
    destruct (in_i64 (instant a)) eqn:Ei.
    + rewrite (back_nanos DF a (instant a) Hv Hl Hn), !bind_val. cbn [val_of_R].
      unfold vo_ndt, val_of_option, enc_ndt, with_frac. cbn [nd_date nd_time Time.tsecs Time.tfrac].
      destruct Ey as [-> ->]. fold (dsecs a). fold (dfrac a). rewrite Hs, Hf. apply C01Holds.judge_eq_refl.
    + rewrite bind_val. cbn [val_of_R].
      unfold vo_ndt, val_of_option, enc_ndt, with_frac. cbn [nd_date nd_time Time.tsecs Time.tfrac].
      destruct Ey as [-> ->]. fold (dsecs a). fold (dfrac a). rewrite Hs, Hf. apply C01Holds.judge_eq_refl.
  - destruct (s mod 60 =? 59) eqn:E59; [|congruence]. intros _.
    assert (H59 : dsecs a mod 60 = 59) by (rewrite Hs; lia).
    unfold back_all.
    destruct (back_secs DF a Hv (or_intror H59)) as [ts [Ht Hb1]]. rewrite Ht, bind_val, Hb1, bind_val.
    rewrite (timestamp_millis_val DF a Hv), bind_val.
    destruct (from_timestamp_millis_spec DF (secs_of a * 1000 + dfrac a / 1000000)) as [r2 [Hr2 _]];
      [rewrite Hf; ranges; consts; lia|]. rewrite Hr2, bind_val.
    rewrite (timestamp_micros_val DF a Hv), bind_val.
    destruct (from_timestamp_micros_spec DF (secs_of a * 1000000 + dfrac a / 1000)) as [r3 [Hr3 _]];
      [rewrite Hf; ranges; consts; lia|]. rewrite Hr3, bind_val.
    rewrite (timestamp_nanos_opt_leap59 DF a Hv H59), bind_val.
    destruct (in_i64 (instant a)) eqn:Ei.
    + destruct (from_timestamp_nanos_spec DF (instant a) Ei) as [b4 [Hb4 _]]. rewrite Hb4, bind_val, bind_val.
      cbn [val_of_R]. unfold vo_ndt at 1. cbn [val_of_option]. rewrite Henc. apply C01Holds.judge_eq_refl.
    + rewrite bind_val. cbn [val_of_R]. unfold vo_ndt at 1. cbn [val_of_option]. rewrite Henc.
      apply C01Holds.judge_eq_refl.
Qed.

(** * 7. SystemTime *)
Lemma sys_out s n : i64_min <= s <= i64_max -> 0 <= n < G -> (s = i64_min -> n <> 0) ->
  exists r, (let '(b, ds, dn) := st_since_epoch (s, n) in val_of_R enc_dtz (dt_from_systime b ds dn))
            = enc_kind (Judge.C02.KDtz 0) r /\
    match r with
    | Some a => valid_ndt a /\ nonleap a /\ instant a = s * G + n
    | None => ~ (NS_MIN <= s * G + n <= NS_MAX)
    end.
Proof.
  intros Hs Hn Hmin. pose proof (st_since_epoch_spec s n Hn) as Hspec.
  assert (Hds : let '(b, ds, dn) := st_since_epoch (s, n) in ds <= i64_max).
  { unfold st_since_epoch. destruct (0 <=? s) eqn:E0; [lia|]. destruct (n =? 0) eqn:E1; unfold i64_min, i64_max in *; lia. }
  destruct (st_since_epoch (s, n)) as [[b ds] dn]. destruct Hspec as (H1 & H2 & H3 & _).
  destruct (from_systime_spec DF b ds dn ltac:(lia) H2) as [Hin Hout]. cbv zeta in Hin, Hout. rewrite H3 in Hin, Hout.
  destruct (Judge.C02.ns_in_range (s * G + n)) eqn:Er.
  - apply ns_in_range_iff in Er. destruct (Hin Er) as (a & Ha & Hv & Hl & Hi).
    exists (Some a). rewrite Ha. split; [reflexivity|auto].
  - assert (Hnr : ~ (NS_MIN <= s * G + n <= NS_MAX)) by (intros H; apply ns_in_range_iff in H; congruence).
    exists None. rewrite (Hout Hnr). split; [reflexivity|exact Hnr].
Qed.

Definition m_systime (args : list val) : val :=
  match args with
  | [VInt sg; b; c] =>
      match arg_u64 b, arg_u32 c with
      | Some s, Some n =>
          if ((sg =? 0) || (sg =? 1)) && (n <? 1000000000) && (s <=? i64_max) then
            match mk_systime sg s n with
            | Some t => let '(bf, ds, dn) := st_since_epoch t in val_of_R enc_dtz (dt_from_systime bf ds dn)
            | None => VBad
            end
          else VBad
      | _, _ => VBad end
  | _ => VBad end.

Lemma systime_holds args : Judge.C02.is_badargs (m_systime args) = false ->
  Judge.C02.j_systime args (m_systime args) <> JSkip ->
  Judge.C02.j_systime args (m_systime args) = JOk.
Proof.
  unfold Judge.C02.j_systime, m_systime.
  destruct args as [|[sg| | | | | | | |] [|[secs| | | | | | | |] [|[nanos| | | | | | | |] [|? ?]]]]; try congruence.
  destruct (((sg =? 0) || (sg =? 1)) && in_u64 secs && (0 <=? nanos) && (nanos <? Judge.C02.G)) eqn:E; [|congruence].
  unfold Judge.C02.G in E.
  apply andb_prop in E. destruct E as [E E4]. apply andb_prop in E. destruct E as [E E3].
  apply andb_prop in E. destruct E as [Hsg Hu].
  assert (Hn : 0 <= nanos < G) by (unfold G; lia).
  unfold arg_u64, arg_u32. rewrite Hu. replace (in_u32 nanos) with true by (ranges; unfold G in Hn; lia).
  rewrite Hsg. replace (nanos <? 1000000000) with true by (unfold G in Hn; lia). cbn [andb].
  destruct (secs <=? i64_max) eqn:Es; [|cbn; congruence].
  assert (Hs0 : 0 <= secs <= i64_max) by (ranges; lia).
  unfold mk_systime. destruct (sg =? 0) eqn:E0.
  - unfold st_add, st_epoch. rewrite chk_val by (ranges; lia). cbv [bind].
    replace (0 + nanos >=? 1000000000) with false by (unfold G in Hn; lia). intros _ _.
    destruct (sys_out (0 + secs) (0 + nanos)) as [r [Hout Hspec]]; try (unfold i64_min, i64_max in *; lia).
    rewrite Hout. replace (1 * (secs * Judge.C02.G + nanos)) with ((0 + secs) * G + (0 + nanos)) by (unfold Judge.C02.G, G; lia).
    apply unit_kind_ok. exact Hspec.
  - unfold st_sub, st_epoch. rewrite chk_val by (ranges; lia). cbv [bind].
    destruct (0 - nanos <? 0) eqn:En.
    + unfold sub_i64. rewrite chk_val by (ranges; lia). cbv [bind]. intros _ _.
      destruct (sys_out (0 - secs - 1) (0 - nanos + 1000000000)) as [r [Hout Hspec]]; try (unfold i64_min, i64_max, G in *; lia).
      rewrite Hout. replace (-1 * (secs * Judge.C02.G + nanos)) with ((0 - secs - 1) * G + (0 - nanos + 1000000000)) by (unfold Judge.C02.G, G; lia).
      apply unit_kind_ok. exact Hspec.
    + intros _ _.
      destruct (sys_out (0 - secs) (0 - nanos)) as [r [Hout Hspec]]; try (unfold i64_min, i64_max, G in *; lia).
      rewrite Hout. replace (-1 * (secs * Judge.C02.G + nanos)) with ((0 - secs) * G + (0 - nanos)) by (unfold Judge.C02.G, G; lia).
      apply unit_kind_ok. exact Hspec.
Qed.

Definition m_tosys (args : list val) : val :=
  match args with
  | [a] => match dec_dtz a with Some d => val_of_R enc_sys (systime_from_dt d) | None => VBad end
  | _ => VBad end.

Lemma tosys_holds args :
  Judge.C02.j_tosys args (m_tosys args) <> JSkip -> Judge.C02.j_tosys args (m_tosys args) = JOk.
Proof.
  unfold Judge.C02.j_tosys, m_tosys.
  destruct args as [|arg [|? ?]]; try congruence.
  2:{ repeat (try congruence; match goal with |- context [match ?x with _ => _ end] => is_var x; destruct x end). }
  destruct arg as [| | | |l| | | |]; try congruence.
  destruct l as [|y [|o [|s [|f [|[off| | | | | | | |] [|? ?]]]]]]; try congruence.
  destruct (Judge.C02.dec_dt [y; o; s; f]) as [[[dn s1] f1]|] eqn:Ed; [|congruence].
  destruct (dec_dt_inv _ _ Ed) as (y' & o' & s' & f' & [= -> -> -> ->]).
  destruct (dec_dt_model y' o' s' f' _ Ed) as (Ex & Hv & Hs & Hf & Hdec & Henc). injection Ex as -> -> ->.
  destruct (Judge.C02.off_ok off) eqn:Eo; [|congruence].
  unfold dec_dtz. rewrite Hdec, (east_opt_ok off Eo). set (a := ndt_of y' o' s' f') in *.
  destruct (systime_from_dt_spec DF (mk_dtz a off) Hv) as (s & n & Hsys & Hn & Hi). rewrite Hsys. cbn [val_of_R dz_utc] in *.
  destruct (f' <? Judge.C02.G) eqn:El.
  2:{ (* leap-second operand: the model's instant is the start of the second plus the nanosecond field *)
    intros _. assert (Hfr : 0 <= f' < 2 * G) by (destruct Hv as [_ [_ H]]; rewrite Hf in H; exact H).
    assert (Ht : s * G + n = unix_nanos (date_dn (C08Sweeps.mkdate y' o')) s' 0 + f')
      by (rewrite Hi; unfold instant, unix_nanos; rewrite Hs, Hf; change (nd_date a) with (C08Sweeps.mkdate y' o'); lia).
    set (t0 := unix_nanos (date_dn (C08Sweeps.mkdate y' o')) s' 0) in *. clearbody t0.
    unfold enc_sys, st_since_epoch, Judge.C02.G in *. unfold G in *.
    destruct (0 <=? s) eqn:E0.
    - cbn [val_of_bool]. change (0 =? 0) with true. change (0 =? 1) with false. cbn [orb andb].
      replace ((0 <=? s) && (0 <=? n) && (n <? 1000000000)) with true by lia.
      replace ((t0 + 1000000000 - 1 <=? 1 * (s * 1000000000 + n)) && (1 * (s * 1000000000 + n) <? t0 + 2 * 1000000000)) with true by lia.
      reflexivity.
    - destruct (n =? 0) eqn:E1; cbn [val_of_bool]; change (1 =? 0) with false; change (1 =? 1) with true; cbn [orb andb].
      + replace ((0 <=? - s) && (0 <=? 0) && (0 <? 1000000000)) with true by lia.
        replace ((t0 + 1000000000 - 1 <=? -1 * (- s * 1000000000 + 0)) && (-1 * (- s * 1000000000 + 0) <? t0 + 2 * 1000000000)) with true by lia.
        reflexivity.
      + replace ((0 <=? - s - 1) && (0 <=? 1000000000 - n) && (1000000000 - n <? 1000000000)) with true by lia.
        replace ((t0 + 1000000000 - 1 <=? -1 * ((- s - 1) * 1000000000 + (1000000000 - n))) && (-1 * ((- s - 1) * 1000000000 + (1000000000 - n)) <? t0 + 2 * 1000000000)) with true by lia.
        reflexivity. }
  intros _.
  change (unix_nanos (date_dn (C08Sweeps.mkdate y' o')) s' f') with (instant a). rewrite <- Hi.
  unfold enc_sys, st_since_epoch, Judge.C02.G. unfold G in *.
  destruct (0 <=? s) eqn:E0.
  - replace (s * 1000000000 + n <? 0) with false by lia.
    replace (Z.abs (s * 1000000000 + n) / 1000000000) with s by lia.
    replace (Z.abs (s * 1000000000 + n) mod 1000000000) with n by lia. apply C01Holds.judge_eq_refl.
  - replace (s * 1000000000 + n <? 0) with true by lia. destruct (n =? 0) eqn:E1.
    + replace (Z.abs (s * 1000000000 + n) / 1000000000) with (- s) by lia.
      replace (Z.abs (s * 1000000000 + n) mod 1000000000) with 0 by lia. apply C01Holds.judge_eq_refl.
    + replace (Z.abs (s * 1000000000 + n) / 1000000000) with (- s - 1) by lia.
      replace (Z.abs (s * 1000000000 + n) mod 1000000000) with (1000000000 - n) by lia. apply C01Holds.judge_eq_refl.
Qed.

(** * 8. Every case of the judge's domain *)
Ltac from_r Hr := match goal with Hs : in_i64 ?s = true, Hn : in_u32 ?n = true |- _ =>
  let r := fresh "r" in destruct (from_timestamp_spec DF s n Hs Hn) as [r [Hr _]]; exists r; split; [exact Hr|] end.

Theorem C02_holds op args :
  Judge.C02.judge op args (run op args) <> JSkip -> Judge.C02.judge op args (run op args) = JOk.
Proof.
  unfold Judge.C02.judge. destruct (Judge.C02.is_badargs (run op args)) eqn:Bad; [congruence|].
  revert Bad. unfold run. cbv zeta.
  destruct (op_is op "ts.from") eqn:O1.
  { intros _. apply (two_from_holds Judge.C02.KOpt (fun s n => val_of_R vo_ndt (dt_from_timestamp s n))).
    intros s n Hs Hn. from_r Hr. rewrite Hr. reflexivity. }
  destruct (op_is op "ts.fromms") eqn:O2.
  { intros _. apply (one_unit_holds Judge.C02.KOpt 1000000 (fun z => val_of_R vo_ndt (dt_from_timestamp_millis z))).
    intros x Hx. destruct (millis_r x Hx) as [r [Hr Hspec]]. exists r. rewrite Hr. split; [reflexivity|exact Hspec]. }
  destruct (op_is op "ts.fromus") eqn:O3.
  { intros _. apply (one_unit_holds Judge.C02.KOpt 1000 (fun z => val_of_R vo_ndt (dt_from_timestamp_micros z))).
    intros x Hx. destruct (micros_r x Hx) as [r [Hr Hspec]]. exists r. rewrite Hr. split; [reflexivity|exact Hspec]. }
  destruct (op_is op "ts.fromns") eqn:O4.
  { intros _. apply (one_unit_holds Judge.C02.KPanic 1 (fun z => val_of_R enc_ndt (dt_from_timestamp_nanos z))).
    intros x Hx. destruct (nanos_r x Hx) as [a [Ha Hspec]]. exists (Some a). rewrite Ha. split; [reflexivity|exact Hspec]. }
  destruct (op_is op "ts.of") eqn:O5. { intros _. apply acc_holds. }
  destruct (op_is op "ts.ofns") eqn:O6. { intros _. apply accns_holds. }
  destruct (op_is op "ts.rt") eqn:O7. { intros _. apply rt_holds. }
  destruct (op_is op "ts.rtms") eqn:O8.
  { intros _. apply (rtunit_holds 1000000 dt_from_timestamp_millis dt_timestamp_millis).
    intros x Hx. destruct (millis_r x Hx) as [r [Hr Hspec]]. exists r. split; [exact Hr|].
    destruct r as [a|]; [|exact Hspec]. destruct Hspec as (Hv & Hl & Hi). split; [exact Hv|]. split; [exact Hl|]. split; [exact Hi|].
    apply (roundtrip_millis DF x a Hx Hr). }
  destruct (op_is op "ts.rtus") eqn:O9.
  { intros _. apply (rtunit_holds 1000 dt_from_timestamp_micros dt_timestamp_micros).
    intros x Hx. destruct (micros_r x Hx) as [r [Hr Hspec]]. exists r. split; [exact Hr|].
    destruct r as [a|]; [|exact Hspec]. destruct Hspec as (Hv & Hl & Hi). split; [exact Hv|]. split; [exact Hl|]. split; [exact Hi|].
    apply (roundtrip_micros DF x a Hx Hr). }
  destruct (op_is op "ts.rtns") eqn:O10. { intros _. apply rtns_holds. }
  destruct (op_is op "ts.back") eqn:O11. { intros _. apply back_holds. }
  destruct (op_is op "ts.tz") eqn:O12.
  { intros _. apply (off3_from_holds (fun o => Judge.C02.KMlt o) (fun o s n => val_of_R v_mlt (tz_timestamp_opt o s n))).
    intros o s n Hs Hn. from_r Hr. rewrite tz_opt_eq, Hr. reflexivity. }
  destruct (op_is op "ts.tzp") eqn:O13.
  { intros _. apply (off3_from_holds (fun o => Judge.C02.KDtz o) (fun o s n => val_of_R enc_dtz (tz_timestamp o s n))).
    intros o s n Hs Hn. from_r Hr. rewrite tz_timestamp_eq, Hr. apply out_dtz. }
  destruct (op_is op "ts.tzms") eqn:O14.
  { intros _. apply (off2_unit_holds (fun o => Judge.C02.KMlt o) 1000000 (fun o z => val_of_R v_mlt (tz_timestamp_millis_opt o z))).
    intros o x Hx. destruct (millis_r x Hx) as [r [Hr Hspec]]. exists r. rewrite tz_millis_eq, Hr. split; [reflexivity|exact Hspec]. }
  destruct (op_is op "ts.tzmsp") eqn:O15.
  { intros _. apply (off2_unit_holds (fun o => Judge.C02.KDtz o) 1000000 (fun o z => val_of_R enc_dtz (tz_timestamp_millis o z))).
    intros o x Hx. destruct (millis_r x Hx) as [r [Hr Hspec]]. exists r. rewrite tz_timestamp_millis_eq, Hr. split; [apply out_dtz|exact Hspec]. }
  destruct (op_is op "ts.tzus") eqn:O16.
  { intros _. apply (off2_unit_holds (fun o => Judge.C02.KMlt o) 1000 (fun o z => val_of_R v_mlt (tz_timestamp_micros o z))).
    intros o x Hx. destruct (micros_r x Hx) as [r [Hr Hspec]]. exists r. rewrite tz_micros_eq, Hr. split; [reflexivity|exact Hspec]. }
  destruct (op_is op "ts.tzns") eqn:O17.
  { intros _. apply (off2_unit_holds (fun o => Judge.C02.KDtz o) 1 (fun o z => val_of_R enc_dtz (tz_timestamp_nanos o z))).
    intros o x Hx. destruct (nanos_r x Hx) as [a [Ha Hspec]]. exists (Some a). rewrite tz_nanos_eq, Ha. split; [reflexivity|exact Hspec]. }
  destruct (op_is op "ts.naive_from") eqn:O18.
  { intros _. apply (two_from_holds Judge.C02.KPanic (fun s n => val_of_R enc_ndt (naive_from_timestamp s n))).
    intros s n Hs Hn. from_r Hr. rewrite naive_from_eq, Hr. apply out_panic. }
  destruct (op_is op "ts.naive_opt") eqn:O19.
  { intros _. apply (two_from_holds Judge.C02.KOpt (fun s n => val_of_R vo_ndt (naive_from_timestamp_opt s n))).
    intros s n Hs Hn. from_r Hr. rewrite naive_opt_eq, Hr. reflexivity. }
  destruct (op_is op "ts.naive_ms") eqn:O20.
  { intros _. apply (one_unit_holds Judge.C02.KOpt 1000000 (fun z => val_of_R vo_ndt (naive_from_timestamp_millis z))).
    intros x Hx. destruct (millis_r x Hx) as [r [Hr Hspec]]. exists r. rewrite naive_millis_eq, Hr. split; [reflexivity|exact Hspec]. }
  destruct (op_is op "ts.naive_us") eqn:O21.
  { intros _. apply (one_unit_holds Judge.C02.KOpt 1000 (fun z => val_of_R vo_ndt (naive_from_timestamp_micros z))).
    intros x Hx. destruct (micros_r x Hx) as [r [Hr Hspec]]. exists r. rewrite naive_micros_eq, Hr. split; [reflexivity|exact Hspec]. }
  destruct (op_is op "ts.naive_ns") eqn:O22.
  { intros _. apply (one_unit_holds Judge.C02.KOpt 1 (fun z => val_of_R vo_ndt (naive_from_timestamp_nanos z))).
    intros x Hx. destruct (nanos_r x Hx) as [a [Ha Hspec]]. exists (Some a).
    destruct (naive_nanos_eq x) as [E|(s & n & _ & _ & Ep)]; [|rewrite Ha in Ep; discriminate].
    rewrite E, Ha. split; [reflexivity|exact Hspec]. }
  destruct (op_is op "ts.naive_of") eqn:O23. { intros _. apply acc_holds. }
  destruct (op_is op "ts.naive_ofns") eqn:O24. { intros _. apply accns_holds. }
  destruct (op_is op "ts.systime") eqn:O25. { apply systime_holds. }
  destruct (op_is op "ts.tosys") eqn:O26. { intros _. apply tosys_holds. }
  destruct (op_is op "ts.consts") eqn:O27.
  { destruct args; [|congruence]. intros _ _. rewrite ts_consts_val. vm_compute. reflexivity. }
  destruct (op_is op "ts.defaults") eqn:O28; [|congruence].
  destruct args; [|congruence]. intros _ _. rewrite ts_defaults_val. vm_compute. reflexivity.
Qed.

(** no case is rejected *)
Corollary C02_never_bad op args : match Judge.C02.judge op args (run op args) with JBad _ => False | _ => True end.
Proof.
  destruct (Judge.C02.judge op args (run op args)) eqn:E; try exact I.
  assert (H : Judge.C02.judge op args (run op args) <> JSkip) by (rewrite E; discriminate).
  rewrite (C02_holds op args H) in E. discriminate.
Qed.

(** the domain is inhabited in every family of ops (computed) *)
Lemma holds_examples :
  Judge.C02.judge B"ts.tz" [VInt 3600; VInt 1431648000; VInt 0] (run B"ts.tz" [VInt 3600; VInt 1431648000; VInt 0]) = JOk /\
  Judge.C02.judge B"ts.back" [VTup [VInt 2015; VInt 135; VInt 59; VInt 1500000000]]
     (run B"ts.back" [VTup [VInt 2015; VInt 135; VInt 59; VInt 1500000000]]) = JOk /\
  Judge.C02.judge B"ts.systime" [VInt 1; VInt 5; VInt 1] (run B"ts.systime" [VInt 1; VInt 5; VInt 1]) = JOk /\
  Judge.C02.judge B"ts.tosys" [VTup [VInt 1969; VInt 365; VInt 86399; VInt 5; VInt (-3600)]]
     (run B"ts.tosys" [VTup [VInt 1969; VInt 365; VInt 86399; VInt 5; VInt (-3600)]]) = JOk /\
  Judge.C02.judge B"ts.naive_ofns" [VTup [VInt 262142; VInt 365; VInt 86399; VInt 999999999]]
     (run B"ts.naive_ofns" [VTup [VInt 262142; VInt 365; VInt 86399; VInt 999999999]]) = JOk.
Proof. vm_compute. repeat split; reflexivity. Qed.
