(** C03 — proofs.
    Part 1: operator forms, zone invariance, the refutation witness for the backward length hint.
    Part 2: exactness of date / date-time arithmetic, differences and the iterators, relative to the
            specification of five functions of the shared Date model ([add_days_ok], [date_diff_ok],
            [succ_ok], [pred_ok], [date_ord_ok]: Section hypotheses, explicit premises of the theorems);
            the time-of-day part (overflowing_add_signed, NaiveTime::signed_duration_since on non-leap
            values) and the calendar-spec facts are proved here.
    Part 3: the five specifications hold for Model/Date.v (from the shared calendar lemmas of
            Proofs/Date.v / Proofs/C08*.v: add_days_spec, succ/pred_opt_spec, order_spec,
            signed_duration_since_spec).  Part 4: the unconditional theorems. *)
From Coq Require Import ZArith List Bool Lia ZifyBool.
From V Require Import Base.Int Base.IO Base.IntLemmas Spec.Gregorian Model.TimeDelta Model.DateTime Model.C03 Proofs.C06.
From V Require Model.Date Model.Time.
From V Require Proofs.Date.
Import ListNotations.
Open Scope Z_scope.
Ltac Zify.zify_post_hook ::= Z.to_euclidean_division_equations.

(** * Operator forms agree with the checked forms: value where [Some], panic exactly where [None] *)
Definition agrees {A} (op : R A) (checked : R (option A)) : Prop :=
  match checked with
  | Val (Some r) => op = Val r
  | Val None => op = Panic
  | Panic => op = Panic
  | OutOfFuel => op = OutOfFuel
  end.
Lemma unwrap_r_agrees {A} (c : R (option A)) : agrees (unwrap_r c) c.
Proof. destruct c as [[r|]| |]; reflexivity. Qed.

Lemma ops_agree_ndt a d :
  agrees (op_nadd_td a d) (ndt_checked_add_signed a d) /\ agrees (op_nsub_td a d) (ndt_checked_sub_signed a d).
Proof. split; apply unwrap_r_agrees. Qed.
Lemma ops_agree_ndt_days a n :
  agrees (op_nadd_days a n) (ndt_checked_add_days a n) /\ agrees (op_nsub_days a n) (ndt_checked_sub_days a n).
Proof. split; apply unwrap_r_agrees. Qed.
Lemma ops_agree_date d x n :
  agrees (op_dadd_td d x) (Date.checked_add_signed d x) /\ agrees (op_dsub_td d x) (Date.checked_sub_signed d x) /\
  agrees (op_dadd_days d n) (Date.checked_add_days d n) /\ agrees (op_dsub_days d n) (Date.checked_sub_days d n).
Proof. repeat split; apply unwrap_r_agrees. Qed.
Lemma ops_agree_dtz a d n :
  agrees (op_zadd_td a d) (dz_checked_add_signed a d) /\ agrees (op_zsub_td a d) (dz_checked_sub_signed a d) /\
  agrees (op_zadd_days a n) (dz_checked_add_days a n) /\ agrees (op_zsub_days a n) (dz_checked_sub_days a n).
Proof. repeat split; apply unwrap_r_agrees. Qed.
(* the assign forms have their own body: same result as the binary operator *)
Lemma ops_assign_agree a d : op_zadd_assign a d = op_zadd_td a d /\ op_zsub_assign a d = op_zsub_td a d.
Proof.
  unfold op_zadd_assign, op_zadd_td, op_zsub_assign, op_zsub_td, dz_checked_add_signed, dz_checked_sub_signed, unwrap_r, obind, bind.
  split.
  - destruct (ndt_checked_add_signed (dz_utc a) d) as [[r|]| |]; reflexivity.
  - destruct (ndt_checked_sub_signed (dz_utc a) d) as [[r|]| |]; reflexivity.
Qed.
(* the difference operators are the method *)
Lemma ops_diff_agree : (forall a b, op_nsub_ndt a b = ndt_signed_duration_since a b) /\
  (forall a b, op_zsub_z a b = dz_signed_duration_since a b) /\ (forall a b, op_dsub_date a b = Date.signed_duration_since a b).
Proof. repeat split. Qed.
(* core::time::Duration: conversion failure or arithmetic failure panic, else the TimeDelta result *)
Lemma ops_std_agree a s n :
  match from_std s n with
  | Some d => op_nadd_std a s n = op_nadd_td a d /\ op_nsub_std a s n = op_nsub_td a d
  | None => op_nadd_std a s n = Panic /\ op_nsub_std a s n = Panic
  end.
Proof. unfold op_nadd_std, op_nsub_std. destruct (from_std s n); split; reflexivity. Qed.

(** * Zone invariance: the arithmetic is on the stored UTC value, the offset is carried along *)
Definition zmap (off : Z) (r : R (option ndt)) : R (option dtz) :=
  match r with Val (Some u) => Val (Some (mk_dtz u off)) | Val None => Val None | Panic => Panic | OutOfFuel => OutOfFuel end.
Lemma zone_add_sub u off d :
  dz_checked_add_signed (mk_dtz u off) d = zmap off (ndt_checked_add_signed u d) /\
  dz_checked_sub_signed (mk_dtz u off) d = zmap off (ndt_checked_sub_signed u d).
Proof.
  unfold dz_checked_add_signed, dz_checked_sub_signed, zmap, obind, bind, from_utc_datetime. cbn [dz_utc dz_off].
  split.
  - destruct (ndt_checked_add_signed u d) as [[r|]| |]; reflexivity.
  - destruct (ndt_checked_sub_signed u d) as [[r|]| |]; reflexivity.
Qed.
Lemma zone_diff u1 o1 u2 o2 :
  dz_signed_duration_since (mk_dtz u1 o1) (mk_dtz u2 o2) = ndt_signed_duration_since u1 u2.
Proof. reflexivity. Qed.

(** * The backward length hint is not the number of remaining items (faithful model of the code) *)
Lemma hint_backward_refuted :
  let d := -2147475398 in
  Date.from_yo_opt (-262143) 3 = Val (Some d) /\
  it_hint days_next_back days_size_hint d 0 = Val (191491526, Some 191491526) /\
  it_observe days_next_back d 0 10 = Val (Some d, Some 2).
Proof. vm_compute. repeat split. Qed.
Lemma hint_backward_weeks_refuted :
  let d := -2147475206 in
  Date.from_yo_opt (-262143) 15 = Val (Some d) /\
  it_hint weeks_next_back weeks_size_hint d 0 = Val (27355930, Some 27355930) /\
  it_observe weeks_next_back d 0 10 = Val (Some d, Some 2).
Proof. vm_compute. repeat split. Qed.

(** * Part 2a: time of day (non-leap values): exact mod-86400 arithmetic with a whole-day carry *)
Definition tvalid (t : Time.ntime) : Prop := 0 <= Time.tsecs t < 86400 /\ 0 <= Time.tfrac t < G.
Definition tns (t : Time.ntime) : Z := Time.tsecs t * G + Time.tfrac t.

Lemma quot_rem_G n : exists q r, Z.quot n G = q /\ Z.rem n G = r /\ n = q * G + r /\
  (0 <= n -> 0 <= r < G) /\ (n <= 0 -> - G < r <= 0).
Proof. exists (Z.quot n G), (Z.rem n G). unfold G. repeat split; lia. Qed.

Lemma oas_spec t d : tvalid t -> valid d ->
  exists t' r, Time.overflowing_add_signed t d = Val (t', r) /\ tvalid t' /\
    tns t' + r * G = tns t + ns d /\ r mod 86400 = 0 /\ Z.abs r <= 9223372036954776.
Proof.
  intros [Ht1 Ht2] Hd. pose proof Hd as [Hd1 Hd2].
  unfold Time.overflowing_add_signed.
  rewrite num_seconds_spec, subsec_nanos_spec by assumption. cbn [bind].
  destruct (quot_rem_G (ns d)) as [q [r [-> [-> [E [P N]]]]]].
  unfold tns, tvalid. unfold in_rng, RMIN, RMAX, G in *.
  rewrite as_i64_id, as_i32_id by solve_in.
  destruct (Time.tfrac t >=? 1000000000) eqn:E0; [lia|]. cbn [bind].
  assert (Hq : -9223372036854776 <= q <= 9223372036854776) by lia.
  unfold add_i64, add_i32, sub_i32, sub_i64, chk.
  replace (in_i64 (Time.tsecs t + q)) with true by (symmetry; solve_in). cbn [bind].
  replace (in_i32 (Time.tfrac t + r)) with true by (symmetry; solve_in). cbn [bind].
  destruct (Time.tfrac t + r <? 0) eqn:E1.
  - replace (in_i32 (Time.tfrac t + r + 1000000000)) with true by (symmetry; solve_in). cbn [bind].
    replace (in_i64 (Time.tsecs t + q - 1)) with true by (symmetry; solve_in). cbn [bind].
    rewrite rem_euclid_pos by lia.
    replace (in_i64 ((Time.tsecs t + q - 1) / 86400)) with true by (symmetry; solve_in). cbn [bind].
    match goal with |- context [in_i64 ?x] => replace (in_i64 x) with true by (symmetry; solve_in) end. cbn [bind].
    do 2 eexists. split; [reflexivity|]. cbn [Time.tsecs Time.tfrac].
    rewrite !as_u32_id by solve_in. repeat split; lia.
  - destruct (Time.tfrac t + r >=? 1000000000) eqn:E2.
    + replace (in_i32 (Time.tfrac t + r - 1000000000)) with true by (symmetry; solve_in). cbn [bind].
      replace (in_i64 (Time.tsecs t + q + 1)) with true by (symmetry; solve_in). cbn [bind].
      rewrite rem_euclid_pos by lia.
      replace (in_i64 ((Time.tsecs t + q + 1) / 86400)) with true by (symmetry; solve_in). cbn [bind].
      match goal with |- context [in_i64 ?x] => replace (in_i64 x) with true by (symmetry; solve_in) end. cbn [bind].
      do 2 eexists. split; [reflexivity|]. cbn [Time.tsecs Time.tfrac].
      rewrite !as_u32_id by solve_in. repeat split; lia.
    + cbn [bind]. rewrite rem_euclid_pos by lia.
      replace (in_i64 ((Time.tsecs t + q) / 86400)) with true by (symmetry; solve_in). cbn [bind].
      match goal with |- context [in_i64 ?x] => replace (in_i64 x) with true by (symmetry; solve_in) end. cbn [bind].
      do 2 eexists. split; [reflexivity|]. cbn [Time.tsecs Time.tfrac].
      rewrite !as_u32_id by solve_in. repeat split; lia.
Qed.

Lemma osub_spec t d : tvalid t -> valid d ->
  exists t' r, Time.overflowing_sub_signed t d = Val (t', r) /\ tvalid t' /\
    tns t' - r * G = tns t - ns d /\ r mod 86400 = 0 /\ Z.abs r <= 9223372036954776.
Proof.
  intros Ht Hd. unfold Time.overflowing_sub_signed.
  destruct (neg_spec d Hd) as [n [En [Hn1 Hn2]]]. rewrite En. cbn [bind].
  destruct (oas_spec t n Ht Hn2) as [t' [r [E [V [HS [HM HB]]]]]]. rewrite E. cbn [bind].
  unfold neg_i64, chk. replace (in_i64 (- r)) with true by (symmetry; solve_in). cbn [bind].
  exists t', (- r). split; [reflexivity|]. repeat split; try apply V; try lia.
Qed.

Lemma tsds_spec a b : tvalid a -> tvalid b ->
  exists d, Time.signed_duration_since a b = Val d /\ valid d /\ ns d = tns a - tns b.
Proof.
  intros [Ha1 Ha2] [Hb1 Hb2]. unfold Time.signed_duration_since, tns. unfold G in *.
  rewrite !as_i64_id by solve_in.
  unfold sub_i64, add_i64, chk.
  replace (in_i64 (Time.tsecs a - Time.tsecs b)) with true by (symmetry; solve_in). cbn [bind].
  replace (in_i64 (Time.tfrac a - Time.tfrac b)) with true by (symmetry; solve_in). cbn [bind].
  replace (Time.tfrac b >=? 1000000000) with false by lia.
  replace (Time.tfrac a >=? 1000000000) with false by lia.
  rewrite !andb_false_r. cbn [bind].
  rewrite div_euclid_pos, rem_euclid_pos by lia. unfold chk.
  replace (in_i64 ((Time.tfrac a - Time.tfrac b) / 1000000000)) with true by (symmetry; solve_in). cbn [bind].
  match goal with |- context [in_i64 ?x] => replace (in_i64 x) with true by (symmetry; solve_in) end. cbn [bind].
  set (s := Time.tsecs a - Time.tsecs b + (Time.tfrac a - Time.tfrac b) / 1000000000).
  set (f := (Time.tfrac a - Time.tfrac b) mod 1000000000).
  assert (Hf : 0 <= f < 1000000000) by (unfold f; lia).
  assert (Hs : -86400 <= s <= 86400) by (unfold s; lia).
  rewrite as_u32_id by solve_in.
  pose proof (td_new_spec s f ltac:(solve_in) ltac:(solve_in)) as N.
  destruct (td_new s f) as [d|].
  - destruct N as [N1 [N2 N3]]. exists d. split; [reflexivity|]. split; [exact N3|].
    unfold ns, G. rewrite N1, N2. unfold s, f. lia.
  - exfalso. apply N. unfold in_rng, G, RMIN, RMAX. lia.
Qed.

(** * Part 2b: dates as day numbers; facts about the calendar spec *)
Definition dn (d : Z) : Z := dn_of_yo (Date.d_year d) (Date.d_ordinal d).
Definition vdate (d : Z) : Prop :=
  year_in_range (Date.d_year d) = true /\ valid_yo (Date.d_year d) (Date.d_ordinal d) = true /\
  Date.from_yo_opt (Date.d_year d) (Date.d_ordinal d) = Val (Some d).
Definition nvalid (a : ndt) : Prop := vdate (nd_date a) /\ tvalid (nd_time a).
Definition inst (a : ndt) : Z :=
  unix_nanos (dn (nd_date a)) (Time.tsecs (nd_time a)) (Time.tfrac (nd_time a)).
Definition DAYNS := 86400000000000.

(** calendar facts about the spec (pure arithmetic) *)
Lemma dby_step y : days_before_year (y + 1) = days_before_year y + days_in_year y.
Proof.
  unfold days_before_year, days_in_year, is_leap.
  replace (y + 1 - 1) with y by lia.
  destruct ((y mod 4 =? 0) && negb (y mod 100 =? 0) || (y mod 400 =? 0)) eqn:E; lia.
Qed.
Lemma dby_mono a b : a <= b -> days_before_year a <= days_before_year b.
Proof. intros H. unfold days_before_year. lia. Qed.
Lemma dn_of_yo_inj y1 o1 y2 o2 : valid_yo y1 o1 = true -> valid_yo y2 o2 = true ->
  dn_of_yo y1 o1 = dn_of_yo y2 o2 -> y1 = y2 /\ o1 = o2.
Proof.
  unfold valid_yo, dn_of_yo. intros H1 H2 E.
  destruct (Z_lt_dec y1 y2) as [L|L].
  - pose proof (dby_step y1). pose proof (dby_mono (y1 + 1) y2 ltac:(lia)). lia.
  - destruct (Z_lt_dec y2 y1) as [L2|L2].
    + pose proof (dby_step y2). pose proof (dby_mono (y2 + 1) y1 ltac:(lia)). lia.
    + assert (y1 = y2) by lia. subst. lia.
Qed.
Lemma vdate_range d : vdate d -> DN_MIN <= dn d <= DN_MAX.
Proof.
  intros [Hy [Ho _]]. unfold dn, dn_of_yo, year_in_range, valid_yo, MIN_YEAR, MAX_YEAR in *.
  set (y := Date.d_year d) in *. set (o := Date.d_ordinal d) in *.
  pose proof (dby_mono (-262143) y ltac:(lia)) as L1.
  pose proof (dby_mono (y + 1) 262143 ltac:(lia)) as L2. rewrite dby_step in L2.
  change (days_before_year (-262143)) with (-95746130) in L1.
  change (days_before_year 262143) with 95745399 in L2.
  unfold DN_MIN, DN_MAX. lia.
Qed.
Lemma vdate_inj a b : vdate a -> vdate b -> dn a = dn b -> a = b.
Proof.
  intros [_ [Ha1 Ha2]] [_ [Hb1 Hb2]] E. unfold dn in E.
  destruct (dn_of_yo_inj _ _ _ _ Ha1 Hb1 E) as [Ey Eo]. rewrite Ey, Eo in Ha2. rewrite Ha2 in Hb2.
  congruence.
Qed.
Lemma vdate_max : vdate Date.D_MAX /\ dn Date.D_MAX = DN_MAX.
Proof. vm_compute. repeat split. Qed.
Lemma vdate_min : vdate Date.D_MIN /\ dn Date.D_MIN = DN_MIN.
Proof. vm_compute. repeat split. Qed.

(** * Part 2c: exactness theorems relative to the specification of the Date model functions *)
(** what the Date model must satisfy (proved in Part 3 / by the C01 development) *)
Definition add_days_ok : Prop := forall d n, vdate d -> in_i32 n = true ->
  exists r, Date.add_days d n = Val r /\
    match r with
    | Some d' => vdate d' /\ dn d' = dn d + n
    | None => dn_in_range (dn d + n) = false
    end.
Definition date_diff_ok : Prop := forall a b, vdate a -> vdate b ->
  Date.signed_duration_since a b = Val (mk_td ((dn a - dn b) * 86400) 0).
Definition succ_ok : Prop := forall d, vdate d ->
  exists r, Date.succ_opt d = Val r /\
    match r with Some d' => vdate d' /\ dn d' = dn d + 1 | None => dn d = DN_MAX end.
Definition pred_ok : Prop := forall d, vdate d ->
  exists r, Date.pred_opt d = Val r /\
    match r with Some d' => vdate d' /\ dn d' = dn d - 1 | None => dn d = DN_MIN end.
Definition date_ord_ok : Prop := forall a b, vdate a -> vdate b -> cmpZ a b = cmpZ (dn a) (dn b).

Definition date_res (d : Z) (target : Z) (r : option Z) : Prop :=
  match r with
  | Some d' => vdate d' /\ dn d' = target
  | None => dn_in_range target = false
  end.

Section ModuloDate.
Hypothesis H_add_days : add_days_ok.

Lemma in_i32_as n : in_i32 n = true -> as_i32 n = n.
Proof. apply as_i32_id. Qed.

(** Days: all u64 counts *)
Lemma date_add_days_exact d n : vdate d -> in_u64 n = true ->
  exists r, Date.checked_add_days d n = Val r /\ date_res d (dn d + n) r.
Proof.
  intros Hd Hn. unfold Date.checked_add_days. pose proof (vdate_range d Hd) as Rg.
  destruct (n <=? i32_max) eqn:E.
  - assert (Hi : in_i32 n = true) by (revert Hn E; solve_in).
    rewrite as_i32_id by exact Hi. destruct (H_add_days d n Hd Hi) as [r [E1 E2]].
    exists r. split; [exact E1|]. destruct r; exact E2.
  - exists None. split; [reflexivity|]. cbn. unfold dn_in_range, DN_MIN, DN_MAX, i32_max in *. lia.
Qed.
Lemma date_sub_days_exact d n : vdate d -> in_u64 n = true ->
  exists r, Date.checked_sub_days d n = Val r /\ date_res d (dn d - n) r.
Proof.
  intros Hd Hn. unfold Date.checked_sub_days. pose proof (vdate_range d Hd) as Rg.
  destruct (n <=? i32_max) eqn:E.
  - assert (Hi : in_i32 n = true) by (revert Hn E; solve_in).
    rewrite as_i32_id by exact Hi. unfold neg_i32, chk.
    assert (Hi2 : in_i32 (- n) = true) by (revert Hn E; solve_in). rewrite Hi2. cbn [bind].
    destruct (H_add_days d (- n) Hd Hi2) as [r [E1 E2]].
    exists r. split; [exact E1|]. replace (dn d - n) with (dn d + - n) by lia. destruct r; exact E2.
  - exists None. split; [reflexivity|]. cbn. unfold dn_in_range, DN_MIN, DN_MAX, i32_max in *. lia.
Qed.

(** TimeDelta on a date: whole days, truncated toward zero *)
Lemma date_add_signed_trunc d x : vdate d -> valid x ->
  exists r, Date.checked_add_signed d x = Val r /\ date_res d (dn d + Z.quot (ns x) DAYNS) r.
Proof.
  intros Hd Hx. unfold Date.checked_add_signed. rewrite num_days_spec by exact Hx. cbn [bind].
  change (86400 * G) with DAYNS. set (k := Z.quot (ns x) DAYNS). pose proof (vdate_range d Hd) as Rg.
  destruct ((k <? i32_min) || (i32_max <? k)) eqn:E.
  - exists None. split; [reflexivity|]. cbn. unfold dn_in_range, DN_MIN, DN_MAX, i32_max, i32_min in *. lia.
  - assert (Hi : in_i32 k = true) by (revert E; solve_in).
    rewrite as_i32_id by exact Hi. destruct (H_add_days d k Hd Hi) as [r [E1 E2]].
    exists r. split; [exact E1|]. destruct r; exact E2.
Qed.
Lemma date_sub_signed_trunc d x : vdate d -> valid x ->
  exists r, Date.checked_sub_signed d x = Val r /\ date_res d (dn d - Z.quot (ns x) DAYNS) r.
Proof.
  intros Hd Hx. unfold Date.checked_sub_signed. rewrite num_days_spec by exact Hx. cbn [bind].
  change (86400 * G) with DAYNS. set (k := Z.quot (ns x) DAYNS). pose proof (vdate_range d Hd) as Rg.
  assert (Hk : -106751991168 <= k <= 106751991168).
  { destruct Hx as [_ Hr]. unfold k, DAYNS, in_rng, RMIN, RMAX in *. lia. }
  unfold neg_i64, chk. replace (in_i64 (- k)) with true by (symmetry; revert Hk; solve_in). cbn [bind].
  destruct ((- k <? i32_min) || (i32_max <? - k)) eqn:E.
  - exists None. split; [reflexivity|]. cbn. unfold dn_in_range, DN_MIN, DN_MAX, i32_max, i32_min in *. lia.
  - assert (Hi : in_i32 (- k) = true) by (revert E; solve_in).
    rewrite as_i32_id by exact Hi. destruct (H_add_days d (- k) Hd Hi) as [r [E1 E2]].
    exists r. split; [exact E1|]. replace (dn d - k) with (dn d + - k) by lia. destruct r; exact E2.
Qed.

(** date-time +- duration *)
Definition ndt_res (target : Z) (r : option ndt) : Prop :=
  match r with
  | Some b => nvalid b /\ inst b = target
  | None => ~ (NS_MIN <= target <= NS_MAX)
  end.

Lemma ndt_shift a t' k : nvalid a -> tvalid t' -> in_i64 (86400 * k) = true ->
  forall target, (dn (nd_date a) + k - EPOCH_DN) * DAYNS + tns t' = target ->
  match try_seconds (86400 * k) with
  | None => ndt_res target None
  | Some rem =>
      exists r, Date.checked_add_signed (nd_date a) rem = Val r /\
        ndt_res target (match r with Some date => Some (mk_ndt date t') | None => None end)
  end.
Proof.
  intros [Hd Ht] Ht' Hk target Et. pose proof (vdate_range _ Hd) as Rg.
  pose proof (try_seconds_spec (86400 * k) Hk) as TS.
  destruct Ht' as [Hs Hf]. unfold tns in Et.
  destruct (try_seconds (86400 * k)) as [rem|].
  - destruct TS as [N V]. destruct (date_add_signed_trunc _ rem Hd V) as [r [E R]].
    exists r. split; [exact E|]. rewrite N in R.
    replace (Z.quot (86400 * k * G) DAYNS) with k in R by (unfold G, DAYNS; lia).
    destruct r as [date|]; cbn in R |- *.
    + destruct R as [R1 R2]. split; [split; [exact R1|split; assumption]|].
      unfold inst, unix_nanos, unix_secs. cbn [nd_date nd_time]. rewrite R2.
      unfold DAYNS, G in *. lia.
    + unfold dn_in_range, NS_MIN, NS_MAX, DN_MIN, DN_MAX, EPOCH_DN, DAYNS, G in *. lia.
  - cbn. unfold in_rng, RMIN, RMAX, NS_MIN, NS_MAX, DN_MIN, DN_MAX, EPOCH_DN, DAYNS, G in *. lia.
Qed.

Lemma inst_split a : inst a = (dn (nd_date a) - EPOCH_DN) * DAYNS + tns (nd_time a).
Proof. unfold inst, unix_nanos, unix_secs, tns, DAYNS, G. lia. Qed.

Lemma ndt_add_exact a d : nvalid a -> valid d ->
  exists r, ndt_checked_add_signed a d = Val r /\ ndt_res (inst a + ns d) r.
Proof.
  intros Ha Hd. pose proof Ha as [Hdate Ht]. unfold ndt_checked_add_signed.
  destruct (oas_spec _ d Ht Hd) as [t' [r [E [V [HS [HM HB]]]]]]. rewrite E. cbn [bind].
  assert (Hk : exists k, r = 86400 * k) by (exists (r / 86400); lia). destruct Hk as [k ->].
  assert (Hi : in_i64 (86400 * k) = true) by (revert HB; solve_in).
  pose proof (ndt_shift a t' k Ha V Hi (inst a + ns d)) as SH.
  rewrite inst_split in SH. specialize (SH ltac:(unfold DAYNS, G in *; lia)). rewrite <- inst_split in SH.
  destruct (try_seconds (86400 * k)) as [rem|].
  - destruct SH as [r [E1 R]]. unfold obind. rewrite E1. cbn [bind].
    destruct r as [date|]; eexists; (split; [reflexivity|exact R]).
  - exists None. split; [reflexivity|exact SH].
Qed.

Lemma ndt_sub_exact a d : nvalid a -> valid d ->
  exists r, ndt_checked_sub_signed a d = Val r /\ ndt_res (inst a - ns d) r.
Proof.
  intros Ha Hd. pose proof Ha as [Hdate Ht]. unfold ndt_checked_sub_signed.
  destruct (osub_spec _ d Ht Hd) as [t' [r [E [V [HS [HM HB]]]]]]. rewrite E. cbn [bind].
  assert (Hk : exists k, r = 86400 * k) by (exists (r / 86400); lia). destruct Hk as [k ->].
  assert (Hi : in_i64 (86400 * k) = true) by (revert HB; solve_in).
  pose proof (try_seconds_spec (86400 * k) Hi) as TS. pose proof (vdate_range _ Hdate) as Rg.
  destruct V as [Hs Hf].
  destruct (try_seconds (86400 * k)) as [rem|].
  - destruct TS as [N Vr]. destruct (date_sub_signed_trunc _ rem Hdate Vr) as [r [E1 R]].
    unfold obind. rewrite E1. cbn [bind]. rewrite N in R.
    replace (Z.quot (86400 * k * G) DAYNS) with k in R by (unfold G, DAYNS; lia).
    rewrite inst_split. unfold tns in *.
    destruct r as [date|]; eexists; (split; [reflexivity|]); cbn in R |- *.
    + destruct R as [R1 R2]. split; [split; [exact R1|split; assumption]|].
      unfold inst, unix_nanos, unix_secs. cbn [nd_date nd_time]. rewrite R2.
      unfold DAYNS, G in *. lia.
    + unfold dn_in_range, NS_MIN, NS_MAX, DN_MIN, DN_MAX, EPOCH_DN, DAYNS, G in *. lia.
  - exists None. split; [reflexivity|]. cbn. rewrite inst_split. unfold tns in *.
    unfold in_rng, RMIN, RMAX, NS_MIN, NS_MAX, DN_MIN, DN_MAX, EPOCH_DN, DAYNS, G in *. lia.
Qed.
End ModuloDate.

Section ModuloDate2.
Hypothesis H_add_days : add_days_ok.
Hypothesis H_diff : date_diff_ok.
Hypothesis H_succ : succ_ok.
Hypothesis H_pred : pred_ok.
Hypothesis H_ord : date_ord_ok.

(** difference of two date-times: exact, never panics *)
Lemma ndt_diff_exact a b : nvalid a -> nvalid b ->
  exists d, ndt_signed_duration_since a b = Val d /\ valid d /\ ns d = inst a - inst b.
Proof.
  intros [Ha Hta] [Hb Htb]. unfold ndt_signed_duration_since.
  rewrite (H_diff _ _ Ha Hb). cbn [bind].
  destruct (tsds_spec _ _ Hta Htb) as [dt [E [V N]]]. rewrite E. cbn [bind].
  pose proof (vdate_range _ Ha) as Ra. pose proof (vdate_range _ Hb) as Rb.
  set (dd := mk_td ((dn (nd_date a) - dn (nd_date b)) * 86400) 0).
  assert (Vd : valid dd).
  { unfold valid, ns, in_rng, dd, RMIN, RMAX, G, DN_MIN, DN_MAX in *. cbn [secs nanos]. lia. }
  destruct (checked_add_spec dd dt Vd V) as [r [E2 R]]. unfold unwrap_r. rewrite E2. cbn [bind].
  assert (Nd : ns dd = (dn (nd_date a) - dn (nd_date b)) * DAYNS).
  { unfold ns, dd, DAYNS, G. cbn [secs nanos]. lia. }
  destruct Hta as [Hsa Hfa]. destruct Htb as [Hsb Hfb].
  destruct r as [d|]; cbn [unwrap].
  - destruct R as [R1 R2]. exists d. split; [reflexivity|]. split; [exact R2|].
    rewrite R1, Nd, N, !inst_split. lia.
  - exfalso. apply R. rewrite Nd, N. unfold tns, in_rng, RMIN, RMAX, DAYNS, G, DN_MIN, DN_MAX in *. lia.
Qed.

Lemma nvalid_inst_range a : nvalid a -> NS_MIN <= inst a <= NS_MAX.
Proof.
  intros [Hd [Hs Hf]]. pose proof (vdate_range _ Hd). rewrite inst_split. unfold tns.
  unfold NS_MIN, NS_MAX, DN_MIN, DN_MAX, EPOCH_DN, DAYNS, G in *. lia.
Qed.
Lemma inst_inj a b : nvalid a -> nvalid b -> inst a = inst b -> a = b.
Proof.
  intros [Hda [Hsa Hfa]] [Hdb [Hsb Hfb]] E. rewrite !inst_split in E. unfold tns, DAYNS, G in *.
  assert (E1 : dn (nd_date a) = dn (nd_date b)) by lia.
  assert (E2 : Time.tsecs (nd_time a) = Time.tsecs (nd_time b)) by lia.
  assert (E3 : Time.tfrac (nd_time a) = Time.tfrac (nd_time b)) by lia.
  pose proof (vdate_inj _ _ Hda Hdb E1) as E0.
  destruct a as [da [sa fa]], b as [db [sb fb]]. cbn in *. subst. reflexivity.
Qed.

(** b + (a - b) = a *)
Lemma ndt_roundtrip a b : nvalid a -> nvalid b ->
  exists d, ndt_signed_duration_since a b = Val d /\ ndt_checked_add_signed b d = Val (Some a).
Proof.
  intros Ha Hb. destruct (ndt_diff_exact a b Ha Hb) as [d [E [V N]]]. exists d. split; [exact E|].
  destruct (ndt_add_exact H_add_days b d Hb V) as [r [E2 R]]. rewrite E2. rewrite N in R.
  replace (inst b + (inst a - inst b)) with (inst a) in R by lia.
  pose proof (nvalid_inst_range a Ha) as Rg.
  destruct r as [c|]; cbn in R.
  - destruct R as [Vc Ec]. rewrite (inst_inj c a Vc Ha Ec). reflexivity.
  - exfalso. apply R. exact Rg.
Qed.

(** order follows the distance *)
Lemma cmpZ_sub x y : cmpZ (x - y) 0 = cmpZ x y.
Proof. unfold cmpZ. destruct (x - y ?= 0) eqn:E1; destruct (x ?= y) eqn:E2; try reflexivity;
  rewrite ?Z.compare_eq_iff, ?Z.compare_lt_iff, ?Z.compare_gt_iff in *; lia. Qed.
Lemma ndt_order a b : nvalid a -> nvalid b ->
  exists d, ndt_signed_duration_since a b = Val d /\
    td_cmp d (mk_td 0 0) = cmpZ (inst a) (inst b) /\ ndt_cmp a b = cmpZ (inst a) (inst b).
Proof.
  intros Ha Hb. destruct (ndt_diff_exact a b Ha Hb) as [d [E [V N]]]. exists d. split; [exact E|]. split.
  - assert (Vz : valid (mk_td 0 0)) by (unfold valid, ns, in_rng, RMIN, RMAX, G; cbn; lia).
    rewrite (cmp_spec d _ V Vz). rewrite N. change (ns (mk_td 0 0)) with 0. apply cmpZ_sub.
  - destruct Ha as [Hda [Hsa Hfa]]. destruct Hb as [Hdb [Hsb Hfb]].
    unfold ndt_cmp, cmp_lex. rewrite (H_ord _ _ Hda Hdb). rewrite !inst_split. unfold tns, DAYNS, G in *.
    unfold cmpZ.
    destruct (dn (nd_date a) ?= dn (nd_date b)) eqn:E1; cbn [Z.eqb];
    destruct (Time.tsecs (nd_time a) ?= Time.tsecs (nd_time b)) eqn:E2; cbn [Z.eqb];
    destruct (Time.tfrac (nd_time a) ?= Time.tfrac (nd_time b)) eqn:E3; cbn [Z.eqb];
    match goal with |- _ = match ?c with _ => _ end => destruct c eqn:E4 end; try reflexivity;
    rewrite ?Z.compare_eq_iff, ?Z.compare_lt_iff, ?Z.compare_gt_iff in *; lia.
Qed.

(** Days on a date-time: the date moves, the time of day is kept *)
Lemma ndt_days_exact a n : nvalid a -> in_u64 n = true ->
  (exists r, ndt_checked_add_days a n = Val r /\ ndt_res (inst a + n * DAYNS) r) /\
  (exists r, ndt_checked_sub_days a n = Val r /\ ndt_res (inst a - n * DAYNS) r).
Proof.
  intros [Hd Ht] Hn. pose proof Ht as [Hs Hf]. unfold ndt_checked_add_days, ndt_checked_sub_days, ndt_map_date, obind. split.
  - destruct (date_add_days_exact H_add_days _ n Hd Hn) as [r [E R]]. rewrite E. cbn [bind].
    destruct r as [d'|]; eexists; (split; [reflexivity|]); cbn in R |- *.
    + destruct R as [R1 R2]. split; [split; assumption|]. rewrite !inst_split. cbn [nd_date nd_time]. rewrite R2. lia.
    + rewrite inst_split. unfold tns, dn_in_range, NS_MIN, NS_MAX, DN_MIN, DN_MAX, EPOCH_DN, DAYNS, G in *. lia.
  - destruct (date_sub_days_exact H_add_days _ n Hd Hn) as [r [E R]]. rewrite E. cbn [bind].
    destruct r as [d'|]; eexists; (split; [reflexivity|]); cbn in R |- *.
    + destruct R as [R1 R2]. split; [split; assumption|]. rewrite !inst_split. cbn [nd_date nd_time]. rewrite R2. lia.
    + rewrite inst_split. unfold tns, dn_in_range, NS_MIN, NS_MAX, DN_MIN, DN_MAX, EPOCH_DN, DAYNS, G in *. lia.
Qed.
End ModuloDate2.

(** * Iterators.  A step function moves the cursor by [delta] days while the target stays in range
    and yields the old cursor; [avail x] = number of items an iterator whose cursor is at day number
    [x] still yields in that direction. *)
Definition step_ok (step : Z -> R (option Z * Z)) (delta : Z) : Prop :=
  forall v, vdate v ->
    if dn_in_range (dn v + delta)
    then exists v', step v = Val (Some v, v') /\ vdate v' /\ dn v' = dn v + delta
    else step v = Val (None, v).
Definition avail (delta x : Z) : Z :=
  if 0 <? delta then (DN_MAX - x) / delta else (x - DN_MIN) / (- delta).

Section Iter.
Variable step : Z -> R (option Z * Z).
Variable delta : Z.
Hypothesis Hdelta : delta <> 0.
Hypothesis Hstep : step_ok step delta.

Lemma avail_nonneg v : vdate v -> 0 <= avail delta (dn v).
Proof. intros H. pose proof (vdate_range v H). unfold avail. destruct (0 <? delta) eqn:E; nia. Qed.
Lemma avail_pos x : DN_MIN <= x <= DN_MAX -> (dn_in_range (x + delta) = true <-> 0 < avail delta x).
Proof.
  intros H. unfold avail, dn_in_range. destruct (0 <? delta) eqn:E.
  - split; intros H1.
    + apply Z.div_str_pos. lia.
    + assert (delta <= DN_MAX - x).
      { destruct (Z_le_dec delta (DN_MAX - x)); [assumption|]. rewrite Z.div_small in H1 by lia. lia. }
      lia.
  - split; intros H1.
    + apply Z.div_str_pos. lia.
    + assert (- delta <= x - DN_MIN).
      { destruct (Z_le_dec (- delta) (x - DN_MIN)); [assumption|]. rewrite Z.div_small in H1 by lia. lia. }
      lia.
Qed.
Lemma avail_step x : DN_MIN <= x <= DN_MAX -> dn_in_range (x + delta) = true ->
  avail delta (x + delta) = avail delta x - 1.
Proof.
  intros H H1. unfold avail, dn_in_range in *. destruct (0 <? delta) eqn:E.
  - replace (DN_MAX - x) with ((DN_MAX - (x + delta)) + 1 * delta) by lia.
    rewrite Z.div_add by lia. lia.
  - replace (x - DN_MIN) with ((x + delta - DN_MIN) + 1 * (- delta)) by lia.
    rewrite Z.div_add by lia. lia.
Qed.

(** after [k] calls the cursor has moved by [min k avail] steps *)
Lemma drive_spec : forall (k : nat) v, vdate v ->
  exists v', it_drive step k v = Val v' /\ vdate v' /\
    dn v' = dn v + delta * Z.min (Z.of_nat k) (avail delta (dn v)).
Proof.
  induction k as [|k IH]; intros v Hv.
  - exists v. split; [reflexivity|]. split; [exact Hv|]. pose proof (avail_nonneg v Hv). cbn. lia.
  - cbn [it_drive]. pose proof (Hstep v Hv) as S. pose proof (vdate_range v Hv) as Rg.
    pose proof (avail_pos (dn v) Rg) as AP. pose proof (avail_nonneg v Hv) as AN.
    destruct (dn_in_range (dn v + delta)) eqn:E.
    + destruct S as [v1 [E1 [V1 D1]]]. rewrite E1. cbn [bind].
      destruct (IH v1 V1) as [v' [E2 [V2 D2]]]. exists v'. split; [exact E2|]. split; [exact V2|].
      rewrite D2, D1. rewrite avail_step by assumption.
      assert (0 < avail delta (dn v)) by (apply AP; reflexivity). lia.
    + rewrite S. cbn [bind].
      assert (avail delta (dn v) = 0).
      { destruct (Z_lt_dec 0 (avail delta (dn v))) as [L|L]; [apply AP in L; congruence|lia]. }
      destruct (IH v Hv) as [v' [E2 [V2 D2]]]. exists v'. split; [exact E2|]. split; [exact V2|].
      rewrite D2. lia.
Qed.

(** the next call yields the cursor iff items are left *)
Lemma next_spec v : vdate v ->
  (0 < avail delta (dn v) -> exists v', step v = Val (Some v, v')) /\
  (avail delta (dn v) = 0 -> step v = Val (None, v)).
Proof.
  intros Hv. pose proof (Hstep v Hv) as S. pose proof (vdate_range v Hv) as Rg.
  pose proof (avail_pos (dn v) Rg) as AP.
  destruct (dn_in_range (dn v + delta)) eqn:E.
  - split.
    + intros _. destruct S as [v' [E1 _]]. eauto.
    + intros H0. assert (0 < avail delta (dn v)) by (apply AP; reflexivity). lia.
  - split.
    + intros H0. apply AP in H0. congruence.
    + intros _. exact S.
Qed.

(** the number of items still yielded is [avail] *)
Lemma count_spec : forall (fuel : nat) v acc, vdate v -> avail delta (dn v) < Z.of_nat fuel ->
  it_count step fuel v acc = Val (Some (acc + avail delta (dn v))).
Proof.
  induction fuel as [|f IH]; intros v acc Hv Hf.
  - pose proof (avail_nonneg v Hv). lia.
  - cbn [it_count]. pose proof (Hstep v Hv) as S. pose proof (vdate_range v Hv) as Rg.
    pose proof (avail_pos (dn v) Rg) as AP. pose proof (avail_nonneg v Hv) as AN.
    destruct (dn_in_range (dn v + delta)) eqn:E.
    + destruct S as [v1 [E1 [V1 D1]]]. rewrite E1. cbn [bind].
      rewrite IH; [|exact V1|rewrite D1, avail_step by assumption; lia].
      rewrite D1, avail_step by assumption. do 2 f_equal. lia.
    + rewrite S. cbn [bind].
      assert (avail delta (dn v) = 0).
      { destruct (Z_lt_dec 0 (avail delta (dn v))) as [L|L]; [apply AP in L; congruence|lia]. }
      do 2 f_equal. lia.
Qed.

(** the whole observable: item k is the date [start + k*delta], present iff k < avail(start) *)
Theorem iter_spec (start : Z) (k : nat) : vdate start ->
  let av := avail delta (dn start) in
  exists v, it_drive step k start = Val v /\ vdate v /\
    (Z.of_nat k < av -> dn v = dn start + delta * Z.of_nat k /\ exists v', step v = Val (Some v, v')) /\
    (av <= Z.of_nat k -> step v = Val (None, v)) /\
    avail delta (dn v) = Z.max 0 (av - Z.of_nat k) /\
    forall fuel acc, Z.max 0 (av - Z.of_nat k) < Z.of_nat fuel ->
      it_count step fuel v acc = Val (Some (acc + Z.max 0 (av - Z.of_nat k))).
Proof.
  intros Hs av. destruct (drive_spec k start Hs) as [v [E [V D]]]. fold av in D.
  exists v. split; [exact E|]. split; [exact V|].
  pose proof (avail_nonneg start Hs) as AN. fold av in AN.
  assert (A : avail delta (dn v) = Z.max 0 (av - Z.of_nat k)).
  { rewrite D. destruct (Z_lt_dec (Z.of_nat k) av) as [L|L].
    - rewrite Z.min_l by lia. clear D E.
      (* k steps, each inside the range *)
      assert (G : forall j : nat, Z.of_nat j <= av ->
                avail delta (dn start + delta * Z.of_nat j) = av - Z.of_nat j /\
                DN_MIN <= dn start + delta * Z.of_nat j <= DN_MAX).
      { induction j as [|j IHj]; intros Hj.
        - replace (dn start + delta * Z.of_nat 0) with (dn start) by lia. split; [unfold av; lia|apply vdate_range; exact Hs].
        - destruct (IHj ltac:(lia)) as [I1 I2].
          assert (P : dn_in_range (dn start + delta * Z.of_nat j + delta) = true) by (apply avail_pos; [exact I2|lia]).
          replace (dn start + delta * Z.of_nat (S j)) with (dn start + delta * Z.of_nat j + delta) by lia.
          rewrite avail_step by assumption. split; [lia|]. unfold dn_in_range in P. lia. }
      destruct (G k ltac:(lia)) as [G1 _]. lia.
    - rewrite Z.min_r in D |- * by lia.
      assert (G : forall j : nat, Z.of_nat j <= av ->
                avail delta (dn start + delta * Z.of_nat j) = av - Z.of_nat j /\
                DN_MIN <= dn start + delta * Z.of_nat j <= DN_MAX).
      { induction j as [|j IHj]; intros Hj.
        - replace (dn start + delta * Z.of_nat 0) with (dn start) by lia. split; [unfold av; lia|apply vdate_range; exact Hs].
        - destruct (IHj ltac:(lia)) as [I1 I2].
          assert (P : dn_in_range (dn start + delta * Z.of_nat j + delta) = true) by (apply avail_pos; [exact I2|lia]).
          replace (dn start + delta * Z.of_nat (S j)) with (dn start + delta * Z.of_nat j + delta) by lia.
          rewrite avail_step by assumption. split; [lia|]. unfold dn_in_range in P. lia. }
      destruct (G (Z.to_nat av) ltac:(lia)) as [G1 _]. rewrite Z2Nat.id in G1 by lia. rewrite G1. lia. }
  destruct (next_spec v V) as [N1 N2].
  split; [|split; [|split; [exact A|]]].
  - intros L. split; [rewrite D; lia|]. apply N1. rewrite A. lia.
  - intros L. apply N2. rewrite A. lia.
  - intros fuel acc Hf. rewrite <- A. apply count_spec; [exact V|rewrite A; exact Hf].
Qed.
End Iter.

Section ModuloDate3.
Hypothesis H_add_days : add_days_ok.
Hypothesis H_diff : date_diff_ok.
Hypothesis H_succ : succ_ok.
Hypothesis H_pred : pred_ok.

Lemma days_next_ok : step_ok days_next 1.
Proof.
  intros v Hv. unfold days_next. destruct (H_succ v Hv) as [r [E R]]. rewrite E. cbn [bind].
  pose proof (vdate_range v Hv) as Rg. unfold dn_in_range.
  destruct r as [v'|].
  - destruct R as [R1 R2]. pose proof (vdate_range v' R1).
    replace ((DN_MIN <=? dn v + 1) && (dn v + 1 <=? DN_MAX)) with true by lia. eauto.
  - replace ((DN_MIN <=? dn v + 1) && (dn v + 1 <=? DN_MAX)) with false by lia. reflexivity.
Qed.
Lemma days_next_back_ok : step_ok days_next_back (-1).
Proof.
  intros v Hv. unfold days_next_back. destruct (H_pred v Hv) as [r [E R]]. rewrite E. cbn [bind].
  pose proof (vdate_range v Hv) as Rg. unfold dn_in_range.
  destruct r as [v'|].
  - destruct R as [R1 R2]. pose proof (vdate_range v' R1).
    replace ((DN_MIN <=? dn v + -1) && (dn v + -1 <=? DN_MAX)) with true by lia.
    exists v'. split; [reflexivity|]. split; [exact R1|lia].
  - replace ((DN_MIN <=? dn v + -1) && (dn v + -1 <=? DN_MAX)) with false by lia. reflexivity.
Qed.
Lemma weeks_next_ok : step_ok weeks_next 7.
Proof.
  intros v Hv. unfold weeks_next.
  destruct (date_add_days_exact H_add_days v 7 Hv eq_refl) as [r [E R]]. rewrite E. cbn [bind].
  destruct r as [v'|]; cbn in R.
  - destruct R as [R1 R2]. pose proof (vdate_range v' R1). unfold dn_in_range.
    replace ((DN_MIN <=? dn v + 7) && (dn v + 7 <=? DN_MAX)) with true by lia. eauto.
  - rewrite R. reflexivity.
Qed.
Lemma weeks_next_back_ok : step_ok weeks_next_back (-7).
Proof.
  intros v Hv. unfold weeks_next_back.
  destruct (date_sub_days_exact H_add_days v 7 Hv eq_refl) as [r [E R]]. rewrite E. cbn [bind].
  replace (dn v + -7) with (dn v - 7) by lia.
  destruct r as [v'|]; cbn in R.
  - destruct R as [R1 R2]. pose proof (vdate_range v' R1). unfold dn_in_range.
    replace ((DN_MIN <=? dn v - 7) && (dn v - 7 <=? DN_MAX)) with true by lia. eauto.
  - rewrite R. reflexivity.
Qed.

(** the length hint is the forward count *)
Lemma days_hint_spec v : vdate v ->
  days_size_hint v = Val (avail 1 (dn v), Some (avail 1 (dn v))).
Proof.
  intros Hv. pose proof (vdate_range v Hv) as Rg. destruct vdate_max as [Vm Dm].
  unfold days_size_hint. rewrite (H_diff _ _ Vm Hv), Dm. cbn [bind].
  set (dd := mk_td ((DN_MAX - dn v) * 86400) 0).
  assert (Vd : valid dd).
  { unfold valid, ns, in_rng, dd, RMIN, RMAX, G, DN_MIN, DN_MAX in *. cbn [secs nanos]. lia. }
  rewrite (num_days_spec dd Vd). cbn [bind].
  assert (Q : Z.quot (ns dd) (86400 * G) = DN_MAX - dn v).
  { unfold ns, dd, G. cbn [secs nanos]. lia. }
  rewrite Q. unfold avail. cbn [Z.ltb Z.compare]. rewrite Z.div_1_r.
  change (as_usize (DN_MAX - dn v)) with (as_u64 (DN_MAX - dn v)).
  rewrite as_u64_id by (revert Rg; unfold DN_MIN, DN_MAX; solve_in). reflexivity.
Qed.
Lemma weeks_hint_spec v : vdate v ->
  weeks_size_hint v = Val (avail 7 (dn v), Some (avail 7 (dn v))).
Proof.
  intros Hv. pose proof (vdate_range v Hv) as Rg. destruct vdate_max as [Vm Dm].
  unfold weeks_size_hint. rewrite (H_diff _ _ Vm Hv), Dm. cbn [bind].
  set (dd := mk_td ((DN_MAX - dn v) * 86400) 0).
  assert (Vd : valid dd).
  { unfold valid, ns, in_rng, dd, RMIN, RMAX, G, DN_MIN, DN_MAX in *. cbn [secs nanos]. lia. }
  rewrite (num_weeks_spec dd Vd). cbn [bind].
  assert (Q : Z.quot (ns dd) (604800 * G) = (DN_MAX - dn v) / 7).
  { unfold ns, dd, G. cbn [secs nanos]. lia. }
  rewrite Q. unfold avail. cbn [Z.ltb Z.compare].
  change (as_usize ((DN_MAX - dn v) / 7)) with (as_u64 ((DN_MAX - dn v) / 7)).
  rewrite as_u64_id by (revert Rg; unfold DN_MIN, DN_MAX; solve_in). reflexivity.
Qed.

(** forward iteration: item k, end of the sequence, exact length hint, exact count *)
Definition iter_forward_statement (step : Z -> R (option Z * Z)) (hint : Z -> R (Z * option Z)) (stride : Z) : Prop :=
  forall (start : Z) (k : nat), vdate start ->
  let av := (DN_MAX - dn start) / stride in
  let left := Z.max 0 (av - Z.of_nat k) in
  exists v, it_drive step k start = Val v /\ vdate v /\
    (Z.of_nat k < av -> dn v = dn start + stride * Z.of_nat k /\ exists v', step v = Val (Some v, v')) /\
    (av <= Z.of_nat k -> step v = Val (None, v)) /\
    hint v = Val (left, Some left) /\
    forall fuel acc, left < Z.of_nat fuel -> it_count step fuel v acc = Val (Some (acc + left)).
(** backward iteration: item k, end of the sequence, exact count (the hint is the refuted part) *)
Definition iter_backward_statement (step : Z -> R (option Z * Z)) (stride : Z) : Prop :=
  forall (start : Z) (k : nat), vdate start ->
  let av := (dn start - DN_MIN) / stride in
  let left := Z.max 0 (av - Z.of_nat k) in
  exists v, it_drive step k start = Val v /\ vdate v /\
    (Z.of_nat k < av -> dn v = dn start - stride * Z.of_nat k /\ exists v', step v = Val (Some v, v')) /\
    (av <= Z.of_nat k -> step v = Val (None, v)) /\
    forall fuel acc, left < Z.of_nat fuel -> it_count step fuel v acc = Val (Some (acc + left)).

Lemma iter_days_forward : iter_forward_statement days_next days_size_hint 1.
Proof.
  intros start k Hs. cbv zeta.
  destruct (iter_spec days_next 1 ltac:(lia) days_next_ok start k Hs) as [v [E [V [HA [HB [HC HD]]]]]].
  change (avail 1 (dn start)) with ((DN_MAX - dn start) / 1) in *.
  exists v. split; [exact E|]. split; [exact V|]. split; [exact HA|]. split; [exact HB|]. split; [|exact HD].
  rewrite days_hint_spec by exact V. rewrite HC. reflexivity.
Qed.
Lemma iter_weeks_forward : iter_forward_statement weeks_next weeks_size_hint 7.
Proof.
  intros start k Hs. cbv zeta.
  destruct (iter_spec weeks_next 7 ltac:(lia) weeks_next_ok start k Hs) as [v [E [V [HA [HB [HC HD]]]]]].
  change (avail 7 (dn start)) with ((DN_MAX - dn start) / 7) in *.
  exists v. split; [exact E|]. split; [exact V|]. split; [exact HA|]. split; [exact HB|]. split; [|exact HD].
  rewrite weeks_hint_spec by exact V. rewrite HC. reflexivity.
Qed.
Lemma iter_days_backward : iter_backward_statement days_next_back 1.
Proof.
  intros start k Hs. cbv zeta.
  destruct (iter_spec days_next_back (-1) ltac:(lia) days_next_back_ok start k Hs) as [v [E [V [HA [HB [HC HD]]]]]].
  change (avail (-1) (dn start)) with ((dn start - DN_MIN) / 1) in *.
  exists v. split; [exact E|]. split; [exact V|]. split; [|split; [exact HB|exact HD]].
  intros L. destruct (HA L) as [A1 A2]. split; [lia|exact A2].
Qed.
Lemma iter_weeks_backward : iter_backward_statement weeks_next_back 7.
Proof.
  intros start k Hs. cbv zeta.
  destruct (iter_spec weeks_next_back (-7) ltac:(lia) weeks_next_back_ok start k Hs) as [v [E [V [HA [HB [HC HD]]]]]].
  change (avail (-7) (dn start)) with ((dn start - DN_MIN) / 7) in *.
  exists v. split; [exact E|]. split; [exact V|]. split; [|split; [exact HB|exact HD]].
  intros L. destruct (HA L) as [A1 A2]. split; [lia|exact A2].
Qed.
End ModuloDate3.


(** * Both range ends are exactly reachable, one nanosecond further is refused (computed) *)
Definition ns1 : td := mk_td 0 1.
Definition NDT_MAX_m1 : ndt := mk_ndt Date.D_MAX (Time.mk_time 86399 999999998).
Definition NDT_MIN_p1 : ndt := mk_ndt Date.D_MIN (Time.mk_time 0 1).
Lemma range_ends_reachable :
  ndt_checked_add_signed NDT_MAX_m1 ns1 = Val (Some NDT_MAX) /\
  ndt_checked_add_signed NDT_MAX ns1 = Val None /\
  ndt_checked_sub_signed NDT_MIN_p1 ns1 = Val (Some NDT_MIN) /\
  ndt_checked_sub_signed NDT_MIN ns1 = Val None /\
  inst NDT_MAX = NS_MAX /\ inst NDT_MIN = NS_MIN /\
  nvalid NDT_MAX /\ nvalid NDT_MIN /\ valid ns1.
Proof. vm_compute. repeat split; congruence. Qed.

(** * Part 3: the Date model satisfies the five specifications (from the shared calendar lemmas of
    Proofs/Date.v and Proofs/C08*.v, stated over [repr y o d]) *)
Lemma year_in_range_i32 y : year_in_range y = true -> in_i32 y = true.
Proof. unfold year_in_range, MIN_YEAR, MAX_YEAR. solve_in. Qed.
Lemma valid_yo_u32 y o : valid_yo y o = true -> in_u32 o = true.
Proof. unfold valid_yo, days_in_year. destruct (is_leap y); solve_in. Qed.

Lemma vdate_repr d : vdate d <-> C08Sweeps.repr (Date.d_year d) (Date.d_ordinal d) d.
Proof.
  split.
  - intros [Hy [Ho E]]. split; [exact Hy|]. split; [exact Ho|].
    rewrite C08Date.from_yo_opt_spec in E by (eauto using year_in_range_i32, valid_yo_u32).
    rewrite Hy, Ho in E. unfold C08Date.date_if in E. cbn [andb] in E. injection E as E'. symmetry. exact E'.
  - intros H. pose proof H as [Hy [Ho E]]. split; [exact Hy|]. split; [exact Ho|].
    rewrite C08Date.from_yo_opt_spec by (eauto using year_in_range_i32, valid_yo_u32).
    rewrite Hy, Ho. unfold C08Date.date_if. cbn [andb]. rewrite <- E. reflexivity.
Qed.
Lemma repr_vdate y o d : C08Sweeps.repr y o d -> vdate d /\ dn d = dn_of_yo y o.
Proof.
  intros H. pose proof (C08Date.repr_acc y o d H) as A.
  destruct (md_of_ordinal (is_leap y) o). destruct A as [Ey [Eo _]].
  split; [apply (proj2 (vdate_repr d)); rewrite Ey, Eo; exact H|]. unfold dn. rewrite Ey, Eo. reflexivity.
Qed.
Lemma date_of_dn_vdate n : dn_in_range n = true ->
  vdate (C08AddDays.date_of_dn n) /\ dn (C08AddDays.date_of_dn n) = n.
Proof.
  intros Hn. pose proof (Proofs.Date.date_of_dn_repr n Hn) as H.
  destruct (repr_vdate _ _ _ H) as [V D]. split; [exact V|]. rewrite D.
  destruct (C08Days.yo_of_dn_valid n) as [_ E]. exact E.
Qed.

Lemma add_days_holds : add_days_ok.
Proof.
  intros d n Hd Hn. apply (proj1 (vdate_repr d)) in Hd.
  rewrite (C08AddDays.add_days_spec _ _ _ _ Hd Hn). fold (dn d).
  eexists. split; [reflexivity|].
  destruct (dn_in_range (dn d + n)) eqn:E; cbn [C08Date.date_if].
  - apply date_of_dn_vdate. exact E.
  - reflexivity.
Qed.
Lemma date_diff_holds : date_diff_ok.
Proof.
  intros a b Ha Hb. apply (proj1 (vdate_repr a)) in Ha. apply (proj1 (vdate_repr b)) in Hb.
  exact (Proofs.Date.signed_duration_since_spec _ _ _ _ _ _ Ha Hb).
Qed.
Lemma succ_holds : succ_ok.
Proof.
  intros d Hd. pose proof (vdate_range d Hd) as Rg. apply (proj1 (vdate_repr d)) in Hd.
  rewrite (Proofs.Date.succ_opt_spec _ _ _ Hd). fold (dn d).
  eexists. split; [reflexivity|].
  destruct (dn_in_range (dn d + 1)) eqn:E; cbn [C08Date.date_if].
  - apply date_of_dn_vdate. exact E.
  - unfold dn_in_range in E. lia.
Qed.
Lemma pred_holds : pred_ok.
Proof.
  intros d Hd. pose proof (vdate_range d Hd) as Rg. apply (proj1 (vdate_repr d)) in Hd.
  rewrite (Proofs.Date.pred_opt_spec _ _ _ Hd). fold (dn d).
  eexists. split; [reflexivity|].
  destruct (dn_in_range (dn d - 1)) eqn:E; cbn [C08Date.date_if].
  - apply date_of_dn_vdate. exact E.
  - unfold dn_in_range in E. lia.
Qed.
Lemma date_ord_holds : date_ord_ok.
Proof.
  intros a b Ha Hb. apply (proj1 (vdate_repr a)) in Ha. apply (proj1 (vdate_repr b)) in Hb.
  exact (Proofs.Date.order_spec _ _ _ _ _ _ Ha Hb).
Qed.

(** the public-constructor reading of [vdate] *)
Lemma vdate_constructed d :
  vdate d <-> exists y o, year_in_range y = true /\ valid_yo y o = true /\ Date.from_yo_opt y o = Val (Some d).
Proof.
  split.
  - intros [Hy [Ho E]]. eauto.
  - intros [y [o [Hy [Ho E]]]].
    rewrite C08Date.from_yo_opt_spec in E by (eauto using year_in_range_i32, valid_yo_u32).
    rewrite Hy, Ho in E. unfold C08Date.date_if in E. cbn [andb] in E. injection E as E'.
    apply (repr_vdate y o d). split; [exact Hy|]. split; [exact Ho|]. symmetry. exact E'.
Qed.

(** * Part 4: the unconditional theorems *)
Lemma ndt_add_exact_u a d : nvalid a -> valid d ->
  exists r, ndt_checked_add_signed a d = Val r /\ ndt_res (inst a + ns d) r.
Proof. exact (ndt_add_exact add_days_holds a d). Qed.
Lemma ndt_sub_exact_u a d : nvalid a -> valid d ->
  exists r, ndt_checked_sub_signed a d = Val r /\ ndt_res (inst a - ns d) r.
Proof. exact (ndt_sub_exact add_days_holds a d). Qed.
Lemma ndt_diff_exact_u a b : nvalid a -> nvalid b ->
  exists d, ndt_signed_duration_since a b = Val d /\ valid d /\ ns d = inst a - inst b.
Proof. exact (ndt_diff_exact date_diff_holds a b). Qed.
Lemma ndt_roundtrip_u a b : nvalid a -> nvalid b ->
  exists d, ndt_signed_duration_since a b = Val d /\ ndt_checked_add_signed b d = Val (Some a).
Proof. exact (ndt_roundtrip add_days_holds date_diff_holds a b). Qed.
Lemma ndt_order_u a b : nvalid a -> nvalid b ->
  exists d, ndt_signed_duration_since a b = Val d /\
    td_cmp d (mk_td 0 0) = cmpZ (inst a) (inst b) /\ ndt_cmp a b = cmpZ (inst a) (inst b).
Proof. exact (ndt_order date_diff_holds date_ord_holds a b). Qed.
Lemma date_add_days_exact_u d n : vdate d -> in_u64 n = true ->
  exists r, Date.checked_add_days d n = Val r /\ date_res d (dn d + n) r.
Proof. exact (date_add_days_exact add_days_holds d n). Qed.
Lemma date_sub_days_exact_u d n : vdate d -> in_u64 n = true ->
  exists r, Date.checked_sub_days d n = Val r /\ date_res d (dn d - n) r.
Proof. exact (date_sub_days_exact add_days_holds d n). Qed.
Lemma date_add_signed_trunc_u d x : vdate d -> valid x ->
  exists r, Date.checked_add_signed d x = Val r /\ date_res d (dn d + Z.quot (ns x) DAYNS) r.
Proof. exact (date_add_signed_trunc add_days_holds d x). Qed.
Lemma date_sub_signed_trunc_u d x : vdate d -> valid x ->
  exists r, Date.checked_sub_signed d x = Val r /\ date_res d (dn d - Z.quot (ns x) DAYNS) r.
Proof. exact (date_sub_signed_trunc add_days_holds d x). Qed.
Lemma ndt_days_exact_u a n : nvalid a -> in_u64 n = true ->
  (exists r, ndt_checked_add_days a n = Val r /\ ndt_res (inst a + n * DAYNS) r) /\
  (exists r, ndt_checked_sub_days a n = Val r /\ ndt_res (inst a - n * DAYNS) r).
Proof. exact (ndt_days_exact add_days_holds a n). Qed.
Lemma iter_days_forward_u : iter_forward_statement days_next days_size_hint 1.
Proof. exact (iter_days_forward date_diff_holds succ_holds). Qed.
Lemma iter_weeks_forward_u : iter_forward_statement weeks_next weeks_size_hint 7.
Proof. exact (iter_weeks_forward add_days_holds date_diff_holds). Qed.
Lemma iter_days_backward_u : iter_backward_statement days_next_back 1.
Proof. exact (iter_days_backward pred_holds). Qed.
Lemma iter_weeks_backward_u : iter_backward_statement weeks_next_back 7.
Proof. exact (iter_weeks_backward add_days_holds). Qed.

(** operator forms: the exact value where the instant is representable, panic exactly elsewhere *)
Definition in_ns_range (t : Z) : bool := (NS_MIN <=? t) && (t <=? NS_MAX).
Lemma op_nadd_exact a d : nvalid a -> valid d ->
  if in_ns_range (inst a + ns d)
  then exists b, op_nadd_td a d = Val b /\ nvalid b /\ inst b = inst a + ns d
  else op_nadd_td a d = Panic.
Proof.
  intros Ha Hd. destruct (ndt_add_exact_u a d Ha Hd) as [r [E R]]. unfold op_nadd_td, unwrap_r. rewrite E. cbn [bind].
  unfold in_ns_range. destruct r as [b|]; cbn in R |- *.
  - destruct R as [V I]. pose proof (nvalid_inst_range b V) as Rg. rewrite I in Rg.
    replace ((NS_MIN <=? inst a + ns d) && (inst a + ns d <=? NS_MAX)) with true by lia. eauto.
  - replace ((NS_MIN <=? inst a + ns d) && (inst a + ns d <=? NS_MAX)) with false by lia. reflexivity.
Qed.
Lemma op_nsub_exact a d : nvalid a -> valid d ->
  if in_ns_range (inst a - ns d)
  then exists b, op_nsub_td a d = Val b /\ nvalid b /\ inst b = inst a - ns d
  else op_nsub_td a d = Panic.
Proof.
  intros Ha Hd. destruct (ndt_sub_exact_u a d Ha Hd) as [r [E R]]. unfold op_nsub_td, unwrap_r. rewrite E. cbn [bind].
  unfold in_ns_range. destruct r as [b|]; cbn in R |- *.
  - destruct R as [V I]. pose proof (nvalid_inst_range b V) as Rg. rewrite I in Rg.
    replace ((NS_MIN <=? inst a - ns d) && (inst a - ns d <=? NS_MAX)) with true by lia. eauto.
  - replace ((NS_MIN <=? inst a - ns d) && (inst a - ns d <=? NS_MAX)) with false by lia. reflexivity.
Qed.

(** zone-aware values: the instant moves exactly, the offset is kept, refusal does not depend on the offset *)
Lemma zone_add_exact u off d : nvalid u -> valid d ->
  exists r, dz_checked_add_signed (mk_dtz u off) d = Val r /\
    match r with
    | Some z => dz_off z = off /\ nvalid (dz_utc z) /\ inst (dz_utc z) = inst u + ns d
    | None => ~ (NS_MIN <= inst u + ns d <= NS_MAX)
    end.
Proof.
  intros Hu Hd. destruct (zone_add_sub u off d) as [E _]. rewrite E.
  destruct (ndt_add_exact_u u d Hu Hd) as [r [E2 R]]. rewrite E2.
  destruct r as [b|]; cbn in R |- *; eexists; (split; [reflexivity|]); cbn; [|exact R].
  destruct R as [V I]. auto.
Qed.
Lemma zone_sub_exact u off d : nvalid u -> valid d ->
  exists r, dz_checked_sub_signed (mk_dtz u off) d = Val r /\
    match r with
    | Some z => dz_off z = off /\ nvalid (dz_utc z) /\ inst (dz_utc z) = inst u - ns d
    | None => ~ (NS_MIN <= inst u - ns d <= NS_MAX)
    end.
Proof.
  intros Hu Hd. destruct (zone_add_sub u off d) as [_ E]. rewrite E.
  destruct (ndt_sub_exact_u u d Hu Hd) as [r [E2 R]]. rewrite E2.
  destruct r as [b|]; cbn in R |- *; eexists; (split; [reflexivity|]); cbn; [|exact R].
  destruct R as [V I]. auto.
Qed.
Lemma zone_diff_exact u1 o1 u2 o2 : nvalid u1 -> nvalid u2 ->
  exists d, dz_signed_duration_since (mk_dtz u1 o1) (mk_dtz u2 o2) = Val d /\ valid d /\ ns d = inst u1 - inst u2.
Proof. intros H1 H2. rewrite zone_diff. exact (ndt_diff_exact_u u1 u2 H1 H2). Qed.

(** * Part 5: Days on zone-aware values whose local reading is representable *)
Lemma oao_spec t off : tvalid t -> -86400 < off < 86400 ->
  exists t' k, Time.overflowing_add_offset t off = Val (t', k) /\ tvalid t' /\
    Time.tfrac t' = Time.tfrac t /\ Time.tsecs t' + 86400 * k = Time.tsecs t + off /\ -1 <= k <= 1.
Proof.
  intros [Hs Hf] Ho. unfold Time.overflowing_add_offset, tvalid.
  rewrite as_i32_id by solve_in. unfold add_i32, chk.
  replace (in_i32 (Time.tsecs t + off)) with true by (symmetry; solve_in). cbn [bind].
  rewrite div_euclid_pos, rem_euclid_pos by lia. unfold chk.
  replace (in_i32 ((Time.tsecs t + off) / 86400)) with true by (symmetry; solve_in). cbn [bind].
  do 2 eexists. split; [reflexivity|]. cbn [Time.tsecs Time.tfrac].
  rewrite as_u32_id by solve_in. repeat split; lia.
Qed.
Lemma oso_spec t off : tvalid t -> -86400 < off < 86400 ->
  exists t' k, Time.overflowing_sub_offset t off = Val (t', k) /\ tvalid t' /\
    Time.tfrac t' = Time.tfrac t /\ Time.tsecs t' + 86400 * k = Time.tsecs t - off /\ -1 <= k <= 1.
Proof.
  intros [Hs Hf] Ho. unfold Time.overflowing_sub_offset, tvalid.
  rewrite as_i32_id by solve_in. unfold sub_i32, chk.
  replace (in_i32 (Time.tsecs t - off)) with true by (symmetry; solve_in). cbn [bind].
  rewrite div_euclid_pos, rem_euclid_pos by lia. unfold chk.
  replace (in_i32 ((Time.tsecs t - off) / 86400)) with true by (symmetry; solve_in). cbn [bind].
  do 2 eexists. split; [reflexivity|]. cbn [Time.tsecs Time.tfrac].
  rewrite as_u32_id by solve_in. repeat split; lia.
Qed.

(** moving a date by the carry of an offset: -1, 0 or +1 day *)
Lemma shift_checked_spec d k : vdate d -> -1 <= k <= 1 ->
  exists r, shift_date_checked d k = Val r /\ date_res d (dn d + k) r.
Proof.
  intros Hd Hk. pose proof (vdate_range d Hd) as Rg. unfold shift_date_checked.
  destruct (k =? -1) eqn:E1.
  - destruct (pred_holds d Hd) as [r [E R]]. exists r. split; [exact E|].
    replace (dn d + k) with (dn d - 1) by lia. destruct r; cbn; [exact R|unfold dn_in_range; lia].
  - destruct (k =? 1) eqn:E2.
    + destruct (succ_holds d Hd) as [r [E R]]. exists r. split; [exact E|].
      replace (dn d + k) with (dn d + 1) by lia. destruct r; cbn; [exact R|unfold dn_in_range; lia].
    + exists (Some d). split; [reflexivity|]. cbn. split; [exact Hd|lia].
Qed.
Lemma shift_overflowing_spec d k : vdate d -> -1 <= k <= 1 -> dn_in_range (dn d + k) = true ->
  exists d', shift_date_overflowing d k = Val d' /\ vdate d' /\ dn d' = dn d + k.
Proof.
  intros Hd Hk Hr. pose proof (vdate_range d Hd) as Rg. unfold shift_date_overflowing. unfold dn_in_range in Hr.
  destruct (k =? -1) eqn:E1.
  - destruct (pred_holds d Hd) as [r [E R]]. rewrite E. cbn [bind].
    destruct r as [d'|]; [|lia]. exists d'. split; [reflexivity|]. destruct R as [R1 R2]. split; [exact R1|lia].
  - destruct (k =? 1) eqn:E2.
    + destruct (succ_holds d Hd) as [r [E R]]. rewrite E. cbn [bind].
      destruct r as [d'|]; [|lia]. exists d'. split; [reflexivity|]. destruct R as [R1 R2]. split; [exact R1|lia].
    + exists d. split; [reflexivity|]. split; [exact Hd|lia].
Qed.

(** naive date-time +- fixed offset *)
Lemma ndt_sub_offset_spec l off : nvalid l -> -86400 < off < 86400 ->
  exists r, ndt_checked_sub_offset l off = Val r /\ ndt_res (inst l - off * G) r.
Proof.
  intros [Hd Ht] Ho. unfold ndt_checked_sub_offset.
  destruct (oso_spec _ off Ht Ho) as [t' [k [E [Vt [Ef [Es Hk]]]]]]. rewrite E. cbn [bind].
  destruct (shift_checked_spec _ k Hd Hk) as [r [E2 R]]. unfold obind. rewrite E2. cbn [bind].
  pose proof (vdate_range _ Hd) as Rg. destruct Ht as [Hs Hf]. pose proof Vt as [Vs Vf].
  rewrite inst_split. unfold tns.
  destruct r as [d'|]; cbn in R |- *; eexists; (split; [reflexivity|]); cbn.
  - destruct R as [R1 R2]. split; [split; assumption|]. rewrite inst_split. unfold tns. cbn [nd_date nd_time].
    rewrite R2, Ef. unfold DAYNS, G in *. lia.
  - unfold dn_in_range, NS_MIN, NS_MAX, DN_MIN, DN_MAX, EPOCH_DN, DAYNS, G in *. lia.
Qed.
Lemma naive_local_spec u off : nvalid u -> -86400 < off < 86400 -> NS_MIN <= inst u + off * G <= NS_MAX ->
  exists l, ndt_overflowing_add_offset u off = Val l /\ nvalid l /\ inst l = inst u + off * G.
Proof.
  intros [Hd Ht] Ho Hr. unfold ndt_overflowing_add_offset.
  destruct (oao_spec _ off Ht Ho) as [t' [k [E [Vt [Ef [Es Hk]]]]]]. rewrite E. cbn [bind].
  pose proof (vdate_range _ Hd) as Rg. destruct Ht as [Hs Hf]. pose proof Vt as [Vs Vf].
  rewrite inst_split in Hr. unfold tns in Hr.
  assert (Hin : dn_in_range (dn (nd_date u) + k) = true).
  { unfold dn_in_range, NS_MIN, NS_MAX, DN_MIN, DN_MAX, EPOCH_DN, DAYNS, G in *. lia. }
  destruct (shift_overflowing_spec _ k Hd Hk Hin) as [d' [E2 [V2 D2]]]. rewrite E2. cbn [bind].
  eexists. split; [reflexivity|]. split; [split; assumption|].
  rewrite !inst_split. unfold tns. cbn [nd_date nd_time]. rewrite D2, Ef. unfold DAYNS, G in *. lia.
Qed.

Lemma ndt_le_max x : nvalid x -> ndt_le x NDT_MAX = true /\ ndt_le NDT_MIN x = true.
Proof.
  intros Hx. destruct range_ends_reachable as (_ & _ & _ & _ & Imax & Imin & Vmax & Vmin & _).
  pose proof (nvalid_inst_range x Hx) as Rg. unfold ndt_le.
  destruct (ndt_order_u x NDT_MAX Hx Vmax) as [d1 [_ [_ C1]]].
  destruct (ndt_order_u NDT_MIN x Vmin Hx) as [d2 [_ [_ C2]]].
  rewrite C1, C2, Imax, Imin. unfold cmpZ.
  destruct (inst x ?= NS_MAX) eqn:E1; destruct (NS_MIN ?= inst x) eqn:E2;
    rewrite ?Z.compare_eq_iff, ?Z.compare_lt_iff, ?Z.compare_gt_iff in *; split; try reflexivity; lia.
Qed.

Definition zdays_res (u : ndt) (off target : Z) (r : option dtz) : Prop :=
  match r with
  | Some z => dz_off z = off /\ nvalid (dz_utc z) /\ inst (dz_utc z) = target
  | None => ~ (NS_MIN <= target <= NS_MAX /\ NS_MIN <= target + off * G <= NS_MAX)
  end.

Lemma zone_days_exact_partial u off n : nvalid u -> -86400 < off < 86400 -> in_u64 n = true ->
  NS_MIN <= inst u + off * G <= NS_MAX ->
  (exists r, dz_checked_add_days (mk_dtz u off) n = Val r /\ zdays_res u off (inst u + n * DAYNS) r) /\
  (exists r, dz_checked_sub_days (mk_dtz u off) n = Val r /\ zdays_res u off (inst u - n * DAYNS) r).
Proof.
  intros Hu Ho Hn Hl. pose proof (nvalid_inst_range u Hu) as Ru.
  destruct (naive_local_spec u off Hu Ho Hl) as [l [El [Vl Il]]].
  destruct (ndt_days_exact_u l n Vl Hn) as [[ra [Ea Ra]] [rs [Es Rs]]].
  split.
  - unfold dz_checked_add_days. destruct (n =? 0) eqn:E0.
    + exists (Some (mk_dtz u off)). split; [reflexivity|]. cbn. repeat split; try apply Hu. lia.
    + unfold overflowing_naive_local. cbn [dz_utc dz_off]. rewrite El. cbn [bind]. unfold obind. rewrite Ea. cbn [bind].
      destruct ra as [l'|]; cbn in Ra.
      * destruct Ra as [Vl' Il']. unfold from_local_datetime.
        destruct (ndt_sub_offset_spec l' off Vl' Ho) as [r2 [E2 R2]]. rewrite E2. cbn [bind].
        destruct r2 as [x|]; cbn in R2 |- *.
        -- destruct R2 as [Vx Ix]. destruct (ndt_le_max x Vx) as [Le _]. rewrite Le.
           eexists. split; [reflexivity|]. cbn. split; [reflexivity|]. split; [exact Vx|]. lia.
        -- eexists. split; [reflexivity|]. cbn. lia.
      * eexists. split; [reflexivity|]. cbn. lia.
  - unfold dz_checked_sub_days.
    unfold overflowing_naive_local. cbn [dz_utc dz_off]. rewrite El. cbn [bind]. unfold obind. rewrite Es. cbn [bind].
    destruct rs as [l'|]; cbn in Rs.
    + destruct Rs as [Vl' Il']. unfold from_local_datetime.
      destruct (ndt_sub_offset_spec l' off Vl' Ho) as [r2 [E2 R2]]. rewrite E2. cbn [bind].
      destruct r2 as [x|]; cbn in R2 |- *.
      * destruct R2 as [Vx Ix]. destruct (ndt_le_max x Vx) as [_ Le]. rewrite Le.
        eexists. split; [reflexivity|]. cbn. split; [reflexivity|]. split; [exact Vx|]. lia.
      * eexists. split; [reflexivity|]. cbn. lia.
    + eexists. split; [reflexivity|]. cbn. lia.
Qed.
