(** C03 — proofs.  Part 1: operator forms, zone invariance, the refutation witness for the backward
    length hint (all closed, no hypotheses). *)
From Coq Require Import ZArith List Bool Lia ZifyBool.
From V Require Import Base.Int Base.IO Base.IntLemmas Model.TimeDelta Model.DateTime Model.C03.
From V Require Model.Date Model.Time.
Import ListNotations.
Open Scope Z_scope.

(** * Operator forms agree with the checked forms: value where [Some], panic exactly where [None] *)
Definition agrees {A} (op : R A) (checked : R (option A)) : Prop :=
  match checked with
  | Val (Some r) => op = Val r
  | Val None => op = Panic
  | Panic => op = Panic
  | OutOfFuel => op = OutOfFuel
  end.
Lemma unwrap_r_agrees {A} (c : R (option A)) : agrees (unwrap_r c) c.
Proof. destruct c as [[r|]| |]; reflexivity. Qed.

Lemma ops_agree_ndt a d :
  agrees (op_nadd_td a d) (ndt_checked_add_signed a d) /\ agrees (op_nsub_td a d) (ndt_checked_sub_signed a d).
Proof. split; apply unwrap_r_agrees. Qed.
Lemma ops_agree_ndt_days a n :
  agrees (op_nadd_days a n) (ndt_checked_add_days a n) /\ agrees (op_nsub_days a n) (ndt_checked_sub_days a n).
Proof. split; apply unwrap_r_agrees. Qed.
Lemma ops_agree_date d x n :
  agrees (op_dadd_td d x) (Date.checked_add_signed d x) /\ agrees (op_dsub_td d x) (Date.checked_sub_signed d x) /\
  agrees (op_dadd_days d n) (Date.checked_add_days d n) /\ agrees (op_dsub_days d n) (Date.checked_sub_days d n).
Proof. repeat split; apply unwrap_r_agrees. Qed.
Lemma ops_agree_dtz a d n :
  agrees (op_zadd_td a d) (dz_checked_add_signed a d) /\ agrees (op_zsub_td a d) (dz_checked_sub_signed a d) /\
  agrees (op_zadd_days a n) (dz_checked_add_days a n) /\ agrees (op_zsub_days a n) (dz_checked_sub_days a n).
Proof. repeat split; apply unwrap_r_agrees. Qed.
(* the assign forms have their own body: same result as the binary operator *)
Lemma ops_assign_agree a d : op_zadd_assign a d = op_zadd_td a d /\ op_zsub_assign a d = op_zsub_td a d.
Proof.
  unfold op_zadd_assign, op_zadd_td, op_zsub_assign, op_zsub_td, dz_checked_add_signed, dz_checked_sub_signed, unwrap_r, obind, bind.
  split.
  - destruct (ndt_checked_add_signed (dz_utc a) d) as [[r|]| |]; reflexivity.
  - destruct (ndt_checked_sub_signed (dz_utc a) d) as [[r|]| |]; reflexivity.
Qed.
(* the difference operators are the method *)
Lemma ops_diff_agree : (forall a b, op_nsub_ndt a b = ndt_signed_duration_since a b) /\
  (forall a b, op_zsub_z a b = dz_signed_duration_since a b) /\ (forall a b, op_dsub_date a b = Date.signed_duration_since a b).
Proof. repeat split. Qed.
(* core::time::Duration: conversion failure or arithmetic failure panic, else the TimeDelta result *)
Lemma ops_std_agree a s n :
  match from_std s n with
  | Some d => op_nadd_std a s n = op_nadd_td a d /\ op_nsub_std a s n = op_nsub_td a d
  | None => op_nadd_std a s n = Panic /\ op_nsub_std a s n = Panic
  end.
Proof. unfold op_nadd_std, op_nsub_std. destruct (from_std s n); split; reflexivity. Qed.

(** * Zone invariance: the arithmetic is on the stored UTC value, the offset is carried along *)
Definition zmap (off : Z) (r : R (option ndt)) : R (option dtz) :=
  match r with Val (Some u) => Val (Some (mk_dtz u off)) | Val None => Val None | Panic => Panic | OutOfFuel => OutOfFuel end.
Lemma zone_add_sub u off d :
  dz_checked_add_signed (mk_dtz u off) d = zmap off (ndt_checked_add_signed u d) /\
  dz_checked_sub_signed (mk_dtz u off) d = zmap off (ndt_checked_sub_signed u d).
Proof.
  unfold dz_checked_add_signed, dz_checked_sub_signed, zmap, obind, bind, from_utc_datetime. cbn [dz_utc dz_off].
  split.
  - destruct (ndt_checked_add_signed u d) as [[r|]| |]; reflexivity.
  - destruct (ndt_checked_sub_signed u d) as [[r|]| |]; reflexivity.
Qed.
Lemma zone_diff u1 o1 u2 o2 :
  dz_signed_duration_since (mk_dtz u1 o1) (mk_dtz u2 o2) = ndt_signed_duration_since u1 u2.
Proof. reflexivity. Qed.

(** * The backward length hint is not the number of remaining items (faithful model of the code) *)
Lemma hint_backward_refuted :
  let d := -2147475398 in
  Date.from_yo_opt (-262143) 3 = Val (Some d) /\
  it_hint days_next_back days_size_hint d 0 = Val (191491526, Some 191491526) /\
  it_observe days_next_back d 0 10 = Val (Some d, Some 2).
Proof. vm_compute. repeat split. Qed.
Lemma hint_backward_weeks_refuted :
  let d := -2147475206 in
  Date.from_yo_opt (-262143) 15 = Val (Some d) /\
  it_hint weeks_next_back weeks_size_hint d 0 = Val (27355930, Some 27355930) /\
  it_observe weeks_next_back d 0 10 = Val (Some d, Some 2).
Proof. vm_compute. repeat split. Qed.
