(** C05, COMPOSITE zones whose last table transition, read on the clocks involved, STRADDLES a
    calendar-year boundary (the case excluded by clause (1) of [footer_continues],
    Proofs/C05Composite.v).

    What the code needs from the join between table and footer rule is only this: the rule's offset at
    the last table transition tl is the table's; a rule transition after tl has its wall-clock window
    after the end hi of the last table window; a rule transition at or before tl has its window at or
    before hi.  [footer_continues] tests the two rule transitions of ONE year k and therefore asks
    that every reading of the instants near tl lies in that year.  [footer_continues_wide] tests the
    rule transitions of the (at most two) calendar years k1 <= k2 met by the wall-clock interval
    [tl + min(std, dst), tl + max(std, dst, pv)] and drops clause (1).  With k1 = k2 it is
    [footer_continues] ([footer_continues_wide_of]); so the _wide theorems supersede the one-year ones.

    - [footer_arith2]: the arithmetic core for two consecutive years;
    - [footer_facts_wide]: what the condition buys (the four facts of [footer_facts]);
    - [composite_instants_wide], [composite_classification_wide], [roundtrip_composite_wide];
    - [judge_spacing_footer_wide]: a zone the JUDGE calls well spaced (J.spacing_rule_table) whose
      offset after the last transition is the rule's satisfies [footer_continues_wide], with no
      condition on the position of the last transition in its year. *)
From Coq Require Import ZArith List Bool Lia ZifyBool String.
From V Require Import Base.Int Base.IO Spec.Gregorian Spec.Zone.
From V Require Import Model.TzParser Model.TzRule Model.TzLookup.
From V Require Import Proofs.TzCommon Proofs.C05 Proofs.C05Composite Proofs.C05Judge.
Import ListNotations.
Open Scope Z_scope.

(** * The condition *)
(* one rule transition T against the last table transition tl and the end hi of its window *)
Definition fcond (tl hi lo up T : Z) : bool := if T <=? tl then T + up <=? hi else hi <? T + lo.

Definition footer_year_lo (z : szone) : Z :=
  match last_window (z_trans z) (z_first z), z_rule z with
  | Some (tl, _, _), Some (inr r) => utc_year (tl + Z.min (r_std r) (r_dst r))
  | _, _ => 0
  end.
Definition footer_year_hi (z : szone) : Z :=
  match last_window (z_trans z) (z_first z), z_rule z with
  | Some (tl, pv, _), Some (inr r) => utc_year (tl + Z.max (Z.max (r_std r) (r_dst r)) pv)
  | _, _ => 0
  end.
Definition footer_continues_wide (z : szone) : bool :=
  match last_window (z_trans z) (z_first z), z_rule z with
  | Some (tl, pv, ol), Some (inr r) =>
      let hi := tl + Z.max pv ol in
      let lo := Z.min (r_std r) (r_dst r) in
      let up := Z.max (r_std r) (r_dst r) in
      let k1 := utc_year (tl + lo) in
      let k2 := utc_year (tl + Z.max up pv) in
      (k2 <=? k1 + 1) && (roff r tl =? ol) &&
      forallb (fcond tl hi lo up)
              [rule_start_utc r k1; rule_end_utc r k1; rule_start_utc r k2; rule_end_utc r k2]
  | _, _ => false
  end.

Lemma footer_continues_wide_inv z : footer_continues_wide z = true ->
  exists tl pv ol r, last_window (z_trans z) (z_first z) = Some (tl, pv, ol) /\ z_rule z = Some (inr r) /\
    let hi := tl + Z.max pv ol in
    let lo := Z.min (r_std r) (r_dst r) in
    let up := Z.max (r_std r) (r_dst r) in
    let k1 := utc_year (tl + lo) in
    let k2 := utc_year (tl + Z.max up pv) in
    k2 <= k1 + 1 /\ (roff r tl =? ol) = true /\
    fcond tl hi lo up (rule_start_utc r k1) = true /\ fcond tl hi lo up (rule_end_utc r k1) = true /\
    fcond tl hi lo up (rule_start_utc r k2) = true /\ fcond tl hi lo up (rule_end_utc r k2) = true.
Proof.
  unfold footer_continues_wide.
  destruct (last_window (z_trans z) (z_first z)) as [[[tl pv] ol]|]; [|discriminate].
  destruct (z_rule z) as [[o|r]|]; try discriminate.
  cbv zeta. cbn [forallb]. rewrite andb_true_r. intros H.
  apply andb_prop in H. destruct H as [H H3].
  apply andb_prop in H. destruct H as [H1 H2].
  apply andb_prop in H3. destruct H3 as [H3 H4].
  apply andb_prop in H4. destruct H4 as [H4 H5].
  apply andb_prop in H5. destruct H5 as [H5 H6].
  exists tl, pv, ol, r. split; [reflexivity|]. split; [reflexivity|].
  split; [apply Z.leb_le; exact H1|]. repeat (split; [assumption|]). assumption.
Qed.
Lemma footer_continues_wide_last first tr rl : footer_continues_wide (mk_szone first tr rl) = true ->
  exists tl pv ol, last_window tr first = Some (tl, pv, ol).
Proof.
  intros H. destruct (footer_continues_wide_inv _ H) as (tl & pv & ol & r & Hlw & _).
  exists tl, pv, ol. exact Hlw.
Qed.

(** * Years *)
Lemma year_start_mono a b : a <= b -> year_start a <= year_start b.
Proof.
  intros H. replace b with (a + (b - a)) by lia. generalize (b - a) (proj2 (Z.le_0_sub a b) H).
  intros n Hn. pattern n. apply natlike_ind; [rewrite Z.add_0_r; lia| |exact Hn].
  intros x Hx IH. pose proof (year_start_succ (a + x)). replace (a + Z.succ x) with (a + x + 1) by lia. lia.
Qed.
Lemma utc_year_unique k x : year_start k <= x < year_start (k + 1) -> utc_year x = k.
Proof.
  intros H. pose proof (utc_year_bounds x) as Hb. set (y := utc_year x) in *.
  destruct (Z_lt_dec y k) as [L|L].
  { pose proof (year_start_mono (y + 1) k ltac:(lia)). lia. }
  destruct (Z_lt_dec k y) as [G|G].
  { pose proof (year_start_mono (k + 1) y ltac:(lia)). lia. }
  lia.
Qed.
Lemma utc_year_mono a b : a <= b -> utc_year a <= utc_year b.
Proof.
  intros H. pose proof (utc_year_bounds a) as Ha. pose proof (utc_year_bounds b) as Hb.
  destruct (Z_le_dec (utc_year a) (utc_year b)) as [L|L]; [exact L|].
  pose proof (year_start_mono (utc_year b + 1) (utc_year a) ltac:(lia)). lia.
Qed.

(** * The one-year condition is the wide one with k1 = k2 *)
Lemma footer_continues_wide_of z : footer_continues z = true ->
  footer_continues_wide z = true /\ footer_year_lo z = footer_year z /\ footer_year_hi z = footer_year z.
Proof.
  intros H. destruct (footer_continues_inv _ H) as (tl & pv & ol & r & Hlw & Hr & H1 & H2 & H3 & H4 & H5).
  unfold footer_continues_wide, footer_year_lo, footer_year_hi, footer_year. rewrite Hlw, Hr. cbv zeta.
  set (k := utc_year (tl + ol)) in *.
  assert (Hol : ol = r_std r \/ ol = r_dst r).
  { unfold roff in H3. destruct (rule_is_dst r tl); lia. }
  assert (E1 : utc_year (tl + Z.min (r_std r) (r_dst r)) = k) by (apply utc_year_unique; lia).
  assert (E2 : utc_year (tl + Z.max (Z.max (r_std r) (r_dst r)) pv) = k).
  { apply utc_year_unique. lia. }
  rewrite E1, E2. split; [|split; reflexivity].
  rewrite H3. replace (k <=? k + 1) with true by lia. cbn [andb forallb]. unfold fcond.
  rewrite H4, H5. reflexivity.
Qed.

(** * Change points: between two instants at which the daylight predicate differs lies a rule
    transition.  [yform S E] is the oracle's predicate in terms of the two transitions of one year
    (C05_rule_is_dst_year). *)
Definition yform (S E t : Z) : bool := if S <? E then (S <=? t) && (t <? E) else (t <? E) || (S <=? t).

Lemma yform_cp S E t1 t2 : t1 < t2 -> yform S E t1 <> yform S E t2 -> t1 < S <= t2 \/ t1 < E <= t2.
Proof.
  intros Hlt Hne. unfold yform in Hne. rewrite !ite_bool in Hne.
  destruct (S <? E) eqn:N; cbn [andb orb negb] in Hne; rewrite ?andb_false_r, ?orb_false_r in Hne.
  - destruct ((S <=? t1) && (t1 <? E)) eqn:A1, ((S <=? t2) && (t2 <? E)) eqn:A2; try congruence; lia.
  - destruct ((t1 <? E) || (S <=? t1)) eqn:A1, ((t2 <? E) || (S <=? t2)) eqn:A2; try congruence; lia.
Qed.

(* an instant of which a reading lies in year 1 and a later one of which a reading lies in year 2 *)
Lemma yform_cp_cross S1 E1 S2 E2 std dst y1 y2 y3 t1 t2 :
  (y1 + 86400 < S1 + std < y2 - 86400 /\ y1 + 86400 < S1 + dst < y2 - 86400 /\
   y1 + 86400 < E1 + std < y2 - 86400 /\ y1 + 86400 < E1 + dst < y2 - 86400) ->
  (y2 + 86400 < S2 + std < y3 - 86400 /\ y2 + 86400 < S2 + dst < y3 - 86400 /\
   y2 + 86400 < E2 + std < y3 - 86400 /\ y2 + 86400 < E2 + dst < y3 - 86400) ->
  (S1 <? E1) = (S2 <? E2) -> S1 <> E1 -> S2 <> E2 ->
  (y1 <= t1 + std < y2 \/ y1 <= t1 + dst < y2) -> (y2 <= t2 + std < y3 \/ y2 <= t2 + dst < y3) ->
  t1 < t2 -> yform S1 E1 t1 <> yform S2 E2 t2 ->
  t1 < S1 <= t2 \/ t1 < E1 <= t2 \/ t1 < S2 <= t2 \/ t1 < E2 <= t2.
Proof.
  intros P1 P2 Hreg N1 N2 I1 I2 Hlt Hne.
  assert (A : S1 < t2 /\ E1 < t2 /\ t1 < S2 /\ t1 < E2) by lia.
  destruct (Z_lt_dec t1 S1) as [C1|C1]; [lia|]. destruct (Z_lt_dec t1 E1) as [C2|C2]; [lia|].
  destruct (Z_le_dec S2 t2) as [C3|C3]; [lia|]. destruct (Z_le_dec E2 t2) as [C4|C4]; [lia|].
  exfalso. apply Hne. unfold yform. rewrite Hreg.
  destruct (S2 <? E2) eqn:N.
  - replace (t1 <? E1) with false by lia. replace (S2 <=? t2) with false by lia.
    rewrite andb_false_r. reflexivity.
  - replace (S1 <=? t1) with true by lia. replace (t2 <? E2) with true by lia.
    rewrite orb_true_r. reflexivity.
Qed.

Section TwoYears.
  Variable b : Z -> bool.
  Variables S1 E1 S2 E2 std dst y1 y2 y3 : Z.
  Hypothesis Hd1 : forall t, y1 <= t + std < y2 \/ y1 <= t + dst < y2 -> b t = yform S1 E1 t.
  Hypothesis Hd2 : forall t, y2 <= t + std < y3 \/ y2 <= t + dst < y3 -> b t = yform S2 E2 t.
  Hypothesis P1 : y1 + 86400 < S1 + std < y2 - 86400 /\ y1 + 86400 < S1 + dst < y2 - 86400 /\
                  y1 + 86400 < E1 + std < y2 - 86400 /\ y1 + 86400 < E1 + dst < y2 - 86400.
  Hypothesis P2 : y2 + 86400 < S2 + std < y3 - 86400 /\ y2 + 86400 < S2 + dst < y3 - 86400 /\
                  y2 + 86400 < E2 + std < y3 - 86400 /\ y2 + 86400 < E2 + dst < y3 - 86400.
  Hypothesis Hreg : (S1 <? E1) = (S2 <? E2).
  Hypothesis N1 : S1 <> E1.
  Hypothesis N2 : S2 <> E2.
  Hypothesis Hso : -86400 < std < 86400.
  Hypothesis Hdo : -86400 < dst < 86400.

  Definition in_span (t : Z) : Prop := y1 <= t + std < y3 \/ y1 <= t + dst < y3.
  Definition is_cp (T : Z) : Prop := T = S1 \/ T = E1 \/ T = S2 \/ T = E2.

  Lemma cp2 t1 t2 : t1 < t2 -> in_span t1 -> in_span t2 -> b t1 <> b t2 ->
    exists T, is_cp T /\ t1 < T <= t2.
  Proof.
    intros Hlt I1 I2 Hne. unfold in_span, is_cp in *.
    assert (J1 : (y1 <= t1 + std < y2 \/ y1 <= t1 + dst < y2) \/ (y2 <= t1 + std < y3 \/ y2 <= t1 + dst < y3)) by lia.
    assert (J2 : (y1 <= t2 + std < y2 \/ y1 <= t2 + dst < y2) \/ (y2 <= t2 + std < y3 \/ y2 <= t2 + dst < y3)) by lia.
    destruct J1 as [J1|J1], J2 as [J2|J2].
    - rewrite (Hd1 t1 J1), (Hd1 t2 J2) in Hne. destruct (yform_cp _ _ _ _ Hlt Hne) as [H|H].
      + exists S1. split; [auto|exact H].
      + exists E1. split; [auto|exact H].
    - rewrite (Hd1 t1 J1), (Hd2 t2 J2) in Hne.
      destruct (yform_cp_cross _ _ _ _ _ _ _ _ _ _ _ P1 P2 Hreg N1 N2 J1 J2 Hlt Hne) as [H|[H|[H|H]]].
      + exists S1. split; [auto|exact H].
      + exists E1. split; [auto|exact H].
      + exists S2. split; [auto|exact H].
      + exists E2. split; [auto 6|exact H].
    - (* a reading of the earlier instant in year 2, one of the later in year 1: the earlier instant
         has a reading in year 1 too *)
      assert (J1' : y1 <= t1 + std < y2 \/ y1 <= t1 + dst < y2) by lia.
      rewrite (Hd1 t1 J1'), (Hd1 t2 J2) in Hne. destruct (yform_cp _ _ _ _ Hlt Hne) as [H|H].
      + exists S1. split; [auto|exact H].
      + exists E1. split; [auto|exact H].
    - rewrite (Hd2 t1 J1), (Hd2 t2 J2) in Hne. destruct (yform_cp _ _ _ _ Hlt Hne) as [H|H].
      + exists S2. split; [auto|exact H].
      + exists E2. split; [auto 6|exact H].
  Qed.
End TwoYears.

(** * From change points to the four facts.  [cp]: the change points; [span]: the instants for which
    the change-point property is known. *)
Lemma footer_from_cp (b : Z -> bool) (span cp : Z -> Prop) std dst ylo yhi tl pv ol :
  (forall t1 t2, t1 < t2 -> span t1 -> span t2 -> b t1 <> b t2 -> exists T, cp T /\ t1 < T <= t2) ->
  (forall t, ylo <= t + std < yhi \/ ylo <= t + dst < yhi -> span t) ->
  (forall T, cp T -> fcond tl (tl + Z.max pv ol) (Z.min std dst) (Z.max std dst) T = true) ->
  ylo <= tl + Z.min std dst -> tl + Z.max (Z.max std dst) pv < yhi ->
  ((if b tl then dst else std) =? ol) = true ->
  (if b tl then dst else std) = ol /\
  (forall t, t < tl -> t + (if b t then dst else std) <= tl + Z.max pv ol) /\
  (forall t, tl < t -> t + ol <= tl + Z.max pv ol -> (if b t then dst else std) = ol) /\
  (forall t, tl < t -> t + (if b t then dst else std) <= tl + Z.max pv ol -> (if b t then dst else std) = ol).
Proof.
  intros Hcp Hspan Hf H1 H2 H3. apply Z.eqb_eq in H3.
  assert (Stl : span tl) by (apply Hspan; lia).
  split; [exact H3|]. split; [|split].
  - intros t Ht.
    destruct (Bool.bool_dec (b t) (b tl)) as [Eb|Nb]; [rewrite Eb; destruct (b tl); lia|].
    destruct (Z_lt_dec (t + Z.max std dst) ylo) as [Far|Near]; [destruct (b t), (b tl); lia|].
    assert (St : span t) by (apply Hspan; lia).
    destruct (Hcp t tl Ht St Stl Nb) as (T & HT & Hr). specialize (Hf T HT). unfold fcond in Hf.
    replace (T <=? tl) with true in Hf by lia. destruct (b t), (b tl); lia.
  - intros t Ht Hle.
    destruct (Bool.bool_dec (b tl) (b t)) as [Eb|Nb]; [rewrite <- Eb; exact H3|]. exfalso.
    assert (St : span t) by (apply Hspan; destruct (b tl); lia).
    destruct (Hcp tl t Ht Stl St Nb) as (T & HT & Hr). specialize (Hf T HT). unfold fcond in Hf.
    replace (T <=? tl) with false in Hf by lia. destruct (b tl); lia.
  - intros t Ht Hle.
    destruct (Bool.bool_dec (b tl) (b t)) as [Eb|Nb]; [rewrite <- Eb; exact H3|]. exfalso.
    assert (St : span t) by (apply Hspan; destruct (b t), (b tl); lia).
    destruct (Hcp tl t Ht Stl St Nb) as (T & HT & Hr). specialize (Hf T HT). unfold fcond in Hf.
    replace (T <=? tl) with false in Hf by lia. destruct (b t), (b tl); lia.
Qed.

(** * What the wide condition buys: the four facts of [footer_facts] *)
Definition join_facts (r : srule) (tl pv ol : Z) : Prop :=
  let hi := tl + Z.max pv ol in
  roff r tl = ol /\
  (forall t, t < tl -> t + roff r t <= hi) /\
  (forall t, tl < t -> t + ol <= hi -> roff r t = ol) /\
  (forall t, tl < t -> t + roff r t <= hi -> roff r t = ol).

Lemma footer_facts_join first tr r tl pv ol :
  last_window tr first = Some (tl, pv, ol) ->
  footer_continues (mk_szone first tr (Some (inr r))) = true ->
  rule_year_hyps r (utc_year (tl + ol)) -> join_facts r tl pv ol.
Proof. exact (footer_facts first tr r tl pv ol). Qed.

Lemma rule_year_premise r k : rule_year_hyps r k ->
  (year_start k + 86400 < rule_start_utc r k + r_std r < year_start (k + 1) - 86400 /\
   year_start k + 86400 < rule_start_utc r k + r_dst r < year_start (k + 1) - 86400 /\
   year_start k + 86400 < rule_end_utc r k + r_std r < year_start (k + 1) - 86400 /\
   year_start k + 86400 < rule_end_utc r k + r_dst r < year_start (k + 1) - 86400) /\
  rule_start_utc r k <> rule_end_utc r k.
Proof. intros (_ & _ & _ & _ & _ & P0 & _). exact (premise_year_prop r k P0). Qed.

Lemma footer_facts_wide first tr r tl pv ol :
  let cz := mk_szone first tr (Some (inr r)) in
  last_window tr first = Some (tl, pv, ol) ->
  footer_continues_wide cz = true ->
  rule_year_hyps r (footer_year_lo cz) -> rule_year_hyps r (footer_year_hi cz) ->
  join_facts r tl pv ol.
Proof.
  intros cz Hlw Hfc Hy1 Hy2. subst cz.
  destruct (footer_continues_wide_inv _ Hfc) as (tl' & pv' & ol' & r' & Hlw' & Hr' & Hrest).
  unfold footer_year_lo, footer_year_hi in Hy1, Hy2.
  cbn [z_trans z_first z_rule] in Hlw', Hr', Hy1, Hy2. rewrite Hlw in Hlw', Hy1, Hy2.
  injection Hlw' as <- <- <-. injection Hr' as <-.
  cbv zeta in Hrest. destruct Hrest as (Hk & H3 & F1 & F2 & F3 & F4).
  set (std := r_std r) in *. set (dst := r_dst r) in *.
  set (k1 := utc_year (tl + Z.min std dst)) in *.
  set (k2 := utc_year (tl + Z.max (Z.max std dst) pv)) in *.
  assert (Hk' : k1 <= k2) by (apply utc_year_mono; lia).
  pose proof (utc_year_bounds (tl + Z.min std dst)) as B1. fold k1 in B1.
  pose proof (utc_year_bounds (tl + Z.max (Z.max std dst) pv)) as B2. fold k2 in B2.
  pose proof (fun t => rule_is_dst_year r k1 t Hy1) as Hd1. fold std dst in Hd1.
  pose proof (fun t => rule_is_dst_year r k2 t Hy2) as Hd2. fold std dst in Hd2.
  unfold join_facts, roff. cbv zeta. fold std dst. unfold roff in H3. fold std dst in H3.
  destruct (Z.eq_dec k2 k1) as [Ek|Nk].
  - (* one year *)
    rewrite Ek in *.
    apply (footer_from_cp (rule_is_dst r)
             (fun t => year_start k1 <= t + std < year_start (k1 + 1) \/ year_start k1 <= t + dst < year_start (k1 + 1))
             (fun T => T = rule_start_utc r k1 \/ T = rule_end_utc r k1)
             std dst (year_start k1) (year_start (k1 + 1)) tl pv ol).
    + intros t1 t2 Hlt I1 I2 Hne. rewrite (Hd1 t1 I1), (Hd1 t2 I2) in Hne.
      destruct (yform_cp _ _ _ _ Hlt Hne) as [H|H]; eauto.
    + intros t H. exact H.
    + intros T [-> | ->]; assumption.
    + lia.
    + lia.
    + exact H3.
  - (* two consecutive years *)
    assert (Ek : k2 = k1 + 1) by lia. rewrite Ek in *.
    destruct (rule_year_premise r k1 Hy1) as [P1 N1]. destruct (rule_year_premise r (k1 + 1) Hy2) as [P2 N2].
    fold std dst in P1, P2. replace (k1 + 1 + 1) with (k1 + 2) in * by lia.
    assert (Hreg : (rule_start_utc r k1 <? rule_end_utc r k1) = (rule_start_utc r (k1 + 1) <? rule_end_utc r (k1 + 1))).
    { destruct Hy2 as (_ & _ & _ & _ & _ & _ & _ & _ & Hreg). replace (k1 + 1 - 1) with k1 in Hreg by lia. exact Hreg. }
    destruct Hy1 as (Hso & Hdo & _). fold std dst in Hso, Hdo.
    apply (footer_from_cp (rule_is_dst r)
             (in_span std dst (year_start k1) (year_start (k1 + 2)))
             (is_cp (rule_start_utc r k1) (rule_end_utc r k1) (rule_start_utc r (k1 + 1)) (rule_end_utc r (k1 + 1)))
             std dst (year_start k1) (year_start (k1 + 2)) tl pv ol).
    + intros t1 t2. apply (cp2 (rule_is_dst r) _ _ _ _ std dst (year_start k1) (year_start (k1 + 1)) (year_start (k1 + 2)));
        assumption.
    + intros t H. exact H.
    + intros T [-> |[-> |[-> | ->]]]; assumption.
    + lia.
    + lia.
    + exact H3.
Qed.

(** * The oracle on a composite zone, from the four facts *)
Theorem composite_instants_join first tr r tl pv ol l :
  increasing tr = true -> ordered (windows tr first) = true ->
  last_window tr first = Some (tl, pv, ol) -> join_facts r tl pv ol ->
  let cz := mk_szone first tr (Some (inr r)) in
  (l <= tl + Z.max pv ol ->
   forall t, In t (instants_of_wall cz l) <-> In t (instants_of_wall (mk_szone first tr None) l)) /\
  (tl + Z.max pv ol < l ->
   forall t, In t (instants_of_wall cz l) <-> In t (instants_of_wall (mk_szone first [] (Some (inr r))) l)).
Proof.
  intros Hinc Hord Hlw (Hc & Hbefore & Ha1 & Ha2) cz. cbv zeta in *.
  pose proof (proj2 (last_window_after _ _ _ _ _ Hinc Hlw)) as Hafter.
  pose proof (last_window_before _ _ _ _ _ Hord Hlw) as Htb.
  split; intros Hl t; unfold cz; rewrite (instants_composite first tr r tl pv ol l t Hinc Hlw Hc).
  - rewrite instants_of_wall_table. destruct (t <? tl) eqn:E; [tauto|].
    rewrite (Hafter t ltac:(lia)).
    destruct (Z.eq_dec t tl) as [->|Hne]; [rewrite Hc; tauto|].
    split; intros H.
    + rewrite (Ha2 t ltac:(lia) ltac:(lia)) in H. exact H.
    + rewrite (Ha1 t ltac:(lia) ltac:(lia)). exact H.
  - rewrite instants_rule_only. destruct (t <? tl) eqn:E; [|tauto].
    specialize (Htb t ltac:(lia)). specialize (Hbefore t ltac:(lia)). lia.
Qed.

Theorem composite_classification_join z ps first a tl pv ol l :
  let k := utc_year l in let r := conv_rule a in
  let cz := mk_szone (ut_offset first) (offs ps) (Some (inr r)) in
  table_zone z ps first -> extra_rule z = Some (Alternate a) -> alt_ok a -> r_std r <> r_dst r ->
  increasing (offs ps) = true -> spacing_table (offs ps) (ut_offset first) = true ->
  last_window (offs ps) (ut_offset first) = Some (tl, pv, ol) -> join_facts r tl pv ol ->
  (tl + Z.max pv ol < l -> rule_reading_hyps a l) ->
  excepted_wall cz l = false ->
  exists m, find_local_time_type_from_local z k l = Val (Ok m) /\ classified cz l m.
Proof.
  intros k r cz Hz Hr Ha Hne Hinc Hsp Hlw Hjoin Hrl Hex.
  unfold spacing_table in Hsp.
  destruct (composite_instants_join (ut_offset first) (offs ps) r tl pv ol l Hinc Hsp Hlw Hjoin) as [HA HB].
  unfold excepted_wall, cz in Hex. cbn [z_trans z_first z_rule] in Hex. apply orb_false_elim in Hex.
  destruct Hex as [Hext Hexr].
  rewrite (from_local_scan z ps first k l Hz), Hr.
  destruct (scanL ps first l) as [m|last] eqn:Es.
  - exists m. split; [reflexivity|].
    pose proof (scanL_inl _ _ _ _ _ _ _ Hsp Es Hlw) as Hl.
    apply (classified_ext cz (mk_szone (ut_offset first) (offs ps) None)); [exact (HA Hl)|].
    pose proof (table_classification ps first l Hinc Hsp Hext) as H. cbv zeta in H.
    unfold table_answer in H. rewrite Es in H. unfold classified. cbv zeta.
    destruct m as [|x|x y].
    + destruct (instants_of_wall (mk_szone (ut_offset first) (offs ps) None) l) as [|t rest] eqn:E; [reflexivity|].
      exfalso. apply (H t). apply instants_of_wall_table. rewrite E. left. reflexivity.
    + destruct H as [Hx Hu]. intros t. rewrite instants_of_wall_table. split; [apply Hu|intros ->; exact Hx].
    + destruct H as (Hx & Hy & Hlt & Hu). split; [exact Hlt|]. intros t. rewrite instants_of_wall_table.
      split; [apply Hu|intros [-> | ->]; assumption].
  - destruct (scanL_inr _ _ _ _ _ _ _ Es Hlw) as [Hl _].
    destruct (Hrl Hl) as (Hk & Hyk & Hyo). fold k in Hk, Hyk, Hyo.
    set (z0 := mk_tz [] [first] [] (Some (Alternate a))).
    pose proof (rule_zone_classification z0 a first l eq_refl eq_refl eq_refl Ha Hk Hne Hyk) as Hc.
    pose proof (from_local_rule_zone z0 a first k l eq_refl eq_refl eq_refl Ha Hk Hne) as Hm0.
    pose proof (rule_local_as_table a k l Ha Hk Hne) as Hm.
    pose proof (excepted_wall_year_table a (ut_offset first) l) as Hey.
    cbv zeta in Hc, Hey. fold k r in Hc, Hey.
    destruct (year_table a k) as [yps yprev]. cbn [fst snd] in Hyo.
    assert (Hexy : excepted_table (offs yps) (ut_offset yprev) l = false).
    { apply Hey. unfold excepted_wall. cbn [z_trans z_first z_rule excepted_table orb]. exact Hexr. }
    specialize (Hc Hyo Hexy). specialize (Hm0 Hyo Hexy). specialize (Hm Hyo Hexy).
    destruct Hc as (m & Hm0' & Hcl). rewrite Hm0 in Hm0'. injection Hm0' as <-.
    exists (table_answer yps yprev l). split.
    + cbn [rule_find_local_time_type_from_local]. rewrite Hm. reflexivity.
    + apply (classified_ext cz (mk_szone (ut_offset first) [] (Some (inr r)))); [exact (HB Hl)|exact Hcl].
Qed.

(** * The theorems under the wide condition *)
Theorem composite_instants_wide first tr r tl pv ol l :
  let cz := mk_szone first tr (Some (inr r)) in
  increasing tr = true -> ordered (windows tr first) = true ->
  last_window tr first = Some (tl, pv, ol) ->
  footer_continues_wide cz = true ->
  rule_year_hyps r (footer_year_lo cz) -> rule_year_hyps r (footer_year_hi cz) ->
  (l <= tl + Z.max pv ol ->
   forall t, In t (instants_of_wall cz l) <-> In t (instants_of_wall (mk_szone first tr None) l)) /\
  (tl + Z.max pv ol < l ->
   forall t, In t (instants_of_wall cz l) <-> In t (instants_of_wall (mk_szone first [] (Some (inr r))) l)).
Proof.
  intros cz Hinc Hord Hlw Hfc Hy1 Hy2.
  exact (composite_instants_join first tr r tl pv ol l Hinc Hord Hlw
           (footer_facts_wide first tr r tl pv ol Hlw Hfc Hy1 Hy2)).
Qed.

Theorem composite_classification_wide z ps first a l :
  let k := utc_year l in let r := conv_rule a in
  let cz := mk_szone (ut_offset first) (offs ps) (Some (inr r)) in
  table_zone z ps first -> extra_rule z = Some (Alternate a) -> alt_ok a -> r_std r <> r_dst r ->
  increasing (offs ps) = true -> spacing_table (offs ps) (ut_offset first) = true ->
  footer_continues_wide cz = true ->
  rule_year_hyps r (footer_year_lo cz) -> rule_year_hyps r (footer_year_hi cz) ->
  (footer_hi cz < l -> rule_reading_hyps a l) ->
  excepted_wall cz l = false ->
  exists m, find_local_time_type_from_local z k l = Val (Ok m) /\ classified cz l m.
Proof.
  intros k r cz Hz Hr Ha Hne Hinc Hsp Hfc Hy1 Hy2 Hrl Hex.
  destruct (footer_continues_wide_last _ _ _ Hfc) as (tl & pv & ol & Hlw).
  unfold footer_hi, cz in Hrl. cbn [z_trans z_first] in Hrl. rewrite Hlw in Hrl.
  exact (composite_classification_join z ps first a tl pv ol l Hz Hr Ha Hne Hinc Hsp Hlw
           (footer_facts_wide _ _ _ _ _ _ Hlw Hfc Hy1 Hy2) Hrl Hex).
Qed.

Theorem roundtrip_composite_wide z ps first a t o :
  let r := conv_rule a in
  let cz := mk_szone (ut_offset first) (offs ps) (Some (inr r)) in
  let l := t + o in
  table_zone z ps first -> extra_rule z = Some (Alternate a) -> alt_ok a -> r_std r <> r_dst r ->
  increasing (offs ps) = true -> spacing_table (offs ps) (ut_offset first) = true ->
  footer_continues_wide cz = true ->
  rule_year_hyps r (footer_year_lo cz) -> rule_year_hyps r (footer_year_hi cz) ->
  (footer_hi cz < l -> rule_reading_hyps a l) ->
  zone_off cz t = Some o -> excepted_wall cz l = false ->
  exists m, find_local_time_type_from_local z (utc_year l) l = Val (Ok m) /\ contains m o.
Proof.
  intros r cz l Hz Hr Ha Hne Hinc Hsp Hfc Hy1 Hy2 Hrl Ho Hex.
  destruct (composite_classification_wide z ps first a l Hz Hr Ha Hne Hinc Hsp Hfc Hy1 Hy2 Hrl Hex) as (m & Hm & Hc).
  exists m. split; [exact Hm|]. fold r cz in Hc. unfold classified in Hc. cbv zeta in Hc.
  assert (Hin : In t (instants_of_wall cz l)).
  { apply instants_of_wall_spec. unfold l. replace (t + o - t) with o by lia. split; [exact Ho|].
    destruct (footer_continues_wide_last _ _ _ Hfc) as (tl & pv & ol & Hlw).
    destruct (footer_facts_wide _ _ _ _ _ _ Hlw Hfc Hy1 Hy2) as (Hc1 & _).
    unfold cz in Ho. rewrite (zone_off_composite _ _ _ _ _ _ t Hinc Hlw Hc1) in Ho. injection Ho as <-.
    destruct (t <? tl); [apply table_off_in_composite|apply roff_in_offsets]. }
  destruct m as [|x|x y]; cbn [contains].
  - rewrite Hc in Hin. contradiction.
  - apply Hc in Hin. unfold l in Hin. lia.
  - destruct Hc as [_ Hc]. apply Hc in Hin. unfold l in Hin. lia.
Qed.

(** * The JUDGE's spacing condition implies the wide condition.  [J.spacing_rule_table] looks at the
    rule transitions of the three years around the last table transition; with offsets below a day
    the years k1, k2 are among them, and no condition on the position of the last transition in its
    year is needed (compare [judge_spacing_footer_continues]). *)
Lemma jcond_fcond_start tl pv ol std dst S :
  (S = tl -> ol = dst) -> ol = std \/ ol = dst ->
  jcond tl pv ol (S, std, dst) = true ->
  fcond tl (tl + Z.max pv ol) (Z.min std dst) (Z.max std dst) S = true.
Proof.
  intros Hat Hol H. unfold jcond, J.ev_window, fcond in *. cbv beta iota in H.
  rewrite !ite_bool in H. rewrite ite_bool. lia.
Qed.
Lemma jcond_fcond_end tl pv ol std dst E :
  (E = tl -> ol = std) -> ol = std \/ ol = dst ->
  jcond tl pv ol (E, dst, std) = true ->
  fcond tl (tl + Z.max pv ol) (Z.min std dst) (Z.max std dst) E = true.
Proof.
  intros Hat Hol H. unfold jcond, J.ev_window, fcond in *. cbv beta iota in H.
  rewrite !ite_bool in H. rewrite ite_bool. lia.
Qed.

(* the oracle at a rule transition of a year in which the premise holds *)
Lemma roff_at_start r k : rule_year_hyps r k -> roff r (rule_start_utc r k) = r_dst r.
Proof.
  intros Hy. destruct (rule_year_premise r k Hy) as [P N].
  unfold roff. rewrite (rule_is_dst_year r k _ Hy) by lia.
  set (S := rule_start_utc r k) in *. set (E := rule_end_utc r k) in *.
  assert (X : (if S <? E then (S <=? S) && (S <? E) else (S <? E) || (S <=? S)) = true) by (destruct (S <? E) eqn:C; lia).
  rewrite X. reflexivity.
Qed.
Lemma roff_at_end r k : rule_year_hyps r k -> roff r (rule_end_utc r k) = r_std r.
Proof.
  intros Hy. destruct (rule_year_premise r k Hy) as [P N].
  unfold roff. rewrite (rule_is_dst_year r k _ Hy) by lia.
  set (S := rule_start_utc r k) in *. set (E := rule_end_utc r k) in *.
  assert (X : (if S <? E then (S <=? E) && (E <? E) else (E <? E) || (S <=? E)) = false) by (destruct (S <? E) eqn:C; lia).
  rewrite X. reflexivity.
Qed.

Lemma judge_events first tr r tl pv ol k :
  increasing tr = true -> last_window tr first = Some (tl, pv, ol) ->
  J.spacing_rule_table (mk_szone first tr (Some (inr r))) r = true ->
  k = utc_year tl - 1 \/ k = utc_year tl \/ k = utc_year tl + 1 ->
  jcond tl pv ol (rule_start_utc r k, r_std r, r_dst r) = true /\
  jcond tl pv ol (rule_end_utc r k, r_dst r, r_std r) = true.
Proof.
  intros Hinc Hlw Hj Hk.
  unfold J.spacing_rule_table in Hj. cbn [z_trans z_first] in Hj.
  rewrite (last_window_last_trans _ _ _ _ _ Hlw) in Hj.
  rewrite (before_last_window _ _ _ _ _ Hlw) in Hj.
  rewrite (proj2 (last_window_after _ _ _ _ _ Hinc Hlw) tl (Z.le_refl _)) in Hj.
  rewrite !forallb_app in Hj.
  apply andb_prop in Hj. destruct Hj as [Hj1 Hj]. apply andb_prop in Hj. destruct Hj as [Hj2 Hj3].
  unfold J.rule_events in Hj1, Hj2, Hj3. cbn [forallb] in Hj1, Hj2, Hj3.
  rewrite andb_true_r in Hj1, Hj2, Hj3.
  apply andb_prop in Hj1, Hj2, Hj3.
  destruct Hk as [-> |[-> | ->]]; assumption.
Qed.

Theorem judge_spacing_footer_wide first tr r tl pv ol :
  let cz := mk_szone first tr (Some (inr r)) in
  increasing tr = true -> last_window tr first = Some (tl, pv, ol) ->
  J.spacing_rule_table cz r = true ->
  roff r tl = ol -> -86400 < pv < 86400 ->
  rule_year_hyps r (footer_year_lo cz) -> rule_year_hyps r (footer_year_hi cz) ->
  footer_continues_wide cz = true.
Proof.
  intros cz Hinc Hlw Hj Hc Hpv Hy1 Hy2. subst cz.
  unfold footer_year_lo, footer_year_hi in Hy1, Hy2. cbn [z_trans z_first z_rule] in Hy1, Hy2.
  rewrite Hlw in Hy1, Hy2.
  unfold footer_continues_wide. cbn [z_trans z_first z_rule]. rewrite Hlw. cbv zeta.
  set (std := r_std r) in *. set (dst := r_dst r) in *.
  set (k1 := utc_year (tl + Z.min std dst)) in *.
  set (k2 := utc_year (tl + Z.max (Z.max std dst) pv)) in *.
  assert (Hb : -86400 < std < 86400 /\ -86400 < dst < 86400).
  { destruct Hy1 as (Hs & Hd & _). split; assumption. }
  pose proof (utc_year_bounds tl) as Bt. set (y := utc_year tl) in *.
  assert (K1 : k1 = y - 1 \/ k1 = y \/ k1 = y + 1) by (apply utc_year_near; lia).
  assert (K2 : k2 = y - 1 \/ k2 = y \/ k2 = y + 1) by (apply utc_year_near; lia).
  assert (Hk : k2 <= k1 + 1).
  { pose proof (utc_year_bounds (tl + Z.min std dst)) as B1. fold k1 in B1.
    pose proof (utc_year_bounds (tl + Z.max (Z.max std dst) pv)) as B2. fold k2 in B2.
    destruct (Z_le_dec k2 (k1 + 1)) as [L|L]; [exact L|].
    pose proof (year_start_mono (k1 + 2) k2 ltac:(lia)).
    pose proof (year_start_succ (k1 + 1)). replace (k1 + 1 + 1) with (k1 + 2) in * by lia. lia. }
  assert (Hol : ol = std \/ ol = dst) by (unfold roff in Hc; fold std dst in Hc; destruct (rule_is_dst r tl); lia).
  destruct (judge_events first tr r tl pv ol k1 Hinc Hlw Hj K1) as [JS1 JE1].
  destruct (judge_events first tr r tl pv ol k2 Hinc Hlw Hj K2) as [JS2 JE2].
  replace (k2 <=? k1 + 1) with true by lia. rewrite Hc, Z.eqb_refl. cbn [andb forallb].
  rewrite (jcond_fcond_start tl pv ol std dst (rule_start_utc r k1)); [|intros E; rewrite <- Hc, <- E; apply roff_at_start; exact Hy1|exact Hol|exact JS1].
  rewrite (jcond_fcond_end tl pv ol std dst (rule_end_utc r k1)); [|intros E; rewrite <- Hc, <- E; apply roff_at_end; exact Hy1|exact Hol|exact JE1].
  rewrite (jcond_fcond_start tl pv ol std dst (rule_start_utc r k2)); [|intros E; rewrite <- Hc, <- E; apply roff_at_start; exact Hy2|exact Hol|exact JS2].
  rewrite (jcond_fcond_end tl pv ol std dst (rule_end_utc r k2)); [|intros E; rewrite <- Hc, <- E; apply roff_at_end; exact Hy2|exact Hol|exact JE2].
  reflexivity.
Qed.

(** * The hypotheses are inhabited by a zone the one-year condition excludes: Eastern European time
    (+02:00, no daylight time) up to 2023-12-31T22:00:00Z, then Central European time with the footer
    CET-1CEST,M3.5.0,M10.5.0/3.  The last table window is the hour 2023-12-31T23:00 .. 2024-01-01T00:00
    (read twice); it ends on the year boundary, so [tl + min, tl + max] meets 2023 and 2024. *)
Definition strad_eet := mk_ltt 7200 false (Some (B"EET")).
Definition strad_zone : timezone :=
  mk_tz [mk_tr 1704060000 1] [strad_eet; ex_cet; ex_cest] [] (Some (Alternate exc_rule)).
Definition strad_ps : list (Z * ltt) := [(1704060000, ex_cet)].
Definition strad_cz : szone := mk_szone (ut_offset strad_eet) (offs strad_ps) (Some (inr (conv_rule exc_rule))).
Lemma strad_facts :
  table_zone strad_zone strad_ps strad_eet /\ extra_rule strad_zone = Some (Alternate exc_rule) /\
  increasing (offs strad_ps) = true /\ spacing_table (offs strad_ps) (ut_offset strad_eet) = true /\
  footer_continues strad_cz = false /\ footer_continues_wide strad_cz = true /\
  footer_year_lo strad_cz = 2023 /\ footer_year_hi strad_cz = 2024 /\ footer_hi strad_cz = 1704067200 /\
  rule_year_hyps (conv_rule exc_rule) 2023 /\ rule_year_hyps (conv_rule exc_rule) 2024 /\
  J.spacing_rule_table strad_cz (conv_rule exc_rule) = true /\
  (* 2023-12-31T23:30 is read twice (table), 2024-01-01T00:30 once (rule, year 2024) *)
  excepted_wall strad_cz 1704065400 = false /\ excepted_wall strad_cz 1704069000 = false /\
  rule_reading_hyps exc_rule 1704069000 /\
  find_local_time_type_from_local strad_zone 2023 1704065400 = Val (Ok (MAmbiguous strad_eet ex_cet)) /\
  instants_of_wall strad_cz 1704065400 = [1704058200; 1704061800] /\
  find_local_time_type_from_local strad_zone 2024 1704069000 = Val (Ok (MSingle ex_cet)) /\
  instants_of_wall strad_cz 1704069000 = [1704065400].
Proof.
  split.
  - constructor; [reflexivity|repeat constructor| |unfold o_ok; cbn; lia].
    repeat constructor; cbn; unfold t_ok, o_ok; cbn; lia.
  - vm_compute. repeat match goal with |- _ /\ _ => split end; try reflexivity; discriminate.
Qed.
