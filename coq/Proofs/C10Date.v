(** The calendar facts the RFC 3339 theorems rest on ([date_facts], Proofs/C10.v), discharged from
    the shared calendar lemma library (Proofs/Date.v: C01/C08): [good dt n] := the packed date word
    [dt] represents some valid (year, ordinal) whose day number is [n]. *)
From Coq Require Import ZArith List Bool Lia ZifyBool.
From V Require Import Base.Int Base.IntLemmas Spec.Gregorian Model.Date Proofs.Date Proofs.C10.
Open Scope Z_scope.

Definition good (dt n : Z) : Prop := exists y o, repr y o dt /\ n = dn_of_yo y o.

Lemma good_yo dt n : good dt n -> repr (year_of_dn n) (ordinal_of_dn n) dt.
Proof.
  intros (y & o & H & ->). pose proof H as (_ & Ho & _).
  unfold year_of_dn, ordinal_of_dn. rewrite yo_of_dn_of_yo by exact Ho. exact H.
Qed.
Lemma good_in_range dt n : good dt n -> dn_in_range n = true.
Proof. intros (y & o & H & ->). exact (repr_dn_in_range y o dt H). Qed.
Lemma day_range_in n : DAY_LO - 1 <= n <= DAY_HI + 1 -> dn_in_range n = true.
Proof. unfold DAY_LO, DAY_HI, dn_in_range, DN_MIN, DN_MAX. lia. Qed.

Theorem good_facts : date_facts good.
Proof.
  constructor.
  - intros dt n Hg. pose proof (repr_acc _ _ _ (good_yo dt n Hg)) as A.
    destruct (md_of_ordinal _ _). tauto.
  - intros dt n Hg. pose proof (repr_acc _ _ _ (good_yo dt n Hg)) as A.
    destruct (md_of_ordinal _ _). tauto.
  - intros dt n Hg _. pose proof (repr_acc _ _ _ (good_yo dt n Hg)) as A.
    destruct (md_of_ordinal _ _). cbn [fst]. tauto.
  - intros dt n Hg _. pose proof (repr_acc _ _ _ (good_yo dt n Hg)) as A.
    destruct (md_of_ordinal _ _). cbn [snd]. tauto.
  - intros y m d Hy Hm Hd Hv.
    rewrite from_ymd_opt_spec by (unfold in_i32, in_u32, in_range, i32_min, i32_max, u32_max; lia).
    replace (year_in_range y) with true by (unfold year_in_range, MIN_YEAR, MAX_YEAR; lia).
    rewrite Hv. cbn [andb date_if]. eexists. split; [reflexivity|].
    destruct (mdf_word m d y ltac:(lia) ltac:(lia)) as (_ & _ & _ & _ & _ & _ & Hvo).
    rewrite valid_md_ymd in Hvo. destruct (Hvo Hv) as [Hvyo _].
    exists y, (ordinal_of_md (is_leap y) m d). split; [|reflexivity].
    apply repr_mk; [unfold year_in_range, MIN_YEAR, MAX_YEAR; lia|exact Hvyo].
  - intros y m d Hy Hm Hd Hv.
    rewrite from_ymd_opt_spec by (unfold in_i32, in_u32, in_range, i32_min, i32_max, u32_max; lia).
    rewrite Hv, andb_false_r. reflexivity.
  - intros dt n (y & o & H & ->) _. exact (num_days_from_ce_spec y o dt H).
  - intros dt n (y & o & H & ->) Hr. rewrite (pred_opt_spec y o dt H).
    rewrite day_range_in by lia. cbn [date_if]. eexists. split; [reflexivity|].
    pose proof (date_of_dn_repr (dn_of_yo y o - 1) ltac:(apply day_range_in; lia)) as R.
    destruct (yo_of_dn_valid (dn_of_yo y o - 1)) as [_ Hd].
    eexists _, _. split; [exact R|]. symmetry. exact Hd.
  - intros dt n (y & o & H & ->) Hr. rewrite (succ_opt_spec y o dt H).
    rewrite day_range_in by lia. cbn [date_if]. eexists. split; [reflexivity|].
    pose proof (date_of_dn_repr (dn_of_yo y o + 1) ltac:(apply day_range_in; lia)) as R.
    destruct (yo_of_dn_valid (dn_of_yo y o + 1)) as [_ Hd].
    eexists _, _. split; [exact R|]. symmetry. exact Hd.
Qed.
