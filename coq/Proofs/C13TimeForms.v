(** C13 — format_parse_roundtrip END TO END for NaiveTime beyond "%H:%M:%S":
    - "%H:%M:%S%.f"   (shortest of 0/3/6/9 fraction digits): parse (format t) = Ok t, nothing lost;
    - "%H:%M:%S%.3f" / "%.6f" / "%.9f": parse (format t) = Ok (t truncated to the printed precision),
      the truncation the property states; with %.9f nothing is lost;
    - "%I:%M:%S %p" (also written %r): parse (format t) = Ok (t truncated to whole seconds);
    for EVERY time of day, leap second on :59 included (the leap flag survives: second 60 is
    printed and read back).  Through the formatter, the reader and Parsed::to_naive_time (C14's
    completeness theorem). *)
From Coq Require Import ZArith List Bool Lia ZifyBool.
From V Require Import Base.Int Base.IntLemmas Base.IO Base.Utf8 Model.Scan Model.Items Gen.ParseTable Gen.Strftime Gen.Locales
  Proofs.Utf8 Proofs.Scan Model.Parse Proofs.C13 Proofs.C13Reads Proofs.C13Fmt Proofs.C13Digits Proofs.C13Time
  Proofs.C13Date Proofs.C13View Proofs.C13DateTime Spec.StrftimeDoc.
From V Require Model.Parsed Model.Format Model.Time Model.Strftime Proofs.C12 Proofs.C14.
Import ListNotations.
Open Scope Z_scope.
Ltac Zify.zify_post_hook ::= Z.to_euclidean_division_equations.
Import Model.Parsed.

(** * the digits of a zero-padded field that fits its width *)
Lemma pad0_digits k x : 1 <= k -> 0 <= x < 10 ^ k ->
  forallb is_ascii_digit (pad_num DZero k false x) = true /\ blen (pad_num DZero k false x) = k /\
  digits_value (pad_num DZero k false x) 0 = x.
Proof.
  intros Hk Hx. destruct (dec_nonneg_digits x ltac:(lia)) as (Hd & Hl & Hval & Hub & Hlb).
  set (D := dec_nonneg x) in *.
  assert (HlenD : blen D <= k).
  { destruct (Z_le_gt_dec (blen D) k) as [H|H]; [exact H|exfalso].
    destruct Hlb as [H1 | Hlb]; [lia|].
    assert (10 ^ k <= 10 ^ (blen D - 1)) by (apply Z.pow_le_mono_r; lia). lia. }
  unfold pad_num. rewrite Z.abs_eq by lia. replace (x <? 0) with false by lia.
  change (digits x) with (dec_nonneg x). fold D. unfold dlen. fold (blen D). cbn [List.length app]. change (Z.of_nat 0) with 0.
  replace (k - blen D - 0) with (k - blen D) by lia.
  rewrite forallb_app_digits, zeros_digits, Hd, blen_app, blen_rep, zeros_value' by lia.
  split; [reflexivity|]. split; [lia|]. rewrite Hval. lia.
Qed.

Lemma nano_value_pad k x : 1 <= k <= 9 -> 0 <= x < 10 ^ k ->
  nano_value (pad_num DZero k false x) = x * 10 ^ (9 - k).
Proof.
  intros Hk Hx. destruct (pad0_digits k x ltac:(lia) Hx) as (Hd & Hl & Hv).
  unfold nano_value. rewrite firstn_all2 by (unfold blen in Hl; lia). rewrite Hv, Hl. reflexivity.
Qed.

Definition dot_frac_spec (spec : Fixed) : Prop :=
  spec = F_Nanosecond \/ spec = F_Nanosecond3 \/ spec = F_Nanosecond6 \/ spec = F_Nanosecond9.

(* ".ddd": a dot and [k] digits, read back as the nanoseconds they denote *)
Lemma item_dotfrac a spec k x rest : dot_frac_spec spec ->
  Model.Format.format_fixed a spec = Model.Format.fok (46 :: pad_num DZero k false x) ->
  1 <= k <= 9 -> 0 <= x < 10 ^ k -> not_digit_start rest = true -> utf8_valid rest = true ->
  item_rt a (IFixed spec) (46 :: pad_num DZero k false x) (W_code 19 (x * 10 ^ (9 - k))) rest.
Proof.
  intros Hs Hf Hk Hx Hnd Hr. destruct (pad0_digits k x ltac:(lia) Hx) as (Hd & Hl & Hv).
  split; [exact Hf|]. split.
  - assert (E : reads_b (IFixed spec) (46 :: pad_num DZero k false x) rest =
                (if (46 =? 46) && all_dig (pad_num DZero k false x) && (1 <=? blen (pad_num DZero k false x))
                    && not_digit_start rest && utf8_valid rest
                 then Some (W_code 19 (nano_value (pad_num DZero k false x))) else None)).
    { destruct Hs as [->|[->|[->| ->]]]; reflexivity. }
    rewrite E. unfold all_dig. rewrite Hd, Hl, Hnd, Hr. replace (1 <=? k) with true by lia. cbn [Z.eqb Pos.eqb andb].
    rewrite nano_value_pad by assumption. reflexivity.
  - change (46 :: pad_num DZero k false x) with ([46] ++ pad_num DZero k false x). rewrite <- app_assoc.
    rewrite utf8_valid_app_ascii by (apply ascii1; lia).
    rewrite utf8_valid_app_ascii by apply pad_num_ascii. exact Hr.
Qed.

(** * the time of day the fields denote *)
Definition leap_part (t : Model.Time.ntime) : Z := if Model.Time.tfrac t >=? 1000000000 then 1000000000 else 0.
Definition nano9 (t : Model.Time.ntime) : Z := Model.Time.tfrac t mod 1000000000.
(* truncation to [k] fraction digits, leap-second flag kept *)
Definition trunc_frac (k : Z) (t : Model.Time.ntime) : Model.Time.ntime :=
  Model.Time.mk_time (Model.Time.tsecs t) (leap_part t + nano9 t / 10 ^ (9 - k) * 10 ^ (9 - k)).

Lemma leap_nano t : valid_time t -> leap_part t + nano9 t = Model.Time.tfrac t.
Proof.
  intros [_ Hf]. unfold leap_part, nano9.
  destruct (Model.Time.tfrac t >=? 1000000000) eqn:E; rewrite Z.geb_leb in E; lia.
Qed.
Lemma trunc_frac_9 t : valid_time t -> trunc_frac 9 t = t.
Proof.
  intros Hvt. unfold trunc_frac. change (10 ^ (9 - 9)) with 1. rewrite Z.div_1_r, Z.mul_1_r, (leap_nano t Hvt).
  destruct t; reflexivity.
Qed.

Lemma time_of_fields_frac t n : valid_time t ->
  Proofs.C14.time_of_fields (hh t / 12) (hh t mod 12) (mm t) (ss t) n =
  Model.Time.mk_time (Model.Time.tsecs t) (leap_part t + n).
Proof.
  intros [Hsec Hfrac]. unfold Proofs.C14.time_of_fields, leap_part, hh, mm, ss.
  destruct Hfrac as [Hf|[H59 Hf]].
  - assert (Hq : Model.Time.tfrac t / 1000000000 = 0) by (clear - Hf; lia).
    assert (Hge : (Model.Time.tfrac t >=? 1000000000) = false) by (rewrite Z.geb_leb; apply Z.leb_gt; clear - Hf; lia).
    rewrite Hq, Hge.
    assert (He : (Model.Time.tsecs t mod 60 + 0 =? 60) = false) by (clear - Hsec; lia).
    rewrite He. f_equal; clear - Hsec; lia.
  - assert (Hq : Model.Time.tfrac t / 1000000000 = 1) by (clear - Hf; lia).
    assert (Hge : (Model.Time.tfrac t >=? 1000000000) = true) by (rewrite Z.geb_leb; apply Z.leb_le; clear - Hf; lia).
    rewrite Hq, Hge.
    assert (He : (Model.Time.tsecs t mod 60 + 1 =? 60) = true) by (clear - H59; lia).
    rewrite He. f_equal; clear - Hsec H59; lia.
Qed.

Lemma hms_ws_ok_gen t F : valid_time t ->
  pget F_hour_div_12 F = Some (hh t / 12) -> pget F_hour_mod_12 F = Some (hh t mod 12) ->
  pget F_minute F = Some (mm t) -> pget F_second F = Some (ss t) -> Forall (w_ok F) (hms_ws t).
Proof.
  intros Hvt H1 H2 H3 H4. destruct (time_parts t Hvt) as (_ & _ & _ & Rh & Rm & Rs).
  unfold hms_ws. repeat constructor; cbn [w_ok simple_code Z.eqb Pos.eqb]; try lia; assumption.
Qed.

(** * %H:%M:%S followed by a fraction item: the core, for a fraction item that writes [on] *)
Definition frac_write (on : option Z) : write := match on with Some n => W_code 19 n | None => W_none end.
Definition HMSF (spec : Fixed) : list Item := SF_T_FMT ++ [IFixed spec].

Lemma time_frac_core t spec ftext on : valid_time t ->
  item_rt (Model.Format.fa_of_time t) (IFixed spec) ftext (frac_write on) [] ->
  (forall n, on = Some n -> 0 <= n <= 999999999) ->
  exists text,
    Model.Format.write_items (Model.Format.fa_of_time t) (HMSF spec) [] = Model.Format.fok text /\
    (let+ p := parse parsed_new text (HMSF spec) in pr_of (to_naive_time p)) =
    pok (Model.Time.mk_time (Model.Time.tsecs t) (leap_part t + unwrap_or on 0)).
Proof.
  intros Hvt Hit Hon. set (a := Model.Format.fa_of_time t).
  assert (S2 : seg_ok a [IFixed spec] [ftext] [frac_write on] []).
  { apply (seg_cons _ _ _ _ _ _ _ _ (seg_nil a [] eq_refl)). exact Hit. }
  pose proof (seg_app a _ _ _ _ _ _ [] S2 (hms_seg a t _ eq_refl Hvt (seg_valid _ _ _ _ _ S2))) as S.
  destruct (seg_parse _ _ _ _ S) as [Hw Hp]. eexists. split; [exact Hw|]. unfold HMSF. rewrite Hp.
  destruct (time_parts t Hvt) as (_ & _ & _ & Rh & Rm & Rs).
  set (F := match on with Some n => pput F_nanosecond (Some n) (time_F0 t parsed_new) | None => time_F0 t parsed_new end).
  destruct (run_view F (hms_ws t ++ [frac_write on]) parsed_new (extends_new F)) as [Hrun _].
  { apply Forall_app. split.
    - apply hms_ws_ok_gen; [exact Hvt|..]; unfold F; destruct on; reflexivity.
    - constructor; [|constructor]. unfold F, frac_write. destruct on as [n|]; [|exact I].
      cbn [w_ok simple_code Z.eqb Pos.eqb]. split; [exact (Hon n eq_refl)|reflexivity]. }
  rewrite Hrun. cbn [pbind bind pok]. unfold pr_of.
  set (p := apply_ws (hms_ws t ++ [frac_write on]) parsed_new).
  assert (Hp' : p = match on with Some n => pput F_nanosecond (Some n) (time_F0 t parsed_new) | None => time_F0 t parsed_new end)
    by (unfold p, frac_write; destruct on; reflexivity).
  assert (Hok : Proofs.C14.time_fields_ok p (hh t / 12) (hh t mod 12) (mm t)).
  { rewrite Hp'. unfold Proofs.C14.time_fields_ok, time_F0.
    destruct on as [n|]; [pose proof (Hon n eq_refl) as Hn|]; cbn; repeat split; try lia;
      try (intros _; discriminate); try (intros Hc; contradiction). }
  rewrite (Proofs.C14.to_naive_time_complete p _ _ _ Hok). cbn [pres_of].
  assert (E2 : p_second p = Some (ss t)) by (rewrite Hp'; destruct on; reflexivity).
  assert (E3 : p_nanosecond p = on) by (rewrite Hp'; destruct on; reflexivity).
  rewrite E2, E3. cbn [unwrap_or]. rewrite (time_of_fields_frac t _ Hvt). reflexivity.
Qed.

(** * "%H:%M:%S%.3f" / "%.6f" / "%.9f" *)
Definition fixed_frac (k : Z) : Fixed := if k =? 3 then F_Nanosecond3 else if k =? 6 then F_Nanosecond6 else F_Nanosecond9.

Lemma frac_fixed_format t k : valid_time t -> k = 3 \/ k = 6 \/ k = 9 ->
  Model.Format.format_fixed (Model.Format.fa_of_time t) (fixed_frac k) =
  Model.Format.fok (46 :: pad_num DZero k false (nano9 t / 10 ^ (9 - k))) /\ 0 <= nano9 t / 10 ^ (9 - k) < 10 ^ k.
Proof.
  intros [_ Hf] Hk. unfold nano9.
  assert (Hb : 0 <= Model.Time.tfrac t < 2000000000) by lia. clear Hf.
  destruct Hk as [->|[->| ->]]; cbn [fixed_frac Z.eqb Pos.eqb Model.Format.format_fixed Model.Format.fa_of_time
    Model.Format.fa_date Model.Format.fa_time Model.Format.fa_off]; unfold Model.Time.nanosecond, LOC_DECIMAL_POINT; cbn [app].
  - change (10 ^ (9 - 3)) with 1000000. change (10 ^ 3) with 1000. rewrite Proofs.C12.fmt_int_pad by lia.
    replace (Z.rem (Z.quot (Model.Time.tfrac t) 1000000) 1000) with (Model.Time.tfrac t mod 1000000000 / 1000000) by lia.
    split; [reflexivity|lia].
  - change (10 ^ (9 - 6)) with 1000. change (10 ^ 6) with 1000000. rewrite Proofs.C12.fmt_int_pad by lia.
    replace (Z.rem (Z.quot (Model.Time.tfrac t) 1000) 1000000) with (Model.Time.tfrac t mod 1000000000 / 1000) by lia.
    split; [reflexivity|lia].
  - change (10 ^ (9 - 9)) with 1. change (10 ^ 9) with 1000000000. rewrite Proofs.C12.fmt_int_pad by lia.
    replace (Z.rem (Model.Time.tfrac t) 1000000000) with (Model.Time.tfrac t mod 1000000000 / 1) by lia.
    split; [reflexivity|lia].
Qed.

Theorem time_frac_roundtrip t k : valid_time t -> k = 3 \/ k = 6 \/ k = 9 ->
  exists text,
    Model.Format.write_items (Model.Format.fa_of_time t) (HMSF (fixed_frac k)) [] = Model.Format.fok text /\
    (let+ p := parse parsed_new text (HMSF (fixed_frac k)) in pr_of (to_naive_time p)) = pok (trunc_frac k t).
Proof.
  intros Hvt Hk. destruct (frac_fixed_format t k Hvt Hk) as [Hf Hx].
  set (x := nano9 t / 10 ^ (9 - k)) in *.
  assert (Hk9 : 1 <= k <= 9) by lia.
  assert (Hp9 : 10 ^ k * 10 ^ (9 - k) = 1000000000).
  { rewrite <- Z.pow_add_r by lia. replace (k + (9 - k)) with 9 by lia. reflexivity. }
  assert (Hpos : 0 < 10 ^ (9 - k)) by (apply Z.pow_pos_nonneg; lia).
  assert (Hn : 0 <= x * 10 ^ (9 - k) <= 999999999).
  { split; [apply Z.mul_nonneg_nonneg; lia|].
    assert (x * 10 ^ (9 - k) <= (10 ^ k - 1) * 10 ^ (9 - k)) by (apply Z.mul_le_mono_nonneg_r; lia).
    set (P := 10 ^ (9 - k)) in *. set (Q := 10 ^ k) in *. clearbody P Q x.
    assert (Q * P - P <= 999999999) by lia. rewrite Z.mul_sub_distr_r in H. lia. }
  destruct (time_frac_core t (fixed_frac k) (46 :: pad_num DZero k false x) (Some (x * 10 ^ (9 - k))) Hvt) as (text & Hw & Hp).
  - apply item_dotfrac; try assumption; try reflexivity.
    destruct Hk as [->|[->| ->]]; unfold dot_frac_spec; cbn [fixed_frac Z.eqb Pos.eqb]; auto.
  - intros n Hs. apply Some_inj in Hs. subst n. exact Hn.
  - exists text. split; [exact Hw|]. rewrite Hp. reflexivity.
Qed.

(** * "%H:%M:%S%.f": nothing is lost *)
Lemma frac_auto_format t : valid_time t ->
  (nano9 t = 0 /\ Model.Format.format_fixed (Model.Format.fa_of_time t) F_Nanosecond = Model.Format.fok []) \/
  (nano9 t <> 0 /\ exists k x, (k = 3 \/ k = 6 \/ k = 9) /\ 0 <= x < 10 ^ k /\ x * 10 ^ (9 - k) = nano9 t /\
     Model.Format.format_fixed (Model.Format.fa_of_time t) F_Nanosecond = Model.Format.fok (46 :: pad_num DZero k false x)).
Proof.
  intros [_ Hf]. unfold nano9.
  assert (Hb : 0 <= Model.Time.tfrac t < 2000000000) by lia. clear Hf.
  cbn [Model.Format.format_fixed Model.Format.fa_of_time Model.Format.fa_date Model.Format.fa_time Model.Format.fa_off].
  unfold Model.Time.nanosecond, LOC_DECIMAL_POINT.
  replace (Z.rem (Model.Time.tfrac t) 1000000000) with (Model.Time.tfrac t mod 1000000000) by lia.
  set (n := Model.Time.tfrac t mod 1000000000). assert (Hn : 0 <= n < 1000000000) by (unfold n; lia). clearbody n.
  destruct (n =? 0) eqn:E0; [left; split; [lia|reflexivity]|right; split; [lia|]].
  destruct (Z.rem n 1000000 =? 0) eqn:E1; [|destruct (Z.rem n 1000 =? 0) eqn:E2].
  - exists 3, (n / 1000000). split; [auto|]. change (10 ^ 3) with 1000. change (10 ^ (9 - 3)) with 1000000.
    split; [lia|]. split; [lia|]. cbn [app]. rewrite Proofs.C12.fmt_int_pad by lia.
    replace (Z.quot n 1000000) with (n / 1000000) by lia. reflexivity.
  - exists 6, (n / 1000). split; [auto|]. change (10 ^ 6) with 1000000. change (10 ^ (9 - 6)) with 1000.
    split; [lia|]. split; [lia|]. cbn [app]. rewrite Proofs.C12.fmt_int_pad by lia.
    replace (Z.quot n 1000) with (n / 1000) by lia. reflexivity.
  - exists 9, n. split; [auto|]. change (10 ^ 9) with 1000000000. change (10 ^ (9 - 9)) with 1.
    split; [lia|]. split; [lia|]. cbn [app]. rewrite Proofs.C12.fmt_int_pad by lia. reflexivity.
Qed.

Theorem time_auto_roundtrip t : valid_time t ->
  exists text,
    Model.Format.write_items (Model.Format.fa_of_time t) (HMSF F_Nanosecond) [] = Model.Format.fok text /\
    (let+ p := parse parsed_new text (HMSF F_Nanosecond) in pr_of (to_naive_time p)) = pok t.
Proof.
  intros Hvt. pose proof (leap_nano t Hvt) as Hln.
  assert (Hn9 : 0 <= nano9 t <= 999999999) by (unfold nano9; lia).
  destruct (frac_auto_format t Hvt) as [[H0 Hf]|[Hne (k & x & Hk & Hx & Hxn & Hf)]].
  - destruct (time_frac_core t F_Nanosecond [] None Hvt) as (text & Hw & Hp).
    + split; [exact Hf|]. split; reflexivity.
    + intros n Hc. discriminate Hc.
    + exists text. split; [exact Hw|]. rewrite Hp. cbn [unwrap_or]. rewrite <- H0, Hln. destruct t; reflexivity.
  - destruct (time_frac_core t F_Nanosecond (46 :: pad_num DZero k false x) (Some (x * 10 ^ (9 - k))) Hvt) as (text & Hw & Hp).
    + apply item_dotfrac; try assumption; try reflexivity; [left; reflexivity|lia].
    + intros n Hs. apply Some_inj in Hs. subst n. rewrite Hxn. exact Hn9.
    + exists text. split; [exact Hw|]. rewrite Hp. cbn [unwrap_or]. rewrite Hxn, Hln. destruct t; reflexivity.
Qed.

(** * the 12-hour form "%I:%M:%S %p" *)
Definition h12 (t : Model.Time.ntime) : Z := if hh t mod 12 =? 0 then 12 else hh t mod 12.
Definition ampm_text (t : Model.Time.ntime) : bytes := if hh t >=? 12 then [80; 77] else [65; 77].
Definition IMSP_FMT : list Item :=
  [num0 N_Hour12; Literal [58]; num0 N_Minute; Literal [58]; num0 N_Second; Space [32]; IFixed F_UpperAmPm].

Theorem time_12h_roundtrip t : valid_time t ->
  exists text,
    Model.Format.write_items (Model.Format.fa_of_time t) IMSP_FMT [] = Model.Format.fok text /\
    (let+ p := parse parsed_new text IMSP_FMT in pr_of (to_naive_time p)) = pok (trunc_secs t).
Proof.
  intros Hvt. destruct (time_parts t Hvt) as (Hh & Hm & Hs & Rh & Rm & Rs).
  pose proof Hvt as [Hsec Hfrac].
  set (a := Model.Format.fa_of_time t).
  assert (Hh12 : 1 <= h12 t <= 12) by (unfold h12; destruct (hh t mod 12 =? 0) eqn:E; lia).
  assert (E12 : Model.Time.hour12 t = (hh t >=? 12, h12 t)).
  { unfold Model.Time.hour12, h12. rewrite Hh. unfold Model.Time.urem.
    replace (Z.rem (hh t) 12) with (hh t mod 12) by lia. reflexivity. }
  pose proof (seg_nil a [] eq_refl) as S7.
  assert (S6 : seg_ok a [IFixed F_UpperAmPm] [ampm_text t] [W_ampm (hh t / 12)] []).
  { seg_step S7. split; [|split].
    - unfold renders, a, Model.Format.fa_of_time, ampm_text.
      cbn [Model.Format.format_item Model.Format.format_fixed Model.Format.fa_date Model.Format.fa_time Model.Format.fa_off].
      rewrite E12. cbn [fst]. destruct (hh t >=? 12); reflexivity.
    - unfold ampm_text. destruct (hh t >=? 12) eqn:E; rewrite Z.geb_leb in E.
      + replace (hh t / 12) with 1 by lia. reflexivity.
      + replace (hh t / 12) with 0 by lia. reflexivity.
    - unfold ampm_text. destruct (hh t >=? 12); reflexivity. }
  assert (S5 : seg_ok a [Space [32]; IFixed F_UpperAmPm] [[32]; ampm_text t] [W_none; W_ampm (hh t / 12)] []).
  { seg_step S6. apply (item_space _ [32]); [reflexivity| |exact V].
    unfold ampm_text. destruct (hh t >=? 12); reflexivity. }
  assert (S4 : seg_ok a [num0 N_Second; Space [32]; IFixed F_UpperAmPm] [pad_num DZero 2 false (ss t); [32]; ampm_text t]
                      [W_code 18 (ss t); W_none; W_ampm (hh t / 12)] []).
  { seg_step S5. apply (item_two _ N_Second 18 (ss t)); [|reflexivity|lia|exact V].
    unfold a, Model.Format.fa_of_time. cbn [Model.Format.format_numeric Model.Format.fa_date Model.Format.fa_time].
    rewrite Hs. unfold add_u32. rewrite chk_in.
    2:{ unfold in_u32, in_range, u32_max. unfold Model.Time.nanosecond. lia. }
    cbn [bind]. unfold Model.Time.nanosecond.
    replace (Z.quot (Model.Time.tfrac t) 1000000000) with (Model.Time.tfrac t / 1000000000) by lia.
    fold (ss t). rewrite Proofs.C12.as_u8_small by lia. reflexivity. }
  assert (S3 : seg_ok a [Literal [58]; num0 N_Second; Space [32]; IFixed F_UpperAmPm]
                      [[58]; pad_num DZero 2 false (ss t); [32]; ampm_text t]
                      [W_none; W_code 18 (ss t); W_none; W_ampm (hh t / 12)] []).
  { seg_step S4. apply (item_lit _ [58]); [apply ascii1; lia|exact V]. }
  assert (S2 : seg_ok a [num0 N_Minute; Literal [58]; num0 N_Second; Space [32]; IFixed F_UpperAmPm]
                      [pad_num DZero 2 false (mm t); [58]; pad_num DZero 2 false (ss t); [32]; ampm_text t]
                      [W_code 17 (mm t); W_none; W_code 18 (ss t); W_none; W_ampm (hh t / 12)] []).
  { seg_step S3. apply (item_two _ N_Minute 17 (mm t)); [|reflexivity|lia|exact V].
    unfold a, Model.Format.fa_of_time. cbn [Model.Format.format_numeric Model.Format.fa_date Model.Format.fa_time].
    rewrite Hm. rewrite Proofs.C12.as_u8_small by lia. reflexivity. }
  assert (S1 : seg_ok a [Literal [58]; num0 N_Minute; Literal [58]; num0 N_Second; Space [32]; IFixed F_UpperAmPm]
                      [[58]; pad_num DZero 2 false (mm t); [58]; pad_num DZero 2 false (ss t); [32]; ampm_text t]
                      [W_none; W_code 17 (mm t); W_none; W_code 18 (ss t); W_none; W_ampm (hh t / 12)] []).
  { seg_step S2. apply (item_lit _ [58]); [apply ascii1; lia|exact V]. }
  assert (S0 : seg_ok a IMSP_FMT
                      [pad_num DZero 2 false (h12 t); [58]; pad_num DZero 2 false (mm t); [58]; pad_num DZero 2 false (ss t); [32]; ampm_text t]
                      [W_code 15 (h12 t); W_none; W_code 17 (mm t); W_none; W_code 18 (ss t); W_none; W_ampm (hh t / 12)] []).
  { unfold IMSP_FMT. seg_step S1. apply (item_two _ N_Hour12 15 (h12 t)); [|reflexivity|lia|exact V].
    unfold a, Model.Format.fa_of_time. cbn [Model.Format.format_numeric Model.Format.fa_date Model.Format.fa_time].
    rewrite E12. cbn [snd]. rewrite Proofs.C12.as_u8_small by lia. reflexivity. }
  destruct (seg_parse _ _ _ _ S0) as [Hw Hp]. eexists. split; [exact Hw|]. rewrite Hp.
  set (F := time_F0 t parsed_new).
  assert (Hm12 : h12 t mod 12 = hh t mod 12) by (unfold h12; destruct (hh t mod 12 =? 0) eqn:E; lia).
  destruct (run_view F [W_code 15 (h12 t); W_none; W_code 17 (mm t); W_none; W_code 18 (ss t); W_none; W_ampm (hh t / 12)]
              parsed_new (extends_new F)) as [Hrun _].
  { unfold F, time_F0. repeat constructor; cbn [w_ok simple_code Z.eqb Pos.eqb]; try lia; try reflexivity.
    cbn. f_equal. symmetry. exact Hm12. }
  rewrite Hrun. cbn [pbind bind pok]. unfold pr_of.
  set (p := apply_ws _ parsed_new).
  assert (Hp' : p = pput F_hour_div_12 (Some (hh t / 12)) (pput F_second (Some (ss t)) (pput F_minute (Some (mm t))
                      (pput F_hour_mod_12 (Some (h12 t mod 12)) parsed_new)))) by reflexivity.
  assert (Hok : Proofs.C14.time_fields_ok p (hh t / 12) (hh t mod 12) (mm t)).
  { rewrite Hp', Hm12. unfold Proofs.C14.time_fields_ok. cbn. repeat split; try lia. intros Hc; contradiction. }
  rewrite (Proofs.C14.to_naive_time_complete p _ _ _ Hok). cbn [pres_of]. rewrite Hp'. cbn [p_second p_nanosecond pput parsed_new unwrap_or].
  rewrite (time_of_fields_trunc t Hvt). reflexivity.
Qed.

(** * over the format strings *)
Definition time_frac_format (k : Z) : bytes :=
  [37; 72; 58; 37; 77; 58; 37; 83; 37; 46; 48 + k; 102].          (* %H:%M:%S%.kf *)
Definition time_auto_formats : list bytes :=
  [[37; 72; 58; 37; 77; 58; 37; 83; 37; 46; 102]; [37; 84; 37; 46; 102]].   (* %H:%M:%S%.f  %T%.f *)
Definition time_12h_formats : list bytes :=
  [[37; 73; 58; 37; 77; 58; 37; 83; 32; 37; 112]; [37; 114]].               (* %I:%M:%S %p  %r *)

Theorem time_frac_parse_from_str t k : valid_time t -> k = 3 \/ k = 6 \/ k = 9 ->
  exists text,
    Model.Format.delayed_display (Model.Format.fa_of_time t) (Model.Strftime.sf_new (time_frac_format k)) = Model.Format.fok text /\
    time_parse_from_str text (time_frac_format k) = pok (trunc_frac k t).
Proof.
  intros Hvt Hk. destruct (time_frac_roundtrip t k Hvt Hk) as (text & Hw & Hp).
  assert (Ht : Model.Strftime.sf_take (S (Model.Strftime.sf_bound (time_frac_format k))) (Model.Strftime.sf_new (time_frac_format k)) [] =
               Val (Some (HMSF (fixed_frac k))) /\ (List.length (HMSF (fixed_frac k)) < S (Model.Strftime.sf_bound (time_frac_format k)))%nat).
  { destruct Hk as [->|[->| ->]]; (split; [vm_compute; reflexivity|cbn; lia]). }
  destruct Ht as [Ht Hl].
  destruct (sf_lift _ _ _ text Ht Hl Hw) as [Hd Hps].
  exists text. split; [exact Hd|]. unfold time_parse_from_str. rewrite Hps. exact Hp.
Qed.
Theorem time_auto_parse_from_str t fmt : valid_time t -> In fmt time_auto_formats ->
  exists text,
    Model.Format.delayed_display (Model.Format.fa_of_time t) (Model.Strftime.sf_new fmt) = Model.Format.fok text /\
    time_parse_from_str text fmt = pok t.
Proof.
  intros Hvt Hin. destruct (time_auto_roundtrip t Hvt) as (text & Hw & Hp).
  assert (Ht : Model.Strftime.sf_take (S (Model.Strftime.sf_bound fmt)) (Model.Strftime.sf_new fmt) [] =
               Val (Some (HMSF F_Nanosecond)) /\ (List.length (HMSF F_Nanosecond) < S (Model.Strftime.sf_bound fmt))%nat).
  { cbn in Hin. destruct Hin as [<-|[<-|[]]]; (split; [vm_compute; reflexivity|cbn; lia]). }
  destruct Ht as [Ht Hl].
  destruct (sf_lift _ _ _ text Ht Hl Hw) as [Hd Hps].
  exists text. split; [exact Hd|]. unfold time_parse_from_str. rewrite Hps. exact Hp.
Qed.
Theorem time_12h_parse_from_str t fmt : valid_time t -> In fmt time_12h_formats ->
  exists text,
    Model.Format.delayed_display (Model.Format.fa_of_time t) (Model.Strftime.sf_new fmt) = Model.Format.fok text /\
    time_parse_from_str text fmt = pok (trunc_secs t).
Proof.
  intros Hvt Hin. destruct (time_12h_roundtrip t Hvt) as (text & Hw & Hp).
  assert (Ht : Model.Strftime.sf_take (S (Model.Strftime.sf_bound fmt)) (Model.Strftime.sf_new fmt) [] =
               Val (Some IMSP_FMT) /\ (List.length IMSP_FMT < S (Model.Strftime.sf_bound fmt))%nat).
  { cbn in Hin. destruct Hin as [<-|[<-|[]]]; (split; [vm_compute; reflexivity|cbn; lia]). }
  destruct Ht as [Ht Hl].
  destruct (sf_lift _ _ _ text Ht Hl Hw) as [Hd Hps].
  exists text. split; [exact Hd|]. unfold time_parse_from_str. rewrite Hps. exact Hp.
Qed.

Example time_forms_inhabited :
  valid_time (Model.Time.mk_time 86399 1999999999) /\ trunc_frac 3 (Model.Time.mk_time 86399 1999999999) = Model.Time.mk_time 86399 1999000000 /\
  trunc_frac 6 (Model.Time.mk_time 2094 26490708) = Model.Time.mk_time 2094 26490000.
Proof. split; [split; [cbn; lia|right; cbn; lia]|split; reflexivity]. Qed.
