(** C06 — the operations the first round left without a theorem: the panicking constructors, the
    remaining operator forms, the assigning forms, the by-value sum, the constants, is_zero and the
    accessor tuple of the case protocol. *)
From Coq Require Import ZArith List Bool Lia ZifyBool String.
From V Require Import Base.Int Base.IntLemmas Base.IO Gen.TimeDelta Model.C06 Proofs.C06.
Import ListNotations.
Open Scope Z_scope.
Ltac Zify.zify_post_hook ::= Z.to_euclidean_division_equations.

Definition in_rngb (x : Z) : bool := Z.leb RMIN x && Z.leb x RMAX.
Lemma in_rngb_iff x : in_rngb x = true <-> in_rng x.
Proof. unfold in_rngb, in_rng. lia. Qed.
(* the exact duration of [x] nanoseconds when x is in the range, the documented panic otherwise *)
Definition exact_or_panic (r : R td) (x : Z) : Prop :=
  if in_rngb x then exists d, r = Val d /\ ns d = x /\ valid d else r = Panic.

Lemma exact_or_panic_iff r x : exact_or_panic r x <->
  (in_rng x -> exists d, r = Val d /\ ns d = x /\ valid d) /\ (~ in_rng x -> r = Panic).
Proof.
  unfold exact_or_panic. destruct (in_rngb x) eqn:E.
  - apply in_rngb_iff in E. split; [intros H; split; [intros _; exact H|tauto]|intros [H _]; auto].
  - assert (~ in_rng x) by (intros H; apply in_rngb_iff in H; congruence).
    split; [intros H'; split; [tauto|intros _; exact H']|intros [_ H']; auto].
Qed.
Lemma eop_of_option o x :
  match o with Some d => ns d = x /\ valid d | None => ~ in_rng x end -> exact_or_panic (unwrap o) x.
Proof.
  unfold exact_or_panic. destruct o as [d|]; cbn [unwrap]; intros H.
  - destruct H as [H1 H2]. pose proof H2 as [_ H3]. rewrite H1 in H3. apply in_rngb_iff in H3. rewrite H3. exists d. auto.
  - destruct (in_rngb x) eqn:E; [apply in_rngb_iff in E; tauto|reflexivity].
Qed.
Lemma eop_of_checked c x :
  (exists r, c = Val r /\ match r with Some d => ns d = x /\ valid d | None => ~ in_rng x end) ->
  exact_or_panic (unwrap_r c) x.
Proof. intros (r & -> & H). unfold unwrap_r. cbn [bind]. apply eop_of_option. exact H. Qed.

Theorem pweeks_spec n : in_i64 n = true -> exact_or_panic (unwrap (try_weeks n)) (n * 604800 * G).
Proof. intros H. apply eop_of_option. apply try_weeks_spec. exact H. Qed.
Theorem pdays_spec n : in_i64 n = true -> exact_or_panic (unwrap (try_days n)) (n * 86400 * G).
Proof. intros H. apply eop_of_option. apply try_days_spec. exact H. Qed.
Theorem phours_spec n : in_i64 n = true -> exact_or_panic (unwrap (try_hours n)) (n * 3600 * G).
Proof. intros H. apply eop_of_option. apply try_hours_spec. exact H. Qed.
Theorem pminutes_spec n : in_i64 n = true -> exact_or_panic (unwrap (try_minutes n)) (n * 60 * G).
Proof. intros H. apply eop_of_option. apply try_minutes_spec. exact H. Qed.
Theorem pseconds_spec n : in_i64 n = true -> exact_or_panic (unwrap (try_seconds n)) (n * G).
Proof. intros H. apply eop_of_option. apply try_seconds_spec. exact H. Qed.
Theorem pmillis_spec n : in_i64 n = true -> exact_or_panic (unwrap_r (try_milliseconds n)) (n * 1000000).
Proof. intros H. apply eop_of_checked. apply try_milliseconds_spec. exact H. Qed.

Theorem op_add_eop a b : valid a -> valid b -> exact_or_panic (op_add a b) (ns a + ns b).
Proof. intros Ha Hb. apply eop_of_checked. apply checked_add_spec; assumption. Qed.
Theorem op_sub_eop a b : valid a -> valid b -> exact_or_panic (op_sub a b) (ns a - ns b).
Proof. intros Ha Hb. apply eop_of_checked. apply checked_sub_spec; assumption. Qed.
Theorem op_mul_spec a k : valid a -> in_i32 k = true -> exact_or_panic (op_mul a k) (ns a * k).
Proof. intros Ha Hk. apply eop_of_checked. apply checked_mul_spec; assumption. Qed.
Theorem op_div_spec a k : valid a -> in_i32 k = true ->
  (k = 0 -> td_checked_div a k = Val None /\ op_div a k = Panic) /\
  (k <> 0 -> exists d, op_div a k = Val d /\ td_checked_div a k = Val (Some d) /\ valid d /\
                       Z.abs (ns d * k - ns a) < 2 * Z.abs k).
Proof.
  intros Ha Hk. split.
  - intros ->. split; reflexivity.
  - intros Hnz. destruct (checked_div_spec a k Ha Hk Hnz) as (d & E & Hv & Hd).
    exists d. unfold op_div, unwrap_r. rewrite E. cbn [bind unwrap]. auto.
Qed.
(* AddAssign / SubAssign have their own bodies (checked form, expect): the same results as + and - *)
Theorem assign_forms a b :
  unwrap_r (td_checked_add a b) = op_add a b /\ unwrap_r (td_checked_sub a b) = op_sub a b.
Proof. split; reflexivity. Qed.

(* constants *)
Theorem consts_spec :
  valid (mk_td TD_MIN_secs TD_MIN_nanos) /\ ns (mk_td TD_MIN_secs TD_MIN_nanos) = RMIN /\
  valid (mk_td TD_MAX_secs TD_MAX_nanos) /\ ns (mk_td TD_MAX_secs TD_MAX_nanos) = RMAX /\
  valid (mk_td 0 0) /\ ns (mk_td 0 0) = 0 /\
  (forall d, valid d -> ns (mk_td TD_MIN_secs TD_MIN_nanos) <= ns d <= ns (mk_td TD_MAX_secs TD_MAX_nanos)).
Proof.
  assert (E1 : ns (mk_td TD_MIN_secs TD_MIN_nanos) = RMIN) by reflexivity.
  assert (E2 : ns (mk_td TD_MAX_secs TD_MAX_nanos) = RMAX) by reflexivity.
  repeat match goal with |- _ /\ _ => split end; try reflexivity.
  - repeat autounfold with c06. cbn [secs nanos]. lia.
  - repeat autounfold with c06. cbn [secs nanos]. lia.
  - repeat autounfold with c06. cbn [secs nanos]. lia.
  - intros d [_ H]. rewrite E1, E2. exact H.
Qed.
Theorem is_zero_spec d : valid d -> is_zero d = (ns d =? 0).
Proof. intros [H _]. unfold is_zero, ns, G in *. lia. Qed.

(* the accessor tuple of op td.acc: all eleven accessors and is_zero at once *)
Theorem td_acc_spec d : valid d ->
  td_acc d = Val (VTup [VInt (Z.quot (ns d) (604800 * G)); VInt (Z.quot (ns d) (86400 * G));
    VInt (Z.quot (ns d) (3600 * G)); VInt (Z.quot (ns d) (60 * G)); VInt (Z.quot (ns d) G);
    VInt (Z.quot (ns d) 1000000);
    val_of_option VInt (if in_i64 (Z.quot (ns d) 1000) then Some (Z.quot (ns d) 1000) else None);
    val_of_option VInt (if in_i64 (ns d) then Some (ns d) else None);
    VInt (Z.quot (Z.rem (ns d) G) 1000000); VInt (Z.quot (Z.rem (ns d) G) 1000); VInt (Z.rem (ns d) G);
    val_of_bool (ns d =? 0)]).
Proof.
  intros H. unfold td_acc.
  rewrite num_weeks_spec, num_days_spec, num_hours_spec, num_minutes_spec, num_seconds_spec,
    num_milliseconds_spec, num_microseconds_spec, num_nanoseconds_spec, subsec_millis_spec,
    subsec_micros_spec, subsec_nanos_spec, is_zero_spec by exact H.
  reflexivity.
Qed.
