(** C13 -- the composite and alias specifiers %v (= "%e-%b-%Y"), %h (= %b), %n and %t (white space) are
    inside the item-list class of Proofs/C13Static.v: StrftimeItems expands them to items the class
    theorems cover.  [fmt_date_class] / [fmt_ndt_class] decide membership on the FORMAT STRING; the two
    theorems below turn the boolean into the round trip for every value. *)
From Coq Require Import ZArith List Bool Lia ZifyBool.
From V Require Import Base.Int Base.IO Base.Utf8 Model.Scan Model.Items Model.Parse Proofs.C13Time Proofs.C13Static.
From V Require Model.Parsed Model.Format Model.Time Model.DateTime Model.Strftime Proofs.C08Sweeps.
Import ListNotations.
Open Scope Z_scope.

Definition fmt_date_class (fmt : bytes) : bool :=
  match items_of fmt with
  | Val (Some items) => static_ok items && forallb (it_kind_ok true false false) items && static_date_ok items
  | _ => false
  end.

Theorem fmt_date_class_roundtrip fmt : fmt_date_class fmt = true ->
  forall y o d, Proofs.C08Sweeps.repr y o d ->
  exists text,
    Model.Format.delayed_display (Model.Format.fa_of_date d) (Model.Strftime.sf_new fmt) = Model.Format.fok text /\
    date_parse_from_str text fmt = pok d.
Proof.
  unfold fmt_date_class. destruct (items_of fmt) as [[items|]| |] eqn:E; try discriminate. intros H.
  apply andb_prop in H. destruct H as [H H3]. apply andb_prop in H. destruct H as [H1 H2].
  exact (class_date_parse_from_str fmt items E H1 H2 H3).
Qed.

Theorem fmt_ndt_class_roundtrip fmt k : fmt_ndt_class k fmt = true -> k = 3 \/ k = 6 \/ k = 9 ->
  exists items, items_of fmt = Val (Some items) /\
  forall y o d t, Proofs.C08Sweeps.repr y o d -> valid_time t ->
  exists text,
    Model.Format.delayed_display (Model.Format.fa_of_ndt (Model.DateTime.mk_ndt d t)) (Model.Strftime.sf_new fmt) = Model.Format.fok text /\
    ndt_parse_from_str text fmt = pok (Model.DateTime.mk_ndt d (static_time_value items k t)).
Proof.
  unfold fmt_ndt_class, ndt_static. destruct (items_of fmt) as [[items|]| |] eqn:E; try discriminate. intros H Hk.
  apply andb_prop in H. destruct H as [H H5]. apply andb_prop in H. destruct H as [H H4].
  apply andb_prop in H. destruct H as [H H3]. apply andb_prop in H. destruct H as [H1 H2].
  exists items. split; [reflexivity|]. exact (class_ndt_parse_from_str fmt items k E H1 H2 H3 H4 H5 Hk).
Qed.

(** members: "%v", "%d %h %Y", "%e%t%h%n%Y" (dates); "%F%n%T", "%F%t%T", "%v%n%T", "%d %h %Y%t%H:%M:%S"
    (date-times); %h yields the item of %b, %n and %t white-space items *)
Example more_format_strings :
  fmt_date_class [37;118] = true /\
  fmt_date_class [37;100;32;37;104;32;37;89] = true /\
  fmt_date_class [37;101;37;116;37;104;37;110;37;89] = true /\
  fmt_ndt_class 9 [37;70;37;110;37;84] = true /\
  fmt_ndt_class 9 [37;70;37;116;37;84] = true /\
  fmt_ndt_class 9 [37;118;37;110;37;84] = true /\
  fmt_ndt_class 9 [37;100;32;37;104;32;37;89;37;116;37;72;58;37;77;58;37;83] = true /\
  items_of [37;104] = items_of [37;98] /\
  items_of [37;110;37;116] = Val (Some [Space [10]; Space [9]]).
Proof. vm_compute. repeat split; reflexivity. Qed.
