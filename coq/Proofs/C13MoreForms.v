(** C13 -- the composite and alias specifiers %v (= "%e-%b-%Y"), %h (= %b), %n and %t (white space) are
    inside the item-list class of Proofs/C13Static.v: StrftimeItems expands them to items the class
    theorems cover.  [fmt_date_class] / [fmt_ndt_class] decide membership on the FORMAT STRING; the two
    theorems below turn the boolean into the round trip for every value. *)
From Coq Require Import ZArith List Bool Lia ZifyBool.
From V Require Import Base.Int Base.IO Base.Utf8 Model.Scan Model.Items Model.Parse Proofs.C13Time Proofs.C13Static.
From V Require Model.Parsed Model.Format Model.Time Model.DateTime Model.Strftime Proofs.C08Sweeps.
Import ListNotations.
Open Scope Z_scope.

Definition fmt_date_class (fmt : bytes) : bool :=
  match items_of fmt with
  | Val (Some items) => static_ok items && forallb (it_kind_ok true false false) items && static_date_ok items
  | _ => false
  end.

Theorem fmt_date_class_roundtrip fmt : fmt_date_class fmt = true ->
  forall y o d, Proofs.C08Sweeps.repr y o d ->
  exists text,
    Model.Format.delayed_display (Model.Format.fa_of_date d) (Model.Strftime.sf_new fmt) = Model.Format.fok text /\
    date_parse_from_str text fmt = pok d.
Proof.
  unfold fmt_date_class. destruct (items_of fmt) as [[items|]| |] eqn:E; try discriminate. intros H.
  apply andb_prop in H. destruct H as [H H3]. apply andb_prop in H. destruct H as [H1 H2].
  exact (class_date_parse_from_str fmt items E H1 H2 H3).
Qed.

Theorem fmt_ndt_class_roundtrip fmt k : fmt_ndt_class k fmt = true -> k = 3 \/ k = 6 \/ k = 9 ->
  exists items, items_of fmt = Val (Some items) /\
  forall y o d t, Proofs.C08Sweeps.repr y o d -> valid_time t ->
  exists text,
    Model.Format.delayed_display (Model.Format.fa_of_ndt (Model.DateTime.mk_ndt d t)) (Model.Strftime.sf_new fmt) = Model.Format.fok text /\
    ndt_parse_from_str text fmt = pok (Model.DateTime.mk_ndt d (static_time_value items k t)).
Proof.
  unfold fmt_ndt_class, ndt_static. destruct (items_of fmt) as [[items|]| |] eqn:E; try discriminate. intros H Hk.
  apply andb_prop in H. destruct H as [H H5]. apply andb_prop in H. destruct H as [H H4].
  apply andb_prop in H. destruct H as [H H3]. apply andb_prop in H. destruct H as [H1 H2].
  exists items. split; [reflexivity|]. exact (class_ndt_parse_from_str fmt items k E H1 H2 H3 H4 H5 Hk).
Qed.

(** members: "%v", "%d %h %Y", "%e%t%h%n%Y" (dates); "%F%n%T", "%F%t%T", "%v%n%T", "%d %h %Y%t%H:%M:%S"
    (date-times); %h yields the item of %b, %n and %t white-space items *)
Example more_format_strings :
  fmt_date_class [37;118] = true /\
  fmt_date_class [37;100;32;37;104;32;37;89] = true /\
  fmt_date_class [37;101;37;116;37;104;37;110;37;89] = true /\
  fmt_ndt_class 9 [37;70;37;110;37;84] = true /\
  fmt_ndt_class 9 [37;70;37;116;37;84] = true /\
  fmt_ndt_class 9 [37;118;37;110;37;84] = true /\
  fmt_ndt_class 9 [37;100;32;37;104;32;37;89;37;116;37;72;58;37;77;58;37;83] = true /\
  items_of [37;104] = items_of [37;98] /\
  items_of [37;110;37;116] = Val (Some [Space [10]; Space [9]]).
Proof. vm_compute. repeat split; reflexivity. Qed.

(** * literals of the format need not be ASCII: any well-formed UTF-8 literal is in the class
    ([it_static (Literal l) r = utf8_valid l]); a literal that starts with a Unicode white-space
    character (U+00A0 = C2 A0, U+3000 = E3 80 80 ...) counts as white space for a white-space item in
    front of it, which the reader's [trim_start] would eat into. *)
(* "%Y年%m月%d日 %H時%M分%S秒" *)
Definition CJK_FMT : bytes :=
  [37;89;229;185;180; 37;109;230;156;136; 37;100;230;151;165; 32; 37;72;230;153;130; 37;77;229;136;134; 37;83;231;167;146].
Definition CJK_ITEMS : list Item :=
  [num0 N_Year; Literal [229;185;180]; num0 N_Month; Literal [230;156;136]; num0 N_Day; Literal [230;151;165]; Space [32];
   num0 N_Hour; Literal [230;153;130]; num0 N_Minute; Literal [229;136;134]; num0 N_Second; Literal [231;167;146]].

Example class_utf8_literal_members :
  (* the item list and the format string of "%Y年%m月%d日 %H時%M分%S秒"; StrftimeItems yields these items *)
  ndt_static 9 CJK_ITEMS = true /\ items_of CJK_FMT = Val (Some CJK_ITEMS) /\ fmt_ndt_class 9 CJK_FMT = true /\
  (* "%Y年%m月%d日" as a date format; "%H時%M" follows a space-padded %k-like hour: a non-ASCII byte is not a digit *)
  fmt_date_class [37;89;229;185;180; 37;109;230;156;136; 37;100;230;151;165] = true /\
  static_ok [nums N_Hour; Literal [230;153;130]; num N_Minute; Literal [229;136;134]] = true /\
  (* U+2212 MINUS SIGN, U+00B7 MIDDLE DOT, a four-byte emoji as separators *)
  static_ok [num0 N_Year; Literal [226;136;146]; num0 N_Month; Literal [194;183]; num0 N_Day; Literal [240;159;149;146]; num0 N_Hour] = true /\
  (* a literal that starts with NO-BREAK SPACE / IDEOGRAPHIC SPACE: fine after a number or a literal ... *)
  static_ok [num0 N_Day; Literal [194;160]; num0 N_Month; Literal [227;128;128]; num0 N_Year] = true /\
  (* ... but not after a white-space item (the reader's trim_start would take it), also through an empty literal *)
  static_ok2 [num0 N_Day; Space [32]; Literal [194;160]; num0 N_Month] = false /\
  static_ok2 [num0 N_Day; Space [32]; Literal []; Literal [227;128;128; 65]; num0 N_Month] = false /\
  static_ok2 [num0 N_Day; Space [32]; Literal [195;160]; num0 N_Month] = true /\
  (* the flags of an ASCII literal are what they were: digit / white space / dot read off the first byte *)
  static_ok2 [num N_Day; Literal [49;229;185;180]] = false /\ static_ok2 [num N_Day; Literal [229;185;180;49]] = true /\
  static_ok2 [Space [32]; Literal [9;65]] = false /\ static_ok2 [IFixed F_Nanosecond; Literal [46]] = false /\
  (* ill-formed literals (a lone continuation byte, a truncated sequence, a surrogate) stay outside; white
     space of the FORMAT that is not ASCII is a Space item of StrftimeItems and stays outside *)
  static_ok2 [Literal [185;180]] = false /\ static_ok2 [Literal [229;185]] = false /\ static_ok2 [Literal [237;160;128]] = false /\
  items_of [37;100;194;160;37;72] = Val (Some [num0 N_Day; Space [194;160]; num0 N_Hour]) /\
  fmt_ndt_class 9 [37;70;194;160;37;84] = false.
Proof. vm_compute. repeat split; reflexivity. Qed.

(** instance: every NaiveDateTime formatted with "%Y年%m月%d日 %H時%M分%S秒" parses back with the same format
    to the value truncated to the second (a leap second is kept) *)
Theorem cjk_ndt_parse_from_str : forall y o d t, Proofs.C08Sweeps.repr y o d -> valid_time t ->
  exists text,
    Model.Format.delayed_display (Model.Format.fa_of_ndt (Model.DateTime.mk_ndt d t)) (Model.Strftime.sf_new CJK_FMT) = Model.Format.fok text /\
    ndt_parse_from_str text CJK_FMT =
      pok (Model.DateTime.mk_ndt d (Model.Time.mk_time (Model.Time.tsecs t) (Proofs.C13TimeForms.leap_part t))).
Proof.
  intros y o d t H Hvt.
  destruct (fmt_ndt_class_roundtrip CJK_FMT 9 ltac:(vm_compute; reflexivity) ltac:(right; right; reflexivity))
    as (items & Hi & Hall).
  assert (E : items = CJK_ITEMS).
  { assert (Hc : items_of CJK_FMT = Val (Some CJK_ITEMS)) by (vm_compute; reflexivity).
    rewrite Hc in Hi. injection Hi as <-. reflexivity. }
  subst items. destruct (Hall y o d t H Hvt) as (text & Hw & Hp). exists text. split; [exact Hw|].
  rewrite Hp. unfold static_time_value.
  change (fmem Model.Parsed.F_second (sfields CJK_ITEMS)) with true. change (fmem Model.Parsed.F_nanosecond (sfields CJK_ITEMS)) with false.
  cbv iota. rewrite Z.add_0_r. reflexivity.
Qed.
