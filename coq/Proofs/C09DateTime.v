(** C09 -- NaiveDateTime: Debug text parses back (every represented date x every time in the
    domain); the Display text is refused by FromStr for EVERY such value (the recorded finding). *)
From Coq Require Import ZArith List Bool Lia ZifyBool String.
From V Require Import Base.Int Base.IntLemmas Base.IO Base.Utf8 Gen.DateTables Gen.TextForms Gen.ParseTable Gen.DateTimeConsts
  Model.Scan Model.Items Model.Rfc3339 Model.Parse Model.FromStr Model.Show Model.DateTime Spec.Gregorian
  Proofs.Utf8 Proofs.Scan Proofs.Decimal Proofs.C09Parse Proofs.C09Show Proofs.C09Time Proofs.C09Date.
From V Require Model.Parsed Model.Date Model.Time Proofs.C14 Proofs.Date Proofs.C08.
Import ListNotations.
Open Scope Z_scope.
Ltac Zify.zify_post_hook ::= Z.to_euclidean_division_equations.

Import Model.Parsed.
Import Proofs.Date.

(** * writer texts *)
Definition ndt_txt (sep y m dd s f : Z) : bytes := date_txt y m dd ++ sep :: time_txt s f.

Lemma ndt_debug_text w y o d t : repr y o d -> tvalid t ->
  ndt_debug w (mk_ndt d t) = wok (w ++ ndt_txt 84 y (C08.month_of y o) (C08.day_of y o) (Time.tsecs t) (Time.tfrac t)).
Proof.
  intros H Ht. unfold ndt_debug, ndt_txt. cbn [nd_date nd_time].
  rewrite (date_debug_text w y o d H). unfold wseq, wok. cbn [bind]. unfold write_char. cbn [bind].
  rewrite time_debug_text by exact Ht. unfold wok. change SH_NDT_DEBUG_SEP with 84.
  rewrite <- !app_assoc. reflexivity.
Qed.
Lemma ndt_display_text w y o d t : repr y o d -> tvalid t ->
  ndt_display w (mk_ndt d t) = wok (w ++ ndt_txt 32 y (C08.month_of y o) (C08.day_of y o) (Time.tsecs t) (Time.tfrac t)).
Proof.
  intros H Ht. unfold ndt_display, ndt_txt, date_display, time_display. cbn [nd_date nd_time].
  rewrite (date_debug_text w y o d H). unfold wseq, wok. cbn [bind]. unfold write_char. cbn [bind].
  rewrite time_debug_text by exact Ht. unfold wok. change SH_NDT_DISPLAY_SEP with 32.
  rewrite <- !app_assoc. reflexivity.
Qed.

(** * the timestamp check of to_naive_datetime_with_offset never traps *)
Lemma dt_timestamp_ok y o d t off : repr y o d -> 0 <= Time.tsecs t < 86400 -> -86400 < off < 86400 ->
  exists ts, dt_timestamp (mk_ndt d t) = Val ts /\ sub_i64 ts off = Val (ts - off).
Proof.
  intros H Ht Ho. unfold dt_timestamp. cbn [nd_date nd_time].
  rewrite (num_days_from_ce_spec y o d H). cbn [bind].
  pose proof (repr_dn_in_range y o d H) as Hr. unfold dn_in_range, DN_MIN, DN_MAX in Hr.
  unfold Time.num_seconds_from_midnight. change UNIX_EPOCH_DAY with 719163.
  unfold sub_i64, mul_i64, add_i64.
  rewrite chk_in by (unfold in_i64, in_range, i64_min, i64_max; lia). cbn [bind].
  rewrite chk_in by (unfold in_i64, in_range, i64_min, i64_max; lia). cbn [bind].
  rewrite chk_in by (unfold in_i64, in_range, i64_min, i64_max; lia).
  eexists. split; [reflexivity|].
  rewrite chk_in by (unfold in_i64, in_range, i64_min, i64_max; lia). reflexivity.
Qed.

(** * resolution of date + time fields *)
Lemma fresh_new : date_fresh parsed_new /\ time_fresh parsed_new.
Proof. repeat split. Qed.
Lemma time_fresh_ymd p y m dd : time_fresh p -> time_fresh (with_ymd p y m dd).
Proof.
  intros (F1 & F2 & F3 & F4 & F5). unfold with_ymd, time_fresh.
  rewrite !C14.pget_pput_other by discriminate. auto.
Qed.

Lemma to_naive_date_dt y o d s f : repr y o d ->
  to_naive_date (with_time (with_ymd parsed_new y (C08.month_of y o) (C08.day_of y o)) s f) = Val (Ok d).
Proof.
  intros H. destruct (repr_ymd y o d H) as (Hm & Hd & Hv & Hmk & Hy).
  set (p0 := with_ymd parsed_new y (C08.month_of y o) (C08.day_of y o)).
  destruct (with_time_date p0 s f) as (E1 & E2 & E3 & E4 & E5 & E6 & E7 & E8 & E9 & E10 & E11 & E12 & E13 & E14 & _).
  rewrite (to_naive_date_ymd _ y (C08.month_of y o) (C08.day_of y o)); try assumption.
  - rewrite Hmk. reflexivity.
  - unfold date_only_ymd. rewrite E4, E5, E6, E7, E8, E9, E10, E11, E12, E13, E14. repeat split.
  - exact (proj1 H).
Qed.

Definition ndt_dom (a : ndt) : Prop := (exists y o, repr y o (nd_date a)) /\ time_dom (nd_time a).

Theorem ndt_debug_roundtrip_text y o d t : repr y o d -> time_dom t ->
  naive_datetime_from_str (ndt_txt 84 y (C08.month_of y o) (C08.day_of y o) (Time.tsecs t) (Time.tfrac t)) = Val (POk (mk_ndt d t)).
Proof.
  intros H Ht. destruct (repr_ymd y o d H) as (Hm & Hd & Hv & Hmk & Hy).
  destruct t as [s f]. cbn [Time.tsecs Time.tfrac].
  set (m := C08.month_of y o) in *. set (dd := C08.day_of y o) in *.
  unfold naive_datetime_from_str, parse, parse_end, parse_internal, FS_NAIVE_DATETIME_ITEMS, ndt_txt.
  destruct fresh_new as [Fd Ft].
  rewrite run_date; try lia; [|exact Fd|].
  2:{ ascii_tac; unfold time_txt; ascii_tac. }
  rewrite step_space by (cbn; unfold is_whitespace; lia).
  rewrite step_lit by (apply utf8_ascii; unfold time_txt; ascii_tac).
  rewrite <- (app_nil_r (time_txt s f)).
  rewrite run_time; [|apply time_fresh_ymd; exact Ft|exact Ht|apply frac_stop_nil].
  rewrite step_space by exact I. rewrite parse_items_nil. cbn [pbind bind pok is_empty]. unfold pr_of.
  unfold to_naive_datetime_with_offset. change FS_NAIVE_DATETIME_OFFSET with 0.
  unfold m, dd. rewrite (to_naive_date_dt y o d s f H). cbn [bind].
  rewrite to_naive_time_with_time by (exact Ht || reflexivity). cbn [bind].
  destruct Ht as [[Hs Hf] Hl]. cbn [Time.tsecs Time.tfrac] in *.
  destruct (dt_timestamp_ok y o d (Time.mk_time s f) 0 H Hs ltac:(lia)) as (ts & Ets & Esub).
  rewrite Ets. cbn [bind]. rewrite Esub. cbn [bind].
  destruct (with_time_date (with_ymd parsed_new y (C08.month_of y o) (C08.day_of y o)) s f) as (_ & _ & _ & _ & _ & _ & _ & _ & _ & _ & _ & _ & _ & _ & E15 & _).
  rewrite E15. reflexivity.
Qed.

Theorem ndt_debug_roundtrip a : ndt_dom a ->
  exists s, to_text (ndt_debug [] a) = Val s /\ naive_datetime_from_str s = Val (POk a).
Proof.
  intros [(y & o & H) Ht]. destruct a as [d t]. cbn [nd_date nd_time] in *.
  eexists. rewrite (ndt_debug_text [] y o d t H (proj1 Ht)). cbn [app]. split; [reflexivity|].
  apply ndt_debug_roundtrip_text; assumption.
Qed.

(** * the recorded finding, for every value: the Display text is refused *)
Lemma trim_start_space r : nows_start r -> trim_start (32 :: r) = r.
Proof.
  intros H. unfold trim_start. change (32 :: r) with ([32] ++ r). apply trim_prefix.
  - constructor; [|constructor]. split; [lia|reflexivity].
  - unfold first_cp_fails. destruct r as [|c r']; [exact I|]. destruct H as [Hc Hw].
    rewrite next_code_point_ascii by lia. exact Hw.
Qed.
Lemma time_txt_nows s f : nows_start (time_txt s f).
Proof. unfold time_txt. apply digits_nows; [apply low_digits_digits|discriminate]. Qed.

Lemma parse_item_space_sp rel p r x : nows_start r -> parse_item rel p (32 :: r) (Space x) = pok (p, r).
Proof. intros H. cbn [parse_item]. rewrite trim_start_space by exact H. reflexivity. Qed.
Lemma parse_item_literal1_bad rel p c k r : c <> k -> parse_item rel p (c :: r) (Literal [k]) = perr_ Scan.Invalid.
Proof.
  intros H. cbn [parse_item]. rewrite !blen_cons, blen_nil. pose proof (blen_nonneg r).
  replace (1 + blen r <? 1 + 0) with false by lia.
  unfold starts_with. cbn [strip_prefix]. replace (k =? c) with false by lia. reflexivity.
Qed.

Theorem ndt_display_refused a : ndt_dom a ->
  exists s, to_text (ndt_display [] a) = Val s /\ naive_datetime_from_str s = Val (PErr Scan.Invalid).
Proof.
  intros [(y & o & H) Ht]. destruct a as [d [s f]]. cbn [nd_date nd_time] in *.
  destruct (repr_ymd y o d H) as (Hm & Hd & Hv & Hmk & Hy).
  eexists. rewrite (ndt_display_text [] y o d _ H (proj1 Ht)). cbn [app Time.tsecs Time.tfrac]. split; [reflexivity|].
  unfold naive_datetime_from_str, parse, parse_end, parse_internal, FS_NAIVE_DATETIME_ITEMS, ndt_txt.
  destruct fresh_new as [Fd Ft].
  rewrite run_date; try lia; [|exact Fd|].
  2:{ ascii_tac; unfold time_txt; ascii_tac. }
  cbn [parse_items]. rewrite (parse_item_space_sp _ _ _ _ (time_txt_nows s f)). cbn [pbind bind pok].
  unfold time_txt at 1. cbn [low_digits app].
  rewrite parse_item_literal1_bad; [reflexivity|].
  pose proof (Z.mod_pos_bound (s / 3600 / 10) 10 ltac:(lia)). lia.
Qed.
