(** C13 — the one-directional items: %Z (print-only: the reader skips a word and sets nothing),
    %::z / %:::z (print-only: seconds are not read back, hours alone are refused), %#z (read-only:
    the formatter refuses it; the reader also takes hours without minutes). *)
From Coq Require Import ZArith List Bool Lia ZifyBool.
From V Require Import Base.Int Base.IntLemmas Base.IO Base.Utf8 Gen.ScanTables Model.Scan Model.Items
  Gen.ParseTable Proofs.Utf8 Proofs.Scan Model.Parse Proofs.C13 Proofs.C13Reads.
From V Require Model.Parsed Model.Format.
Import ListNotations.
Open Scope Z_scope.

(* %Z: whatever non-white-space ASCII word was printed is skipped; no field is set *)
Theorem timezone_name_skips relaxed p word rest :
  Forall (fun c => 0 <= c <= 127 /\ is_whitespace c = false) word ->
  first_cp_fails (fun c => negb (is_whitespace c)) rest ->
  parse_item relaxed p (word ++ rest) (IFixed F_TimezoneName) = pok (p, rest).
Proof.
  intros Hw Hr. cbn [parse_item parse_fixed]. rewrite trim_prefix; [reflexivity| |exact Hr].
  induction Hw as [|c w [Hc Hws] _ IH]; constructor; [|exact IH]. split; [exact Hc|]. rewrite Hws. reflexivity.
Qed.

(* %::z prints +hh:mm:ss; the reader stops after the minutes: the seconds stay in the input *)
Theorem double_colon_offset_leaves_seconds p sg h1 h2 m1 m2 s1 s2 rest :
  (sg = 43 \/ sg = 45) -> is_ascii_digit h1 = true -> is_ascii_digit h2 = true ->
  48 <= m1 <= 53 -> is_ascii_digit m2 = true -> is_ascii_digit s1 = true -> is_ascii_digit s2 = true ->
  utf8_valid rest = true ->
  parse_tz_item p ([sg; h1; h2; 58; m1; m2; 58; s1; s2] ++ rest) (fixed_idx F_TimezoneOffsetDoubleColon) =
  (let+ p' := setq (Model.Parsed.set_offset p (off_value (sg =? 45) h1 h2 m1 m2)) in pok (p', 58 :: s1 :: s2 :: rest)).
Proof.
  intros Hsg H1 H2 Hm1 Hm2 Hs1 Hs2 Hv.
  pose proof (digit_range s1 Hs1). pose proof (digit_range s2 Hs2).
  assert (Hv' : utf8_valid (58 :: s1 :: s2 :: rest) = true) by (rewrite !utf8_valid_ascii by lia; exact Hv).
  assert (Hr : reads_offset (false, false, true) [sg; h1; h2; 58; m1; m2] (58 :: s1 :: s2 :: rest)
               = Some (W_code 21 (off_value (sg =? 45) h1 h2 m1 m2))).
  { unfold reads_offset. change (58 =? 58) with true. cbv iota. rewrite H1, H2, Hm2, Hv'.
    replace ((sg =? 43) || (sg =? 45)) with true by lia. replace (48 <=? m1) with true by lia.
    replace (m1 <=? 53) with true by lia. reflexivity. }
  exact (reads_tz_item_sound (fixed_idx F_TimezoneOffsetDoubleColon) [sg; h1; h2; 58; m1; m2] (58 :: s1 :: s2 :: rest) _ Hr p).
Qed.

(* %:::z prints +hh only; read back with %:::z (or %z %:z %::z) it is refused: minutes are mandatory *)
Theorem triple_colon_offset_refused p sg h1 h2 :
  (sg = 43 \/ sg = 45) -> is_ascii_digit h1 = true -> is_ascii_digit h2 = true ->
  parse_tz_item p [sg; h1; h2] (fixed_idx F_TimezoneOffsetTripleColon) = perr_ TooShort.
Proof.
  intros Hsg H1 H2. unfold parse_tz_item. change (zassoc (fixed_idx F_TimezoneOffsetTripleColon) P_TZ_FLAGS) with (Some (false, false, true)).
  pose proof (digit_range h1 H1). pose proof (digit_range h2 H2).
  assert (Htrim : trim_start [sg; h1; h2] = [sg; h1; h2]).
  { unfold trim_start. apply (trim_prefix is_whitespace [] [sg; h1; h2]); [constructor|]. apply first_cp_byte_not_ws. lia. }
  rewrite Htrim, timezone_offset_unfold. cbn [andb]. rewrite next_code_point_ascii by lia.
  change (len_utf8 43) with 1. change (len_utf8 45) with 1.
  rewrite str_from_1 by (cbn [starts_ok]; apply boundary_byte; lia). cbn [bind].
  assert (Hgo : forall neg, tz_tail neg [h1; h2] colon_or_space false = perr_ TooShort).
  { intros neg. unfold tz_tail. cbn [tz_digits]. rewrite H1, H2. cbn [andb].
    rewrite two_digit_value_ok by assumption. cbn [plift bind pbind].
    rewrite str_from_2 by reflexivity. reflexivity. }
  destruct Hsg as [-> | ->].
  - change (43 =? 43) with true. cbv iota. cbn [pbind bind pok]. rewrite Hgo. reflexivity.
  - change (45 =? 43) with false. change (45 =? 45) with true. cbv iota. cbn [pbind bind pok]. rewrite Hgo. reflexivity.
Qed.

(* %#z is read-only: every value fails to format it ... *)
Theorem permissive_offset_not_printed a :
  Model.Format.format_item a (IFixed (F_Internal I_TimezoneOffsetPermissive)) = Model.Format.ferr.
Proof. destruct a as [[d|] [t|] [[n o]|]]; reflexivity. Qed.
(* ... and on input it also accepts the hours alone *)
Theorem permissive_offset_reads_hours p sg h1 h2 :
  (sg = 43 \/ sg = 45) -> is_ascii_digit h1 = true -> is_ascii_digit h2 = true ->
  parse_tz_item p [sg; h1; h2] (fixed_idx (F_Internal I_TimezoneOffsetPermissive)) =
  (let+ p' := setq (Model.Parsed.set_offset p (off_value (sg =? 45) h1 h2 48 48)) in pok (p', [])).
Proof.
  intros Hsg H1 H2. unfold parse_tz_item.
  change (zassoc (fixed_idx (F_Internal I_TimezoneOffsetPermissive)) P_TZ_FLAGS) with (Some (true, true, true)).
  pose proof (digit_range h1 H1). pose proof (digit_range h2 H2).
  assert (Htrim : trim_start [sg; h1; h2] = [sg; h1; h2]).
  { unfold trim_start. apply (trim_prefix is_whitespace [] [sg; h1; h2]); [constructor|]. apply first_cp_byte_not_ws. lia. }
  rewrite Htrim, timezone_offset_unfold. replace ((sg =? 90) || (sg =? 122)) with false by lia. cbn [andb].
  rewrite next_code_point_ascii by lia. change (len_utf8 43) with 1. change (len_utf8 45) with 1.
  rewrite str_from_1 by (cbn [starts_ok]; apply boundary_byte; lia). cbn [bind].
  assert (Hgo : forall neg : bool, tz_tail neg [h1; h2] colon_or_space true = pok ([], off_value neg h1 h2 48 48)).
  { intros neg. unfold tz_tail. cbn [tz_digits]. rewrite H1, H2. cbn [andb].
    rewrite two_digit_value_ok by assumption. cbn [plift bind pbind].
    rewrite str_from_2 by reflexivity. cbn [bind]. unfold colon_or_space, trim_start_matches. cbn [List.length trim_start_matches_fuel pbind bind pok tz_digits].
    change (blen [] >=? 2) with false. change (blen [] =? 0) with true. cbv iota. cbn [pbind bind pok].
    change TZ_SECS_PER_HOUR with 3600. change TZ_SECS_PER_MINUTE with 60. unfold mul_i32, add_i32, neg_i32.
    rewrite chk_in by (unfold in_i32, in_range, i32_min, i32_max; lia). cbn [bind].
    rewrite chk_in by (unfold in_i32, in_range, i32_min, i32_max; lia). cbn [bind].
    rewrite chk_in by (unfold in_i32, in_range, i32_min, i32_max; lia). cbn [bind].
    unfold off_value. replace ((48 - 48) * 10 + (48 - 48)) with 0 by lia.
    destruct neg; [|reflexivity].
    rewrite chk_in by (unfold in_i32, in_range, i32_min, i32_max; lia). reflexivity. }
  destruct Hsg as [-> | ->].
  - change (43 =? 43) with true. cbv iota. cbn [pbind bind pok]. rewrite Hgo. reflexivity.
  - change (45 =? 43) with false. change (45 =? 45) with true. cbv iota. cbn [pbind bind pok]. rewrite Hgo. reflexivity.
Qed.
