(** C04 — op z.opdays: [impl Add<Days> / Sub<Days> for DateTime<Tz>] are [expect] of the checked
    forms: the value of checked_add_days / checked_sub_days, a panic exactly where those are None;
    with C04_add_days / C04_sub_days: the wall-clock date moves by n days, the time of day (a leap
    fraction included) and the offset are kept. *)
From Coq Require Import ZArith List Bool Lia ZifyBool.
From V Require Import Base.Int Base.IO Spec.Gregorian.
From V Require Model.Date Model.Time.
From V Require Import Model.DateTime Model.C04 Proofs.C04 Proofs.C04Date Proofs.C04Wide.
Import ListNotations.
Open Scope Z_scope.

Lemma opdays_checked (add : bool) a n :
  let op := if add then dz_op_add_days a n else dz_op_sub_days a n in
  match (if add then dz_checked_add_days a n else dz_checked_sub_days a n) with
  | Val (Some z) => op = Val z
  | Val None => op = Panic
  | Panic => op = Panic
  | OutOfFuel => op = OutOfFuel
  end.
Proof.
  destruct add; cbv zeta; unfold dz_op_add_days, dz_op_sub_days, unwrap_r.
  - destruct (dz_checked_add_days a n) as [[z|]| |]; reflexivity.
  - destruct (dz_checked_sub_days a n) as [[z|]| |]; reflexivity.
Qed.

Theorem op_add_days_spec a n : dtz_ok a -> in_u64 n = true -> n <> 0 ->
  let n' := wall a / 86400 + n in
  let w' := n' * 86400 + wall a mod 86400 in
  if dn_in_range n' && keep (w' - dz_off a) (frac (dz_utc a))
  then exists z, dz_op_add_days a n = Val z /\ dtz_ok z /\ dz_off z = dz_off a /\
                 wall z = w' /\ frac (dz_utc z) = frac (dz_utc a)
  else dz_op_add_days a n = Panic.
Proof.
  intros Ha Hn H0. pose proof (add_days_all a n Ha Hn H0) as P. cbv zeta in P |- *.
  unfold dz_op_add_days.
  destruct (dn_in_range (wall a / 86400 + n) && keep ((wall a / 86400 + n) * 86400 + wall a mod 86400 - dz_off a) (frac (dz_utc a))).
  - destruct P as (z & E & R). exists z. rewrite E. split; [reflexivity|exact R].
  - rewrite P. reflexivity.
Qed.
Theorem op_add_days_zero a : dz_op_add_days a 0 = Val a.
Proof. unfold dz_op_add_days. rewrite add_days_zero. reflexivity. Qed.

Theorem op_sub_days_spec a n : dtz_ok a -> in_u64 n = true ->
  let n' := wall a / 86400 - n in
  let w' := n' * 86400 + wall a mod 86400 in
  if ((n =? 0) || dn_in_range n') && in_rng (w' - dz_off a)
  then exists z, dz_op_sub_days a n = Val z /\ dtz_ok z /\ dz_off z = dz_off a /\
                 wall z = w' /\ frac (dz_utc z) = frac (dz_utc a)
  else dz_op_sub_days a n = Panic.
Proof.
  intros Ha Hn. pose proof (sub_days_all a n Ha Hn) as P. cbv zeta in P |- *.
  unfold dz_op_sub_days.
  destruct (((n =? 0) || dn_in_range (wall a / 86400 - n)) && in_rng ((wall a / 86400 - n) * 86400 + wall a mod 86400 - dz_off a)).
  - destruct P as (z & E & R). exists z. rewrite E. split; [reflexivity|exact R].
  - rewrite P. reflexivity.
Qed.

(** a leap-second wall clock keeps its fraction; both outcomes occur *)
Lemma opdays_examples :
  let a := mk_dtz (mk_ndt (Date.D_MAX) (Time.mk_time 32399 1500000000)) 3600 in
  dz_op_sub_days a 1 = Val (mk_dtz (mk_ndt (Date.D_MAX - 16) (Time.mk_time 32399 1500000000)) 3600) /\
  dz_op_add_days a 1 = Panic /\ dz_op_add_days a 0 = Val a.
Proof. vm_compute. repeat split; reflexivity. Qed.
