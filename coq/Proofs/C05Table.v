(** C05, transition table: the linear scan of [find_local_time_type_from_local] (Model/TzLookup.v
    [local_loop]) against the zone semantics of Spec/Zone.v ([table_off]: the offset of the last
    transition at or before an instant).

    - [local_loop_scanL]: on a valid zone (type indices in range, transition times within +-2^62 so
      that the saturating additions are exact) the loop is the pure function [scanL];
    - [scanL_complete] (round trip): under the judge's spacing condition (windows disjoint and in
      order) the answer for the wall reading t + off(t) contains off(t), for EVERY instant t;
    - [scanL_sound]: under spacing + strictly increasing transitions, off the excepted boundary
      seconds, every candidate o of the answer is genuine: the zone is at offset o at l - o;
    - [table_classification]: skipped -> None, once -> Single, twice -> Ambiguous with both. *)
From Coq Require Import ZArith List Bool Lia ZifyBool.
From V Require Import Base.Int Base.IO Spec.Zone.
From V Require Import Model.TzParser Model.TzRule Model.TzLookup.

Import ListNotations.
Open Scope Z_scope.



(** * The loop as a pure function over resolved transitions (time, type after) *)
Fixpoint scanL (ps : list (Z * ltt)) (prev : ltt) (l : Z) : mlt ltt + ltt :=
  match ps with
  | [] => inr prev
  | (t, after) :: rest =>
      let e := t + ut_offset after in
      let s := t + ut_offset prev in
      match s ?= e with
      | Gt => if l <? e then inl (MSingle prev)
              else if (l >=? e) && (l <=? s) then inl (MAmbiguous prev after)
              else scanL rest after l
      | Eq => if l <? s then inl (MSingle prev)
              else if l =? e then inl (MSingle after)
              else scanL rest after l
      | Lt => if l <=? s then inl (MSingle prev)
              else if l <? e then inl MNone
              else if l =? e then inl (MSingle after)
              else scanL rest after l
      end
  end.

Definition resolved (types : list ltt) (trs : list transition) (ps : list (Z * ltt)) : Prop :=
  Forall2 (fun tr p => tr_time tr = fst p /\ index types (tr_idx tr) = Val (snd p)) trs ps.
Definition t_ok (t : Z) : Prop := -4611686018427387904 <= t <= 4611686018427387904.
Definition o_ok (l : ltt) : Prop := -2147483648 <= ut_offset l <= 2147483647.

Lemma sat_exact t o : t_ok t -> -2147483648 <= o <= 2147483647 -> saturating_add_i64 t o = t + o.
Proof.
  unfold t_ok, saturating_add_i64, clamp, i64_min, i64_max. intros Ht Ho.
  destruct (t + o <? -9223372036854775808) eqn:E1; [lia|].
  destruct (9223372036854775807 <? t + o) eqn:E2; [lia|]. reflexivity.
Qed.

Lemma local_loop_scanL : forall trs ps types prev l,
  resolved types trs ps -> Forall (fun p => t_ok (fst p) /\ o_ok (snd p)) ps -> o_ok prev ->
  local_loop types trs prev l = Val (scanL ps prev l).
Proof.
  intros trs ps types prev l H. revert prev. induction H as [|tr p trs ps Hhd HF IH]; intros prev Hok Hp.
  - reflexivity.
  - destruct p as [t after]. destruct Hhd as [Ht Hi]. cbn [fst snd] in *. inversion Hok as [|? ? [Hto Hao] Hok']; subst. cbn [fst snd] in *.
    cbn [local_loop scanL]. rewrite Hi. cbn [bind].
    rewrite (sat_exact (tr_time tr) (ut_offset after)) by (assumption || exact Hao).
    rewrite (sat_exact (tr_time tr) (ut_offset prev)) by (assumption || exact Hp).
    rewrite (IH after Hok' Hao).
    destruct (tr_time tr + ut_offset prev ?= tr_time tr + ut_offset after);
      repeat match goal with |- context [if ?c then _ else _] => destruct c end; reflexivity.
Qed.

(** * Zone data of the resolved list, in the vocabulary of Spec/Zone.v *)
Definition offs (ps : list (Z * ltt)) : list (Z * Z) := map (fun p => (fst p, ut_offset (snd p))) ps.
Definition contains (ans : mlt ltt) (o : Z) : Prop :=
  match ans with
  | MNone => False
  | MSingle a => ut_offset a = o
  | MAmbiguous a b => ut_offset a = o \/ ut_offset b = o
  end.

Lemma windows_le : forall tr cur w, In w (windows tr cur) -> fst w <= snd w.
Proof.
  induction tr as [|[t o] rest IH]; intros cur w H; cbn [windows] in H; [contradiction|].
  destruct H as [<-|H]; [cbn; lia|eauto].
Qed.
Lemma ordered_tail w ws : ordered (w :: ws) = true -> ordered ws = true.
Proof.
  destruct w as [lo hi]. destruct ws as [|[lo2 hi2] r]; [reflexivity|].
  cbn [ordered]. intros H. apply andb_prop in H. tauto.
Qed.
Lemma ordered_head_lt : forall ws lo hi,
  (forall w, In w ws -> fst w <= snd w) -> ordered ((lo, hi) :: ws) = true ->
  forall w, In w ws -> hi < fst w.
Proof.
  induction ws as [|[lo2 hi2] r IH]; intros lo hi Hle H w Hin; [contradiction|].
  cbn [ordered] in H. apply andb_prop in H. destruct H as [H1 H2].
  destruct Hin as [<-|Hin]; [cbn; lia|].
  assert (Hl2 : lo2 <= hi2) by (apply (Hle (lo2, hi2)); left; reflexivity).
  assert (hi2 < fst w).
  { apply (IH lo2 hi2); [intros; apply Hle; right; assumption|exact H2|exact Hin]. }
  lia.
Qed.

(* where the offset at t comes from: still the incoming one, or a later window lies at or below
   the wall reading *)
Lemma table_off_later : forall tr cur t,
  table_off tr cur t = cur \/ exists w, In w (windows tr cur) /\ fst w <= t + table_off tr cur t.
Proof.
  induction tr as [|[t1 o1] rest IH]; intros cur t; cbn [table_off windows]; [left; reflexivity|].
  destruct (t1 <=? t) eqn:E; [|left; reflexivity].
  right. destruct (IH o1 t) as [Heq|(w & Hin & Hw)].
  - exists (t1 + Z.min cur o1, t1 + Z.max cur o1). split; [left; reflexivity|]. cbn [fst]. rewrite Heq. lia.
  - exists w. split; [right; exact Hin|exact Hw].
Qed.

(** * Round trip: the answer at the wall reading of t contains the offset at t *)
Lemma scanL_complete : forall ps prev,
  ordered (windows (offs ps) (ut_offset prev)) = true ->
  forall t,
  match scanL ps prev (t + table_off (offs ps) (ut_offset prev) t) with
  | inl ans => contains ans (table_off (offs ps) (ut_offset prev) t)
  | inr last => ut_offset last = table_off (offs ps) (ut_offset prev) t
  end.
Proof.
  induction ps as [|[t1 after] rest IH]; intros prev Hord t.
  - cbn. reflexivity.
  - cbn [offs map fst snd] in *. fold (offs rest) in *. cbn [windows] in Hord.
    set (cur := ut_offset prev) in *. set (o1 := ut_offset after) in *.
    assert (Hord' : ordered (windows (offs rest) o1) = true) by (eapply ordered_tail; exact Hord).
    specialize (IH after Hord' t). fold o1 in IH.
    pose proof (ordered_head_lt _ _ _ (windows_le (offs rest) o1) Hord) as Hlt.
    cbn [table_off scanL]. fold cur o1.
    destruct (t1 <=? t) eqn:Et.
    + (* t at or after this transition *)
      set (o' := table_off (offs rest) o1 t) in *.
      destruct (table_off_later (offs rest) o1 t) as [Heq|(w & Hin & Hw)]; fold o' in Heq || fold o' in Hw.
      * destruct (Z.compare_spec (t1 + cur) (t1 + o1)) as [Hc|Hc|Hc].
        -- destruct (t + o' <? t1 + cur) eqn:E1; [lia|].
           destruct (t + o' =? t1 + o1) eqn:E2; [cbn; lia|exact IH].
        -- destruct (t + o' <=? t1 + cur) eqn:E1; [lia|].
           destruct (t + o' <? t1 + o1) eqn:E2; [lia|].
           destruct (t + o' =? t1 + o1) eqn:E3; [cbn; lia|exact IH].
        -- destruct (t + o' <? t1 + o1) eqn:E1; [lia|].
           destruct ((t + o' >=? t1 + o1) && (t + o' <=? t1 + cur)) eqn:E2; [cbn; lia|exact IH].
      * specialize (Hlt w Hin).
        destruct (Z.compare_spec (t1 + cur) (t1 + o1)) as [Hc|Hc|Hc].
        -- destruct (t + o' <? t1 + cur) eqn:E1; [lia|].
           destruct (t + o' =? t1 + o1) eqn:E2; [lia|exact IH].
        -- destruct (t + o' <=? t1 + cur) eqn:E1; [lia|].
           destruct (t + o' <? t1 + o1) eqn:E2; [lia|].
           destruct (t + o' =? t1 + o1) eqn:E3; [lia|exact IH].
        -- destruct (t + o' <? t1 + o1) eqn:E1; [lia|].
           destruct ((t + o' >=? t1 + o1) && (t + o' <=? t1 + cur)) eqn:E2; [lia|exact IH].
    + (* t before this transition: the incoming offset *)
      destruct (Z.compare_spec (t1 + cur) (t1 + o1)) as [Hc|Hc|Hc].
      * destruct (t + cur <? t1 + cur) eqn:E1; [reflexivity|lia].
      * destruct (t + cur <=? t1 + cur) eqn:E1; [reflexivity|lia].
      * destruct (t + cur <? t1 + o1) eqn:E1; [reflexivity|].
        destruct ((t + cur >=? t1 + o1) && (t + cur <=? t1 + cur)) eqn:E2; [cbn; left; reflexivity|lia].
Qed.

(** * Soundness of the candidates *)
Lemma table_off_before : forall tr cur t, table_off tr cur t <> cur ->
  exists t1 o1 rest, tr = (t1, o1) :: rest /\ t1 <= t.
Proof.
  intros [|[t1 o1] rest] cur t H; cbn [table_off] in H; [contradiction H; reflexivity|].
  destruct (t1 <=? t) eqn:E; [|contradiction H; reflexivity].
  exists t1, o1, rest. split; [reflexivity|lia].
Qed.
Lemma table_off_head : forall rest o t,
  (forall t2 o2 r, rest = (t2, o2) :: r -> t < t2) -> table_off rest o t = o.
Proof.
  intros [|[t2 o2] r] o t H; cbn [table_off]; [reflexivity|].
  specialize (H t2 o2 r eq_refl). destruct (t2 <=? t) eqn:E; [lia|reflexivity].
Qed.

Lemma scanL_sound : forall ps prev l,
  increasing (offs ps) = true ->
  ordered (windows (offs ps) (ut_offset prev)) = true ->
  excepted_table (offs ps) (ut_offset prev) l = false ->
  match scanL ps prev l with
  | inl ans => forall o, contains ans o -> table_off (offs ps) (ut_offset prev) (l - o) = o
  | inr last => table_off (offs ps) (ut_offset prev) (l - ut_offset last) = ut_offset last
  end.
Proof.
  induction ps as [|[t1 after] rest IH]; intros prev l Hinc Hord Hex.
  - cbn. reflexivity.
  - cbn [offs map fst snd] in *. fold (offs rest) in *. cbn [windows] in Hord. cbn [excepted_table] in Hex.
    set (cur := ut_offset prev) in *. set (o1 := ut_offset after) in *.
    assert (Hord' : ordered (windows (offs rest) o1) = true) by (eapply ordered_tail; exact Hord).
    assert (Hinc' : increasing (offs rest) = true).
    { destruct (offs rest) as [|[t2 o2] r]; [reflexivity|]. cbn [increasing] in Hinc.
      apply andb_prop in Hinc. tauto. }
    assert (Hnext : forall t2 o2 r, offs rest = (t2, o2) :: r -> t1 < t2 /\ t1 + Z.max cur o1 < t2 + Z.min o1 o2).
    { intros t2 o2 r E. rewrite E in Hinc, Hord. cbn [increasing] in Hinc. cbn [windows ordered] in Hord.
      apply andb_prop in Hinc. apply andb_prop in Hord. lia. }
    apply orb_false_elim in Hex. destruct Hex as [Hex Hex'].
    apply orb_false_elim in Hex. destruct Hex as [Hex1 Hex2].
    specialize (IH after l Hinc' Hord' Hex'). fold o1 in IH.
    (* lifting a result of the rest to the whole list *)
    assert (Hlift : forall x, t1 + Z.max cur o1 < l -> table_off (offs rest) o1 (l - x) = x ->
                    table_off ((t1, o1) :: offs rest) cur (l - x) = x).
    { intros x Hl Hx. cbn [table_off].
      destruct (Z.eq_dec x o1) as [->|Hne].
      - destruct (t1 <=? l - o1) eqn:E; [exact Hx|lia].
      - assert (Hn : table_off (offs rest) o1 (l - x) <> o1) by (rewrite Hx; exact Hne).
        destruct (table_off_before _ _ _ Hn) as (t2 & o2 & r & E & Hle).
        destruct (Hnext t2 o2 r E) as [Hlt _].
        destruct (t1 <=? l - x) eqn:E2; [exact Hx|lia]. }
    assert (Hstay : forall t, t1 <= t -> (forall t2 o2 r, offs rest = (t2, o2) :: r -> t < t2) ->
                    table_off ((t1, o1) :: offs rest) cur t = o1).
    { intros t Hle Hlt. cbn [table_off]. destruct (t1 <=? t) eqn:E; [|lia].
      apply table_off_head. exact Hlt. }
    cbn [scanL]. fold cur o1.
    destruct (Z.compare_spec (t1 + cur) (t1 + o1)) as [Hc|Hc|Hc].
    + (* equal offsets *)
      destruct (l <? t1 + cur) eqn:E1.
      * intros o Ho. cbn in Ho. fold cur in Ho. subst o. cbn [table_off].
        destruct (t1 <=? l - cur) eqn:E; [lia|reflexivity].
      * destruct (l =? t1 + o1) eqn:E2.
        -- intros o Ho. cbn in Ho. fold o1 in Ho. subst o. apply Hstay; [lia|].
           intros t2 o2 r E. destruct (Hnext t2 o2 r E). lia.
        -- destruct (scanL rest after l) as [ans|last].
           ++ intros o Ho. apply Hlift; [lia|]. apply IH. exact Ho.
           ++ apply Hlift; [lia|]. exact IH.
    + (* forward: gap *)
      destruct (l <=? t1 + cur) eqn:E1.
      * intros o Ho. cbn in Ho. fold cur in Ho. subst o. cbn [table_off].
        destruct (t1 <=? l - cur) eqn:E; [lia|reflexivity].
      * destruct (l <? t1 + o1) eqn:E2; [intros o Ho; cbn in Ho; contradiction|].
        destruct (l =? t1 + o1) eqn:E3; [lia|].
        destruct (scanL rest after l) as [ans|last].
        -- intros o Ho. apply Hlift; [lia|]. apply IH. exact Ho.
        -- apply Hlift; [lia|]. exact IH.
    + (* backward: fold *)
      destruct (l <? t1 + o1) eqn:E1.
      * intros o Ho. cbn in Ho. fold cur in Ho. subst o. cbn [table_off].
        destruct (t1 <=? l - cur) eqn:E; [lia|reflexivity].
      * destruct ((l >=? t1 + o1) && (l <=? t1 + cur)) eqn:E2.
        -- intros o Ho. cbn in Ho. fold cur o1 in Ho. destruct Ho as [Ho|Ho]; subst o.
           ++ cbn [table_off]. destruct (t1 <=? l - cur) eqn:E; [lia|reflexivity].
           ++ apply Hstay; [lia|]. intros t2 o2 r E. destruct (Hnext t2 o2 r E). lia.
        -- destruct (scanL rest after l) as [ans|last].
           ++ intros o Ho. apply Hlift; [lia|]. apply IH. exact Ho.
           ++ apply Hlift; [lia|]. exact IH.
Qed.

(** * Order and classification *)
Lemma scanL_order : forall ps prev l a b,
  scanL ps prev l = inl (MAmbiguous a b) -> ut_offset a > ut_offset b.
Proof.
  induction ps as [|[t1 after] rest IH]; intros prev l a b H; cbn [scanL] in H; [discriminate|].
  destruct (Z.compare_spec (t1 + ut_offset prev) (t1 + ut_offset after)) as [Hc|Hc|Hc];
    repeat match type of H with
    | (if ?c then _ else _) = _ => destruct c; try discriminate
    end; try (eapply IH; eassumption).
  injection H as -> ->. lia.
Qed.

(* what the caller sees when the zone has no footer rule *)
Definition table_answer (ps : list (Z * ltt)) (prev : ltt) (l : Z) : mlt ltt :=
  match scanL ps prev l with inl m => m | inr last => MSingle last end.
(* instant t reads l on the wall clock *)
Definition maps (tr : list (Z * Z)) (cur t l : Z) : Prop := t + table_off tr cur t = l.

Lemma table_roundtrip ps prev t :
  ordered (windows (offs ps) (ut_offset prev)) = true ->
  contains (table_answer ps prev (t + table_off (offs ps) (ut_offset prev) t))
           (table_off (offs ps) (ut_offset prev) t).
Proof.
  intros Hord. pose proof (scanL_complete ps prev Hord t) as H. unfold table_answer.
  destruct (scanL ps prev _); [exact H|cbn; exact H].
Qed.

Lemma table_sound ps prev l o :
  increasing (offs ps) = true -> ordered (windows (offs ps) (ut_offset prev)) = true ->
  excepted_table (offs ps) (ut_offset prev) l = false ->
  contains (table_answer ps prev l) o -> maps (offs ps) (ut_offset prev) (l - o) l.
Proof.
  intros Hinc Hord Hex Hc. pose proof (scanL_sound ps prev l Hinc Hord Hex) as H. unfold table_answer in Hc.
  unfold maps. destruct (scanL ps prev l) as [ans|last].
  - rewrite (H o Hc). lia.
  - cbn in Hc. subst o. rewrite H. lia.
Qed.

Theorem table_classification ps prev l :
  increasing (offs ps) = true -> ordered (windows (offs ps) (ut_offset prev)) = true ->
  excepted_table (offs ps) (ut_offset prev) l = false ->
  let M := maps (offs ps) (ut_offset prev) in
  match table_answer ps prev l with
  | MNone => forall t, ~ M t l
  | MSingle a => M (l - ut_offset a) l /\ forall t, M t l -> t = l - ut_offset a
  | MAmbiguous a b =>
      M (l - ut_offset a) l /\ M (l - ut_offset b) l /\ l - ut_offset a < l - ut_offset b /\
      forall t, M t l -> t = l - ut_offset a \/ t = l - ut_offset b
  end.
Proof.
  intros Hinc Hord Hex M.
  assert (Hcomp : forall t, M t l -> contains (table_answer ps prev l) (table_off (offs ps) (ut_offset prev) t)).
  { intros t Ht. unfold M, maps in Ht. rewrite <- Ht. apply table_roundtrip. exact Hord. }
  assert (Hsnd : forall o, contains (table_answer ps prev l) o -> M (l - o) l).
  { intros o Ho. apply table_sound; assumption. }
  destruct (table_answer ps prev l) as [|a|a b] eqn:E.
  - intros t Ht. exact (Hcomp t Ht).
  - split; [apply Hsnd; reflexivity|]. intros t Ht. pose proof (Hcomp t Ht) as Hc. cbn in Hc.
    unfold M, maps in Ht. lia.
  - split; [apply Hsnd; left; reflexivity|]. split; [apply Hsnd; right; reflexivity|]. split.
    + unfold table_answer in E. destruct (scanL ps prev l) as [m|] eqn:E2; [|discriminate]. subst m.
      pose proof (scanL_order _ _ _ _ _ E2). lia.
    + intros t Ht. pose proof (Hcomp t Ht) as Hc. cbn in Hc. unfold M, maps in Ht. lia.
Qed.

(* the three sentences of the property, from the classification *)
Corollary table_skipped ps prev l :
  increasing (offs ps) = true -> ordered (windows (offs ps) (ut_offset prev)) = true ->
  excepted_table (offs ps) (ut_offset prev) l = false ->
  (forall t, ~ maps (offs ps) (ut_offset prev) t l) -> table_answer ps prev l = MNone.
Proof.
  intros Hi Ho He Hno. pose proof (table_classification ps prev l Hi Ho He) as H. cbv zeta in H.
  destruct (table_answer ps prev l) as [|a|a b]; [reflexivity| |].
  - destruct H as [H _]. contradiction (Hno _ H).
  - destruct H as [H _]. contradiction (Hno _ H).
Qed.
Corollary table_once ps prev l t :
  increasing (offs ps) = true -> ordered (windows (offs ps) (ut_offset prev)) = true ->
  excepted_table (offs ps) (ut_offset prev) l = false ->
  maps (offs ps) (ut_offset prev) t l -> (forall t', maps (offs ps) (ut_offset prev) t' l -> t' = t) ->
  exists a, table_answer ps prev l = MSingle a /\ l - ut_offset a = t.
Proof.
  intros Hi Ho He Ht Huniq. pose proof (table_classification ps prev l Hi Ho He) as H. cbv zeta in H.
  destruct (table_answer ps prev l) as [|a|a b].
  - contradiction (H t Ht).
  - exists a. split; [reflexivity|]. destruct H as [_ H]. symmetry. apply H. exact Ht.
  - destruct H as (Ha & Hb & Hlt & _). pose proof (Huniq _ Ha). pose proof (Huniq _ Hb). lia.
Qed.
Corollary table_twice ps prev l t1 t2 :
  increasing (offs ps) = true -> ordered (windows (offs ps) (ut_offset prev)) = true ->
  excepted_table (offs ps) (ut_offset prev) l = false ->
  maps (offs ps) (ut_offset prev) t1 l -> maps (offs ps) (ut_offset prev) t2 l -> t1 < t2 ->
  exists a b, table_answer ps prev l = MAmbiguous a b /\ l - ut_offset a = t1 /\ l - ut_offset b = t2.
Proof.
  intros Hi Ho He H1 H2 Hlt. pose proof (table_classification ps prev l Hi Ho He) as H. cbv zeta in H.
  destruct (table_answer ps prev l) as [|a|a b].
  - contradiction (H t1 H1).
  - destruct H as [_ H]. pose proof (H _ H1). pose proof (H _ H2). lia.
  - exists a, b. split; [reflexivity|]. destruct H as (_ & _ & Hab & H).
    pose proof (H _ H1). pose proof (H _ H2). lia.
Qed.

(** * The model lookups on a valid zone *)
Record table_zone (z : timezone) (ps : list (Z * ltt)) (first : ltt) : Prop := {
  tz_first : index (local_time_types z) 0 = Val first;
  tz_res : resolved (local_time_types z) (transitions z) ps;
  tz_ok : Forall (fun p => t_ok (fst p) /\ o_ok (snd p)) ps;
  tz_first_ok : o_ok first }.

(* wall clock -> candidates: the scan, then the footer rule only when the scan falls through *)
Lemma from_local_scan z ps first y l : table_zone z ps first ->
  find_local_time_type_from_local z y l =
  match scanL ps first l with
  | inl m => Val (Ok m)
  | inr last =>
      match extra_rule z with
      | Some rule => oor_to EFindLocalTimeType (rule_find_local_time_type_from_local rule y l)
      | None => Val (Ok (MSingle last))
      end
  end.
Proof.
  intros [Hf Hr Hok Hfo]. unfold find_local_time_type_from_local.
  destruct (transitions z) as [|tr trs] eqn:Et.
  - inversion Hr; subst. rewrite Hf. cbn [bind scanL]. destruct (extra_rule z); reflexivity.
  - rewrite Hf. cbn [bind]. rewrite <- Et in *. rewrite (local_loop_scanL _ ps _ first l Hr Hok Hfo). cbn [bind].
    destruct (scanL ps first l); [reflexivity|]. destruct (extra_rule z); reflexivity.
Qed.
Lemma from_local_table z ps first y l : table_zone z ps first -> extra_rule z = None ->
  find_local_time_type_from_local z y l = Val (Ok (table_answer ps first l)).
Proof.
  intros Hz Hn. rewrite (from_local_scan z ps first y l Hz), Hn. unfold table_answer.
  destruct (scanL ps first l); reflexivity.
Qed.

(** instant -> offset: the binary search, by its contract *)
Fixpoint cnt_le (ts : list Z) (t : Z) : Z :=
  match ts with x :: r => if x <=? t then 1 + cnt_le r t else 0 | [] => 0 end.
Fixpoint incr (ts : list Z) : bool :=
  match ts with a :: ((b :: _) as r) => (a <? b) && incr r | _ => true end.

Lemma cnt_le_bounds ts t : 0 <= cnt_le ts t <= zlen ts.
Proof.
  induction ts as [|x r IH]; cbn [cnt_le]; [unfold zlen; cbn; lia|].
  unfold zlen in *. cbn [length]. destruct (x <=? t); lia.
Qed.
Lemma count_below_nonneg ts t : 0 <= count_below ts t.
Proof. induction ts as [|x r IH]; cbn [count_below]; [lia|]. destruct (x <? t); lia. Qed.
Lemma cnt_le_head_gt r t : (forall x r', r = x :: r' -> t < x) -> cnt_le r t = 0.
Proof. destruct r as [|x r']; intros H; cbn [cnt_le]; [reflexivity|]. specialize (H x r' eq_refl). destruct (x <=? t) eqn:E; [lia|reflexivity]. Qed.

Lemma search_next_spec : forall ts t, incr ts = true -> zlen ts < 4611686018427387904 ->
  search_next ts t = Val (cnt_le ts t).
Proof.
  induction ts as [|x r IH]; intros t Hinc Hlen.
  - reflexivity.
  - assert (Hinc' : incr r = true) by (destruct r; [reflexivity|cbn [incr] in Hinc; apply andb_prop in Hinc; tauto]).
    assert (Hlen' : zlen r < 4611686018427387904) by (unfold zlen in *; cbn [length] in Hlen; lia).
    specialize (IH t Hinc' Hlen'). pose proof (cnt_le_bounds r t) as Hb.
    unfold search_next, binary_search in *. cbn [count_below cnt_le].
    destruct (x <? t) eqn:E1.
    + destruct (x <=? t) eqn:E2; [|lia].
      pose proof (count_below_nonneg r t) as Hnn.
      replace (Z.to_nat (1 + count_below r t)) with (S (Z.to_nat (count_below r t))) by lia.
      cbn [nth_z_aux].
      destruct (nth_z_aux r (Z.to_nat (count_below r t))) as [v|].
      * destruct (v =? t).
        -- unfold add_usize, chk in *. destruct (in_usize (count_below r t + 1)) eqn:E3; [|discriminate].
           injection IH as IH. unfold in_usize, in_u64, in_range, u64_max in *. unfold zlen in *.
           destruct ((0 <=? 1 + count_below r t + 1) && (1 + count_below r t + 1 <=? 18446744073709551615)) eqn:E4; [f_equal; lia|lia].
        -- injection IH as IH. f_equal. lia.
      * injection IH as IH. f_equal. lia.
    + cbn [Z.to_nat nth_z_aux]. destruct (x =? t) eqn:E3.
      * destruct (x <=? t) eqn:E2; [|lia]. unfold add_usize, chk. cbn.
        rewrite cnt_le_head_gt; [reflexivity|]. intros y r' ->. cbn [incr] in Hinc. apply andb_prop in Hinc. lia.
      * destruct (x <=? t) eqn:E2; [lia|reflexivity].
Qed.

(* the offset of the table at t, by the number of transitions at or before t *)
Lemma table_off_cnt : forall ps cur t,
  table_off (offs ps) cur t =
  (if cnt_le (map fst ps) t =? 0 then cur
   else match nth_z_aux ps (Z.to_nat (cnt_le (map fst ps) t - 1)) with
        | Some p => ut_offset (snd p)
        | None => 0
        end).
Proof.
  induction ps as [|[t1 a] rest IH]; intros cur t; cbn [offs map table_off cnt_le fst snd]; [reflexivity|].
  fold (offs rest). pose proof (cnt_le_bounds (map fst rest) t) as Hb.
  destruct (t1 <=? t) eqn:E; [|reflexivity].
  destruct (1 + cnt_le (map fst rest) t =? 0) eqn:E0; [lia|].
  rewrite IH. replace (1 + cnt_le (map fst rest) t - 1) with (cnt_le (map fst rest) t) by lia.
  destruct (cnt_le (map fst rest) t =? 0) eqn:E1.
  - replace (cnt_le (map fst rest) t) with 0 by lia. reflexivity.
  - replace (Z.to_nat (cnt_le (map fst rest) t)) with (S (Z.to_nat (cnt_le (map fst rest) t - 1))) by lia.
    cbn [nth_z_aux]. destruct (nth_z_aux rest _); reflexivity.
Qed.

Lemma resolved_times types trs ps : resolved types trs ps -> map tr_time trs = map fst ps.
Proof. induction 1 as [|tr p trs ps [Ht _] _ IH]; cbn; [reflexivity|]. rewrite Ht, IH. reflexivity. Qed.
Lemma resolved_nth types trs ps : resolved types trs ps -> forall n p,
  nth_z_aux ps n = Some p ->
  exists tr, nth_z_aux trs n = Some tr /\ index types (tr_idx tr) = Val (snd p).
Proof.
  induction 1 as [|tr q trs ps [_ Hi] _ IH]; intros n p Hn; [destruct n; discriminate|].
  destruct n as [|n]; cbn [nth_z_aux] in *.
  - injection Hn as ->. exists tr. split; [reflexivity|exact Hi].
  - apply IH. exact Hn.
Qed.
Lemma resolved_len types trs ps : resolved types trs ps -> length trs = length ps.
Proof. induction 1; cbn; congruence. Qed.
Lemma nth_z_aux_some {A} (l : list A) n : (n < length l)%nat -> exists a, nth_z_aux l n = Some a.
Proof.
  revert n. induction l as [|a r IH]; intros n H; cbn in H; [lia|].
  destruct n; [exists a; reflexivity|]. cbn [nth_z_aux]. apply IH. lia.
Qed.
Lemma incr_offs ps : increasing (offs ps) = incr (map fst ps).
Proof.
  induction ps as [|[t1 a] [|[t2 b] r] IH]; [reflexivity|reflexivity|].
  cbn [offs map increasing incr fst snd] in *. rewrite IH. reflexivity.
Qed.
Lemma cnt_le_all : forall ts t, incr ts = true -> (forall lst, last_of ts = Some lst -> lst <= t) ->
  cnt_le ts t = zlen ts.
Proof.
  induction ts as [|x r IH]; intros t Hinc Hl; [reflexivity|].
  assert (Hinc' : incr r = true) by (destruct r; [reflexivity|cbn [incr] in Hinc; apply andb_prop in Hinc; tauto]).
  assert (Hl' : forall lst, last_of r = Some lst -> lst <= t).
  { intros lst H. apply Hl. unfold last_of in *. cbn [rev]. destruct (rev r) as [|y r'] eqn:E; [discriminate|].
    cbn. exact H. }
  cbn [cnt_le]. rewrite (IH t Hinc' Hl'). unfold zlen. cbn [length].
  assert (x <= t).
  { destruct r as [|y r'].
    - apply Hl. reflexivity.
    - assert (cnt_le (y :: r') t = zlen (y :: r')) by (apply IH; assumption).
      cbn [cnt_le] in H. destruct (y <=? t) eqn:E; [|unfold zlen in H; cbn [length] in H; lia].
      cbn [incr] in Hinc. apply andb_prop in Hinc. lia. }
  destruct (x <=? t) eqn:E; lia.
Qed.
Lemma last_of_map {A C} (f : A -> C) (l : list A) : last_of (map f l) = option_map f (last_of l).
Proof. unfold last_of. rewrite <- map_rev. destruct (rev l); reflexivity. Qed.
Lemma last_of_nth {A} (l : list A) x : last_of l = Some x -> nth_z_aux l (length l - 1) = Some x.
Proof.
  unfold last_of. intros H. destruct (rev l) as [|y r] eqn:E; [discriminate|]. injection H as ->.
  assert (l = rev r ++ [x]) by (rewrite <- (rev_involutive l), E; reflexivity). subst l.
  rewrite app_length. cbn [length]. replace (length (rev r) + 1 - 1)%nat with (length (rev r)) by lia.
  clear E. induction (rev r) as [|a q IH]; [reflexivity|exact IH].
Qed.

(* offset_at_spec, table part: for every instant the lookup answers the type whose offset is
   [table_off]; with a footer rule, for instants before the last transition *)
Theorem find_local_time_type_table z ps first t :
  table_zone z ps first -> leap_seconds z = [] -> increasing (offs ps) = true ->
  zlen (transitions z) < 4611686018427387904 ->
  (extra_rule z = None \/ exists lst, last_of (transitions z) = Some lst /\ t < tr_time lst) ->
  exists l, find_local_time_type z t = Val (Ok l) /\
            ut_offset l = table_off (offs ps) (ut_offset first) t.
Proof.
  intros [Hf Hr Hok Hfo] Hleap Hinc Hlen Hrule. unfold find_local_time_type.
  rewrite incr_offs in Hinc. pose proof (resolved_times _ _ _ Hr) as Htimes.
  destruct (last_of (transitions z)) as [lst|] eqn:El.
  - unfold unix_time_to_unix_leap_time. rewrite Hleap. cbn [leap_loop oor_to rbind].
    rewrite table_off_cnt. rewrite <- Htimes.
    assert (Hlst : last_of (map tr_time (transitions z)) = Some (tr_time lst)) by (rewrite last_of_map, El; reflexivity).
    destruct (t >=? tr_time lst) eqn:Ege.
    + destruct Hrule as [Hn|(l2 & E2 & Hlt)]; [|injection E2 as <-; lia]. rewrite Hn.
      rewrite (cnt_le_all (map tr_time (transitions z)) t); [|rewrite Htimes; exact Hinc|intros l0 H0; rewrite Hlst in H0; injection H0 as <-; lia].
      pose proof (last_of_nth _ _ El) as Hn1.
      assert (Hpos : 0 < zlen (map tr_time (transitions z))).
      { unfold zlen. rewrite map_length. destruct (transitions z); [discriminate|cbn; lia]. }
      destruct (zlen (map tr_time (transitions z)) =? 0) eqn:E0; [lia|].
      replace (Z.to_nat (zlen (map tr_time (transitions z)) - 1)) with (length ps - 1)%nat
        by (unfold zlen; rewrite map_length, (resolved_len _ _ _ Hr); lia).
      destruct (nth_z_aux_some ps (length ps - 1)) as [p Hp].
      { rewrite <- (resolved_len _ _ _ Hr). unfold zlen in Hpos. rewrite map_length in Hpos. lia. }
      rewrite Hp. destruct (resolved_nth _ _ _ Hr _ _ Hp) as (tr & Htr & Hi).
      rewrite (resolved_len _ _ _ Hr) in Hn1. rewrite Hn1 in Htr. injection Htr as <-.
      rewrite Hi. cbn [bind]. eexists. split; reflexivity.
    + rewrite search_next_spec; [|rewrite Htimes; exact Hinc|unfold zlen in *; rewrite map_length; exact Hlen].
      cbn [bind]. pose proof (cnt_le_bounds (map tr_time (transitions z)) t) as Hb.
      set (n := cnt_le (map tr_time (transitions z)) t) in *.
      destruct (n >? 0) eqn:En.
      * destruct (n =? 0) eqn:E0; [lia|].
        unfold sub_usize, chk. replace (in_usize (n - 1)) with true
          by (symmetry; unfold in_usize, in_u64, in_range, u64_max; unfold zlen in *; rewrite map_length in Hb; lia).
        cbn [bind].
        destruct (nth_z_aux_some ps (Z.to_nat (n - 1))) as [p Hp].
        { rewrite <- (resolved_len _ _ _ Hr). unfold zlen in Hb. rewrite map_length in Hb. lia. }
        rewrite Hp. destruct (resolved_nth _ _ _ Hr _ _ Hp) as (tr & Htr & Hi).
        unfold index. destruct (n - 1 <? 0) eqn:E1; [lia|]. rewrite Htr. cbn [unwrap bind].
        unfold index in Hi. rewrite Hi. cbn [bind]. eexists. split; reflexivity.
      * replace n with 0 by lia. cbn [Z.eqb]. cbn [bind]. rewrite Hf. cbn [bind]. eexists. split; reflexivity.
  - assert (transitions z = []) as Et.
    { unfold last_of in El. destruct (rev (transitions z)) eqn:E; [|discriminate].
      rewrite <- (rev_involutive (transitions z)), E. reflexivity. }
    rewrite Et in Hr. inversion Hr; subst. cbn [offs map table_off].
    destruct Hrule as [Hn|(l2 & E2 & _)]; [|discriminate]. rewrite Hn, Hf. cbn [bind]. eexists. split; reflexivity.
Qed.
