(** C13 — the documented rendering of a numeric field ([pad_num] of Spec/StrftimeDoc.v: the
    decimal digits of the value with none / zero / space padding to the documented width, which is
    what C12 proves the formatter prints) is accepted by the recogniser [reads_numeric] with the
    value it denotes: every padding modifier reads back. *)
From Coq Require Import ZArith List Bool Lia ZifyBool.
From V Require Import Base.Int Base.IntLemmas Base.IO Base.Utf8 Model.Scan Model.Items Gen.ParseTable
  Proofs.Utf8 Proofs.Scan Model.Parse Proofs.C13 Proofs.C13Reads Spec.StrftimeDoc.
Import ListNotations.
Open Scope Z_scope.

(** * decimal printing: [dec_nonneg n] is the digit string of [n] *)
Lemma digits_value_app x : forall y a, digits_value (x ++ y) a = digits_value y (digits_value x a).
Proof. induction x as [|c r IH]; intros y a; cbn [app digits_value]; [reflexivity|apply IH]. Qed.
Lemma forallb_app_digits x y : forallb is_ascii_digit (x ++ y) = forallb is_ascii_digit x && forallb is_ascii_digit y.
Proof. apply forallb_app. Qed.

Definition digit_string (D : bytes) (n : Z) : Prop :=
  forallb is_ascii_digit D = true /\ 1 <= blen D /\ (forall a, digits_value D a = a * 10 ^ blen D + n)
  /\ n < 10 ^ blen D /\ (blen D = 1 \/ 10 ^ (blen D - 1) <= n).

Lemma dec_fuel_spec : forall fuel n acc, (1 <= fuel)%nat -> 0 <= n < 2 ^ Z.of_nat fuel ->
  exists D, dec_fuel fuel n acc = D ++ acc /\ digit_string D n.
Proof.
  induction fuel as [|f IH]; intros n acc Hf Hn; [lia|].
  cbn [dec_fuel]. destruct (n <? 10) eqn:E.
  - exists [48 + n mod 10]. split; [reflexivity|]. rewrite Z.mod_small by lia.
    unfold digit_string. cbn [forallb digits_value]. rewrite blen_cons, blen_nil.
    change (1 + 0) with 1. change (10 ^ 1) with 10.
    split; [unfold is_ascii_digit; lia|]. split; [lia|]. split; [intros a; lia|]. split; [lia|left; reflexivity].
  - destruct f as [|f'].
    { change (2 ^ Z.of_nat 1) with 2 in Hn. lia. }
    assert (Hq : 0 <= n / 10 < 2 ^ Z.of_nat (S f')).
    { rewrite (Nat2Z.inj_succ (S f')) in Hn. rewrite Z.pow_succ_r in Hn by lia.
      split; [apply Z.div_pos; lia|]. apply Z.div_lt_upper_bound; lia. }
    destruct (IH (n / 10) ((48 + n mod 10) :: acc) ltac:(lia) Hq) as (D' & HD & Hd & Hl & Hv & Hub & Hlb).
    exists (D' ++ [48 + n mod 10]). split; [rewrite HD, <- app_assoc; reflexivity|].
    assert (Hm : 0 <= n mod 10 < 10) by (apply Z.mod_pos_bound; lia).
    assert (Hdiv : n = 10 * (n / 10) + n mod 10) by (apply Z.div_mod; lia).
    unfold digit_string. rewrite forallb_app_digits, Hd. cbn [forallb andb].
    rewrite blen_app, blen_cons, blen_nil.
    replace (blen D' + (1 + 0)) with (Z.succ (blen D')) by lia. rewrite Z.pow_succ_r by lia.
    repeat split.
    + unfold is_ascii_digit. lia.
    + lia.
    + intros a. rewrite digits_value_app, Hv. cbn [digits_value]. ring_simplify. lia.
    + lia.
    + right. replace (Z.succ (blen D') - 1) with (blen D') by lia.
      destruct Hlb as [H1 | Hlb].
      * rewrite H1. change (10 ^ 1) with 10. lia.
      * replace (blen D') with (Z.succ (blen D' - 1)) by lia. rewrite Z.pow_succ_r by lia. lia.
Qed.

Theorem dec_nonneg_digits n : 0 <= n -> digit_string (dec_nonneg n) n.
Proof.
  intros Hn. unfold dec_nonneg.
  assert (Hb : 0 <= n < 2 ^ Z.of_nat (S (Z.to_nat (Z.log2 n)))).
  { rewrite Nat2Z.inj_succ, Z2Nat.id by apply Z.log2_nonneg. split; [lia|].
    destruct (Z.eq_dec n 0) as [->|Hne]; [cbn; lia|]. apply Z.log2_spec. lia. }
  destruct (dec_fuel_spec (S (Z.to_nat (Z.log2 n))) n [] ltac:(lia) Hb) as (D & HD & Hs).
  rewrite HD, app_nil_r. exact Hs.
Qed.

(** * leading zeros and space padding *)
Lemma rep_succ c k : 0 <= k -> rep c (Z.succ k) = c :: rep c k.
Proof. intros H. unfold rep. rewrite Z2Nat.inj_succ by lia. reflexivity. Qed.
Lemma rep_nonpos c k : k <= 0 -> rep c k = [].
Proof. intros H. unfold rep. replace (Z.to_nat k) with 0%nat by lia. reflexivity. Qed.
Lemma blen_rep c k : 0 <= k -> blen (rep c k) = k.
Proof. intros H. unfold rep, blen. rewrite repeat_length. lia. Qed.

Lemma zeros_digits k : forallb is_ascii_digit (rep 48 k) = true.
Proof. unfold rep. induction (Z.to_nat k) as [|m IH]; [reflexivity|]. cbn [repeat forallb]. rewrite IH. reflexivity. Qed.
Lemma zeros_value' k D : digits_value (rep 48 k ++ D) 0 = digits_value D 0.
Proof. unfold rep. induction (Z.to_nat k) as [|m IH]; [reflexivity|]. cbn [repeat app digits_value]. exact IH. Qed.

Lemma split_ws_spaces k D : (match D with c :: _ => ws_byte c = false | [] => True end) ->
  split_ws (rep 32 k ++ D) = (rep 32 k, D).
Proof.
  intros HD. unfold rep. induction (Z.to_nat k) as [|m IH].
  - cbn [repeat app]. destruct D as [|c r]; [reflexivity|]. cbn [split_ws]. rewrite HD. reflexivity.
  - cbn [repeat app split_ws]. change (ws_byte 32) with true. cbv iota. rewrite IH. reflexivity.
Qed.
Lemma split_ws_nows D : (match D with c :: _ => ws_byte c = false | [] => True end) -> split_ws D = ([], D).
Proof. intros H. exact (split_ws_spaces 0 D H). Qed.

Lemma digit_not_ws c : is_ascii_digit c = true -> ws_byte c = false.
Proof. intros H. pose proof (digit_range c H). unfold ws_byte, is_whitespace. lia. Qed.

Lemma digit_string_head D n : digit_string D n ->
  match D with c :: _ => ws_byte c = false /\ (c =? 45) = false /\ (c =? 43) = false | [] => True end.
Proof.
  intros (Hd & _). destruct D as [|c r]; [exact I|]. cbn [forallb] in Hd. apply andb_prop in Hd.
  destruct Hd as [Hc _]. pose proof (digit_range c Hc). split; [apply digit_not_ws; exact Hc|lia].
Qed.

(** * The documented rendering of an unsigned field is read back, for every padding modifier.
    [w] is the documented formatting width, [width] the reader's parsing width of the item (table);
    the value fits the parsing width; when fewer than [width] digits are printed the rest must not
    start with a digit. *)
Theorem pad_num_unsigned_reads spec width (signed : bool) code p w v rest :
  numeric_entry spec = Some (width, signed, code) ->
  0 <= v -> 0 <= w <= width -> 1 <= width -> v < 10 ^ width -> v <= i64_max ->
  utf8_valid rest = true ->
  (not_digit_start rest = true \/
   (match p with DZero => Z.max w (blen (dec_nonneg v)) | _ => blen (dec_nonneg v) end) = width) ->
  reads_numeric spec (pad_num p w false v) rest = Some (W_code code v).
Proof.
  intros He Hv Hw Hw1 Hfit Hmax Hrest Hfollow.
  destruct (dec_nonneg_digits v Hv) as (Hd & Hl & Hval & Hub & Hlb).
  set (D := dec_nonneg v) in *.
  assert (HlenD : blen D <= width).
  { destruct (Z_le_gt_dec (blen D) width) as [H|H]; [exact H|exfalso].
    destruct Hlb as [H1 | Hlb]; [lia|].
    assert (10 ^ width <= 10 ^ (blen D - 1)) by (apply Z.pow_le_mono_r; lia). lia. }
  pose proof (digit_string_head D v (conj Hd (conj Hl (conj Hval (conj Hub Hlb))))) as Hhead.
  unfold pad_num. rewrite Z.abs_eq by lia. fold D. replace (v <? 0) with false by lia.
  change (digits v) with (dec_nonneg v). fold D. unfold dlen. fold (blen D). cbn [List.length]. change (Z.of_nat 0) with 0.
  unfold reads_numeric. rewrite He.
  assert (Hv0 : digits_value D 0 = v) by (rewrite Hval; lia).
  assert (Hnosign : forall body : bytes, body = D \/ (exists k, body = rep 48 k ++ D /\ 0 <= k /\ k + blen D <= width /\ (not_digit_start rest = true \/ k + blen D = width)) ->
            (not_digit_start rest = true \/ blen body = width) ->
            match body with
            | c :: ds =>
                if c =? 45 then (if signed then reads_sign code true ds rest else None)
                else if c =? 43 then (if signed then reads_sign code false ds rest else None)
                else reads_nosign width code body rest
            | [] => None
            end = Some (W_code code v)).
  { intros body Hb Hf.
    assert (Hbd : forallb is_ascii_digit body = true /\ 1 <= blen body <= width /\ digits_value body 0 = v).
    { destruct Hb as [-> | (k & -> & Hk & Hkw & _)].
      - repeat split; try assumption; lia.
      - rewrite forallb_app_digits, zeros_digits, Hd, blen_app, blen_rep, zeros_value' by lia. repeat split; lia. }
    destruct Hbd as (Hbd & Hbl & Hbv).
    destruct body as [|c ds]; [rewrite blen_nil in Hbl; lia|].
    assert (Hc : is_ascii_digit c = true) by (cbn [forallb] in Hbd; apply andb_prop in Hbd; exact (proj1 Hbd)).
    pose proof (digit_range c Hc). replace (c =? 45) with false by lia. replace (c =? 43) with false by lia.
    unfold reads_nosign, all_dig. rewrite Hbd, Hrest, Hbv.
    replace (1 <=? blen (c :: ds)) with true by lia. replace (blen (c :: ds) <=? width) with true by lia.
    replace (v <=? i64_max) with true by lia.
    replace ((blen (c :: ds) =? width) || not_digit_start rest) with true; [reflexivity|].
    destruct Hf as [-> | ->]; [symmetry; apply orb_true_r|rewrite Z.eqb_refl; reflexivity]. }
  destruct p.
  - (* no padding *)
    rewrite split_ws_nows by (destruct D; [exact I|exact (proj1 Hhead)]).
    apply (Hnosign D (or_introl eq_refl)). destruct Hfollow as [H|H]; [left; exact H|right; exact H].
  - (* zero padding *)
    replace (w - blen D - 0) with (w - blen D) by lia.
    destruct (Z_le_gt_dec (w - blen D) 0) as [Hk|Hk].
    + rewrite rep_nonpos by lia. cbn [app].
      rewrite split_ws_nows by (destruct D; [exact I|exact (proj1 Hhead)]).
      apply (Hnosign D (or_introl eq_refl)). destruct Hfollow as [H|H]; [left; exact H|right; lia].
    + assert (Hz : match rep 48 (w - blen D) ++ D with c :: _ => ws_byte c = false | [] => True end).
      { replace (w - blen D) with (Z.succ (w - blen D - 1)) by lia. rewrite rep_succ by lia. reflexivity. }
      rewrite split_ws_nows by exact Hz.
      apply (Hnosign (rep 48 (w - blen D) ++ D)).
      * right. exists (w - blen D). split; [reflexivity|]. split; [lia|]. split; [lia|].
        destruct Hfollow as [H|H]; [left; exact H|right; lia].
      * destruct Hfollow as [H|H]; [left; exact H|right; rewrite blen_app, blen_rep by lia; lia].
  - (* space padding *)
    replace (w - blen D - 0) with (w - blen D) by lia. cbn [app].
    rewrite split_ws_spaces by (destruct D; [exact I|exact (proj1 Hhead)]).
    apply (Hnosign D (or_introl eq_refl)). destruct Hfollow as [H|H]; [left; exact H|right; exact H].
Qed.

(** * The documented rendering of a year with its mandatory sign (outside 0..9999: "+12345",
    "-0001", also with space padding in front of the sign) is read back as the signed value *)
Theorem pad_num_signed_reads spec width code p w v rest :
  numeric_entry spec = Some (width, true, code) ->
  0 <= w <= 1000 -> Z.abs v <= i64_max ->
  not_digit_start rest = true -> utf8_valid rest = true ->
  reads_numeric spec (pad_num p w true v) rest = Some (W_code code v).
Proof.
  intros He Hw Hmax Hfollow Hrest.
  destruct (dec_nonneg_digits (Z.abs v) (Z.abs_nonneg v)) as (Hd & Hl & Hval & Hub & Hlb).
  set (D := dec_nonneg (Z.abs v)) in *.
  assert (Hv0 : digits_value D 0 = Z.abs v) by (rewrite Hval; lia).
  assert (HlenD : blen D <= 19).
  { destruct (Z_le_gt_dec (blen D) 19) as [H|H]; [exact H|exfalso].
    destruct Hlb as [H1 | Hlb]; [lia|].
    assert (10 ^ 19 <= 10 ^ (blen D - 1)) by (apply Z.pow_le_mono_r; lia).
    change (10 ^ 19) with 10000000000000000000 in *. unfold i64_max in Hmax. lia. }
  unfold pad_num. change (digits (Z.abs v)) with (dec_nonneg (Z.abs v)). fold D. unfold dlen. fold (blen D).
  unfold reads_numeric. rewrite He.
  set (sg := if v <? 0 then 45 else 43).
  assert (Hsign : (if v <? 0 then [45] else if true then [43] else []) = [sg]) by (unfold sg; destruct (v <? 0); reflexivity).
  rewrite Hsign.
  assert (Hgo : forall body : bytes,
            forallb is_ascii_digit body = true -> 1 <= blen body <= 1100 -> digits_value body 0 = Z.abs v ->
            (if sg =? 45 then reads_sign code true body rest
             else if sg =? 43 then reads_sign code false body rest
             else reads_nosign width code (sg :: body) rest) = Some (W_code code v)).
  { intros body Hb Hbl Hbv. unfold reads_sign, all_dig. rewrite Hb, Hfollow, Hrest, Hbv.
    replace (1 <=? blen body) with true by lia. replace (blen body <=? u64_max) with true by (unfold u64_max; lia).
    replace (Z.abs v <=? i64_max) with true by lia. cbn [andb].
    unfold sg. destruct (v <? 0) eqn:E.
    - change (45 =? 45) with true. cbv iota. f_equal. f_equal. lia.
    - change (43 =? 45) with false. change (43 =? 43) with true. cbv iota. f_equal. f_equal. lia. }
  assert (Hsgws : ws_byte sg = false) by (unfold sg; destruct (v <? 0); reflexivity).
  destruct p.
  - rewrite split_ws_nows by (cbn [app]; exact Hsgws). cbn [app]. apply Hgo; try assumption; lia.
  - destruct (Z_le_gt_dec (w - blen D) 0) as [Hk|Hk].
    + rewrite rep_nonpos by lia. cbn [app]. rewrite split_ws_nows by exact Hsgws. apply Hgo; try assumption; lia.
    + rewrite split_ws_nows by (cbn [app]; exact Hsgws). cbn [app].
      apply Hgo.
      * rewrite forallb_app_digits, zeros_digits, Hd. reflexivity.
      * rewrite blen_app, blen_rep by lia. lia.
      * rewrite zeros_value'. exact Hv0.
  - rewrite split_ws_spaces by (cbn [app]; exact Hsgws). cbn [app]. apply Hgo; try assumption; lia.
Qed.
