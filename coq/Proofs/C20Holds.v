(** C20 -- the executable statement of the property (Judge/C20.v, the oracle applied to the
    implementation's outputs) accepts the model's output on EVERY case of the reading operations
    sd.tsread (all sixteen modules, every i64 / u64, every route) and sd.tdread (every pair).
    Together with the correspondence run this closes the loop implementation ~ model |= judge there. *)
From Coq Require Import ZArith List Bool Lia ZifyBool String.
From V Require Import Base.Int Base.IO Base.IntLemmas Spec.Gregorian Model.TimeDelta Model.DateTime Model.Serde Model.C20.
From V Require Model.Date Model.Time Model.C19 Judge.C20 Proofs.C06.
From V Require Import Proofs.C02 Proofs.C02Holds Proofs.C02Date Proofs.C20Delta Proofs.C20Ts.
Import ListNotations.
Open Scope Z_scope.
Ltac Zify.zify_post_hook ::= Z.to_euclidean_division_equations.

(** ** sd.tdread *)
Lemma judge_tdread fmt s n out : Judge.C20.is_badargs out = false ->
  Judge.C20.judge B"sd.tdread" [VInt fmt; VInt s; VInt n] out =
  if (fmt =? 0) || (fmt =? 1) then Judge.C20.j_tdread s n out else JSkip.
Proof. intros H. unfold Judge.C20.judge. rewrite H. reflexivity. Qed.

Theorem holds_tdread fmt s n : fmt = 0 \/ fmt = 1 -> in_i64 s = true -> in_i32 n = true ->
  Judge.C20.judge B"sd.tdread" [VInt fmt; VInt s; VInt n] (run B"sd.tdread" [VInt fmt; VInt s; VInt n]) = JOk.
Proof.
  intros Hf Hs Hn.
  assert (Hrun : run B"sd.tdread" [VInt fmt; VInt s; VInt n] = tdread fmt s n) by reflexivity.
  rewrite Hrun. unfold tdread.
  replace (fmt_ok fmt) with true by (unfold fmt_ok; lia). rewrite Hs, Hn. cbn [andb].
  rewrite (delta_read_spec fmt s n Hs Hn).
  unfold C06.RMIN, C06.RMAX.
  destruct ((0 <=? n) && (n <? 1000000000) && (-9223372036854775807000000 <=? s * 1000000000 + n) &&
            (s * 1000000000 + n <=? 9223372036854775807000000)) eqn:E.
  - cbn [val_of_SR val_of_R enc_td secs nanos].
    rewrite judge_tdread by reflexivity. replace ((fmt =? 0) || (fmt =? 1)) with true by lia.
    unfold Judge.C20.j_tdread. rewrite Hs, Hn. cbn [andb].
    unfold Judge.C20.G, Judge.C20.TD_LIMIT. cbn [Z.opp]. rewrite E.
    unfold judge_eq, enc_td. cbn [secs nanos val_eqb]. rewrite !Z.eqb_refl. reflexivity.
  - cbn [val_of_SR val_of_R val_of_serr serr_name].
    rewrite judge_tdread by reflexivity. replace ((fmt =? 0) || (fmt =? 1)) with true by lia.
    unfold Judge.C20.j_tdread. rewrite Hs, Hn. cbn [andb].
    unfold Judge.C20.G, Judge.C20.TD_LIMIT. cbn [Z.opp]. rewrite E. reflexivity.
Qed.

(** ** sd.tsread *)
(* the judge's decoding of an encoded valid date-time *)
Lemma judge_dec_enc a : valid_ndt a ->
  Judge.C20.dec_ndt (enc_ndt a) = Some (date_dn (nd_date a), dsecs a, dfrac a).
Proof.
  intros [Hd [Hs Hf]]. destruct (fields_hold _ Hd) as [Hy [Ho _]].
  unfold enc_ndt, Judge.C20.dec_ndt, Judge.C20.valid_date, Judge.C20.valid_time. fold (dsecs a). fold (dfrac a).
  rewrite Hy, Ho. unfold Judge.C20.G, G in *. cbn [andb].
  replace ((0 <=? dsecs a) && (dsecs a <? 86400) && (0 <=? dfrac a) && (dfrac a <? 2 * 1000000000)) with true by lia.
  reflexivity.
Qed.
Lemma enc_ndt_not_bad a : Judge.C20.is_badargs (enc_ndt a) = false. Proof. reflexivity. Qed.

Lemma unit_of_eq m : Judge.C20.unit_of m = unit_ns m.
Proof. reflexivity. Qed.

Lemma judge_tsread m fmt kind n out : Judge.C20.is_badargs out = false ->
  Judge.C20.judge B"sd.tsread" [VInt m; VInt fmt; VInt kind; VInt n] out =
  if Judge.C20.mod_ok m && (0 <=? fmt) && (fmt <=? 2) then Judge.C20.j_tsread m kind n out else JSkip.
Proof. intros H. unfold Judge.C20.judge. rewrite H. reflexivity. Qed.

(* what the judge demands of a reading, met by any result satisfying [read_spec] *)
Lemma j_tsread_ok m kind n (r : sres ndt) (wrap : val -> val) :
  ((kind =? 0) && in_i64 n) || ((kind =? 1) && in_u64 n) = true ->
  read_spec (n * unit_ns m) n r ->
  (Judge.C20.is_opt m = true -> wrap = VSome) -> (Judge.C20.is_opt m = false -> wrap = (fun x => x)) ->
  Judge.C20.j_tsread m kind n (match r with SOk a => wrap (enc_ndt a) | SErr e => val_of_serr e end) = JOk.
Proof.
  intros Hk Hs Hw1 Hw0. unfold Judge.C20.j_tsread. rewrite Hk, unit_of_eq.
  destruct r as [a|e]; cbn [read_spec] in Hs.
  - destruct Hs as (Hv & Hl & Hi & Hr).
    replace (Judge.C20.ns_in_range (n * unit_ns m)) with true by (unfold Judge.C20.ns_in_range; lia).
    assert (Hd : match (if Judge.C20.is_opt m then match wrap (enc_ndt a) with VSome r0 => Some r0 | _ => None end
                        else Some (wrap (enc_ndt a))) with
                 | Some r0 => Judge.C20.dec_ndt r0
                 | None => None end = Some (date_dn (nd_date a), dsecs a, dfrac a)).
    { destruct (Judge.C20.is_opt m) eqn:E.
      - rewrite (Hw1 eq_refl). apply judge_dec_enc. exact Hv.
      - rewrite (Hw0 eq_refl). apply judge_dec_enc. exact Hv. }
    destruct (if Judge.C20.is_opt m then match wrap (enc_ndt a) with VSome r0 => Some r0 | _ => None end
              else Some (wrap (enc_ndt a))) as [r0|]; [|discriminate].
    rewrite Hd. unfold instant in Hi. rewrite Hi, Z.eqb_refl.
    unfold nonleap, G in Hl. unfold Judge.C20.G. replace (dfrac a <? 1000000000) with true by lia. reflexivity.
  - destruct Hs as [-> Hr].
    replace (Judge.C20.ns_in_range (n * unit_ns m)) with false by (unfold Judge.C20.ns_in_range; lia).
    reflexivity.
Qed.

Lemma mod_cases m : 0 <= m <= 15 -> In m plain_mods \/ In m option_mods.
Proof.
  intros H. unfold plain_mods, option_mods. cbn [In].
  assert (Hc : m = 0 \/ m = 1 \/ m = 2 \/ m = 3 \/ m = 4 \/ m = 5 \/ m = 6 \/ m = 7 \/ m = 8 \/ m = 9 \/ m = 10 \/
               m = 11 \/ m = 12 \/ m = 13 \/ m = 14 \/ m = 15) by lia.
  intuition (subst; tauto).
Qed.
Lemma plain_not_option m : In m plain_mods -> is_option_mod m = false /\ Judge.C20.is_opt m = false.
Proof. unfold plain_mods. cbn [In]. intros [<-|[<-|[<-|[<-|[<-|[<-|[<-|[<-|[]]]]]]]]]; split; reflexivity. Qed.
Lemma option_is_option m : In m option_mods -> is_option_mod m = true /\ Judge.C20.is_opt m = true.
Proof. unfold option_mods. cbn [In]. intros [<-|[<-|[<-|[<-|[<-|[<-|[<-|[<-|[]]]]]]]]]; split; reflexivity. Qed.

Theorem holds_tsread m fmt kind n : 0 <= m <= 15 -> tsread_ok fmt kind n = true ->
  Judge.C20.judge B"sd.tsread" [VInt m; VInt fmt; VInt kind; VInt n]
    (run B"sd.tsread" [VInt m; VInt fmt; VInt kind; VInt n]) = JOk.
Proof.
  intros Hm Hok.
  assert (Hrun : run B"sd.tsread" [VInt m; VInt fmt; VInt kind; VInt n] = if mod_ok m then tsread m fmt kind n else VBad) by reflexivity.
  rewrite Hrun. replace (mod_ok m) with true by (unfold mod_ok; lia).
  unfold tsread. rewrite Hok. cbn [negb].
  assert (Hfk : (0 <= fmt <= 2) /\ ((kind = 0 /\ in_i64 n = true) \/ (kind = 1 /\ in_u64 n = true))).
  { unfold tsread_ok in Hok.
    destruct (fmt =? 0) eqn:E0; [split; [lia|]; destruct (kind =? 1) eqn:K1; destruct (kind =? 0) eqn:K0; cbn [andb orb] in Hok;
                                  try discriminate; [right|right|left]; (split; [lia|]); try (apply andb_prop in Hok; destruct Hok as [Hok _]); try exact Hok; lia|].
    destruct (fmt =? 1) eqn:E1; [split; [lia|]; left; apply andb_prop in Hok; destruct Hok as [K Hi]; split; [lia|exact Hi]|].
    destruct (fmt =? 2) eqn:E2; [|discriminate]. split; [lia|].
    apply orb_prop in Hok. destruct Hok as [Hok|Hok]; apply andb_prop in Hok; destruct Hok as [K Hi]; [left|right]; split; try lia; exact Hi. }
  destruct Hfk as [Hfmt Hkind].
  assert (Hk : ((kind =? 0) && in_i64 n) || ((kind =? 1) && in_u64 n) = true).
  { destruct Hkind as [[-> Hi]|[-> Hi]]; rewrite Hi; reflexivity. }
  set (v := if kind =? 0 then SI64 n else SU64 n).
  destruct (mod_cases m Hm) as [Hp|Hopt].
  - destruct (plain_not_option m Hp) as [E1 E2]. rewrite E1.
    assert (Hr : exists r, ts_deserialize m v = Val r /\ read_spec (n * unit_ns m) n r).
    { destruct (ts_deserialize_spec m n Hp) as [H64 Hu64]. subst v.
      destruct Hkind as [[-> Hi]|[-> Hi]]; cbn [Z.eqb Pos.eqb]; auto. }
    destruct Hr as (r & Hr & Hs). rewrite Hr.
    pose proof (j_tsread_ok m kind n r (fun x => x) Hk Hs) as J.
    rewrite E2 in J. specialize (J ltac:(discriminate) ltac:(reflexivity)).
    assert (Hout : val_of_SR enc_ndt (Val r) = match r with SOk a => enc_ndt a | SErr e => val_of_serr e end)
      by (destruct r; reflexivity).
    assert (Hnb : Judge.C20.is_badargs (match r with SOk a => enc_ndt a | SErr e => val_of_serr e end) = false).
    { destruct r as [a|e]; [reflexivity|]. cbn [read_spec] in Hs. destruct Hs as [-> _]. reflexivity. }
    rewrite Hout. rewrite judge_tsread by exact Hnb.
    replace (Judge.C20.mod_ok m && (0 <=? fmt) && (fmt <=? 2)) with true by (unfold Judge.C20.mod_ok; lia).
    exact J.
  - destruct (option_is_option m Hopt) as [E1 E2]. rewrite E1.
    assert (Hr : exists r, ts_deserialize_option m (SSome v) = Val (lift_some r) /\ read_spec (n * unit_ns m) n r).
    { destruct (ts_deserialize_option_spec m n Hopt) as (_ & _ & H64 & Hu64). subst v.
      destruct Hkind as [[-> Hi]|[-> Hi]]; cbn [Z.eqb Pos.eqb]; auto. }
    destruct Hr as (r & Hr & Hs). rewrite Hr.
    pose proof (j_tsread_ok m kind n r VSome Hk Hs) as J.
    rewrite E2 in J. specialize (J ltac:(reflexivity) ltac:(discriminate)).
    assert (Hout : val_of_SR enc_ondt (Val (lift_some r)) = match r with SOk a => VSome (enc_ndt a) | SErr e => val_of_serr e end)
      by (destruct r; reflexivity).
    assert (Hnb : Judge.C20.is_badargs (match r with SOk a => VSome (enc_ndt a) | SErr e => val_of_serr e end) = false).
    { destruct r as [a|e]; [reflexivity|]. cbn [read_spec] in Hs. destruct Hs as [-> _]. reflexivity. }
    rewrite Hout. rewrite judge_tsread by exact Hnb.
    replace (Judge.C20.mod_ok m && (0 <=? fmt) && (fmt <=? 2)) with true by (unfold Judge.C20.mod_ok; lia).
    exact J.
Qed.
