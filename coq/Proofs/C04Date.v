(** C04 — discharge of [date_facts] (the calendar-core facts the C04 theorems were proved from) with
    the shared calendar library Proofs/Date.v (C01/C08): a nominal date word is a [repr y o d]. *)
From Coq Require Import ZArith List Bool Lia ZifyBool.
From V Require Import Base.Int Base.IntLemmas Base.IO Spec.Gregorian.
From V Require Model.Date Model.Time.
From V Require Import Model.DateTime Model.C04.
From V Require Proofs.Date.
From V Require Import Proofs.C04.
Open Scope Z_scope.
Ltac Zify.zify_post_hook ::= Z.to_euclidean_division_equations.
Set Default Timeout 60.

Module PD := V.Proofs.Date.

Lemma repr_of_nominal d : nominal d -> exists y o, C08Sweeps.repr y o d.
Proof.
  intros [y [o [Hy [Ho H]]]]. rewrite (C08Date.from_yo_opt_spec y o Hy Ho) in H.
  unfold C08Date.date_if in H. destruct (year_in_range y && valid_yo y o) eqn:E; [|discriminate].
  inversion H. subst d. apply andb_prop in E. destruct E as [E1 E2].
  exists y, o. split; [exact E1|split; [exact E2|reflexivity]].
Qed.
Lemma nominal_of_repr y o d : C08Sweeps.repr y o d -> nominal d.
Proof.
  intros (Hy & Ho & Hd). exists y, o.
  assert (Hy' : in_i32 y = true).
  { unfold year_in_range, MIN_YEAR, MAX_YEAR in Hy. unfold in_i32, in_range, i32_min, i32_max. lia. }
  assert (Ho' : in_u32 o = true).
  { unfold valid_yo, days_in_year in Ho. unfold in_u32, in_range, u32_max. destruct (is_leap y); lia. }
  split; [exact Hy'|split; [exact Ho'|]].
  rewrite (C08Date.from_yo_opt_spec y o Hy' Ho'), Hy, Ho, Hd. reflexivity.
Qed.
Lemma dn_of_repr y o d : C08Sweeps.repr y o d -> dn d = dn_of_yo y o.
Proof.
  intros H. pose proof (C08Date.repr_acc y o d H) as A.
  destruct (md_of_ordinal (is_leap y) o). destruct A as (E1 & E2 & _). unfold dn. rewrite E1, E2. reflexivity.
Qed.

Theorem date_facts_hold : date_facts.
Proof.
  unfold date_facts. split; [|split; [|split; [|split]]].
  - (* range *)
    intros d H. destruct (repr_of_nominal d H) as [y [o Hr]]. rewrite (dn_of_repr _ _ _ Hr).
    pose proof (PD.repr_dn_in_range y o d Hr) as R. unfold dn_in_range in R. lia.
  - (* order *)
    intros d1 d2 H H0.
    destruct (repr_of_nominal d1 H) as [y1 [o1 R1]]. destruct (repr_of_nominal d2 H0) as [y2 [o2 R2]].
    rewrite (dn_of_repr _ _ _ R1), (dn_of_repr _ _ _ R2).
    pose proof (PD.order_spec _ _ _ _ _ _ R1 R2) as O. unfold Date.d_cmp in O.
    destruct (cmpZ_spec d1 d2) as [[C1 C2]|[[C1 C2]|[C1 C2]]];
    destruct (cmpZ_spec (dn_of_yo y1 o1) (dn_of_yo y2 o2)) as [[C3 C4]|[[C3 C4]|[C3 C4]]]; lia.
  - (* succ *)
    intros d H. destruct (repr_of_nominal d H) as [y [o Hr]]. rewrite (dn_of_repr _ _ _ Hr).
    pose proof (PD.repr_dn_in_range y o d Hr) as R. unfold dn_in_range in R.
    rewrite (PD.succ_opt_spec y o d Hr). unfold C08Date.date_if, dn_in_range.
    set (n := dn_of_yo y o) in *.
    destruct (n <? DN_MAX) eqn:E.
    + replace ((DN_MIN <=? n + 1) && (n + 1 <=? DN_MAX)) with true by lia.
      assert (Hin : dn_in_range (n + 1) = true) by (unfold dn_in_range; lia).
      pose proof (PD.date_of_dn_repr (n + 1) Hin) as Hr'.
      exists (C08AddDays.date_of_dn (n + 1)). split; [reflexivity|]. split; [exact (nominal_of_repr _ _ _ Hr')|].
      rewrite (dn_of_repr _ _ _ Hr'). apply (proj2 (C08Days.yo_of_dn_valid (n + 1))).
    + replace ((DN_MIN <=? n + 1) && (n + 1 <=? DN_MAX)) with false by lia. reflexivity.
  - (* pred *)
    intros d H. destruct (repr_of_nominal d H) as [y [o Hr]]. rewrite (dn_of_repr _ _ _ Hr).
    pose proof (PD.repr_dn_in_range y o d Hr) as R. unfold dn_in_range in R.
    rewrite (PD.pred_opt_spec y o d Hr). unfold C08Date.date_if, dn_in_range.
    set (n := dn_of_yo y o) in *.
    destruct (DN_MIN <? n) eqn:E.
    + replace ((DN_MIN <=? n - 1) && (n - 1 <=? DN_MAX)) with true by lia.
      assert (Hin : dn_in_range (n - 1) = true) by (unfold dn_in_range; lia).
      pose proof (PD.date_of_dn_repr (n - 1) Hin) as Hr'.
      exists (C08AddDays.date_of_dn (n - 1)). split; [reflexivity|]. split; [exact (nominal_of_repr _ _ _ Hr')|].
      rewrite (dn_of_repr _ _ _ Hr'). apply (proj2 (C08Days.yo_of_dn_valid (n - 1))).
    + replace ((DN_MIN <=? n - 1) && (n - 1 <=? DN_MAX)) with false by lia. reflexivity.
  - (* accessors *)
    intros d H. destruct (repr_of_nominal d H) as [y [o Hr]]. unfold fields_ok.
    rewrite (dn_of_repr _ _ _ Hr). unfold ymd_of_dn, ordinal_of_dn.
    rewrite (C08Days.yo_of_dn_of_yo y o (proj1 (proj2 Hr))). cbn [snd].
    pose proof (C08Date.repr_acc y o d Hr) as A.
    destruct (md_of_ordinal (is_leap y) o) as [m dd].
    destruct A as (A1 & A2 & _ & _ & _ & _ & A3 & A4 & A5 & _). auto.
Qed.
