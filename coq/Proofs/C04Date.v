(** C04 — discharge of [date_facts] (the calendar-core facts the C04 theorems were proved from) with
    the shared calendar library Proofs/Date.v (C01/C08): a nominal date word is a [repr y o d]. *)
From Coq Require Import ZArith List Bool Lia ZifyBool.
From V Require Import Base.Int Base.IntLemmas Base.IO Spec.Gregorian.
From V Require Model.Date Model.Time.
From V Require Import Model.DateTime Model.C04.
From V Require Proofs.Date Proofs.C08 Proofs.DateIso.
From V Require Import Proofs.C04.
Open Scope Z_scope.
Ltac Zify.zify_post_hook ::= Z.to_euclidean_division_equations.

Module PD := V.Proofs.Date.

Lemma repr_of_nominal d : nominal d -> exists y o, C08Sweeps.repr y o d.
Proof.
  intros [y [o [Hy [Ho H]]]]. rewrite (C08Date.from_yo_opt_spec y o Hy Ho) in H.
  unfold C08Date.date_if in H. destruct (year_in_range y && valid_yo y o) eqn:E; [|discriminate].
  inversion H. subst d. apply andb_prop in E. destruct E as [E1 E2].
  exists y, o. split; [exact E1|split; [exact E2|reflexivity]].
Qed.
Lemma nominal_of_repr y o d : C08Sweeps.repr y o d -> nominal d.
Proof.
  intros (Hy & Ho & Hd). exists y, o.
  assert (Hy' : in_i32 y = true).
  { unfold year_in_range, MIN_YEAR, MAX_YEAR in Hy. unfold in_i32, in_range, i32_min, i32_max. lia. }
  assert (Ho' : in_u32 o = true).
  { unfold valid_yo, days_in_year in Ho. unfold in_u32, in_range, u32_max. destruct (is_leap y); lia. }
  split; [exact Hy'|split; [exact Ho'|]].
  rewrite (C08Date.from_yo_opt_spec y o Hy' Ho'), Hy, Ho, Hd. reflexivity.
Qed.
Lemma dn_of_repr y o d : C08Sweeps.repr y o d -> dn d = dn_of_yo y o.
Proof.
  intros H. pose proof (C08Date.repr_acc y o d H) as A.
  destruct (md_of_ordinal (is_leap y) o). destruct A as (E1 & E2 & _). unfold dn. rewrite E1, E2. reflexivity.
Qed.

Theorem date_facts_hold : date_facts.
Proof.
  unfold date_facts. split; [|split; [|split; [|split]]].
  - (* range *)
    intros d H. destruct (repr_of_nominal d H) as [y [o Hr]]. rewrite (dn_of_repr _ _ _ Hr).
    pose proof (PD.repr_dn_in_range y o d Hr) as R. unfold dn_in_range in R. lia.
  - (* order *)
    intros d1 d2 H H0.
    destruct (repr_of_nominal d1 H) as [y1 [o1 R1]]. destruct (repr_of_nominal d2 H0) as [y2 [o2 R2]].
    rewrite (dn_of_repr _ _ _ R1), (dn_of_repr _ _ _ R2).
    pose proof (PD.order_spec _ _ _ _ _ _ R1 R2) as O. unfold Date.d_cmp in O.
    destruct (cmpZ_spec d1 d2) as [[C1 C2]|[[C1 C2]|[C1 C2]]];
    destruct (cmpZ_spec (dn_of_yo y1 o1) (dn_of_yo y2 o2)) as [[C3 C4]|[[C3 C4]|[C3 C4]]]; lia.
  - (* succ *)
    intros d H. destruct (repr_of_nominal d H) as [y [o Hr]]. rewrite (dn_of_repr _ _ _ Hr).
    pose proof (PD.repr_dn_in_range y o d Hr) as R. unfold dn_in_range in R.
    rewrite (PD.succ_opt_spec y o d Hr). unfold C08Date.date_if, dn_in_range.
    set (n := dn_of_yo y o) in *.
    destruct (n <? DN_MAX) eqn:E.
    + replace ((DN_MIN <=? n + 1) && (n + 1 <=? DN_MAX)) with true by lia.
      assert (Hin : dn_in_range (n + 1) = true) by (unfold dn_in_range; lia).
      pose proof (PD.date_of_dn_repr (n + 1) Hin) as Hr'.
      exists (C08AddDays.date_of_dn (n + 1)). split; [reflexivity|]. split; [exact (nominal_of_repr _ _ _ Hr')|].
      rewrite (dn_of_repr _ _ _ Hr'). apply (proj2 (C08Days.yo_of_dn_valid (n + 1))).
    + replace ((DN_MIN <=? n + 1) && (n + 1 <=? DN_MAX)) with false by lia. reflexivity.
  - (* pred *)
    intros d H. destruct (repr_of_nominal d H) as [y [o Hr]]. rewrite (dn_of_repr _ _ _ Hr).
    pose proof (PD.repr_dn_in_range y o d Hr) as R. unfold dn_in_range in R.
    rewrite (PD.pred_opt_spec y o d Hr). unfold C08Date.date_if, dn_in_range.
    set (n := dn_of_yo y o) in *.
    destruct (DN_MIN <? n) eqn:E.
    + replace ((DN_MIN <=? n - 1) && (n - 1 <=? DN_MAX)) with true by lia.
      assert (Hin : dn_in_range (n - 1) = true) by (unfold dn_in_range; lia).
      pose proof (PD.date_of_dn_repr (n - 1) Hin) as Hr'.
      exists (C08AddDays.date_of_dn (n - 1)). split; [reflexivity|]. split; [exact (nominal_of_repr _ _ _ Hr')|].
      rewrite (dn_of_repr _ _ _ Hr'). apply (proj2 (C08Days.yo_of_dn_valid (n - 1))).
    + replace ((DN_MIN <=? n - 1) && (n - 1 <=? DN_MAX)) with false by lia. reflexivity.
  - (* accessors *)
    intros d H. destruct (repr_of_nominal d H) as [y [o Hr]]. unfold fields_ok.
    rewrite (dn_of_repr _ _ _ Hr). unfold ymd_of_dn, ordinal_of_dn.
    rewrite (C08Days.yo_of_dn_of_yo y o (proj1 (proj2 Hr))). cbn [snd].
    pose proof (C08Date.repr_acc y o d Hr) as A.
    destruct (md_of_ordinal (is_leap y) o) as [m dd].
    destruct A as (A1 & A2 & _ & _ & _ & _ & A3 & A4 & A5 & _). auto.
Qed.

(** the ISO-week accessor of a nominal date reads the ISO week date of its day number
    (Proofs/DateIso.v [d_iso_week_spec]) *)
Lemma iso_ok_nominal d : nominal d -> iso_ok d.
Proof.
  intros H. destruct (repr_of_nominal d H) as [y [o Hr]].
  destruct (DateIso.d_iso_week_spec y o d Hr) as (E & Ey & Ew). cbv zeta in E, Ey, Ew.
  unfold iso_ok. rewrite (dn_of_repr _ _ _ Hr). eexists. split; [exact E|]. rewrite Ey, Ew.
  destruct (iso_of_dn (dn_of_yo y o)); reflexivity.
Qed.

(** * Unconditional forms: every theorem of Proofs/C04.v applied to [date_facts_hold] *)
Definition HD := date_facts_hold.

(** * Field replacement / stepping on the date part, composed with the calendar library (C08) *)
Lemma wall_date_repr a l : dtz_ok a -> overflowing_naive_local a = Val l -> in_rng (wall a) = true ->
  let n := wall a / 86400 in
  C08Sweeps.repr (fst (yo_of_dn n)) (snd (yo_of_dn n)) (nd_date l) /\ dn_of_yo (fst (yo_of_dn n)) (snd (yo_of_dn n)) = n /\
  time_ok (nd_time l) /\ Time.tsecs (nd_time l) = wall a mod 86400 /\ frac l = frac (dz_utc a) /\ dn (nd_date l) = n.
Proof.
  intros Ha Hl Hin n.
  destruct (overflowing_naive_local_spec HD a Ha) as [l2 [Hl2 [[Hd Ht] [Hu Hf]]]].
  rewrite Hl in Hl2. inversion Hl2. subst l2. clear Hl2.
  assert (Hn : dn (nd_date l) = n /\ Time.tsecs (nd_time l) = wall a mod 86400).
  { unfold usecs in Hu. destruct Ht as [Hs _]. unfold n. lia. }
  destruct Hn as [Hn Hsod].
  assert (Hnr : DN_MIN <= n <= DN_MAX).
  { unfold in_rng, TMIN, TMAX in Hin. unfold n, DN_MIN, DN_MAX. lia. }
  assert (Hnom : nominal (nd_date l)) by (apply dateok_nominal; [exact Hd|lia]).
  destruct (repr_of_nominal _ Hnom) as [y [o Hr]].
  pose proof (dn_of_repr _ _ _ Hr) as Hdn. rewrite Hn in Hdn.
  assert (Hyo : yo_of_dn n = (y, o)) by (rewrite Hdn; apply C08Days.yo_of_dn_of_yo; apply Hr).
  rewrite Hyo. cbn [fst snd]. repeat split; try apply Hr; try apply Ht; try assumption; try (symmetry; assumption).
Qed.

(** new day number after replacing date field [field] (0 year, 1 month, 2 month0, 3 day, 4 day0,
    5 ordinal, 6 ordinal0) of the wall-clock date with day number [n] *)
Definition new_dn (field n x : Z) : option Z :=
  let '(y, m, d) := ymd_of_dn n in
  let ymd (y m d : Z) (extra : bool) := if extra && valid_ymd y m d then Some (dn_of_ymd y m d) else None in
  if field =? 0 then ymd x m d (year_in_range x)
  else if field =? 1 then ymd y x d true
  else if field =? 2 then ymd y (x + 1) d true
  else if field =? 3 then ymd y m x true
  else if field =? 4 then ymd y m (x + 1) true
  else if field =? 5 then if valid_yo y x then Some (dn_of_yo y x) else None
  else if valid_yo y (x + 1) then Some (dn_of_yo y (x + 1)) else None.

Lemma date_level_setter field d y o x : C08Sweeps.repr y o d -> 0 <= field <= 6 ->
  (if field =? 0 then in_i32 x else in_u32 x) = true ->
  exists r, (if field =? 0 then Date.with_year d x else if field =? 1 then Date.with_month d x
             else if field =? 2 then Date.with_month0 d x else if field =? 3 then Date.with_day d x
             else if field =? 4 then Date.with_day0 d x else if field =? 5 then Date.with_ordinal d x
             else Date.with_ordinal0 d x) = Val r /\
  match new_dn field (dn_of_yo y o) x with
  | Some n' => exists d', r = Some d' /\ nominal d' /\ dn d' = n'
  | None => r = None
  end.
Proof.
  intros Hr Hf Hx. unfold new_dn, ymd_of_dn.
  rewrite (C08Days.yo_of_dn_of_yo y o (proj1 (proj2 Hr))).
  destruct (md_of_ordinal (is_leap y) o) as [m0 d0] eqn:Emd.
  assert (Hres : forall y' m' dd', year_in_range y' = true -> valid_ymd y' m' dd' = true ->
            nominal (C08Date.mk_ymd y' m' dd') /\ dn (C08Date.mk_ymd y' m' dd') = dn_of_ymd y' m' dd').
  { intros y' m' dd' Hy' Hv. pose proof (Proofs.C08.mk_ymd_repr y' m' dd' Hy' Hv) as R.
    split; [exact (nominal_of_repr _ _ _ R)|]. rewrite (dn_of_repr _ _ _ R). reflexivity. }
  assert (Hres2 : forall o', valid_yo y o' = true ->
            nominal (C08Sweeps.mkdate y o') /\ dn (C08Sweeps.mkdate y o') = dn_of_yo y o').
  { intros o' Hv. pose proof (C08Date.repr_mk y o' (proj1 Hr) Hv) as R.
    split; [exact (nominal_of_repr _ _ _ R)|]. exact (dn_of_repr _ _ _ R). }
  destruct (field =? 0) eqn:E0.
  { eexists. split; [apply (C08Date.with_year_spec y o d Hr x Hx)|]. rewrite Emd. cbn [fst snd].
    unfold C08Date.date_if. destruct (year_in_range x && valid_ymd x m0 d0) eqn:E; [|reflexivity].
    apply andb_prop in E. destruct E as [E1 E2]. eexists. split; [reflexivity|]. apply Hres; assumption. }
  destruct (field =? 1) eqn:E1.
  { eexists. split; [apply (C08Date.with_month_spec y o d Hr x Hx)|]. rewrite Emd. cbn [fst snd andb].
    unfold C08Date.date_if. destruct (valid_ymd y x d0) eqn:E; [|reflexivity].
    eexists. split; [reflexivity|]. apply Hres; [apply Hr|assumption]. }
  destruct (field =? 2) eqn:E2.
  { eexists. split; [apply (C08Date.with_month0_spec y o d Hr x Hx)|]. rewrite Emd. cbn [fst snd andb].
    unfold C08Date.date_if. destruct (valid_ymd y (x + 1) d0) eqn:E; [|reflexivity].
    eexists. split; [reflexivity|]. apply Hres; [apply Hr|assumption]. }
  destruct (field =? 3) eqn:E3.
  { eexists. split; [apply (C08Date.with_day_spec y o d Hr x Hx)|]. rewrite Emd. cbn [fst snd andb].
    unfold C08Date.date_if. destruct (valid_ymd y m0 x) eqn:E; [|reflexivity].
    eexists. split; [reflexivity|]. apply Hres; [apply Hr|assumption]. }
  destruct (field =? 4) eqn:E4.
  { eexists. split; [apply (C08Date.with_day0_spec y o d Hr x Hx)|]. rewrite Emd. cbn [fst snd andb].
    unfold C08Date.date_if. destruct (valid_ymd y m0 (x + 1)) eqn:E; [|reflexivity].
    eexists. split; [reflexivity|]. apply Hres; [apply Hr|assumption]. }
  destruct (field =? 5) eqn:E5.
  { eexists. split; [apply (C08Date.with_ordinal_spec y o d Hr x Hx)|].
    unfold C08Date.date_if. destruct (valid_yo y x) eqn:E; [|reflexivity].
    eexists. split; [reflexivity|]. apply Hres2; assumption. }
  eexists. split; [apply (C08Date.with_ordinal0_spec y o d Hr x Hx)|].
  unfold C08Date.date_if. destruct (valid_yo y (x + 1)) eqn:E; [|reflexivity].
  eexists. split; [reflexivity|]. apply Hres2; assumption.
Qed.

Lemma ndt_with_date field l x : 0 <= field <= 6 ->
  ndt_with field l x =
  ndt_map_date l (if field =? 0 then Date.with_year (nd_date l) x else if field =? 1 then Date.with_month (nd_date l) x
             else if field =? 2 then Date.with_month0 (nd_date l) x else if field =? 3 then Date.with_day (nd_date l) x
             else if field =? 4 then Date.with_day0 (nd_date l) x else if field =? 5 then Date.with_ordinal (nd_date l) x
             else Date.with_ordinal0 (nd_date l) x).
Proof.
  intros Hf. unfold ndt_with.
  destruct (field =? 0) eqn:E0; [reflexivity|]. destruct (field =? 1) eqn:E1; [reflexivity|].
  destruct (field =? 2) eqn:E2; [reflexivity|]. destruct (field =? 3) eqn:E3; [reflexivity|].
  destruct (field =? 4) eqn:E4; [reflexivity|]. destruct (field =? 5) eqn:E5; [reflexivity|].
  replace (field =? 6) with true by lia. reflexivity.
Qed.

Definition date_setter (field d x : Z) : R (option Z) :=
  if field =? 0 then Date.with_year d x else if field =? 1 then Date.with_month d x
  else if field =? 2 then Date.with_month0 d x else if field =? 3 then Date.with_day d x
  else if field =? 4 then Date.with_day0 d x else if field =? 5 then Date.with_ordinal d x
  else Date.with_ordinal0 d x.
Definition setter_closure (field x : Z) : ndt -> R (option ndt) :=
  if field =? 0
  then (fun l0 => if Date.d_year (nd_date l0) =? x then Val (Some l0) else ndt_with 0 l0 x)
  else (fun l0 => ndt_with field l0 x).
Lemma dz_with_closure field a x : dz_with field a x = map_local a (setter_closure field x).
Proof. unfold dz_with, setter_closure. destruct (field =? 0); reflexivity. Qed.

Lemma with_year_same_date y o d x : C08Sweeps.repr y o d -> in_i32 x = true -> Date.d_year d = x ->
  Date.with_year d x = Val (Some d).
Proof.
  intros Hr Hx Hy.
  pose proof (C08Date.with_year_spec y o d Hr x Hx) as W.
  pose proof (C08Date.repr_acc y o d Hr) as A.
  destruct (md_of_ordinal (is_leap y) o) as [m0 d0] eqn:Emd. cbn [fst snd] in W.
  destruct A as (A1 & _ & _ & _ & _ & _ & _ & _ & _ & Hv & Hord).
  assert (Hyx : x = y) by lia. rewrite Hyx in *. clear Hyx.
  rewrite C08Date.valid_md_ymd in Hv. rewrite (proj1 Hr), Hv in W. cbn [andb] in W. unfold C08Date.date_if in W.
  rewrite W. unfold C08Date.mk_ymd. rewrite Hord. rewrite <- (proj2 (proj2 Hr)). reflexivity.
Qed.

Lemma closure_result field l x y o r : C08Sweeps.repr y o (nd_date l) -> 0 <= field <= 6 ->
  (if field =? 0 then in_i32 x else in_u32 x) = true ->
  date_setter field (nd_date l) x = Val r ->
  setter_closure field x l = ndt_map_date l (Val r).
Proof.
  intros Hr Hf Hx Hset. unfold setter_closure. unfold date_setter in Hset.
  destruct (field =? 0) eqn:E0.
  - destruct (Date.d_year (nd_date l) =? x) eqn:Ey.
    + rewrite (with_year_same_date y o (nd_date l) x Hr Hx ltac:(lia)) in Hset. inversion Hset.
      unfold ndt_map_date, obind. cbv [bind]. rewrite ndt_eta. reflexivity.
    + rewrite (ndt_with_date 0 l x ltac:(lia)). change (0 =? 0) with true. cbv iota. rewrite Hset. reflexivity.
  - rewrite (ndt_with_date field l x Hf), E0, Hset. reflexivity.
Qed.

(** replacing a date field of a date-time whose wall clock is a nominal date-time: None exactly
    when no such date exists (or, for the year, the requested year is outside the supported years),
    or the re-resolved instant leaves the range *)
Theorem with_datefield_spec field a x : dtz_ok a -> in_rng (wall a) = true -> 0 <= field <= 6 ->
  (if field =? 0 then in_i32 x else in_u32 x) = true ->
  match new_dn field (wall a / 86400) x with
  | None => dz_with field a x = Val None
  | Some n' =>
      let w' := n' * 86400 + wall a mod 86400 in
      if keep (w' - dz_off a) (frac (dz_utc a))
      then exists z, dz_with field a x = Val (Some z) /\ dtz_ok z /\ dz_off z = dz_off a /\
                     wall z = w' /\ frac (dz_utc z) = frac (dz_utc a)
      else dz_with field a x = Val None
  end.
Proof.
  intros Ha Hin Hf Hx. destruct (overflowing_naive_local_spec HD a Ha) as [l [Hl _]].
  destruct (wall_date_repr a l Ha Hl Hin) as (Hr & Hdn & Ht & Hsod & Hfr & Hdnl).
  destruct (date_level_setter field (nd_date l) _ _ x Hr Hf Hx) as [r [Hset Hres]].
  rewrite Hdn in Hres. fold (date_setter field (nd_date l) x) in Hset.
  pose proof (closure_result field l x _ _ r Hr Hf Hx Hset) as Hfl.
  rewrite dz_with_closure.
  destruct (new_dn field (wall a / 86400) x) as [n'|].
  - destruct Hres as [d' [-> [Hnom' Hdn']]]. cbv zeta.
    assert (Hw : ndt_wide (mk_ndt d' (nd_time l))) by (split; [left; exact Hnom'|exact Ht]).
    pose proof (map_local_some HD a (setter_closure field x) l (mk_ndt d' (nd_time l)) Ha Hl Hfl Hw) as H.
    assert (Hus : usecs (mk_ndt d' (nd_time l)) = n' * 86400 + wall a mod 86400).
    { unfold usecs. cbn [nd_date nd_time]. rewrite Hdn', Hsod. reflexivity. }
    assert (Hfr' : frac (mk_ndt d' (nd_time l)) = frac (dz_utc a)) by exact Hfr.
    rewrite Hus, Hfr' in H.
    destruct (keep (n' * 86400 + wall a mod 86400 - dz_off a) (frac (dz_utc a))).
    + destruct H as [z [H1 [H2 [H3 [H4 H5]]]]]. exists z. repeat split; try assumption; try apply H2.
      unfold wall in *. rewrite H4, H3. lia.
    + exact H.
  - subst r. apply (map_local_none a (setter_closure field x) l Hl). exact Hfl.
Qed.

(** ** day stepping on a nominal wall clock: the wall-clock date moves by [n] days, the time of
       day is kept; None exactly when the new date or the re-resolved instant leaves the range *)
Theorem add_days_spec a n : dtz_ok a -> in_rng (wall a) = true -> in_u64 n = true -> n <> 0 ->
  let n' := wall a / 86400 + n in
  let w' := n' * 86400 + wall a mod 86400 in
  if dn_in_range n' && keep (w' - dz_off a) (frac (dz_utc a))
  then exists z, dz_checked_add_days a n = Val (Some z) /\ dtz_ok z /\ dz_off z = dz_off a /\
                 wall z = w' /\ frac (dz_utc z) = frac (dz_utc a)
  else dz_checked_add_days a n = Val None.
Proof.
  intros Ha Hin Hn Hn0 n' w'. destruct (overflowing_naive_local_spec HD a Ha) as [l [Hl _]].
  destruct (wall_date_repr a l Ha Hl Hin) as (Hr & Hdn & Ht & Hsod & Hfr & Hdnl).
  pose proof (PD.repr_dn_in_range _ _ _ Hr) as Hrng. rewrite Hdn in Hrng. unfold dn_in_range in Hrng.
  unfold in_u64, in_range, u64_max in Hn.
  assert (Hnone : Date.checked_add_days (nd_date l) n = Val None -> dz_checked_add_days a n = Val None).
  { intros E. unfold dz_checked_add_days. replace (n =? 0) with false by lia. rewrite Hl. cbv [bind].
    unfold ndt_checked_add_days, ndt_map_date, obind. rewrite E. reflexivity. }
  destruct (n <=? i32_max) eqn:E1.
  - assert (Hk : in_i32 n = true) by (unfold i32_max in E1; solve_in).
    pose proof (C08AddDays.add_days_spec _ _ _ n Hr Hk) as Hadd. rewrite Hdn in Hadd. fold n' in Hadd.
    assert (Hcad : Date.checked_add_days (nd_date l) n = Val (C08Date.date_if (dn_in_range n') (C08AddDays.date_of_dn n'))).
    { unfold Date.checked_add_days. rewrite E1, as_i32_id by exact Hk. exact Hadd. }
    destruct (dn_in_range n') eqn:E2; cbn [andb].
    + pose proof (PD.date_of_dn_repr n' E2) as Hr'.
      pose proof (add_days_glue HD a n l (C08AddDays.date_of_dn n') Ha Hn0 Hl Hcad
                    (or_introl (nominal_of_repr _ _ _ Hr'))) as G.
      rewrite (dn_of_repr _ _ _ Hr'), (proj2 (C08Days.yo_of_dn_valid n')), Hdnl in G.
      exact (G ltac:(unfold n'; lia)).
    + apply Hnone. exact Hcad.
  - replace (dn_in_range n') with false by (unfold dn_in_range, n', DN_MIN, DN_MAX, i32_max in *; lia).
    apply Hnone. unfold Date.checked_add_days. rewrite E1. reflexivity.
Qed.

Theorem sub_days_spec a n : dtz_ok a -> in_rng (wall a) = true -> in_u64 n = true ->
  let n' := wall a / 86400 - n in
  let w' := n' * 86400 + wall a mod 86400 in
  if dn_in_range n' && in_rng (w' - dz_off a)
  then exists z, dz_checked_sub_days a n = Val (Some z) /\ dtz_ok z /\ dz_off z = dz_off a /\
                 wall z = w' /\ frac (dz_utc z) = frac (dz_utc a)
  else dz_checked_sub_days a n = Val None.
Proof.
  intros Ha Hin Hn n' w'. destruct (overflowing_naive_local_spec HD a Ha) as [l [Hl _]].
  destruct (wall_date_repr a l Ha Hl Hin) as (Hr & Hdn & Ht & Hsod & Hfr & Hdnl).
  pose proof (PD.repr_dn_in_range _ _ _ Hr) as Hrng. rewrite Hdn in Hrng. unfold dn_in_range in Hrng.
  unfold in_u64, in_range, u64_max in Hn.
  assert (Hnone : Date.checked_sub_days (nd_date l) n = Val None -> dz_checked_sub_days a n = Val None).
  { intros E. unfold dz_checked_sub_days. rewrite Hl. cbv [bind].
    unfold ndt_checked_sub_days, ndt_map_date, obind. rewrite E. reflexivity. }
  destruct (n <=? i32_max) eqn:E1.
  - assert (Hk : in_i32 (- n) = true) by (unfold i32_max in E1; solve_in).
    pose proof (C08AddDays.add_days_spec _ _ _ (- n) Hr Hk) as Hadd. rewrite Hdn in Hadd.
    replace (wall a / 86400 + - n) with n' in Hadd by (unfold n'; lia).
    assert (Hcsd : Date.checked_sub_days (nd_date l) n = Val (C08Date.date_if (dn_in_range n') (C08AddDays.date_of_dn n'))).
    { unfold Date.checked_sub_days. rewrite E1, as_i32_id by (unfold i32_max in E1; solve_in).
      unfold neg_i32, chk. rewrite Hk. cbv [bind]. exact Hadd. }
    destruct (dn_in_range n') eqn:E2; cbn [andb].
    + pose proof (PD.date_of_dn_repr n' E2) as Hr'.
      pose proof (sub_days_glue HD a n l (C08AddDays.date_of_dn n') Ha Hl Hcsd
                    (or_introl (nominal_of_repr _ _ _ Hr'))) as G.
      rewrite (dn_of_repr _ _ _ Hr'), (proj2 (C08Days.yo_of_dn_valid n')), Hdnl in G.
      exact (G ltac:(unfold n'; lia)).
    + apply Hnone. exact Hcsd.
  - replace (dn_in_range n') with false by (unfold dn_in_range, n', DN_MIN, DN_MAX, i32_max in *; lia).
    apply Hnone. unfold Date.checked_sub_days. rewrite E1. reflexivity.
Qed.

(** ** month stepping on a nominal wall clock: calendar month arithmetic on the wall-clock date with
       the day clamped to the length of the target month, time of day kept *)
Definition month_target (n k : Z) : option Z :=
  let '(y, m, d) := ymd_of_dn n in
  let t := 12 * y + (m - 1) + k in
  let y' := t / 12 in let m' := t mod 12 + 1 in
  let d' := Z.min d (days_in_month (is_leap y') m') in
  if year_in_range y' then Some (dn_of_ymd y' m' d') else None.

Lemma shift_months_target y o k : year_in_range y = true -> valid_yo y o = true ->
  match month_target (dn_of_yo y o) k with
  | Some n' => exists d', C08Date.shift_months y o k = Some d' /\ nominal d' /\ dn d' = n'
  | None => C08Date.shift_months y o k = None
  end.
Proof.
  intros Hy Ho. unfold month_target, ymd_of_dn. rewrite (C08Days.yo_of_dn_of_yo y o Ho).
  destruct (md_of_ordinal (is_leap y) o) as [m0 d0] eqn:Emd.
  destruct (C08Date.shift_months y o k) as [d'|] eqn:S.
  - pose proof (Proofs.C08.shift_months_fields y o k d' Ho S) as F. cbv zeta in F.
    unfold Proofs.C08.month_of, Proofs.C08.day_of in F. rewrite Emd in F. cbn [fst snd] in F.
    destruct F as (F1 & F2 & _). rewrite F1. exists d'. split; [reflexivity|].
    split; [exact (nominal_of_repr _ _ _ F2)|]. rewrite (dn_of_repr _ _ _ F2). reflexivity.
  - unfold C08Date.shift_months in S. rewrite Emd in S. cbn [fst snd] in S. unfold C08Date.date_if in S.
    destruct (year_in_range ((12 * y + (m0 - 1) + k) / 12)); [discriminate S|reflexivity].
Qed.

Theorem months_spec (add : bool) a m : dtz_ok a -> in_rng (wall a) = true -> in_u32 m = true ->
  let step := if add then dz_checked_add_months a m else dz_checked_sub_months a m in
  match month_target (wall a / 86400) (if add then m else - m) with
  | None => step = Val None
  | Some n' =>
      let w' := n' * 86400 + wall a mod 86400 in
      if in_rng (w' - dz_off a)
      then exists z, step = Val (Some z) /\ dtz_ok z /\ dz_off z = dz_off a /\
                     wall z = w' /\ frac (dz_utc z) = frac (dz_utc a)
      else step = Val None
  end.
Proof.
  intros Ha Hin Hm step. destruct (overflowing_naive_local_spec HD a Ha) as [l [Hl _]].
  destruct (wall_date_repr a l Ha Hl Hin) as (Hr & Hdn & Ht & Hsod & Hfr & Hdnl).
  pose proof (shift_months_target _ _ (if add then m else - m) (proj1 Hr) (proj1 (proj2 Hr))) as T.
  rewrite Hdn in T.
  assert (Hstep : (if add then Date.checked_add_months (nd_date l) m else Date.checked_sub_months (nd_date l) m)
                  = Val (C08Date.shift_months (fst (yo_of_dn (wall a / 86400))) (snd (yo_of_dn (wall a / 86400)))
                                              (if add then m else - m))).
  { destruct add; [apply (C08Date.checked_add_months_spec _ _ _ m Hr Hm)|apply (C08Date.checked_sub_months_spec _ _ _ m Hr Hm)]. }
  destruct (month_target (wall a / 86400) (if add then m else - m)) as [n'|].
  - destruct T as [d' [S [Hnom Hdn']]]. rewrite S in Hstep. cbv zeta. rewrite <- Hdn'.
    unfold step. destruct add.
    + exact (add_months_glue HD a m l d' Ha Hl Hstep (or_introl Hnom)).
    + exact (sub_months_glue HD a m l d' Ha Hl Hstep (or_introl Hnom)).
  - rewrite T in Hstep. unfold step, dz_checked_add_months, dz_checked_sub_months.
    rewrite Hl. cbv [bind]. unfold ndt_checked_add_months, ndt_checked_sub_months, ndt_map_date, obind.
    destruct add; rewrite Hstep; reflexivity.
Qed.

(** * The unconditional statements used by Props/C04.v *)
Definition from_local_fails_iff := from_local_spec HD.
Definition local_roundtrip_u := local_roundtrip HD.
Definition naive_local_panics_iff := naive_local_spec HD.
Definition overflowing_naive_local_u := overflowing_naive_local_spec HD.
Definition eq_ord_instant := cmp_is_instant_order HD.
Definition accessors_wallclock_u := accessors_wallclock HD.
Definition iso_week_wallclock_u := iso_week_wallclock HD.
Definition iso_week_wallclock_full a := iso_week_wallclock HD a iso_ok_nominal.
Definition utc_local_utc_u := utc_local_utc HD.
Definition map_local_some_u := map_local_some HD.
Definition with_time_u := with_time_spec HD.
Definition with_timefield_u := with_timefield_spec HD.
Definition with_datefield_glue_u := with_datefield_glue HD.
Definition with_year_same_u := with_year_same HD.
Definition add_days_glue_u := add_days_glue HD.
Definition sub_days_glue_u := sub_days_glue HD.
Definition add_months_glue_u := add_months_glue HD.
Definition sub_months_glue_u := sub_months_glue HD.
Definition months_zero_u := months_zero HD.
Definition ymdhms_glue_u := ymdhms_glue HD.

(** * Examples: the hypotheses are inhabited at the range ends; the finding and its repair *)
Definition z_max_p2h : dtz := mk_dtz NDT_MAX 7200.      (* MAX_UTC seen from +02:00 *)
Definition z_min_m2h : dtz := mk_dtz NDT_MIN (-7200).   (* MIN_UTC seen from -02:00 *)
Lemma z_max_ok : dtz_ok z_max_p2h /\ in_rng (wall z_max_p2h) = false.
Proof.
  split; [|vm_compute; reflexivity].
  split; [split; [exact nominal_MAX|]|]; unfold time_ok, off_ok; cbn; lia.
Qed.
Lemma z_min_ok : dtz_ok z_min_m2h /\ in_rng (wall z_min_m2h) = false.
Proof.
  split; [|vm_compute; reflexivity].
  split; [split; [exact nominal_MIN|]|]; unfold time_ok, off_ok; cbn; lia.
Qed.
Definition noon : Time.ntime := Time.mk_time 43200 0.
(** the unrepaired [with_time] of chrono 0.4.40 (no range filter) *)
Definition with_time_unfiltered (a : dtz) (t : Time.ntime) : R (mlt dtz) :=
  let* l := overflowing_naive_local a in from_local_datetime (dz_off a) (mk_ndt (nd_date l) t).
Lemma with_time_unfiltered_escapes :
  (exists z, with_time_unfiltered z_max_p2h noon = Val (MSingle z) /\ in_utc_range z = false /\ dz_cmp z (mk_dtz NDT_MAX 0) = 1) /\
  (exists z, with_time_unfiltered z_min_m2h noon = Val (MSingle z) /\ in_utc_range z = false /\ dz_cmp z (mk_dtz NDT_MIN 0) = -1).
Proof. split; eexists; (split; [vm_compute; reflexivity|split; vm_compute; reflexivity]). Qed.
Lemma with_time_repaired_refuses :
  dz_with_time z_max_p2h noon = Val MNone /\ dz_with_time z_min_m2h noon = Val MNone /\
  naive_local z_max_p2h = Panic /\ naive_local z_min_m2h = Panic.
Proof. vm_compute. repeat split; reflexivity. Qed.
