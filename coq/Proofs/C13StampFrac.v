(** C13 -- format_parse_roundtrip END TO END for "%s%.9f" and "%s%.f": the timestamp followed by the
    fraction of the second, for EVERY NaiveDateTime and DateTime<Utc> (negative timestamps included:
    the fraction counts forward from the floor, "-2.500000000" is 1.5 s before the epoch).  Parsing
    the formatted text returns the value itself; a leap second is read back as the non-leap
    :59.fff of the same count ([drop_leap]: a timestamp cannot carry the flag). *)
From Coq Require Import ZArith List Bool Lia ZifyBool.
From V Require Import Base.Int Base.IntLemmas Base.IO Base.Utf8 Model.Scan Model.Items Gen.ParseTable Gen.Strftime
  Proofs.Utf8 Proofs.Scan Model.Parse Proofs.C13 Proofs.C13Reads Proofs.C13Fmt Proofs.C13Digits Proofs.C13Time
  Proofs.C13View Proofs.C13TimeForms Proofs.C13Stamp Spec.StrftimeDoc.
From V Require Model.Parsed Model.Format Model.Date Model.Time Model.DateTime Model.Strftime Proofs.C12 Proofs.C14
  Proofs.C14Date Proofs.C14Stamp Proofs.C08Sweeps Proofs.C04 Proofs.C04Date.
Import ListNotations.
Open Scope Z_scope.
Ltac Zify.zify_post_hook ::= Z.to_euclidean_division_equations.
Import Model.Parsed.

Definition drop_leap (v : Model.DateTime.ndt) : Model.DateTime.ndt :=
  Model.DateTime.mk_ndt (Model.DateTime.nd_date v)
    (Model.Time.mk_time (Model.Time.tsecs (Model.DateTime.nd_time v)) (nano9 (Model.DateTime.nd_time v))).
Definition STAMP_FRAC_FMT (spec : Fixed) : list Item := [INumeric N_Timestamp PadNone; IFixed spec].

(* the fraction items look at the time only *)
Lemma format_fixed_frac_time a t spec : Model.Format.fa_time a = Some t -> dot_frac_spec spec ->
  Model.Format.format_fixed a spec = Model.Format.format_fixed (Model.Format.fa_of_time t) spec.
Proof.
  intros Ht Hs. destruct a as [od ot oo]. cbn [Model.Format.fa_time] in Ht. subst ot.
  destruct Hs as [->|[->|[->| ->]]]; destruct od, oo as [[? ?]|]; reflexivity.
Qed.

Lemma dot_start_not_digit l rest : not_digit_start ((46 :: l) ++ rest) = true.
Proof. reflexivity. Qed.

(* the segment: timestamp, then the fraction text [ftext] read back as nanosecond [on] *)
Lemma stamp_frac_core a y o d t spec ftext on :
  Model.Format.fa_date a = Some d -> Model.Format.fa_time a = Some t ->
  match Model.Format.fa_off a with Some (_, o) => o | None => 0 end = 0 ->
  Proofs.C08Sweeps.repr y o d -> valid_time t ->
  item_rt a (IFixed spec) ftext (frac_write on) [] ->
  not_digit_start (ftext ++ []) = true ->
  (forall n, on = Some n -> 0 <= n <= 999999999) ->
  exists text,
    Model.Format.write_items a (STAMP_FRAC_FMT spec) [] = Model.Format.fok text /\
    parse parsed_new text (STAMP_FRAC_FMT spec) =
      pok (Proofs.C14Stamp.stamp_fields (Proofs.C14Stamp.secs_at y o (Model.Time.tsecs t)) None on None).
Proof.
  intros Hd Ht Hoff H Hvt Hfrac Hnd Hon. destruct Hvt as [Hs _].
  set (ts := Proofs.C14Stamp.secs_at y o (Model.Time.tsecs t)).
  pose proof (Proofs.C14Stamp.secs_at_i64 y o d _ H Hs) as Hb. fold ts in Hb.
  assert (S1 : seg_ok a [IFixed spec] [ftext] [frac_write on] []).
  { apply (seg_cons a _ _ _ [] [] [] [] (seg_nil a [] eq_refl)). exact Hfrac. }
  assert (S : seg_ok a (STAMP_FRAC_FMT spec) [stamp_text ts; ftext] [W_code 20 ts; frac_write on] []).
  { apply (seg_cons a _ _ _ _ _ _ [] S1). cbn [concat]. rewrite !app_nil_r.
    apply (item_stamp a d t ts _ Hd Ht).
    - rewrite Hoff, Z.add_0_r. exact (Proofs.C14Stamp.dt_timestamp_val y o d t H Hs).
    - unfold i64_max. lia.
    - rewrite app_nil_r in Hnd. exact Hnd.
    - pose proof (seg_valid _ _ _ _ _ S1) as V. cbn [concat] in V. rewrite !app_nil_r in V. exact V. }
  destruct (seg_parse _ _ _ _ S) as [Hw Hp]. eexists. split; [exact Hw|]. rewrite Hp.
  set (F := Proofs.C14Stamp.stamp_fields ts None on None).
  destruct (run_view F [W_code 20 ts; frac_write on] parsed_new (extends_new F)) as [Hrun _].
  { constructor; [reflexivity|]. constructor; [|constructor].
    destruct on as [n|]; [|exact I]. cbn [frac_write w_ok simple_code Z.eqb Pos.eqb]. split; [exact (Hon n eq_refl)|reflexivity]. }
  rewrite Hrun. destruct on; reflexivity.
Qed.

(* resolution of that record: the value with the leap flag dropped *)
Lemma stamp_frac_resolve y o v on :
  Proofs.C08Sweeps.repr y o (Model.DateTime.nd_date v) -> valid_time (Model.DateTime.nd_time v) ->
  unwrap_or on 0 = nano9 (Model.DateTime.nd_time v) ->
  let p := Proofs.C14Stamp.stamp_fields (Proofs.C14Stamp.secs_at y o (Model.Time.tsecs (Model.DateTime.nd_time v))) None on None in
  to_naive_datetime_with_offset p 0 = Val (Ok (drop_leap v)) /\
  to_datetime p = Val (Ok (Model.DateTime.mk_dtz (drop_leap v) 0)).
Proof.
  intros H Hvt Hon p. destruct v as [d t]. cbn [Model.DateTime.nd_date Model.DateTime.nd_time] in *.
  destruct Hvt as [Hs Hf]. unfold nano9 in Hon.
  assert (Hn : 0 <= Model.Time.tfrac t mod 1000000000 < 1000000000) by lia.
  assert (Hr : Proofs.C08Sweeps.repr y o (Model.DateTime.nd_date (drop_leap (Model.DateTime.mk_ndt d t)))) by exact H.
  assert (Hto : Proofs.C04.time_ok (Model.DateTime.nd_time (drop_leap (Model.DateTime.mk_ndt d t)))).
  { unfold drop_leap, nano9, Proofs.C04.time_ok. cbn [Model.DateTime.nd_time Model.Time.tsecs Model.Time.tfrac]. lia. }
  assert (Hl : Proofs.C14Stamp.leap_on_59 (Model.DateTime.nd_time (drop_leap (Model.DateTime.mk_ndt d t)))).
  { unfold drop_leap, nano9, Proofs.C14Stamp.leap_on_59. cbn [Model.DateTime.nd_time Model.Time.tsecs Model.Time.tfrac]. lia. }
  assert (Hts : Model.DateTime.dt_timestamp (drop_leap (Model.DateTime.mk_ndt d t)) =
                Val (Proofs.C14Stamp.secs_at y o (Model.Time.tsecs t))).
  { exact (Proofs.C14Stamp.dt_timestamp_val y o d _ H Hs). }
  assert (Hsec : Proofs.C14Stamp.second_field_ok None (Model.DateTime.nd_time (drop_leap (Model.DateTime.mk_ndt d t)))).
  { unfold Proofs.C14Stamp.second_field_ok, drop_leap, nano9. cbn [Model.DateTime.nd_time Model.Time.tsecs Model.Time.tfrac].
    replace (Model.Time.tfrac t mod 1000000000 >=? 1000000000) with false by lia. left. reflexivity. }
  assert (Hnano : Proofs.C14Stamp.nano_field_ok on (Model.DateTime.nd_time (drop_leap (Model.DateTime.mk_ndt d t)))).
  { unfold Proofs.C14Stamp.nano_field_ok, drop_leap, nano9. cbn [Model.DateTime.nd_time Model.Time.tsecs Model.Time.tfrac].
    rewrite Hon. lia. }
  pose proof (Proofs.C14Stamp.secs_at_i64 y o d _ H Hs) as Hb.
  split.
  - apply (Proofs.C14Stamp.naive_datetime_of_stamp y o _ 0 _ None on None Hr Hto Hl); try assumption.
    + rewrite Z.add_0_r. exact Hts.
    + unfold in_i64, in_range, i64_min, i64_max. lia.
    + intros x E. discriminate E.
  - exact (proj1 (Proofs.C14Stamp.utc_datetime_of_stamp y o _ _ None on None Hr Hto Hl Hts Hsec Hnano (or_introl eq_refl))).
Qed.

(* the two fraction items print the whole fraction *)
Lemma frac_item a t spec : Model.Format.fa_time a = Some t -> valid_time t ->
  spec = F_Nanosecond9 \/ spec = F_Nanosecond ->
  exists ftext on, item_rt a (IFixed spec) ftext (frac_write on) [] /\ not_digit_start (ftext ++ []) = true /\
    (forall n, on = Some n -> 0 <= n <= 999999999) /\ unwrap_or on 0 = nano9 t.
Proof.
  intros Ha Hvt Hspec. assert (Hn9 : 0 <= nano9 t <= 999999999) by (unfold nano9; lia).
  destruct Hspec as [-> | ->].
  - destruct (frac_fixed_format t 9 Hvt (or_intror (or_intror eq_refl))) as [Hf Hx].
    change (fixed_frac 9) with F_Nanosecond9 in Hf. change (10 ^ (9 - 9)) with 1 in *. change (10 ^ 9) with 1000000000 in Hx.
    rewrite <- (format_fixed_frac_time a t F_Nanosecond9 Ha) in Hf by (right; right; right; reflexivity).
    exists (46 :: pad_num DZero 9 false (nano9 t / 1)), (Some (nano9 t / 1 * 10 ^ (9 - 9))).
    split; [|split; [reflexivity|split]].
    + apply item_dotfrac; try assumption; try reflexivity; try lia. right; right; right; reflexivity.
    + intros n E. injection E as E'. rewrite <- E'. change (10 ^ (9 - 9)) with 1. lia.
    + cbn [unwrap_or]. change (10 ^ (9 - 9)) with 1. lia.
  - destruct (frac_auto_format t Hvt) as [[H0 Hf]|[Hne (k & x & Hk & Hx & Hxn & Hf)]];
      rewrite <- (format_fixed_frac_time a t F_Nanosecond Ha) in Hf by (left; reflexivity).
    + exists [], None. split; [split; [exact Hf|split; reflexivity]|]. split; [reflexivity|]. split; [intros n E; discriminate E|].
      cbn [unwrap_or]. lia.
    + exists (46 :: pad_num DZero k false x), (Some (x * 10 ^ (9 - k))).
      split; [|split; [reflexivity|split]].
      * apply item_dotfrac; try assumption; try reflexivity; [left; reflexivity|lia].
      * intros n E. assert (En : n = nano9 t) by (rewrite <- Hxn; congruence). rewrite En. exact Hn9.
      * cbn [unwrap_or]. exact Hxn.
Qed.

Definition frac_spec_ok (spec : Fixed) : Prop := spec = F_Nanosecond9 \/ spec = F_Nanosecond.

(** NaiveDateTime with "%s%.9f" / "%s%.f" *)
Theorem ndt_stamp_frac_roundtrip y o v spec : frac_spec_ok spec ->
  Proofs.C08Sweeps.repr y o (Model.DateTime.nd_date v) -> valid_time (Model.DateTime.nd_time v) ->
  exists text,
    Model.Format.write_items (Model.Format.fa_of_ndt v) (STAMP_FRAC_FMT spec) [] = Model.Format.fok text /\
    (let+ p := parse parsed_new text (STAMP_FRAC_FMT spec) in pr_of (to_naive_datetime_with_offset p 0)) = pok (drop_leap v).
Proof.
  intros Hspec H Hvt.
  destruct (frac_item (Model.Format.fa_of_ndt v) (Model.DateTime.nd_time v) spec eq_refl Hvt Hspec) as (ftext & on & Hi & Hnd & Hon & Hun).
  destruct (stamp_frac_core (Model.Format.fa_of_ndt v) y o _ _ spec ftext on eq_refl eq_refl eq_refl H Hvt Hi Hnd Hon) as (text & Hw & Hp).
  exists text. split; [exact Hw|]. rewrite Hp. cbn [pbind bind pok].
  rewrite (proj1 (stamp_frac_resolve y o v on H Hvt Hun)). reflexivity.
Qed.

(** DateTime<Utc> *)
Theorem utc_stamp_frac_roundtrip y o v spec : frac_spec_ok spec ->
  Proofs.C08Sweeps.repr y o (Model.DateTime.nd_date v) -> valid_time (Model.DateTime.nd_time v) ->
  exists a text,
    Model.Format.fa_of_utc v = Val a /\
    Model.Format.write_items a (STAMP_FRAC_FMT spec) [] = Model.Format.fok text /\
    (let+ p := parse parsed_new text (STAMP_FRAC_FMT spec) in pr_of (to_datetime p)) = pok (Model.DateTime.mk_dtz (drop_leap v) 0).
Proof.
  intros Hspec H Hvt.
  assert (Hv : Proofs.C04.ndt_ok v).
  { split; [exact (Proofs.C04Date.nominal_of_repr _ _ _ H)|]. destruct Hvt as [Hs Hf]. unfold Proofs.C04.time_ok. lia. }
  set (a := Model.Format.mk_fa (Some (Model.DateTime.nd_date v)) (Some (Model.DateTime.nd_time v)) (Some (Model.Format.utc_display, 0))).
  destruct (frac_item a (Model.DateTime.nd_time v) spec eq_refl Hvt Hspec) as (ftext & on & Hi & Hnd & Hon & Hun).
  destruct (stamp_frac_core a y o _ _ spec ftext on eq_refl eq_refl eq_refl H Hvt Hi Hnd Hon) as (text & Hw & Hp).
  exists a, text. split; [|split; [exact Hw|]].
  - unfold Model.Format.fa_of_utc. rewrite (Proofs.C14Stamp.utc_local _ Hv). reflexivity.
  - rewrite Hp. cbn [pbind bind pok]. rewrite (proj2 (stamp_frac_resolve y o v on H Hvt Hun)). reflexivity.
Qed.

(** over the format strings "%s%.9f" and "%s%.f" *)
Definition stamp_frac_format (spec : Fixed) : bytes :=
  match spec with F_Nanosecond9 => [37; 115; 37; 46; 57; 102] | _ => [37; 115; 37; 46; 102] end.
Lemma stamp_frac_format_items spec : frac_spec_ok spec ->
  Model.Strftime.sf_take (S (Model.Strftime.sf_bound (stamp_frac_format spec))) (Model.Strftime.sf_new (stamp_frac_format spec)) []
    = Val (Some (STAMP_FRAC_FMT spec)) /\
  (List.length (STAMP_FRAC_FMT spec) < S (Model.Strftime.sf_bound (stamp_frac_format spec)))%nat.
Proof. intros [-> | ->]; (split; [vm_compute; reflexivity|cbn; lia]). Qed.

Theorem ndt_stamp_frac_parse_from_str y o v spec : frac_spec_ok spec ->
  Proofs.C08Sweeps.repr y o (Model.DateTime.nd_date v) -> valid_time (Model.DateTime.nd_time v) ->
  exists text,
    Model.Format.delayed_display (Model.Format.fa_of_ndt v) (Model.Strftime.sf_new (stamp_frac_format spec)) = Model.Format.fok text /\
    ndt_parse_from_str text (stamp_frac_format spec) = pok (drop_leap v).
Proof.
  intros Hspec H Hvt. destruct (ndt_stamp_frac_roundtrip y o v spec Hspec H Hvt) as (text & Hw & Hp).
  destruct (stamp_frac_format_items spec Hspec) as [Htake Hlen].
  destruct (sf_lift _ _ _ text Htake Hlen Hw) as [Hd Hps].
  exists text. split; [exact Hd|]. unfold ndt_parse_from_str. rewrite Hps. exact Hp.
Qed.

Theorem utc_stamp_frac_parse_from_str y o v spec : frac_spec_ok spec ->
  Proofs.C08Sweeps.repr y o (Model.DateTime.nd_date v) -> valid_time (Model.DateTime.nd_time v) ->
  exists a text,
    Model.Format.fa_of_utc v = Val a /\
    Model.Format.delayed_display a (Model.Strftime.sf_new (stamp_frac_format spec)) = Model.Format.fok text /\
    dt_parse_from_str text (stamp_frac_format spec) = pok (Model.DateTime.mk_dtz (drop_leap v) 0).
Proof.
  intros Hspec H Hvt. destruct (utc_stamp_frac_roundtrip y o v spec Hspec H Hvt) as (a & text & Ha & Hw & Hp).
  destruct (stamp_frac_format_items spec Hspec) as [Htake Hlen].
  destruct (sf_lift _ _ _ text Htake Hlen Hw) as [Hd Hps].
  exists a, text. split; [exact Ha|]. split; [exact Hd|]. unfold dt_parse_from_str. rewrite Hps. exact Hp.
Qed.

Lemma drop_leap_id v : Model.Time.tfrac (Model.DateTime.nd_time v) < 1000000000 -> 0 <= Model.Time.tfrac (Model.DateTime.nd_time v) ->
  drop_leap v = v.
Proof.
  destruct v as [d [s f]]. unfold drop_leap, nano9. cbn [Model.DateTime.nd_date Model.DateTime.nd_time Model.Time.tsecs Model.Time.tfrac].
  intros H1 H2. rewrite Z.mod_small by lia. reflexivity.
Qed.

Example stamp_frac_inhabited :
  frac_spec_ok F_Nanosecond9 /\ frac_spec_ok F_Nanosecond /\
  ndt_parse_from_str [45; 50; 46; 53; 48; 48; 48; 48; 48; 48; 48; 48] (stamp_frac_format F_Nanosecond9) =
    pok (Model.DateTime.mk_ndt (Proofs.C08Sweeps.mkdate 1969 365) (Model.Time.mk_time 86398 500000000)) /\
  ndt_parse_from_str [45; 50; 46; 53; 48; 48] (stamp_frac_format F_Nanosecond) =
    pok (Model.DateTime.mk_ndt (Proofs.C08Sweeps.mkdate 1969 365) (Model.Time.mk_time 86398 500000000)).
Proof. split; [left; reflexivity|]. split; [right; reflexivity|]. split; vm_compute; reflexivity. Qed.
