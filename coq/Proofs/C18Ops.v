(** C18: what every op of the dispatcher and every step kind of a history does, the translation of
    the harness steps into model operations, and the cache check written out (reuse window, the four
    combinations of old and new source, the mtime-based refresh of the /etc/localtime route), for
    arbitrary oracles and both stamping clocks. *)
From Coq Require Import ZArith List Bool Lia ZifyBool String.
From V Require Import Base.Int Base.IO Gen.LocalCache Model.C18 Proofs.C18.
Import ListNotations.
Open Scope Z_scope.
Ltac Zify.zify_post_hook ::= Z.to_euclidean_division_equations.

(** *** The dispatcher: one op, answered by [history]; everything else is not an op of C18 *)
Lemma dispatch : forall op args,
  run op args =
    if op_is op "lc.history" then
      match args with
      | [VTup steps; w; VTup times] =>
          match dec_world w, dec_steps steps, dec_times times with
          | Some x, Some s, Some t => history x s t
          | _, _, _ => VBad
          end
      | _ => VBad
      end
    else VErr B"NOOP".
Proof. reflexivity. Qed.

(** the answers of the history: the state machine of the tree under test (its stamping clock), from
    the initial world of the machine description, on the operations the steps stand for *)
Lemma history_answers : forall x steps times,
  history x steps times =
    match ops_of steps times 0 0 with
    | Some ops => VTup (answers (xoracle x) LC_CLOCK_MONOTONIC (init_state (xinit x)) ops)
    | None => VBad
    end.
Proof. reflexivity. Qed.

Lemma xinit_world : forall x,
  w_tz (xinit x) = None /\ w_wall (xinit x) = 0 /\ w_mono (xinit x) = 0 /\ w_mtime (xinit x) = Some 0 /\
  forall p, w_files (xinit x) p = assoc p (x_files x).
Proof. intros. repeat split. Qed.

(** *** Harness steps -> model operations *)
Definition is_clock_op {ARG} (o : op ARG) : bool :=
  match o with Advance _ | ClockStep _ => true | _ => false end.
(* what a step stands for, clocks aside *)
Definition op_of_xstep (s : xstep) : list (op (Z * Z * Z)) :=
  match s with
  | XSet v => [SetTZ v] | XUnset => [UnsetTZ] | XConv local d => [Convert local d]
  | XSpawn => [Spawn] | XJoin => [Join]
  | XSleep | XSkip | XClockStep => []           (* only move clocks: seen through the readings *)
  end.

Lemma ops_of_defined : forall steps times wall mono,
  ops_of steps times wall mono <> None <-> List.length steps = List.length times.
Proof.
  induction steps as [|s rs IH]; intros [|[w0 m0] rt] wall mono; cbn [ops_of List.length].
  - split; [reflexivity | discriminate].
  - split; [intros H; contradiction | discriminate].
  - split; [intros H; destruct s; contradiction | discriminate].
  - destruct s;
      try (specialize (IH rt wall mono); destruct (ops_of rs rt wall mono);
           split; [intros _; f_equal; apply IH; discriminate | discriminate
                  | intros H; exfalso; apply H; reflexivity
                  | intros H; injection H as H; apply IH in H; contradiction]).
    specialize (IH rt w0 m0). destruct (ops_of rs rt w0 m0).
    + split; [intros _; f_equal; apply IH; discriminate | discriminate].
    + split; [intros H; exfalso; apply H; reflexivity | intros H; injection H as H; apply IH in H; contradiction].
Qed.

(* the TZ changes, conversions and thread switches of the steps, in order; no Touch is produced *)
Lemma ops_of_skeleton : forall steps times wall mono ops,
  ops_of steps times wall mono = Some ops ->
  filter (fun o => negb (is_clock_op o)) ops = flat_map op_of_xstep steps.
Proof.
  induction steps as [|s rs IH]; intros [|[w0 m0] rt] wall mono ops H; cbn [ops_of] in H; try discriminate.
  - injection H as <-. reflexivity.
  - destruct s.
    all: try (destruct (ops_of rs rt wall mono) as [l|] eqn:E; [|discriminate]; injection H as <-).
    all: try (destruct (ops_of rs rt w0 m0) as [l|] eqn:E; [|discriminate]; injection H as <-).
    all: cbn [filter is_clock_op negb flat_map op_of_xstep app].
    all: try (f_equal; eapply IH; exact E).
    all: eapply IH; exact E.
Qed.

Section Ops.
  Context {zone HASH ARG ANS : Type}.
  Variable O : oracle zone HASH ARG ANS.
  Variable mono : bool.
  Notation world := (world zone).
  Notation op := (op ARG).
  Notation state := (@state zone HASH).
  Notation cache := (@cache zone HASH).

  (** *** What each step kind does *)
  Definition world_fields (w : world) : option bytes * Z * Z * option Z := (w_tz w, w_wall w, w_mono w, w_mtime w).

  Theorem step_effect : forall (s : state) (o : op),
    let w := st_world s in
    let s' := fst (step O mono s o) in
    let a := snd (step O mono s o) in
    w_files (st_world s') = w_files w /\
    match o with
    | SetTZ v => a = None /\ caches s' = caches s /\ world_fields (st_world s') = (Some v, w_wall w, w_mono w, w_mtime w)
    | UnsetTZ => a = None /\ caches s' = caches s /\ world_fields (st_world s') = (None, w_wall w, w_mono w, w_mtime w)
    | Advance dt => a = None /\ caches s' = caches s /\
                    world_fields (st_world s') = (w_tz w, w_wall w + dt, w_mono w + dt, w_mtime w)
    | ClockStep dt => a = None /\ caches s' = caches s /\
                      world_fields (st_world s') = (w_tz w, w_wall w + dt, w_mono w, w_mtime w)
    | Touch m => a = None /\ caches s' = caches s /\ world_fields (st_world s') = (w_tz w, w_wall w, w_mono w, m)
    | Convert local d =>
        let c' := cache_check O mono w (match st_cur s with Some c => c | None => cache_default O mono w end) in
        st_world s' = w /\ st_cur s' = Some c' /\ st_stack s' = st_stack s /\
        a = Some (o_answer O (c_zone c') local d)
    | Spawn => a = None /\ st_world s' = w /\ st_cur s' = None /\ st_stack s' = st_cur s :: st_stack s
    | Join => a = None /\ st_world s' = w /\
              caches s' = match st_stack s with [] => caches s | _ :: _ => st_stack s end
    end.
  Proof.
    intros s o. destruct o; cbn [step fst snd with_world set_tz set_clocks set_mtime st_world w_files];
      unfold caches, world_fields; cbn [st_cur st_stack st_world w_tz w_wall w_mono w_mtime]; try (repeat split; reflexivity).
    destruct (st_stack s) eqn:E; cbn [fst snd st_world st_cur st_stack w_files]; rewrite ?E; repeat split; reflexivity.
  Qed.

  (* a thread that ends gives the spawning thread its own cache back, untouched *)
  Theorem spawn_join : forall (s : state) (mid : list op),
    Forall (fun o => match o with Spawn | Join => False | _ => True end) mid ->
    let s' := exec O mono s (Spawn :: mid ++ [Join]) in
    st_cur s' = st_cur s /\ st_stack s' = st_stack s.
  Proof.
    intros s mid Hm.
    assert (G : forall l (t : state), Forall (fun o => match o with Spawn | Join => False | _ => True end) l ->
                  st_stack (exec O mono t l) = st_stack t).
    { induction l as [|o r IH]; intros t Hl; [reflexivity|]. inversion Hl; subst. rewrite exec_cons, IH by assumption.
      destruct o; try contradiction; reflexivity. }
    cbn zeta. rewrite exec_cons, exec_app. set (t := fst (step O mono s Spawn)).
    assert (Et : st_stack (exec O mono t mid) = st_cur s :: st_stack s) by (rewrite G by assumption; reflexivity).
    unfold exec at 1 3. cbn [run_ops step fst snd]. rewrite Et. cbn [fst snd st_cur st_stack]. split; reflexivity.
  Qed.
  (* Join without a spawned thread does nothing *)
  Theorem join_nothing : forall (s : state), st_stack s = [] -> fst (step O mono s Join) = s.
  Proof. intros s H. cbn [step]. rewrite H. reflexivity. Qed.

  (** *** The check of the cache, written out *)
  Notation Kc := (K mono).

  Lemma reuse_window : forall d, 0 <= d -> LC_REUSE (as_secs d) = (d <? NANOS_PER_SEC).
  Proof. intros d H. unfold LC_REUSE, as_secs, NANOS_PER_SEC. lia. Qed.

  (* the cache is reused without looking at the environment exactly when its stamp is not in the
     future of the stamping clock and less than one second old *)
  Theorem cache_check_spec : forall (w : world) (c : cache),
    cache_check O mono w c =
      if (c_last_checked c <=? Kc w) && (Kc w - c_last_checked c <? NANOS_PER_SEC) then c
      else cache_refresh O mono w c.
  Proof.
    intros w c. unfold cache_check, duration_since, K.
    destruct (c_last_checked c <=? cache_now mono w) eqn:E; cbn [andb]; [|reflexivity].
    rewrite reuse_window by lia. reflexivity.
  Qed.

  Definition mtime_stamp (w : world) : Z := match w_mtime w with Some m => m | None => w_wall w end.

  (* the stamp of a reading of the environment: TZ set (valid UTF-8) -> hash of the value;
     otherwise the mtime of /etc/localtime, or the wall clock when that is unavailable *)
  Theorem source_of_world : forall (w : world),
    source_new O w (env_var w LC_ENV_NAME) =
      match env_of (w_tz w) with
      | Some b => Environment (o_hash O b)
      | None => LocalTime (mtime_stamp w)
      end.
  Proof. intros w. rewrite env_var_tz. unfold source_new, mtime_stamp. destruct (env_of (w_tz w)); [reflexivity|]. destruct (w_mtime w); reflexivity. Qed.

  (* the re-check: new stamp, new source, and the zone is selected again exactly when the source
     changed kind, the mtime differs, or the hash differs *)
  Theorem cache_refresh_spec : forall (w : world) (c : cache),
    cache_refresh O mono w c =
      {| c_zone :=
           match c_source c, env_of (w_tz w) with
           | LocalTime m0, None => if m0 =? mtime_stamp w then c_zone c else zone_at O w
           | Environment h, Some b => if o_hash_eqb O h (o_hash O b) then c_zone c else zone_at O w
           | LocalTime _, Some _ => zone_at O w
           | Environment _, None => zone_at O w
           end;
         c_source := match env_of (w_tz w) with
                     | Some b => Environment (o_hash O b)
                     | None => LocalTime (mtime_stamp w)
                     end;
         c_last_checked := Kc w |}.
  Proof.
    intros w c. unfold cache_refresh, zone_at. rewrite source_of_world. unfold K. f_equal.
    destruct (c_source c) as [m0|h], (env_of (w_tz w)) as [b|]; cbn [out_of_date]; try reflexivity.
    - destruct (m0 =? mtime_stamp w); reflexivity.
    - destruct (o_hash_eqb O h (o_hash O b)); reflexivity.
  Qed.

  (** *** TZ unset: the /etc/localtime route and its refresh *)
  (* a new cache made while TZ is unset *)
  Theorem default_unset : forall (w : world), env_of (w_tz w) = None ->
    cache_default O mono w =
      {| c_zone := current_zone O w None; c_source := LocalTime (mtime_stamp w); c_last_checked := Kc w |}.
  Proof.
    intros w H. unfold cache_default. rewrite source_of_world, env_var_tz, H. reflexivity.
  Qed.

  (* a conversion with TZ unset on a cache stamped LocalTime m0, in ANY world (the file table and
     the mtime may have changed since the cache was made): within the window nothing is looked at;
     afterwards the zone is selected again exactly when the mtime stamp differs *)
  Theorem unset_convert : forall (w : world) (c : cache) m0 local d,
    c_source c = LocalTime m0 -> env_of (w_tz w) = None ->
    cache_offset O mono w c local d =
      if (c_last_checked c <=? Kc w) && (Kc w - c_last_checked c <? NANOS_PER_SEC)
      then (c, o_answer O (c_zone c) local d)
      else let z := if m0 =? mtime_stamp w then c_zone c else current_zone O w None in
           ({| c_zone := z; c_source := LocalTime (mtime_stamp w); c_last_checked := Kc w |}, o_answer O z local d).
  Proof.
    intros w c m0 local d Hs He. unfold cache_offset. rewrite cache_check_spec.
    destruct ((c_last_checked c <=? Kc w) && (Kc w - c_last_checked c <? NANOS_PER_SEC)); [reflexivity|].
    rewrite cache_refresh_spec, Hs, He. cbn [c_zone]. unfold zone_at. rewrite env_var_tz, He. reflexivity.
  Qed.

  (* the two-world form: cache made in w1 (TZ unset), next conversion in w2 (TZ still unset, other
     files / mtime / clocks) at least one second later: /etc/localtime is read again exactly when
     its mtime stamp changed; a replacement that keeps the mtime goes unnoticed *)
  Theorem localtime_replaced : forall (w1 w2 : world) local d,
    env_of (w_tz w1) = None -> env_of (w_tz w2) = None -> Kc w1 + NANOS_PER_SEC <= Kc w2 ->
    snd (cache_offset O mono w2 (cache_default O mono w1) local d) =
      o_answer O (if mtime_stamp w1 =? mtime_stamp w2 then current_zone O w1 None else current_zone O w2 None) local d.
  Proof.
    intros w1 w2 local d H1 H2 HK. rewrite (default_unset w1 H1).
    rewrite (unset_convert w2 {| c_zone := current_zone O w1 None; c_source := LocalTime (mtime_stamp w1);
                                 c_last_checked := Kc w1 |} (mtime_stamp w1) local d eq_refl H2).
    cbn [c_last_checked c_zone].
    replace ((Kc w1 <=? Kc w2) && (Kc w2 - Kc w1 <? NANOS_PER_SEC)) with false by (unfold NANOS_PER_SEC in *; lia).
    reflexivity.
  Qed.

  (* within a history (fixed file table): after Touch and one second the stamp follows the mtime *)
  Theorem touch_noticed : forall (s : state) (c : cache) m0 m1 local d,
    st_cur s = Some c -> c_source c = LocalTime m0 -> env_of (w_tz (st_world s)) = None ->
    w_mtime (st_world s) = Some m1 -> c_last_checked c + NANOS_PER_SEC <= Kc (st_world s) ->
    st_cur (fst (step O mono s (Convert local d))) =
      Some {| c_zone := if m0 =? m1 then c_zone c else current_zone O (st_world s) None;
              c_source := LocalTime m1; c_last_checked := Kc (st_world s) |}.
  Proof.
    intros s c m0 m1 local d Hc Hs He Hm HK.
    destruct (step_effect s (Convert local d)) as [_ [_ [H _]]]. rewrite H, Hc. f_equal.
    pose proof (unset_convert (st_world s) c m0 local d Hs He) as U. unfold cache_offset in U.
    replace ((c_last_checked c <=? Kc (st_world s)) && (Kc (st_world s) - c_last_checked c <? NANOS_PER_SEC))
      with false in U by (unfold NANOS_PER_SEC in *; lia).
    cbn zeta in U. injection U as U _. rewrite U. unfold mtime_stamp. rewrite Hm. reflexivity.
  Qed.

  (* switching between the two kinds of source always selects again *)
  Theorem switch_selects_again : forall (w : world) (c : cache),
    (match c_source c, env_of (w_tz w) with
     | LocalTime _, Some _ | Environment _, None => True | _, _ => False end) ->
    c_zone (cache_refresh O mono w c) = zone_at O w.
  Proof.
    intros w c H. rewrite cache_refresh_spec. cbn [c_zone].
    destruct (c_source c), (env_of (w_tz w)); try contradiction; reflexivity.
  Qed.
End Ops.

(** the readings measured by the implementation run are the clocks the model sees at each
    conversion: before the Convert of an XConv step with readings (w0, m0) the world reads exactly
    wall = w0 and monotonic = m0 *)
Fixpoint conv_readings (steps : list xstep) (times : list (Z * Z)) : list (Z * Z) :=
  match steps, times with
  | s :: rs, t :: rt => match s with XConv _ _ => t :: conv_readings rs rt | _ => conv_readings rs rt end
  | _, _ => []
  end.
Section Clocks.
  Context {zone HASH ARG ANS : Type}.
  Variable O : oracle zone HASH ARG ANS.
  Variable mono : bool.
  Fixpoint conv_clocks (s : @state zone HASH) (ops : list (op ARG)) : list (Z * Z) :=
    match ops with
    | [] => []
    | o :: r =>
        let rest := conv_clocks (fst (step O mono s o)) r in
        match o with Convert _ _ => (w_wall (st_world s), w_mono (st_world s)) :: rest | _ => rest end
    end.
End Clocks.

Lemma ops_of_clocks : forall HASH ANS (O : oracle xzone HASH (Z * Z * Z) ANS) mono steps times wall mn ops (s : @state xzone HASH),
  ops_of steps times wall mn = Some ops -> w_wall (st_world s) = wall -> w_mono (st_world s) = mn ->
  conv_clocks O mono s ops = conv_readings steps times.
Proof.
  intros HASH ANS O mono. induction steps as [|x rs IH]; intros [|[w0 m0] rt] wall mn ops s H Hw Hm;
    cbn [ops_of] in H; try discriminate.
  - injection H as <-. reflexivity.
  - assert (Hsame : forall o, is_clock_op o = false -> (forall l d, o <> Convert l d) ->
                      w_wall (st_world (fst (step O mono s o))) = wall /\ w_mono (st_world (fst (step O mono s o))) = mn).
    { intros o Hc Hn. destruct o as [v| |dt|dt|m|l0 d0| |]; try discriminate;
        cbn [step fst with_world set_tz set_mtime st_world w_wall w_mono]; auto.
      destruct (st_stack s); cbn [fst st_world]; auto. }
    destruct x; cbn [conv_readings];
      try (destruct (ops_of rs rt wall mn) as [l|] eqn:E; [|discriminate]; injection H as <-).
    + cbn [conv_clocks]. destruct (Hsame (SetTZ v) eq_refl) as [A1 A2]; [discriminate|]. exact (IH rt wall mn l _ E A1 A2).
    + cbn [conv_clocks]. destruct (Hsame UnsetTZ eq_refl) as [A1 A2]; [discriminate|]. exact (IH rt wall mn l _ E A1 A2).
    + exact (IH rt wall mn l s E Hw Hm).
    + destruct (ops_of rs rt w0 m0) as [l|] eqn:E; [|discriminate]. injection H as <-.
      cbn [conv_clocks]. cbn [step fst with_world set_clocks st_world w_wall w_mono]. f_equal.
      * rewrite Hw, Hm. f_equal; lia.
      * apply (IH rt w0 m0 l _ E).
        -- destruct (tl_offset _ _ _ _ _ _). cbn [fst st_world set_clocks w_wall w_mono]. rewrite ?Hw, ?Hm. lia.
        -- destruct (tl_offset _ _ _ _ _ _). cbn [fst st_world set_clocks w_wall w_mono]. rewrite ?Hw, ?Hm. lia.
    + cbn [conv_clocks]. destruct (Hsame Spawn eq_refl) as [A1 A2]; [discriminate|]. exact (IH rt wall mn l _ E A1 A2).
    + cbn [conv_clocks]. destruct (Hsame Join eq_refl) as [A1 A2]; [discriminate|]. exact (IH rt wall mn l _ E A1 A2).
    + exact (IH rt wall mn l s E Hw Hm).
    + exact (IH rt wall mn l s E Hw Hm).
Qed.

(** *** Inhabited: a history with TZ unset in which /etc/localtime is replaced (Touch) *)
Definition touch_history : list (op (Z * Z * Z)) :=
  [Convert false noon; Touch (Some 5); Advance 999999999; Convert false noon; Advance 1; Convert false noon].
Lemma touch_inhabited : forall mono,
  let stamp ops := option_map (fun c => (c_source c, c_last_checked c))
                              (st_cur (exec (xoracle demo_world) mono (init_state (xinit demo_world)) ops)) in
  stamp [Convert false noon] = Some (LocalTime 0, 0) /\
  (* 0.999999999 s after the first conversion the replaced file is not yet noticed, one ns later it is *)
  stamp (firstn 4 touch_history) = Some (LocalTime 0, 0) /\
  stamp touch_history = Some (LocalTime 5, 1000000000) /\
  answers (xoracle demo_world) mono (init_state (xinit demo_world)) touch_history = [VInt 0; VInt 0; VInt 0].
Proof. intros [|]; vm_compute; repeat split; reflexivity. Qed.

(* the dispatcher on a concrete case line: two conversions one second apart across a change of TZ *)
Lemma dispatch_inhabited :
  run B"lc.history"
    [VTup [VTup [VInt 0; VStr B"AAA-3"]; VTup [VInt 3; VInt 0; VTup [VInt 2020; VInt 100; VInt 43200; VInt 0]];
           VTup [VInt 0; VStr B""]; VTup [VInt 6; VInt 1000];
           VTup [VInt 3; VInt 1; VTup [VInt 2020; VInt 100; VInt 43200; VInt 0]]];
     VTup [VTup []; VTup [VTup [VStr B"AAA-3"; VInt 10800]]; VNone];
     VTup [VTup [VInt 0; VInt 0; VInt 0; VInt 0]; VTup [VInt 5; VInt 5; VInt 6; VInt 6]; VTup [VInt 7; VInt 7; VInt 8; VInt 8];
           VTup [VInt 9; VInt 9; VInt 1000000009; VInt 1000000009]; VTup [VInt 1000000010; VInt 1000000010; VInt 1000000011; VInt 1000000011]]]
  = VTup [VInt 10800; VTup [VInt 0]] /\
  run B"lc.nothing" [] = VErr B"NOOP" /\ run B"lc.history" [] = VBad.
Proof. vm_compute. repeat split; reflexivity. Qed.
