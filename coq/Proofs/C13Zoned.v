(** C13 — format_parse_roundtrip END TO END for DateTime<FixedOffset> with
    "%Y-%m-%dT%H:%M:%S%z" and "%Y-%m-%dT%H:%M:%S%:z", for every in-range UTC date, every time of
    day (leap second on :59 included) and every whole-minute offset strictly inside +-24 h whose
    wall-clock date is itself a NaiveDate:
        DateTime::parse_from_str(&z.format(f).to_string(), f) = Ok(z truncated to whole seconds)
    through DateTime::format_with_items (overflowing_naive_local, the offset name), the formatter,
    the reader and Parsed::to_datetime (date, time, timestamp cross-check with the offset,
    FixedOffset::east_opt, from_local_datetime: the wall clock and its way back are the C04 / C09
    facts [local_of] / [back]). *)
From Coq Require Import ZArith List Bool Lia ZifyBool.
From V Require Import Base.Int Base.IntLemmas Base.IO Base.Utf8 Model.Scan Model.Items Gen.ParseTable Gen.Strftime
  Proofs.Utf8 Proofs.Scan Model.Parse Proofs.C13 Proofs.C13Reads Proofs.C13Fmt Proofs.C13Digits Proofs.C13Time
  Proofs.C13Date Proofs.C13View Proofs.C13DateTime Spec.StrftimeDoc.
From V Require Model.Parsed Model.Format Model.Date Model.Time Model.DateTime Model.Strftime Proofs.C12 Proofs.C14
  Proofs.C08Sweeps Proofs.C08 Proofs.C04 Proofs.C09Time Proofs.C09Show Proofs.C09Zoned Proofs.C08AddDays Spec.Gregorian.
Import ListNotations.
Open Scope Z_scope.
Ltac Zify.zify_post_hook ::= Z.to_euclidean_division_equations.
Import Model.Parsed.
Import Spec.Gregorian.

(** * the offset items %z / %:z on a whole-minute offset *)
Definition off_item (colon : bool) : Fixed := if colon then F_TimezoneOffsetColon else F_TimezoneOffset.

Lemma item_offset a (colon : bool) name off rest :
  Model.Format.fa_off a = Some (name, off) -> -86400 < off < 86400 -> off mod 60 = 0 ->
  utf8_valid rest = true ->
  item_rt a (IFixed (off_item colon)) (offset_text off colon 0) (W_code 21 off) rest.
Proof.
  intros Ha Ho Hm Hr.
  destruct (Proofs.C12.offset_items_spec off Ho) as (F1 & F2 & _).
  rewrite Proofs.C12.offset_text_unfold. cbv zeta. cbn [Z.eqb].
  set (A := Z.abs off). assert (HA : 0 <= A < 86400 /\ A mod 60 = 0) by (unfold A; lia).
  set (H := (A + 30) / 60 / 60). set (M := (A + 30) / 60 mod 60).
  assert (HH : 0 <= H < 24) by (unfold H; lia). assert (HM : 0 <= M < 60) by (unfold M; lia).
  assert (HV : H * 3600 + M * 60 = A) by (unfold H, M; lia).
  rewrite (pad2_eq H) by lia. rewrite (pad2_eq M) by lia.
  split; [|split].
  - unfold renders. cbn [Model.Format.format_item]. destruct a as [od ot oo]. cbn [Model.Format.fa_off] in Ha. subst oo.
    rewrite <- (pad2_eq H) by lia. rewrite <- (pad2_eq M) by lia.
    fold A in F1, F2. rewrite Proofs.C12.offset_text_unfold in F1, F2. cbv zeta in F1, F2. cbn [Z.eqb] in F1, F2.
    fold A H M in F1, F2.
    destruct colon; cbn [off_item]; destruct od, ot; cbn [Model.Format.format_fixed Model.Format.fa_date Model.Format.fa_time Model.Format.fa_off];
      assumption.
  - assert (E : forall t, reads_b (IFixed (off_item colon)) t rest = reads_offset (false, false, true) t rest).
    { intros t. destruct colon; reflexivity. }
    rewrite E. unfold Proofs.C12.off_sign.
    assert (Hgo : forall sg, sg = (if off <? 0 then 45 else 43) ->
      (if ((sg =? 43) || (sg =? 45)) && is_ascii_digit (48 + H / 10) && is_ascii_digit (48 + H mod 10)
          && (48 <=? 48 + M / 10) && (48 + M / 10 <=? 53) && is_ascii_digit (48 + M mod 10) && utf8_valid rest
       then Some (W_code 21 (off_value (sg =? 45) (48 + H / 10) (48 + H mod 10) (48 + M / 10) (48 + M mod 10))) else None)
      = Some (W_code 21 off)).
    { intros sg Hsg. rewrite Hr. unfold is_ascii_digit.
      replace (((sg =? 43) || (sg =? 45)) && ((48 <=? 48 + H / 10) && (48 + H / 10 <=? 57)) &&
               ((48 <=? 48 + H mod 10) && (48 + H mod 10 <=? 57)) && (48 <=? 48 + M / 10) && (48 + M / 10 <=? 53) &&
               ((48 <=? 48 + M mod 10) && (48 + M mod 10 <=? 57)) && true) with true
        by (destruct (off <? 0); subst sg; lia).
      f_equal. f_equal. unfold off_value.
      replace ((48 + H / 10 - 48) * 10 + (48 + H mod 10 - 48)) with H by lia.
      replace ((48 + M / 10 - 48) * 10 + (48 + M mod 10 - 48)) with M by lia.
      rewrite HV. unfold A. destruct (off <? 0) eqn:E0; subst sg; cbn [Z.eqb Pos.eqb]; lia. }
    destruct colon; cbn [app reads_offset]; [change (58 =? 58) with true; cbv iota|]; apply Hgo; reflexivity.
  - rewrite utf8_valid_app_ascii; [exact Hr|].
    apply ascii_app; [apply ascii1; unfold Proofs.C12.off_sign; destruct (off <? 0); lia|].
    apply ascii_app; [repeat constructor; lia|].
    apply ascii_app; [destruct colon; repeat constructor; lia|repeat constructor; lia].
Qed.

(* the same, whatever follows: the offset items read their own rendering back as the offset exactly
   when the rest is well-formed *)
Lemma offset_reads_eq (colon : bool) off rest : -86400 < off < 86400 -> off mod 60 = 0 ->
  reads_fixed (off_item colon) (offset_text off colon 0) rest =
  (if utf8_valid rest then Some (W_code 21 off) else None).
Proof.
  intros Ho Hm. rewrite Proofs.C12.offset_text_unfold. cbv zeta. cbn [Z.eqb].
  set (A := Z.abs off). assert (HA : 0 <= A < 86400 /\ A mod 60 = 0) by (unfold A; lia).
  set (H := (A + 30) / 60 / 60). set (M := (A + 30) / 60 mod 60).
  assert (HH : 0 <= H < 24) by (unfold H; lia). assert (HM : 0 <= M < 60) by (unfold M; lia).
  assert (HV : H * 3600 + M * 60 = A) by (unfold H, M; lia).
  rewrite (pad2_eq H) by lia. rewrite (pad2_eq M) by lia.
  assert (E : forall t, reads_fixed (off_item colon) t rest = reads_offset (false, false, true) t rest).
  { intros t. destruct colon; reflexivity. }
  rewrite E. unfold Proofs.C12.off_sign.
  assert (Hgo : forall sg, sg = (if off <? 0 then 45 else 43) ->
    (if ((sg =? 43) || (sg =? 45)) && is_ascii_digit (48 + H / 10) && is_ascii_digit (48 + H mod 10)
        && (48 <=? 48 + M / 10) && (48 + M / 10 <=? 53) && is_ascii_digit (48 + M mod 10) && utf8_valid rest
     then Some (W_code 21 (off_value (sg =? 45) (48 + H / 10) (48 + H mod 10) (48 + M / 10) (48 + M mod 10))) else None)
    = (if utf8_valid rest then Some (W_code 21 off) else None)).
  { intros sg Hsg. unfold is_ascii_digit.
    replace (((sg =? 43) || (sg =? 45)) && ((48 <=? 48 + H / 10) && (48 + H / 10 <=? 57)) &&
             ((48 <=? 48 + H mod 10) && (48 + H mod 10 <=? 57)) && (48 <=? 48 + M / 10) && (48 + M / 10 <=? 53) &&
             ((48 <=? 48 + M mod 10) && (48 + M mod 10 <=? 57))) with true
      by (destruct (off <? 0); subst sg; lia).
    cbn [andb]. destruct (utf8_valid rest); [|reflexivity].
    f_equal. f_equal. unfold off_value.
    replace ((48 + H / 10 - 48) * 10 + (48 + H mod 10 - 48)) with H by lia.
    replace ((48 + M / 10 - 48) * 10 + (48 + M mod 10 - 48)) with M by lia.
    rewrite HV. unfold A. destruct (off <? 0) eqn:E0; subst sg; cbn [Z.eqb Pos.eqb]; lia. }
  destruct colon; cbn [app reads_offset]; [change (58 =? 58) with true; cbv iota|]; apply Hgo; reflexivity.
Qed.

(** * the value domain and the truncation *)
Definition valid_dtz (yu ou : Z) (z : Model.DateTime.dtz) : Prop :=
  Proofs.C08Sweeps.repr yu ou (Model.DateTime.nd_date (Model.DateTime.dz_utc z)) /\
  valid_time (Model.DateTime.nd_time (Model.DateTime.dz_utc z)) /\
  -86400 < Model.DateTime.dz_off z < 86400 /\ Model.DateTime.dz_off z mod 60 = 0 /\
  (* the wall-clock date is a NaiveDate *)
  dn_in_range (dn_of_yo yu ou + (Model.Time.tsecs (Model.DateTime.nd_time (Model.DateTime.dz_utc z)) + Model.DateTime.dz_off z) / 86400) = true.
Definition trunc_dtz (z : Model.DateTime.dtz) : Model.DateTime.dtz :=
  Model.DateTime.mk_dtz (Model.DateTime.mk_ndt (Model.DateTime.nd_date (Model.DateTime.dz_utc z))
                                               (trunc_secs (Model.DateTime.nd_time (Model.DateTime.dz_utc z))))
                        (Model.DateTime.dz_off z).

Lemma valid_time_dom s f : valid_time (Model.Time.mk_time s f) -> Proofs.C09Time.time_dom (Model.Time.mk_time s f).
Proof.
  intros [Hs Hf]. cbn [Model.Time.tsecs Model.Time.tfrac] in *. unfold Proofs.C09Time.time_dom, Proofs.C09Show.tvalid.
  cbn [Model.Time.tsecs Model.Time.tfrac]. split; [split; lia|]. destruct Hf as [Hf|[H59 Hf]]; [left; lia|right; exact H59].
Qed.

Definition DTZ_FMT (colon : bool) : list Item := (YMD_FMT ++ Literal [84] :: SF_T_FMT) ++ [IFixed (off_item colon)].

Lemma run_writes_app : forall w1 w2 p, run_writes (w1 ++ w2) p = (let+ p' := run_writes w1 p in run_writes w2 p').
Proof.
  induction w1 as [|w r IH]; intros w2 p; [reflexivity|].
  cbn [app run_writes]. destruct (eff_of w p) as [[p'|e]| |]; cbn [pbind bind]; try reflexivity. apply IH.
Qed.

Lemma tnd_offset v p : to_naive_date (pput F_offset v p) = to_naive_date p.
Proof. reflexivity. Qed.
Lemma tnt_offset v p : to_naive_time (pput F_offset v p) = to_naive_time p.
Proof. reflexivity. Qed.

Theorem dtz_roundtrip yu ou z colon : valid_dtz yu ou z ->
  exists a text,
    Model.Format.fa_of_dtz z = Val a /\
    Model.Format.write_items a (DTZ_FMT colon) [] = Model.Format.fok text /\
    (let+ p := parse parsed_new text (DTZ_FMT colon) in pr_of (to_datetime p)) = pok (trunc_dtz z).
Proof.
  intros (Hr & Hvt & Ho & Hm & Hw). destruct z as [[du [su fu]] off].
  cbn [Model.DateTime.dz_utc Model.DateTime.dz_off Model.DateTime.nd_date Model.DateTime.nd_time Model.Time.tsecs] in *.
  set (n := dn_of_yo yu ou + (su + off) / 86400) in *.
  set (yl := fst (yo_of_dn n)). set (ol := snd (yo_of_dn n)). set (dl := Proofs.C08AddDays.date_of_dn n).
  set (sl := (su + off) mod 86400).
  pose proof (Proofs.C09Zoned.local_repr yu ou su off Hw) as Hlr. fold n yl ol dl in Hlr.
  pose proof (valid_time_dom su fu Hvt) as Htd.
  pose proof (Proofs.C09Zoned.local_of yu ou du su fu off Hr Htd Ho Hm Hw) as Hlocal. fold n dl sl in Hlocal.
  (* the local time is a valid time with the same second of the minute *)
  assert (Hvl : valid_time (Model.Time.mk_time sl fu)).
  { destruct Hvt as [Hs Hf]. cbn [Model.Time.tsecs Model.Time.tfrac] in *. split; cbn [Model.Time.tsecs Model.Time.tfrac].
    - unfold sl. lia.
    - destruct Hf as [Hf|[H59 Hf]]; [left; exact Hf|right]. split; [unfold sl; lia|exact Hf]. }
  set (tl := Model.Time.mk_time sl fu) in *.
  set (name := offset_text off true 0).
  set (a := Model.Format.mk_fa (Some dl) (Some tl) (Some (name, off))).
  exists a.
  (* the segment: date, 'T', time, offset *)
  assert (S2 : seg_ok a [IFixed (off_item colon)] [offset_text off colon 0] [W_code 21 off] []).
  { apply (seg_cons _ _ _ _ _ _ _ _ (seg_nil a [] eq_refl)).
    apply (item_offset a colon name off []); [reflexivity|exact Ho|exact Hm|reflexivity]. }
  pose proof (ndt_seg a yl ol dl tl (Literal [84]) _ eq_refl eq_refl Hlr Hvl (or_introl eq_refl) (seg_valid _ _ _ _ _ S2)) as S1.
  pose proof (seg_app a _ _ _ _ _ _ [] S2 S1) as S.
  destruct (seg_parse _ _ _ _ S) as [Hwi Hp].
  eexists. split; [|split; [exact Hwi|]].
  { unfold Model.Format.fa_of_dtz. rewrite Hlocal. cbn [bind Model.DateTime.dz_off].
    rewrite Proofs.C12.fixed_offset_display_minutes by assumption. reflexivity. }
  unfold DTZ_FMT. rewrite Hp.
  (* the writes *)
  destruct (ndt_resolution yl ol dl tl Hlr Hvl) as (p & Hrun & Ed & Et & Ets & Eoff & _).
  rewrite run_writes_app, Hrun. cbn [pbind bind pok run_writes eff_of].
  assert (Hset : set_by_code 21 p off = pok (pput F_offset (Some off) p)).
  { unfold set_by_code. cbn [Z.eqb Pos.eqb]. unfold set_offset.
    rewrite Proofs.C14.set_checked_in by (unfold i32_min, i32_max; lia).
    unfold set_if_consistent. change (pget F_offset p) with (p_offset p). rewrite Eoff. reflexivity. }
  rewrite Hset. cbn [pbind bind pok]. unfold pr_of.
  (* resolution *)
  set (p2 := pput F_offset (Some off) p).
  unfold to_datetime. change (p_offset p2) with (Some off). cbn [ebind bind].
  assert (Hsl : 0 <= sl < 86400) by (unfold sl; lia).
  assert (Ed2 : to_naive_date p2 = Val (Ok dl)) by (unfold p2; rewrite tnd_offset; exact Ed).
  assert (Et2 : to_naive_time p2 = Val (Ok (trunc_secs tl))) by (unfold p2; rewrite tnt_offset; exact Et).
  assert (Ets2 : p_timestamp p2 = None) by exact Ets.
  rewrite (resolve_ndt yl ol dl (trunc_secs tl) p2 off Hlr Hsl Ho Ed2 Et2 Ets2).
  cbn [ebind bind].
  assert (Ee : Model.DateTime.east_opt off = Some off) by (apply Proofs.C04.east_opt_some_iff; split; [reflexivity|exact Ho]).
  rewrite Ee. cbn [ok_or ebind bind].
  (* back from the wall clock *)
  set (fu' := if fu >=? 1000000000 then 1000000000 else 0).
  assert (Htd' : Proofs.C09Time.time_dom (Model.Time.mk_time su fu')).
  { apply valid_time_dom. destruct Hvt as [Hs Hf]. cbn [Model.Time.tsecs Model.Time.tfrac] in *.
    split; cbn [Model.Time.tsecs Model.Time.tfrac]; [exact Hs|]. unfold fu'.
    destruct (fu >=? 1000000000) eqn:E; rewrite Z.geb_leb in E; [right|left; lia].
    split; [|lia]. destruct Hf as [Hf|[H59 _]]; [lia|exact H59]. }
  pose proof (Proofs.C09Zoned.back yu ou du su fu' off Hr Htd' Ho Hm Hw) as Hback. fold n dl sl in Hback.
  assert (Etr : trunc_secs tl = Model.Time.mk_time sl fu') by reflexivity.
  rewrite Etr, Hback. reflexivity.
Qed.

Example dtz_roundtrip_inhabited :
  valid_dtz 2016 366 (Model.DateTime.mk_dtz (Model.DateTime.mk_ndt (Proofs.C08Sweeps.mkdate 2016 366)
                        (Model.Time.mk_time 86399 1500000000)) (-34200)).
Proof.
  split; [repeat split; reflexivity|]. split; [split; [cbn; lia|right; cbn; lia]|].
  split; [cbn; lia|]. split; reflexivity.
Qed.

(** DateTime::parse_from_str(&z.format(f).to_string(), f) = Ok(trunc z) for f = "%Y-%m-%dT%H:%M:%S%z" / "...%:z" *)
Definition dtz_format (colon : bool) : bytes :=
  [37; 89; 45; 37; 109; 45; 37; 100; 84; 37; 72; 58; 37; 77; 58; 37; 83; 37] ++ (if colon then [58; 122] else [122]).

Theorem dtz_parse_from_str yu ou z colon : valid_dtz yu ou z ->
  exists a text,
    Model.Format.fa_of_dtz z = Val a /\
    Model.Format.delayed_display a (Model.Strftime.sf_new (dtz_format colon)) = Model.Format.fok text /\
    dt_parse_from_str text (dtz_format colon) = pok (trunc_dtz z).
Proof.
  intros Hv. destruct (dtz_roundtrip yu ou z colon Hv) as (a & text & Ha & Hw & Hp).
  assert (Ht : Model.Strftime.sf_take (S (Model.Strftime.sf_bound (dtz_format colon))) (Model.Strftime.sf_new (dtz_format colon)) [] =
               Val (Some (DTZ_FMT colon)) /\ (List.length (DTZ_FMT colon) < S (Model.Strftime.sf_bound (dtz_format colon)))%nat).
  { destruct colon; (split; [vm_compute; reflexivity|cbn; lia]). }
  destruct Ht as [Ht Hl].
  destruct (sf_lift _ _ a text Ht Hl Hw) as [Hd Hps].
  exists a, text. split; [exact Ha|]. split; [exact Hd|]. unfold dt_parse_from_str. rewrite Hps. exact Hp.
Qed.
