(** Version 2 / 3 TZif files with the footer's TZ string judged by the grammar of
    Proofs/TzStrSpec.v instead of the reader's [from_tz_string]: [tzif_v23_accepts_g] is
    [tzif_v23_accepts] (Proofs/TzAcceptSpec.v) with [footer_rule_res] (reader code) replaced by
    [footer_rule_g] (grammar).  What is still the reader's own code in the predicate: the check
    [footer_consistent] (Proofs/TzWriterFull.v) that the rule agrees with the last transition. *)
From Coq Require Import ZArith List Bool Lia ZifyBool.
From V Require Import Base.Int Base.IO Base.IntLemmas Gen.TzInfo.
From V Require Import Model.TzParser Model.TzRule.
From V Require Import Proofs.TzCommon Proofs.TzRoundtrip Proofs.TzWriterFull Proofs.C16 Proofs.TzAcceptSpec Proofs.TzAccept
                      Proofs.TzAcceptFile Proofs.TzStrSpec Proofs.TzStr.
Import ListNotations.
Open Scope Z_scope.
Ltac Zify.zify_post_hook ::= Z.to_euclidean_division_equations.

(* the rule of the footer: none when the trimmed text is blank, else the value of the TZ string,
   which must be in the grammar (extended rule times exactly when the SECOND header says version 3) *)
Definition footer_rule_g (d : bytes) : option (option trule) :=
  match trim_ascii_ws (footer_of d) with
  | [] => Some None
  | s => if tzstr_accepts (footer_ext_of d) s then Some (Some (tzstr_value (footer_ext_of d) s)) else None
  end.
Definition tzif_v23_accepts_g (d : bytes) : bool :=
  v23_layout_ok d && block_ok (state_at d (off2 d) 8) && footer_text_ok (footer_of d)
  && match footer_rule_g d with
     | Some r => footer_consistent (st_zone (state_at d (off2 d) 8) r)
     | None => false
     end.
Definition tzif_v23_zone_g (d : bytes) : timezone :=
  st_zone (state_at d (off2 d) 8) (match footer_rule_g d with Some r => r | None => None end).
Definition tzif_accepts_g (d : bytes) : bool := tzif_v1_accepts d || tzif_v23_accepts_g d.
Definition tzif_zone_g (d : bytes) : timezone := if byte_at d 4 =? 0 then tzif_v1_zone d else tzif_v23_zone_g d.

Lemma footer_rule_link d : data_ok d ->
  match footer_rule_g d with
  | Some r => footer_rule_res d = Val (Ok r)
  | None => exists e, footer_rule_res d = Val (Err e)
  end.
Proof.
  intros [Hl Hb]. unfold footer_rule_g, footer_rule_res.
  assert (Hf : Forall byte (footer_of d)) by (unfold footer_of; apply Forall_skipn; exact Hb).
  assert (Hfl : zlen (footer_of d) <= zlen d) by (unfold footer_of, zlen; rewrite skipn_length; lia).
  destruct (trim_sub (footer_of d) Hf) as [_ Ht].
  destruct (trim_ascii_ws (footer_of d)) as [|x l]; [reflexivity|].
  assert (Hlen : zlen (x :: l) <= u64_max) by (unfold i64_max, u64_max in *; lia).
  pose proof (from_tz_string_sim (x :: l) (footer_ext_of d) Hlen) as Hs.
  unfold tzstr_accepts, tzstr_value, sim in *.
  destruct (tzstr_parse (footer_ext_of d) (x :: l)) as [r|].
  - destruct Hs as (v & -> & ->). reflexivity.
  - destruct Hs as (e & ->). exists e. reflexivity.
Qed.

Lemma v23_g_same d : data_ok d ->
  tzif_v23_accepts_g d = tzif_v23_accepts d /\ tzif_v23_zone_g d = tzif_v23_zone d.
Proof.
  intros Hd. pose proof (footer_rule_link d Hd) as H.
  unfold tzif_v23_accepts_g, tzif_v23_accepts, tzif_v23_zone_g, tzif_v23_zone.
  destruct (footer_rule_g d) as [r|].
  - rewrite H. split; reflexivity.
  - destruct H as (e & ->). split; reflexivity.
Qed.

Theorem v23_accepts_iff_g d z : data_ok d ->
  (parse d = Val (Ok z) /\ byte_at d 4 <> 0) <-> (tzif_v23_accepts_g d = true /\ z = tzif_v23_zone_g d).
Proof.
  intros Hd. destruct (v23_g_same d Hd) as [-> ->]. apply v23_accepts_iff. exact Hd.
Qed.
Theorem accepts_iff_g d z : data_ok d ->
  parse d = Val (Ok z) <-> tzif_accepts_g d = true /\ z = tzif_zone_g d.
Proof.
  intros Hd. unfold tzif_accepts_g, tzif_zone_g. destruct (v23_g_same d Hd) as [-> ->].
  apply accepts_iff. exact Hd.
Qed.

(* the footer rule alone: what the reader makes of the footer text *)
Theorem footer_rule_iff d r : data_ok d ->
  footer_rule_res d = Val (Ok r) <-> footer_rule_g d = Some r.
Proof.
  intros Hd. pose proof (footer_rule_link d Hd) as H. destruct (footer_rule_g d) as [r'|].
  - rewrite H. split; intros Hq; injection Hq as <-; reflexivity.
  - destruct H as (e & ->). split; discriminate.
Qed.

Lemma accept_examples_g :
  tzif_v23_accepts_g file_berlin_v2 = true /\ tzif_zone_g file_berlin_v2 = example_berlin /\
  footer_rule_g file_berlin_v2 = Some (extra_rule example_berlin).
Proof. vm_compute. repeat split; reflexivity. Qed.
