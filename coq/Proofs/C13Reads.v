(** C13 — the decision procedure [reads_b] / [unambiguous_b]: a computable recogniser of "this
    text is a rendering of this item that the reader takes back exactly, given what follows",
    returning the field write the reader performs; its soundness against Model/Parse.v; and the
    composition theorem over item lists. *)
From Coq Require Import ZArith List Bool Lia ZifyBool String.
From V Require Import Base.Int Base.IntLemmas Base.IO Base.Utf8 Gen.ScanTables Model.Scan Model.Items
  Gen.ParseTable Proofs.Utf8 Proofs.Scan Model.Parse Proofs.C13.
From V Require Model.Parsed.
Import ListNotations.
Open Scope Z_scope.

(** * The field write an item performs *)
Inductive write :=
| W_none
| W_code (code v : Z)        (* set_by_code code _ v: the setters of the Numeric table *)
| W_weekday (wd : Z)         (* Parsed::set_weekday *)
| W_ampm (v : Z).            (* Parsed::set_ampm *)
Definition eff := Model.Parsed.parsed -> PR Model.Parsed.parsed.
Definition eff_of (w : write) : eff :=
  fun p => match w with
           | W_none => pok p
           | W_code c v => set_by_code c p v
           | W_weekday wd => setq (Model.Parsed.set_weekday p wd)
           | W_ampm v => setq (Model.Parsed.set_ampm p v)
           end.
Fixpoint run_writes (ws : list write) (p : Model.Parsed.parsed) : PR Model.Parsed.parsed :=
  match ws with
  | [] => pok p
  | w :: r => let+ p' := eff_of w p in run_writes r p'
  end.

(** what it means for item [it] to read text [t] exactly, in front of [rest], with effect [e] *)
Definition item_reads relaxed (it : Item) (t rest : bytes) (e : eff) : Prop :=
  forall p, parse_item relaxed p (t ++ rest) it = (let+ p' := e p in pok (p', rest)).

(** * small facts *)
Lemma bytes_eqb_eq a : forall b, bytes_eqb a b = true -> a = b.
Proof.
  induction a as [|x a IH]; intros [|y b] H; cbn [bytes_eqb] in H; try discriminate; [reflexivity|].
  apply andb_prop in H. destruct H as [Hx Hr]. f_equal; [lia|exact (IH b Hr)].
Qed.

Definition ws_byte (c : Z) : bool := (0 <=? c) && (c <=? 127) && is_whitespace c.
Fixpoint split_ws (t : bytes) : bytes * bytes :=
  match t with
  | c :: r => if ws_byte c then let '(a, b) := split_ws r in (c :: a, b) else ([], t)
  | [] => ([], [])
  end.
Lemma split_ws_spec t : t = fst (split_ws t) ++ snd (split_ws t) /\ ascii_ws (fst (split_ws t)).
Proof.
  induction t as [|c r IH]; [cbn; split; [reflexivity|constructor]|].
  cbn [split_ws]. destruct (ws_byte c) eqn:E.
  - destruct (split_ws r) as [a b]. cbn [fst snd] in *. destruct IH as [H1 H2]. split.
    + cbn [app]. f_equal. exact H1.
    + constructor; [|exact H2]. unfold ws_byte in E. apply andb_prop in E. destruct E as [E1 E2]. split; [lia|exact E2].
  - cbn [fst snd app]. split; [reflexivity|constructor].
Qed.
Lemma forallb_ws_byte t : forallb ws_byte t = true -> ascii_ws t.
Proof.
  induction t as [|c r IH]; intros H; constructor; cbn [forallb] in H; apply andb_prop in H; destruct H as [Hc Hr].
  - unfold ws_byte in Hc. apply andb_prop in Hc. destruct Hc as [E1 E2]. split; [lia|exact E2].
  - exact (IH Hr).
Qed.
Definition starts_ws (s : bytes) : bool :=
  match next_code_point s with Some (c, _) => is_whitespace c | None => false end.
Lemma starts_ws_false s : starts_ws s = false -> first_cp_fails is_whitespace s.
Proof. unfold starts_ws, first_cp_fails. destruct (next_code_point s) as [[c r]|]; auto. Qed.

Lemma pbind_assoc {X Y Z0} (x : PR X) (f : X -> PR Y) (g : Y -> PR Z0) :
  pbind (pbind x f) g = pbind x (fun a => pbind (f a) g).
Proof. destruct x as [[a|e]| |]; reflexivity. Qed.

Lemma digit_run_app ds rest : forallb is_ascii_digit ds = true -> not_digit_start rest = true ->
  digit_run (ds ++ rest) = (ds, rest).
Proof.
  intros Hd Hr. induction ds as [|c r IH]; cbn [app].
  - destruct rest as [|x rest]; [reflexivity|]. cbn [digit_run not_digit_start] in *.
    destruct (is_ascii_digit x); [discriminate|reflexivity].
  - cbn [forallb] in Hd. apply andb_prop in Hd. destruct Hd as [Hc Hd].
    cbn [digit_run]. rewrite Hc, (IH Hd). reflexivity.
Qed.

Lemma assoc_bytes_in k t v : assoc_bytes k t = Some v -> In v (map snd t).
Proof.
  induction t as [|[k' v'] r IH]; cbn [assoc_bytes map snd]; [discriminate|].
  destruct (bytes_eqb k k'); [intros [= <-]; left; reflexivity|intros H; right; exact (IH H)].
Qed.

(** * Numeric items without a sign, for signed and unsigned fields alike *)
Theorem parse_numeric_nosign p spec width (signed : bool) code pad ds rest :
  numeric_entry spec = Some (width, signed, code) ->
  ascii_ws pad ->
  forallb is_ascii_digit ds = true -> 1 <= blen ds <= width ->
  (blen ds < width -> not_digit_start rest = true) ->
  utf8_valid rest = true -> digits_value ds 0 <= i64_max ->
  parse_numeric p (pad ++ ds ++ rest) spec =
  (let+ p' := set_by_code code p (digits_value ds 0) in pok (p', rest)).
Proof.
  intros He Hpad Hd Hlen Hfollow Hv Hval. unfold parse_numeric. unfold numeric_entry in He. rewrite He.
  destruct ds as [|c r]; [rewrite blen_nil in Hlen; lia|].
  assert (Hc : is_ascii_digit c = true) by (cbn [forallb] in Hd; apply andb_prop in Hd; exact (proj1 Hd)).
  assert (Htrim : trim_start (pad ++ (c :: r) ++ rest) = (c :: r) ++ rest).
  { unfold trim_start. apply trim_prefix; [exact Hpad|]. cbn [app]. apply first_cp_digit_not_ws. exact Hc. }
  rewrite Htrim. change PN_MIN_DIGITS with 1.
  pose proof (digit_range c Hc) as Hcr.
  assert (H45 : starts_with_byte ((c :: r) ++ rest) 45 = false) by (cbn [app starts_with_byte]; lia).
  assert (H43 : starts_with_byte ((c :: r) ++ rest) 43 = false) by (cbn [app starts_with_byte]; lia).
  rewrite H45, H43.
  assert (Hn : number ((c :: r) ++ rest) 1 width = Val (POk (rest, digits_value (c :: r) 0))).
  { apply number_on_digits; try assumption; lia. }
  destruct signed; rewrite Hn; reflexivity.
Qed.

(** * timezone_offset with colon_or_space on the two printed forms +hhmm / +hh:mm *)
Lemma colon_or_space_digit (sep : bytes) m r :
  (sep = [] \/ sep = [58]) -> is_ascii_digit m = true ->
  colon_or_space (sep ++ m :: r) = pok (m :: r).
Proof.
  intros Hs Hm. unfold colon_or_space. f_equal. f_equal.
  apply trim_prefix.
  - destruct Hs as [-> | ->]; [constructor|]. constructor; [|constructor]. split; [lia|reflexivity].
  - pose proof (digit_range m Hm). unfold first_cp_fails. rewrite next_code_point_ascii by lia.
    unfold is_whitespace. lia.
Qed.

Definition off_value (neg : bool) (h1 h2 m1 m2 : Z) : Z :=
  let s := ((h1 - 48) * 10 + (h2 - 48)) * 3600 + ((m1 - 48) * 10 + (m2 - 48)) * 60 in
  if neg then - s else s.

Lemma timezone_offset_printed sg h1 h2 sep m1 m2 rest az am ams :
  (sg = 43 \/ sg = 45) -> (sep = [] \/ sep = [58]) ->
  is_ascii_digit h1 = true -> is_ascii_digit h2 = true ->
  48 <= m1 <= 53 -> is_ascii_digit m2 = true -> utf8_valid rest = true ->
  timezone_offset (sg :: h1 :: h2 :: sep ++ m1 :: m2 :: rest) colon_or_space az am ams =
  pok (rest, off_value (sg =? 45) h1 h2 m1 m2).
Proof.
  intros Hsg Hsep H1 H2 Hm1 Hm2 Hv. rewrite timezone_offset_unfold.
  pose proof (digit_range h1 H1). pose proof (digit_range h2 H2). pose proof (digit_range m2 Hm2).
  assert (Hm1d : is_ascii_digit m1 = true) by (unfold is_ascii_digit; lia).
  replace ((sg =? 90) || (sg =? 122)) with false by lia. rewrite andb_false_r.
  rewrite next_code_point_ascii by lia.
  assert (Hs_rest : starts_ok rest = true) by (apply utf8_valid_starts_ok; exact Hv).
  assert (Hs1 : starts_ok (h1 :: h2 :: sep ++ m1 :: m2 :: rest) = true) by (cbn [starts_ok]; apply boundary_byte; lia).
  assert (Hs2 : starts_ok (sep ++ m1 :: m2 :: rest) = true).
  { destruct Hsep as [-> | ->]; cbn [app starts_ok]; apply boundary_byte; lia. }
  change (len_utf8 43) with 1. change (len_utf8 45) with 1.
  rewrite str_from_1 by exact Hs1. cbn [bind].
  assert (Hgo : forall neg : bool, tz_tail neg (h1 :: h2 :: sep ++ m1 :: m2 :: rest) colon_or_space am =
                 pok (rest, off_value neg h1 h2 m1 m2)).
  2:{ destruct Hsg as [-> | ->].
      - change (43 =? 43) with true. cbv iota. cbn [pbind bind pok]. apply Hgo.
      - change (45 =? 43) with false. change (45 =? 45) with true. cbv iota. cbn [pbind bind pok]. apply Hgo. }
  intros neg.
  unfold tz_tail. cbn [tz_digits]. rewrite H1, H2. cbn [andb].
  rewrite two_digit_value_ok by assumption. cbn [plift bind pbind].
  rewrite str_from_2 by exact Hs2. cbn [bind].
  rewrite colon_or_space_digit by assumption. cbn [pbind bind pok].
  cbn [tz_digits].
  change TZ_MIN_TENS_LO with 48. change TZ_MIN_TENS_HI with 53.
  replace ((48 <=? m1) && (m1 <=? 53) && is_ascii_digit m2) with true by (rewrite Hm2; lia).
  rewrite two_digit_value_ok by assumption. cbn [plift bind pbind].
  rewrite !blen_cons. pose proof (blen_nonneg rest). replace (1 + (1 + blen rest) >=? 2) with true by lia.
  rewrite str_from_2 by exact Hs_rest. cbn [plift bind pbind].
  change TZ_SECS_PER_HOUR with 3600. change TZ_SECS_PER_MINUTE with 60.
  unfold mul_i32, add_i32, neg_i32.
  rewrite chk_in by (unfold in_i32, in_range, i32_min, i32_max; lia). cbn [bind].
  rewrite chk_in by (unfold in_i32, in_range, i32_min, i32_max; lia). cbn [bind].
  rewrite chk_in by (unfold in_i32, in_range, i32_min, i32_max; lia). cbn [bind].
  unfold off_value. destruct neg; [|reflexivity].
  rewrite chk_in by (unfold in_i32, in_range, i32_min, i32_max; lia). reflexivity.
Qed.

(** * The recogniser *)
Definition all_dig (ds : bytes) : bool := forallb is_ascii_digit ds.

Definition reads_nosign (width code : Z) (ds rest : bytes) : option write :=
  if all_dig ds && (1 <=? blen ds) && (blen ds <=? width)
     && ((blen ds =? width) || not_digit_start rest)
     && utf8_valid rest && (digits_value ds 0 <=? i64_max)
  then Some (W_code code (digits_value ds 0)) else None.
Definition reads_sign (code : Z) (neg : bool) (ds rest : bytes) : option write :=
  if all_dig ds && (1 <=? blen ds) && (blen ds <=? u64_max) && not_digit_start rest
     && utf8_valid rest && (digits_value ds 0 <=? i64_max)
  then Some (W_code code (if neg then - digits_value ds 0 else digits_value ds 0)) else None.
Definition reads_numeric (spec : Numeric) (t rest : bytes) : option write :=
  let '(pad, body) := split_ws t in
  match numeric_entry spec with
  | Some (width, signed, code) =>
      match body with
      | c :: ds =>
          if c =? 45 then (if (signed : bool) then reads_sign code true ds rest else None)
          else if c =? 43 then (if signed then reads_sign code false ds rest else None)
          else reads_nosign width code body rest
      | [] => None
      end
  | None => None
  end.

Definition key_of (l : bytes) (bit : Z) : bytes := map (fun c => Z.lor c bit) l.

Definition reads_name (arms : list (bytes * Z)) (bit : Z) (suffixes : option (list bytes))
    (mk : Z -> write) (t rest : bytes) : option write :=
  match t with
  | a :: b :: c :: sfx =>
      match assoc_bytes (key_of [a; b; c] bit) arms with
      | Some v =>
          if starts_ok rest then
            match suffixes with
            | None => match sfx with [] => Some (mk v) | _ => None end
            | Some l =>
                match index l (as_usize v) with
                | Val suffix =>
                    if (blen sfx =? blen suffix) && eq_ignore_ascii_case sfx suffix && starts_ok (sfx ++ rest)
                    then Some (mk v) else None
                | _ => None
                end
            end
          else None
      | None => None
      end
  | _ => None
  end.

Definition reads_offset (flags : bool * bool * bool) (t rest : bytes) : option write :=
  let go sg h1 h2 m1 m2 :=
    if ((sg =? 43) || (sg =? 45)) && is_ascii_digit h1 && is_ascii_digit h2
       && (48 <=? m1) && (m1 <=? 53) && is_ascii_digit m2 && utf8_valid rest
    then Some (W_code 21 (off_value (sg =? 45) h1 h2 m1 m2)) else None in
  match t with
  | [sg; h1; h2; m1; m2] => go sg h1 h2 m1 m2
  | [sg; h1; h2; c; m1; m2] => if c =? 58 then go sg h1 h2 m1 m2 else None
  | _ => None
  end.

Definition nano_value (ds : bytes) : Z := digits_value (firstn 9 ds) 0 * 10 ^ (9 - blen (firstn 9 ds)).

Definition reads_fixed (spec : Fixed) (t rest : bytes) : option write :=
  match spec with
  | F_ShortMonthName => reads_name SHORT_MONTH_ARMS SHORT_MONTH_BIT None (fun m0 => W_code 7 (m0 + 1)) t rest
  | F_LongMonthName => reads_name SHORT_MONTH_ARMS SHORT_MONTH_BIT (Some LONG_MONTH_SUFFIXES) (fun m0 => W_code 7 (m0 + 1)) t rest
  | F_ShortWeekdayName => reads_name SHORT_WEEKDAY_ARMS SHORT_WEEKDAY_BIT None W_weekday t rest
  | F_LongWeekdayName => reads_name SHORT_WEEKDAY_ARMS SHORT_WEEKDAY_BIT (Some LONG_WEEKDAY_SUFFIXES) W_weekday t rest
  | F_LowerAmPm | F_UpperAmPm =>
      match t with
      | [a; b] =>
          match assoc_bytes (key_of [a; b] P_AMPM_BIT) P_AMPM_ARMS with
          | Some v => if starts_ok rest then Some (W_ampm v) else None
          | None => None
          end
      | _ => None
      end
  | F_Nanosecond | F_Nanosecond3 | F_Nanosecond6 | F_Nanosecond9 =>
      match t with
      | [] => if starts_with_byte rest 46 then None else Some W_none
      | c :: ds =>
          if (c =? 46) && all_dig ds && (1 <=? blen ds) && not_digit_start rest && utf8_valid rest
          then Some (W_code 19 (nano_value ds)) else None
      end
  | F_Internal I_Nanosecond3NoDot | F_Internal I_Nanosecond6NoDot | F_Internal I_Nanosecond9NoDot =>
      match zassoc (fixed_idx spec) P_NODOT with
      | Some (minlen, d) =>
          if (blen t =? d) && (minlen <=? d) && (1 <=? d) && (d <=? 9) && all_dig t && utf8_valid rest then
            match index SCALE_FIXED d with
            | Val sc => Some (W_code 19 (digits_value t 0 * sc))
            | _ => None
            end
          else None
      | None => None
      end
  | F_TimezoneOffsetColon | F_TimezoneOffsetDoubleColon | F_TimezoneOffsetTripleColon
  | F_TimezoneOffset | F_TimezoneOffsetColonZ | F_TimezoneOffsetZ
  | F_Internal I_TimezoneOffsetPermissive =>
      match zassoc (fixed_idx spec) P_TZ_FLAGS with
      | Some flags => reads_offset flags t rest
      | None => None
      end
  | F_TimezoneName | F_RFC2822 | F_RFC3339 => None
  end.

Definition reads_b (it : Item) (t rest : bytes) : option write :=
  match it with
  | Literal l => if bytes_eqb t l && starts_ok rest then Some W_none else None
  | Space _ => if forallb ws_byte t && negb (starts_ws rest) then Some W_none else None
  | INumeric spec _ => reads_numeric spec t rest
  | IFixed spec => reads_fixed spec t rest
  | IError => None
  end.

(** * Soundness, item by item *)
Lemma reads_numeric_sound spec t rest w : reads_numeric spec t rest = Some w ->
  forall p, parse_numeric p (t ++ rest) spec = (let+ p' := eff_of w p in pok (p', rest)).
Proof.
  unfold reads_numeric. destruct (split_ws_spec t) as [Ht Hpad]. destruct (split_ws t) as [pad body].
  cbn [fst snd] in *. destruct (numeric_entry spec) as [[[width signed] code]|] eqn:He; [|discriminate].
  destruct body as [|c ds]; [discriminate|]. intros H p. subst t. rewrite <- app_assoc.
  destruct (c =? 45) eqn:E45; [|destruct (c =? 43) eqn:E43].
  - destruct signed; [|discriminate]. unfold reads_sign in H.
    destruct (all_dig ds && (1 <=? blen ds) && (blen ds <=? u64_max) && not_digit_start rest
              && utf8_valid rest && (digits_value ds 0 <=? i64_max)) eqn:Ec; [|discriminate].
    injection H as <-. assert (c = 45) by lia. subst c.
    do 5 (apply andb_prop in Ec; destruct Ec as [Ec ?]). cbn [app].
    unfold u64_max, i64_max in *.
    exact (parse_numeric_signed p spec width code pad true ds rest He Hpad Ec ltac:(unfold u64_max; lia) H1 H0 ltac:(unfold i64_max; lia)).
  - destruct signed; [|discriminate]. unfold reads_sign in H.
    destruct (all_dig ds && (1 <=? blen ds) && (blen ds <=? u64_max) && not_digit_start rest
              && utf8_valid rest && (digits_value ds 0 <=? i64_max)) eqn:Ec; [|discriminate].
    injection H as <-. assert (c = 43) by lia. subst c.
    do 5 (apply andb_prop in Ec; destruct Ec as [Ec ?]). cbn [app].
    unfold u64_max, i64_max in *.
    exact (parse_numeric_signed p spec width code pad false ds rest He Hpad Ec ltac:(unfold u64_max; lia) H1 H0 ltac:(unfold i64_max; lia)).
  - unfold reads_nosign in H.
    destruct (all_dig (c :: ds) && (1 <=? blen (c :: ds)) && (blen (c :: ds) <=? width)
              && ((blen (c :: ds) =? width) || not_digit_start rest)
              && utf8_valid rest && (digits_value (c :: ds) 0 <=? i64_max)) eqn:Ec; [|discriminate].
    injection H as <-.
    do 5 (apply andb_prop in Ec; destruct Ec as [Ec ?]).
    unfold i64_max in *.
    apply (parse_numeric_nosign p spec width signed code pad (c :: ds) rest He Hpad Ec); try (unfold i64_max; lia); try assumption.
    intros Hlt. destruct (blen (c :: ds) =? width) eqn:Ew; [lia|]. cbn [orb] in H1. exact H1.
Qed.

Lemma key3_ok a b c rest bit : key3 (a :: b :: c :: rest) bit = Val (key_of [a; b; c] bit).
Proof. reflexivity. Qed.

Lemma consume_suffix_exact sfx suffix rest :
  blen sfx = blen suffix -> eq_ignore_ascii_case sfx suffix = true -> starts_ok rest = true ->
  consume_suffix (sfx ++ rest) suffix = Val rest.
Proof.
  intros Hl He Hs. unfold consume_suffix. rewrite blen_app. pose proof (blen_nonneg rest).
  replace (blen sfx + blen rest >=? blen suffix) with true by lia.
  unfold slice_to. rewrite blen_app. pose proof (blen_nonneg suffix).
  replace ((0 <=? blen suffix) && (blen suffix <=? blen sfx + blen rest)) with true by lia.
  cbn [bind]. rewrite <- Hl. unfold blen at 1. rewrite Nat2Z.id.
  rewrite firstn_app, Nat.sub_diag, firstn_O, app_nil_r, firstn_all. rewrite He.
  apply str_from_app. exact Hs.
Qed.

Lemma reads_name_short_sound arms bit mk t rest w scanner :
  (forall s, scanner s =
     if blen s <? 3 then perr_ TooShort else
     let* key := key3 s bit in
     match assoc_bytes key arms with
     | None => perr_ Invalid
     | Some v => let* r := str_from s 3 in pok (r, v)
     end) ->
  reads_name arms bit None mk t rest = Some w ->
  exists v, w = mk v /\ assoc_bytes (key_of (firstn 3 t) bit) arms = Some v /\ scanner (t ++ rest) = pok (rest, v).
Proof.
  intros Hsc H. unfold reads_name in H. destruct t as [|a [|b [|c sfx]]]; try discriminate.
  destruct (assoc_bytes (key_of [a; b; c] bit) arms) as [v|] eqn:Ea; [|discriminate].
  destruct (starts_ok rest) eqn:Es; [|discriminate]. destruct sfx; [|discriminate]. injection H as <-.
  exists v. split; [reflexivity|]. split; [exact Ea|].
  rewrite Hsc. cbn [app]. rewrite !blen_cons. pose proof (blen_nonneg rest).
  replace (1 + (1 + (1 + blen rest)) <? 3) with false by lia.
  rewrite key3_ok. cbn [bind]. rewrite Ea. rewrite str_from_3 by exact Es. reflexivity.
Qed.

Lemma short_month0_unfold s : short_month0 s =
  if blen s <? 3 then perr_ TooShort else
  let* key := key3 s SHORT_MONTH_BIT in
  match assoc_bytes key SHORT_MONTH_ARMS with
  | None => perr_ Invalid
  | Some v => let* r := str_from s 3 in pok (r, v)
  end.
Proof. reflexivity. Qed.
Lemma short_weekday_unfold s : short_weekday s =
  if blen s <? 3 then perr_ TooShort else
  let* key := key3 s SHORT_WEEKDAY_BIT in
  match assoc_bytes key SHORT_WEEKDAY_ARMS with
  | None => perr_ Invalid
  | Some v => let* r := str_from s 3 in pok (r, v)
  end.
Proof. reflexivity. Qed.

Lemma reads_name_long_sound arms bit suffixes mk t rest w scanner :
  (forall s, scanner s =
     if blen s <? 3 then perr_ TooShort else
     let* key := key3 s bit in
     match assoc_bytes key arms with
     | None => perr_ Invalid
     | Some v => let* r := str_from s 3 in pok (r, v)
     end) ->
  reads_name arms bit (Some suffixes) mk t rest = Some w ->
  exists v, w = mk v /\ In v (map snd arms) /\
    (let+ '(s1, x) := scanner (t ++ rest) in
     let* suffix := index suffixes (as_usize x) in
     let* s2 := consume_suffix s1 suffix in
     pok (s2, x)) = pok (rest, v).
Proof.
  intros Hsc H. unfold reads_name in H. destruct t as [|a [|b [|c sfx]]]; try discriminate.
  destruct (assoc_bytes (key_of [a; b; c] bit) arms) as [v|] eqn:Ea; [|discriminate].
  destruct (starts_ok rest) eqn:Es; [|discriminate].
  destruct (index suffixes (as_usize v)) as [suffix| |] eqn:Ei; try discriminate.
  destruct ((blen sfx =? blen suffix) && eq_ignore_ascii_case sfx suffix && starts_ok (sfx ++ rest)) eqn:Ec; [|discriminate].
  injection H as <-. apply andb_prop in Ec. destruct Ec as [Ec Hss]. apply andb_prop in Ec. destruct Ec as [El Ee].
  exists v. split; [reflexivity|]. split; [exact (assoc_bytes_in _ _ _ Ea)|].
  rewrite Hsc. cbn [app]. rewrite !blen_cons. pose proof (blen_nonneg (sfx ++ rest)).
  replace (1 + (1 + (1 + blen (sfx ++ rest))) <? 3) with false by lia.
  rewrite key3_ok. cbn [bind]. rewrite Ea.
  rewrite str_from_3 by exact Hss. cbn [bind pbind pok]. rewrite Ei. cbn [bind].
  rewrite consume_suffix_exact; try assumption; [reflexivity|lia].
Qed.

Lemma month_val_range v : In v (map snd SHORT_MONTH_ARMS) -> 0 <= v <= 11.
Proof. cbn. intros H. repeat (destruct H as [H|H]; [lia|]). contradiction. Qed.

Lemma eff_code_month p m : eff_of (W_code 7 m) p = setq (Model.Parsed.set_month p m).
Proof. reflexivity. Qed.
Lemma eff_code_nano p v : eff_of (W_code 19 v) p = setq (Model.Parsed.set_nanosecond p v).
Proof. reflexivity. Qed.
Lemma eff_code_offset p v : eff_of (W_code 21 v) p = setq (Model.Parsed.set_offset p v).
Proof. reflexivity. Qed.

Lemma add_i64_small a b : -1000000 <= a <= 1000000 -> -1000000 <= b <= 1000000 -> add_i64 a b = Val (a + b).
Proof. intros Ha Hb. unfold add_i64. apply chk_in. unfold in_i64, in_range, i64_min, i64_max. lia. Qed.

Lemma reads_dot_nano_sound t rest w :
  match t with
  | [] => if starts_with_byte rest 46 then None else Some W_none
  | c :: ds =>
      if (c =? 46) && all_dig ds && (1 <=? blen ds) && not_digit_start rest && utf8_valid rest
      then Some (W_code 19 (nano_value ds)) else None
  end = Some w ->
  forall p, parse_dot_nanosecond p (t ++ rest) = (let+ p' := eff_of w p in pok (p', rest)).
Proof.
  intros H p. unfold parse_dot_nanosecond. destruct t as [|c ds].
  - cbn [app]. destruct (starts_with_byte rest 46); [discriminate|]. injection H as <-. reflexivity.
  - destruct ((c =? 46) && all_dig ds && (1 <=? blen ds) && not_digit_start rest && utf8_valid rest) eqn:Ec; [|discriminate].
    injection H as <-. do 4 (apply andb_prop in Ec; destruct Ec as [Ec ?]).
    assert (c = 46) by lia. subst c. cbn [app starts_with_byte]. change (46 =? 46) with true. cbv iota.
    pose proof (digits_utf8 ds rest H2 H) as Hv.
    rewrite str_from_1 by (apply utf8_valid_starts_ok; exact Hv). cbn [bind].
    rewrite nanosecond_ok by exact Hv. unfold nanosecond_pure. rewrite digit_run_app by assumption.
    destruct ds as [|d0 ds0]; [rewrite blen_nil in H1; lia|].
    cbn [pbind bind]. rewrite eff_code_nano. reflexivity.
Qed.

Lemma scale_fixed_index d sc : 1 <= d <= 9 -> index SCALE_FIXED d = Val sc -> sc = 10 ^ (9 - d).
Proof.
  intros H. assert (d = 1 \/ d = 2 \/ d = 3 \/ d = 4 \/ d = 5 \/ d = 6 \/ d = 7 \/ d = 8 \/ d = 9) as Hd by lia.
  destruct Hd as [->|[->|[->|[->|[->|[->|[->|[->| ->]]]]]]]]; intros [= <-]; reflexivity.
Qed.

Lemma reads_nodot_sound idx t rest w :
  match zassoc idx P_NODOT with
  | Some (minlen, d) =>
      if (blen t =? d) && (minlen <=? d) && (1 <=? d) && (d <=? 9) && all_dig t && utf8_valid rest then
        match index SCALE_FIXED d with
        | Val sc => Some (W_code 19 (digits_value t 0 * sc))
        | _ => None
        end
      else None
  | None => None
  end = Some w ->
  forall p, parse_nodot p (t ++ rest) idx = (let+ p' := eff_of w p in pok (p', rest)).
Proof.
  intros H p. unfold parse_nodot. destruct (zassoc idx P_NODOT) as [[minlen d]|]; [|discriminate].
  destruct ((blen t =? d) && (minlen <=? d) && (1 <=? d) && (d <=? 9) && all_dig t && utf8_valid rest) eqn:Ec; [|discriminate].
  do 5 (apply andb_prop in Ec; destruct Ec as [Ec ?]).
  destruct (index SCALE_FIXED d) as [sc| |] eqn:Ei; try discriminate. injection H as <-.
  rewrite blen_app. pose proof (blen_nonneg rest). replace (blen t + blen rest <? minlen) with false by lia.
  unfold nanosecond_fixed.
  pose proof (digits_value_bound t 0 H1 ltac:(lia)) as Hb.
  assert (Hpow : 10 ^ blen t <= 10 ^ 9) by (apply Z.pow_le_mono_r; lia).
  change (10 ^ 9) with 1000000000 in Hpow.
  rewrite number_on_digits; try assumption; try lia.
  2:{ unfold i64_max. lia. }
  cbn [pbind bind]. rewrite Ei. cbn [bind].
  pose proof (scale_fixed_index d sc ltac:(lia) Ei) as Hsc.
  assert (Hsc' : 1 <= sc <= 100000000).
  { subst sc. split.
    - assert (0 < 10 ^ (9 - d)) by (apply Z.pow_pos_nonneg; lia). lia.
    - change 100000000 with (10 ^ 8). apply Z.pow_le_mono_r; lia. }
  pose proof (digits_value_mono t 0 H1 ltac:(lia)) as Hm.
  unfold checked_mul. rewrite chko_in.
  2:{ unfold in_i64, in_range, i64_min, i64_max.
      assert (digits_value t 0 * sc <= 1000000000 * 100000000) by (apply Z.mul_le_mono_nonneg; lia).
      assert (0 <= digits_value t 0 * sc) by (apply Z.mul_nonneg_nonneg; lia). lia. }
  rewrite eff_code_nano. reflexivity.
Qed.

Lemma reads_offset_sound flags t rest w : reads_offset flags t rest = Some w ->
  forall az am ams p,
  (let+ '(s, offset) := timezone_offset (trim_start (t ++ rest)) colon_or_space az am ams in
   let+ p := setq (Model.Parsed.set_offset p offset) in pok (p, s))
  = (let+ p' := eff_of w p in pok (p', rest)).
Proof.
  intros H az am ams p. unfold reads_offset in H.
  assert (Hgo : forall sg h1 h2 sep m1 m2,
    (sep = [] \/ sep = [58]) ->
    (if ((sg =? 43) || (sg =? 45)) && is_ascii_digit h1 && is_ascii_digit h2
        && (48 <=? m1) && (m1 <=? 53) && is_ascii_digit m2 && utf8_valid rest
     then Some (W_code 21 (off_value (sg =? 45) h1 h2 m1 m2)) else None) = Some w ->
    (let+ '(s, offset) := timezone_offset (trim_start ((sg :: h1 :: h2 :: sep ++ [m1; m2]) ++ rest)) colon_or_space az am ams in
     let+ p := setq (Model.Parsed.set_offset p offset) in pok (p, s))
    = (let+ p' := eff_of w p in pok (p', rest))).
  { intros sg h1 h2 sep m1 m2 Hsep Hc.
    destruct (((sg =? 43) || (sg =? 45)) && is_ascii_digit h1 && is_ascii_digit h2
              && (48 <=? m1) && (m1 <=? 53) && is_ascii_digit m2 && utf8_valid rest) eqn:Ec; [|discriminate].
    injection Hc as <-. do 6 (apply andb_prop in Ec; destruct Ec as [Ec ?]).
    assert (Htrim : trim_start ((sg :: h1 :: h2 :: sep ++ [m1; m2]) ++ rest) = sg :: h1 :: h2 :: sep ++ m1 :: m2 :: rest).
    { replace ((sg :: h1 :: h2 :: sep ++ [m1; m2]) ++ rest) with ([] ++ sg :: h1 :: h2 :: sep ++ m1 :: m2 :: rest).
      2:{ cbn [app]. rewrite <- app_assoc. reflexivity. }
      unfold trim_start. apply trim_prefix; [constructor|]. apply first_cp_byte_not_ws. lia. }
    rewrite Htrim. rewrite timezone_offset_printed; try assumption; try lia.
    cbn [pbind bind pok]. rewrite eff_code_offset. reflexivity. }
  destruct t as [|sg [|h1 [|h2 [|x1 [|x2 [|x3 [|x4 t']]]]]]]; try discriminate.
  - exact (Hgo sg h1 h2 [] x1 x2 (or_introl eq_refl) H).
  - destruct (x1 =? 58) eqn:E; [|discriminate]. assert (x1 = 58) by lia. subst x1.
    exact (Hgo sg h1 h2 [58] x2 x3 (or_intror eq_refl) H).
Qed.

Lemma reads_ampm_sound t rest w :
  match t with
  | [a; b] =>
      match assoc_bytes (key_of [a; b] P_AMPM_BIT) P_AMPM_ARMS with
      | Some v => if starts_ok rest then Some (W_ampm v) else None
      | None => None
      end
  | _ => None
  end = Some w ->
  forall p, parse_ampm p (t ++ rest) = (let+ p' := eff_of w p in pok (p', rest)).
Proof.
  intros H p. destruct t as [|a [|b [|c t']]]; try discriminate.
  destruct (assoc_bytes (key_of [a; b] P_AMPM_BIT) P_AMPM_ARMS) as [v|] eqn:Ea; [|discriminate].
  destruct (starts_ok rest) eqn:Es; [|discriminate]. injection H as <-.
  unfold parse_ampm. cbn [app]. rewrite !blen_cons. change P_AMPM_LEN with 2. pose proof (blen_nonneg rest).
  replace (1 + (1 + blen rest) <? 2) with false by lia.
  change (index (a :: b :: rest) 0) with (@Val Z a). change (index (a :: b :: rest) 1) with (@Val Z b). cbn [bind].
  unfold key_of in Ea. cbn [map] in Ea. rewrite Ea. cbn [eff_of].
  destruct (setq (Model.Parsed.set_ampm p v)) as [[p'|e]| |]; cbn [pbind bind]; try reflexivity.
  change P_AMPM_REST with 2. rewrite str_from_2 by exact Es. reflexivity.
Qed.

Lemma reads_tz_item_sound idx t rest w :
  match zassoc idx P_TZ_FLAGS with Some flags => reads_offset flags t rest | None => None end = Some w ->
  forall p, parse_tz_item p (t ++ rest) idx = (let+ p' := eff_of w p in pok (p', rest)).
Proof.
  intros H p. unfold parse_tz_item. destruct (zassoc idx P_TZ_FLAGS) as [[[az am] ams]|]; [|discriminate].
  apply reads_offset_sound with (flags := (az, am, ams)). exact H.
Qed.

Lemma reads_fixed_sound relaxed spec t rest w : reads_fixed spec t rest = Some w ->
  forall p, parse_fixed relaxed p (t ++ rest) spec = (let+ p' := eff_of w p in pok (p', rest)).
Proof.
  intros H p. destruct spec as [ | | | | | | | | | | | | | | | | | | | i]; cbn [reads_fixed] in H; try discriminate.
  - (* ShortMonthName *)
    destruct (reads_name_short_sound _ _ _ _ _ _ short_month0 short_month0_unfold H) as (v & -> & Ha & Hs).
    cbn [parse_fixed]. rewrite Hs. cbn [pbind bind pok].
    pose proof (month_val_range v (assoc_bytes_in _ _ _ Ha)).
    rewrite add_i64_small by lia. cbn [bind]. rewrite eff_code_month. reflexivity.
  - (* LongMonthName *)
    destruct (reads_name_long_sound _ _ _ _ _ _ _ short_month0 short_month0_unfold H) as (v & -> & Ha & Hs).
    cbn [parse_fixed]. assert (Hsl : short_or_long_month0 (t ++ rest) = pok (rest, v)) by exact Hs.
    rewrite Hsl. cbn [pbind bind pok].
    pose proof (month_val_range v Ha).
    rewrite add_i64_small by lia. cbn [bind]. rewrite eff_code_month. reflexivity.
  - (* ShortWeekdayName *)
    destruct (reads_name_short_sound _ _ _ _ _ _ short_weekday short_weekday_unfold H) as (v & -> & Ha & Hs).
    cbn [parse_fixed]. rewrite Hs. reflexivity.
  - (* LongWeekdayName *)
    destruct (reads_name_long_sound _ _ _ _ _ _ _ short_weekday short_weekday_unfold H) as (v & -> & Ha & Hs).
    cbn [parse_fixed]. assert (Hsl : short_or_long_weekday (t ++ rest) = pok (rest, v)) by exact Hs.
    rewrite Hsl. reflexivity.
  - (* LowerAmPm *)
    cbn [parse_fixed]. apply reads_ampm_sound. exact H.
  - cbn [parse_fixed]. apply reads_ampm_sound. exact H.
  - cbn [parse_fixed]. apply reads_dot_nano_sound. exact H.
  - cbn [parse_fixed]. apply reads_dot_nano_sound. exact H.
  - cbn [parse_fixed]. apply reads_dot_nano_sound. exact H.
  - cbn [parse_fixed]. apply reads_dot_nano_sound. exact H.
  - (* TimezoneOffsetColon *) cbn [parse_fixed]. apply reads_tz_item_sound. exact H.
  - cbn [parse_fixed]. apply reads_tz_item_sound. exact H.
  - cbn [parse_fixed]. apply reads_tz_item_sound. exact H.
  - cbn [parse_fixed]. apply reads_tz_item_sound. exact H.
  - cbn [parse_fixed]. apply reads_tz_item_sound. exact H.
  - cbn [parse_fixed]. apply reads_tz_item_sound. exact H.
  - destruct i; cbn [parse_fixed].
    + apply reads_tz_item_sound. exact H.
    + apply reads_nodot_sound. exact H.
    + apply reads_nodot_sound. exact H.
    + apply reads_nodot_sound. exact H.
Qed.

(** * Soundness of [reads_b] for every item *)
Theorem reads_b_sound relaxed it t rest w : reads_b it t rest = Some w ->
  item_reads relaxed it t rest (eff_of w).
Proof.
  intros H p. destruct it as [l|fw|spec pad|spec|]; cbn [reads_b] in H.
  - destruct (bytes_eqb t l && starts_ok rest) eqn:Ec; [|discriminate]. injection H as <-.
    apply andb_prop in Ec. destruct Ec as [El Es]. apply bytes_eqb_eq in El. subst l.
    rewrite parse_literal_inverse by exact Es. reflexivity.
  - destruct (forallb ws_byte t && negb (starts_ws rest)) eqn:Ec; [|discriminate]. injection H as <-.
    apply andb_prop in Ec. destruct Ec as [Ew Er].
    rewrite parse_space_inverse; [reflexivity|apply forallb_ws_byte; exact Ew|].
    apply starts_ws_false. destruct (starts_ws rest); [discriminate|reflexivity].
  - cbn [parse_item]. apply reads_numeric_sound. exact H.
  - cbn [parse_item]. apply reads_fixed_sound. exact H.
  - discriminate.
Qed.

(** * Composition over an item list *)
Fixpoint text_of (l : list (Item * bytes)) : bytes :=
  match l with [] => [] | (_, t) :: r => t ++ text_of r end.
Fixpoint unambiguous_b (l : list (Item * bytes)) (tail : bytes) : option (list write) :=
  match l with
  | [] => Some []
  | (it, t) :: r =>
      match reads_b it t (text_of r ++ tail), unambiguous_b r tail with
      | Some w, Some ws => Some (w :: ws)
      | _, _ => None
      end
  end.

Theorem unambiguous_sound relaxed : forall l tail ws, unambiguous_b l tail = Some ws ->
  forall p, parse_items relaxed p (text_of l ++ tail) (map fst l) =
            (let+ p' := run_writes ws p in pok (p', tail)).
Proof.
  induction l as [|[it t] r IH]; intros tail ws H p.
  - injection H as <-. reflexivity.
  - cbn [unambiguous_b] in H.
    destruct (reads_b it t (text_of r ++ tail)) as [w|] eqn:Ew; [|discriminate].
    destruct (unambiguous_b r tail) as [ws'|] eqn:Er; [|discriminate]. injection H as <-.
    cbn [map fst text_of parse_items run_writes]. rewrite <- app_assoc.
    rewrite (reads_b_sound relaxed it t _ w Ew p).
    rewrite !pbind_assoc. destruct (eff_of w p) as [[p'|e]| |]; cbn [pbind bind]; try reflexivity.
    apply (IH tail ws' Er).
Qed.

(** the whole-input entry: [parse] succeeds exactly with the field record the writes build *)
Corollary unambiguous_parse l ws p : unambiguous_b l [] = Some ws ->
  parse p (text_of l) (map fst l) = run_writes ws p.
Proof.
  intros H. unfold parse, parse_internal, parse_end.
  pose proof (unambiguous_sound parse_rfc3339_relaxed l [] ws H p) as Hs. rewrite app_nil_r in Hs.
  rewrite Hs. rewrite pbind_assoc. destruct (run_writes ws p) as [[p'|e]| |]; reflexivity.
Qed.
Corollary unambiguous_parse_and_remainder l tail ws p : unambiguous_b l tail = Some ws ->
  parse_and_remainder p (text_of l ++ tail) (map fst l) = (let+ p' := run_writes ws p in pok (p', tail)).
Proof. intros H. exact (unambiguous_sound parse_rfc3339_relaxed l tail ws H p). Qed.

(** [reads_b] only accepts when the reader does not trap on that text *)
Corollary unambiguous_never_panics l tail ws p : unambiguous_b l tail = Some ws ->
  run_writes ws p <> Panic -> run_writes ws p <> OutOfFuel ->
  parse_and_remainder p (text_of l ++ tail) (map fst l) <> Panic /\
  parse_and_remainder p (text_of l ++ tail) (map fst l) <> OutOfFuel.
Proof.
  intros H H1 H2. rewrite (unambiguous_parse_and_remainder l tail ws p H).
  destruct (run_writes ws p) as [[p'|e]| |]; cbn [pbind bind pok]; split; try discriminate; contradiction.
Qed.

(** * White space in the format takes the padding of what follows with it
    A [Space] item trims every white-space character, including the space padding of a following
    number ("%e", "%_m", "%k" ...).  [absorb] moves that padding into the text attributed to the
    [Space] item; the concatenated text and the item list are unchanged. *)
Fixpoint absorb (l : list (Item * bytes)) : list (Item * bytes) :=
  match l with
  | [] => []
  | (it, t) :: r =>
      match it, absorb r with
      | Space w, (it2, t2) :: r' => let '(ws, body) := split_ws t2 in (Space w, t ++ ws) :: (it2, body) :: r'
      | _, r0 => (it, t) :: r0
      end
  end.
Lemma text_of_absorb : forall l, text_of (absorb l) = text_of l.
Proof.
  induction l as [|[it t] r IH]; [reflexivity|]. cbn [absorb].
  destruct it; try (cbn [text_of]; rewrite IH; reflexivity).
  destruct (absorb r) as [|[it2 t2] r'] eqn:Ea; [cbn [text_of] in *; rewrite <- IH; reflexivity|].
  destruct (split_ws_spec t2) as [Ht _]. destruct (split_ws t2) as [ws body]. cbn [fst snd] in Ht.
  cbn [text_of] in *. rewrite <- IH, Ht, <- !app_assoc. reflexivity.
Qed.
Lemma map_fst_absorb : forall l, map fst (absorb l) = map fst l.
Proof.
  induction l as [|[it t] r IH]; [reflexivity|]. cbn [absorb].
  destruct it; try (cbn [map fst]; rewrite IH; reflexivity).
  destruct (absorb r) as [|[it2 t2] r'] eqn:Ea; [cbn [map fst] in *; rewrite <- IH; reflexivity|].
  destruct (split_ws t2) as [ws body]. cbn [map fst] in *. rewrite <- IH. reflexivity.
Qed.

Definition unambiguous_ws_b (l : list (Item * bytes)) (tail : bytes) : option (list write) :=
  unambiguous_b (absorb l) tail.
Theorem unambiguous_ws_sound relaxed l tail ws : unambiguous_ws_b l tail = Some ws ->
  forall p, parse_items relaxed p (text_of l ++ tail) (map fst l) =
            (let+ p' := run_writes ws p in pok (p', tail)).
Proof.
  intros H p. rewrite <- text_of_absorb, <- map_fst_absorb. exact (unambiguous_sound relaxed (absorb l) tail ws H p).
Qed.
Corollary unambiguous_ws_parse l ws p : unambiguous_ws_b l [] = Some ws ->
  parse p (text_of l) (map fst l) = run_writes ws p.
Proof.
  intros H. rewrite <- text_of_absorb, <- map_fst_absorb. exact (unambiguous_parse (absorb l) ws p H).
Qed.
Corollary unambiguous_ws_parse_and_remainder l tail ws p : unambiguous_ws_b l tail = Some ws ->
  parse_and_remainder p (text_of l ++ tail) (map fst l) = (let+ p' := run_writes ws p in pok (p', tail)).
Proof. intros H. exact (unambiguous_ws_sound parse_rfc3339_relaxed l tail ws H p). Qed.
