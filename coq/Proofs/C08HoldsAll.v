(** C08, top level: for EVERY op of the dispatcher and ARBITRARY argument lists, whenever the
    independent judge (Judge/C08.v) has an opinion on the model's output it accepts it.
    Assembled from the functional theorems of Proofs/C08*.v.  Structure: inversion ("codec") lemmas
    from the judge's argument decoders to the model's, one acceptance lemma per judge combinator,
    one [HOLDS] lemma per op, the theorem over all ops.  No side premise is needed: every argument
    list the judge reads is decoded by the dispatcher too. *)
From Coq Require Import ZArith List Bool Lia ZifyBool String.
From V Require Import Base.Int Base.IntLemmas Base.IO Base.Lift Gen.DateTimeConsts
  Spec.Gregorian Model.Date Model.DateExtra Proofs.C08Sweeps Proofs.C08Date Proofs.C08Days Proofs.C08AddDays
  Proofs.C08 Proofs.C08Dt Proofs.C08Ops Proofs.C08Holds Proofs.HoldsLib.
From V Require Model.Time Model.DateTime Model.C08 Judge.C08.
From V Require Import Model.TimeDelta.
Import ListNotations.
Open Scope Z_scope.
Ltac Zify.zify_post_hook ::= Z.to_euclidean_division_equations.

Module M := V.Model.C08.
Module J := V.Judge.C08.

(** * codecs: what the judge decodes, the dispatcher decodes to the represented value *)
(* the judge's reading of the date (y, o) *)
Definition jdx (y o : Z) : J.jdate := J.mk_jd y (month_of y o) (day_of y o) o (dn_of_yo y o).

Lemma jd_of_yo_inv y o x : J.jd_of_yo y o = Some x ->
  year_in_range y = true /\ valid_yo y o = true /\ x = jdx y o.
Proof.
  unfold J.jd_of_yo. destruct (year_in_range y && valid_yo y o) eqn:E; [|discriminate].
  apply andb_prop in E. destruct E as [Hy Ho].
  unfold jdx, month_of, day_of. destruct (md_of_ordinal (is_leap y) o) as [m d]. cbn [fst snd].
  intros [= <-]. repeat split; assumption.
Qed.
Lemma jd_arg_inv v x : J.jd_arg v = Some x ->
  exists y o, v = denc y o /\ year_in_range y = true /\ valid_yo y o = true /\ x = jdx y o.
Proof.
  unfold J.jd_arg. destruct v as [| | | |l| | | |]; try discriminate.
  destruct l as [|[y| | | | | | | |] l]; try discriminate.
  destruct l as [|[o| | | | | | | |] l]; try discriminate.
  destruct l; try discriminate.
  intros H. apply jd_of_yo_inv in H. destruct H as (Hy & Ho & ->). exists y, o. repeat split; assumption.
Qed.
Lemma dec_date_denc y o : year_in_range y = true -> valid_yo y o = true ->
  DateTime.dec_date (denc y o) = Some (mkdate y o) /\ repr y o (mkdate y o).
Proof. intros Hy Ho. split; [apply dec_date_enc; assumption|apply repr_mk; assumption]. Qed.

(* naive date-time arguments *)
Definition ndtenc (y o s f : Z) : val := VTup [VInt y; VInt o; VInt s; VInt f].
Definition mkndt (y o s f : Z) : DateTime.ndt := DateTime.mk_ndt (mkdate y o) (Time.mk_time s f).
Definition time_ok (s f : Z) : bool := (0 <=? s) && (s <? 86400) && (0 <=? f) && (f <? 2000000000).

Lemma jndt_arg_inv v x s f : J.jndt_arg v = Some (x, s, f) ->
  exists y o, v = ndtenc y o s f /\ year_in_range y = true /\ valid_yo y o = true /\ time_ok s f = true /\ x = jdx y o.
Proof.
  unfold J.jndt_arg. destruct v as [| | | |l| | | |]; try discriminate.
  destruct l as [|[y| | | | | | | |] l]; try discriminate.
  destruct l as [|[o| | | | | | | |] l]; try discriminate.
  destruct l as [|[s'| | | | | | | |] l]; try discriminate.
  destruct l as [|[f'| | | | | | | |] l]; try discriminate.
  destruct l; try discriminate.
  destruct ((0 <=? s') && (s' <? 86400) && (0 <=? f') && (f' <? 2000000000)) eqn:T; [|discriminate].
  destruct (J.jd_of_yo y o) as [x'|] eqn:E; [|discriminate]. intros [= <- <- <-].
  apply jd_of_yo_inv in E. destruct E as (Hy & Ho & ->). exists y, o. repeat split; assumption.
Qed.
Lemma dec_ndt_enc y o s f : year_in_range y = true -> valid_yo y o = true -> time_ok s f = true ->
  DateTime.dec_ndt (ndtenc y o s f) = Some (mkndt y o s f).
Proof.
  intros Hy Ho T. unfold DateTime.dec_ndt, ndtenc. fold (denc y o). rewrite dec_date_enc by assumption.
  unfold Time.dec_time. unfold time_ok in T. rewrite T. reflexivity.
Qed.

(** * encodings of results *)
Lemma enc_date_dn n : dn_in_range n = true -> DateTime.enc_date (date_of_dn n) = J.enc_dn n.
Proof.
  intros E. destruct (date_of_dn_repr n E) as [R _]. rewrite (enc_date_repr _ _ _ R).
  unfold J.enc_dn, denc, J.enc_yo. destruct (yo_of_dn n). reflexivity.
Qed.
Lemma unsome_vo_date r :
  J.unsome_or_panic (M.vo_date r) = match r with Some d => DateTime.enc_date d | None => VPanic end.
Proof. destruct r; reflexivity. Qed.
Lemma week_first_jdx y o w : J.week_first (jdx y o) w = week_start (dn_of_yo y o) w.
Proof. reflexivity. Qed.

(** * one acceptance lemma per judge combinator *)
Lemma du_holds (e : J.jdate -> Z -> val) (g : Z -> Z -> val) args :
  (forall y o n, year_in_range y = true -> valid_yo y o = true -> in_u32 n = true ->
     e (jdx y o) n = g (mkdate y o) n) ->
  J.j_d_u32 e args (sh_du g args) <> JSkip -> J.j_d_u32 e args (sh_du g args) = JOk.
Proof.
  intros H. unfold J.j_d_u32. destruct args as [|a [|[n| | | | | | | |] [|? ?]]]; try congruence.
  destruct (J.jd_arg a) as [x|] eqn:E; [|congruence]. destruct (in_u32 n) eqn:En; [|congruence]. intros _.
  destruct (jd_arg_inv a x E) as (y & o & -> & Hy & Ho & ->).
  unfold sh_du, arg_u32. rewrite dec_date_enc, En by assumption. apply hl_judge_eq_of. apply H; assumption.
Qed.
Lemma dw_holds (e : J.jdate -> Z -> val) (g : Z -> Z -> val) args :
  (forall y o w, year_in_range y = true -> valid_yo y o = true -> 0 <= w <= 6 ->
     e (jdx y o) w = g (mkdate y o) w) ->
  J.j_d_wd e args (sh_dw g args) <> JSkip -> J.j_d_wd e args (sh_dw g args) = JOk.
Proof.
  intros H. unfold J.j_d_wd. destruct args as [|a [|[w| | | | | | | |] [|? ?]]]; try congruence.
  destruct (J.jd_arg a) as [x|] eqn:E; [|congruence].
  destruct ((0 <=? w) && (w <=? 6)) eqn:Ew; [|congruence]. intros _.
  destruct (jd_arg_inv a x E) as (y & o & -> & Hy & Ho & ->).
  unfold sh_dw, M.arg_wd. rewrite dec_date_enc, Ew by assumption. apply hl_judge_eq_of. apply H; try assumption. lia.
Qed.
Lemma d1_holds (e : J.jdate -> val) (g : Z -> val) args :
  (forall y o, year_in_range y = true -> valid_yo y o = true -> e (jdx y o) = g (mkdate y o)) ->
  J.j_d e args (sh_d1 g args) <> JSkip -> J.j_d e args (sh_d1 g args) = JOk.
Proof.
  intros H. unfold J.j_d. destruct args as [|a [|? ?]]; try congruence.
  destruct (J.jd_arg a) as [x|] eqn:E; [|congruence]. intros _.
  destruct (jd_arg_inv a x E) as (y & o & -> & Hy & Ho & ->).
  unfold sh_d1. rewrite dec_date_enc by assumption. apply hl_judge_eq_of. apply H; assumption.
Qed.
Lemma nu_holds (e : J.jdate -> Z -> val) (g : DateTime.ndt -> Z -> val) args :
  (forall y o s f n, year_in_range y = true -> valid_yo y o = true -> time_ok s f = true -> in_u32 n = true ->
     J.with_time s f (e (jdx y o) n) = g (mkndt y o s f) n) ->
  J.j_ndt_u32 e args (sh_nu g args) <> JSkip -> J.j_ndt_u32 e args (sh_nu g args) = JOk.
Proof.
  intros H. unfold J.j_ndt_u32. destruct args as [|a [|[n| | | | | | | |] [|? ?]]]; try congruence.
  destruct (J.jndt_arg a) as [[[x s] f]|] eqn:E; [|congruence]. destruct (in_u32 n) eqn:En; [|congruence]. intros _.
  destruct (jndt_arg_inv a x s f E) as (y & o & -> & Hy & Ho & T & ->).
  unfold sh_nu, arg_u32. rewrite dec_ndt_enc, En by assumption. apply hl_judge_eq_of. apply H; assumption.
Qed.
Lemma nuop_holds (e : J.jdate -> Z -> val) (g : DateTime.ndt -> Z -> val) args :
  (forall y o s f n, year_in_range y = true -> valid_yo y o = true -> time_ok s f = true -> in_u32 n = true ->
     J.unsome_or_panic (J.with_time s f (e (jdx y o) n)) = g (mkndt y o s f) n) ->
  J.j_ndt_u32_op e args (sh_nu g args) <> JSkip -> J.j_ndt_u32_op e args (sh_nu g args) = JOk.
Proof.
  intros H. unfold J.j_ndt_u32_op. destruct args as [|a [|[n| | | | | | | |] [|? ?]]]; try congruence.
  destruct (J.jndt_arg a) as [[[x s] f]|] eqn:E; [|congruence]. destruct (in_u32 n) eqn:En; [|congruence]. intros _.
  destruct (jndt_arg_inv a x s f E) as (y & o & -> & Hy & Ho & T & ->).
  unfold sh_nu, arg_u32. rewrite dec_ndt_enc, En by assumption. apply hl_judge_eq_of. apply H; assumption.
Qed.

Definition HOLDS (s : string) (args : list val) : Prop :=
  J.judge (bytes_of_string s) args (M.run (bytes_of_string s) args) <> JSkip ->
  J.judge (bytes_of_string s) args (M.run (bytes_of_string s) args) = JOk.

(** * month stepping on dates *)
Lemma holds_addm' args : HOLDS "d8.addm" args.
Proof.
  unfold HOLDS.
  refine (du_holds (fun x n => J.exp_shift x n) (fun d n => val_of_R M.vo_date (checked_add_months d n)) args _).
  intros y o n Hy Ho Hn. rewrite (checked_add_months_spec y o _ n (repr_mk y o Hy Ho) Hn). cbn [val_of_R].
  symmetry. apply shift_enc; assumption.
Qed.
Lemma holds_subm' args : HOLDS "d8.subm" args.
Proof.
  unfold HOLDS.
  refine (du_holds (fun x n => J.exp_shift x (- n)) (fun d n => val_of_R M.vo_date (checked_sub_months d n)) args _).
  intros y o n Hy Ho Hn. rewrite (checked_sub_months_spec y o _ n (repr_mk y o Hy Ho) Hn). cbn [val_of_R].
  symmetry. apply shift_enc; assumption.
Qed.
Lemma holds_opaddm args : HOLDS "d8.opaddm" args.
Proof.
  unfold HOLDS.
  refine (du_holds (fun x n => J.unsome_or_panic (J.exp_shift x n))
            (fun d n => val_of_R DateTime.enc_date (d_op_add_months d n)) args _).
  intros y o n Hy Ho Hn. rewrite (op_add_months_spec y o _ n (repr_mk y o Hy Ho) Hn).
  unfold jdx. rewrite <- shift_enc, unsome_vo_date by assumption. destruct (shift_months y o n); reflexivity.
Qed.
Lemma holds_opsubm args : HOLDS "d8.opsubm" args.
Proof.
  unfold HOLDS.
  refine (du_holds (fun x n => J.unsome_or_panic (J.exp_shift x (- n)))
            (fun d n => val_of_R DateTime.enc_date (d_op_sub_months d n)) args _).
  intros y o n Hy Ho Hn. rewrite (op_sub_months_spec y o _ n (repr_mk y o Hy Ho) Hn).
  unfold jdx. rewrite <- shift_enc, unsome_vo_date by assumption. destruct (shift_months y o (- n)); reflexivity.
Qed.

(** * field replacement *)
Lemma jfield_inv s f : J.jfield s = Some f -> s = fname f /\ 0 <= f <= 6 /\ M.field_of s = Some f.
Proof.
  intros H. assert (Hm : M.field_of s = Some f) by exact H. split; [|split; [|exact Hm]]; clear Hm;
  unfold J.jfield in H;
  repeat match type of H with (if op_is s ?k then _ else _) = _ =>
    destruct (op_is s k) eqn:E;
    [apply hl_op_is_eq in E; subst s; injection H as <-; first [reflexivity|lia]|clear E] end;
  discriminate H.
Qed.
(* the judge's expected value of a field replacement is the encoded model result *)
Lemma with_eq f y o x : 0 <= f <= 6 -> year_in_range y = true -> valid_yo y o = true -> J.field_arg_ok f x = true ->
  val_of_R M.vo_date (M.d_with f (mkdate y o) x) = J.exp_with f (jdx y o) x.
Proof.
  intros Hf Hy Ho Hx. pose proof (repr_mk y o Hy Ho) as R.
  assert (f = 0 \/ f = 1 \/ f = 2 \/ f = 3 \/ f = 4 \/ f = 5 \/ f = 6) as C by lia.
  destruct C as [->|[->|[->|[->|[->|[->| ->]]]]]];
  unfold J.field_arg_ok in Hx; cbn [Z.eqb Pos.eqb] in Hx;
  unfold M.d_with, J.exp_with, jdx; cbn [Z.eqb Pos.eqb J.jy J.jm J.jd].
  - rewrite (with_year_spec y o _ R x Hx). cbn [val_of_R]. fold (month_of y o) (day_of y o). apply enc_ymd_if.
  - rewrite (with_month_spec y o _ R x Hx). cbn [val_of_R]. fold (day_of y o).
    rewrite <- (andb_true_l (valid_ymd y x (day_of y o))), <- Hy. apply enc_ymd_if.
  - rewrite (with_month0_spec y o _ R x Hx). cbn [val_of_R]. fold (day_of y o).
    rewrite <- (andb_true_l (valid_ymd y (x + 1) (day_of y o))), <- Hy. apply enc_ymd_if.
  - rewrite (with_day_spec y o _ R x Hx). cbn [val_of_R]. fold (month_of y o).
    rewrite <- (andb_true_l (valid_ymd y (month_of y o) x)), <- Hy. apply enc_ymd_if.
  - rewrite (with_day0_spec y o _ R x Hx). cbn [val_of_R]. fold (month_of y o).
    rewrite <- (andb_true_l (valid_ymd y (month_of y o) (x + 1))), <- Hy. apply enc_ymd_if.
  - rewrite (with_ordinal_spec y o _ R x Hx). cbn [val_of_R].
    rewrite <- (andb_true_l (valid_yo y x)), <- Hy. apply enc_yo_if.
  - rewrite (with_ordinal0_spec y o _ R x Hx). cbn [val_of_R].
    rewrite <- (andb_true_l (valid_yo y (x + 1))), <- Hy. apply enc_yo_if.
Qed.
Lemma arg_field_ok f x : J.field_arg_ok f x = true -> M.arg_field f (VInt x) = Some x.
Proof. unfold J.field_arg_ok, M.arg_field, arg_i32, arg_u32. destruct (f =? 0); intros ->; reflexivity. Qed.

Lemma holds_with' args : HOLDS "d8.with" args.
Proof.
  unfold HOLDS.
  destruct args as [|[|s| | | | | | |] [|a [|[v| | | | | | | |] [|? ?]]]]; try (intros H; exfalso; apply H; reflexivity).
  rewrite run_with, judge_with.
  destruct (J.jfield s) as [f|] eqn:Ef; [|congruence].
  destruct (J.jd_arg a) as [x|] eqn:E; [|congruence].
  destruct (J.field_arg_ok f v) eqn:Ev; [|congruence]. intros _.
  destruct (jfield_inv s f Ef) as (_ & Hf & ->).
  destruct (jd_arg_inv a x E) as (y & o & -> & Hy & Ho & ->).
  rewrite dec_date_enc, (arg_field_ok f v Ev) by assumption.
  apply hl_judge_eq_of. symmetry. apply with_eq; assumption.
Qed.

(** * weeks *)
Lemma holds_wfirst args : HOLDS "d8.wfirst" args.
Proof.
  unfold HOLDS.
  refine (dw_holds (fun x w => J.exp_dn (J.week_first x w))
            (fun d w => val_of_R M.vo_date (week_checked_first_day (d_week d w))) args _).
  intros y o w Hy Ho Hw. rewrite (week_first_spec y o _ w (repr_mk y o Hy Ho) Hw). cbn [val_of_R].
  rewrite enc_dn_if. reflexivity.
Qed.
Lemma holds_wlast args : HOLDS "d8.wlast" args.
Proof.
  unfold HOLDS.
  refine (dw_holds (fun x w => J.exp_dn (J.week_first x w + 6))
            (fun d w => val_of_R M.vo_date (week_checked_last_day (d_week d w))) args _).
  intros y o w Hy Ho Hw. rewrite (week_last_spec y o _ w (repr_mk y o Hy Ho) Hw). cbn [val_of_R].
  rewrite enc_dn_if. reflexivity.
Qed.
Lemma exp_week_jdx y o w :
  J.exp_week (jdx y o) w =
  let f := week_start (dn_of_yo y o) w in
  if dn_in_range f && dn_in_range (f + 6) then VSome (VTup [J.enc_dn f; J.enc_dn (f + 6)]) else VNone.
Proof. reflexivity. Qed.
Lemma holds_week args : HOLDS "d8.week" args.
Proof.
  unfold HOLDS.
  refine (dw_holds J.exp_week (fun d w => val_of_R (val_of_option pairv) (week_checked_days (d_week d w))) args _).
  intros y o w Hy Ho Hw. pose proof (week_days_spec y o _ w (repr_mk y o Hy Ho) Hw) as D. cbv zeta in D.
  rewrite D, exp_week_jdx. cbv zeta. cbn [val_of_R].
  destruct (dn_in_range (week_start (dn_of_yo y o) w)) eqn:I1; [|reflexivity].
  destruct (dn_in_range (week_start (dn_of_yo y o) w + 6)) eqn:I2; [|reflexivity].
  cbn [andb val_of_option]. unfold pairv. cbn [fst snd]. rewrite !enc_date_dn by assumption. reflexivity.
Qed.
Lemma holds_wfirstp args : HOLDS "d8.wfirstp" args.
Proof.
  unfold HOLDS.
  refine (dw_holds (fun x w => J.unsome_or_panic (J.exp_dn (J.week_first x w)))
            (fun d w => val_of_R DateTime.enc_date (week_first_day (d_week d w))) args _).
  intros y o w Hy Ho Hw. destruct (week_panicking_spec y o _ w (repr_mk y o Hy Ho) Hw) as (E & _). cbv zeta in E.
  rewrite E, week_first_jdx. unfold J.exp_dn.
  destruct (dn_in_range (week_start (dn_of_yo y o) w)) eqn:I1; [|reflexivity].
  cbn [J.unsome_or_panic val_of_R]. rewrite enc_date_dn by assumption. reflexivity.
Qed.
Lemma holds_wlastp args : HOLDS "d8.wlastp" args.
Proof.
  unfold HOLDS.
  refine (dw_holds (fun x w => J.unsome_or_panic (J.exp_dn (J.week_first x w + 6)))
            (fun d w => val_of_R DateTime.enc_date (week_last_day (d_week d w))) args _).
  intros y o w Hy Ho Hw. destruct (week_panicking_spec y o _ w (repr_mk y o Hy Ho) Hw) as (_ & E & _). cbv zeta in E.
  rewrite E, week_first_jdx. unfold J.exp_dn.
  destruct (dn_in_range (week_start (dn_of_yo y o) w + 6)) eqn:I1; [|reflexivity].
  cbn [J.unsome_or_panic val_of_R]. rewrite enc_date_dn by assumption. reflexivity.
Qed.
Lemma holds_wdaysp args : HOLDS "d8.wdaysp" args.
Proof.
  unfold HOLDS.
  refine (dw_holds (fun x w => J.unsome_or_panic (J.exp_week x w))
            (fun d w => val_of_R pairv (week_days (d_week d w))) args _).
  intros y o w Hy Ho Hw. destruct (week_panicking_spec y o _ w (repr_mk y o Hy Ho) Hw) as (_ & _ & E). cbv zeta in E.
  rewrite E, exp_week_jdx. cbv zeta.
  destruct (dn_in_range (week_start (dn_of_yo y o) w)) eqn:I1; [|reflexivity].
  destruct (dn_in_range (week_start (dn_of_yo y o) w + 6)) eqn:I2; [|reflexivity].
  cbn [andb J.unsome_or_panic val_of_R]. unfold pairv. cbn [fst snd]. rewrite !enc_date_dn by assumption. reflexivity.
Qed.

(** * NaiveWeek == / != / Hash *)
Lemma holds_weq args : HOLDS "d8.weq" args.
Proof.
  unfold HOLDS. change (J.judge (B"d8.weq") args (M.run (B"d8.weq") args)) with (J.j_weq args (M.run (B"d8.weq") args)).
  unfold J.j_weq.
  destruct args as [|a [|[w1| | | | | | | |] [|b [|[w2| | | | | | | |] [|? ?]]]]]; try congruence.
  destruct (J.jd_arg a) as [x|] eqn:E1; [|congruence]. destruct (J.jd_arg b) as [z|] eqn:E2; [|congruence].
  destruct ((0 <=? w1) && (w1 <=? 6) && (0 <=? w2) && (w2 <=? 6)) eqn:Ew; [|congruence].
  destruct (jd_arg_inv a x E1) as (y1 & o1 & -> & Hy1 & Ho1 & ->).
  destruct (jd_arg_inv b z E2) as (y2 & o2 & -> & Hy2 & Ho2 & ->).
  rewrite !week_first_jdx.
  destruct (dn_in_range (week_start (dn_of_yo y1 o1) w1) && dn_in_range (week_start (dn_of_yo y2 o2) w2)) eqn:Ir; [|congruence].
  intros _.
  change (M.run (B"d8.weq") [denc y1 o1; VInt w1; denc y2 o2; VInt w2]) with
    (match DateTime.dec_date (denc y1 o1), M.arg_wd (VInt w1), DateTime.dec_date (denc y2 o2), M.arg_wd (VInt w2) with
     | Some d1, Some w1, Some d2, Some w2 => val_of_R (fun v => v) (M.week_eq_obs (d_week d1 w1) (d_week d2 w2))
     | _, _, _, _ => VBad end).
  rewrite !dec_date_enc by assumption. unfold M.arg_wd.
  replace ((0 <=? w1) && (w1 <=? 6)) with true by lia. replace ((0 <=? w2) && (w2 <=? 6)) with true by lia.
  pose proof (week_eq_spec y1 o1 _ w1 y2 o2 _ w2 (repr_mk y1 o1 Hy1 Ho1) (repr_mk y2 o2 Hy2 Ho2) ltac:(lia) ltac:(lia)) as S.
  cbv zeta in S. rewrite S, Ir. cbn [val_of_R].
  destruct (week_start (dn_of_yo y1 o1) w1 =? week_start (dn_of_yo y2 o2) w2); reflexivity.
Qed.

(** * n-th weekday of a month (checked and panicking forms) *)
Lemma nth_eq y m w n : in_u32 m = true -> in_u8 n = true ->
  M.vo_date (nth_weekday y m w n) = J.exp_nth y m w n.
Proof.
  intros Hm Hn. unfold nth_weekday, J.exp_nth.
  destruct (year_in_range y && (1 <=? m) && (m <=? 12) && (1 <=? n)) eqn:E; [|reflexivity].
  set (day := 1 + (w - weekday_of_dn (dn_of_ymd y m 1)) mod 7 + 7 * (n - 1)).
  destruct (day <=? days_in_month (is_leap y) m) eqn:E2; [|reflexivity].
  cbn [date_if M.vo_date val_of_option].
  assert (Hyr : year_in_range y = true) by (destruct (year_in_range y); [reflexivity|cbn in E; discriminate E]).
  assert (Hv : valid_ymd y m day = true).
  { rewrite Hyr in E. cbn [andb] in E. unfold valid_ymd, day in *. solve_in. }
  rewrite (enc_date_repr _ _ _ (mk_ymd_repr y m day Hyr Hv)). reflexivity.
Qed.
Lemma nth_args_ok y m w n : in_i32 y && in_u32 m && (0 <=? w) && (w <=? 6) && in_u8 n = true ->
  in_i32 y = true /\ in_u32 m = true /\ 0 <= w <= 6 /\ in_u8 n = true.
Proof.
  intros H. apply andb_prop in H. destruct H as [H H5]. apply andb_prop in H. destruct H as [H H4].
  apply andb_prop in H. destruct H as [H H3]. apply andb_prop in H. destruct H as [H1 H2].
  split; [exact H1|]. split; [exact H2|]. split; [lia|exact H5].
Qed.
Definition j_nth (wrap : val -> val) (args : list val) (out : val) : verdict :=
  match args with
  | [VInt y; VInt m; VInt w; VInt n] =>
      if in_i32 y && in_u32 m && (0 <=? w) && (w <=? 6) && in_u8 n then judge_eq (wrap (J.exp_nth y m w n)) out else JSkip
  | _ => JSkip end.
Lemma nth_holds (wrap : val -> val) (g : Z -> Z -> Z -> Z -> val) args :
  (forall y m w n, in_i32 y = true -> in_u32 m = true -> 0 <= w <= 6 -> in_u8 n = true ->
     wrap (J.exp_nth y m w n) = g y m w n) ->
  j_nth wrap args (sh_nth g args) <> JSkip -> j_nth wrap args (sh_nth g args) = JOk.
Proof.
  intros H. unfold j_nth.
  destruct args as [|[y| | | | | | | |] l]; try congruence.
  destruct l as [|[m| | | | | | | |] l]; try congruence.
  destruct l as [|[w| | | | | | | |] l]; try congruence.
  destruct l as [|[n| | | | | | | |] [|? ?]]; try congruence.
  destruct (in_i32 y && in_u32 m && (0 <=? w) && (w <=? 6) && in_u8 n) eqn:E; [|congruence]. intros _.
  destruct (nth_args_ok y m w n E) as (Hy & Hm & Hw & Hn).
  unfold sh_nth, arg_i32, arg_u32, M.arg_wd, M.arg_u8. rewrite Hy, Hm, Hn.
  replace ((0 <=? w) && (w <=? 6)) with true by lia. apply hl_judge_eq_of. apply H; assumption.
Qed.
Lemma holds_nthwd' args : HOLDS "d8.nthwd" args.
Proof.
  unfold HOLDS.
  refine (nth_holds (fun v => v) (fun y m w n => val_of_R M.vo_date (from_weekday_of_month_opt y m w n)) args _).
  intros y m w n Hy Hm Hw Hn. rewrite (nth_weekday_spec y m w n Hy Hm Hw Hn). cbn [val_of_R].
  symmetry. apply nth_eq; assumption.
Qed.
Lemma holds_pnthwd args : HOLDS "d8.pnthwd" args.
Proof.
  unfold HOLDS.
  refine (nth_holds J.unsome_or_panic
            (fun y m w n => val_of_R DateTime.enc_date (unwrap_r (from_weekday_of_month_opt y m w n))) args _).
  intros y m w n Hy Hm Hw Hn. rewrite (nth_weekday_spec y m w n Hy Hm Hw Hn). cbn [unwrap_r bind].
  rewrite <- (nth_eq y m w n Hm Hn), unsome_vo_date. destruct (nth_weekday y m w n); reflexivity.
Qed.

(** * whole years elapsed between two dates *)
Lemma holds_years' args : HOLDS "d8.years" args.
Proof.
  unfold HOLDS. destruct args as [|a [|b [|? ?]]]; try (intros H; exfalso; apply H; reflexivity).
  rewrite judge_years.
  destruct (J.jd_arg a) as [x|] eqn:E1; [|congruence]. destruct (J.jd_arg b) as [z|] eqn:E2; [|congruence]. intros _.
  destruct (jd_arg_inv a x E1) as (y1 & o1 & -> & Hy1 & Ho1 & ->).
  destruct (jd_arg_inv b z E2) as (y0 & o0 & -> & Hy0 & Ho0 & ->).
  pose proof (holds_years y1 o1 y0 o0 Hy1 Ho1 Hy0 Ho0) as H. rewrite judge_years, !jd_arg_enc in H by assumption.
  exact H.
Qed.

(** * quarter, common-era year, month lengths, Months::as_u32 *)
Lemma holds_quarter args : HOLDS "d8.quarter" args.
Proof.
  unfold HOLDS.
  refine (d1_holds (fun x => VInt ((J.jm x - 1) / 3 + 1)) (fun d => val_of_R VInt (d_quarter d)) args _).
  intros y o Hy Ho. rewrite (proj1 (quarter_spec y o _ (repr_mk y o Hy Ho))). reflexivity.
Qed.
Lemma holds_yce args : HOLDS "d8.yce" args.
Proof.
  unfold HOLDS.
  refine (d1_holds (fun x => if 1 <=? J.jy x then VTup [VInt 1; VInt (J.jy x)] else VTup [VInt 0; VInt (1 - J.jy x)])
            (fun d => val_of_R (fun p => VTup [val_of_bool (fst p); VInt (snd p)]) (d_year_ce d)) args _).
  intros y o Hy Ho. rewrite (year_ce_spec y o _ (repr_mk y o Hy Ho)). unfold jdx. cbn [J.jy val_of_R].
  destruct (1 <=? y); reflexivity.
Qed.
Lemma holds_dim args : HOLDS "d8.dim" args.
Proof.
  unfold HOLDS.
  refine (d1_holds (fun x => VInt (days_in_month (is_leap (J.jy x)) (J.jm x)))
            (fun d => val_of_R VInt (d_num_days_in_month d)) args _).
  intros y o Hy Ho. rewrite (num_days_in_month_spec y o _ (repr_mk y o Hy Ho)). reflexivity.
Qed.
Lemma holds_mdays args : HOLDS "d8.mdays" args.
Proof.
  unfold HOLDS.
  destruct args as [|[m| | | | | | | |] [|[y| | | | | | | |] [|? ?]]]; try (intros H; exfalso; apply H; reflexivity).
  change (J.judge (B"d8.mdays") [VInt m; VInt y] (M.run (B"d8.mdays") [VInt m; VInt y])) with
    (let out := match M.arg_month (VInt m), arg_i32 (VInt y) with
                | Some m, Some y => val_of_R M.vo_int (month_num_days m y) | _, _ => VBad end in
     if (1 <=? m) && (m <=? 12) && in_i32 y then
       let e := VSome (VInt (days_in_month (is_leap y) m)) in
       if year_in_range y then judge_eq e out
       else if val_eqb out VNone then JOk else judge_eq e out
     else JSkip).
  cbv zeta. destruct ((1 <=? m) && (m <=? 12) && in_i32 y) eqn:E; [|congruence]. intros _.
  apply andb_prop in E. destruct E as [Em Ey]. unfold M.arg_month, arg_i32. rewrite Em, Ey.
  rewrite (month_num_days_spec m y ltac:(lia) Ey). cbn [val_of_R].
  destruct (year_in_range y) eqn:Yr.
  - cbn [negb]. rewrite andb_false_r. apply hl_judge_eq_refl.
  - cbn [negb]. rewrite andb_true_r. destruct (m =? 2); [reflexivity|].
    cbn [M.vo_int val_of_option val_eqb]. apply hl_judge_eq_refl.
Qed.
Lemma holds_months_u32 args : HOLDS "d8.months_u32" args.
Proof.
  unfold HOLDS. destruct args as [|[n| | | | | | | |] [|? ?]]; try (intros H; exfalso; apply H; reflexivity).
  change (J.judge (B"d8.months_u32") [VInt n] (M.run (B"d8.months_u32") [VInt n])) with
    (if in_u32 n then judge_eq (VInt n) (match arg_u32 (VInt n) with Some n => VInt n | None => VBad end) else JSkip).
  destruct (in_u32 n) eqn:E; [|congruence]. intros _. unfold arg_u32. rewrite E. apply hl_judge_eq_refl.
Qed.

(** * NaiveDateTime: month stepping, field replacement, Datelike *)
Lemma with_time_vo y o s f r :
  J.with_time s f (M.vo_date r) = M.vo_ndt (with_time_of (mkndt y o s f) r).
Proof. destruct r; reflexivity. Qed.
Lemma repr_mkndt y o s f : year_in_range y = true -> valid_yo y o = true ->
  repr y o (DateTime.nd_date (mkndt y o s f)).
Proof. intros Hy Ho. apply repr_mk; assumption. Qed.

Lemma holds_ndt_addm args : HOLDS "d8.ndt.addm" args.
Proof.
  unfold HOLDS.
  refine (nu_holds (fun x n => J.exp_shift x n) (fun d n => val_of_R M.vo_ndt (DateTime.ndt_checked_add_months d n)) args _).
  intros y o s f n Hy Ho T Hn. rewrite (proj1 (ndt_add_months_spec _ y o n (repr_mkndt y o s f Hy Ho) Hn)).
  cbn [val_of_R]. unfold jdx. rewrite <- shift_enc by assumption. apply with_time_vo.
Qed.
Lemma holds_ndt_subm args : HOLDS "d8.ndt.subm" args.
Proof.
  unfold HOLDS.
  refine (nu_holds (fun x n => J.exp_shift x (- n)) (fun d n => val_of_R M.vo_ndt (DateTime.ndt_checked_sub_months d n)) args _).
  intros y o s f n Hy Ho T Hn. rewrite (proj2 (ndt_add_months_spec _ y o n (repr_mkndt y o s f Hy Ho) Hn)).
  cbn [val_of_R]. unfold jdx. rewrite <- shift_enc by assumption. apply with_time_vo.
Qed.
Lemma holds_ndt_opaddm args : HOLDS "d8.ndt.opaddm" args.
Proof.
  unfold HOLDS.
  refine (nuop_holds (fun x n => J.exp_shift x n) (fun d n => val_of_R DateTime.enc_ndt (M.ndt_op_add_months d n)) args _).
  intros y o s f n Hy Ho T Hn. rewrite (proj1 (ndt_op_months_spec _ y o n (repr_mkndt y o s f Hy Ho) Hn)).
  unfold jdx. rewrite <- shift_enc by assumption. destruct (shift_months y o n); reflexivity.
Qed.
Lemma holds_ndt_opsubm args : HOLDS "d8.ndt.opsubm" args.
Proof.
  unfold HOLDS.
  refine (nuop_holds (fun x n => J.exp_shift x (- n)) (fun d n => val_of_R DateTime.enc_ndt (M.ndt_op_sub_months d n)) args _).
  intros y o s f n Hy Ho T Hn. rewrite (proj2 (ndt_op_months_spec _ y o n (repr_mkndt y o s f Hy Ho) Hn)).
  unfold jdx. rewrite <- shift_enc by assumption. destruct (shift_months y o (- n)); reflexivity.
Qed.

Definition j_nwith (args : list val) (out : val) : verdict :=
  match args with
  | [VStr s; a; VInt v] =>
      match J.jfield s, J.jndt_arg a with
      | Some f, Some (x, sc, fr) =>
          if J.field_arg_ok f v then judge_eq (J.with_time sc fr (J.exp_with f x v)) out else JSkip
      | _, _ => JSkip end
  | _ => JSkip end.
Lemma holds_ndt_with args : HOLDS "d8.ndt.with" args.
Proof.
  unfold HOLDS.
  change (J.judge (B"d8.ndt.with") args (M.run (B"d8.ndt.with") args)) with
    (j_nwith args (sh_with DateTime.dec_ndt (fun f d x => val_of_R M.vo_ndt (DateTime.ndt_with f d x)) args)).
  unfold j_nwith.
  destruct args as [|[|s| | | | | | |] [|a [|[v| | | | | | | |] [|? ?]]]]; try congruence.
  destruct (J.jfield s) as [f|] eqn:Ef; [|congruence].
  destruct (J.jndt_arg a) as [[[x sc] fr]|] eqn:E; [|congruence].
  destruct (J.field_arg_ok f v) eqn:Ev; [|congruence]. intros _.
  destruct (jfield_inv s f Ef) as (_ & Hf & Hm).
  destruct (jndt_arg_inv a x sc fr E) as (y & o & -> & Hy & Ho & T & ->).
  unfold sh_with. rewrite Hm, dec_ndt_enc, (arg_field_ok f v Ev) by assumption.
  apply hl_judge_eq_of.
  rewrite (ndt_with_spec _ y o f v (repr_mkndt y o sc fr Hy Ho) Hf). cbn [DateTime.nd_date mkndt].
  rewrite <- (with_eq f y o v Hf Hy Ho Ev).
  destruct (M.d_with f (mkdate y o) v) as [r| |]; cbn [bind val_of_R]; [apply with_time_vo|reflexivity|reflexivity].
Qed.

Definition j_nprov (args : list val) (out : val) : verdict :=
  match args with
  | [a] => match J.jndt_arg a with Some (x, _, _) => judge_eq (J.exp_ndt_prov x) out | None => JSkip end
  | _ => JSkip end.
Definition sh_nprov (args : list val) : val :=
  match args with
  | [a] => match DateTime.dec_ndt a with Some x => val_of_R (fun v => v) (M.ndt_prov x) | None => VBad end
  | _ => VBad end.
Lemma holds_ndt_prov args : HOLDS "d8.ndt.prov" args.
Proof.
  unfold HOLDS.
  change (J.judge (B"d8.ndt.prov") args (M.run (B"d8.ndt.prov") args)) with (j_nprov args (sh_nprov args)).
  unfold j_nprov. destruct args as [|a [|? ?]]; try congruence.
  destruct (J.jndt_arg a) as [[[x sc] fr]|] eqn:E; [|congruence]. intros _.
  destruct (jndt_arg_inv a x sc fr E) as (y & o & -> & Hy & Ho & T & ->).
  unfold sh_nprov. rewrite dec_ndt_enc by assumption.
  rewrite (ndt_prov_spec _ y o (repr_mkndt y o sc fr Hy Ho)). cbn [val_of_R]. apply hl_judge_eq_of. reflexivity.
Qed.

(** * DateTime::years_since (fixed offsets) *)
Definition dtenc (y o s f off : Z) : val := VTup [VInt y; VInt o; VInt s; VInt f; VInt off].
Definition mkdtz (y o s f off : Z) : DateTime.dtz := DateTime.mk_dtz (mkndt y o s f) off.
(* the judge's reading: wall-clock (year, month, day), the time of day as one number, the offset *)
Definition jdt_of (y o s f off : Z) : Z * Z * Z * Z * Z :=
  let '(yy, mm, dd) := ymd_of_dn (local_dn y o s off) in (yy, mm, dd, local_secs s off * 2000000000 + f, off).

Lemma jdt_arg_inv v r : J.jdt_arg v = Some r ->
  exists y o s f off, v = dtenc y o s f off /\ year_in_range y = true /\ valid_yo y o = true /\
    time_ok s f = true /\ -86400 < off < 86400 /\ r = jdt_of y o s f off.
Proof.
  unfold J.jdt_arg. destruct v as [| | | |l| | | |]; try discriminate.
  destruct l as [|[y| | | | | | | |] l]; try discriminate.
  destruct l as [|[o| | | | | | | |] l]; try discriminate.
  destruct l as [|[s| | | | | | | |] l]; try discriminate.
  destruct l as [|[f| | | | | | | |] l]; try discriminate.
  destruct l as [|[off| | | | | | | |] l]; try discriminate.
  destruct l; try discriminate.
  destruct (year_in_range y && valid_yo y o && (0 <=? s) && (s <? 86400) && (0 <=? f) && (f <? 2000000000)
            && (-86400 <? off) && (off <? 86400)) eqn:E; [|discriminate].
  apply andb_prop in E. destruct E as [E H8]. apply andb_prop in E. destruct E as [E H7].
  apply andb_prop in E. destruct E as [E H6]. apply andb_prop in E. destruct E as [E H5].
  apply andb_prop in E. destruct E as [E H4]. apply andb_prop in E. destruct E as [E H3].
  apply andb_prop in E. destruct E as [H1 H2].
  intros H. exists y, o, s, f, off. split; [reflexivity|]. split; [exact H1|]. split; [exact H2|].
  split; [unfold time_ok; rewrite H3, H4, H5, H6; reflexivity|]. split; [lia|].
  unfold jdt_of, local_dn, local_secs.
  destruct (ymd_of_dn (dn_of_yo y o + (s + off) / 86400)) as [[yy mm] dd]. injection H as <-. reflexivity.
Qed.
Lemma dec_dtz_enc y o s f off : year_in_range y = true -> valid_yo y o = true -> time_ok s f = true ->
  -86400 < off < 86400 -> DateTime.dec_dtz (dtenc y o s f off) = Some (mkdtz y o s f off).
Proof.
  intros Hy Ho T Hoff. unfold DateTime.dec_dtz, dtenc. fold (ndtenc y o s f). rewrite dec_ndt_enc by assumption.
  unfold DateTime.east_opt, FO_EAST_LO, FO_EAST_HI. replace ((-86400 <? off) && (off <? 86400)) with true by lia.
  reflexivity.
Qed.
Lemma dz_ok_mk y o s f off : year_in_range y = true -> valid_yo y o = true -> time_ok s f = true ->
  -86400 < off < 86400 -> dz_ok (mkdtz y o s f off) y o s f off.
Proof.
  intros Hy Ho T Hoff. unfold time_ok in T.
  constructor; cbn [mkdtz mkndt DateTime.dz_utc DateTime.nd_date DateTime.nd_time DateTime.dz_off Time.tsecs Time.tfrac];
    try reflexivity; try lia. apply repr_mk; assumption.
Qed.
(* (second of day, fraction) compared lexicographically = the one number the judge compares *)
Lemma years_eq yy1 mm1 dd1 l1 f1 yy0 mm0 dd0 l0 f0 :
  0 <= f1 < 2000000000 -> 0 <= f0 < 2000000000 ->
  J.exp_years yy1 mm1 dd1 (l1 * 2000000000 + f1) yy0 mm0 dd0 (l0 * 2000000000 + f0) =
  M.vo_int (let earlier := (mm1 <? mm0) || ((mm1 =? mm0) && ((dd1 <? dd0) || ((dd1 =? dd0) &&
                             ((l1 <? l0) || ((l1 =? l0) && (f1 <? f0)))))) in
            let n := yy1 - yy0 - (if earlier then 1 else 0) in
            if 0 <=? n then Some n else None).
Proof.
  intros H1 H0. unfold J.exp_years, J.lex3_lt. cbv zeta.
  replace (l1 * 2000000000 + f1 <? l0 * 2000000000 + f0) with ((l1 <? l0) || ((l1 =? l0) && (f1 <? f0))) by lia.
  match goal with |- context [if ?c then VSome _ else VNone] => destruct c end; reflexivity.
Qed.

Definition j_dty (args : list val) (out : val) : verdict :=
  match args with
  | [a; b] => match J.jdt_arg a, J.jdt_arg b with
      | Some (y1, m1, d1, t1, o1), Some (y0, m0, d0, t0, o0) =>
          if o1 =? o0 then judge_eq (J.exp_years y1 m1 d1 t1 y0 m0 d0 t0) out else JSkip
      | _, _ => JSkip end
  | _ => JSkip end.
Definition sh_dty (args : list val) : val :=
  match args with
  | [a; b] => match DateTime.dec_dtz a, DateTime.dec_dtz b with
      | Some d, Some base => val_of_R M.vo_int (M.dz_years_since d base) | _, _ => VBad end
  | _ => VBad end.
Lemma holds_dtyears args : HOLDS "d8.dtyears" args.
Proof.
  unfold HOLDS.
  change (J.judge (B"d8.dtyears") args (M.run (B"d8.dtyears") args)) with (j_dty args (sh_dty args)).
  unfold j_dty. destruct args as [|a [|b [|? ?]]]; try congruence.
  destruct (J.jdt_arg a) as [[[[[yy1 mm1] dd1] t1] of1]|] eqn:E1; [|congruence].
  destruct (J.jdt_arg b) as [[[[[yy0 mm0] dd0] t0] of0]|] eqn:E0; [|congruence].
  destruct (of1 =? of0); [|congruence]. intros _.
  destruct (jdt_arg_inv a _ E1) as (y1 & o1 & s1 & f1 & off1 & -> & Hy1 & Ho1 & T1 & Hf1 & R1).
  destruct (jdt_arg_inv b _ E0) as (y0 & o0 & s0 & f0 & off0 & -> & Hy0 & Ho0 & T0 & Hf0 & R0).
  unfold sh_dty. rewrite !dec_dtz_enc by assumption.
  rewrite (dz_years_since_spec _ _ _ _ _ _ _ _ _ _ _ _ (dz_ok_mk y1 o1 s1 f1 off1 Hy1 Ho1 T1 Hf1)
             (dz_ok_mk y0 o0 s0 f0 off0 Hy0 Ho0 T0 Hf0)).
  cbn [val_of_R]. unfold dt_years_between. unfold jdt_of in R1, R0.
  destruct (ymd_of_dn (local_dn y1 o1 s1 off1)) as [[a1 b1] c1].
  destruct (ymd_of_dn (local_dn y0 o0 s0 off0)) as [[a0 b0] c0].
  injection R1 as -> -> -> -> ->. injection R0 as -> -> -> -> ->.
  apply hl_judge_eq_of. apply years_eq; unfold time_ok in T1, T0; lia.
Qed.

(** * top level: every op, every argument list *)
Ltac op_case_at o s lem :=
  destruct (op_is o s) eqn:?;
  [match goal with H : op_is o s = true |- _ => apply hl_op_is_eq in H; subst; apply lem end|].
Tactic Notation "op_case" constr(s) constr(lem) :=
  match goal with o : bytes |- _ => op_case_at o s lem end.

Theorem C08_holds op args :
  J.judge op args (M.run op args) <> JSkip -> J.judge op args (M.run op args) = JOk.
Proof.
  op_case "d8.addm"%string holds_addm'. op_case "d8.subm"%string holds_subm'.
  op_case "d8.opaddm"%string holds_opaddm. op_case "d8.opsubm"%string holds_opsubm.
  op_case "d8.with"%string holds_with'.
  op_case "d8.wfirst"%string holds_wfirst. op_case "d8.wlast"%string holds_wlast. op_case "d8.week"%string holds_week.
  op_case "d8.wfirstp"%string holds_wfirstp. op_case "d8.wlastp"%string holds_wlastp. op_case "d8.wdaysp"%string holds_wdaysp.
  op_case "d8.nthwd"%string holds_nthwd'. op_case "d8.years"%string holds_years'. op_case "d8.dtyears"%string holds_dtyears.
  op_case "d8.quarter"%string holds_quarter. op_case "d8.yce"%string holds_yce. op_case "d8.dim"%string holds_dim.
  op_case "d8.mdays"%string holds_mdays.
  op_case "d8.ndt.addm"%string holds_ndt_addm. op_case "d8.ndt.subm"%string holds_ndt_subm.
  op_case "d8.ndt.with"%string holds_ndt_with.
  op_case "d8.ndt.opaddm"%string holds_ndt_opaddm. op_case "d8.ndt.opsubm"%string holds_ndt_opsubm.
  op_case "d8.ndt.prov"%string holds_ndt_prov. op_case "d8.months_u32"%string holds_months_u32.
  op_case "d8.weq"%string holds_weq. op_case "d8.pnthwd"%string holds_pnthwd.
  (* no other op name is judged *)
  intros H. exfalso. apply H. unfold J.judge.
  repeat match goal with E : op_is _ _ = false |- _ => rewrite E; clear E end. reflexivity.
Qed.
Corollary C08_never_bad op args : not_bad (J.judge op args (M.run op args)).
Proof. apply hl_never_bad. apply C08_holds. Qed.

(* the theorem is not vacuous: in-domain case lines (the judge has an opinion, and it is "ok"), among
   them results that are nothing, a panic, a non-canonical-looking but valid argument list; and
   argument lists outside the domain, where the judge has no opinion and the dispatcher may answer
   BADARGS *)
Example C08_holds_examples :
  J.judge (B"d8.addm") [denc 2024 31; VInt 1] (M.run (B"d8.addm") [denc 2024 31; VInt 1]) = JOk /\
  M.run (B"d8.addm") [denc 2024 31; VInt 1] = VSome (denc 2024 60) /\
  J.judge (B"d8.opaddm") [denc 262142 365; VInt 1] (M.run (B"d8.opaddm") [denc 262142 365; VInt 1]) = JOk /\
  M.run (B"d8.opaddm") [denc 262142 365; VInt 1] = VPanic /\
  J.judge (B"d8.dtyears") [dtenc 2021 59 86399 1999999999 3600; dtenc 2020 60 0 0 3600]
    (M.run (B"d8.dtyears") [dtenc 2021 59 86399 1999999999 3600; dtenc 2020 60 0 0 3600]) = JOk /\
  J.judge (B"d8.ndt.with") [VStr (B"day0"); ndtenc 2024 31 86399 1999999999; VInt 4294967295]
    (M.run (B"d8.ndt.with") [VStr (B"day0"); ndtenc 2024 31 86399 1999999999; VInt 4294967295]) = JOk /\
  J.judge (B"d8.weq") [denc 2024 60; VInt 0; denc 2024 60; VInt 6]
    (M.run (B"d8.weq") [denc 2024 60; VInt 0; denc 2024 60; VInt 6]) = JOk /\
  J.judge (B"d8.addm") [denc 2023 366; VInt 1] (M.run (B"d8.addm") [denc 2023 366; VInt 1]) = JSkip /\
  M.run (B"d8.addm") [denc 2023 366; VInt 1] = VBad /\
  J.judge (B"d8.addm") [VNone] (M.run (B"d8.addm") [VNone]) = JSkip /\
  J.judge (B"d8.nosuchop") [] (M.run (B"d8.nosuchop") []) = JSkip.
Proof. vm_compute. repeat split. Qed.
