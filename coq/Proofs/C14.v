(** C14 proofs: Parsed-level logic of Model/Parsed.v (setters, resolve_year, which verifier checks
    which field) and the soundness / completeness theorems of field resolution. *)
From Coq Require Import ZArith List Bool Lia ZifyBool.
From V Require Import Base.Int Base.IntLemmas Base.IO Model.TimeDelta.
From V Require Model.Date Model.Time.
From V Require Import Model.DateTime Model.Parsed.
Import ListNotations.
Open Scope Z_scope.
Ltac Zify.zify_post_hook ::= Z.to_euclidean_division_equations.

(** * Field record *)
Lemma pget_pput_same f v p : pget f (pput f v p) = v.
Proof. destruct f; reflexivity. Qed.
Lemma pget_pput_other f g v p : f <> g -> pget g (pput f v p) = pget g p.
Proof. intros H. destruct f, g; try reflexivity; congruence. Qed.

(** * set_if_consistent: accepted exactly when the field is empty or holds the same value *)
Lemma set_if_consistent_ok f p v :
  snd (set_if_consistent f p v) = Ok tt <-> (pget f p = None \/ pget f p = Some v).
Proof.
  unfold set_if_consistent. destruct (pget f p) as [old|] eqn:E.
  - destruct (old =? v) eqn:E2; cbn [negb snd]; split; intros H.
    + right. f_equal. lia.
    + reflexivity.
    + discriminate.
    + destruct H as [H|H]; [discriminate|]. inversion H. lia.
  - cbn [snd]. split; auto.
Qed.
Lemma set_if_consistent_err f p v :
  snd (set_if_consistent f p v) = Ok tt \/
  (snd (set_if_consistent f p v) = Err Impossible /\ fst (set_if_consistent f p v) = p).
Proof.
  unfold set_if_consistent. destruct (pget f p) as [old|]; [|left; reflexivity].
  destruct (old =? v); cbn [negb fst snd]; [left|right]; auto.
Qed.
Lemma set_if_consistent_state f p v :
  snd (set_if_consistent f p v) = Ok tt -> pget f (fst (set_if_consistent f p v)) = Some v.
Proof.
  unfold set_if_consistent. destruct (pget f p) as [old|].
  - destruct (old =? v); cbn [negb fst snd]; [intros _; apply pget_pput_same|discriminate].
  - intros _. apply pget_pput_same.
Qed.

(** Setting a field twice is accepted exactly when the two values are equal. *)
Theorem set_twice_iff_equal f p v w :
  pget f p = None ->
  let p1 := fst (set_if_consistent f p v) in
  snd (set_if_consistent f p v) = Ok tt /\
  (snd (set_if_consistent f p1 w) = Ok tt <-> w = v) /\
  (w <> v -> snd (set_if_consistent f p1 w) = Err Impossible /\ fst (set_if_consistent f p1 w) = p1).
Proof.
  intros Hn p1.
  assert (H1 : snd (set_if_consistent f p v) = Ok tt) by (apply set_if_consistent_ok; auto).
  pose proof (set_if_consistent_state f p v H1) as Hs. fold p1 in Hs.
  split; [exact H1|]. split.
  - rewrite set_if_consistent_ok. rewrite Hs. split.
    + intros [H|H]; [discriminate|]. inversion H. reflexivity.
    + intros ->. right. reflexivity.
  - intros Hne. destruct (set_if_consistent_err f p1 w) as [H|H]; [|exact H].
    apply set_if_consistent_ok in H. rewrite Hs in H. destruct H as [H|H]; [discriminate|].
    inversion H. congruence.
Qed.
