(** C14 proofs: Parsed-level logic of Model/Parsed.v (setters, resolve_year, which verifier checks
    which field) and the soundness / completeness theorems of field resolution. *)
From Coq Require Import ZArith List Bool Lia ZifyBool.
From V Require Import Base.Int Base.IntLemmas Base.IO Model.TimeDelta.
From V Require Model.Date Model.Time.
From V Require Import Model.DateTime Model.Parsed.
Import ListNotations.
Open Scope Z_scope.
Ltac Zify.zify_post_hook ::= Z.to_euclidean_division_equations.

(** * Field record *)
Lemma pget_pput_same f v p : pget f (pput f v p) = v.
Proof. destruct f; reflexivity. Qed.
Lemma pget_pput_other f g v p : f <> g -> pget g (pput f v p) = pget g p.
Proof. intros H. destruct f, g; try reflexivity; congruence. Qed.

(** * set_if_consistent: accepted exactly when the field is empty or holds the same value *)
Lemma set_if_consistent_ok f p v :
  snd (set_if_consistent f p v) = Ok tt <-> (pget f p = None \/ pget f p = Some v).
Proof.
  unfold set_if_consistent. destruct (pget f p) as [old|] eqn:E.
  - destruct (old =? v) eqn:E2; cbn [negb snd]; split; intros H.
    + right. f_equal. lia.
    + reflexivity.
    + discriminate.
    + destruct H as [H|H]; [discriminate|]. inversion H. lia.
  - cbn [snd]. split; auto.
Qed.
Lemma set_if_consistent_err f p v :
  snd (set_if_consistent f p v) = Ok tt \/
  (snd (set_if_consistent f p v) = Err Impossible /\ fst (set_if_consistent f p v) = p).
Proof.
  unfold set_if_consistent. destruct (pget f p) as [old|]; [|left; reflexivity].
  destruct (old =? v); cbn [negb fst snd]; [left|right]; auto.
Qed.
Lemma set_if_consistent_state f p v :
  snd (set_if_consistent f p v) = Ok tt -> pget f (fst (set_if_consistent f p v)) = Some v.
Proof.
  unfold set_if_consistent. destruct (pget f p) as [old|].
  - destruct (old =? v); cbn [negb fst snd]; [intros _; apply pget_pput_same|discriminate].
  - intros _. apply pget_pput_same.
Qed.

(** Setting a field twice is accepted exactly when the two values are equal. *)
Theorem set_twice_iff_equal f p v w :
  pget f p = None ->
  let p1 := fst (set_if_consistent f p v) in
  snd (set_if_consistent f p v) = Ok tt /\
  (snd (set_if_consistent f p1 w) = Ok tt <-> w = v) /\
  (w <> v -> snd (set_if_consistent f p1 w) = Err Impossible /\ fst (set_if_consistent f p1 w) = p1).
Proof.
  intros Hn p1.
  assert (H1 : snd (set_if_consistent f p v) = Ok tt) by (apply set_if_consistent_ok; auto).
  pose proof (set_if_consistent_state f p v H1) as Hs. fold p1 in Hs.
  split; [exact H1|]. split.
  - rewrite set_if_consistent_ok. rewrite Hs. split.
    + intros [H|H]; [discriminate|]. inversion H. reflexivity.
    + intros ->. right. reflexivity.
  - intros Hne. destruct (set_if_consistent_err f p1 w) as [H|H]; [|exact H].
    apply set_if_consistent_ok in H. rewrite Hs in H. destruct H as [H|H]; [discriminate|].
    inversion H. congruence.
Qed.

(** * Setters with a range check *)
Lemma contains_spec lo hi v : contains lo hi v = true <-> lo <= v <= hi.
Proof. unfold contains. lia. Qed.

Lemma set_checked_out f lo hi cast p v :
  ~ (lo <= v <= hi) -> set_checked f lo hi cast p v = (p, Err OutOfRange).
Proof.
  intros H. unfold set_checked. destruct (contains lo hi v) eqn:E; [apply contains_spec in E; lia|reflexivity].
Qed.
Lemma set_checked_in f lo hi cast p v :
  lo <= v <= hi -> set_checked f lo hi cast p v = set_if_consistent f p (cast v).
Proof.
  intros H. unfold set_checked. destruct (contains lo hi v) eqn:E; [reflexivity|].
  assert (contains lo hi v = true) by (apply contains_spec; exact H). congruence.
Qed.
(** a range-checked setter accepts a value exactly when it is in the documented range and the
    field is empty or already holds it; a refused call leaves the fields unchanged *)
Lemma set_checked_ok f lo hi cast p v :
  snd (set_checked f lo hi cast p v) = Ok tt <->
  (lo <= v <= hi /\ (pget f p = None \/ pget f p = Some (cast v))).
Proof.
  destruct (Z_le_dec lo v) as [H1|H1]; [destruct (Z_le_dec v hi) as [H2|H2]|].
  - rewrite set_checked_in by lia. rewrite set_if_consistent_ok. intuition.
  - rewrite set_checked_out by lia. cbn [snd]. split; [discriminate|lia].
  - rewrite set_checked_out by lia. cbn [snd]. split; [discriminate|lia].
Qed.
Lemma set_checked_result f lo hi cast p v :
  match snd (set_checked f lo hi cast p v) with
  | Ok _ => lo <= v <= hi /\ fst (set_checked f lo hi cast p v) = pput f (Some (cast v)) p
  | Err OutOfRange => ~ (lo <= v <= hi) /\ fst (set_checked f lo hi cast p v) = p
  | Err Impossible => lo <= v <= hi /\ (exists old, pget f p = Some old /\ old <> cast v)
                      /\ fst (set_checked f lo hi cast p v) = p
  | Err _ => False
  end.
Proof.
  unfold set_checked. destruct (contains lo hi v) eqn:E; cbn [negb].
  - apply contains_spec in E. unfold set_if_consistent. destruct (pget f p) as [old|] eqn:Eo.
    + destruct (old =? cast v) eqn:E2; cbn [negb fst snd].
      * split; [exact E|reflexivity].
      * split; [exact E|]. split; [|reflexivity]. exists old. split; [reflexivity|lia].
    + cbn [fst snd]. split; [exact E|reflexivity].
  - cbn [fst snd]. split; [|reflexivity]. intros H. apply contains_spec in H. congruence.
Qed.

(** the casts of the setters are the identity on the accepted ranges *)
Lemma as_i32_small v : 0 <= v <= i32_max -> as_i32 v = v.
Proof. intros H. apply as_i32_id. unfold in_i32, in_range, i32_min, i32_max in *. lia. Qed.
Lemma as_u32_small v : 0 <= v <= u32_max -> as_u32 v = v.
Proof. intros H. apply as_u32_id. unfold in_u32, in_range, u32_max in *. lia. Qed.

(** * set_hour: 24-hour clock *)
Lemma set_hour_no_panic p v : set_hour p v <> Panic /\ set_hour p v <> OutOfFuel.
Proof.
  unfold set_hour. destruct (contains 0 11 v) eqn:E1.
  - cbn [bind]. destruct (set_if_consistent F_hour_div_12 p 0) as [p1 [u|e]]; split; discriminate.
  - destruct (contains 12 23 v) eqn:E2.
    + apply contains_spec in E2. rewrite as_u32_small by (unfold u32_max; lia).
      unfold sub_u32, chk. replace (in_u32 (v - 12)) with true by (unfold in_u32, in_range, u32_max; lia).
      cbn [bind]. destruct (set_if_consistent F_hour_div_12 p 1) as [p1 [u|e]]; split; discriminate.
    + cbn [bind]. split; discriminate.
Qed.
Lemma set_hour_value p v :
  set_hour p v =
  Val (if contains 0 23 v then
         match set_if_consistent F_hour_div_12 p (v / 12) with
         | (p1, Err e) => (p1, Err e)
         | (p1, Ok _) => set_if_consistent F_hour_mod_12 p1 (v mod 12)
         end
       else (p, Err OutOfRange)).
Proof.
  unfold set_hour. destruct (contains 0 11 v) eqn:E1.
  - apply contains_spec in E1. replace (contains 0 23 v) with true by (symmetry; apply contains_spec; lia).
    cbn [bind]. rewrite as_u32_small by (unfold u32_max; lia).
    replace (v / 12) with 0 by lia. replace (v mod 12) with v by lia.
    destruct (set_if_consistent F_hour_div_12 p 0) as [p1 [u|e]]; reflexivity.
  - destruct (contains 12 23 v) eqn:E2.
    + apply contains_spec in E2. replace (contains 0 23 v) with true by (symmetry; apply contains_spec; lia).
      rewrite as_u32_small by (unfold u32_max; lia).
      unfold sub_u32, chk. replace (in_u32 (v - 12)) with true by (unfold in_u32, in_range, u32_max; lia).
      cbn [bind]. replace (v / 12) with 1 by lia. replace (v mod 12) with (v - 12) by lia.
      destruct (set_if_consistent F_hour_div_12 p 1) as [p1 [u|e]]; reflexivity.
    + cbn [bind]. destruct (contains 0 23 v) eqn:E3; [|reflexivity].
      apply contains_spec in E3.
      assert (~ (0 <= v <= 11)) by (intros H; apply contains_spec in H; congruence).
      assert (~ (12 <= v <= 23)) by (intros H'; apply contains_spec in H'; congruence). lia.
Qed.

(** every setter of the case protocol returns by value for every i64 argument *)
Lemma apply_setter_no_panic k p v r : apply_setter k p v = Some r -> r <> Panic /\ r <> OutOfFuel.
Proof.
  unfold apply_setter. destruct (negb (in_i64 v)); [discriminate|].
  repeat match goal with
  | |- (if ?c then _ else _) = Some r -> _ => destruct c
  end; try discriminate; intros H; inversion H; subst; try (split; discriminate).
  apply set_hour_no_panic.
Qed.

(** * resolve_year *)
Definition i32v (o : option Z) : Prop := match o with Some v => in_i32 v = true | None => True end.
Definition pivot (r : Z) : Z := if r <? 70 then 2000 + r else 1900 + r.

Lemma div_i32_100 y : in_i32 y = true -> div_i32 y 100 = Val (Z.quot y 100).
Proof.
  intros H. unfold div_i32. rewrite div_t_nz by lia. apply chk_in.
  unfold in_i32, in_range, i32_min, i32_max in *. 
  lia.
Qed.
Lemma rem_i32_100 y : in_i32 y = true -> rem_i32 y 100 = Val (Z.rem y 100).
Proof.
  intros H. unfold rem_i32. rewrite rem_t_nz by lia.
  pose proof (div_i32_100 y H) as D. unfold div_i32 in D. rewrite div_t_nz in D by lia.
  unfold chk in D. destruct (in_i32 (Z.quot y 100)); [reflexivity|discriminate].
Qed.
Lemma quot_rem_nonneg y : 0 <= y -> Z.quot y 100 = y / 100 /\ Z.rem y 100 = y mod 100.
Proof. intros H. split; [apply Z.quot_div_nonneg; lia|apply Z.rem_mod_nonneg; lia]. Qed.

Ltac ry_start :=
  unfold resolve_year, contains, ok_or, checked_mul, checked_add, chko, add_i32, chk.

(** never traps on fields of the struct's types *)
Lemma resolve_year_no_panic y q r : i32v y -> i32v q -> i32v r ->
  exists res, resolve_year y q r = Val res.
Proof.
  intros Hy Hq Hr. destruct y as [yv|], q as [qv|], r as [rv|]; cbn [i32v] in *; ry_start;
  try rewrite (div_i32_100 _ Hy); try rewrite (rem_i32_100 _ Hy); cbn [bind];
  repeat match goal with
  | |- context [if ?c then _ else _] => destruct c eqn:?
  | |- context [match ?c with Some _ => _ | None => _ end] => destruct c eqn:?
  end; cbn [bind orb]; try (eexists; reflexivity).
  all: unfold in_i32, in_range, i32_min, i32_max in *; try lia.
  all: repeat match goal with H : context [if ?c then _ else _] |- _ => destruct c eqn:? end; lia.
Qed.

(** a resolved year agrees with every supplied part of the group *)
Lemma resolve_year_sound y q r Y : i32v y -> resolve_year y q r = Val (Ok (Some Y)) ->
  (forall v, y = Some v -> Y = v) /\
  (forall v, q = Some v -> 0 <= Y /\ Y / 100 = v) /\
  (forall v, r = Some v -> 0 <= Y /\ Y mod 100 = v) /\
  (y = None -> q = None -> exists v, r = Some v /\ Y = pivot v).
Proof.
  intros Hy. destruct y as [yv|], q as [qv|], r as [rv|]; cbn [i32v] in *; ry_start; unfold pivot;
  try rewrite (div_i32_100 _ Hy); try rewrite (rem_i32_100 _ Hy); cbn [bind];
  repeat match goal with
  | |- context [if ?c then _ else _] => destruct c eqn:?
  end; cbn [bind orb unwrap_or]; intros H; inversion H; subst; clear H.
  all: try (pose proof (quot_rem_nonneg Y ltac:(lia)) as [Hq Hr]).
  all: repeat split; intros; try discriminate;
       repeat match goal with H : Some _ = Some _ |- _ => inversion H; subst; clear H end;
       try congruence; cbn [unwrap_or] in *; try lia.
  all: try (eexists; split; [reflexivity|]; destruct (_ <? 70); lia).
Qed.

Lemma resolve_year_none y q r : resolve_year y q r = Val (Ok None) <-> (y = None /\ q = None /\ r = None).
Proof.
  split.
  - destruct y as [yv|], q as [qv|], r as [rv|]; ry_start; unfold div_i32, rem_i32, div_t, rem_t, chk;
    repeat match goal with
    | |- context [if ?c then _ else _] => destruct c eqn:?
    end; cbn [bind orb]; intros H; try discriminate; auto;
    repeat match goal with
    | H : context [if ?c then _ else _] |- _ => destruct c eqn:?
    end; discriminate.
  - intros (-> & -> & ->). reflexivity.
Qed.

(** the parts are those of an actual year [Y] and the group is determinate: the full year, or
    century plus two-digit year, or the two-digit year alone for 1970..2069 *)
Definition group_of (Y : Z) (y q r : option Z) : Prop :=
  (forall v, y = Some v -> v = Y) /\
  (forall v, q = Some v -> 0 <= Y /\ v = Y / 100) /\
  (forall v, r = Some v -> 0 <= Y /\ v = Y mod 100).
Definition determinate (Y : Z) (y q r : option Z) : Prop :=
  y <> None \/ (q <> None /\ r <> None) \/ (q = None /\ r <> None /\ 1970 <= Y <= 2069).

Lemma resolve_year_complete Y y q r : in_i32 Y = true -> group_of Y y q r -> determinate Y y q r ->
  resolve_year y q r = Val (Ok (Some Y)).
Proof.
  intros HY (Gy & Gq & Gr) D.
  destruct y as [yv|], q as [qv|], r as [rv|];
  try (specialize (Gy _ eq_refl)); try (specialize (Gq _ eq_refl)); try (specialize (Gr _ eq_refl)); subst;
  ry_start; try rewrite (div_i32_100 _ HY); try rewrite (rem_i32_100 _ HY); cbn [bind unwrap_or];
  try (pose proof (quot_rem_nonneg Y ltac:(lia)) as [Hq Hr]; rewrite ?Hq, ?Hr).
  all: unfold determinate in D.
  all: repeat match goal with
  | |- context [if ?c then _ else _] => destruct c eqn:?
  end; cbn [bind orb]; try reflexivity.
  all: unfold in_i32, in_range, i32_min, i32_max in *; try lia.
  all: try (do 2 f_equal; lia).
  all: try (exfalso; destruct D as [D|[[D1 D2]|(D1 & D2 & D3)]]; try congruence; lia).
  all: try (destruct D as [D|[[D1 D2]|(D1 & D2 & D3)]]; try congruence; do 3 f_equal; lia).
  all: exfalso; repeat match goal with H : context [if ?c then _ else _] |- _ => destruct c eqn:? end; lia.
Qed.

(** error classes: 'not enough' exactly for a century without year and two-digit year *)
Lemma resolve_year_error y q r e : resolve_year y q r = Val (Err e) ->
  (e = NotEnough /\ y = None /\ q <> None /\ r = None) \/
  ((e = Impossible \/ e = OutOfRange) /\ ~ (y = None /\ r = None)).
Proof.
  destruct y as [yv|], q as [qv|], r as [rv|]; ry_start; unfold div_i32, rem_i32, div_t, rem_t, chk;
  repeat match goal with
  | |- context [if ?c then _ else _] => destruct c eqn:?
  end; cbn [bind orb]; intros H;
  repeat match goal with
  | H : context [if ?c then _ else _] |- _ => destruct c eqn:?
  end; inversion H; subst;
  try (left; repeat split; congruence);
  right; (split; [auto|intros [? ?]; congruence]).
Qed.

(** * to_naive_time *)
Definition u32v (o : option Z) : Prop := match o with Some v => 0 <= v <= u32_max | None => True end.
Definition time_of_fields (hd hm mi s n : Z) : Time.ntime :=
  Time.mk_time ((hd * 12 + hm) * 3600 + mi * 60 + (if s =? 60 then 59 else s))
               ((if s =? 60 then 1000000000 else 0) + n).
Definition time_fields_ok (p : parsed) (hd hm mi : Z) : Prop :=
  p_hour_div_12 p = Some hd /\ p_hour_mod_12 p = Some hm /\ p_minute p = Some mi /\
  0 <= hd <= 1 /\ 0 <= hm <= 11 /\ 0 <= mi <= 59 /\
  0 <= unwrap_or (p_second p) 0 <= 60 /\ 0 <= unwrap_or (p_nanosecond p) 0 <= 999999999 /\
  (p_nanosecond p <> None -> p_second p <> None).
Definition time_missing (p : parsed) : Prop :=
  p_hour_div_12 p = None \/ p_hour_mod_12 p = None \/ p_minute p = None \/
  (p_nanosecond p <> None /\ p_second p = None).
Definition out_of (o : option Z) (hi : Z) : Prop := exists v, o = Some v /\ ~ (0 <= v <= hi).
Definition time_out_of_range (p : parsed) : Prop :=
  out_of (p_hour_div_12 p) 1 \/ out_of (p_hour_mod_12 p) 11 \/ out_of (p_minute p) 59 \/
  out_of (p_second p) 60 \/ out_of (p_nanosecond p) 999999999.

Lemma from_hms_nano_ok h m s n : 0 <= h <= 23 -> 0 <= m <= 59 -> 0 <= s <= 59 ->
  (0 <= n <= 999999999 \/ (s = 59 /\ 1000000000 <= n <= 1999999999)) ->
  Time.from_hms_nano_opt h m s n = Val (Some (Time.mk_time (h * 3600 + m * 60 + s) n)).
Proof.
  intros Hh Hm Hs Hn. unfold Time.from_hms_nano_opt.
  match goal with |- (if ?c then _ else _) = _ => replace c with false by lia end.
  unfold mul_u32, add_u32, chk, in_u32, in_range, u32_max.
  replace ((0 <=? h * 3600) && (h * 3600 <=? 4294967295)) with true by lia. cbn [bind].
  replace ((0 <=? m * 60) && (m * 60 <=? 4294967295)) with true by lia. cbn [bind].
  replace ((0 <=? h * 3600 + m * 60) && (h * 3600 + m * 60 <=? 4294967295)) with true by lia. cbn [bind].
  replace ((0 <=? h * 3600 + m * 60 + s) && (h * 3600 + m * 60 + s <=? 4294967295)) with true by lia.
  reflexivity.
Qed.

Ltac case_field o lo hi :=
  destruct o as [?v|]; cbn [ebind bind contains];
  [ destruct (contains lo hi v) eqn:?E; cbn [ebind bind] | ].

(** complete description of [to_naive_time]: value, error classes, no trap *)
Lemma to_naive_time_spec p :
  u32v (p_hour_div_12 p) -> u32v (p_hour_mod_12 p) -> u32v (p_minute p) -> u32v (p_second p) ->
  u32v (p_nanosecond p) ->
  exists r, to_naive_time p = Val r /\
  match r with
  | Ok t => exists hd hm mi, time_fields_ok p hd hm mi /\
            t = time_of_fields hd hm mi (unwrap_or (p_second p) 0) (unwrap_or (p_nanosecond p) 0)
  | Err NotEnough => time_missing p
  | Err OutOfRange => time_out_of_range p
  | Err _ => False
  end.
Proof.
  unfold to_naive_time, time_fields_ok, time_missing, time_out_of_range, out_of, u32v.
  destruct (p_hour_div_12 p) as [hd|]; [|intros; eexists; split; [reflexivity|]; cbn; auto].
  destruct (contains 0 1 hd) eqn:Ehd;
    [apply contains_spec in Ehd|intros; eexists; split; [reflexivity|]; cbn; left; exists hd; split; [reflexivity|];
       intros X; apply contains_spec in X; congruence].
  destruct (p_hour_mod_12 p) as [hm|]; [|intros; eexists; split; [reflexivity|]; cbn; auto].
  destruct (contains 0 11 hm) eqn:Ehm;
    [apply contains_spec in Ehm|intros; eexists; split; [reflexivity|]; cbn; right; left; exists hm; split; [reflexivity|];
       intros X; apply contains_spec in X; congruence].
  cbn [ebind bind]. unfold mul_u32, add_u32, chk, in_u32, in_range, u32_max.
  replace ((0 <=? hd * 12) && (hd * 12 <=? 4294967295)) with true by lia. cbn [bind].
  replace ((0 <=? hd * 12 + hm) && (hd * 12 + hm <=? 4294967295)) with true by lia. cbn [bind].
  destruct (p_minute p) as [mi|]; [|intros; eexists; split; [reflexivity|]; cbn; auto].
  destruct (contains 0 59 mi) eqn:Emi;
    [apply contains_spec in Emi|intros; eexists; split; [reflexivity|]; cbn; right; right; left; exists mi; split; [reflexivity|];
       intros X; apply contains_spec in X; congruence].
  cbn [ebind bind].
  intros _ _ _ Hs Hn.
  set (s := unwrap_or (p_second p) 0).
  destruct (contains 0 59 s) eqn:Es1; [apply contains_spec in Es1|].
  - cbn [ebind bind].
    destruct (p_nanosecond p) as [n|] eqn:En.
    + destruct (contains 0 999999999 n) eqn:En1.
      * apply contains_spec in En1. destruct (p_second p) as [sv|] eqn:Esv.
        -- cbn [ebind bind]. replace ((0 <=? 0 + n) && (0 + n <=? 4294967295)) with true by lia. cbn [bind].
           unfold ok_or_r. rewrite from_hms_nano_ok by lia. cbn [bind ok_or].
           eexists; split; [reflexivity|]. exists hd, hm, mi. cbn [unwrap_or] in *. fold s.
           split; [repeat split; try lia; congruence|].
           unfold time_of_fields. replace (s =? 60) with false by lia. reflexivity.
        -- cbn [ebind bind]. eexists; split; [reflexivity|]. cbn. right; right; right. split; congruence.
      * cbn [ebind bind]. eexists; split; [reflexivity|]. cbn. right; right; right; right.
        exists n. split; [reflexivity|]. intros X; apply contains_spec in X; congruence.
    + cbn [ebind bind]. replace ((0 <=? 0 + 0) && (0 + 0 <=? 4294967295)) with true by lia. cbn [bind].
      unfold ok_or_r. rewrite from_hms_nano_ok by lia. cbn [bind ok_or].
      eexists; split; [reflexivity|]. exists hd, hm, mi. cbn [unwrap_or] in *. fold s.
      split; [repeat split; try lia; congruence|].
      unfold time_of_fields. replace (s =? 60) with false by lia. reflexivity.
  - destruct (s =? 60) eqn:Es2.
    + cbn [ebind bind].
      assert (Hsv : exists sv, p_second p = Some sv) by (unfold s in *; destruct (p_second p); [eauto|cbn in Es2; lia]).
      destruct Hsv as [sv Hsv]. 
      destruct (p_nanosecond p) as [n|] eqn:En.
      * destruct (contains 0 999999999 n) eqn:En1.
        -- apply contains_spec in En1. rewrite Hsv. cbn [ebind bind].
           replace ((0 <=? 1000000000 + n) && (1000000000 + n <=? 4294967295)) with true by lia. cbn [bind].
           unfold ok_or_r. rewrite from_hms_nano_ok by lia. cbn [bind ok_or].
           eexists; split; [reflexivity|]. exists hd, hm, mi. cbn [unwrap_or] in *. 
           split; [repeat split; try lia; try congruence; unfold s in *; rewrite Hsv in *; cbn [unwrap_or] in *; lia|].
           unfold time_of_fields. rewrite Es2. reflexivity.
        -- cbn [ebind bind]. eexists; split; [reflexivity|]. cbn. right; right; right; right.
           exists n. split; [reflexivity|]. intros X; apply contains_spec in X; congruence.
      * cbn [ebind bind]. replace ((0 <=? 1000000000 + 0) && (1000000000 + 0 <=? 4294967295)) with true by lia. cbn [bind].
        unfold ok_or_r. rewrite from_hms_nano_ok by lia. cbn [bind ok_or].
        eexists; split; [reflexivity|]. exists hd, hm, mi. cbn [unwrap_or] in *.
        split; [repeat split; try lia; try congruence; unfold s in *; rewrite Hsv in *; cbn [unwrap_or] in *; lia|].
        unfold time_of_fields. rewrite Es2. reflexivity.
    + cbn [ebind bind]. eexists; split; [reflexivity|]. cbn. right; right; right; left.
      unfold s in *. destruct (p_second p) as [sv|]; cbn [unwrap_or] in *.
      * exists sv. split; [reflexivity|]. intros X. 
        assert (~ (0 <= sv <= 59)) by (intros Y; apply contains_spec in Y; congruence). lia.
      * exfalso. cbn in Es1. discriminate.
Qed.

Lemma time_of_fields_hms hd hm mi s n :
  0 <= hd <= 1 -> 0 <= hm <= 11 -> 0 <= mi <= 59 -> 0 <= s <= 60 ->
  let t := time_of_fields hd hm mi s n in
  Time.hour t = hd * 12 + hm /\ Time.minute t = mi /\ Time.second t = (if s =? 60 then 59 else s).
Proof.
  intros H1 H2 H3 H4 t. unfold t, time_of_fields, Time.hour, Time.minute, Time.second, Time.hms, Time.udiv, Time.urem.
  cbn [Time.tsecs]. destruct (s =? 60) eqn:E; repeat split; lia.
Qed.

(** SOUNDNESS for the time of day: a successful result agrees with every supplied time field *)
Lemma to_naive_time_sound p t :
  u32v (p_hour_div_12 p) -> u32v (p_hour_mod_12 p) -> u32v (p_minute p) -> u32v (p_second p) ->
  u32v (p_nanosecond p) ->
  to_naive_time p = Val (Ok t) ->
  (forall v, p_hour_div_12 p = Some v -> v = Time.hour t / 12) /\
  (forall v, p_hour_mod_12 p = Some v -> v = Time.hour t mod 12) /\
  (forall v, p_minute p = Some v -> v = Time.minute t) /\
  (forall v, p_second p = Some v -> v = Time.second t + (if Time.nanosecond t >=? 1000000000 then 1 else 0)) /\
  (forall v, p_nanosecond p = Some v -> v = Time.nanosecond t mod 1000000000) /\
  (p_second p = None -> Time.second t = 0 /\ Time.nanosecond t = 0) /\
  (p_nanosecond p = None -> Time.nanosecond t mod 1000000000 = 0).
Proof.
  intros U1 U2 U3 U4 U5 H. destruct (to_naive_time_spec p U1 U2 U3 U4 U5) as (r & Hr & Hspec).
  rewrite H in Hr. inversion Hr; subst r. destruct Hspec as (hd & hm & mi & F & ->).
  destruct F as (F1 & F2 & F3 & R1 & R2 & R3 & R4 & R5 & R6).
  destruct (time_of_fields_hms hd hm mi (unwrap_or (p_second p) 0) (unwrap_or (p_nanosecond p) 0) R1 R2 R3 R4)
    as (Hh & Hm & Hs). cbv zeta in Hh, Hm, Hs. rewrite Hh, Hm, Hs.
  unfold Time.nanosecond, time_of_fields. cbn [Time.tfrac].
  repeat split; intros.
  - rewrite F1 in H0. inversion H0. lia.
  - rewrite F2 in H0. inversion H0. lia.
  - congruence.
  - rewrite H0 in *. cbn [unwrap_or] in *. destruct (v =? 60) eqn:E.
    + replace (1000000000 + unwrap_or (p_nanosecond p) 0 >=? 1000000000) with true by lia. lia.
    + replace (0 + unwrap_or (p_nanosecond p) 0 >=? 1000000000) with false by lia. lia.
  - rewrite H0 in *. cbn [unwrap_or] in *. destruct (unwrap_or (p_second p) 0 =? 60); lia.
  - rewrite H0 in *. cbn [unwrap_or]. cbn. reflexivity.
  - rewrite H0 in *. cbn [unwrap_or] in *. cbn [Z.eqb].
    destruct (p_nanosecond p) as [n|]; [exfalso; apply R6; congruence|]. reflexivity.
  - rewrite H0. cbn [unwrap_or]. destruct (unwrap_or (p_second p) 0 =? 60); reflexivity.
Qed.

(** COMPLETENESS for the time of day: hour, minute [, second [, nanosecond]] in range resolve to
    exactly that time; second 60 is the leap second *)
Lemma to_naive_time_complete p hd hm mi :
  time_fields_ok p hd hm mi ->
  to_naive_time p = Val (Ok (time_of_fields hd hm mi (unwrap_or (p_second p) 0) (unwrap_or (p_nanosecond p) 0))).
Proof.
  intros F. pose proof F as (F1 & F2 & F3 & R1 & R2 & R3 & R4 & R5 & R6).
  assert (U : forall o, (forall v, o = Some v -> 0 <= v <= 999999999) -> u32v o).
  { intros [v|] Hv; cbn; [specialize (Hv v eq_refl); unfold u32_max; lia|exact I]. }
  destruct (to_naive_time_spec p) as (r & Hr & Hspec).
  - rewrite F1. cbn. unfold u32_max. lia.
  - rewrite F2. cbn. unfold u32_max. lia.
  - rewrite F3. cbn. unfold u32_max. lia.
  - apply U. intros v Hv. rewrite Hv in R4. cbn in R4. lia.
  - apply U. intros v Hv. rewrite Hv in R5. cbn in R5. lia.
  - rewrite Hr. destruct r as [t|e].
    + destruct Hspec as (hd' & hm' & mi' & F' & ->). destruct F' as (F1' & F2' & F3' & _).
      rewrite F1 in F1'. rewrite F2 in F2'. rewrite F3 in F3'. inversion F1'. inversion F2'. inversion F3'. reflexivity.
    + exfalso. destruct e; try exact Hspec.
      * destruct Hspec as [(v & Hv & Hn)|[(v & Hv & Hn)|[(v & Hv & Hn)|[(v & Hv & Hn)|(v & Hv & Hn)]]]].
        -- rewrite F1 in Hv. inversion Hv. lia.
        -- rewrite F2 in Hv. inversion Hv. lia.
        -- rewrite F3 in Hv. inversion Hv. lia.
        -- rewrite Hv in R4. cbn in R4. lia.
        -- rewrite Hv in R5. cbn in R5. lia.
      * destruct Hspec as [X|[X|[X|[X1 X2]]]]; try congruence. apply R6 in X1. congruence.
Qed.

(** * Inversion of the monads *)
Lemma bind_val {X Y} (x : R X) (f : X -> R Y) r : bind x f = Val r -> exists a, x = Val a /\ f a = Val r.
Proof. destruct x; cbn; intros H; try discriminate. eauto. Qed.
Lemma ebind_ok {X Y} (x : R (res X)) (f : X -> R (res Y)) r :
  ebind x f = Val (Ok r) -> exists a, x = Val (Ok a) /\ f a = Val (Ok r).
Proof.
  unfold ebind. intros H. apply bind_val in H. destruct H as ([a|e] & Hx & Hf); [eauto|discriminate].
Qed.
Lemma andr_true a b : andr a b = Val true -> a = Val true /\ b = Val true.
Proof.
  unfold andr. intros H. apply bind_val in H. destruct H as (x & Hx & Hf). destruct x; [auto|discriminate].
Qed.
Lemma ok_or_r_ok {X} (x : R (option X)) e a : ok_or_r x e = Val (Ok a) -> x = Val (Some a).
Proof.
  unfold ok_or_r, ok_or. intros H. apply bind_val in H. destruct H as ([v|] & Hx & Hf); inversion Hf. subst. reflexivity.
Qed.
Lemma div_i32_val y a : div_i32 y 100 = Val a -> a = Z.quot y 100.
Proof.
  unfold div_i32, div_t, chk. cbn [Z.eqb]. destruct (in_i32 (Z.quot y 100)); intros H; inversion H. reflexivity.
Qed.
Lemma rem_i32_val y a : rem_i32 y 100 = Val a -> a = Z.rem y 100.
Proof.
  unfold rem_i32, rem_t. cbn [Z.eqb]. destruct (in_i32 (Z.quot y 100)); intros H; inversion H. reflexivity.
Qed.

Ltac inv_step :=
  match goal with
  | H : ebind _ _ = Val (Ok _) |- _ => apply ebind_ok in H; destruct H as (? & ? & ?)
  | H : bind _ _ = Val _ |- _ => apply bind_val in H; destruct H as (? & ? & ?)
  | H : andr _ _ = Val true |- _ => apply andr_true in H; destruct H as (? & ?)
  | H : ok_or_r _ _ = Val (Ok _) |- _ => apply ok_or_r_ok in H
  | H : Val _ = Val _ |- _ => inversion H; subst; clear H
  end.

(** * The three verifiers: which supplied field each of them compares *)
Definition year_parts_sound (y q r : option Z) (Y : Z) : Prop :=
  (forall v, y = Some v -> Y = v) /\
  (forall v, q = Some v -> 0 <= Y /\ Y / 100 = v) /\
  (forall v, r = Some v -> 0 <= Y /\ Y mod 100 = v).

Lemma parts_check_sound y q r Y a b :
  (if Y >=? 0 then let* a := div_i32 Y 100 in let* b := rem_i32 Y 100 in Val (Some a, Some b)
   else Val (None, None)) = Val (a, b) ->
  (unwrap_or y Y =? Y) && opt_eqb (opt_or q a) a && opt_eqb (opt_or r b) b = true ->
  year_parts_sound y q r Y.
Proof.
  intros Hab Hc. apply andb_prop in Hc. destruct Hc as [Hc H3]. apply andb_prop in Hc. destruct Hc as [H1 H2].
  destruct (Y >=? 0) eqn:E.
  - repeat inv_step. apply div_i32_val in H. apply rem_i32_val in H0. subst.
    destruct (quot_rem_nonneg Y ltac:(lia)) as [Hq Hr]. rewrite Hq, Hr in *.
    repeat split; intros; subst; cbn [unwrap_or opt_or opt_eqb] in *; lia.
  - inversion Hab; subst. repeat split; intros; subst; cbn [unwrap_or opt_or opt_eqb] in *; try lia; discriminate.
Qed.

Lemma verify_ymd_true p d : verify_ymd p d = Val true ->
  year_parts_sound (p_year p) (p_year_div_100 p) (p_year_mod_100 p) (Date.d_year d) /\
  (forall v, p_month p = Some v -> Date.d_month d = Val v) /\
  (forall v, p_day p = Some v -> Date.d_day d = Val v).
Proof.
  unfold verify_ymd. intros H. repeat inv_step. destruct x as [a b].
  repeat inv_step.
  apply andb_prop in H4. destruct H4 as [H4 Hd]. apply andb_prop in H4. destruct H4 as [H4 Hm].
  split; [eapply parts_check_sound; eauto|].
  split; intros v Hv; rewrite Hv in *; cbn [unwrap_or] in *.
  - rewrite H0. f_equal. lia.
  - rewrite H1. f_equal. lia.
Qed.

Definition iso_sound (p : parsed) (d : Z) : Prop :=
  exists iw, Date.d_iso_week d = Val iw /\
  year_parts_sound (p_isoyear p) (p_isoyear_div_100 p) (p_isoyear_mod_100 p) (Date.iw_year iw) /\
  (forall v, p_isoweek p = Some v -> Date.iw_week iw = v).

Lemma verify_isoweekdate_true p d : verify_isoweekdate p d = Val true ->
  iso_sound p d /\ (forall v, p_weekday p = Some v -> Date.d_weekday d = Val v).
Proof.
  unfold verify_isoweekdate. intros H. repeat inv_step. destruct x1 as [a b].
  repeat inv_step.
  apply andb_prop in H4. destruct H4 as [H4 Hd]. apply andb_prop in H4. destruct H4 as [H4 Hm].
  split.
  - exists x. split; [assumption|]. split; [eapply parts_check_sound; eauto|].
    intros v Hv. rewrite Hv in *. cbn [unwrap_or] in *. lia.
  - intros v Hv. rewrite Hv in *. cbn [unwrap_or] in *. rewrite H0. f_equal. lia.
Qed.

Lemma verify_ordinal_true p d : verify_ordinal p d = Val true ->
  (forall v, p_ordinal p = Some v -> Date.d_ordinal d = v) /\
  (forall v, p_week_from_sun p = Some v -> Date.weeks_from d WD_SUN = Val (as_i32 v)) /\
  (forall v, p_week_from_mon p = Some v -> Date.weeks_from d WD_MON = Val (as_i32 v)).
Proof.
  unfold verify_ordinal. intros H. repeat inv_step.
  apply andb_prop in H3. destruct H3 as [H3 Hm]. apply andb_prop in H3. destruct H3 as [Ho Hs].
  repeat split; intros v Hv; rewrite Hv in *; cbn [unwrap_or] in *.
  - lia.
  - rewrite H. f_equal. lia.
  - rewrite H0. f_equal. lia.
Qed.

(** * to_naive_date: soundness *)
(** fields of the struct hold values of their Rust types *)
Definition date_fields_typed (p : parsed) : Prop :=
  i32v (p_year p) /\ i32v (p_year_div_100 p) /\ i32v (p_year_mod_100 p) /\
  i32v (p_isoyear p) /\ i32v (p_isoyear_div_100 p) /\ i32v (p_isoyear_mod_100 p) /\
  u32v (p_month p) /\ u32v (p_day p) /\ u32v (p_isoweek p) /\
  (forall v, p_weekday p = Some v -> 0 <= v <= 6).

(** every supplied date field equals the corresponding field of the date [d] *)
Definition date_sound (p : parsed) (d : Z) : Prop :=
  year_parts_sound (p_year p) (p_year_div_100 p) (p_year_mod_100 p) (Date.d_year d) /\
  iso_sound p d /\
  (forall v, p_quarter p = Some v -> Date.d_quarter d = Val v) /\
  (forall v, p_month p = Some v -> Date.d_month d = Val v) /\
  (forall v, p_week_from_sun p = Some v -> Date.weeks_from d WD_SUN = Val (as_i32 v)) /\
  (forall v, p_week_from_mon p = Some v -> Date.weeks_from d WD_MON = Val (as_i32 v)) /\
  (forall v, p_weekday p = Some v -> Date.d_weekday d = Val v) /\
  (forall v, p_ordinal p = Some v -> Date.d_ordinal d = v) /\
  (forall v, p_day p = Some v -> Date.d_day d = Val v).

Lemma year_parts_of_resolve y q r Y : i32v y -> resolve_year y q r = Val (Ok (Some Y)) -> year_parts_sound y q r Y.
Proof.
  intros Hy H. destruct (resolve_year_sound y q r Y Hy H) as (A1 & A2 & A3 & _). repeat split; intros; subst.
  - apply A1; reflexivity.
  - apply (A2 _ eq_refl).
  - apply (A2 _ eq_refl).
  - apply (A3 _ eq_refl).
  - apply (A3 _ eq_refl).
Qed.

Section DateFacts.
  (** Facts about the NaiveDate constructors of Model/Date.v (proved with the calendar in
      Proofs/Date.v by the C01 development); everything below that depends on them is named
      [*_modulo_date]. *)
  Hypothesis Hyp_from_ymd : forall y m d dt,
    in_i32 y = true -> 0 <= m <= u32_max -> 0 <= d <= u32_max ->
    Date.from_ymd_opt y m d = Val (Some dt) ->
    Date.d_year dt = y /\ Date.d_month dt = Val m /\ Date.d_day dt = Val d.
  Hypothesis Hyp_from_isoywd : forall y w wd dt,
    in_i32 y = true -> 0 <= w <= u32_max -> 0 <= wd <= 6 ->
    Date.from_isoywd_opt y w wd = Val (Some dt) ->
    exists iw, Date.d_iso_week dt = Val iw /\ Date.iw_year iw = y /\ Date.iw_week iw = w /\
               Date.d_weekday dt = Val wd.

  Lemma resolve_year_i32 y q r Y : i32v y -> i32v q -> i32v r ->
    resolve_year y q r = Val (Ok (Some Y)) -> in_i32 Y = true.
  Proof.
    intros Hy Hq Hr. destruct y as [yv|], q as [qv|], r as [rv|]; cbn [i32v] in *; ry_start;
    try rewrite (div_i32_100 _ Hy); try rewrite (rem_i32_100 _ Hy); cbn [bind];
    repeat match goal with
    | |- context [if ?c then _ else _] => destruct c eqn:?
    end; cbn [bind orb]; intros H; inversion H; subst; auto.
  Qed.

  Lemma arm_inv (X : R (res Z)) (V : Z -> R bool) d :
    (let! date := X in let* v := V date in Val (Ok (v, date))) = Val (Ok (true, d)) ->
    X = Val (Ok d) /\ V d = Val true.
  Proof.
    intros H. apply ebind_ok in H. destruct H as (a & Ha & H). apply bind_val in H.
    destruct H as (v & Hv & H). inversion H; subst. auto.
  Qed.

  (** SOUNDNESS: a date returned by [to_naive_date] agrees with every supplied date field *)
  Theorem to_naive_date_sound_modulo_date p d :
    date_fields_typed p -> to_naive_date p = Val (Ok d) -> date_sound p d.
  Proof.
    intros (T1 & T2 & T3 & T4 & T5 & T6 & T7 & T8 & T9 & T10) H.
    unfold to_naive_date in H. cbv zeta in H.
    apply ebind_ok in H. destruct H as (gy & Hgy & H).
    apply ebind_ok in H. destruct H as (gi & Hgi & H).
    apply ebind_ok in H. destruct H as ([verified date] & Harm & H).
    destruct verified; cbn [negb] in H; [|discriminate].
    (* the quarter check *)
    assert (Hq : date = d /\ forall v, p_quarter p = Some v -> Date.d_quarter d = Val v).
    { destruct (p_quarter p) as [q|].
      - apply bind_val in H. destruct H as (dq & Hdq & H). destruct (q =? dq) eqn:E; cbn [negb] in H; [|discriminate].
        inversion H; subst. split; [reflexivity|]. intros v Hv. inversion Hv; subst. rewrite Hdq. f_equal. lia.
      - inversion H; subst. split; [reflexivity|]. intros; discriminate. }
    destruct Hq as [-> Hquarter]. clear H.
    (* the arms that call all three verifiers *)
    assert (All3 : forall X,
              (let! date := X in
               let* v := andr (verify_ymd p date) (andr (verify_isoweekdate p date) (verify_ordinal p date)) in
               Val (Ok (v, date))) = Val (Ok (true, d)) -> date_sound p d).
    { intros X HX. apply arm_inv in HX. destruct HX as [_ HV].
      apply andr_true in HV. destruct HV as [V1 HV]. apply andr_true in HV. destruct HV as [V2 V3].
      apply verify_ymd_true in V1. apply verify_isoweekdate_true in V2. apply verify_ordinal_true in V3.
      destruct V1 as (A1 & A2 & A3), V2 as (B1 & B2'), V3 as (C1 & C2 & C3). unfold date_sound. tauto. }
    (* the ISO arm *)
    assert (Iso : forall isoyear isoweek weekday,
              gi = Some isoyear -> p_isoweek p = Some isoweek -> p_weekday p = Some weekday ->
              (let! date := ok_or_r (Date.from_isoywd_opt isoyear isoweek weekday) OutOfRange in
               let* v := andr (verify_ymd p date) (verify_ordinal p date) in Val (Ok (v, date))) = Val (Ok (true, d)) ->
              date_sound p d).
    { intros iy iw wd Egi Ew Ewd HX. clear Harm. subst gi.
      apply arm_inv in HX. destruct HX as [HX HV]. apply ok_or_r_ok in HX.
      apply andr_true in HV. destruct HV as [V1 V3].
      pose proof (resolve_year_i32 _ _ _ _ T4 T5 T6 Hgi) as Hiy.
      rewrite Ew in T9. cbn in T9. specialize (T10 _ Ewd).
      destruct (Hyp_from_isoywd _ _ _ _ Hiy T9 T10 HX) as (w & Hw & Hwy & Hww & Hwwd).
      apply verify_ymd_true in V1. apply verify_ordinal_true in V3.
      destruct V1 as (A1 & A2 & A3), V3 as (C1 & C2 & C3).
      unfold date_sound. split; [exact A1|]. split.
      { exists w. split; [exact Hw|]. split.
        + rewrite Hwy. apply year_parts_of_resolve; assumption.
        + intros v Hv. congruence. }
      split; [exact Hquarter|]. split; [exact A2|]. split; [exact C2|]. split; [exact C3|].
      split; [intros v Hv; congruence|]. split; [exact C1|exact A3]. }
    (* everything after the year-month-day arm *)
    assert (Rest : forall year, gy = Some year ->
      match p_ordinal p with
      | Some ordinal =>
          let! date := ok_or_r (Date.from_yo_opt year ordinal) OutOfRange in
          let* v := andr (verify_ymd p date) (andr (verify_isoweekdate p date) (verify_ordinal p date)) in
          Val (Ok (v, date))
      | None =>
          match p_week_from_sun p, p_weekday p with
          | Some week, Some weekday =>
              let! date := resolve_week_date year week weekday WD_SUN in
              let* v := andr (verify_ymd p date) (andr (verify_isoweekdate p date) (verify_ordinal p date)) in
              Val (Ok (v, date))
          | _, _ =>
              match p_week_from_mon p, p_weekday p with
              | Some week, Some weekday =>
                  let! date := resolve_week_date year week weekday WD_MON in
                  let* v := andr (verify_ymd p date) (andr (verify_isoweekdate p date) (verify_ordinal p date)) in
                  Val (Ok (v, date))
              | _, _ =>
                  match gi, p_isoweek p, p_weekday p with
                  | Some isoyear, Some isoweek, Some weekday =>
                      let! date := ok_or_r (Date.from_isoywd_opt isoyear isoweek weekday) OutOfRange in
                      let* v := andr (verify_ymd p date) (verify_ordinal p date) in Val (Ok (v, date))
                  | _, _, _ => Val (Err NotEnough)
                  end
              end
          end
      end = Val (Ok (true, d)) -> date_sound p d).
    { intros year _ HR.
      destruct (p_ordinal p) as [ordinal|]; [eapply All3; exact HR|].
      destruct (p_week_from_sun p) as [ws|], (p_weekday p) as [wd|] eqn:Ewd; try (eapply All3; exact HR).
      all: destruct (p_week_from_mon p) as [wm|]; try (eapply All3; exact HR).
      all: destruct gi as [iy|]; try discriminate; destruct (p_isoweek p) as [iw|] eqn:Eiw; try discriminate.
      all: eapply Iso; eauto. }
    destruct gy as [year|].
    - destruct (p_month p) as [month|] eqn:Em; [destruct (p_day p) as [day|] eqn:Ed|].
      + (* year, month, day *)
        apply arm_inv in Harm. destruct Harm as [HX HV]. apply ok_or_r_ok in HX.
        apply andr_true in HV. destruct HV as [V2 V3].
        pose proof (resolve_year_i32 _ _ _ _ T1 T2 T3 Hgy) as Hy.
        cbn in T7, T8.
        destruct (Hyp_from_ymd _ _ _ _ Hy T7 T8 HX) as (Y1 & Y2 & Y3).
        apply verify_isoweekdate_true in V2. apply verify_ordinal_true in V3.
        destruct V2 as (B1 & B2'), V3 as (C1 & C2 & C3).
        unfold date_sound. split; [rewrite Y1; apply year_parts_of_resolve; assumption|].
        split; [exact B1|]. split; [exact Hquarter|]. split; [intros v Hv; congruence|].
        split; [exact C2|]. split; [exact C3|]. split; [exact B2'|]. split; [exact C1|].
        intros v Hv; congruence.
      + eapply Rest; [reflexivity|exact Harm].
      + eapply Rest; [reflexivity|exact Harm].
    - destruct gi as [iy|]; [|discriminate].
      destruct (p_isoweek p) as [iw|] eqn:Eiw; [|discriminate].
      destruct (p_weekday p) as [wd|] eqn:Ewd; [|discriminate].
      eapply Iso; eauto.
  Qed.
End DateFacts.
